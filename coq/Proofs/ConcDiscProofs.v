(* C13 - Discover with a predicate that asks the loader (Model/ConcDisc.v): with the predicate called outside the
   loader's lock - the code - no thread that is parked holds a lock, no writer ever waits, every thread that has
   not finished can move, and every enabled step decreases a measure: no deadlock, every operation returns.  With
   the predicate called under the read lock two threads block each other. *)
From Coq Require Import NArith Arith Bool List Lia.
From PcoreV Require Import Model.Conc Model.ConcDisc Proofs.ConcProofs.
Import ListNotations.

(* ---- CbOutside: nothing is held, nobody waits --------------------------------------------------------------- *)

Lemma read_held_outside thr nt t d : read_held CbOutside thr nt t d = false.
Proof. unfold read_held. induction (others nt t) as [|u us IH]; cbn; auto. Qed.

Definition nowait (st : dstate) : Prop := forall u d, waits_lock (d_pc (ds_thr st u)) d = false.

Lemma writer_waits_nowait st nt t d : nowait st -> writer_waits (ds_thr st) nt t d = false.
Proof.
  intros H. unfold writer_waits. induction (others nt t) as [|u us IH]; cbn [existsb]; auto.
  rewrite H. exact IH.
Qed.

Lemma can_read_nowait cfg st nt t l : nowait st -> can_read cfg (ds_thr st) nt t l = true.
Proof.
  intros H. unfold can_read. induction (chain cfg l) as [|d ds IH]; cbn [existsb]; auto.
  rewrite writer_waits_nowait by assumption. exact IH.
Qed.

Lemma nowait_init p : nowait (dinit p).
Proof. intros u d. reflexivity. Qed.

Lemma dmove_facts st t sh' p' todo' evs :
  nowait st -> (forall d, waits_lock p' d = false) ->
  nowait (dmove st t sh' p' todo' evs)
  /\ (forall u, u <> t -> ds_thr (dmove st t sh' p' todo' evs) u = ds_thr st u)
  /\ ds_thr (dmove st t sh' p' todo' evs) t = mkDT p' todo'.
Proof.
  intros Hn Hp. unfold dmove; cbn [ds_thr]. repeat split.
  - intros u d. cbn [ds_thr]. destruct (Nat.eq_dec u t) as [->|Hne].
    + rewrite upd1_eq. cbn [d_pc]. apply Hp.
    + rewrite upd1_neq by assumption. apply Hn.
  - intros u Hne. now rewrite upd1_neq.
  - now rewrite upd1_eq.
Qed.

(* ---- the measure ---------------------------------------------------------------------------------------------- *)

Definition drank (p : dpc) : nat :=
  match p with
  | DIdle => 0
  | DWaitW _ _ _ => 1
  | DCb _ ns _ _ pend rest _ => 1 + length pend + length ns * length rest
  end.

Definition dopw (cfg : config) (o : dop) : nat :=
  match o with
  | DDiscover l _ ns => 1 + length ns * length (chain cfg l)
  | DDefine _ _ _ => 2
  | DHas _ _ => 1
  end.

Fixpoint dtodow (cfg : config) (os : list dop) : nat :=
  match os with [] => 0 | o :: os' => dopw cfg o + dtodow cfg os' end.

Definition dtm (cfg : config) (th : dthread) : nat := drank (d_pc th) + dtodow cfg (d_todo th).

Lemma filter_len {A} (f : A -> bool) l : length (filter f l) <= length l.
Proof. induction l as [|a l IH]; cbn; [lia|]. destruct (f a); cbn; lia. Qed.

Lemma offer_shorter cfg sh askb d : forall pend found k p f,
  offer cfg sh askb d pend found = (Some (k, p), f) -> length p < length pend.
Proof.
  induction pend as [|k0 pend IH]; intros found k p f H; cbn [offer] in H; [discriminate|].
  destruct (anc_has cfg sh d k0).
  - apply IH in H. cbn [length]. lia.
  - destruct askb.
    + inversion H; subst. cbn [length]. lia.
    + apply IH in H. cbn [length]. lia.
Qed.

Lemma levels_rank cfg sh askb ns : forall rest found d k p rest' f,
  levels cfg sh askb ns rest found = (Some (d, k, p, rest'), f) ->
  1 + length p + length ns * length rest' <= length ns * length rest.
Proof.
  induction rest as [|d0 rest IH]; intros found d k p rest' f H; cbn [levels] in H; [discriminate|].
  cbn [length]. rewrite Nat.mul_succ_r.
  destruct (offer cfg sh askb d0 (filter (bound sh d0) ns) found) as [[[k1 p1]|] f1] eqn:Ho.
  - pose proof (filter_len (bound sh d0) ns). apply offer_shorter in Ho. inversion H; subst. lia.
  - apply IH in H. lia.
Qed.

Lemma disc_go_nowait t l askb ns r d : waits_lock (fst (disc_go t l askb ns r)) d = false.
Proof. destruct r as [[[[[d0 k] p] rest]|] f]; reflexivity. Qed.

(* one step of a thread that has not finished: its measure decreases, the other threads stay, nobody waits *)
Lemma dstep_dec cfg nt st t :
  nowait st -> ddone (ds_thr st t) = false ->
  dtm cfg (ds_thr (dstep CbOutside cfg nt st t) t) < dtm cfg (ds_thr st t)
  /\ (forall u, u <> t -> ds_thr (dstep CbOutside cfg nt st t) u = ds_thr st u)
  /\ nowait (dstep CbOutside cfg nt st t).
Proof.
  intros Hn Hd. unfold dstep, ddone, dtm in *.
  destruct (d_pc (ds_thr st t)) as [|l n v|l ns d k pend rest found] eqn:Hpc.
  - destruct (d_todo (ds_thr st t)) as [|o todo] eqn:Htodo; [discriminate|].
    destruct o as [l askb ns|l n v|l n].
    + rewrite can_read_nowait by assumption.
      destruct (levels cfg (ds_sh st) askb ns (chain cfg l) []) as [[[[[d k] p] rest']|] f] eqn:Hl; cbn [disc_go].
      * destruct (dmove_facts st t (ds_sh st) (DCb l ns d k p rest' f) todo [] Hn) as (Hn' & Hoth & Hme); [reflexivity|].
        split; [|split; assumption]. rewrite Hme. cbn [d_pc d_todo drank dtodow dopw].
        apply levels_rank in Hl. lia.
      * destruct (dmove_facts st t (ds_sh st) DIdle todo [DEv t (DDiscover l askb ns) (DNames f)] Hn) as (Hn' & Hoth & Hme); [reflexivity|].
        split; [|split; assumption]. rewrite Hme. cbn [d_pc d_todo drank dtodow dopw]. lia.
    + rewrite read_held_outside. unfold do_define.
      destruct (set_entry (ds_sh st) l n (Some v)) as [sh' r].
      destruct (dmove_facts st t sh' DIdle todo [DEv t (DDefine l n v) (define_res r)] Hn) as (Hn' & Hoth & Hme); [reflexivity|].
      split; [|split; assumption]. rewrite Hme. cbn [d_pc d_todo drank dtodow dopw]. lia.
    + rewrite can_read_nowait by assumption.
      destruct (dmove_facts st t (ds_sh st) DIdle todo [DEv t (DHas l n) (DBool (chain_has cfg (ds_sh st) l n))] Hn) as (Hn' & Hoth & Hme); [reflexivity|].
      split; [|split; assumption]. rewrite Hme. cbn [d_pc d_todo drank dtodow dopw]. lia.
  - rewrite read_held_outside. unfold do_define.
    destruct (set_entry (ds_sh st) l n (Some v)) as [sh' r].
    destruct (dmove_facts st t sh' DIdle (d_todo (ds_thr st t)) [DEv t (DDefine l n v) (define_res r)] Hn) as (Hn' & Hoth & Hme); [reflexivity|].
    split; [|split; assumption]. rewrite Hme. cbn [d_pc d_todo drank]. lia.
  - rewrite can_read_nowait by assumption.
    set (found' := if chain_has cfg (ds_sh st) l k then found ++ [k] else found).
    destruct (offer cfg (ds_sh st) true d pend found') as [[[k1 p1]|] f1] eqn:Ho.
    + cbn [disc_go].
      destruct (dmove_facts st t (ds_sh st) (DCb l ns d k1 p1 rest f1) (d_todo (ds_thr st t)) [] Hn) as (Hn' & Hoth & Hme); [reflexivity|].
      split; [|split; assumption]. rewrite Hme. cbn [d_pc d_todo drank]. apply offer_shorter in Ho. lia.
    + destruct (levels cfg (ds_sh st) true ns rest f1) as [[[[[d2 k2] p2] rest2]|] f2] eqn:Hl; cbn [disc_go].
      * destruct (dmove_facts st t (ds_sh st) (DCb l ns d2 k2 p2 rest2 f2) (d_todo (ds_thr st t)) [] Hn) as (Hn' & Hoth & Hme); [reflexivity|].
        split; [|split; assumption]. rewrite Hme. cbn [d_pc d_todo drank]. apply levels_rank in Hl. lia.
      * destruct (dmove_facts st t (ds_sh st) DIdle (d_todo (ds_thr st t)) [DEv t (DDiscover l true ns) (DNames f2)] Hn) as (Hn' & Hoth & Hme); [reflexivity|].
        split; [|split; assumption]. rewrite Hme. cbn [d_pc d_todo drank]. lia.
Qed.

Lemma dstep_done m cfg nt st t : ddone (ds_thr st t) = true -> dstep m cfg nt st t = st.
Proof.
  unfold ddone, dstep. destruct (d_pc (ds_thr st t)); try discriminate.
  destruct (d_todo (ds_thr st t)); [reflexivity|discriminate].
Qed.

Lemma nowait_step cfg nt st t : nowait st -> nowait (dstep CbOutside cfg nt st t).
Proof.
  intros Hn. destruct (ddone (ds_thr st t)) eqn:Hd.
  - now rewrite dstep_done.
  - now destruct (dstep_dec cfg nt st t Hn Hd) as (_ & _ & H).
Qed.

Lemma dexec_inv (I : dstate -> Prop) m cfg p :
  I (dinit p) -> (forall st t, I st -> I (dstep m cfg (length p) st t)) -> forall s, I (dexec m cfg p s).
Proof.
  intros H0 HS s. unfold dexec. generalize (dinit p) H0.
  induction s as [|t s IH]; intros st Hst; cbn [fold_left]; auto.
Qed.

Lemma nowait_exec cfg p s : nowait (dexec CbOutside cfg p s).
Proof. apply dexec_inv; [apply nowait_init | intros; now apply nowait_step]. Qed.

(* ---- no deadlock ------------------------------------------------------------------------------------------------ *)

Lemma denabled_outside cfg nt st t :
  nowait st -> ddone (ds_thr st t) = false -> denabled CbOutside cfg nt st t = true.
Proof.
  intros Hn Hd. unfold denabled, ddone in *.
  destruct (d_pc (ds_thr st t)).
  - destruct (d_todo (ds_thr st t)) as [|[l askb ns|l n v|l n] todo]; [discriminate| | |]; auto using can_read_nowait.
  - now rewrite read_held_outside.
  - now apply can_read_nowait.
Qed.

Lemma dall_done_false st k : dall_done st k = false -> exists t, t < k /\ ddone (ds_thr st t) = false.
Proof.
  induction k as [|k IH]; cbn [dall_done]; [discriminate|]. intros H.
  apply andb_false_iff in H. destruct H as [H|H].
  - exists k. split; [lia|assumption].
  - destruct (IH H) as (t & Hlt & Hn). exists t. split; [lia|assumption].
Qed.

Lemma no_deadlock_dst cfg k st :
  nowait st -> dall_done st k = false -> exists t, t < k /\ denabled CbOutside cfg k st t = true.
Proof.
  intros Hn Hd. destruct (dall_done_false _ _ Hd) as (t & Hlt & Hnd).
  exists t. split; [assumption|]. now apply denabled_outside.
Qed.

Lemma disc_no_deadlock cfg p s :
  dall_done (dexec CbOutside cfg p s) (length p) = false ->
  exists t, t < length p /\ denabled CbOutside cfg (length p) (dexec CbOutside cfg p s) t = true.
Proof. apply no_deadlock_dst. apply nowait_exec. Qed.

(* ---- every operation returns ------------------------------------------------------------------------------------ *)

Fixpoint dtotal (cfg : config) (st : dstate) (k : nat) : nat :=
  match k with 0 => 0 | S k' => dtm cfg (ds_thr st k') + dtotal cfg st k' end.

Lemma dtotal_same cfg st st' k :
  (forall t, t < k -> ds_thr st' t = ds_thr st t) -> dtotal cfg st' k = dtotal cfg st k.
Proof.
  induction k as [|k IH]; intros H; cbn [dtotal]; [reflexivity|].
  rewrite H by lia. rewrite IH; [reflexivity|]. intros; apply H; lia.
Qed.

Lemma dtotal_decreases cfg nt st t k :
  nowait st -> t < k -> ddone (ds_thr st t) = false ->
  dtotal cfg (dstep CbOutside cfg nt st t) k < dtotal cfg st k.
Proof.
  intros Hn Hlt Hd. destruct (dstep_dec cfg nt st t Hn Hd) as (Hdec & Hsame & _).
  induction k as [|k IH]; [lia|]. cbn [dtotal].
  destruct (Nat.eq_dec t k) as [->|Hne].
  - rewrite (dtotal_same cfg st (dstep CbOutside cfg nt st k) k); [lia|]. intros t' Ht'. apply Hsame. lia.
  - rewrite Hsame by auto. assert (Hk : t < k) by lia. specialize (IH Hk). lia.
Qed.

Lemma can_complete_dst cfg nt k : forall m st,
  nowait st -> dtotal cfg st k <= m ->
  exists s', dall_done (fold_left (dstep CbOutside cfg nt) s' st) k = true.
Proof.
  induction m as [|m IH]; intros st Hn Hm.
  - destruct (dall_done st k) eqn:Hd; [exists []; exact Hd|].
    destruct (dall_done_false _ _ Hd) as (t & Hlt & Hnd).
    pose proof (dtotal_decreases cfg nt st t k Hn Hlt Hnd). lia.
  - destruct (dall_done st k) eqn:Hd; [exists []; exact Hd|].
    destruct (dall_done_false _ _ Hd) as (t & Hlt & Hnd).
    pose proof (dtotal_decreases cfg nt st t k Hn Hlt Hnd) as Hdec.
    destruct (IH (dstep CbOutside cfg nt st t)) as [s' Hs'].
    + now apply nowait_step.
    + lia.
    + exists (t :: s'). exact Hs'.
Qed.

Lemma disc_can_complete cfg p s :
  exists s', dall_done (dexec CbOutside cfg p (s ++ s')) (length p) = true.
Proof.
  destruct (can_complete_dst cfg (length p) (length p) (dtotal cfg (dexec CbOutside cfg p s) (length p))
              (dexec CbOutside cfg p s)) as [s' Hs'].
  - apply nowait_exec.
  - lia.
  - exists s'. unfold dexec in *. now rewrite fold_left_app.
Qed.

(* ---- the predicate under the read lock: two threads block each other ------------------------------------------ *)

Definition cfg_sa : config := [mkL None false [] []; mkL (Some 0) false [] []].
Definition dv0 : val := mkV 0 None.
Definition dv1 : val := mkV 1 None.
Definition prog_m5 : dprog := [[DDefine 1 0%N dv0; DDiscover 1 true [0%N]]; [DDefine 1 1%N dv1]].
Definition sched_m5 : sched := [0; 0; 1].

Lemma callback_under_lock_deadlocks :
  let st := dexec CbUnderLock cfg_sa prog_m5 sched_m5 in
  dall_done st 2 = false /\ denabled CbUnderLock cfg_sa 2 st 0 = false /\ denabled CbUnderLock cfg_sa 2 st 1 = false.
Proof. vm_compute. repeat split. Qed.

(* the same program and schedule with the code as it is: both threads can move *)
Lemma callback_outside_moves :
  let st := dexec CbOutside cfg_sa prog_m5 sched_m5 in
  denabled CbOutside cfg_sa 2 st 0 = true /\
  dresults_of 0 (ds_log (dexec CbOutside cfg_sa prog_m5 (sched_m5 ++ [0]))) = [DDefined dv0; DNames [0%N]].
Proof. vm_compute. repeat split. Qed.

(* ---- open finding discover-shadowed-name: a name bound in two loaders of the chain is missed -------------------- *)

Definition cfg_sab : config := [mkL None false [] []; mkL (Some 0) false [] []; mkL (Some 1) false [] []].
Definition dv4 : val := mkV 4 (Some 0%N).
Definition dv5 : val := mkV 5 (Some 0%N).
Definition prog_shadow : dprog :=
  [[DHas 1 0%N; DDefine 2 0%N dv5; DDefine 2 1%N dv0; DDiscover 2 true [1%N; 0%N]]; [DDefine 1 0%N dv4; DHas 2 0%N]].
Definition sched_shadow : sched := [0; 0; 0; 0; 1; 0; 1].

Lemma discover_shadowed_name_missed :
  let st := dexec CbOutside cfg_sab prog_shadow sched_shadow in
  dall_done st 2 = true /\
  dresults_of 0 (ds_log st) = [DBool false; DDefined dv5; DDefined dv0; DNames [1%N]] /\
  dresults_of 1 (ds_log st) = [DDefined dv4; DBool true].
Proof. vm_compute. repeat split. Qed.
