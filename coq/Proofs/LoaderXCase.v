(* LoaderXCase.v — names differing only in letter case denote one entry, for the FULL history language: px.AddTypes and
   declarations of types whose names (the names of the members of a type set included) differ in letter case have the same
   effect and the same result in EVERY state (`xop_cv`, Model/LoaderSpecX.v).  The call sequences the two compile to
   differ in the letter case of the names only (`instr_cv`), and every call of such a pair does the same
   (`set_entry_cv`, `load_entry_cv` of Proofs/LoaderCorollaries.v). *)
From Coq Require Import Arith NArith Bool List Lia.
From PcoreV Require Import Model.Base Model.Loader Model.LoaderSpec Model.LoaderAdd Model.LoaderSpecX Proofs.LoaderNames Proofs.LoaderProofs
  Proofs.LoaderCorollaries Proofs.LoaderAddScoped.
Import ListNotations.

(* ---------------------------------------------------------------------------------------------- *)
(* call sequences that differ in the letter case of names only *)
Definition act_cv (a a' : act) : Prop :=
  match a, a' with
  | ASet r n v, ASet r' n' v' | AUnlessSet r n v, AUnlessSet r' n' v' => r = r' /\ cv (norm n) (norm n') /\ v = v'
  | _, _ => False
  end.

Definition instr_cv (i i' : instr) : Prop :=
  match i, i' with
  | IAct a, IAct a' => act_cv a a'
  | INode p ts, INode p' ts' => p = p' /\ ts = ts'
  | IUnless r n b, IUnless r' n' b' => r = r' /\ cv (norm n) (norm n') /\ Forall2 act_cv b b'
  | ICtx c, ICtx c' => c = c'
  | _, _ => False
  end.

Lemma cv_refl n : cv n n.
Proof. repeat split. Qed.

Lemma act_cv_refl a : act_cv a a.
Proof. destruct a; cbn [act_cv]; repeat split. Qed.

Lemma Forall2_refl {A} (R : A -> A -> Prop) : (forall x, R x x) -> forall l, Forall2 R l l.
Proof. intros H l. induction l; constructor; auto. Qed.

Lemma instr_cv_refl i : instr_cv i i.
Proof.
  destruct i as [a|p ts|r n b|c]; cbn [instr_cv]; [apply act_cv_refl|split; reflexivity| |reflexivity].
  split; [reflexivity|]. split; [apply cv_refl|apply Forall2_refl; exact act_cv_refl].
Qed.

(* ---------------------------------------------------------------------------------------------- *)
(* running them: every call of a pair does the same in every state *)
Section ExecCv.
  Variable cfg : config.
  Variables L base : nat.

  Lemma step_define_cv st l n n' v : cv (norm n) (norm n') -> step cfg st (ODefine l n v) = step cfg st (ODefine l n' v).
  Proof. intros H. cbn [step]. rewrite (set_entry_cv _ _ _ _ _ _ H). reflexivity. Qed.

  Lemma step_loadentry_cv st l n n' : cv (norm n) (norm n') -> step cfg st (OLoadEntry l n) = step cfg st (OLoadEntry l n').
  Proof. intros H. cbn [step]. unfold fuel_of. rewrite (cv_len _ _ H), (load_entry_cv _ _ _ _ _ H). reflexivity. Qed.

  Lemma exec_set_cv st r n n' v : cv (norm n) (norm n') ->
    exec_set (step cfg) L base st r n v = exec_set (step cfg) L base st r n' v.
  Proof. intros H. unfold exec_set. rewrite (step_define_cv st _ n n' v H). reflexivity. Qed.

  Lemma exec_act_cv st a a' : act_cv a a' -> exec_act (step cfg) L base st a = exec_act (step cfg) L base st a'.
  Proof.
    destruct a as [r n v|r n v], a' as [r' n' v'|r' n' v']; cbn [act_cv]; try contradiction; intros (<- & H & <-); cbn [exec_act].
    - apply exec_set_cv. exact H.
    - rewrite (step_loadentry_cv st _ n n' H).
      destruct (step cfg st (OLoadEntry (ref_idx L base r) n')) as [s1 o]. destruct o as [| | | |[| |]| | | | |]; try reflexivity;
        apply exec_set_cv; exact H.
  Qed.

  Lemma exec_acts_cv : forall b b', Forall2 act_cv b b' ->
    forall st, exec_acts (step cfg) L base st b = exec_acts (step cfg) L base st b'.
  Proof.
    induction 1 as [|a a' b b' Ha _ IH]; intros st; [reflexivity|].
    cbn [exec_acts]. rewrite (exec_act_cv st a a' Ha).
    destruct (exec_act (step cfg) L base st a') as [s1 o]. destruct o; try reflexivity. apply IH.
  Qed.

  Lemma exec_instr_cv st i i' : instr_cv i i' ->
    exec_instr (step cfg) add_node (@length lnode) L base st i = exec_instr (step cfg) add_node (@length lnode) L base st i'.
  Proof.
    destruct i as [a|p ts|r n b|c], i' as [a'|p' ts'|r' n' b'|c']; cbn [instr_cv]; try contradiction.
    - intros H. cbn [exec_instr]. apply exec_act_cv. exact H.
    - intros [<- <-]. reflexivity.
    - intros (<- & H & Hb). cbn [exec_instr]. rewrite (step_loadentry_cv st _ n n' H).
      destruct (step cfg st (OLoadEntry (ref_idx L base r) n')) as [s1 o]. destruct o as [| | | |[| |]| | | | |]; try reflexivity;
        apply exec_acts_cv; exact Hb.
    - intros <-. reflexivity.
  Qed.

  Lemma exec_cv : forall is is', Forall2 instr_cv is is' ->
    forall st, exec (step cfg) add_node (@length lnode) L base st is = exec (step cfg) add_node (@length lnode) L base st is'.
  Proof.
    induction 1 as [|i i' is is' Hi _ IH]; intros st; [reflexivity|].
    cbn [exec]. rewrite (exec_instr_cv st i i' Hi).
    destruct (exec_instr (step cfg) add_node (@length lnode) L base st i') as [s1 o]. destruct o; try reflexivity. apply IH.
  Qed.
End ExecCv.

(* ---------------------------------------------------------------------------------------------- *)
(* types whose names differ in letter case compile to such a pair of call sequences *)

Lemma to_lower_trim s s' : to_lower s = to_lower s' -> to_lower (trim_cc s) = to_lower (trim_cc s').
Proof.
  intros H. destruct s as [|c [|d s]], s' as [|c' [|d' s']]; try discriminate H; try exact H.
  rewrite !to_lower_cons in H. injection H as Hc Hd Hs. cbn [trim_cc].
  rewrite <- (lower_byte_colon c), <- (lower_byte_colon d), Hc, Hd, (lower_byte_colon c'), (lower_byte_colon d').
  destruct (N.eqb c' c_colon && N.eqb d' c_colon); [exact Hs|].
  rewrite !to_lower_cons, Hc, Hd, Hs. reflexivity.
Qed.

Section CompileCv.
  Variable auth : str.

  Lemma tn_of_cv ns n n' : to_lower n = to_lower n' -> cv (norm (tn_of auth ns n)) (norm (tn_of auth ns n')).
  Proof.
    intros H. unfold norm, tn_of, new_typed_name, cv. cbn [tn_auth tn_ns tn_name].
    split; [reflexivity|]. split; [reflexivity|apply to_lower_trim; exact H].
  Qed.

  Lemma construct_cv tl n n' al ct : to_lower n = to_lower n' ->
    Forall2 act_cv (construct auth tl n al ct) (construct auth tl n' al ct).
  Proof.
    intros H. unfold construct. apply Forall2_app.
    - destruct al; constructor; [|constructor]. cbn [act_cv]. split; [reflexivity|]. split; [apply tn_of_cv; exact H|reflexivity].
    - destruct ct; constructor; [|constructor]. cbn [act_cv]. split; [reflexivity|]. split; [apply tn_of_cv; exact H|reflexivity].
  Qed.

  Lemma set_cv r ns n n' v : to_lower n = to_lower n' -> act_cv (ASet r (tn_of auth ns n) v) (ASet r (tn_of auth ns n') v).
  Proof. intros H. cbn [act_cv]. split; [reflexivity|]. split; [apply tn_of_cv; exact H|reflexivity]. Qed.

  Lemma mt_cv_val m m' : mt_cv m m' -> mt_val m = mt_val m'.
  Proof. intros H. destruct H; reflexivity. Qed.

  Lemma mt_cv_name m m' : mt_cv m m' -> to_lower (mt_name m) = to_lower (mt_name m').
  Proof. intros H. destruct H; cbn [mt_name]; try assumption. reflexivity. Qed.

  Lemma member_instr_cv me m m' : mt_cv m m' -> instr_cv (member_instr auth me m) (member_instr auth me m').
  Proof.
    intros H. destruct H as [n n' v H|n n' v al ct H|n n' v H|n v ms ms' H]; cbn [member_instr instr_cv].
    - split; [reflexivity|]. split; [apply tn_of_cv; exact H|]. constructor; [apply set_cv; exact H|constructor].
    - split; [reflexivity|]. split; [apply tn_of_cv; exact H|]. constructor; [apply set_cv; exact H|apply construct_cv; exact H].
    - split; [reflexivity|]. split; [apply tn_of_cv; exact H|]. constructor; [apply set_cv; exact H|constructor].
    - split; [reflexivity|]. split; [apply cv_refl|]. constructor; [apply act_cv_refl|constructor].
  Qed.

  Definition member_cv (km km' : str * mtype) : Prop := fst km = fst km' /\ mt_cv (snd km) (snd km').

  Lemma tset_of_cv name ms ms' : Forall2 member_cv ms ms' -> tset_of auth name ms = tset_of auth name ms'.
  Proof.
    intros H. unfold tset_of. f_equal. induction H as [|km km' ms ms' [Hk Hm] _ IH]; [reflexivity|].
    cbn [map]. rewrite Hk, (mt_cv_val _ _ Hm), IH. reflexivity.
  Qed.

  Definition plan_rel (x y : list instr * list instr * nat) : Prop :=
    Forall2 instr_cv (fst (fst x)) (fst (fst y)) /\ Forall2 instr_cv (snd (fst x)) (snd (fst y)) /\ snd x = snd y.

  Definition plan_cv_at (m : mtype) : Prop :=
    forall m', mt_cv m m' -> forall h next, plan_rel (plan auth h next m) (plan auth h next m').

  Lemma plan_list_cv : forall ms ms', Forall (fun km => plan_cv_at (snd km)) ms -> Forall2 member_cv ms ms' ->
    forall me nx0, plan_rel (plan_list auth me nx0 ms) (plan_list auth me nx0 ms').
  Proof.
    intros ms ms' Hall H. induction H as [|km km' ms ms' [Hk Hm] _ IH]; intros me nx0.
    - cbn [plan_list]. repeat split; constructor.
    - inversion Hall as [|? ? Hkm Hms]; subst. cbn [plan_list].
      destruct (Hkm (snd km') Hm me nx0) as (R1 & R2 & R3).
      destruct (plan auth me nx0 (snd km)) as [[k1 i1] n1]. destruct (plan auth me nx0 (snd km')) as [[k1' i1'] n1'].
      cbn [fst snd] in R1, R2, R3. subst n1'.
      fold (plan_list auth me).
      destruct (IH Hms me n1) as (S1 & S2 & S3).
      destruct (plan_list auth me n1 ms) as [[k2 i2] n2]. destruct (plan_list auth me n1 ms') as [[k2' i2'] n2'].
      cbn [fst snd] in *. subst n2'.
      split; [apply Forall2_app; assumption|]. split; [|reflexivity].
      apply Forall2_app; [assumption|]. constructor; [apply member_instr_cv; exact Hm|assumption].
  Qed.

  Lemma plan_cv m : plan_cv_at m.
  Proof.
    induction m as [n v|n v al ct|n v ms IH|n v] using mtype_ind'; intros m' Hm h next; inversion Hm; subst.
    - cbn [plan]. repeat split; constructor.
    - cbn [plan]. repeat split; constructor.
    - rewrite !plan_set.
      match goal with Hf : Forall2 _ ms ?ms' |- _ =>
        pose proof (plan_list_cv ms ms' IH Hf (HH next) (S next)) as (R1 & R2 & R3);
        rewrite (tset_of_cv n ms ms' Hf) end.
      destruct (plan_list auth (HH next) (S next) ms) as [[k1 i1] n1].
      match goal with |- context [plan_list auth (HH next) (S next) ?ms'] =>
        destruct (plan_list auth (HH next) (S next) ms') as [[k1' i1'] n1'] end.
      cbn [fst snd] in *. subst n1'.
      split; [|split; [assumption|reflexivity]].
      constructor; [apply instr_cv_refl|]. constructor; [apply instr_cv_refl|].
      apply Forall2_app; [assumption|]. constructor; [apply instr_cv_refl|constructor].
    - cbn [plan]. repeat split; repeat constructor.
  Qed.

  Lemma phase1_cv : forall ts ts', Forall2 mt_cv ts ts' -> Forall2 instr_cv (phase1 auth ts) (phase1 auth ts').
  Proof.
    induction 1 as [|t t' ts ts' Ht _ IH]; [constructor|].
    destruct Ht as [n n' v H|n n' v al ct H|n n' v H|n v ms ms' H]; cbn [phase1]; try exact IH;
      (constructor; [cbn [instr_cv]; apply set_cv; exact H|exact IH]).
  Qed.

  Lemma phase1_all_cv : forall ts ts', Forall2 mt_cv ts ts' -> Forall2 instr_cv (phase1_all auth ts) (phase1_all auth ts').
  Proof.
    induction 1 as [|t t' ts ts' Ht _ IH]; [constructor|].
    cbn [phase1_all]. constructor; [|exact IH]. cbn [instr_cv]. rewrite (mt_cv_val _ _ Ht).
    apply set_cv. apply mt_cv_name. exact Ht.
  Qed.

  Lemma phase3_cv : forall ts ts', Forall2 mt_cv ts ts' -> Forall2 instr_cv (phase3 auth ts) (phase3 auth ts').
  Proof.
    induction 1 as [|t t' ts ts' Ht _ IH]; [constructor|].
    destruct Ht as [n n' v H|n n' v al ct H|n n' v H|n v ms ms' H]; cbn [phase3]; try exact IH.
    constructor; [apply instr_cv_refl|exact IH].
  Qed.

  Lemma phase2_cv : forall ts ts', Forall2 mt_cv ts ts' -> forall next,
    Forall2 instr_cv (fst (phase2 auth next ts)) (fst (phase2 auth next ts')) /\
    Forall2 instr_cv (snd (phase2 auth next ts)) (snd (phase2 auth next ts')).
  Proof.
    induction 1 as [|t t' ts ts' Ht _ IH]; intros next; [split; constructor|].
    pose proof Ht as Ht0.
    destruct Ht as [n n' v H|n n' v al ct H|n n' v H|n v ms ms' H].
    - cbn [phase2]. apply IH.
    - cbn [phase2]. destruct (IH next) as [A B].
      destruct (phase2 auth next ts) as [a b]. destruct (phase2 auth next ts') as [a' b']. cbn [fst snd] in *.
      split; [|exact B]. apply Forall2_app; [|exact A].
      pose proof (construct_cv HL n n' al ct H) as Hc. induction Hc; cbn [map]; constructor; assumption.
    - cbn [phase2]. destruct (IH next) as [A B].
      destruct (phase2 auth next ts) as [a b]. destruct (phase2 auth next ts') as [a' b']. cbn [fst snd] in *.
      split; [|exact B]. constructor; [reflexivity|exact A].
    - change (phase2 auth next (MSet n v ms :: ts)) with
        (let '(ks, is, nx) := plan auth HL next (MSet n v ms) in let '(a, b) := phase2 auth nx ts in (ks ++ a, is ++ b)).
      change (phase2 auth next (MSet n v ms' :: ts')) with
        (let '(ks, is, nx) := plan auth HL next (MSet n v ms') in let '(a, b) := phase2 auth nx ts' in (ks ++ a, is ++ b)).
      destruct (plan_cv (MSet n v ms) (MSet n v ms') Ht0 HL next) as (R1 & R2 & R3).
      destruct (plan auth HL next (MSet n v ms)) as [[ks is] nx]. destruct (plan auth HL next (MSet n v ms')) as [[ks' is'] nx'].
      cbn [fst snd] in R1, R2, R3. subst nx'.
      destruct (IH nx) as [A B].
      destruct (phase2 auth nx ts) as [a b]. destruct (phase2 auth nx ts') as [a' b']. cbn [fst snd] in *.
      split; apply Forall2_app; assumption.
  Qed.

  Lemma compile_cv ts ts' : Forall2 mt_cv ts ts' -> Forall2 instr_cv (compile auth ts) (compile auth ts').
  Proof.
    intros H. unfold compile. destruct (phase2_cv ts ts' H 0) as [A B].
    apply Forall2_app; [apply phase1_cv; exact H|]. apply Forall2_app; [exact A|].
    apply Forall2_app; [exact B|apply phase3_cv; exact H].
  Qed.

  Lemma compile_decl_cv ts ts' : Forall2 mt_cv ts ts' -> Forall2 instr_cv (compile_decl auth ts) (compile_decl auth ts').
  Proof.
    intros H. unfold compile_decl. destruct (phase2_cv ts ts' H 0) as [A B].
    apply Forall2_app; [apply phase1_all_cv; exact H|]. apply Forall2_app; [exact A|exact B].
  Qed.
End CompileCv.

(* ---------------------------------------------------------------------------------------------- *)
Theorem xcase_insensitive cfg st x x' : xop_cv x x' -> xstep cfg st x = xstep cfg st x'.
Proof.
  intros H. destruct H as [o o' H|l ts ts' H|l ts ts' H]; cbn [xstep].
  - rewrite (case_insensitive cfg st o o' H). reflexivity.
  - rewrite (exec_cv cfg l (length st) _ _ (compile_cv (cfg_auth cfg) ts ts' H) st). reflexivity.
  - rewrite (exec_cv cfg l (length st) _ _ (compile_decl_cv (cfg_auth cfg) ts ts' H) st). reflexivity.
Qed.

(* the types stay in the domain: a case variant of a well-formed px.AddTypes / declaration is well-formed *)
Lemma mt_cv_refl : forall m, mt_cv m m.
Proof.
  induction m as [n v|n v al ct|n v ms IH|n v] using mtype_ind'; try (constructor; reflexivity).
  constructor. induction IH as [|km ms Hkm _ IHl]; constructor; [split; [reflexivity|exact Hkm]|exact IHl].
Qed.
