(* InferAskProofs.v — histories with questions and asserting operations (Model/InferAsk.v): whatever was inferred,
   asserted (and failed) or described before, every question is answered by the pure functions of Model/Infer.v and
   Model/Lattice.v of the value the object denotes and of the type as it is. *)
From Coq Require Import ZArith NArith Bool List Lia.
From PcoreV Require Import Model.Base Model.Ty Model.Lattice Model.Infer Model.InferHist Model.InferAsk
  Proofs.InferProofs Proofs.InferInst Proofs.InferHistProofs.
Import ListNotations.

Local Arguments Nat.ltb : simpl never.

Section AskProofs.
  Variable rx : str -> str -> bool.
  Variable ns : list node.
  Hypothesis Hwf : wf_dag ns = true.

  Notation vals := (vals_of ns).

  Lemma qstep_ok (st : qstate) (o : qop) : inv rx ns (fst (fst st)) -> qop_ok ns o = true ->
    inv rx ns (fst (fst (qstep rx ns st o))) /\
    (snd (fst (qstep rx ns st o)), snd (qstep rx ns st o)) = qspec_step rx vals (snd (fst st), snd st) o.
  Proof.
    intros Hinv Hop. destruct o as [o|t i|t i|t i|t a]; cbn [qstep qspec_step qop_ok fst snd] in *.
    - destruct (step_ok rx ns Hwf (fst st) o Hinv Hop) as [H1 H2]. split; [exact H1|]. rewrite H2. reflexivity.
    - apply Nat.ltb_lt in Hop. destruct (dt_ok rx ns Hwf (fuel ns) (fst (fst st)) i Hinv Hop Hop) as [H1 H2].
      cbn zeta. cbn [fst snd]. split; [exact H1|]. rewrite H2. reflexivity.
    - apply Nat.ltb_lt in Hop. unfold vat.
      destruct (inst rx true (deref (snd (fst st)) t) (nth i vals VUndef)) eqn:Ei; cbn zeta; cbn [fst snd].
      + split; [exact Hinv|reflexivity].
      + destruct (dt_ok rx ns Hwf (fuel ns) (fst (fst st)) i Hinv Hop Hop) as [H1 _]. split; [exact H1|reflexivity].
    - apply Nat.ltb_lt in Hop. destruct (dt_ok rx ns Hwf (fuel ns) (fst (fst st)) i Hinv Hop Hop) as [H1 _].
      cbn zeta. cbn [fst snd]. split; [exact H1|]. destruct st as [[c r] a]. reflexivity.
    - cbn zeta. cbn [fst snd]. split; [exact Hinv|reflexivity].
  Qed.

  Lemma qrun_from_ok ops : forall st : qstate, inv rx ns (fst (fst st)) -> forallb (qop_ok ns) ops = true ->
    inv rx ns (fst (fst (qrun_from rx ns st ops))) /\
    (snd (fst (qrun_from rx ns st ops)), snd (qrun_from rx ns st ops)) = qspec_from rx vals (snd (fst st), snd st) ops.
  Proof.
    induction ops as [|o r IH]; intros st Hinv Hops; cbn [qrun_from qspec_from fold_left]; [split; [exact Hinv|reflexivity]|].
    cbn [forallb] in Hops. apply andb_true_iff in Hops. destruct Hops as [Ho Hr].
    destruct (qstep_ok st o Hinv Ho) as [H1 H2]. destruct (IH _ H1 Hr) as [H3 H4]. unfold qrun_from in H3, H4.
    split; [exact H3|]. rewrite H4. unfold qspec_from. rewrite H2. reflexivity.
  Qed.

  (* every history of inferences, questions, assertions (passing or failing) and descriptions: the types returned, the
     answers given and the types cached are the pure functions *)
  Theorem ask_pure ops : forallb (qop_ok ns) ops = true ->
    (snd (fst (qrun rx ns ops)), snd (qrun rx ns ops)) = qspec_run rx ns ops /\ inv rx ns (fst (fst (qrun rx ns ops))).
  Proof.
    intros Hops. destruct (qrun_from_ok ops ((empty_cache ns, []), []) (inv_empty rx ns) Hops) as [H1 H2].
    split; [exact H2|exact H1].
  Qed.

  (* the question put at the END of any history *)
  Theorem ask_at_end ops t i : forallb (qop_ok ns) ops = true -> (i < length ns)%nat ->
    let st := qrun rx ns ops in
    let T := deref (snd (fst st)) t in
    snd (qstep rx ns st (QAccepts t i)) =
    snd st ++ [(asg rx true T (infer_detailed rx (nth i vals VUndef)), inst rx true T (nth i vals VUndef))].
  Proof.
    intros Hops Hi st T. destruct (ask_pure ops Hops) as [_ Hinv].
    assert (Ho : qop_ok ns (QAccepts t i) = true) by (cbn [qop_ok]; apply Nat.ltb_lt; exact Hi).
    destruct (qstep_ok st (QAccepts t i) Hinv Ho) as [_ H2]. cbn [qspec_step fst snd] in H2.
    apply (f_equal snd) in H2. cbn [snd] in H2. exact H2.
  Qed.

  Lemma last_snoc {X} (l : list X) (x d : X) : last (l ++ [x]) d = x.
  Proof. induction l as [|y l IH]; [reflexivity|]. cbn [app]. destruct (l ++ [x]) eqn:E; [destruct l; discriminate|]. exact IH. Qed.
End AskProofs.
