(* ResolveProofs.v — lemmas about Model/Resolve.v: the Enum creator (newEnumType3) computes the index-free reading of
   its argument list, never reaches a fault site (enums[idx], enums[:idx]) and terminates; the name test of
   deferred.Resolve never indexes an empty name. *)
From Coq Require Import ZArith NArith Bool List Lia.
From PcoreV Require Import Model.Base Model.Parser Model.Resolve.
Import ListNotations.
Open Scope Z_scope.

Local Arguments Z.of_nat : simpl never.
Local Arguments Z.to_nat : simpl never.
Local Arguments Z.ltb : simpl never.
Local Arguments Z.leb : simpl never.
Local Arguments Z.eqb : simpl never.
Local Arguments Z.add : simpl never.
Local Arguments Z.sub : simpl never.

(* ---- NewEnumType ---------------------------------------------------------------------------------------- *)

Lemma new_enum_type_eq lower e ci :
  new_enum_type lower e ci = EOk (if ci then map lower e else e) ci.
Proof.
  unfold new_enum_type. destruct ci; [|reflexivity].
  destruct e as [|x e]; [reflexivity|].
  replace (0 <? Z.of_nat (length (x :: e))) with true; [reflexivity|].
  symmetry. apply Z.ltb_lt. cbn [length]. lia.
Qed.

(* ---- slices ---------------------------------------------------------------------------------------------- *)

Lemma set_nth_app (written : list str) (s : str) (n : nat) :
  set_nth (written ++ repeat [] (S n)) (length written) s = (written ++ [s]) ++ repeat [] n.
Proof.
  induction written as [|h t IH].
  - reflexivity.
  - cbn [app length set_nth]. rewrite IH. reflexivity.
Qed.

Lemma firstn_written (written rest : list str) :
  firstn (length written) (written ++ rest) = written.
Proof.
  rewrite firstn_app, Nat.sub_diag, firstn_all. cbn [firstn]. apply app_nil_r.
Qed.

(* ---- the loop -------------------------------------------------------------------------------------------- *)

(* Invariant of args.EachWithIndex in newEnumType3: after idx arguments the slice holds the idx strings written so
   far followed by one empty string per remaining argument, its capacity is the number of arguments; the flag is
   still false.  The loop then computes the index-free reading of the remaining arguments. *)
Lemma enum_loop_spec : forall (args : list pv) (written : list str),
  enum_loop (Z.of_nat (length written + length args)) args (Z.of_nat (length written))
            (mkSlice (written ++ repeat [] (length args)) (length written + length args)) false =
  match strings_then_flag args (Z.of_nat (length written)) with
  | inl (vs, ci) => inr (mkSlice (written ++ vs) (length written + length args), ci)
  | inr i => inl (EErr i)
  end.
Proof.
  induction args as [|arg rest IH]; intros written.
  - cbn [enum_loop strings_then_flag length repeat]. reflexivity.
  - assert (Hset : forall s,
      slice_set (mkSlice (written ++ repeat [] (length (arg :: rest))) (length written + length (arg :: rest)))
                (Z.of_nat (length written)) s =
      Some (mkSlice ((written ++ [s]) ++ repeat [] (length rest)) (length written + length (arg :: rest)))).
    { intros s. unfold slice_set. cbn [sl_elems sl_cap length].
      replace ((0 <=? Z.of_nat (length written)) &&
               (Z.of_nat (length written) <? Z.of_nat (length (written ++ repeat [] (S (length rest)))))) with true.
      - rewrite Nat2Z.id, set_nth_app. reflexivity.
      - symmetry. apply andb_true_iff. split; [apply Z.leb_le; lia|].
        apply Z.ltb_lt. rewrite app_length, repeat_length. lia. }
    assert (Hrec : forall s,
      enum_loop (Z.of_nat (length written + length (arg :: rest))) rest (Z.of_nat (length written) + 1)
                (mkSlice ((written ++ [s]) ++ repeat [] (length rest)) (length written + length (arg :: rest))) false =
      match strings_then_flag rest (Z.of_nat (length written) + 1) with
      | inl (vs, ci) => inr (mkSlice (written ++ s :: vs) (length written + length (arg :: rest)), ci)
      | inr i => inl (EErr i)
      end).
    { intros s. specialize (IH (written ++ [s])).
      rewrite app_length in IH. cbn [length] in IH.
      replace (length written + 1 + length rest)%nat with (length written + length (arg :: rest))%nat in IH
        by (cbn [length]; lia).
      replace (Z.of_nat (length written + 1)) with (Z.of_nat (length written) + 1) in IH by lia.
      rewrite IH.
      destruct (strings_then_flag rest (Z.of_nat (length written) + 1)) as [[vs ci]|i]; [|reflexivity].
      rewrite <- app_assoc. reflexivity. }
    destruct arg;
      try (cbn [enum_loop strings_then_flag]; destruct rest; reflexivity);
      try (cbn [enum_loop strings_then_flag]; reflexivity).
    + (* PBool *)
      destruct rest as [|r rest'].
      * cbn [enum_loop strings_then_flag length].
        replace (Z.of_nat (length written) =? Z.of_nat (length written + 1) - 1) with true
          by (symmetry; apply Z.eqb_eq; lia).
        unfold slice_to. cbn [sl_elems sl_cap repeat].
        replace ((0 <=? Z.of_nat (length written)) && (Z.of_nat (length written) <=? Z.of_nat (length written + 1)))
          with true by (symmetry; apply andb_true_iff; split; apply Z.leb_le; lia).
        rewrite Nat2Z.id, <- app_assoc, firstn_written, app_nil_r. reflexivity.
      * cbn [enum_loop strings_then_flag length].
        replace (Z.of_nat (length written) =? Z.of_nat (length written + S (S (length rest'))) - 1) with false
          by (symmetry; apply Z.eqb_neq; lia).
        reflexivity.
    + (* PStr *)
      cbn [enum_loop strings_then_flag]. rewrite Hset, Hrec.
      destruct (strings_then_flag rest (Z.of_nat (length written) + 1)) as [[vs ci]|i]; reflexivity.
Qed.

Lemma enum_loop_top (lower : str -> str) (args : list pv) :
  match enum_loop (Z.of_nat (length args)) args 0 (make_strings (length args)) false with
  | inl r => r
  | inr (enums, ci) => new_enum_type lower (sl_elems enums) ci
  end = of_reading lower (strings_then_flag args 0).
Proof.
  pose proof (enum_loop_spec args []) as H. cbn [length app Nat.add] in H.
  change (Z.of_nat 0) with 0 in H. unfold make_strings. rewrite H.
  destruct (strings_then_flag args 0) as [[vs ci]|i]; cbn [of_reading sl_elems]; [|reflexivity].
  apply new_enum_type_eq.
Qed.

(* ---- newEnumType3 = its specification, for every fuel ------------------------------------------------------ *)

Lemma new_enum_type3_spec (lower : str -> str) : forall (depth : nat) (args : list pv),
  new_enum_type3 lower depth args = enum_spec lower depth args.
Proof.
  induction depth as [|depth IH]; intros args; [reflexivity|].
  destruct args as [|first others]; [reflexivity|].
  destruct others as [|o others].
  - (* one argument *)
    destruct first; cbn [new_enum_type3 enum_spec]; try reflexivity;
      try (rewrite new_enum_type_eq; cbn [strings_then_flag of_reading];
           match goal with |- context [if ?b then _ else _] => destruct b end; reflexivity).
    apply IH.
  - (* more than one *)
    destruct first;
      try (cbn [new_enum_type3 enum_spec]; rewrite (enum_loop_top lower); reflexivity).
    (* the array form followed by more arguments *)
    cbn [new_enum_type3 enum_spec].
    destruct (l ++ o :: others) as [|a args'] eqn:E.
    + exfalso. symmetry in E. revert E. apply app_cons_not_nil.
    + rewrite (enum_loop_top lower). reflexivity.
Qed.

(* ---- no fault, no spin ------------------------------------------------------------------------------------ *)

Lemma of_reading_class lower r : of_reading lower r <> EFault /\ of_reading lower r <> EOutOfFuel.
Proof. destruct r as [[vs ci]|i]; cbn [of_reading]; split; discriminate. Qed.

Lemma enum_spec_no_fault (lower : str -> str) : forall depth args, enum_spec lower depth args <> EFault.
Proof.
  induction depth as [|depth IH]; intros args; [discriminate|].
  destruct args as [|first others]; [discriminate|].
  destruct others as [|o others].
  - destruct first; cbn [enum_spec];
      try discriminate; try apply (proj1 (of_reading_class lower _)); try apply IH.
  - destruct first; cbn [enum_spec]; apply (proj1 (of_reading_class lower _)).
Qed.

Lemma l_depth_fold (l : list pv) : pv_depth (PArr l) = S (args_depth l).
Proof.
  (* the local fixpoint of pv_depth and the fold of args_depth are the same function *)
  reflexivity.
Qed.

Lemma enum_spec_fuel (lower : str -> str) : forall depth args,
  (args_depth args < depth)%nat -> enum_spec lower depth args <> EOutOfFuel.
Proof.
  induction depth as [|depth IH]; intros args Hd; [lia|].
  destruct args as [|first others]; [discriminate|].
  destruct others as [|o others].
  - destruct first; cbn [enum_spec];
      try discriminate; try apply (proj2 (of_reading_class lower _)).
    apply IH. unfold args_depth in Hd. cbn [fold_right] in Hd. rewrite l_depth_fold in Hd. lia.
  - destruct first; cbn [enum_spec]; apply (proj2 (of_reading_class lower _)).
Qed.

Theorem enum_create_spec (lower : str -> str) (args : list pv) :
  enum_create lower args = enum_spec lower (S (args_depth args)) args.
Proof. apply new_enum_type3_spec. Qed.

Theorem enum_create_total (lower : str -> str) (args : list pv) :
  enum_create lower args <> EFault /\ enum_create lower args <> EOutOfFuel.
Proof.
  rewrite enum_create_spec. split; [apply enum_spec_no_fault|apply enum_spec_fuel; lia].
Qed.

(* the array form followed by further parameters reads as the flat list *)
Theorem enum_array_form_flat (lower : str -> str) (l : list pv) (o : pv) (others : list pv) :
  enum_create lower (PArr l :: o :: others) = of_reading lower (strings_then_flag (l ++ o :: others) 0).
Proof. rewrite enum_create_spec. reflexivity. Qed.

(* a list of strings, optionally followed by the flag, is accepted with exactly these values *)
Lemma strings_then_flag_strings (vs : list str) (idx : Z) :
  strings_then_flag (map PStr vs) idx = inl (vs, false).
Proof.
  revert idx. induction vs as [|v vs IH]; intros idx; [reflexivity|].
  cbn [map strings_then_flag]. rewrite IH. reflexivity.
Qed.

Lemma strings_then_flag_flag (vs : list str) (b : bool) (idx : Z) :
  strings_then_flag (map PStr vs ++ [PBool b]) idx = inl (vs, b).
Proof.
  revert idx. induction vs as [|v vs IH]; intros idx; [reflexivity|].
  cbn [map app strings_then_flag]. rewrite IH. reflexivity.
Qed.

Theorem enum_array_form_accepts (lower : str -> str) (vs ws : list str) (w : str) :
  enum_create lower (PArr (map PStr vs) :: map PStr (w :: ws)) = EOk (vs ++ w :: ws) false.
Proof.
  cbn [map]. rewrite enum_array_form_flat.
  change (PStr w :: map PStr ws) with (map PStr (w :: ws)). rewrite <- map_app, strings_then_flag_strings.
  reflexivity.
Qed.

Theorem enum_array_form_accepts_flag (lower : str -> str) (vs ws : list str) (b : bool) :
  enum_create lower (PArr (map PStr vs) :: map PStr ws ++ [PBool b]) =
  EOk (if b then map lower (vs ++ ws) else vs ++ ws) b.
Proof.
  destruct (map PStr ws ++ [PBool b]) as [|o others] eqn:E.
  - exfalso. symmetry in E. revert E. apply app_cons_not_nil.
  - rewrite enum_array_form_flat, <- E, app_assoc, <- map_app, strings_then_flag_flag. reflexivity.
Qed.

Theorem enum_array_form_accepted (lower : str -> str) (vs ws : list str) :
  (forall w, enum_create lower (PArr (map PStr vs) :: map PStr (w :: ws)) = EOk (vs ++ w :: ws) false) /\
  (forall b, enum_create lower (PArr (map PStr vs) :: map PStr ws ++ [PBool b]) =
             EOk (if b then map lower (vs ++ ws) else vs ++ ws) b).
Proof.
  split; intros x; [exact (enum_array_form_accepts lower vs ws x) | exact (enum_array_form_accepts_flag lower vs ws x)].
Qed.

(* ---- deferred.Resolve -------------------------------------------------------------------------------------- *)

Theorem deferred_target_no_fault (fn : str) : deferred_target fn <> DFault.
Proof.
  unfold deferred_target. destruct fn as [|c fn]; [discriminate|].
  replace (0 <? Z.of_nat (length (c :: fn))) with true by (symmetry; apply Z.ltb_lt; cbn [length]; lia).
  cbn [nth_error]. destruct (N.eqb c 36); [|discriminate].
  replace (1 <=? Z.of_nat (length (c :: fn))) with true by (symmetry; apply Z.leb_le; cbn [length]; lia).
  discriminate.
Qed.

Theorem deferred_target_spec (fn : str) :
  deferred_target fn = match fn with
                       | c :: vn => if N.eqb c 36 then DVar vn else DFunc fn
                       | [] => DFunc fn
                       end.
Proof.
  unfold deferred_target. destruct fn as [|c fn]; [reflexivity|].
  replace (0 <? Z.of_nat (length (c :: fn))) with true by (symmetry; apply Z.ltb_lt; cbn [length]; lia).
  cbn [nth_error]. destruct (N.eqb c 36); [|reflexivity].
  replace (1 <=? Z.of_nat (length (c :: fn))) with true by (symmetry; apply Z.leb_le; cbn [length]; lia).
  reflexivity.
Qed.
