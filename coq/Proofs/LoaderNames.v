(* LoaderNames.v — lemmas about the typed-name functions of Model/Loader.v (map keys, case folding,
   splitting at "::" and at the last '/') and about the byte-string order used by Discover's sort. *)
From Coq Require Import Arith NArith Bool List Lia.
From PcoreV Require Import Model.Base Model.Loader Model.LoaderSpec.
Import ListNotations.

Local Open Scope N_scope.

(* ---- lower_byte ------------------------------------------------------------------------------ *)

Lemma lower_byte_cases c :
  (lower_byte c = c /\ (c < 65 \/ 90 < c)) \/ (lower_byte c = c + 32 /\ 65 <= c <= 90).
Proof.
  unfold lower_byte.
  destruct (N.leb_spec 65 c) as [H1|H1]; destruct (N.leb_spec c 90) as [H2|H2]; cbn [andb]; lia.
Qed.

Lemma lower_byte_idem c : lower_byte (lower_byte c) = lower_byte c.
Proof.
  destruct (lower_byte_cases c) as [[E _]|[E R]]; rewrite E; [exact E|].
  destruct (lower_byte_cases (c + 32)) as [[E' _]|[_ R']]; [exact E'|lia].
Qed.

Lemma lower_byte_eqb_fixed c x :
  (x < 65 \/ 122 < x \/ (90 < x /\ x < 97)) -> N.eqb (lower_byte c) x = N.eqb c x.
Proof.
  intros Hx. destruct (lower_byte_cases c) as [[E _]|[E R]]; rewrite E; [reflexivity|].
  destruct (N.eqb_spec (c + 32) x), (N.eqb_spec c x); try reflexivity; lia.
Qed.

Lemma lower_byte_slash c : N.eqb (lower_byte c) c_slash = N.eqb c c_slash.
Proof. apply lower_byte_eqb_fixed. unfold c_slash. lia. Qed.

Lemma lower_byte_colon c : N.eqb (lower_byte c) c_colon = N.eqb c c_colon.
Proof. apply lower_byte_eqb_fixed. unfold c_colon. lia. Qed.

Local Close Scope N_scope.

(* ---- to_lower -------------------------------------------------------------------------------- *)

Lemma to_lower_app a b : to_lower (a ++ b) = to_lower a ++ to_lower b.
Proof. apply map_app. Qed.

Lemma to_lower_length s : length (to_lower s) = length s.
Proof. apply map_length. Qed.

Lemma to_lower_idem s : to_lower (to_lower s) = to_lower s.
Proof.
  unfold to_lower. rewrite map_map. apply map_ext. intros c. apply lower_byte_idem.
Qed.

Lemma to_lower_cons c s : to_lower (c :: s) = lower_byte c :: to_lower s.
Proof. reflexivity. Qed.

Lemma lower_slash : lower_byte c_slash = c_slash.
Proof. reflexivity. Qed.

Lemma no_slash_lower s : no_slash (to_lower s) = no_slash s.
Proof.
  induction s as [|c s IH]; [reflexivity|].
  cbn [to_lower map no_slash forallb]. fold (to_lower s). fold (no_slash (to_lower s)). fold (no_slash s).
  rewrite lower_byte_slash, IH. reflexivity.
Qed.

Lemma starts_cc_lower s : starts_cc (to_lower s) = starts_cc s.
Proof.
  destruct s as [|c [|d s]]; try reflexivity.
  cbn [to_lower map starts_cc]. rewrite !lower_byte_colon. reflexivity.
Qed.

Lemma trim_cc_not_starts s : starts_cc s = false -> trim_cc s = s.
Proof.
  destruct s as [|c [|d s]]; try reflexivity.
  cbn [starts_cc trim_cc]. intros ->. reflexivity.
Qed.

Lemma to_lower_nil_iff s : to_lower s = [] <-> s = [].
Proof. destruct s; cbn; split; congruence. Qed.

(* ---- splitting at the last slash ------------------------------------------------------------- *)

Lemma split_last_no_slash b : no_slash b = true -> split_last_slash b = None.
Proof.
  induction b as [|c b IH]; [reflexivity|].
  cbn [no_slash forallb]. fold (no_slash b). intros H. apply andb_prop in H. destruct H as [Hc Hb].
  cbn [split_last_slash]. rewrite (IH Hb).
  destruct (N.eqb c c_slash); [discriminate|reflexivity].
Qed.

Lemma split_last_app a b :
  no_slash b = true -> split_last_slash (a ++ c_slash :: b) = Some (a, b).
Proof.
  intros Hb. induction a as [|c a IH].
  - cbn [app split_last_slash]. rewrite (split_last_no_slash b Hb). rewrite N.eqb_refl. reflexivity.
  - cbn [app split_last_slash]. rewrite IH. reflexivity.
Qed.

(* the typed name a map key denotes *)
Definition lowered (n : tname) : tname := mkTn (to_lower (tn_auth n)) (to_lower (tn_ns n)) (to_lower (tn_name n)).

Lemma map_key_shape n :
  map_key n = (to_lower (tn_auth n) ++ c_slash :: to_lower (tn_ns n)) ++ c_slash :: to_lower (tn_name n).
Proof.
  unfold map_key. rewrite to_lower_app, to_lower_cons, to_lower_app, to_lower_cons, lower_slash.
  rewrite <- app_assoc. reflexivity.
Qed.

Lemma map_key_lowered n : map_key (lowered n) = map_key n.
Proof. rewrite !map_key_shape. unfold lowered; cbn [tn_auth tn_ns tn_name]. rewrite !to_lower_idem. reflexivity. Qed.

Lemma parts_lowered n : parts (lowered n) = parts n.
Proof. unfold parts, lowered; cbn [tn_name]. rewrite to_lower_idem. reflexivity. Qed.

Lemma tn_wf_parts n :
  tn_wf n = true ->
  tn_auth n <> [] /\ no_slash (tn_ns n) = true /\ no_slash (tn_name n) = true /\
  starts_cc (tn_name n) = false /\ forallb seg_valid (parts n) = true.
Proof.
  unfold tn_wf. intros H.
  repeat (apply andb_prop in H; destruct H as [H ?]).
  repeat split; try assumption.
  - destruct (tn_auth n); [discriminate|congruence].
  - destruct (starts_cc (tn_name n)); [discriminate|reflexivity].
Qed.

Lemma tn_wf_intro n :
  tn_auth n <> [] -> no_slash (tn_ns n) = true -> no_slash (tn_name n) = true ->
  starts_cc (tn_name n) = false -> forallb seg_valid (parts n) = true -> tn_wf n = true.
Proof.
  intros Ha Hns Hn Hs Hp. unfold tn_wf. rewrite Hns, Hn, Hs, Hp.
  destruct (tn_auth n); [congruence|reflexivity].
Qed.

Lemma tn_wf_lowered n : tn_wf n = true -> tn_wf (lowered n) = true.
Proof.
  intros H. destruct (tn_wf_parts n H) as (Ha & Hns & Hn & Hs & Hp).
  apply tn_wf_intro; unfold lowered; cbn [tn_auth tn_ns tn_name].
  - rewrite to_lower_nil_iff. exact Ha.
  - rewrite no_slash_lower. exact Hns.
  - rewrite no_slash_lower. exact Hn.
  - rewrite starts_cc_lower. exact Hs.
  - change (forallb seg_valid (parts (lowered n)) = true). rewrite parts_lowered. exact Hp.
Qed.

(* typedNameFromMapKey is a left inverse of MapKey on well-formed names (up to case) *)
Lemma tn_of_key_map_key n : tn_wf n = true -> tn_of_key (map_key n) = Some (lowered n).
Proof.
  intros H. destruct (tn_wf_parts n H) as (Ha & Hns & Hn & Hs & _).
  unfold tn_of_key. rewrite map_key_shape.
  rewrite split_last_app by (rewrite no_slash_lower; exact Hn).
  destruct (to_lower (tn_auth n) ++ c_slash :: to_lower (tn_ns n)) as [|x pfx] eqn:Epfx.
  { destruct (to_lower (tn_auth n)); discriminate. }
  rewrite <- Epfx.
  rewrite split_last_app by (rewrite no_slash_lower; exact Hns).
  destruct (to_lower (tn_auth n)) as [|y au] eqn:Eau.
  { exfalso. apply Ha. apply to_lower_nil_iff. exact Eau. }
  rewrite <- Eau. unfold new_typed_name, lowered.
  rewrite trim_cc_not_starts by (rewrite starts_cc_lower; exact Hs). reflexivity.
Qed.

Lemma key_ok_map_key n : tn_wf n = true -> key_ok (map_key n) = true.
Proof.
  intros H. unfold key_ok. rewrite (tn_of_key_map_key n H), map_key_lowered, str_eqb_refl.
  rewrite (tn_wf_lowered n H). reflexivity.
Qed.

Lemma key_ok_inv k : key_ok k = true -> exists tn, tn_of_key k = Some tn /\ map_key tn = k /\ tn_wf tn = true.
Proof.
  unfold key_ok. destruct (tn_of_key k) as [tn|]; [|discriminate].
  intros H. apply andb_prop in H. destruct H as [H1 H2]. apply str_eqb_eq in H1. eauto.
Qed.

Lemma map_key_same_lower n n' :
  tn_wf n = true -> tn_wf n' = true -> map_key n = map_key n' -> lowered n = lowered n'.
Proof.
  intros H H' E. pose proof (tn_of_key_map_key n H) as A. pose proof (tn_of_key_map_key n' H') as B.
  rewrite E in A. congruence.
Qed.

(* ---- splitting at "::" ----------------------------------------------------------------------- *)

Lemma drop_seg_cons2 c d s :
  drop_seg (c :: d :: s) = if (N.eqb c c_colon && N.eqb d c_colon)%bool then Some s else drop_seg (d :: s).
Proof. reflexivity. Qed.

Lemma split_cc_aux_cons2 c d s cur :
  split_cc_aux (c :: d :: s) cur =
  if (N.eqb c c_colon && N.eqb d c_colon)%bool then rev cur :: split_cc_aux s [] else split_cc_aux (d :: s) (c :: cur).
Proof. reflexivity. Qed.

Lemma drop_seg_lower s : drop_seg (to_lower s) = option_map to_lower (drop_seg s).
Proof.
  induction s as [|c s1 IH]; [reflexivity|].
  destruct s1 as [|d s2]; [reflexivity|].
  change (to_lower (c :: d :: s2)) with (lower_byte c :: lower_byte d :: to_lower s2).
  rewrite !drop_seg_cons2, !lower_byte_colon.
  destruct (N.eqb c c_colon && N.eqb d c_colon); [reflexivity|].
  exact IH.
Qed.

Lemma child_name_lower k s : child_name k (to_lower s) = option_map to_lower (child_name k s).
Proof.
  revert s. induction k as [|k IH]; intros s; [reflexivity|].
  cbn [child_name]. rewrite drop_seg_lower.
  destruct (drop_seg s) as [s'|]; cbn [option_map]; [apply IH|reflexivity].
Qed.

Lemma drop_seg_length s s' : drop_seg s = Some s' -> length s' < length s.
Proof.
  revert s'. induction s as [|c s1 IH]; intros s' H; [discriminate|].
  destruct s1 as [|d s2]; [discriminate|].
  rewrite drop_seg_cons2 in H. destruct (N.eqb c c_colon && N.eqb d c_colon).
  - injection H as <-. cbn [length]. lia.
  - apply IH in H. cbn [length] in *. lia.
Qed.

Lemma drop_seg_no_slash s s' : drop_seg s = Some s' -> no_slash s = true -> no_slash s' = true.
Proof.
  revert s'. induction s as [|c s1 IH]; intros s' H Hs; [discriminate|].
  destruct s1 as [|d s2]; [discriminate|].
  rewrite drop_seg_cons2 in H.
  cbn [no_slash forallb] in Hs. apply andb_prop in Hs. destruct Hs as [_ Hs].
  destruct (N.eqb c c_colon && N.eqb d c_colon).
  - injection H as <-. cbn [forallb] in Hs. apply andb_prop in Hs. destruct Hs as [_ Hs]. exact Hs.
  - apply IH; assumption.
Qed.

Lemma split_cc_aux_drop s : forall cur,
  match drop_seg s with
  | Some s' => exists x, split_cc_aux s cur = x :: split_cc s'
  | None => exists x, split_cc_aux s cur = [x]
  end.
Proof.
  induction s as [|c s1 IH]; intros cur.
  - cbn. eauto.
  - destruct s1 as [|d s2].
    + cbn. eauto.
    + rewrite drop_seg_cons2, split_cc_aux_cons2. destruct (N.eqb c c_colon && N.eqb d c_colon).
      * eexists. reflexivity.
      * apply IH.
Qed.

Lemma split_cc_nonempty s : split_cc s <> [].
Proof.
  unfold split_cc. pose proof (split_cc_aux_drop s []) as H.
  destruct (drop_seg s); destruct H as [x ->]; discriminate.
Qed.

Lemma child_name_split k : forall s s',
  child_name k s = Some s' -> exists pre, length pre = k /\ split_cc s = pre ++ split_cc s'.
Proof.
  induction k as [|k IH]; intros s s' H.
  - injection H as <-. exists []. split; reflexivity.
  - cbn [child_name] in H. destruct (drop_seg s) as [s1|] eqn:E; [|discriminate].
    pose proof (split_cc_aux_drop s []) as D. rewrite E in D. destruct D as [x D].
    destruct (IH _ _ H) as (pre & Hl & Hp).
    exists (x :: pre). split; [cbn; lia|]. unfold split_cc at 1. rewrite D, Hp. reflexivity.
Qed.

Lemma child_name_length k : forall s s', child_name (S k) s = Some s' -> length s' < length s.
Proof.
  induction k as [|k IH]; intros s s' H.
  - cbn [child_name] in H. destruct (drop_seg s) as [s1|] eqn:E; [|discriminate].
    injection H as <-. eapply drop_seg_length; eauto.
  - cbn [child_name] in H. destruct (drop_seg s) as [s1|] eqn:E; [|discriminate].
    apply drop_seg_length in E. specialize (IH s1 s'). cbn [child_name] in IH. apply IH in H. lia.
Qed.

Lemma child_name_no_slash k : forall s s', child_name k s = Some s' -> no_slash s = true -> no_slash s' = true.
Proof.
  induction k as [|k IH]; intros s s' H Hs.
  - injection H as <-. exact Hs.
  - cbn [child_name] in H. destruct (drop_seg s) as [s1|] eqn:E; [|discriminate].
    eapply IH; eauto. eapply drop_seg_no_slash; eauto.
Qed.

Lemma split_cc_starts s : starts_cc s = true -> exists tl, split_cc s = [] :: tl.
Proof.
  destruct s as [|c [|d s]]; try discriminate.
  cbn [starts_cc]. intros H. unfold split_cc. rewrite split_cc_aux_cons2, H. eexists. reflexivity.
Qed.

Lemma forallb_app_r {A} (f : A -> bool) a b : forallb f (a ++ b) = true -> forallb f b = true.
Proof. rewrite forallb_app. intros H. apply andb_prop in H. tauto. Qed.

(* `child` cannot answer nil after IsParent: the case merged into "not relative" in relative_to never occurs *)
Lemma child_name_enough k : forall s, k < length (split_cc (to_lower s)) -> child_name k s <> None.
Proof.
  induction k as [|k IH]; intros s H; [discriminate|].
  cbn [child_name]. pose proof (split_cc_aux_drop (to_lower s) []) as D. rewrite drop_seg_lower in D.
  destruct (drop_seg s) as [s1|]; cbn [option_map] in D.
  - destruct D as [x D]. apply IH. unfold split_cc at 1 in H. rewrite D in H. cbn [length] in H. lia.
  - destruct D as [x D]. unfold split_cc in H. rewrite D in H. cbn [length] in H. lia.
Qed.

Theorem relative_to_total n p : is_parent p n = true -> relative_to n p <> None.
Proof.
  intros H. unfold relative_to. rewrite H. unfold is_parent in H. apply andb_prop in H. destruct H as [H _].
  apply Nat.ltb_lt in H. unfold parts in H at 2.
  pose proof (child_name_enough (length (parts p)) (tn_name n) H) as C.
  destruct (child_name (length (parts p)) (tn_name n)); [discriminate|contradiction].
Qed.

(* a relative name of a well-formed name is well-formed and strictly shorter *)
Lemma relative_to_wf n p c :
  tn_wf n = true -> relative_to n p = Some c ->
  tn_wf c = true /\ length (tn_name c) < length (tn_name n) /\ tn_auth c = tn_auth n /\ tn_ns c = tn_ns n.
Proof.
  intros H R. destruct (tn_wf_parts n H) as (Ha & Hns & Hn & Hs & Hp).
  unfold relative_to in R. destruct (is_parent p n); [|discriminate].
  destruct (child_name (length (parts p)) (tn_name n)) as [s|] eqn:E; [|discriminate].
  injection R as <-. cbn [tn_auth tn_ns tn_name].
  assert (Hk : exists k, length (parts p) = S k).
  { destruct (parts p) eqn:Ep; [exfalso; eapply split_cc_nonempty; exact Ep|]. eexists. reflexivity. }
  destruct Hk as [k Hk]. rewrite Hk in E.
  assert (Hvalid : forallb seg_valid (split_cc (to_lower s)) = true).
  { pose proof (child_name_lower (S k) (tn_name n)) as L. rewrite E in L. cbn [option_map] in L.
    destruct (child_name_split _ _ _ L) as (pre & _ & Hsplit).
    unfold parts in Hp. rewrite Hsplit in Hp. eapply forallb_app_r; eauto. }
  repeat split.
  - apply tn_wf_intro; cbn [tn_auth tn_ns tn_name]; try assumption.
    + eapply child_name_no_slash; eauto.
    + destruct (starts_cc s) eqn:Es; [|reflexivity].
      rewrite <- starts_cc_lower in Es. destruct (split_cc_starts _ Es) as [tl Htl].
      rewrite Htl in Hvalid. cbn in Hvalid. discriminate.
  - eapply child_name_length; eauto.
Qed.

(* whether a name is relative to a type set depends on its map key only *)
Lemma relative_to_none_key n n' p :
  tn_wf n = true -> tn_wf n' = true -> map_key n = map_key n' ->
  relative_to n p = None -> relative_to n' p = None.
Proof.
  intros H H' E R. pose proof (map_key_same_lower _ _ H H' E) as L.
  unfold lowered in L. injection L as _ _ Ln.
  unfold relative_to in *. unfold is_parent, parts in *. rewrite <- Ln.
  destruct (Nat.ltb _ _ && prefix_eqb _ _); [|reflexivity].
  pose proof (child_name_lower (length (split_cc (to_lower (tn_name p)))) (tn_name n)) as A.
  pose proof (child_name_lower (length (split_cc (to_lower (tn_name p)))) (tn_name n')) as B.
  rewrite Ln in A. rewrite A in B.
  destruct (child_name _ (tn_name n)); [discriminate|].
  destruct (child_name _ (tn_name n')); [discriminate|reflexivity].
Qed.

(* ---- the byte-string order ------------------------------------------------------------------- *)

Lemma str_ltb_irrefl a : str_ltb a a = false.
Proof. induction a as [|x a IH]; [reflexivity|]. cbn [str_ltb]. rewrite N.ltb_irrefl, N.eqb_refl. exact IH. Qed.

Lemma str_ltb_asym a : forall b, str_ltb a b = true -> str_ltb b a = false.
Proof.
  induction a as [|x a IH]; intros [|y b] H; try reflexivity; try discriminate.
  cbn [str_ltb] in *.
  destruct (N.ltb_spec x y) as [L|L].
  - destruct (N.ltb_spec y x) as [L'|L']; [lia|]. destruct (N.eqb_spec y x); [lia|reflexivity].
  - destruct (N.eqb_spec x y) as [->|Ne]; [|discriminate].
    rewrite N.ltb_irrefl, N.eqb_refl. apply IH. exact H.
Qed.

Lemma str_ltb_total a : forall b, str_ltb a b = false -> str_ltb b a = false -> a = b.
Proof.
  induction a as [|x a IH]; intros [|y b] H1 H2; try reflexivity; try discriminate.
  cbn [str_ltb] in *.
  destruct (N.ltb_spec x y) as [L|L]; [discriminate|].
  destruct (N.ltb_spec y x) as [L'|L']; [discriminate|].
  assert (x = y) by lia. subst y. rewrite N.eqb_refl in *. f_equal. apply IH; assumption.
Qed.

Lemma str_ltb_trans a : forall b c, str_ltb a b = true -> str_ltb b c = true -> str_ltb a c = true.
Proof.
  induction a as [|x a IH]; intros [|y b] [|z c] H1 H2; try reflexivity; try discriminate.
  cbn [str_ltb] in *.
  destruct (N.ltb_spec x y) as [L1|L1].
  - destruct (N.ltb_spec y z) as [L2|L2].
    + destruct (N.ltb_spec x z); [reflexivity|lia].
    + destruct (N.eqb_spec y z) as [->|]; [|discriminate].
      destruct (N.ltb_spec x z); [reflexivity|lia].
  - destruct (N.eqb_spec x y) as [->|]; [|discriminate].
    destruct (N.ltb_spec y z) as [L2|L2]; [reflexivity|].
    destruct (N.eqb_spec y z) as [->|]; [|discriminate].
    eapply IH; eauto.
Qed.
