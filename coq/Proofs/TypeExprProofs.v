(* TypeExprProofs.v — property C05: the expression a type prints as (Model/TypeExpr.v) is printable, so the parser
   reads it back from its tokens (layer L2 applied to the output of the type printer). *)
From Coq Require Import ZArith NArith Bool List Lia.
From PcoreV Require Import Model.Base Model.Ty Model.QuoteLex Model.TypePrint Model.TokenParse Model.TypeExpr
  Proofs.TokenParseProofs.
Import ListNotations.
Open Scope Z_scope.

Section P.
  Variable float_text : Z -> str.
  Variable accepts_undef : ty -> bool.
  Variable rx_ok : str -> bool.

  Notation E := (expr_of_ty float_text accepts_undef).
  Definition gok (p : gpv pval) : bool := printable rx_ok (expr_of_gpv float_text p).

  Lemma forallb_map_gok ps : forallb (printable rx_ok) (map (expr_of_gpv float_text) ps) = forallb gok ps.
  Proof. induction ps as [|p ps IH]; [reflexivity|]. cbn [map forallb]. rewrite IH. reflexivity. Qed.

  Lemma printable_named n ps : forallb gok ps = true -> printable rx_ok (expr_named float_text n ps) = true.
  Proof.
    intros H. destruct ps as [|p ps]; [reflexivity|].
    unfold expr_named. cbn [printable]. cbn [map]. rewrite <- H. rewrite <- forallb_map_gok. reflexivity.
  Qed.

  Lemma expr_unfold t :
    E t = expr_named float_text (name_of t)
            (params_gen E (expr_notundef float_text) accepts_undef t).
  Proof. destruct t; reflexivity. Qed.

  Lemma size_ok_spec lo hi : size_ok lo hi = true -> in_int64 lo = true /\ in_int64 hi = true.
  Proof. intros H. apply andb_true_iff in H. exact H. Qed.

  Lemma int_params_ok lo hi : size_ok lo hi = true -> forallb gok (@int_params pval lo hi) = true.
  Proof.
    intros H. apply size_ok_spec in H. destruct H as [Hl Hh]. unfold int_params.
    destruct (lo =? min_int64); destruct (hi =? max_int64); unfold gok; cbn [forallb expr_of_gpv printable]; rewrite ?Hl, ?Hh; reflexivity.
  Qed.

  Lemma size_params_ok lo hi : size_ok lo hi = true -> forallb gok (@size_params pval lo hi) = true.
  Proof.
    intros H. apply size_ok_spec in H. destruct H as [Hl Hh]. unfold size_params.
    destruct (hi =? max_int64); unfold gok; cbn [forallb expr_of_gpv printable]; rewrite ?Hl, ?Hh; reflexivity.
  Qed.

  Lemma opt_size_params_ok (b : bool) lo hi :
    size_ok lo hi = true -> forallb gok (if b then [] else @size_params pval lo hi) = true.
  Proof. intros H. destruct b; [reflexivity|apply size_params_ok; exact H]. Qed.

  Lemma float_params_ok lo hi : forallb gok (@float_params pval lo hi) = true.
  Proof. unfold float_params. destruct (lo =? fmin_key); destruct (hi =? fmax_key); reflexivity. Qed.

  Lemma wrapper_params_ok (e : pval) t :
    printable rx_ok e = true -> forallb gok (wrapper_params (fun _ => e) t) = true.
  Proof.
    intros H. unfold wrapper_params. destruct (is_any t); [reflexivity|].
    destruct t; unfold gok; cbn [forallb expr_of_gpv]; rewrite ?H; try reflexivity.
    match goal with |- context [match ?x with [] => _ | _ :: _ => _ end] => destruct x end;
      unfold gok; cbn [forallb expr_of_gpv printable]; rewrite ?H; reflexivity.
  Qed.

  Lemma forallb_app_true {A} (f : A -> bool) l1 l2 : forallb f l1 = true -> forallb f l2 = true -> forallb f (l1 ++ l2) = true.
  Proof. intros H1 H2. rewrite forallb_app, H1, H2. reflexivity. Qed.

  Lemma tys_ok ts :
    Forall (fun t => ty_lits_ok rx_ok t = true -> printable rx_ok (E t) = true) ts ->
    forallb (ty_lits_ok rx_ok) ts = true -> forallb gok (map (fun x => GTy (E x)) ts) = true.
  Proof.
    intros H. induction H as [|t ts Ht _ IH]; intros Hok; [reflexivity|].
    cbn [forallb] in Hok. apply andb_true_iff in Hok. destruct Hok as [H1 H2].
    unfold gok; cbn [map forallb expr_of_gpv]. rewrite (Ht H1). exact (IH H2).
  Qed.

  (* the expression a type prints as is printable *)
  Theorem expr_of_ty_printable t : ty_lits_ok rx_ok t = true -> printable rx_ok (E t) = true.
  Proof.
    induction t using ty_ind'; intros Hok; rewrite expr_unfold; apply printable_named;
      cbn [ty_lits_ok] in Hok; cbn [params_gen]; try reflexivity.
    - destruct v; reflexivity.
    - apply int_params_ok; exact Hok.
    - apply float_params_ok.
    - apply int_params_ok; exact Hok.
    - apply forallb_app_true; [|destruct ci; reflexivity].
      induction vs as [|v vs IH]; [reflexivity|exact IH].
    - induction rxs as [|r rxs IH]; [reflexivity|].
      cbn [forallb] in Hok. apply andb_true_iff in Hok. destruct Hok as [H1 H2].
      unfold gok; cbn [map forallb expr_of_gpv printable]. rewrite H1. exact (IH H2).
    - destruct p; [reflexivity|]. unfold gok; cbn [forallb expr_of_gpv printable]. rewrite Hok. reflexivity.
    - apply opt_size_params_ok; exact Hok.
    - apply andb_true_iff in Hok. destruct Hok as [He Hs].
      destruct (is_unit t && is_zero lo hi); [apply size_params_ok; exact Hs|].
      apply forallb_app_true; [|apply opt_size_params_ok; exact Hs].
      destruct (negb (is_any t) || is_zero lo hi); [|reflexivity].
      unfold gok; cbn [forallb expr_of_gpv]. rewrite (IHt He). reflexivity.
    - apply andb_true_iff in Hok. destruct Hok as [Hkv Hs]. apply andb_true_iff in Hkv. destruct Hkv as [Hk Hv].
      destruct (is_any t1 && is_any t2 && is_positive lo hi); [reflexivity|].
      destruct (is_unit t1 && is_unit t2 && is_zero lo hi); [reflexivity|].
      apply forallb_app_true; [|apply opt_size_params_ok; exact Hs].
      unfold gok; cbn [forallb expr_of_gpv]. rewrite (IHt1 Hk), (IHt2 Hv). reflexivity.
    - apply andb_true_iff in Hok. destruct Hok as [Hts Hs].
      apply forallb_app_true; [apply tys_ok; assumption|apply opt_size_params_ok; exact Hs].
    - (* Struct *)
      destruct ms as [|m ms]; [reflexivity|].
      unfold gok; cbn [forallb expr_of_gpv printable]. rewrite andb_true_r.
      revert H Hok. generalize (m :: ms) as l. intros l Hall Hok. clear m ms.
      induction Hall as [|[n [k v]] l [Hk Hv] _ IH]; [reflexivity|].
      cbn [fst snd] in Hk, Hv.
      cbn [forallb] in Hok. apply andb_true_iff in Hok. destruct Hok as [Hkv Hl].
      apply andb_true_iff in Hkv. destruct Hkv as [Hk' Hv'].
      cbn [map forallb fst snd expr_of_gpv]. rewrite (Hv Hv'), (IH Hl). rewrite !andb_true_r.
      unfold struct_key.
      destruct (is_optional k); destruct (accepts_undef v); cbn [expr_of_gpv printable]; try reflexivity.
      + exact (Hk Hk').
      + apply printable_named. apply wrapper_params_ok. exact (Hk Hk').
    - apply tys_ok; assumption.
    - apply wrapper_params_ok. exact (IHt Hok).
    - apply wrapper_params_ok. exact (IHt Hok).
    - destruct (is_any t); [reflexivity|]. unfold gok; cbn [forallb expr_of_gpv]. rewrite (IHt Hok). reflexivity.
    - destruct (is_any t); [reflexivity|]. unfold gok; cbn [forallb expr_of_gpv]. rewrite (IHt Hok). reflexivity.
  Qed.

  (* ... hence the parser reads the expression back from the tokens the type prints as *)
  Theorem parse_tokens_of_ty t :
    ty_lits_ok rx_ok t = true -> parse_tokens rx_ok (tokens_of (E t)) = POk (E t).
  Proof. intros H. apply parse_tokens_of. apply expr_of_ty_printable. exact H. Qed.
End P.

(* the types of the resolving theorem (c05_ok, Model/TypePrint.v) have integer bounds of 64 bits *)
