(* KeysCacheProofs.v — C07: Equals and ToKey do not depend on the lazily cached inferred types
   (Model/KeysCache.v). *)
From Coq Require Import ZArith NArith Bool List Lia.
From PcoreV Require Import Model.Base Model.Keys Model.KeysCache Proofs.KeysProofs.
Import ListNotations.

Section CvalInd.
  Variable P : cval -> Prop.
  Hypothesis Hs : forall v, P (CScalar v).
  Hypothesis Ha : forall r d es, Forall P es -> P (CArr r d es).
  Hypothesis Hh : forall r d es, Forall (fun e => P (fst e) /\ P (snd e)) es -> P (CHash r d es).
  Hypothesis He : forall k v, P k -> P v -> P (CEntry k v).
  Hypothesis Hsn : forall v, P v -> P (CSensitive v).
  Fixpoint cval_ind' (x : cval) : P x :=
    match x with
    | CScalar v => Hs v
    | CArr r d es =>
        Ha r d es ((fix go (l : list cval) : Forall P l :=
                      match l with
                      | [] => Forall_nil _
                      | a :: l' => Forall_cons a (cval_ind' a) (go l')
                      end) es)
    | CHash r d es =>
        Hh r d es ((fix go (l : list (cval * cval)) : Forall (fun e => P (fst e) /\ P (snd e)) l :=
                      match l with
                      | [] => Forall_nil _
                      | e :: l' => Forall_cons e (conj (cval_ind' (fst e)) (cval_ind' (snd e))) (go l')
                      end) es)
    | CEntry k v => He k v (cval_ind' k) (cval_ind' v)
    | CSensitive v => Hsn v (cval_ind' v)
    end.
End CvalInd.

Definition erase_entry (e : cval * cval) : value * value := (erase (fst e), erase (snd e)).

Lemma erase_hash : forall r d es, erase (CHash r d es) = VHash (map erase_entry es).
Proof. reflexivity. Qed.

Lemma map_ext_Forall' : forall {A B} (f g : A -> B) l, Forall (fun x => f x = g x) l -> map f l = map g l.
Proof. intros A B f g l H. induction H as [|x l Hx _ IH]; cbn [map]; [reflexivity | now rewrite Hx, IH]. Qed.

Lemma existsb_map' : forall {A B} (f : B -> bool) (g : A -> B) l, existsb f (map g l) = existsb (fun x => f (g x)) l.
Proof. intros A B f g l. induction l as [|x l IH]; cbn [map existsb]; [reflexivity | now rewrite IH]. Qed.

Lemma existsb_ext' : forall {A} (f g : A -> bool) l, (forall x, f x = g x) -> existsb f l = existsb g l.
Proof. intros A f g l H. induction l as [|x l IH]; cbn [existsb]; [reflexivity | now rewrite H, IH]. Qed.

(* ToKey reads the elements / entries only *)
Lemma ckey_erase : forall x, ckey x = vkey (erase x).
Proof.
  induction x as [v | r d es IH | r d es IH | k v IHk IHv | v IHv] using cval_ind'.
  - reflexivity.
  - cbn [ckey erase vkey]. f_equal. rewrite map_map. now apply map_ext_Forall'.
  - cbn [ckey erase vkey]. do 2 f_equal. rewrite map_map. apply map_ext_Forall'.
    induction IH as [|e l [Hk Hv] _ IHl]; constructor; [|exact IHl].
    cbn [fst snd]. now rewrite Hk, Hv.
  - cbn [ckey erase vkey]. now rewrite IHk, IHv.
  - reflexivity.
Qed.

Lemma cfind_last_erase : forall key es,
  option_map erase_entry (cfind_last key es) = find_last key (map erase_entry es).
Proof.
  intros key es. induction es as [|e es IH]; cbn [cfind_last find_last map option_map]; [reflexivity|].
  rewrite <- IH. destruct (cfind_last key es) as [r|]; cbn [option_map]; [reflexivity|].
  unfold erase_entry at 2. cbn [fst]. rewrite ckey_erase.
  destruct (str_eqb (vkey (erase (fst e))) key); reflexivity.
Qed.

Lemma cfind_last_In : forall key es e, cfind_last key es = Some e -> In e es.
Proof.
  intros key es. induction es as [|a es IH]; intros e H; cbn [cfind_last] in H; [discriminate|].
  destruct (cfind_last key es) as [r|] eqn:E.
  - inversion H; subst. right. now apply IH.
  - destruct (str_eqb (ckey (fst a)) key); [|discriminate]. inversion H; subst. now left.
Qed.

Lemma veq_scalar_l : forall a y, scalar_value a = true -> scalar_value y = false -> veq a y = false.
Proof. intros a y Ha Hy. destruct a; try discriminate; destruct y; try discriminate; reflexivity. Qed.

Lemma veq_scalar_r : forall x b, scalar_value x = false -> scalar_value b = true -> veq x b = false.
Proof.
  intros x b Hx Hb. destruct x; try discriminate; destruct b; try discriminate; cbn [veq]; try reflexivity.
Qed.

Lemma scalar_erase : forall y, cwf y = true -> scalar_value (erase y) = match y with CScalar _ => true | _ => false end.
Proof. intros y H. destruct y; cbn [erase scalar_value cwf] in *; [exact H | reflexivity..]. Qed.

Definition cveq_ok (x : cval) : Prop :=
  forall y, cwf x = true -> cwf y = true -> cveq x y = veq (erase x) (erase y).

Lemma cveq_arr_go : forall vs ws,
  Forall cveq_ok vs -> forallb cwf vs = true -> forallb cwf ws = true ->
  (fix go (a b : list cval) : bool :=
     match a, b with
     | [], _ => true
     | p :: a', q :: b' => cveq p q && go a' b'
     | _ :: _, [] => false
     end) vs ws
  = (fix go (a b : list value) : bool :=
       match a, b with
       | [], _ => true
       | p :: a', q :: b' => veq p q && go a' b'
       | _ :: _, [] => false
       end) (map erase vs) (map erase ws).
Proof.
  intros vs ws H. revert ws. induction H as [|p vs Hp _ IH]; intros ws Hvs Hws; [reflexivity|].
  cbn [forallb] in Hvs. apply andb_prop in Hvs as [Hp' Hvs].
  destruct ws as [|q ws]; cbn [map]; [reflexivity|].
  cbn [forallb] in Hws. apply andb_prop in Hws as [Hq Hws].
  rewrite (Hp q Hp' Hq). f_equal. now apply IH.
Qed.

Lemma cveq_hash_go : forall fs es,
  forallb (fun e => cwf (fst e) && cwf (snd e)) fs = true ->
  Forall (fun e => cveq_ok (fst e) /\ cveq_ok (snd e)) es ->
  forallb (fun e => cwf (fst e) && cwf (snd e)) es = true ->
  (fix go (a : list (cval * cval)) : bool :=
     match a with
     | [] => true
     | (k, v) :: a' =>
         (if existsb (fun e => str_eqb (ckey (fst e)) (ckey k)) a' then true
          else match cfind_last (ckey k) fs with
               | Some (k', v') => cveq k k' && cveq v v'
               | None => false
               end) && go a'
     end) es
  = (fix go (a : list (value * value)) : bool :=
       match a with
       | [] => true
       | (k, v) :: a' =>
           (if existsb (fun e => str_eqb (vkey (fst e)) (vkey k)) a' then true
            else match find_last (vkey k) (map erase_entry fs) with
                 | Some (k', v') => veq k k' && veq v v'
                 | None => false
                 end) && go a'
       end) (map erase_entry es).
Proof.
  intros fs es Hfs H. induction H as [|[k v] es [Hk Hv] _ IH]; intros Hes; [reflexivity|].
  cbn [forallb fst snd] in Hes. apply andb_prop in Hes as [Hkv Hes]. apply andb_prop in Hkv as [Hk' Hv'].
  cbn [map]. unfold erase_entry at 1. cbn [fst snd] in *.
  rewrite <- (IH Hes). f_equal.
  rewrite existsb_map'.
  rewrite (existsb_ext' (fun e => str_eqb (ckey (fst e)) (ckey k))
                        (fun x => str_eqb (vkey (fst (erase_entry x))) (vkey (erase k)))).
  2:{ intros e. unfold erase_entry. cbn [fst]. now rewrite !ckey_erase. }
  destruct (existsb _ es); [reflexivity|].
  rewrite <- cfind_last_erase. rewrite <- ckey_erase.
  destruct (cfind_last (ckey k) fs) as [[k' v']|] eqn:E; cbn [option_map]; [|reflexivity].
  unfold erase_entry. cbn [fst snd].
  apply cfind_last_In in E.
  pose proof (proj1 (forallb_forall _ _) Hfs _ E) as Hw. cbn [fst snd] in Hw. apply andb_prop in Hw as [Hwk Hwv].
  now rewrite (Hk k' Hk' Hwk), (Hv v' Hv' Hwv).
Qed.

(* Equals on the object graph is Equals of the denoted values, whatever the caches hold *)
Lemma cveq_erase : forall x y, cwf x = true -> cwf y = true -> cveq x y = veq (erase x) (erase y).
Proof.
  intros x. change (cveq_ok x).
  induction x as [a | r d vs IH | r d es IH | k v IHk IHv | v IHv] using cval_ind'; intros y Hx Hy.
  - cbn [cwf] in Hx. destruct y; cbn [cveq erase]; try reflexivity;
      symmetry; apply veq_scalar_l; try exact Hx; reflexivity.
  - cbn [cwf] in Hx. destruct y as [b | r' d' ws | r' d' fs | k' v' | v'].
    + cbn [cveq erase]. symmetry. apply veq_scalar_r; [reflexivity | exact Hy].
    + cbn [cwf] in Hy. cbn [cveq erase veq]. rewrite !map_length. f_equal. now apply cveq_arr_go.
    + reflexivity.
    + cbn [cwf] in Hy. apply andb_prop in Hy as [Hk' Hv'].
      cbn [cveq erase veq].
      destruct vs as [|p [|q [|z vs]]]; cbn [map]; try reflexivity.
      cbn [forallb] in Hx. apply andb_prop in Hx as [Hp Hx]. apply andb_prop in Hx as [Hq _].
      inversion IH as [|? ? IHp IH']; subst. inversion IH' as [|? ? IHq _]; subst.
      now rewrite (IHp k' Hp Hk'), (IHq v' Hq Hv').
    + reflexivity.
  - cbn [cwf] in Hx. destruct y as [b | r' d' ws | r' d' fs | k' v' | v'].
    + cbn [cveq]. rewrite erase_hash. symmetry. apply veq_scalar_r; [reflexivity | exact Hy].
    + reflexivity.
    + cbn [cwf] in Hy. rewrite !erase_hash. cbn [cveq veq]. rewrite !map_length. f_equal.
      now apply cveq_hash_go.
    + reflexivity.
    + reflexivity.
  - cbn [cwf] in Hx. apply andb_prop in Hx as [Hk Hv].
    destruct y as [b | r' d' ws | r' d' fs | k' v' | v'].
    + cbn [cveq erase]. symmetry. apply veq_scalar_r; [reflexivity | exact Hy].
    + cbn [cwf] in Hy. cbn [cveq erase veq].
      destruct ws as [|p [|q [|z ws]]]; cbn [map]; try reflexivity.
      cbn [forallb] in Hy. apply andb_prop in Hy as [Hp Hy]. apply andb_prop in Hy as [Hq _].
      now rewrite (IHk p Hk Hp), (IHv q Hv Hq).
    + reflexivity.
    + cbn [cwf] in Hy. apply andb_prop in Hy as [Hk' Hv'].
      cbn [cveq erase veq]. now rewrite (IHk k' Hk Hk'), (IHv v' Hv Hv').
    + reflexivity.
  - reflexivity.
Qed.

(* other cache contents: the same denoted value, still well formed *)
Lemma erase_refill : forall f g x, erase (refill f g x) = erase x.
Proof.
  intros f g.
  induction x as [v | r d es IH | r d es IH | k v IHk IHv | v IHv] using cval_ind'.
  - reflexivity.
  - cbn [refill erase]. f_equal. rewrite map_map. now apply map_ext_Forall'.
  - cbn [refill erase]. f_equal. rewrite map_map. apply map_ext_Forall'.
    induction IH as [|e l [Hk Hv] _ IHl]; constructor; [|exact IHl].
    cbn [fst snd]. now rewrite Hk, Hv.
  - cbn [refill erase]. now rewrite IHk, IHv.
  - cbn [refill erase]. now rewrite IHv.
Qed.

Lemma forallb_map' : forall {A B} (f : B -> bool) (g : A -> B) l, forallb f (map g l) = forallb (fun x => f (g x)) l.
Proof. intros A B f g l. induction l as [|x l IH]; cbn [map forallb]; [reflexivity | now rewrite IH]. Qed.

Lemma forallb_ext_Forall : forall {A} (f g : A -> bool) l, Forall (fun x => f x = g x) l -> forallb f l = forallb g l.
Proof. intros A f g l H. induction H as [|x l Hx _ IH]; cbn [forallb]; [reflexivity | now rewrite Hx, IH]. Qed.

Lemma cwf_refill : forall f g x, cwf (refill f g x) = cwf x.
Proof.
  intros f g.
  induction x as [v | r d es IH | r d es IH | k v IHk IHv | v IHv] using cval_ind'.
  - reflexivity.
  - cbn [refill cwf]. rewrite forallb_map'. now apply forallb_ext_Forall.
  - cbn [refill cwf]. rewrite forallb_map'. apply forallb_ext_Forall.
    induction IH as [|e l [Hk Hv] _ IHl]; constructor; [|exact IHl].
    cbn [fst snd]. now rewrite Hk, Hv.
  - cbn [refill cwf]. now rewrite IHk, IHv.
  - cbn [refill cwf]. exact IHv.
Qed.

Lemma cveq_refill : forall f g f' g' x y, cwf x = true -> cwf y = true ->
  cveq (refill f g x) (refill f' g' y) = cveq x y.
Proof.
  intros f g f' g' x y Hx Hy.
  rewrite cveq_erase by (now rewrite cwf_refill).
  rewrite !erase_refill. symmetry. now apply cveq_erase.
Qed.

Lemma ckey_refill : forall f g x, ckey (refill f g x) = ckey x.
Proof. intros. now rewrite !ckey_erase, erase_refill. Qed.

(* a freshly built object denotes the value it was built from *)
Section ValueInd.
  Variable P : value -> Prop.
  Hypothesis Hscalar : forall v, scalar_value v = true -> P v.
  Hypothesis Ha : forall vs, Forall P vs -> P (VArr vs).
  Hypothesis Hh : forall es, Forall (fun e => P (fst e) /\ P (snd e)) es -> P (VHash es).
  Hypothesis He : forall k v, P k -> P v -> P (VEntry k v).
  Hypothesis Hsn : forall v, P v -> P (VSensitive v).
  Fixpoint value_ind_c (x : value) : P x :=
    match x as x0 return P x0 with
    | VArr vs => Ha vs ((fix go (l : list value) : Forall P l :=
                           match l with [] => Forall_nil _ | a :: l' => Forall_cons a (value_ind_c a) (go l') end) vs)
    | VHash es => Hh es ((fix go (l : list (value * value)) : Forall (fun e => P (fst e) /\ P (snd e)) l :=
                            match l with
                            | [] => Forall_nil _
                            | e :: l' => Forall_cons e (conj (value_ind_c (fst e)) (value_ind_c (snd e))) (go l')
                            end) es)
    | VEntry k v => He k v (value_ind_c k) (value_ind_c v)
    | VSensitive v => Hsn v (value_ind_c v)
    | VUndef => Hscalar VUndef eq_refl
    | VDefault => Hscalar VDefault eq_refl
    | VBool b => Hscalar (VBool b) eq_refl
    | VInt z => Hscalar (VInt z) eq_refl
    | VFloat b => Hscalar (VFloat b) eq_refl
    | VStr s => Hscalar (VStr s) eq_refl
    | VRegexp s => Hscalar (VRegexp s) eq_refl
    | VBinary s => Hscalar (VBinary s) eq_refl
    | VTimespan z => Hscalar (VTimespan z) eq_refl
    | VTimestamp s ns => Hscalar (VTimestamp s ns) eq_refl
    | VType t => Hscalar (VType t) eq_refl
    end.
End ValueInd.

Lemma fresh_scalar : forall v, scalar_value v = true -> fresh v = CScalar v.
Proof. intros v H. destruct v; try discriminate; reflexivity. Qed.

Lemma map_id_Forall : forall {A} (f : A -> A) l, Forall (fun x => f x = x) l -> map f l = l.
Proof. intros A f l H. induction H as [|x l Hx _ IH]; cbn [map]; [reflexivity | now rewrite Hx, IH]. Qed.

Lemma erase_fresh : forall v, erase (fresh v) = v.
Proof.
  induction v as [v Hv | vs IH | es IH | k v IHk IHv | v IHv] using value_ind_c.
  - now rewrite fresh_scalar.
  - cbn [fresh erase]. f_equal. rewrite map_map. now apply map_id_Forall.
  - cbn [fresh erase]. f_equal. rewrite map_map. apply map_id_Forall.
    induction IH as [|[k v] l [Hk Hv] _ IHl]; constructor; [|exact IHl].
    cbn [fst snd] in *. now rewrite Hk, Hv.
  - cbn [fresh erase]. now rewrite IHk, IHv.
  - cbn [fresh erase]. now rewrite IHv.
Qed.

Lemma cwf_fresh : forall v, cwf (fresh v) = true.
Proof.
  induction v as [v Hv | vs IH | es IH | k v IHk IHv | v IHv] using value_ind_c.
  - rewrite fresh_scalar by exact Hv. exact Hv.
  - cbn [fresh cwf]. rewrite forallb_map'. apply forallb_forall. now apply Forall_forall.
  - cbn [fresh cwf]. rewrite forallb_map'. apply forallb_forall. intros e He.
    pose proof (proj1 (Forall_forall _ _) IH e He) as [Hk Hv]. cbn [fst snd]. now rewrite Hk, Hv.
  - cbn [fresh cwf]. now rewrite IHk, IHv.
  - cbn [fresh cwf]. exact IHv.
Qed.

(* the answer in any cache state is the answer of the freshly built objects *)
Lemma cveq_any_state_is_fresh : forall x y, cwf x = true -> cwf y = true ->
  cveq x y = cveq (fresh (erase x)) (fresh (erase y)).
Proof.
  intros x y Hx Hy. rewrite (cveq_erase x y Hx Hy).
  rewrite cveq_erase by apply cwf_fresh. now rewrite !erase_fresh.
Qed.

(* the laws on the object graph *)
Lemma cveq_sym : forall x y, cwf x = true -> cwf y = true -> wf_value (erase x) = true -> wf_value (erase y) = true ->
  cveq x y = cveq y x.
Proof. intros x y Hx Hy Wx Wy. rewrite !cveq_erase by assumption. now apply veq_sym. Qed.

Lemma cveq_trans : forall x y z, cwf x = true -> cwf y = true -> cwf z = true ->
  wf_value (erase x) = true -> wf_value (erase y) = true -> wf_value (erase z) = true ->
  cveq x y = true -> cveq y z = true -> cveq x z = true.
Proof.
  intros x y z Hx Hy Hz Wx Wy Wz. rewrite !cveq_erase by assumption. now apply veq_trans.
Qed.

Lemma ckey_iff_cveq : forall x y, cwf x = true -> cwf y = true ->
  wf_value (erase x) = true -> wf_value (erase y) = true -> clean (erase x) = true -> clean (erase y) = true ->
  (ckey x = ckey y <-> cveq x y = true).
Proof.
  intros x y Hx Hy Wx Wy Cx Cy. rewrite !ckey_erase, cveq_erase by assumption. now apply key_iff_eq.
Qed.
