(* C13 - never_half_built: for the caches whose code builds the object before it publishes it, every observation sees
   a complete object - for every number of threads, program and schedule, and whatever the other caches do. *)
From Coq Require Import NArith Arith Bool List Lia.
From PcoreV Require Import Model.Conc Model.ConcLazy Proofs.ConcProofs.
Import ListNotations.

Local Arguments Nat.eqb : simpl never.

Lemma set_full_length h : forall p, length (set_full h p) = length h.
Proof. induction h as [|o h IH]; intros [|p]; cbn; auto. Qed.

Lemma set_full_In h : forall p o, In o (set_full h p) ->
  exists o', In o' h /\ lo_cell o = lo_cell o' /\ (lo_full o' = true -> lo_full o = true).
Proof.
  induction h as [|x h IH]; intros [|p] o Hin; cbn in Hin; try contradiction.
  - destruct Hin as [<-|Hin]; [exists x; cbn; auto | exists o; cbn; auto].
  - destruct Hin as [<-|Hin]; [exists x; cbn; auto|].
    destruct (IH _ _ Hin) as (o' & H1 & H2). exists o'; cbn; auto.
Qed.

Lemma set_full_nth_cell h : forall p q d, lo_cell (nth q (set_full h p) d) = lo_cell (nth q h d).
Proof.
  induction h as [|x h IH]; intros [|p] [|q] d; cbn; auto.
Qed.

Section Lazy.
  Variable pf : cell -> bool.

  Record lz_inv (st : lstate) : Prop := {
    lz_full : forall o, In o (l_heap (ls_sh st)) -> pf (lo_cell o) = false -> lo_full o = true;
    lz_cells : forall c p d, l_cells (ls_sh st) c = Some p ->
                             p < length (l_heap (ls_sh st)) /\ lo_cell (nth p (l_heap (ls_sh st)) d) = c;
    lz_pc : forall t c p d, lt_pc (ls_thr st t) = LWindow c p ->
                            p < length (l_heap (ls_sh st)) /\ lo_cell (nth p (l_heap (ls_sh st)) d) = c;
    lz_log : forall t c b f, In (LGot t c b f) (ls_log st) -> pf c = false -> f = true
  }.

  Lemma observe_full t c h p :
    (forall o, In o h -> pf (lo_cell o) = false -> lo_full o = true) ->
    p < length h -> (forall d, lo_cell (nth p h d) = c) -> pf c = false ->
    exists b, observe t c h p = LGot t c b true.
  Proof.
    intros Hf Hp Hc Hpf. unfold observe. eexists. f_equal.
    apply Hf; [now apply nth_In | now rewrite Hc].
  Qed.

  Lemma lz_init p : lz_inv (linit p).
  Proof.
    split; cbn.
    - intros o [].
    - intros; discriminate.
    - intros; discriminate.
    - intros ? ? ? ? [].
  Qed.

  Lemma nth_app_new {A} (h : list A) x d : nth (length h) (h ++ [x]) d = x.
  Proof. rewrite app_nth2 by lia. now rewrite Nat.sub_diag. Qed.

  Lemma lz_step st t : lz_inv st -> lz_inv (lstep pf st t).
  Proof.
    intros [Hfull Hcells Hpc Hlog]. unfold lstep.
    destruct (lt_pc (ls_thr st t)) as [|c p] eqn:Hp.
    - destruct (lt_todo (ls_thr st t)) as [|[c] todo] eqn:Htodo; [split; auto|].
      destruct (l_cells (ls_sh st) c) as [p|] eqn:Hc.
      + (* the cell is filled: observe *)
        split; cbn [ls_sh ls_thr ls_log]; auto.
        * intros t0 c0 p0 d. destruct (Nat.eq_dec t0 t) as [->|Hne];
            [rewrite upd1_eq; cbn; discriminate | rewrite upd1_neq by assumption; apply Hpc].
        * intros t0 c0 b f Hin Hpf. apply in_app_or in Hin. destruct Hin as [Hin|[Hin|[]]]; [eauto|].
          assert (Hc0 : c0 = c) by (unfold observe in Hin; inversion Hin; auto). subst c0.
          destruct (observe_full t c (l_heap (ls_sh st)) p Hfull) as [b' Ho]; auto.
          -- apply (Hcells c p (mkO c 0 false) Hc).
          -- intros d. apply (Hcells c p d Hc).
          -- rewrite Ho in Hin. inversion Hin; auto.
      + (* empty: allocate, park *)
        destruct (pf c) eqn:Hpfc.
        * (* publish first: the object is incomplete and reachable *)
          split; cbn [ls_sh ls_thr ls_log l_heap l_cells]; auto.
          -- intros o Hin Hpo. apply in_app_or in Hin. destruct Hin as [Hin|[<-|[]]]; auto. cbn in Hpo. congruence.
          -- intros c0 p0 d. rewrite app_length. cbn. destruct (Nat.eq_dec c0 c) as [->|Hne].
             ++ rewrite upd1_eq. intros H; inversion H; subst. split; [lia|]. now rewrite nth_app_new.
             ++ rewrite upd1_neq by assumption. intros H0. destruct (Hcells _ _ d H0) as [Hl Hcl].
                split; [lia|]. now rewrite app_nth1.
          -- intros t0 c0 p0 d. rewrite app_length. cbn. destruct (Nat.eq_dec t0 t) as [->|Hne].
             ++ rewrite upd1_eq. cbn. intros H; inversion H; subst. split; [lia|]. now rewrite nth_app_new.
             ++ rewrite upd1_neq by assumption. intros H. destruct (Hpc _ _ _ d H) as [Hl Hcl].
                split; [lia|]. now rewrite app_nth1.
        * (* build first: complete, not yet reachable *)
          split; cbn [ls_sh ls_thr ls_log l_heap l_cells]; auto.
          -- intros o Hin Hpo. apply in_app_or in Hin. destruct Hin as [Hin|[<-|[]]]; auto.
          -- intros c0 p0 d H0. rewrite app_length. cbn. destruct (Hcells _ _ d H0) as [Hl Hcl].
             split; [lia|]. now rewrite app_nth1.
          -- intros t0 c0 p0 d. rewrite app_length. cbn. destruct (Nat.eq_dec t0 t) as [->|Hne].
             ++ rewrite upd1_eq. cbn. intros H; inversion H; subst. split; [lia|]. now rewrite nth_app_new.
             ++ rewrite upd1_neq by assumption. intros H. destruct (Hpc _ _ _ d H) as [Hl Hcl].
                split; [lia|]. now rewrite app_nth1.
    - (* the window is over *)
      assert (Hlt : p < length (l_heap (ls_sh st))) by (apply (Hpc t c p (mkO c 0 false) Hp)).
      assert (Hcl : forall d, lo_cell (nth p (l_heap (ls_sh st)) d) = c) by (intros d; apply (Hpc t c p d Hp)).
      destruct (pf c) eqn:Hpfc.
      + (* fill in *)
        split; cbn [ls_sh ls_thr ls_log l_heap l_cells].
        * intros o Hin Hpo. destruct (set_full_In _ _ _ Hin) as (o' & Hin' & Hce & Himp).
          apply Himp. apply Hfull; auto. congruence.
        * intros c0 p0 d H0. rewrite set_full_length, set_full_nth_cell. apply Hcells; auto.
        * intros t0 c0 p0 d. rewrite set_full_length, set_full_nth_cell. destruct (Nat.eq_dec t0 t) as [->|Hne];
            [rewrite upd1_eq; cbn; discriminate | rewrite upd1_neq by assumption; apply Hpc].
        * intros t0 c0 b f Hin Hpf. apply in_app_or in Hin. destruct Hin as [Hin|[Hin|[]]]; [eauto|].
          unfold observe in Hin. inversion Hin; subst. congruence.
      + (* publish *)
        split; cbn [ls_sh ls_thr ls_log l_heap l_cells]; auto.
        * intros c0 p0 d. destruct (Nat.eq_dec c0 c) as [->|Hne].
          -- rewrite upd1_eq. intros H; inversion H; subst; auto.
          -- rewrite upd1_neq by assumption. apply Hcells.
        * intros t0 c0 p0 d. destruct (Nat.eq_dec t0 t) as [->|Hne];
            [rewrite upd1_eq; cbn; discriminate | rewrite upd1_neq by assumption; apply Hpc].
        * intros t0 c0 b f Hin Hpf. apply in_app_or in Hin. destruct Hin as [Hin|[Hin|[]]]; [eauto|].
          assert (Hc0 : c0 = c) by (unfold observe in Hin; inversion Hin; auto). subst c0.
          destruct (observe_full t c (l_heap (ls_sh st)) p Hfull Hlt Hcl Hpf) as [b' Ho].
          rewrite Ho in Hin. inversion Hin; auto.
  Qed.

  Lemma lz_exec p s : lz_inv (lexec pf p s).
  Proof.
    unfold lexec. generalize (linit p) (lz_init p). induction s as [|t s IH]; intros st Hst; cbn [fold_left]; auto.
    apply IH. now apply lz_step.
  Qed.

  Lemma never_half_built p s t c b f : In (LGot t c b f) (ltrace pf p s) -> pf c = false -> f = true.
  Proof. apply (lz_log _ (lz_exec p s)). Qed.
End Lazy.
