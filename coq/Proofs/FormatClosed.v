(* Proofs/FormatClosed.v — property C20: the closed forms of Model/FormatClosed.v are the method-by-method model.
   A. float_g = float_g_spec for every table of ASCII digit strings (one statement instead of float_g_shape +
      pad_float_shape), = float_g_spec_unsigned when the digit strings are unsigned;
   B. arr_layout = arr_layout_closed: the alternate Array layout with container children and size breaks as
      delimiter + cells joined by the separator (induction on the element list), sz_break as a statement about the
      runs of consecutive scalars. *)
From Coq Require Import ZArith NArith Bool Lia List.
From PcoreV Require Import Model.Base Model.Format Model.FormatFloatShape Model.FormatClosed.
From PcoreV Require Import Proofs.FormatProofs Proofs.FormatTotal Proofs.FormatNoFault Proofs.FormatLayout Proofs.FormatFloatShape.
Import ListNotations.
Open Scope Z_scope.

(* ------------------------------------------------------------------------------------------ *)
(* B. arrays *)

Lemma run_totals_exceeds w : forall items acc, w < acc -> existsb (fun t => w <? t) (run_totals items acc) = true.
Proof.
  induction items as [|[ah s] r IH]; intros acc Hacc; cbn [run_totals].
  - cbn [existsb]. apply Z.ltb_lt in Hacc. now rewrite Hacc.
  - destruct ah.
    + cbn [existsb]. apply Z.ltb_lt in Hacc. now rewrite Hacc.
    + apply IH. pose proof (len_nonneg s). lia.
Qed.

(* the loop of arraytype.go:678-692 with its running width `widest` *)
Lemma sz_break_runs w : 0 <= w -> forall items widest, widest <= w ->
  sz_break w items widest = existsb (fun t => w <? t) (run_totals items widest).
Proof.
  intros Hw. induction items as [|[ah s] r IH]; intros widest Hle; cbn [sz_break run_totals].
  - cbn [existsb]. apply Z.ltb_ge in Hle. now rewrite Hle.
  - destruct ah.
    + cbn [existsb]. apply Z.ltb_ge in Hle. rewrite Hle. cbn [orb]. apply IH. exact Hw.
    + cbv zeta. destruct (Z.ltb_spec w (widest + len s)) as [Hlt|Hge].
      * symmetry. now apply run_totals_exceeds.
      * apply IH. exact Hge.
Qed.

Theorem sz_break_closed_eq w items : 0 <= w -> sz_break w items 0 = sz_break_closed w items.
Proof. intros Hw. unfold sz_break_closed. now apply sz_break_runs. Qed.

(* what it says: lines are broken for size iff some maximal run of consecutive scalar children is wider than w *)
Lemma sz_break_closed_iff w items :
  sz_break_closed w items = true <-> exists t, In t (run_totals items 0) /\ w < t.
Proof.
  unfold sz_break_closed. rewrite existsb_exists. split; intros (t & Hin & Ht); exists t; split; try exact Hin; now apply Z.ltb_lt.
Qed.

Lemma join_cons2 sep x y l : join sep (x :: y :: l) = x ++ sep ++ join sep (y :: l).
Proof. reflexivity. Qed.

(* the elements after the first: arr_rest is the join of the cells *)
Lemma arr_rest_cells szb pad sep : forall rest prev x,
  x ++ arr_rest true szb pad sep rest prev =
  join sep (x :: map (fun p => arr_gap szb pad (fst p) (fst (snd p)) ++ snd (snd p)) (combine (prev :: map fst rest) rest)).
Proof.
  induction rest as [|[ah s] r IH]; intros prev x.
  - cbn [arr_rest map combine join]. apply app_nil_r.
  - rewrite arr_rest_alternate_step. cbn [map combine fst snd]. rewrite join_cons2.
    rewrite <- (IH ah). unfold arr_gap. now rewrite <- !app_assoc.
Qed.

Theorem arr_layout_alternate_closed f ind delim items :
  f_alt f = true -> arr_layout f ind delim items = arr_layout_alt_closed f ind delim items.
Proof.
  intros Ha. unfold arr_layout, arr_layout_alt_closed. cbv zeta. rewrite Ha. cbn [orb andb].
  assert (Hsz : (0 <=? f_width f) && sz_break (f_width f) items 0 = (0 <=? f_width f) && sz_break_closed (f_width f) items).
  { destruct (Z.leb_spec 0 (f_width f)) as [Hw|Hw]; [|reflexivity]. cbn [andb]. now apply sz_break_closed_eq. }
  rewrite Hsz. destruct (delim_pair _) as [dl dr]. cbn [fst snd]. do 2 f_equal. f_equal.
  destruct items as [|[ah0 s0] rest]; [reflexivity|].
  unfold arr_cells. cbn [map fst]. rewrite <- arr_rest_cells. now rewrite <- app_assoc.
Qed.

(* not alternate: every gap is one space *)
Lemma arr_rest_flat pad sep : forall rest prev x,
  x ++ arr_rest false false pad sep rest prev = join (sep ++ [32%N]) (x :: map snd rest).
Proof.
  induction rest as [|[ah s] r IH]; intros prev x.
  - cbn [arr_rest map join]. apply app_nil_r.
  - cbn [arr_rest map snd]. rewrite join_cons2, <- (IH ah). rewrite andb_false_r. cbn [andb negb orb].
    now rewrite <- !app_assoc.
Qed.

Theorem arr_layout_flat_closed_eq f ind delim items :
  f_alt f = false -> arr_layout f ind delim items = arr_layout_flat_closed f ind delim items.
Proof.
  intros Ha. unfold arr_layout, arr_layout_flat_closed. cbv zeta. rewrite Ha. cbn [orb andb].
  destruct (delim_pair _) as [dl dr]. cbn [fst snd]. do 2 f_equal. f_equal.
  destruct items as [|[ah0 s0] rest]; [reflexivity|]. cbn [app map snd].
  apply arr_rest_flat.
Qed.

Theorem arr_layout_closed_eq f ind delim items : arr_layout f ind delim items = arr_layout_closed f ind delim items.
Proof.
  unfold arr_layout_closed. destruct (f_alt f) eqn:Ha; [now apply arr_layout_alternate_closed | now apply arr_layout_flat_closed_eq].
Qed.

(* ------------------------------------------------------------------------------------------ *)
(* A. g G *)

Lemma mem_app c a b : mem c (a ++ b) = mem c a || mem c b.
Proof. unfold mem. apply existsb_app. Qed.

Lemma mem_zeros c n : c <> 48%N -> mem c (zeros n) = false.
Proof.
  intros H. unfold mem, zeros. induction (Z.to_nat n) as [|k IH]; cbn [repeat existsb]; [reflexivity|].
  rewrite IH, orb_false_r. now apply N.eqb_neq.
Qed.

Lemma mem_g_fill c dot m : c <> 46%N -> c <> 48%N -> mem c (g_fill dot m) = false.
Proof.
  intros H1 H2. unfold g_fill. rewrite mem_app, (mem_zeros c m H2), orb_false_r.
  apply N.eqb_neq in H1. apply N.eqb_neq in H2.
  destruct dot; [reflexivity|]. destruct (m =? 0); cbn [mem existsb]; now rewrite H1, ?H2.
Qed.

(* a leading sign character is none of the letters looked for *)
Lemma mem_skip_sign c0 x s : sign_char_b c0 = true -> sign_char_b x = false -> mem x (c0 :: s) = mem x s.
Proof.
  unfold sign_char_b. intros Hc Hx. cbn [mem existsb]. fold (mem x s).
  destruct (N.eqb_spec x c0) as [->|_]; [congruence | reflexivity].
Qed.

Lemma fl_body_plain verb p ds : fl_body false verb p ds = ds.
Proof. unfold fl_body. now destruct (fl_special ds). Qed.

Lemma g_exp_char_plain c : sign_char_b (g_exp_char c) = false.
Proof. unfold g_exp_char. now destruct (N.eqb c 71). Qed.

(* the function floatGFormat applies to fmt's %g text, and what it is on a non-empty text *)
Lemma float_g_tail o f bits s :
  fdig_ascii o = true -> s <> [] ->
  (let sc := if N.eqb (f_char f) 71 then 69%N else 101%N in
   if mem sc s || f_is_nan bits || f_is_inf bits then OText (pad_float f s)
   else match s with
        | [] => OErr EFault
        | c0 :: _ =>
          let tot := len s - (if N.eqb c0 45 || N.eqb c0 43 || N.eqb c0 32 then 1 else 0) in
          let prc := if (f_prec f <? 0) && negb (f_alt f) then 6 else f_prec f in
          let dot := mem 46 s in
          let missing := if 0 <=? prc then (if dot then prc - (tot - 1) else prc - tot) else 0 in
          if (0 <=? prc) && negb dot && (missing =? 0) then go_fmt_float o (with_prec (replace_char f sc) (prc - 1)) sc bits
          else OText (pad_float f (s ++ (if dot then [] else 46%N :: (if missing =? 0 then [48%N] else [])) ++ zeros missing))
        end) =
  (let '(sg, r) := fl_split_sign s in
   match g_body f (mem (g_exp_char (f_char f)) r || f_is_nan bits || f_is_inf bits) r with
   | Some body => OText (fl_layout (f_left f) (f_zero f && negb (mem 73 r || mem 78 r)) (f_width f) sg body)
   | None => go_fmt_float_spec (dig_of o) (with_prec (replace_char f (g_exp_char (f_char f))) (g_prec f - 1)) (g_exp_char (f_char f)) bits
   end).
Proof.
  intros Ho Hne. destruct s as [|c0 s']; [congruence|]. clear Hne. cbv zeta.
  fold (g_exp_char (f_char f)). fold (g_prec f). fold (sign_char_b c0).
  pose proof (g_exp_char_plain (f_char f)) as Hsc.
  cbn [fl_split_sign]. fold (sign_char_b c0).
  destruct (sign_char_b c0) eqn:Ec.
  - (* the text begins with its sign *)
    rewrite (mem_skip_sign c0 _ s' Ec Hsc), (mem_skip_sign c0 46 s' Ec eq_refl).
    unfold g_body.
    destruct (mem (g_exp_char (f_char f)) s' || f_is_nan bits || f_is_inf bits).
    { rewrite pad_float_shape. unfold pad_float_spec. cbn [fl_split_sign]. fold (sign_char_b c0). rewrite Ec.
      now rewrite (mem_skip_sign c0 73 s' Ec eq_refl), (mem_skip_sign c0 78 s' Ec eq_refl). }
    rewrite len_cons. replace (1 + len s' - 1) with (len s') by lia. fold (g_missing f s').
    destruct ((0 <=? g_prec f) && negb (mem 46 s') && (g_missing f s' =? 0)).
    { now apply go_fmt_float_shape. }
    fold (g_fill (mem 46 s') (g_missing f s')).
    rewrite pad_float_shape. unfold pad_float_spec. cbn [app fl_split_sign]. fold (sign_char_b c0). rewrite Ec.
    rewrite (mem_skip_sign c0 73 _ Ec eq_refl), (mem_skip_sign c0 78 _ Ec eq_refl), !mem_app.
    now rewrite !mem_g_fill, !orb_false_r by discriminate.
  - (* no sign *)
    unfold g_body.
    destruct (mem (g_exp_char (f_char f)) (c0 :: s') || f_is_nan bits || f_is_inf bits).
    { rewrite pad_float_shape. unfold pad_float_spec. cbn [fl_split_sign]. fold (sign_char_b c0). now rewrite Ec. }
    rewrite Z.sub_0_r. fold (g_missing f (c0 :: s')).
    destruct ((0 <=? g_prec f) && negb (mem 46 (c0 :: s')) && (g_missing f (c0 :: s') =? 0)).
    { now apply go_fmt_float_shape. }
    fold (g_fill (mem 46 (c0 :: s')) (g_missing f (c0 :: s'))).
    rewrite pad_float_shape. unfold pad_float_spec.
    change ((c0 :: s') ++ g_fill (mem 46 (c0 :: s')) (g_missing f (c0 :: s'))) with (c0 :: (s' ++ g_fill (mem 46 (c0 :: s')) (g_missing f (c0 :: s')))).
    cbn [fl_split_sign]. fold (sign_char_b c0). rewrite Ec.
    change (c0 :: (s' ++ g_fill (mem 46 (c0 :: s')) (g_missing f (c0 :: s')))) with ((c0 :: s') ++ g_fill (mem 46 (c0 :: s')) (g_missing f (c0 :: s'))).
    rewrite !mem_app. now rewrite !mem_g_fill, !orb_false_r by discriminate.
Qed.

(* floatGFormat IS float_g_spec: one closed statement, for every table of ASCII digit strings *)
Theorem float_g_shape_closed o f bits :
  fdig_ascii o = true -> float_g o f bits = float_g_spec (dig_of o) f bits.
Proof.
  intros Ho. unfold float_g, float_g_spec. cbv zeta.
  rewrite (go_fmt_float_shape o (without_width f) (f_char f) bits Ho).
  unfold go_fmt_float_spec, fmt_float_spec. cbv zeta.
  cbn [without_width f_alt f_zero f_plus f_left f_width f_prec f_char].
  destruct (dig_of o bits (f_char f) (fl_prec (f_prec f) (f_char f))) as [ds0|]; [|reflexivity].
  destruct (fl_strip_plus ds0) as [|d0 ds']; [reflexivity|].
  cbn [andb]. rewrite fl_body_plain.
  rewrite fl_layout_small by (pose proof (len_nonneg (fl_sign (d0 :: ds') (negb (f_is_nan bits) && f_signbit bits) (N.eqb (f_plus f) 43) (N.eqb (f_plus f) 32))); pose proof (len_nonneg (d0 :: ds')); lia).
  cbn [bind].
  apply (float_g_tail o f bits _ Ho).
  intros H. apply app_eq_nil in H. destruct H as [_ H]. discriminate.
Qed.

(* for an unsigned digit string (strconv's: the table carries |x|) the sign padFloat takes off is the sign fmt wrote *)
Lemma fl_split_sign_unsigned ds neg plus space :
  fl_unsigned ds = true ->
  fl_split_sign (fl_sign ds neg plus space ++ ds) = (fl_sign ds neg plus space, ds).
Proof.
  intros Hu. unfold fl_sign. cbv zeta.
  match goal with |- context [if ?b then [fl_sign_char neg plus space] else []] => destruct b end.
  - unfold fl_sign_char. destruct neg, plus, space; reflexivity.
  - cbn [app]. destruct ds as [|c r]; [reflexivity|]. cbn [fl_unsigned] in Hu. apply negb_true_iff in Hu.
    unfold sign_char_b in Hu. cbn [fl_split_sign]. now rewrite Hu.
Qed.

Lemma lookup_unsigned o k ds0 : fdig_unsigned o = true -> assoc fdig_key_eqb k (o_fdig o) = Some ds0 ->
  fl_unsigned (fl_strip_plus ds0) = true.
Proof.
  intros Ho Ha. destruct (assoc_in_gen _ _ _ _ Ha) as (k' & Hin).
  unfold fdig_unsigned in Ho. rewrite forallb_forall in Ho. exact (Ho _ Hin).
Qed.

Theorem float_g_spec_unsigned_eq o f bits :
  fdig_unsigned o = true -> float_g_spec (dig_of o) f bits = float_g_spec_unsigned (dig_of o) f bits.
Proof.
  intros Hu. unfold float_g_spec, float_g_spec_unsigned. cbv zeta. unfold dig_of at 1 3.
  destruct (assoc fdig_key_eqb _ (o_fdig o)) as [ds0|] eqn:Ea; [|reflexivity].
  pose proof (lookup_unsigned o _ ds0 Hu Ea) as Hd.
  destruct (fl_strip_plus ds0) as [|d0 ds']; [reflexivity|].
  now rewrite (fl_split_sign_unsigned (d0 :: ds') _ _ _ Hd).
Qed.

Theorem float_g_shape_closed_unsigned o f bits :
  fdig_ascii o = true -> fdig_unsigned o = true -> float_g o f bits = float_g_spec_unsigned (dig_of o) f bits.
Proof. intros Ha Hu. rewrite (float_g_shape_closed o f bits Ha). now apply float_g_spec_unsigned_eq. Qed.

(* a Boolean / Integer / Float under g G is floatGFormat of its float64 *)
Lemma gG_cases c : mem c l_gG = true -> c = 103%N \/ c = 71%N.
Proof. intros H. apply mem_true in H. cbn in H. destruct H as [H|[H|[]]]; subst; tauto. Qed.

Lemma gG_efg c : mem c l_gG = true -> mem c l_efg = true.
Proof. intros H. destruct (gG_cases c H) as [E|E]; subst; reflexivity. Qed.

Lemma render_float_gG o cb f b : mem (f_char f) l_gG = true -> render_float o cb f b = float_g o f b.
Proof. intros H. unfold render_float. cbv zeta. destruct (gG_cases _ H) as [E|E]; rewrite E; reflexivity. Qed.

Theorem render_scalar_float_g o f v bits :
  float_bits_of o v = Some bits -> mem (f_char f) l_gG = true -> render_scalar o f v = float_g o f bits.
Proof.
  intros Hb Hg. pose proof (gG_efg _ Hg) as He.
  destruct v; cbn [float_bits_of] in Hb; try discriminate; cbn [render_scalar].
  - injection Hb as <-. rewrite (render_boolean_efg o f _ He). now apply render_float_gG.
  - unfold render_int_top. rewrite (render_integer_efg o _ f _ He), Hb. now apply render_float_gG.
  - injection Hb as <-. unfold render_float_top. now apply render_float_gG.
Qed.

Theorem render_scalar_float_g_closed o f v bits :
  fdig_ascii o = true -> float_bits_of o v = Some bits -> mem (f_char f) l_gG = true ->
  render_scalar o f v = float_g_spec (dig_of o) f bits.
Proof. intros Ho Hb Hg. rewrite (render_scalar_float_g o f v bits Hb Hg). now apply float_g_shape_closed. Qed.

(* the two correspondence obligations hold of the model's own text: a failure is a difference between model and
   implementation *)
Lemma float_g_check_model o v spec t :
  fdig_ascii o = true -> format_value o v spec = Some (OText t) -> float_g_check o v spec (OText t) = true.
Proof.
  intros Ho H. unfold float_g_check.
  destruct (scalar_format o v spec) as [f|] eqn:Ef; [|reflexivity].
  destruct (float_bits_of o v) as [bits|] eqn:Eb; [|reflexivity].
  destruct (mem (f_char f) l_gG) eqn:Eg; [|reflexivity].
  rewrite <- (render_scalar_float_g_closed o f v bits Ho Eb Eg), (scalar_format_render o v spec f t Ef H).
  cbn [str_obs_eqb]. apply str_eqb_refl.
Qed.

Lemma arr_closed_check_model o v spec t :
  format_value o v spec = Some (OText t) -> arr_closed_check o v spec (OText t) = true.
Proof.
  unfold format_value, arr_closed_check. destruct v as [| | | | | | | | es | es]; try (destruct (context_of spec) as [[m|e]|]; reflexivity).
  destruct (context_of spec) as [[m|e]|]; try reflexivity.
  cbn [render]. destruct (get_format o m (VArr es)) as [f|e]; [|reflexivity].
  destruct (mem (f_char f) set_array); [|reflexivity]. cbn [negb andb]. cbv zeta.
  match goal with |- obind ?x _ = _ -> match ?y with _ => _ end = true => change y with x; destruct x as [[items|e]|] end;
    cbn [obind]; try reflexivity.
  intros H. injection H as <-. rewrite arr_layout_closed_eq. cbn [str_obs_eqb]. apply str_eqb_refl.
Qed.
