(* CollHeapDecide.v — what every operation of Model/CollHeap.v decides to build is in order (appends to existing
   slices only after capping them at their length) and closed. *)
From Coq Require Import ZArith NArith Bool List Lia.
From PcoreV Require Import Model.Base Model.Heap Model.Coll Model.CollHeap Proofs.HeapProofs Proofs.CollInd Proofs.CollHeapProofs.
Import ListNotations.
Local Open Scope nat_scope.

(* ---------------------------------------------------------------------------------------------- *)
(* what an operation decides to build: in order, and closed *)

Lemma okb_shares vs : forallb plan_okb (shares vs) = true.
Proof. induction vs; cbn; auto. Qed.

Lemma okb_map_share {B} (f : B -> hval) l : forallb plan_okb (map (fun e => Share (f e)) l) = true.
Proof. induction l; cbn; auto. Qed.

Lemma okb_lit p : plan_okb (lit_plan p) = true.
Proof.
  induction p as [| | | |l IH|es IH|k v IHk IHv| | |] using pv_ind'; cbn [lit_plan plan_okb]; auto.
  - induction IH; cbn; auto. now rewrite H, IHIH.
  - induction IH as [|e es [Hk Hv] _ IHl]; cbn; auto. now rewrite Hk, Hv, IHl.
  - now rewrite IHk, IHv.
Qed.

Lemma okb_parse p : plan_okb (parse_plan p) = true.
Proof.
  induction p as [| | | |l IH|es IH|k v IHk IHv| | |] using pv_ind'; cbn [parse_plan lit_plan plan_okb]; auto.
  - induction IH; cbn; auto. now rewrite H, IHIH.
  - induction IH as [|e es [Hk Hv] _ IHl]; cbn; auto. now rewrite Hk, Hv, IHl.
  - now rewrite IHk, IHv.
Qed.

Lemma okb_lit_items l : forallb plan_okb (map lit_plan l) = true.
Proof. induction l; cbn; auto. now rewrite okb_lit. Qed.

Lemma okb_lit_entries (es : list (pv * pv)) :
  forallb plan_okb (map (fun e => MkEntry (lit_plan (fst e)) (lit_plan (snd e))) es) = true.
Proof. induction es; cbn; auto. now rewrite !okb_lit. Qed.

Lemma okb_build c p : plan_okb (build_plan c p) = true.
Proof. destruct p; cbn [build_plan plan_okb]; try apply (okb_lit (PEntry _ _)); auto using okb_lit_items, okb_lit_entries. Qed.

Lemma okb_mapper pool m v : plan_okb (h_mapper pool m v) = true.
Proof. destruct m; reflexivity. Qed.

Lemma okb_map_mapper pool m l : forallb plan_okb (map (h_mapper pool m) l) = true.
Proof. induction l; cbn; auto. now rewrite okb_mapper. Qed.

Lemma okb_mapvalues pool m l :
  forallb plan_okb (map (fun e => MkEntry (Share (fst (ent e))) (h_mapper pool m (snd (ent e)))) l) = true.
Proof. induction l; cbn; auto. now rewrite okb_mapper. Qed.

Lemma okb_asarray l :
  forallb plan_okb (map (fun e => New false Exact [Share (fst (ent e)); Share (snd (ent e))]) l) = true.
Proof. induction l; cbn; auto. Qed.

Definition pres_ok (r : pres) : Prop := match r with PPlan p => plan_okb p = true | PErr _ => True end.

Ltac head_split :=
  repeat match goal with
         | |- pres_ok (match ?x with _ => _ end) => destruct x
         | |- pres_ok (if ?x then _ else _) => destruct x
         end.

Lemma decide_pres_ok h pool o : pres_ok (decide h pool o).
Proof.
  unfold decide, merge_plan, flatten_plan, ok, pbad.
  destruct o; cbv beta iota zeta; head_split; cbn [pres_ok plan_okb capped s_len s_cap andb];
    rewrite ?Nat.eqb_refl; cbn [andb];
    auto using okb_shares, okb_lit, okb_parse, okb_build, okb_map_mapper, okb_mapvalues, okb_asarray, okb_map_share.
Qed.

Lemma decide_ok h pool o p : decide h pool o = PPlan p -> plan_okb p = true.
Proof. intros H. pose proof (decide_pres_ok h pool o) as G. now rewrite H in G. Qed.

(* ---------------------------------------------------------------------------------------------- *)
(* closedness of the decisions *)

Definition pres_closed (n : nat) (r : pres) : Prop := match r with PPlan p => plan_closed n p | PErr _ => True end.

Notation CL n := (Forall (val_closed n)).

Lemma closed_lit n p : plan_closed n (lit_plan p).
Proof.
  induction p as [| | | |l IH|es IH|k v IHk IHv| | |] using pv_ind'; cbn [lit_plan]; try exact I.
  - apply plan_closed_New. induction IH; cbn; constructor; auto.
  - apply plan_closed_New. induction IH as [|e es [Hk Hv] _ IHl]; cbn; constructor; auto. cbn. auto.
  - cbn. auto.
Qed.

Lemma closed_parse n p : plan_closed n (parse_plan p).
Proof.
  induction p as [| | | |l IH|es IH|k v IHk IHv| | |] using pv_ind'; cbn [parse_plan lit_plan]; try exact I.
  - apply plan_closed_New. induction IH; cbn; constructor; auto.
  - apply plan_closed_New. induction IH as [|e es [Hk Hv] _ IHl]; cbn; constructor; auto. cbn. auto.
  - cbn. auto.
Qed.

Lemma closed_build n c p : plan_closed n (build_plan c p).
Proof.
  destruct p; cbn [build_plan]; try apply closed_lit.
  - apply plan_closed_New. induction l; cbn; constructor; auto using closed_lit.
  - apply plan_closed_New. induction es; cbn; constructor; auto. cbn; auto using closed_lit.
Qed.

Lemma closed_shares n vs : CL n vs -> Forall (plan_closed n) (shares vs).
Proof. induction 1; cbn; constructor; auto. Qed.

Lemma closed_P n pool i : CL n pool -> val_closed n (P pool i).
Proof. intros H. unfold P. apply Forall_nth; [exact I|assumption]. Qed.

Lemma closed_nth n l i : CL n l -> val_closed n (nth i l HNilv).
Proof. intros H. apply Forall_nth; [exact I|assumption]. Qed.

Lemma closed_ent_fst n e : val_closed n e -> val_closed n (fst (ent e)).
Proof. destruct e; cbn; tauto. Qed.
Lemma closed_ent_snd n e : val_closed n e -> val_closed n (snd (ent e)).
Proof. destruct e; cbn; tauto. Qed.

Lemma closed_map_fst n l : CL n l -> CL n (map (fun e => fst (ent e)) l).
Proof. induction 1; cbn; constructor; auto using closed_ent_fst. Qed.
Lemma closed_map_snd n l : CL n l -> CL n (map (fun e => snd (ent e)) l).
Proof. induction 1; cbn; constructor; auto using closed_ent_snd. Qed.

Lemma closed_mapper n pool m v : CL n pool -> val_closed n v -> plan_closed n (h_mapper pool m v).
Proof.
  intros Hp Hv. destruct m; cbn [h_mapper]; [exact Hv| |now apply closed_P].
  apply plan_closed_New. constructor; [exact Hv|constructor].
Qed.

Lemma closed_map_mapper n pool m l : CL n pool -> CL n l -> Forall (plan_closed n) (map (h_mapper pool m) l).
Proof. intros Hp. induction 1; cbn; constructor; auto using closed_mapper. Qed.

Lemma closed_mapvalues n pool m l : CL n pool -> CL n l ->
  Forall (plan_closed n) (map (fun e => MkEntry (Share (fst (ent e))) (h_mapper pool m (snd (ent e)))) l).
Proof.
  intros Hp. induction 1; cbn [map]; constructor; auto.
  cbn [plan_closed]. split; [now apply closed_ent_fst|apply closed_mapper; auto using closed_ent_snd].
Qed.

Lemma closed_asarray n l : CL n l ->
  Forall (plan_closed n) (map (fun e => New false Exact [Share (fst (ent e)); Share (snd (ent e))]) l).
Proof.
  induction 1; cbn [map]; constructor; auto.
  apply plan_closed_New. repeat constructor; cbn; auto using closed_ent_fst, closed_ent_snd.
Qed.

Lemma closed_kv_list n es : CL n es -> CL n (h_kv_list es).
Proof. induction 1; cbn; repeat constructor; auto using closed_ent_fst, closed_ent_snd. Qed.

Lemma closed_pairs_flat n : forall l, CL n l -> CL n (h_pairs_flat l).
Proof.
  fix IH 1. intros [|k [|v t]] H; cbn; try constructor.
  - inversion H as [|? ? Hk H1]; subst. inversion H1; subst. cbn; auto.
  - inversion H as [|? ? Hk H1]; subst. inversion H1; subst. apply IH. assumption.
Qed.

Section WithStore.
  Variable h : hstore.
  Variable pool : list hval.
  Hypothesis Hc : store_closed h.
  Hypothesis Hp : CL (length h) pool.
  Notation n := (length h).

  Lemma closed_els s : CL n (els h s).
  Proof. now apply store_closed_els. Qed.

  Lemma closed_h_elems v xs : val_closed n v -> h_elems h v = Some xs -> CL n xs.
  Proof.
    destruct v; cbn; try discriminate; intros Hv [= <-]; try apply closed_els.
    destruct Hv. repeat constructor; assumption.
  Qed.

  Lemma closed_flatten1 : forall fuel v, val_closed n v -> CL n (h_flatten1 h fuel v).
  Proof.
    induction fuel as [|f IH]; intros v Hv; cbn [h_flatten1]; [repeat constructor; assumption|].
    destruct v; try (repeat constructor; assumption).
    - pose proof (closed_els s) as Hs. induction Hs; cbn; [constructor|]. apply Forall_app'; auto.
    - destruct Hv. apply Forall_app'; auto.
  Qed.

  Lemma closed_flatten vs : CL n vs -> CL n (h_flatten h vs).
  Proof. unfold h_flatten. induction 1; cbn [flat_map]; [constructor|]. apply Forall_app'; auto using closed_flatten1. Qed.

  Lemma closed_pairs_of : forall l es, CL n l -> h_pairs_of h l = Some es -> CL n es.
  Proof.
    induction l as [|p l IH]; intros es Hl; cbn [h_pairs_of]; [intros [= <-]; constructor|].
    inversion Hl as [|? ? Hpv Hrest]; subst.
    destruct (h_elems h p) as [[|k [|v [|? ?]]]|] eqn:E; try discriminate.
    destruct (h_pairs_of h l) as [r|] eqn:E2; [|discriminate]. intros [= <-].
    pose proof (closed_h_elems p [k; v] Hpv E) as Hkv. inversion Hkv as [|? ? Hk H1]; subst. inversion H1; subst.
    constructor; [cbn; auto|]. now apply IH.
  Qed.

  Lemma closed_hash_from_array l es : CL n l -> h_hash_from_array h l = inl es -> CL n es.
  Proof.
    intros Hl. unfold h_hash_from_array.
    destruct (negb (Nat.eqb (length l) 0) && forallb nested l).
    - destruct (h_pairs_of h l) as [r|] eqn:E; [|discriminate]. intros [= <-].
      apply Forall_unique_entries. eapply closed_pairs_of; eassumption.
    - destruct (Nat.odd (length l)); [discriminate|]. intros [= <-].
      apply Forall_unique_entries. now apply closed_pairs_flat.
  Qed.

  Lemma closed_hslice s i j s' : hslice s i j = Some s' -> s_addr s' = s_addr s.
  Proof. apply hslice_addr. Qed.

  Lemma closed_share v : val_closed n v -> plan_closed n (Share v).
  Proof. exact (fun H => H). Qed.
  Lemma closed_entry k v : val_closed n k -> val_closed n v -> val_closed n (HEntry k v).
  Proof. cbn; auto. Qed.
  Ltac learn :=
    repeat match goal with
           | E : P pool ?i = ?v |- _ =>
               let F := fresh "F" in pose proof (closed_P n pool i Hp) as F; rewrite E in F; cbn [val_closed] in F; clear E
           | E : els h ?s = ?l |- _ =>
               let F := fresh "F" in pose proof (closed_els s) as F; rewrite E in F; clear E
           | E : h_elems h ?v = Some ?l |- _ =>
               let F := fresh "F" in
               assert (F : CL n l) by (apply (closed_h_elems v l); [cbn [val_closed]; auto|exact E]); clear E
           | E : h_hash_from_array h ?l = inl ?es |- _ =>
               let F := fresh "F" in
               assert (F : CL n es) by (apply (closed_hash_from_array l es); [auto using closed_els|exact E]); clear E
           | E : hslice ?s ?i ?j = Some ?s' |- _ =>
               let F := fresh "F" in pose proof (hslice_addr s i j s' E) as F; cbn [capped s_addr] in F; clear E
           | E : find ?f ?l = Some ?v |- _ =>
               let F := fresh "F" in
               assert (F : val_closed n v) by (apply (Forall_find (val_closed n) f l v); [auto using closed_els|exact E]); clear E
           | E : at_z ?i ?l = Some ?v |- _ =>
               let F := fresh "F" in
               assert (F : val_closed n v) by (apply (Forall_at_z (val_closed n) l i v); [auto using closed_els|exact E]); clear E
           | E : chunk ?k ?j ?l = Some ?c |- _ =>
               let F := fresh "F" in
               assert (F : CL n c) by (apply (Forall_chunk (val_closed n) k j l c); [auto using closed_els|exact E]); clear E
           | F : Forall _ (_ :: _) |- _ => inversion F; subst; clear F
           | F : _ /\ _ |- _ => destruct F
           end.
  Hint Resolve closed_els closed_shares closed_P closed_map_fst closed_map_snd closed_map_mapper closed_mapvalues
       closed_asarray closed_kv_list closed_flatten closed_lit closed_parse closed_build
       closed_ent_fst closed_ent_snd : closed.
  Hint Resolve Forall_filter' Forall_app' Forall_sort_by Forall_merge Forall_unique_entries Forall_unique_acc
       Forall_remove_nth Forall_remove_positions closed_nth conj Forall_cons Forall_nil closed_share closed_entry : closed.
  Ltac rewrite_addr := match goal with F : s_addr ?a = s_addr ?b |- s_addr ?a < _ => rewrite F; assumption end.
  Ltac head_split_eq :=
    repeat match goal with
           | |- pres_closed _ (match ?x with _ => _ end) => destruct x eqn:?
           | |- pres_closed _ (if ?x then _ else _) => destruct x eqn:?
           end.
  Lemma decide_pres_closed o : pres_closed n (decide h pool o).
  Proof.
    unfold decide, merge_plan, flatten_plan, ok, pbad.
    destruct o; cbv beta iota zeta; head_split_eq; cbn [pres_closed]; try exact I;
      rewrite ?plan_closed_New, ?plan_closed_AppendTo; cbn [plan_closed capped s_addr];
      solve [learn; cbn [val_closed plan_closed] in *;
             repeat match goal with |- context [if ?c then _ else _] => destruct c end;
             cbn [val_closed]; try exact I; try rewrite_addr; eauto 7 with closed].
  Qed.
End WithStore.

Lemma decide_closed h pool o p :
  store_closed h -> Forall (val_closed (length h)) pool -> decide h pool o = PPlan p -> plan_closed (length h) p.
Proof. intros Hc Hp H. pose proof (decide_pres_closed h pool Hc Hp o) as G. now rewrite H in G. Qed.
