(* PbProofs.v — lemmas about the model of the protobuf transport and the collector (Model/Pb.v). *)
From Coq Require Import ZArith NArith Bool List Lia.
From PcoreV Require Import Model.Base Model.Json Model.Pb Proofs.JsonProofs.
Import ListNotations.
Open Scope Z_scope.

(* ---------------------------------------------------------------------------------------------- *)
(* induction over values (nested lists and lists of pairs) *)

Lemma value_ind' (P : value -> Prop) :
  P VUndef -> (forall b, P (VBool b)) -> (forall z, P (VInt z)) -> (forall f, P (VFloat f)) ->
  (forall s, P (VStr s)) -> (forall l, Forall P l -> P (VArr l)) ->
  (forall es, Forall (fun kv => P (fst kv) /\ P (snd kv)) es -> P (VHash es)) ->
  (forall b, P (VBin b)) -> P VOther -> forall v, P v.
Proof.
  intros Hu Hb Hi Hf Hs Ha Hh Hbin Ho.
  fix IH 1. intros [ |b|z|f|s|l|es|b| ].
  - exact Hu.
  - apply Hb.
  - apply Hi.
  - apply Hf.
  - apply Hs.
  - apply Ha. induction l as [|x l IHl]; constructor; [apply IH|exact IHl].
  - apply Hh. induction es as [|[k x] es IHes]; constructor; [split; apply IH|exact IHes].
  - apply Hbin.
  - exact Ho.
Qed.

Lemma mapM_gen_nil {A B} (f : A -> res B) : mapM_gen f [] = Ok [].
Proof. reflexivity. Qed.
Lemma mapM_gen_cons {A B} (f : A -> res B) x l :
  mapM_gen f (x :: l) = let* y := f x in let* ys := mapM_gen f l in Ok (y :: ys).
Proof. reflexivity. Qed.

(* mapping a function that inverts g over a list mapped with g *)
Lemma mapM_map_inv {A B C} (g : A -> B) (f : B -> res C) (h : A -> C) (l : list A) :
  Forall (fun x => f (g x) = Ok (h x)) l -> mapM_gen f (map g l) = Ok (map h l).
Proof.
  induction 1 as [|x l Hx _ IH]; [reflexivity|].
  cbn [map]. rewrite mapM_gen_cons, Hx. cbn [bind]. rewrite IH. reflexivity.
Qed.

Lemma map_id' {A} (l : list A) : map (fun x => x) l = l.
Proof. induction l as [|x l IH]; [reflexivity|]. cbn [map]. rewrite IH. reflexivity. Qed.

(* ---------------------------------------------------------------------------------------------- *)
(* 1. FromPBData (ToPBData v) = v for Data *)

Theorem pb_roundtrip : forall v, is_data v = true -> from_pb (to_pb v) = Ok v.
Proof.
  induction v as [ |b|z|f|s|l IH|es IH|b| ] using value_ind'; cbn [is_data to_pb from_pb]; intros Hd;
    try reflexivity; try discriminate Hd.
  - rewrite (mapM_map_inv to_pb from_pb (fun x => x)).
    + cbn [bind]. rewrite map_id'. reflexivity.
    + rewrite Forall_forall in *. rewrite forallb_forall in Hd. intros x Hx. apply IH; auto.
  - rewrite (mapM_map_inv (fun kv => (to_pb (fst kv), to_pb (snd kv))) _ (fun x => x)).
    + cbn [bind]. rewrite map_id'. reflexivity.
    + rewrite Forall_forall in *. rewrite forallb_forall in Hd. intros [k x] Hx.
      specialize (IH _ Hx). specialize (Hd _ Hx). cbn [fst snd] in *.
      apply andb_true_iff in Hd as [Hk Hv]. destruct IH as [IHk IHv].
      rewrite (IHk Hk), (IHv Hv). reflexivity.
Qed.

(* ---------------------------------------------------------------------------------------------- *)
(* 2. the calls ConsumePBData makes for ToPBData v are the events of v *)

Lemma pb_image_scalar v :
  match v with VArr _ | VHash _ => False | _ => True end ->
  consume_pb (to_pb v) = Ok (pb_image (events_of v)).
Proof. destruct v; intros H; try contradiction; reflexivity. Qed.

Lemma flat_pairs_map {A B} (f : A -> B) (g : A -> B) (es : list (A * A)) :
  flat_map (fun p => [fst p; snd p]) (map (fun kv => (f (fst kv), g (snd kv))) es) =
  flat_map (fun kv => [f (fst kv); g (snd kv)]) es.
Proof. induction es as [|[k x] es IH]; [reflexivity|]. cbn [map flat_map fst snd app]. rewrite IH. reflexivity. Qed.

Lemma map_flat_map {A B C} (f : B -> C) (g : A -> list B) (l : list A) :
  map f (flat_map g l) = flat_map (fun x => map f (g x)) l.
Proof. induction l as [|x l IH]; [reflexivity|]. cbn [flat_map]. rewrite map_app, IH. reflexivity. Qed.

Theorem consume_to_pb : forall v, consume_pb (to_pb v) = Ok (pb_image (events_of v)).
Proof.
  induction v as [ |b|z|f|s|l IH|es IH|b| ] using value_ind'; try reflexivity.
  - cbn [to_pb consume_pb events_of pb_image].
    rewrite (mapM_map_inv to_pb consume_pb (fun x => pb_image (events_of x)) l IH).
    cbn [bind]. rewrite map_map. reflexivity.
  - cbn [to_pb consume_pb events_of pb_image].
    rewrite (mapM_map_inv (fun kv => (to_pb (fst kv), to_pb (snd kv))) _
               (fun kv => (pb_image (events_of (fst kv)), pb_image (events_of (snd kv)))) es).
    + cbn [bind]. rewrite (flat_pairs_map (fun x => pb_image (events_of x)) (fun x => pb_image (events_of x))), map_flat_map.
      reflexivity.
    + rewrite Forall_forall in *. intros [k x] Hx. destruct (IH _ Hx) as [IHk IHv]. cbn [fst snd] in *.
      rewrite IHk, IHv. reflexivity.
Qed.

Lemma flat_map_ext_in' {A B} (f g : A -> list B) (l : list A) :
  (forall x, In x l -> f x = g x) -> flat_map f l = flat_map g l.
Proof.
  induction l as [|x l IH]; intros H; [reflexivity|].
  cbn [flat_map]. rewrite (H x (or_introl eq_refl)), IH; [reflexivity|].
  intros y Hy. apply H. right. exact Hy.
Qed.

(* for Data nothing is lost on the way *)
Lemma pb_image_data : forall v, is_data v = true -> pb_image (events_of v) = events_of v.
Proof.
  induction v as [ |b|z|f|s|l IH|es IH|b| ] using value_ind'; cbn [is_data events_of pb_image]; intros Hd;
    try reflexivity; try discriminate Hd.
  - f_equal. rewrite map_map. apply map_ext_in. intros x Hx.
    rewrite Forall_forall in IH. rewrite forallb_forall in Hd. apply IH; auto.
  - f_equal. rewrite map_flat_map. apply flat_map_ext_in'. intros [k x] Hx.
    rewrite Forall_forall in IH. rewrite forallb_forall in Hd.
    specialize (IH _ Hx). specialize (Hd _ Hx). cbn [fst snd map] in *.
    apply andb_true_iff in Hd as [Hk Hv]. destruct IH as [IHk IHv]. rewrite (IHk Hk), (IHv Hv). reflexivity.
Qed.
