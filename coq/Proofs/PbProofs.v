(* PbProofs.v — lemmas about the model of the protobuf transport and the collector (Model/Pb.v). *)
From Coq Require Import ZArith NArith Bool List Lia.
From PcoreV Require Import Model.Base Model.Json Model.Pb Proofs.JsonProofs.
Import ListNotations.
Open Scope Z_scope.

(* ---------------------------------------------------------------------------------------------- *)
(* induction over values (nested lists and lists of pairs) *)

Lemma value_ind' (P : value -> Prop) :
  P VUndef -> (forall b, P (VBool b)) -> (forall z, P (VInt z)) -> (forall f, P (VFloat f)) ->
  (forall s, P (VStr s)) -> (forall l, Forall P l -> P (VArr l)) ->
  (forall es, Forall (fun kv => P (fst kv) /\ P (snd kv)) es -> P (VHash es)) ->
  (forall b, P (VBin b)) -> P VOther -> forall v, P v.
Proof.
  intros Hu Hb Hi Hf Hs Ha Hh Hbin Ho.
  fix IH 1. intros [ |b|z|f|s|l|es|b| ].
  - exact Hu.
  - apply Hb.
  - apply Hi.
  - apply Hf.
  - apply Hs.
  - apply Ha. induction l as [|x l IHl]; constructor; [apply IH|exact IHl].
  - apply Hh. induction es as [|[k x] es IHes]; constructor; [split; apply IH|exact IHes].
  - apply Hbin.
  - exact Ho.
Qed.

Lemma mapM_gen_nil {A B} (f : A -> res B) : mapM_gen f [] = Ok [].
Proof. reflexivity. Qed.
Lemma mapM_gen_cons {A B} (f : A -> res B) x l :
  mapM_gen f (x :: l) = let* y := f x in let* ys := mapM_gen f l in Ok (y :: ys).
Proof. reflexivity. Qed.

(* mapping a function that inverts g over a list mapped with g *)
Lemma mapM_map_inv {A B C} (g : A -> B) (f : B -> res C) (h : A -> C) (l : list A) :
  Forall (fun x => f (g x) = Ok (h x)) l -> mapM_gen f (map g l) = Ok (map h l).
Proof.
  induction 1 as [|x l Hx _ IH]; [reflexivity|].
  cbn [map]. rewrite mapM_gen_cons, Hx. cbn [bind]. rewrite IH. reflexivity.
Qed.

Lemma map_id' {A} (l : list A) : map (fun x => x) l = l.
Proof. induction l as [|x l IH]; [reflexivity|]. cbn [map]. rewrite IH. reflexivity. Qed.

(* ---------------------------------------------------------------------------------------------- *)
(* 1. FromPBData (ToPBData v) = v for Data *)

Theorem pb_roundtrip : forall v, is_data v = true -> from_pb (to_pb v) = Ok v.
Proof.
  induction v as [ |b|z|f|s|l IH|es IH|b| ] using value_ind'; cbn [is_data to_pb from_pb]; intros Hd;
    try reflexivity; try discriminate Hd.
  - rewrite (mapM_map_inv to_pb from_pb (fun x => x)).
    + cbn [bind]. rewrite map_id'. reflexivity.
    + rewrite Forall_forall in *. rewrite forallb_forall in Hd. intros x Hx. apply IH; auto.
  - rewrite (mapM_map_inv (fun kv => (to_pb (fst kv), to_pb (snd kv))) _ (fun x => x)).
    + cbn [bind]. rewrite map_id'. reflexivity.
    + rewrite Forall_forall in *. rewrite forallb_forall in Hd. intros [k x] Hx.
      specialize (IH _ Hx). specialize (Hd _ Hx). cbn [fst snd] in *.
      apply andb_true_iff in Hd as [Hk Hv]. destruct IH as [IHk IHv].
      rewrite (IHk Hk), (IHv Hv). reflexivity.
Qed.

(* ---------------------------------------------------------------------------------------------- *)
(* 2. the calls ConsumePBData makes for ToPBData v are the events of v *)

Lemma pb_image_scalar v :
  match v with VArr _ | VHash _ => False | _ => True end ->
  consume_pb (to_pb v) = Ok (pb_image (events_of v)).
Proof. destruct v; intros H; try contradiction; reflexivity. Qed.

Lemma flat_pairs_map {A B} (f : A -> B) (g : A -> B) (es : list (A * A)) :
  flat_map (fun p => [fst p; snd p]) (map (fun kv => (f (fst kv), g (snd kv))) es) =
  flat_map (fun kv => [f (fst kv); g (snd kv)]) es.
Proof. induction es as [|[k x] es IH]; [reflexivity|]. cbn [map flat_map fst snd app]. rewrite IH. reflexivity. Qed.

Lemma map_flat_map {A B C} (f : B -> C) (g : A -> list B) (l : list A) :
  map f (flat_map g l) = flat_map (fun x => map f (g x)) l.
Proof. induction l as [|x l IH]; [reflexivity|]. cbn [flat_map]. rewrite map_app, IH. reflexivity. Qed.

Theorem consume_to_pb : forall v, consume_pb (to_pb v) = Ok (pb_image (events_of v)).
Proof.
  induction v as [ |b|z|f|s|l IH|es IH|b| ] using value_ind'; try reflexivity.
  - cbn [to_pb consume_pb events_of pb_image].
    rewrite (mapM_map_inv to_pb consume_pb (fun x => pb_image (events_of x)) l IH).
    cbn [bind]. rewrite map_map. reflexivity.
  - cbn [to_pb consume_pb events_of pb_image].
    rewrite (mapM_map_inv (fun kv => (to_pb (fst kv), to_pb (snd kv))) _
               (fun kv => (pb_image (events_of (fst kv)), pb_image (events_of (snd kv)))) es).
    + cbn [bind]. rewrite (flat_pairs_map (fun x => pb_image (events_of x)) (fun x => pb_image (events_of x))), map_flat_map.
      reflexivity.
    + rewrite Forall_forall in *. intros [k x] Hx. destruct (IH _ Hx) as [IHk IHv]. cbn [fst snd] in *.
      rewrite IHk, IHv. reflexivity.
Qed.

Lemma flat_map_ext_in' {A B} (f g : A -> list B) (l : list A) :
  (forall x, In x l -> f x = g x) -> flat_map f l = flat_map g l.
Proof.
  induction l as [|x l IH]; intros H; [reflexivity|].
  cbn [flat_map]. rewrite (H x (or_introl eq_refl)), IH; [reflexivity|].
  intros y Hy. apply H. right. exact Hy.
Qed.

(* for Data nothing is lost on the way *)
Lemma pb_image_data : forall v, is_data v = true -> pb_image (events_of v) = events_of v.
Proof.
  induction v as [ |b|z|f|s|l IH|es IH|b| ] using value_ind'; cbn [is_data events_of pb_image]; intros Hd;
    try reflexivity; try discriminate Hd.
  - f_equal. rewrite map_map. apply map_ext_in. intros x Hx.
    rewrite Forall_forall in IH. rewrite forallb_forall in Hd. apply IH; auto.
  - f_equal. rewrite map_flat_map. apply flat_map_ext_in'. intros [k x] Hx.
    rewrite Forall_forall in IH. rewrite forallb_forall in Hd.
    specialize (IH _ Hx). specialize (Hd _ Hx). cbn [fst snd map] in *.
    apply andb_true_iff in Hd as [Hk Hv]. destruct IH as [IHk IHv]. rewrite (IHk Hk), (IHv Hv). reflexivity.
Qed.

(* ---------------------------------------------------------------------------------------------- *)
(* 3. protoConsumer builds the message the calls denote, for every tree of calls whose hashes are even *)

Lemma pc_seq_nil f stack : pc_seq f stack [] = Ok stack.
Proof. reflexivity. Qed.
Lemma pc_seq_cons f stack x l : pc_seq f stack (x :: l) = let* s1 := f stack x in pc_seq f s1 l.
Proof. reflexivity. Qed.

Definition P_pc (e : ev) : Prop :=
  even_hashes e = true -> forall top rest, pc_ev (top :: rest) e = Ok ((top ++ [pb_of_ev e]) :: rest).

Lemma pc_seq_spec l :
  Forall P_pc l -> forallb even_hashes l = true ->
  forall top rest, pc_seq pc_ev (top :: rest) l = Ok ((top ++ map pb_of_ev l) :: rest).
Proof.
  induction 1 as [|x l Hx _ IH]; intros He top rest.
  - cbn [map]. rewrite app_nil_r. reflexivity.
  - cbn [forallb] in He. apply andb_true_iff in He as [Hex Hel].
    rewrite pc_seq_cons, (Hx Hex). cbn [bind]. rewrite (IH Hel). cbn [map]. rewrite <- app_assoc. reflexivity.
Qed.

(* lists of even length, two elements at a time *)
Lemma even_list_ind {A} (P : list A -> Prop) :
  P [] -> (forall k v r, Nat.even (length r) = true -> P r -> P (k :: v :: r)) ->
  forall l, Nat.even (length l) = true -> P l.
Proof.
  intros H0 H2. fix IH 1. intros [|k [|v r]] He.
  - exact H0.
  - discriminate He.
  - apply H2; [exact He|]. apply IH. exact He.
Qed.

Lemma pair_up_even {A} (l : list A) : Nat.even (length l) = true -> pair_up l = Ok (pairs l).
Proof.
  revert l. apply even_list_ind; [reflexivity|]. intros k v r _ IH.
  cbn [pair_up pairs]. rewrite IH. reflexivity.
Qed.

Lemma pc_ev_spec : forall e, P_pc e.
Proof.
  induction e as [s|n|l IH|l IH] using ev_ind'; intros He top rest.
  - reflexivity.
  - reflexivity.
  - cbn [even_hashes] in He. cbn [pc_ev pb_of_ev].
    rewrite (pc_seq_spec l IH He). cbn [bind app]. reflexivity.
  - cbn [even_hashes] in He. apply andb_true_iff in He as [Hlen He]. cbn [pc_ev pb_of_ev].
    rewrite (pc_seq_spec l IH He). cbn [bind app].
    rewrite pair_up_even by (rewrite map_length; exact Hlen). reflexivity.
Qed.

Theorem pc_run_spec e : even_hashes e = true -> pc_run e = Ok (pb_of_ev e).
Proof. intros He. unfold pc_run. rewrite (pc_ev_spec e He). reflexivity. Qed.

(* ... and ConsumePBData replays exactly those calls *)
Definition P_consume (e : ev) : Prop := even_hashes e = true -> consume_pb (pb_of_ev e) = Ok (pb_image e).

Lemma scalar_pb_consume s : consume_pb (scalar_pb s) = Ok (pb_image (EAdd s)).
Proof. destruct s; reflexivity. Qed.

Lemma consume_pairs : forall l, Nat.even (length l) = true ->
  Forall P_consume l -> forallb even_hashes l = true ->
  mapM_gen (fun kx => let* ke := consume_pb (fst kx) in let* xe := consume_pb (snd kx) in Ok (ke, xe))
           (pairs (map pb_of_ev l)) = Ok (pairs (map pb_image l)).
Proof.
  apply (even_list_ind (fun l => Forall P_consume l -> forallb even_hashes l = true -> _ = Ok (pairs (map pb_image l)))).
  - reflexivity.
  - intros k v r _ IH HP He.
    inversion HP as [|? ? Hk HP']; subst. inversion HP' as [|? ? Hv HP'']; subst.
    cbn [forallb] in He. apply andb_true_iff in He as [Hek He]. apply andb_true_iff in He as [Hev He].
    cbn [map pairs]. rewrite mapM_gen_cons. cbn [fst snd].
    rewrite (Hk Hek), (Hv Hev). cbn [bind]. rewrite (IH HP'' He). reflexivity.
Qed.

Lemma flat_pairs_even {A} : forall l : list A, Nat.even (length l) = true ->
  flat_map (fun p => [fst p; snd p]) (pairs l) = l.
Proof.
  apply even_list_ind; [reflexivity|]. intros k v r _ IH.
  cbn [pairs flat_map fst snd app]. rewrite IH. reflexivity.
Qed.

Lemma consume_pb_of_ev : forall e, P_consume e.
Proof.
  induction e as [s|n|l IH|l IH] using ev_ind'; intros He.
  - apply scalar_pb_consume.
  - reflexivity.
  - cbn [even_hashes] in He. cbn [pb_of_ev consume_pb pb_image].
    rewrite (mapM_map_inv pb_of_ev consume_pb pb_image).
    + reflexivity.
    + rewrite Forall_forall in *. rewrite forallb_forall in He. intros x Hx. apply IH; auto.
  - cbn [even_hashes] in He. apply andb_true_iff in He as [Hlen He].
    cbn [pb_of_ev consume_pb pb_image].
    rewrite (consume_pairs l Hlen IH He). cbn [bind].
    rewrite flat_pairs_even by (rewrite map_length; exact Hlen). reflexivity.
Qed.

(* events -> protoConsumer -> message -> ConsumePBData -> the same events *)
Theorem pb_stream_roundtrip e :
  even_hashes e = true -> exists d, pc_run e = Ok d /\ consume_pb d = Ok (pb_image e).
Proof.
  intros He. exists (pb_of_ev e). split; [apply pc_run_spec; exact He | apply consume_pb_of_ev; exact He].
Qed.

(* nothing but a foreign scalar is changed *)
Fixpoint no_other (e : ev) : bool :=
  match e with
  | EAdd SOther => false
  | EArr l | EHash l => forallb no_other l
  | _ => true
  end.

Lemma pb_image_no_other : forall e, no_other e = true -> pb_image e = e.
Proof.
  induction e as [s|n|l IH|l IH] using ev_ind'; cbn [no_other pb_image]; intros H.
  - destruct s; try reflexivity. discriminate H.
  - reflexivity.
  - f_equal. apply map_id_Forall. rewrite Forall_forall in *. rewrite forallb_forall in H. intros x Hx. apply IH; auto.
  - f_equal. apply map_id_Forall. rewrite Forall_forall in *. rewrite forallb_forall in H. intros x Hx. apply IH; auto.
Qed.

Theorem pb_stream_roundtrip_exact e :
  even_hashes e = true -> no_other e = true -> exists d, pc_run e = Ok d /\ consume_pb d = Ok e.
Proof.
  intros He Hn. destruct (pb_stream_roundtrip e He) as (d & H1 & H2). exists d. split; [exact H1|].
  rewrite H2, (pb_image_no_other e Hn). reflexivity.
Qed.

(* ---------------------------------------------------------------------------------------------- *)
(* 4. the collector rebuilds the value a reference-free tree of calls denotes *)

Lemma c_seq_cons f c x l : c_seq f c (x :: l) = let* c1 := f c x in c_seq f c1 l.
Proof. reflexivity. Qed.

Definition P_coll (e : ev) : Prop :=
  ref_free e = true -> even_hashes e = true ->
  forall vals top rest, exists vals',
    c_ev (mkC vals (top :: rest)) e = Ok (mkC vals' ((top ++ [value_of_ev e]) :: rest)).

Lemma c_seq_spec l :
  Forall P_coll l -> forallb ref_free l = true -> forallb even_hashes l = true ->
  forall vals top rest, exists vals',
    c_seq c_ev (mkC vals (top :: rest)) l = Ok (mkC vals' ((top ++ map value_of_ev l) :: rest)).
Proof.
  induction 1 as [|x l Hx _ IH]; intros Hr He vals top rest.
  - exists vals. cbn [map]. rewrite app_nil_r. reflexivity.
  - cbn [forallb] in Hr, He. apply andb_true_iff in Hr as [Hrx Hrl]. apply andb_true_iff in He as [Hex Hel].
    destruct (Hx Hrx Hex vals top rest) as (v1 & H1).
    destruct (IH Hrl Hel v1 (top ++ [value_of_ev x]) rest) as (v2 & H2).
    exists v2. rewrite c_seq_cons, H1. cbn [bind]. rewrite H2. cbn [map]. rewrite <- app_assoc. reflexivity.
Qed.

Lemma c_ev_spec : forall e, P_coll e.
Proof.
  induction e as [s|n|l IH|l IH] using ev_ind'; intros Hr He vals top rest.
  - destruct s; eexists; cbn [c_ev cstack cvalues c_push bind value_of_ev value_of_scalar]; reflexivity.
  - discriminate Hr.
  - cbn [ref_free even_hashes] in Hr, He.
    destruct (c_seq_spec l IH Hr He (vals ++ [None]) [] (top :: rest)) as (v1 & H1).
    eexists. cbn [c_ev cstack cvalues]. rewrite H1. cbn [bind cstack cvalues c_push app value_of_ev]. reflexivity.
  - cbn [ref_free even_hashes] in Hr, He. apply andb_true_iff in He as [Hlen He].
    destruct (c_seq_spec l IH Hr He (vals ++ [None]) [] (top :: rest)) as (v1 & H1).
    eexists. cbn [c_ev cstack cvalues]. rewrite H1. cbn [bind cstack cvalues app].
    rewrite pair_up_even by (rewrite map_length; exact Hlen).
    cbn [bind c_push value_of_ev]. reflexivity.
Qed.

Theorem collect_spec e : ref_free e = true -> even_hashes e = true -> collect e = Ok (value_of_ev e).
Proof.
  intros Hr He. unfold collect. destruct (c_ev_spec e Hr He [] [] []) as (v1 & H1).
  rewrite H1. reflexivity.
Qed.

(* the events of a value: reference-free, even, and denoting that value *)
Lemma forallb_flat_map {A B} (p : B -> bool) (g : A -> list B) (l : list A) :
  forallb p (flat_map g l) = forallb (fun x => forallb p (g x)) l.
Proof. induction l as [|x l IH]; [reflexivity|]. cbn [flat_map forallb]. rewrite forallb_app, IH. reflexivity. Qed.

Lemma flat_pairs_length {A B} (f g : A -> B) (es : list (A * A)) :
  Nat.even (length (flat_map (fun kv => [f (fst kv); g (snd kv)]) es)) = true.
Proof. induction es as [|kv es IH]; [reflexivity|]. cbn [flat_map app length]. exact IH. Qed.

Lemma events_of_ref_free : forall v, ref_free (events_of v) = true.
Proof.
  induction v as [ |b|z|f|s|l IH|es IH|b| ] using value_ind'; try reflexivity; cbn [events_of ref_free].
  - rewrite forallb_forall. intros y Hy. apply in_map_iff in Hy as (x & <- & Hx). rewrite Forall_forall in IH. auto.
  - rewrite forallb_flat_map, forallb_forall. intros kv Hkv. rewrite Forall_forall in IH.
    destruct (IH _ Hkv) as [Hk Hx]. cbn [forallb]. rewrite Hk, Hx. reflexivity.
Qed.

Lemma events_of_even : forall v, even_hashes (events_of v) = true.
Proof.
  induction v as [ |b|z|f|s|l IH|es IH|b| ] using value_ind'; try reflexivity; cbn [events_of even_hashes].
  - rewrite forallb_forall. intros y Hy. apply in_map_iff in Hy as (x & <- & Hx). rewrite Forall_forall in IH. auto.
  - rewrite flat_pairs_length. cbn [andb].
    rewrite forallb_flat_map, forallb_forall. intros kv Hkv. rewrite Forall_forall in IH.
    destruct (IH _ Hkv) as [Hk Hx]. cbn [forallb]. rewrite Hk, Hx. reflexivity.
Qed.

Lemma pairs_map_flat (es : list (value * value)) :
  Forall (fun kv => value_of_ev (events_of (fst kv)) = fst kv /\ value_of_ev (events_of (snd kv)) = snd kv) es ->
  pairs (map value_of_ev (flat_map (fun kv => [events_of (fst kv); events_of (snd kv)]) es)) = es.
Proof.
  induction 1 as [|[k x] es [Hk Hx] _ IH]; [reflexivity|].
  cbn [flat_map app map pairs fst snd] in *. rewrite Hk, Hx, IH. reflexivity.
Qed.

Lemma value_of_events : forall v, value_of_ev (events_of v) = v.
Proof.
  induction v as [ |b|z|f|s|l IH|es IH|b| ] using value_ind'; try reflexivity; cbn [events_of value_of_ev].
  - f_equal. rewrite map_map. apply map_id_Forall. exact IH.
  - f_equal. apply pairs_map_flat. exact IH.
Qed.

Theorem collect_events_of v : collect (events_of v) = Ok v.
Proof. rewrite collect_spec by (apply events_of_ref_free || apply events_of_even). rewrite value_of_events. reflexivity. Qed.

(* Data value -> ToPBData -> ConsumePBData -> BasicCollector -> the same value *)
Theorem pb_data_roundtrip v :
  is_data v = true -> exists e, consume_pb (to_pb v) = Ok e /\ collect e = Ok v.
Proof.
  intros Hd. exists (events_of v). split.
  - rewrite consume_to_pb, (pb_image_data v Hd). reflexivity.
  - apply collect_events_of.
Qed.

(* Data value -> its events -> protoConsumer -> FromPBData -> the same value *)
Theorem pb_of_events v : pb_of_ev (events_of v) = to_pb v.
Proof.
  induction v as [ |b|z|f|s|l IH|es IH|b| ] using value_ind'; try reflexivity; cbn [events_of pb_of_ev to_pb].
  - f_equal. rewrite map_map. apply map_ext_in. rewrite Forall_forall in IH. exact IH.
  - f_equal. induction IH as [|[k x] es [Hk Hx] _ IHes]; [reflexivity|].
    cbn [flat_map app map pairs fst snd] in *. rewrite Hk, Hx, IHes. reflexivity.
Qed.

Theorem pb_consumer_roundtrip v :
  is_data v = true -> exists d, pc_run (events_of v) = Ok d /\ from_pb d = Ok v.
Proof.
  intros Hd. exists (to_pb v). split.
  - rewrite pc_run_spec by apply events_of_even. rewrite pb_of_events. reflexivity.
  - apply pb_roundtrip. exact Hd.
Qed.

(* ---------------------------------------------------------------------------------------------- *)
(* 5. end to end over JSON: the calls a value denotes -> NewJsonStreamer -> JsonToData -> BasicCollector *)

Theorem json_data_roundtrip v :
  json_wf (events_of v) = true -> data_exact (events_of v) = true ->
  exists toks, stream_top (events_of v) = Ok toks /\ json_valid toks = true /\
               exists e', read toks = Ok [e'] /\ collect e' = Ok v.
Proof.
  intros Hwf Hex. destruct (json_events_roundtrip_exact _ Hwf Hex) as (toks & Hs & Hv & Hr).
  exists toks. split; [exact Hs|]. split; [exact Hv|].
  exists (events_of v). split; [exact Hr | apply collect_events_of].
Qed.

(* with back-references: the reader hands the collector the very calls the writer received, so whatever the
   collector builds from them (references resolved) is what it builds on the far side *)
Theorem json_collect_roundtrip e v :
  json_wf e = true -> data_exact e = true -> collect e = Ok v ->
  exists toks, stream_top e = Ok toks /\ exists e', read toks = Ok [e'] /\ collect e' = Ok v.
Proof.
  intros Hwf Hex Hc. destruct (json_events_roundtrip_exact _ Hwf Hex) as (toks & Hs & _ & Hr).
  exists toks. split; [exact Hs|]. exists e. split; [exact Hr | exact Hc].
Qed.

(* ---------------------------------------------------------------------------------------------- *)
(* 6. the collector commutes with the JSON image: for ANY well-formed event tree (references included, strings
      not necessarily UTF-8) the value rebuilt on the far side is the image of the value built on the near side *)

Definition cimg (c : cstate) : cstate :=
  mkC (map (option_map vimage) (cvalues c)) (map (map vimage) (cstack c)).

Lemma c_push_img v st :
  c_push (vimage v) (map (map vimage) st) = res_map (map (map vimage)) (c_push v st).
Proof. destruct st as [|top rest]; [reflexivity|]. cbn [map c_push res_map]. rewrite map_app. reflexivity. Qed.

Lemma set_nth_map {A B} (f : A -> B) : forall n x l, set_nth n (f x) (map f l) = map f (set_nth n x l).
Proof.
  induction n as [|n IH]; intros x [|y l]; cbn [set_nth map]; try reflexivity. rewrite IH. reflexivity.
Qed.

Lemma pair_up_img : forall n (els : list value), (length els <= n)%nat ->
  pair_up (map vimage els) = res_map (map (fun kv => (vimage (fst kv), vimage (snd kv)))) (pair_up els).
Proof.
  induction n as [|n IH]; intros els Hn.
  - destruct els; [reflexivity|cbn [length] in Hn; lia].
  - destruct els as [|k [|v r]]; [reflexivity|reflexivity|].
    cbn [map pair_up]. rewrite IH by (cbn [length] in Hn; lia).
    destruct (pair_up r); reflexivity.
Qed.

Definition P_comm (e : ev) : Prop := forall c, c_ev (cimg c) (json_image e) = res_map cimg (c_ev c e).

Lemma c_seq_comm l :
  Forall P_comm l -> forall c, c_seq c_ev (cimg c) (map json_image l) = res_map cimg (c_seq c_ev c l).
Proof.
  induction 1 as [|x l Hx _ IH]; intros c; [reflexivity|].
  cbn [map]. rewrite !c_seq_cons, Hx. destruct (c_ev c x) as [c1| | |]; cbn [bind res_map]; try reflexivity.
  apply IH.
Qed.

Lemma scalar_value_img s :
  match scalar_image s with
  | SUndef => VUndef | SBool b => VBool b | SInt z => VInt z | SFloat f => VFloat f
  | SStr x => VStr x | SBin b => VBin b | SOther => VOther
  end = vimage match s with
               | SUndef => VUndef | SBool b => VBool b | SInt z => VInt z | SFloat f => VFloat f
               | SStr x => VStr x | SBin b => VBin b | SOther => VOther
               end.
Proof. destruct s; reflexivity. Qed.

Lemma c_ev_comm : forall e, P_comm e.
Proof.
  induction e as [s|n|l IH|l IH] using ev_ind'; intros c.
  - cbn [json_image c_ev]. rewrite scalar_value_img.
    cbn [cimg cstack cvalues]. rewrite c_push_img.
    destruct (c_push _ (cstack c)) as [st| | |]; cbn [bind res_map]; try reflexivity.
    unfold cimg. cbn [cvalues cstack]. rewrite map_app. reflexivity.
  - cbn [json_image c_ev cimg cstack cvalues]. rewrite map_length.
    destruct ((n <? 0) || (Z.of_nat (length (cvalues c)) <=? n)); [reflexivity|].
    change (@None value) with (option_map vimage None) at 1. rewrite map_nth.
    destruct (nth (Z.to_nat n) (cvalues c) None) as [v|]; cbn [option_map]; [|reflexivity].
    rewrite c_push_img. destruct (c_push v (cstack c)); reflexivity.
  - cbn [json_image c_ev]. cbn [cimg cstack cvalues]. rewrite map_length.
    change (mkC (map (option_map vimage) (cvalues c) ++ [None]) ([] :: map (map vimage) (cstack c)))
      with (mkC (map (option_map vimage) (cvalues c) ++ map (option_map vimage) [None]) (map (map vimage) ([] :: cstack c))).
    rewrite <- map_app.
    change (mkC (map (option_map vimage) (cvalues c ++ [None])) (map (map vimage) ([] :: cstack c)))
      with (cimg (mkC (cvalues c ++ [None]) ([] :: cstack c))).
    rewrite (c_seq_comm l IH).
    destruct (c_seq c_ev _ l) as [c1| | |]; cbn [bind res_map]; try reflexivity.
    cbn [cimg cstack cvalues]. destruct (cstack c1) as [|els rest]; cbn [map]; [reflexivity|].
    change (VArr (map vimage els)) with (vimage (VArr els)).
    rewrite c_push_img. destruct (c_push (VArr els) rest); cbn [bind res_map]; [|reflexivity..].
    unfold cimg. cbn [cvalues cstack].
    change (Some (vimage (VArr els))) with (option_map vimage (Some (VArr els))).
    rewrite set_nth_map. reflexivity.
  - cbn [json_image c_ev]. cbn [cimg cstack cvalues]. rewrite map_length.
    change (mkC (map (option_map vimage) (cvalues c) ++ [None]) ([] :: map (map vimage) (cstack c)))
      with (mkC (map (option_map vimage) (cvalues c) ++ map (option_map vimage) [None]) (map (map vimage) ([] :: cstack c))).
    rewrite <- map_app.
    change (mkC (map (option_map vimage) (cvalues c ++ [None])) (map (map vimage) ([] :: cstack c)))
      with (cimg (mkC (cvalues c ++ [None]) ([] :: cstack c))).
    rewrite (c_seq_comm l IH).
    destruct (c_seq c_ev _ l) as [c1| | |]; cbn [bind res_map]; try reflexivity.
    cbn [cimg cstack cvalues]. destruct (cstack c1) as [|els rest]; cbn [map]; [reflexivity|].
    rewrite (pair_up_img (length els) els (le_n _)).
    destruct (pair_up els) as [ps| | |]; cbn [bind res_map]; try reflexivity.
    change (VHash (map (fun kv => (vimage (fst kv), vimage (snd kv))) ps)) with (vimage (VHash ps)).
    rewrite c_push_img. destruct (c_push (VHash ps) rest); cbn [bind res_map]; [|reflexivity..].
    unfold cimg. cbn [cvalues cstack].
    change (Some (vimage (VHash ps))) with (option_map vimage (Some (VHash ps))).
    rewrite set_nth_map. reflexivity.
Qed.

Theorem collect_json_image e : collect (json_image e) = res_map vimage (collect e).
Proof.
  unfold collect. change (mkC [] [[]]) with (cimg (mkC [] [[]])) at 1.
  rewrite c_ev_comm. destruct (c_ev (mkC [] [[]]) e) as [c| | |]; cbn [bind res_map]; try reflexivity.
  cbn [cimg cstack]. destruct (cstack c) as [|[|v t] [|s r]]; reflexivity.
Qed.

(* any well-formed tree (guard: no first key __pref): written, read back and collected = the image of what the
   near side collects, whatever it is (a value, or the same fault on a dangling reference) *)
Theorem json_collect_image e :
  json_wf e = true ->
  exists toks, stream_top e = Ok toks /\ exists e', read toks = Ok [e'] /\ collect e' = res_map vimage (collect e).
Proof.
  intros Hwf. destruct (json_events_roundtrip e Hwf) as (toks & Hs & Hr).
  exists toks. split; [exact Hs|]. exists (json_image e). split; [exact Hr | apply collect_json_image].
Qed.
