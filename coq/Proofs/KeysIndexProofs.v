(* KeysIndexProofs.v — C07: the key index of a Hash is hidden state that no answer depends on.
   - the index that uniqueEntries (WrapHashFromArray, Hash.new) pre-builds IS the index that valueIndex
     would build lazily from the resulting entries (syntactically, in the model's representation of the map);
   - the hash it returns has one entry per key, the last pair of a key wins;
   - Get / IncludesKey / Equals through the index (pre-built or lazy) never fault and answer what the
     stateless model of Model/Keys.v (hash_get, hash_includes_key, veq) answers on the entries. *)
From Coq Require Import ZArith NArith Bool Lia List.
From PcoreV Require Import Model.Base Model.Keys Model.KeysIndex
  Proofs.KeysOrder Proofs.KeysCode Proofs.KeysTypes Proofs.KeysProofs.
Import ListNotations.
Local Open Scope nat_scope.

Definition ekey1 (e : entry) : list N := vkey (fst e).

(* ------------------------------------------------------------------------------------------ *)
(* the map *)

Lemma im_get_put_same m k i : im_get (im_put m k i) k = Some i.
Proof.
  induction m as [|[k' j] m IH]; cbn [im_put im_get].
  - rewrite str_eqb_refl. reflexivity.
  - destruct (str_eqb k' k) eqn:E; cbn [im_get]; rewrite E; [reflexivity|exact IH].
Qed.

Lemma im_get_put_other m k i k0 : k <> k0 -> im_get (im_put m k i) k0 = im_get m k0.
Proof.
  intros Hne. induction m as [|[k' j] m IH]; cbn [im_put im_get].
  - destruct (str_eqb_spec k k0) as [E|E]; [contradiction|reflexivity].
  - destruct (str_eqb_spec k' k) as [E|E]; cbn [im_get].
    + subst k'. destruct (str_eqb_spec k k0) as [E'|E']; [contradiction|reflexivity].
    + destruct (str_eqb k' k0); [reflexivity|exact IH].
Qed.

Lemma im_put_absent m k i : im_get m k = None -> im_put m k i = m ++ [(k, i)].
Proof.
  induction m as [|[k' j] m IH]; cbn [im_put im_get app]; [reflexivity|].
  destruct (str_eqb k' k); [discriminate|]. intros H. rewrite (IH H). reflexivity.
Qed.

Lemma im_get_app m m' k : im_get (m ++ m') k = match im_get m k with Some i => Some i | None => im_get m' k end.
Proof.
  induction m as [|[k' j] m IH]; cbn [im_get app]; [reflexivity|].
  destruct (str_eqb k' k); [reflexivity|exact IH].
Qed.

(* ------------------------------------------------------------------------------------------ *)
(* the index of entries with pairwise different keys: key of entry j -> s + j *)

Fixpoint pix (out : list entry) (s : nat) : imap :=
  match out with
  | [] => []
  | e :: t => (ekey1 e, s) :: pix t (S s)
  end.

Lemma pix_get_some out : forall s k i, im_get (pix out s) k = Some i ->
  exists j e, i = s + j /\ nth_error out j = Some e /\ ekey1 e = k.
Proof.
  induction out as [|e0 out IH]; intros s k i; cbn [pix im_get]; [discriminate|].
  destruct (str_eqb_spec (ekey1 e0) k) as [E|E].
  - intros H. injection H as <-. exists 0, e0. repeat split; [lia|assumption].
  - intros H. destruct (IH _ _ _ H) as (j & e & -> & Hn & Hk). exists (S j), e. repeat split; [lia|assumption|assumption].
Qed.

Lemma pix_get_none out : forall s k, im_get (pix out s) k = None -> ~ In k (keys_of out).
Proof.
  induction out as [|e0 out IH]; intros s k; cbn [pix im_get keys_of map]; [tauto|].
  destruct (str_eqb_spec (ekey1 e0) k) as [E|E]; [discriminate|].
  intros H [Hin|Hin]; [exact (E Hin)|exact (IH _ _ H Hin)].
Qed.

Lemma pix_app out e : forall s, pix (out ++ [e]) s = pix out s ++ [(ekey1 e, s + length out)].
Proof.
  induction out as [|e0 out IH]; intros s; cbn [pix app length].
  - rewrite Nat.add_0_r. reflexivity.
  - rewrite IH. replace (S s + length out) with (s + S (length out)) by lia. reflexivity.
Qed.

Lemma pix_set_nth out : forall s j e e0, nth_error out j = Some e0 -> ekey1 e0 = ekey1 e ->
  pix (set_nth j e out) s = pix out s.
Proof.
  induction out as [|x out IH]; intros s j e e0; destruct j as [|j]; cbn [nth_error set_nth pix]; try discriminate.
  - intros H Hk. injection H as ->. rewrite Hk. reflexivity.
  - intros H Hk. rewrite (IH _ _ _ _ H Hk). reflexivity.
Qed.

Lemma keys_of_set_nth out : forall j e e0, nth_error out j = Some e0 -> ekey1 e0 = ekey1 e ->
  keys_of (set_nth j e out) = keys_of out.
Proof.
  induction out as [|x out IH]; intros j e e0; destruct j as [|j]; cbn [nth_error set_nth keys_of map]; try discriminate.
  - intros H Hk. injection H as ->. unfold ekey1 in Hk. rewrite Hk. reflexivity.
  - intros H Hk. f_equal. exact (IH _ _ _ H Hk).
Qed.

Lemma keys_of_app a b : keys_of (a ++ b) = keys_of a ++ keys_of b.
Proof. unfold keys_of. apply map_app. Qed.

Lemma NoDup_app_single {A} (l : list A) x : NoDup l -> ~ In x l -> NoDup (l ++ [x]).
Proof.
  induction l as [|y l IH]; cbn [app]; intros Hn Hx.
  - constructor; [tauto|constructor].
  - inversion Hn as [|? ? Hy Hl]; subst. constructor.
    + rewrite in_app_iff. intros [H|[H|[]]]; [exact (Hy H)|]. apply Hx. left. symmetry. exact H.
    + apply IH; [assumption|]. intros H. apply Hx. right. exact H.
Qed.

Lemma set_nth_In {A} (l : list A) : forall j x y, In y (set_nth j x l) -> y = x \/ In y l.
Proof.
  induction l as [|z l IH]; intros j x y; destruct j as [|j]; cbn [set_nth In]; try tauto.
  - intros [H|H]; [left; symmetry; exact H|right; right; exact H].
  - intros [H|H]; [right; left; exact H|]. destruct (IH _ _ _ H); [left|right; right]; assumption.
Qed.

(* valueIndex on entries with pairwise different keys builds exactly pix *)
Lemma build_index_from_pix es : forall s m, NoDup (keys_of es) ->
  (forall k, In k (keys_of es) -> im_get m k = None) ->
  build_index_from es s m = m ++ pix es s.
Proof.
  induction es as [|e es IH]; intros s m Hn Hm; cbn [build_index_from pix].
  - rewrite app_nil_r. reflexivity.
  - cbn [keys_of map] in Hn, Hm. inversion Hn as [|? ? Hnot Hn']; subst.
    rewrite (im_put_absent m _ s (Hm _ (or_introl eq_refl))).
    rewrite IH; [rewrite <- app_assoc; reflexivity|exact Hn'|].
    intros k Hk. rewrite im_get_app, (Hm k (or_intror Hk)). cbn [im_get].
    destruct (str_eqb_spec (vkey (fst e)) k) as [E|E]; [|reflexivity].
    exfalso. apply Hnot. rewrite E. exact Hk.
Qed.

Lemma build_index_nodup es : NoDup (keys_of es) -> build_index es = pix es 0.
Proof. intros Hn. unfold build_index. rewrite build_index_from_pix; [reflexivity|exact Hn|reflexivity]. Qed.

(* ------------------------------------------------------------------------------------------ *)
(* uniqueEntries *)

Lemma ue_loop_inv es : forall out, NoDup (keys_of out) ->
  snd (ue_loop es out (pix out 0)) = pix (fst (ue_loop es out (pix out 0))) 0
  /\ NoDup (keys_of (fst (ue_loop es out (pix out 0)))).
Proof.
  induction es as [|e es IH]; intros out Hn; cbn [ue_loop fst snd]; [split; [reflexivity|exact Hn]|].
  destruct (im_get (pix out 0) (vkey (fst e))) as [idx|] eqn:G.
  - destruct (pix_get_some _ _ _ _ G) as (j & e0 & -> & Hj & Hk). cbn [Nat.add].
    rewrite <- (pix_set_nth out 0 j e e0 Hj Hk). apply IH.
    rewrite (keys_of_set_nth out j e e0 Hj Hk). exact Hn.
  - pose proof (pix_get_none _ _ _ G) as Hnot.
    rewrite (im_put_absent _ _ (length out) G).
    change (vkey (fst e)) with (ekey1 e). pose proof (pix_app out e 0) as P. cbn [Nat.add] in P. rewrite <- P. apply IH.
    rewrite keys_of_app. apply NoDup_app_single; [exact Hn|]. cbn [keys_of map In]. exact Hnot.
Qed.

(* the position found in the index is inside the compacted prefix: entries[idx] = e never writes
   past entries[:n] *)
Lemma ue_loop_index_in_range out k idx : im_get (pix out 0) k = Some idx -> idx < length out.
Proof.
  intros G. destruct (pix_get_some _ _ _ _ G) as (j & e0 & -> & Hj & _). cbn [Nat.add].
  apply nth_error_Some. congruence.
Qed.

Lemma ue_loop_In es : forall out ix x, In x (fst (ue_loop es out ix)) -> In x es \/ In x out.
Proof.
  induction es as [|e es IH]; intros out ix x; cbn [ue_loop fst]; [tauto|].
  destruct (im_get ix (vkey (fst e))) as [idx|]; intros H; apply IH in H; cbn [In].
  - destruct H as [H|H]; [tauto|]. apply set_nth_In in H. destruct H as [->|H]; tauto.
  - destruct H as [H|H]; [tauto|]. apply in_app_iff in H. cbn [In] in H. tauto.
Qed.

Lemma find_last_app_single out e key :
  find_last key (out ++ [e]) = if str_eqb (vkey (fst e)) key then Some e else find_last key out.
Proof.
  induction out as [|x out IH]; cbn [app find_last]; [reflexivity|].
  rewrite IH. destruct (str_eqb (vkey (fst e)) key); reflexivity.
Qed.

Lemma find_last_set_nth out : forall j e e0 key, NoDup (keys_of out) ->
  nth_error out j = Some e0 -> ekey1 e0 = ekey1 e ->
  find_last key (set_nth j e out) = if str_eqb (vkey (fst e)) key then Some e else find_last key out.
Proof.
  induction out as [|x out IH]; intros j e e0 key Hn; destruct j as [|j]; cbn [nth_error set_nth]; try discriminate.
  - intros H Hk. injection H as ->. cbn [keys_of map] in Hn. inversion Hn as [|? ? Hnot _]; subst.
    cbn [find_last]. unfold ekey1 in Hk.
    destruct (find_last key out) as [r|] eqn:F.
    + apply find_last_some in F. destruct F as [Hin Hr].
      destruct (str_eqb_spec (vkey (fst e)) key) as [E|E]; [|reflexivity].
      exfalso. apply Hnot. rewrite Hk, E, <- Hr. apply (in_map (fun e => vkey (fst e))). exact Hin.
    + rewrite Hk. destruct (str_eqb (vkey (fst e)) key); reflexivity.
  - intros H Hk. cbn [keys_of map] in Hn. inversion Hn as [|? ? Hnot Hn']; subst.
    cbn [find_last]. rewrite (IH j e e0 key Hn' H Hk).
    destruct (str_eqb_spec (vkey (fst e)) key) as [E|E]; [reflexivity|].
    destruct (find_last key out); reflexivity.
Qed.

(* the last pair of a key wins *)
Lemma ue_loop_find_last es : forall out key, NoDup (keys_of out) ->
  find_last key (fst (ue_loop es out (pix out 0))) =
  match find_last key es with Some r => Some r | None => find_last key out end.
Proof.
  induction es as [|e es IH]; intros out key Hn; cbn [ue_loop fst find_last]; [reflexivity|].
  destruct (im_get (pix out 0) (vkey (fst e))) as [idx|] eqn:G.
  - destruct (pix_get_some _ _ _ _ G) as (j & e0 & -> & Hj & Hk). cbn [Nat.add].
    rewrite <- (pix_set_nth out 0 j e e0 Hj Hk).
    rewrite IH by (rewrite (keys_of_set_nth out j e e0 Hj Hk); exact Hn).
    rewrite (find_last_set_nth out j e e0 key Hn Hj Hk).
    destruct (find_last key es); [reflexivity|]. destruct (str_eqb (vkey (fst e)) key); reflexivity.
  - pose proof (pix_get_none _ _ _ G) as Hnot.
    rewrite (im_put_absent _ _ (length out) G).
    change (vkey (fst e)) with (ekey1 e). pose proof (pix_app out e 0) as P. cbn [Nat.add] in P. rewrite <- P.
    rewrite IH by (rewrite keys_of_app; apply NoDup_app_single; [exact Hn|cbn [keys_of map In]; exact Hnot]).
    rewrite find_last_app_single. unfold ekey1.
    destruct (find_last key es); [reflexivity|]. destruct (str_eqb (vkey (fst e)) key); reflexivity.
Qed.

Theorem unique_entries_keys_distinct es : NoDup (keys_of (h_entries (unique_entries es))).
Proof. unfold unique_entries. cbn [h_entries]. exact (proj2 (ue_loop_inv es [] (NoDup_nil _))). Qed.

(* the pre-built index is the index that valueIndex builds from the entries *)
Theorem unique_entries_index es :
  h_index (unique_entries es) = Some (build_index (h_entries (unique_entries es))).
Proof.
  unfold unique_entries. cbn [h_entries h_index].
  destruct (ue_loop_inv es [] (NoDup_nil _)) as [H1 H2]. cbn [pix] in H1, H2.
  rewrite (build_index_nodup _ H2). f_equal. exact H1.
Qed.

Theorem unique_entries_ok es : hobj_ok (unique_entries es).
Proof. right. apply unique_entries_index. Qed.

Theorem wrap_hash_ok es : hobj_ok (wrap_hash es).
Proof. left. reflexivity. Qed.

Theorem unique_entries_sub es x : In x (h_entries (unique_entries es)) -> In x es.
Proof.
  unfold unique_entries. cbn [h_entries]. intros H. apply ue_loop_In in H. cbn [In] in H. tauto.
Qed.

Theorem unique_entries_last_wins es key : find_last key (h_entries (unique_entries es)) = find_last key es.
Proof.
  unfold unique_entries. cbn [h_entries].
  pose proof (ue_loop_find_last es [] key (NoDup_nil _)) as H. cbn [pix find_last] in H. rewrite H.
  destruct (find_last key es); reflexivity.
Qed.

(* the hash made from an array satisfies the representation invariant of Model/Keys.v *)
Theorem unique_entries_wf es :
  (forall k v, In (k, v) es -> wf_value k = true /\ wf_value v = true /\ keyable k = true) ->
  wf_value (VHash (h_entries (unique_entries es))) = true.
Proof.
  intros H. cbn [wf_value]. apply andb_true_iff. split.
  - apply forallb_forall. intros [k v] Hin. apply unique_entries_sub in Hin.
    destruct (H k v Hin) as (W1 & W2 & W3). rewrite W1, W2, W3. reflexivity.
  - apply nodupb_NoDup. exact (unique_entries_keys_distinct es).
Qed.

(* ------------------------------------------------------------------------------------------ *)
(* lookups through the index = lookups among the entries *)

(* the position of the last entry with the key *)
Fixpoint flp (key : list N) (es : list entry) : option nat :=
  match es with
  | [] => None
  | e :: es' => match flp key es' with
                | Some j => Some (S j)
                | None => if str_eqb (vkey (fst e)) key then Some 0 else None
                end
  end.

Lemma flp_find_last key es :
  match flp key es with
  | Some j => exists e, nth_error es j = Some e /\ find_last key es = Some e
  | None => find_last key es = None
  end.
Proof.
  induction es as [|e es IH]; cbn [flp find_last]; [reflexivity|].
  destruct (flp key es) as [j|].
  - destruct IH as (r & Hn & Hf). exists r. rewrite Hf. split; [exact Hn|reflexivity].
  - rewrite IH. destruct (str_eqb (vkey (fst e)) key); [|reflexivity].
    exists e. split; reflexivity.
Qed.

Lemma build_index_from_get es : forall s m key,
  im_get (build_index_from es s m) key =
  match flp key es with Some j => Some (s + j) | None => im_get m key end.
Proof.
  induction es as [|e es IH]; intros s m key; cbn [build_index_from flp]; [reflexivity|].
  rewrite IH. destruct (flp key es) as [j|]; [f_equal; lia|].
  destruct (str_eqb_spec (vkey (fst e)) key) as [E|E].
  - rewrite E, im_get_put_same. f_equal. lia.
  - apply im_get_put_other. exact E.
Qed.

Lemma build_index_get es key : im_get (build_index es) key = flp key es.
Proof.
  unfold build_index. rewrite build_index_from_get. destruct (flp key es); reflexivity.
Qed.

Lemma value_index_ok h : hobj_ok h -> value_index h = build_index (h_entries h).
Proof. unfold value_index. intros [H|H]; rewrite H; reflexivity. Qed.

Definition look_of (o : option value) : look := match o with Some v => LFound v | None => LMissing end.

(* Get does not depend on whether the index is nil, built lazily or pre-built, and never faults *)
Theorem hobj_get_stateless h q : hobj_ok h -> hobj_get h q = look_of (hash_get (h_entries h) q).
Proof.
  intros Hok. unfold hobj_get, hash_get. rewrite (value_index_ok h Hok), build_index_get.
  pose proof (flp_find_last (vkey q) (h_entries h)) as F.
  destruct (flp (vkey q) (h_entries h)) as [j|].
  - destruct F as ([k v] & Hn & Hf). rewrite Hn, Hf. reflexivity.
  - rewrite F. reflexivity.
Qed.

Theorem hobj_includes_key_stateless h q : hobj_ok h -> hobj_includes_key h q = hash_includes_key (h_entries h) q.
Proof.
  intros Hok. unfold hobj_includes_key, hash_includes_key. rewrite (value_index_ok h Hok), build_index_get.
  pose proof (flp_find_last (vkey q) (h_entries h)) as F.
  destruct (flp (vkey q) (h_entries h)) as [j|].
  - destruct F as (e & _ & Hf). rewrite Hf. reflexivity.
  - rewrite F. reflexivity.
Qed.

(* ------------------------------------------------------------------------------------------ *)
(* Equals through the two indexes = veq on the entries *)

Definition sub1 (fs : list entry) (e : entry) : bool :=
  match find_last (vkey (fst e)) fs with
  | Some e' => entry_eqb e e'
  | None => false
  end.

Lemma hash_sub_nodup a fs : NoDup (keys_of a) -> hash_sub a fs = forallb (sub1 fs) a.
Proof.
  induction a as [|[k v] a IH]; cbn [keys_of map fst]; intros Hn; [reflexivity|].
  rewrite hash_sub_cons. inversion Hn as [|? ? Hnot Hn']; subst.
  assert (existsb (fun e => str_eqb (vkey (fst e)) (vkey k)) a = false) as ->.
  { destruct (existsb _ a) eqn:E; [|reflexivity]. exfalso. apply Hnot.
    apply existsb_exists in E. destruct E as (e & He & E). apply str_eqb_eq in E. rewrite <- E.
    apply (in_map (fun e => vkey (fst e))). assumption. }
  cbn [forallb]. rewrite (IH Hn'). f_equal. unfold sub1, entry_eqb. cbn [fst snd].
  destruct (find_last (vkey k) fs) as [[k' v']|]; reflexivity.
Qed.

Lemma all_bindings_pix es fs suf : forall s,
  (forall j e, nth_error suf j = Some e -> nth_error es (s + j) = Some e) ->
  all_bindings (fun b =>
      match im_get (build_index fs) (fst b) with
      | None => Some false
      | Some ov_idx =>
          match nth_error es (snd b), nth_error fs ov_idx with
          | Some e, Some e' => Some (entry_eqb e e')
          | _, _ => None
          end
      end) (pix suf s) = Some (forallb (sub1 fs) suf).
Proof.
  induction suf as [|e suf IH]; intros s Hs; cbn [pix all_bindings forallb]; [reflexivity|].
  rewrite (IH (S s)) by (intros j x Hj; replace (S s + j) with (s + S j) by lia; apply Hs; exact Hj).
  cbn [fst snd]. rewrite build_index_get. unfold ekey1.
  pose proof (Hs 0 e eq_refl) as H0. rewrite Nat.add_0_r in H0. rewrite H0.
  pose proof (flp_find_last (vkey (fst e)) fs) as F.
  assert (sub1 fs e = match find_last (vkey (fst e)) fs with Some e' => entry_eqb e e' | None => false end) as -> by reflexivity.
  destruct (flp (vkey (fst e)) fs) as [j|].
  - destruct F as (e' & Hn & Hf). rewrite Hn, Hf. reflexivity.
  - rewrite F. reflexivity.
Qed.

(* Equals does not depend on the state of the index of either operand, and never faults *)
Theorem hobj_equals_stateless h o : hobj_ok h -> hobj_ok o -> NoDup (keys_of (h_entries h)) ->
  hobj_equals h o = Some (veq (VHash (h_entries h)) (VHash (h_entries o))).
Proof.
  intros Hh Ho Hn. unfold hobj_equals. rewrite veq_hash, (value_index_ok h Hh), (value_index_ok o Ho).
  destruct (Nat.eqb (length (h_entries h)) (length (h_entries o))); [|reflexivity].
  rewrite (build_index_nodup _ Hn), (hash_sub_nodup _ _ Hn). cbn [andb].
  apply all_bindings_pix. intros j e Hj. exact Hj.
Qed.

(* ------------------------------------------------------------------------------------------ *)
(* corollaries for the hash made from an array *)

(* the hash made from an array of pairs finds the value of the last pair with the key *)
Theorem from_array_last_pair_wins es q : hobj_get (unique_entries es) q = look_of (hash_get es q).
Proof.
  rewrite (hobj_get_stateless _ q (unique_entries_ok es)). unfold hash_get.
  rewrite unique_entries_last_wins. reflexivity.
Qed.

(* ... which is: it finds a key iff it contains an equal key, and returns that entry's value *)
Theorem from_array_get_iff es q v :
  (forall k w, In (k, w) es -> wf_value k = true /\ wf_value w = true /\ keyable k = true) ->
  wf_value q = true -> (forall k w, In (k, w) es -> clean k = true) -> clean q = true ->
  (hobj_get (unique_entries es) q = LFound v <->
   exists k, In (k, v) (h_entries (unique_entries es)) /\ veq k q = true).
Proof.
  intros Hw Hq Hc Hcq. rewrite (hobj_get_stateless _ q (unique_entries_ok es)).
  rewrite <- (hash_get_iff (h_entries (unique_entries es)) q v (unique_entries_wf es Hw) Hq); [|
    intros k w Hin; apply unique_entries_sub in Hin; eauto | exact Hcq].
  destruct (hash_get (h_entries (unique_entries es)) q) as [x|]; cbn [look_of]; split; intros H; try discriminate.
  - injection H as ->. reflexivity.
  - injection H as ->. reflexivity.
Qed.

(* the hash made from an array equals, in both directions, the hash wrapped around the same entries
   (which has no index yet), and they have the same hash key *)
Theorem from_array_equals_direct es :
  (forall k w, In (k, w) es -> wf_value k = true /\ wf_value w = true /\ keyable k = true) ->
  (forall k w, In (k, w) es -> clean k = true /\ clean w = true) ->
  let h := unique_entries es in
  hobj_equals h (wrap_hash (h_entries h)) = Some true /\
  hobj_equals (wrap_hash (h_entries h)) h = Some true /\
  hobj_equals h h = Some true /\
  hobj_key h = hobj_key (wrap_hash (h_entries h)).
Proof.
  intros Hw Hc h.
  assert (veq (VHash (h_entries h)) (VHash (h_entries h)) = true) as R.
  { apply veq_refl; [exact (unique_entries_wf es Hw)|]. cbn [clean]. apply forallb_forall.
    intros [k w] Hin. apply unique_entries_sub in Hin. destruct (Hc k w Hin) as [-> ->]. reflexivity. }
  pose proof (unique_entries_keys_distinct es) as Hn. fold h in Hn.
  repeat split.
  - rewrite (hobj_equals_stateless h (wrap_hash (h_entries h)) (unique_entries_ok es) (wrap_hash_ok _) Hn). cbn [wrap_hash h_entries]. rewrite R. reflexivity.
  - rewrite (hobj_equals_stateless (wrap_hash (h_entries h)) h (wrap_hash_ok _) (unique_entries_ok es) Hn). cbn [wrap_hash h_entries]. rewrite R. reflexivity.
  - rewrite (hobj_equals_stateless h h (unique_entries_ok es) (unique_entries_ok es) Hn). rewrite R. reflexivity.
Qed.
