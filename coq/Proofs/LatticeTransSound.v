(* LatticeTransSound.v — C01 for ALL values, types used as values included.
   Proofs/LatticeSound.v proves soundness of assignability for values that contain no type (wf_val); the instances
   of Type[T] are types, and `inst (TType t) (VType u) = asg t u`, so the Type[T] case IS transitivity of
   assignability (Proofs/LatticeTrans.v).  The section below is the proof of LatticeSound.v with the value side
   condition `wf_val` replaced by `wf_valt` (hash keys pairwise different; a type used as a value is well-formed
   and Unit-free) and the Type[T] case closed by asg_trans; it lives in a
   module of its own so that no name of LatticeSound.v is shadowed. *)
From Coq Require Import ZArith NArith Bool List Lia.
From PcoreV Require Import Model.Base Model.Ty Model.Lattice Proofs.LatticeUnfold Proofs.LatticeBasics Proofs.StructCount
  Proofs.LatticeRule Proofs.LatticeTransBasics Proofs.LatticeTrans.
Import ListNotations.
Open Scope Z_scope.

(* values: hash keys are pairwise different strings where they are strings (C09's invariant); a type that occurs
   as a value satisfies the side conditions of asg_trans *)
Fixpoint wf_valt (v : value) : bool :=
  match v with
  | VArr vs => forallb wf_valt vs
  | VHash es => distinct_keys (map fst es) && forallb (fun e => wf_valt (fst e) && wf_valt (snd e)) es
  | VSensitive x => wf_valt x
  | VType u => wf_ty u && no_unit u
  | _ => true
  end.

(* no type that occurs as a value contains a Hash type (then the by-specification Struct<-Hash rule cannot fire
   when an instance of Type[T] is tested) *)
Fixpoint no_hash_val (v : value) : bool :=
  match v with
  | VArr vs => forallb no_hash_val vs
  | VHash es => forallb (fun e => no_hash_val (fst e) && no_hash_val (snd e)) es
  | VSensitive x => no_hash_val x
  | VType u => no_hash u
  | _ => true
  end.

Definition rule_free_val (t : ty) (v : value) : bool := no_struct t || no_hash_val v.

Module FullSound.
Section Sound.
  Variable rx : str -> str -> bool.
  Local Notation hs' := false.
  Notation asg := (asg rx false).
  Notation inst := (inst rx hs').
  Notation recv := (recv rx false asg).

  Definition sub (a b : ty) : Prop := forall x, wf_valt x = true -> inst b x = true -> inst a x = true.
  Definition good (t : ty) : Prop := wf_ty t = true /\ no_unit t = true.

  Lemma gstep_sound a :
    (forall b, good b -> recv a b = true -> sub a b) ->
    forall b, good b -> asg a b = true -> sub a b.
  Proof.
    intros Hrecv. induction b using ty_ind'; intros Hg Ha; rewrite asg_unfold in Ha; unfold gstep in Ha;
      (destruct (is_any a) eqn:Ea; [apply is_any_eq in Ea; subst; intros x _ _; reflexivity|]);
      cbv iota beta in Ha; try (apply Hrecv; assumption).
    - (* Unit *) destruct Hg as [_ Hn]; discriminate.
    - (* Variant *) intros x Hx Hi. cbn in Hi. apply existsb_exists in Hi. destruct Hi as (t & Ht & Hi).
      destruct Hg as [Hw Hn]. cbn in Hw, Hn. rewrite forallb_forall in Ha, Hw, Hn.
      rewrite Forall_forall in H. apply (H t Ht); [split; auto|auto|exact Hx|exact Hi].
    - (* Optional *) destruct (nullable a) eqn:En; [|discriminate]. intros x Hx Hi.
      destruct x; try (cbn in Hi; apply (IHb Hg Ha); assumption).
      rewrite <- (nullable_inst rx hs'). exact En.
    - (* NotUndef *) destruct (asg a b) eqn:Eab.
      + (* a accepts the wrapped type *)
        intros x Hx Hi. destruct x; try (cbn in Hi; apply (IHb Hg eq_refl); assumption). discriminate.
      + destruct (nullable b) eqn:En; [apply Hrecv; assumption|discriminate].
  Qed.

  Ltac atomic := intros b Hgb Hr; destruct b; cbn in Hr; try discriminate;
                 intros x Hx Hi; destruct x; cbn in Hi |- *; try discriminate; try reflexivity.

  Lemma recv_boolean v : forall b, good b -> recv (TBoolean v) b = true -> sub (TBoolean v) b.
  Proof.
    atomic. destruct v as [y|]; [|reflexivity]. destruct v0 as [z|]; cbn in Hr; [|discriminate].
    apply eqb_prop in Hr. subst. exact Hi.
  Qed.

  Lemma recv_integer lo hi : forall b, good b -> recv (TInteger lo hi) b = true -> sub (TInteger lo hi) b.
  Proof. atomic. eapply in_size_sub; eauto. Qed.

  Lemma recv_float lo hi : forall b, good b -> recv (TFloat lo hi) b = true -> sub (TFloat lo hi) b.
  Proof. atomic; [eapply float_in_sub|eapply float_unbounded_sub]; eauto. Qed.

  Lemma flat4_sound c1 c2 c3 c4 b x :
    good b -> flat c1 b || flat c2 b || flat c3 b || flat c4 b = true -> inst b x = true ->
    flat_inst c1 x = true \/ flat_inst c2 x = true \/ flat_inst c3 x = true \/ flat_inst c4 x = true.
  Proof.
    intros [_ Hn] H Hi. repeat rewrite orb_true_iff in H.
    destruct H as [[[H|H]|H]|H]; eauto 6 using (flat_sound rx hs').
  Qed.

  Lemma recv_scalar : forall b, good b -> recv TScalar b = true -> sub TScalar b.
  Proof.
    intros b Hgb Hr x Hx Hi.
    assert (Hc : b = TScalar \/ b = TScalarData \/
                 flat FString b || flat FNumeric b || flat FBoolean b || flat FRegexp b = true)
      by (destruct b; auto).
    destruct Hc as [->|[->|Hc]]; [destruct x; try discriminate; reflexivity..|].
    destruct (flat4_sound _ _ _ _ _ _ Hgb Hc Hi) as [H|[H|[H|H]]]; destruct x; try discriminate; reflexivity.
  Qed.

  Lemma recv_scalardata : forall b, good b -> recv TScalarData b = true -> sub TScalarData b.
  Proof.
    intros b Hgb Hr x Hx Hi.
    assert (Hc : b = TScalarData \/
                 flat FString b || flat FInteger b || flat FBoolean b || flat FFloat b = true)
      by (destruct b; auto).
    destruct Hc as [->|Hc]; [destruct x; try discriminate; reflexivity|].
    destruct (flat4_sound _ _ _ _ _ _ Hgb Hc Hi) as [H|[H|[H|H]]]; destruct x; try discriminate; reflexivity.
  Qed.

  Lemma lower_byte_class b :
    (N.ltb (lower_ascii_byte b) 128 || N.leb 192 (lower_ascii_byte b)) = (N.ltb b 128 || N.leb 192 b).
  Proof.
    unfold lower_ascii_byte. destruct (N.leb 65 b && N.leb b 90) eqn:E; [|reflexivity].
    apply andb_true_iff in E. destruct E as [E1 E2]. apply N.leb_le in E1, E2.
    assert (H1 : N.ltb (b + 32) 128 = true) by (apply N.ltb_lt; lia).
    assert (H2 : N.ltb b 128 = true) by (apply N.ltb_lt; lia). now rewrite H1, H2.
  Qed.

  Lemma rune_count_lower s : rune_count (lower_ascii s) = rune_count s.
  Proof.
    unfold rune_count, lower_ascii. f_equal. induction s as [|b s IH]; cbn; [reflexivity|].
    rewrite lower_byte_class. destruct (N.ltb b 128 || N.leb 192 b); cbn; now rewrite IH.
  Qed.

  Lemma lower_byte_idem b : lower_ascii_byte (lower_ascii_byte b) = lower_ascii_byte b.
  Proof.
    unfold lower_ascii_byte. destruct (N.leb 65 b && N.leb b 90) eqn:E; [|now rewrite E].
    apply andb_true_iff in E. destruct E as [E1 E2]. apply N.leb_le in E1, E2.
    assert (H : N.leb (b + 32) 90 = false) by (apply N.leb_gt; lia). now rewrite H, andb_false_r.
  Qed.

  Lemma lower_idem s : lower_ascii (lower_ascii s) = lower_ascii s.
  Proof. unfold lower_ascii. rewrite map_map. apply map_ext. apply lower_byte_idem. Qed.

  Lemma mem_str_in s l : mem_str s l = true <-> In s l.
  Proof.
    unfold mem_str. rewrite existsb_exists. split.
    - intros (y & Hy & He). apply str_eqb_eq in He. now subst.
    - intros H. exists s. split; [assumption|apply str_eqb_refl].
  Qed.

  Lemma enum_inst_nonempty ci vs s : vs <> [] -> enum_inst ci vs s = mem_str (if ci then lower_ascii s else s) vs.
  Proof. destruct vs; [congruence|reflexivity]. Qed.

  Lemma length_eqb_nil {A} (l : list A) : Nat.eqb (length l) 0 = true <-> l = [].
  Proof. destruct l; cbn; split; congruence. Qed.
  Lemma length_neqb_nil {A} (l : list A) : negb (Nat.eqb (length l) 0) = true <-> l <> [].
  Proof. destruct l; cbn; split; congruence. Qed.

  Lemma recv_stringsz lo hi : forall b, good b -> recv (TStringSz lo hi) b = true -> sub (TStringSz lo hi) b.
  Proof.
    atomic.
    - eapply in_size_sub; eauto.
    - apply str_eqb_eq in Hi. now subst.
    - apply andb_true_iff in Hr. destruct Hr as [Hne Hall]. apply length_neqb_nil in Hne.
      rewrite enum_inst_nonempty in Hi by assumption. apply mem_str_in in Hi.
      rewrite forallb_forall in Hall. specialize (Hall _ Hi).
      destruct ci; [now rewrite rune_count_lower in Hall|assumption].
  Qed.

  Lemma recv_stringval s : forall b, good b -> recv (TStringVal s) b = true -> sub (TStringVal s) b.
  Proof. atomic. apply str_eqb_eq in Hr, Hi. subst. apply str_eqb_refl. Qed.

  Lemma recv_enum ci vs : forall b, good b -> recv (TEnum ci vs) b = true -> sub (TEnum ci vs) b.
  Proof.
    intros b Hgb Hr. destruct vs as [|v0 vs].
    - destruct b; cbn in Hr; try discriminate; intros x Hx Hi; destruct x; cbn in Hi |- *; try discriminate; reflexivity.
    - set (l := v0 :: vs) in *. assert (Hl : l <> []) by (subst l; congruence).
      destruct b; try (cbn in Hr; discriminate); intros x Hx Hi; destruct x; try (cbn in Hi; discriminate).
      + (* StringVal *) cbn in Hi. apply str_eqb_eq in Hi. subst. exact Hr.
      + (* Enum *) cbn in Hr. cbn [Lattice.inst] in *.
        apply andb_true_iff in Hr. destruct Hr as [Hr Hall]. apply andb_true_iff in Hr. destruct Hr as [Hne Hci].
        apply length_neqb_nil in Hne. rewrite enum_inst_nonempty in Hi by assumption. apply mem_str_in in Hi.
        rewrite forallb_forall in Hall. specialize (Hall _ Hi).
        rewrite enum_inst_nonempty in Hall |- * by assumption.
        destruct ci0; cbn in Hci.
        * rewrite orb_false_r in Hci. subst ci. now rewrite lower_idem in Hall.
        * exact Hall.
  Qed.

  Lemma recv_pattern rxs : forall b, good b -> recv (TPattern rxs) b = true -> sub (TPattern rxs) b.
  Proof.
    intros b Hgb Hr. destruct rxs as [|r0 rxs].
    - destruct b; try (cbn in Hr; discriminate); intros x Hx Hi; destruct x; try (cbn in Hi; discriminate); reflexivity.
    - assert (Hl : Nat.eqb (length (r0 :: rxs)) 0 = false) by reflexivity.
      remember (r0 :: rxs) as l eqn:El.
      assert (Hrecv : recv (TPattern l) b =
                match b with
                | TPattern rxs' => negb (Nat.eqb (length rxs') 0) && forallb (fun p => mem_str p l) rxs'
                | TStringVal s => matches_any rx l s
                | TEnum ci vs => negb ci && negb (Nat.eqb (length vs) 0) && forallb (matches_any rx l) vs
                | _ => false
                end) by (subst l; reflexivity).
      rewrite Hrecv in Hr. clear Hrecv.
      destruct b; try discriminate; intros x Hx Hi; destruct x; try (cbn in Hi; discriminate);
        cbn [Lattice.inst] in *; rewrite Hl; cbn [orb].
      + (* StringVal *) apply str_eqb_eq in Hi. now subst.
      + (* Enum *) apply andb_true_iff in Hr. destruct Hr as [Hr Hall]. apply andb_true_iff in Hr. destruct Hr as [Hci Hne].
        apply length_neqb_nil in Hne. rewrite enum_inst_nonempty in Hi by assumption. apply mem_str_in in Hi.
        destruct ci; [discriminate|]. rewrite forallb_forall in Hall. exact (Hall _ Hi).
      + (* Pattern *) apply andb_true_iff in Hr. destruct Hr as [Hne Hall]. apply length_neqb_nil in Hne.
        apply orb_true_iff in Hi. destruct Hi as [Hi|Hi]; [apply length_eqb_nil in Hi; congruence|].
        unfold matches_any in *. apply existsb_exists in Hi. destruct Hi as (p & Hp & Hm).
        rewrite forallb_forall in Hall. specialize (Hall _ Hp). apply mem_str_in in Hall.
        apply existsb_exists. eauto.
  Qed.

  Lemma recv_regexp p : forall b, good b -> recv (TRegexp p) b = true -> sub (TRegexp p) b.
  Proof.
    atomic. apply orb_true_iff in Hr. destruct Hr as [Hr|Hr]; [now rewrite Hr|].
    apply str_eqb_eq in Hr. subst. exact Hi.
  Qed.

  (* ---- receivers with type parameters: IH = soundness for the parameters ---- *)
  Definition IH (t : ty) : Prop := good t -> forall b, good b -> asg t b = true -> sub t b.

  Lemma inst_any x : inst TAny x = true.  Proof. reflexivity. Qed.

  Lemma good_any : good TAny.  Proof. split; reflexivity. Qed.

  Definition walk := fix walk (ts : list ty) (vs : list value) {struct ts} : bool :=
    match ts, vs with
    | [], _ => true
    | _, [] => true
    | [t], v :: vs' => inst t v && forallb (inst t) vs'
    | t :: ts', v :: vs' => inst t v && walk ts' vs'
    end.

  Lemma walk_nil_r ts : walk ts [] = true.
  Proof. destruct ts as [|t [|t' ts]]; reflexivity. Qed.

  Lemma walk_in ts : ts <> [] -> forall vs, walk ts vs = true -> forall v, In v vs -> exists t, In t ts /\ inst t v = true.
  Proof.
    induction ts as [|t ts IHts]; [congruence|]. intros _ vs Hw v Hv.
    destruct vs as [|v0 vs]; [destruct Hv|]. destruct ts as [|t' ts].
    - cbn in Hw. apply andb_true_iff in Hw. destruct Hw as [H0 Hall]. rewrite forallb_forall in Hall.
      exists t. split; [left; reflexivity|]. destruct Hv as [<-|Hv]; auto.
    - change (inst t v0 && walk (t' :: ts) vs = true) in Hw. apply andb_true_iff in Hw. destruct Hw as [H0 Hw].
      destruct Hv as [<-|Hv]; [exists t; split; [left; reflexivity|assumption]|].
      destruct (IHts ltac:(congruence) vs Hw v Hv) as (u & Hu & Hi). exists u. split; [right; assumption|assumption].
  Qed.

  Lemma walk_all ts vs : (forall t v, In t ts -> In v vs -> inst t v = true) -> walk ts vs = true.
  Proof.
    revert vs; induction ts as [|t ts IHts]; intros vs H; [reflexivity|].
    destruct vs as [|v0 vs]; [apply walk_nil_r|]. destruct ts as [|t' ts].
    - cbn. rewrite (H t v0) by (cbn; auto). cbn. apply forallb_forall. intros v Hv. apply H; cbn; auto.
    - change (inst t v0 && walk (t' :: ts) vs = true). rewrite (H t v0) by (cbn; auto). cbn.
      apply IHts. intros u v Hu Hv. apply H; cbn; auto.
  Qed.

  Lemma zlen_le0_nil {A} (l : list A) : (zlen l <=? 0) = true -> l = [].
  Proof. destruct l; [reflexivity|]. unfold zlen; cbn [length]. intros H. apply Z.leb_le in H. lia. Qed.

  Lemma in_size_hi0 {A} lo hi (l : list A) : in_size lo hi (zlen l) = true -> (hi <=? 0) = true -> l = [].
  Proof.
    unfold in_size. intros H H0. apply zlen_le0_nil. apply andb_true_iff in H. destruct H as [_ H].
    apply Z.leb_le in H, H0. apply Z.leb_le. lia.
  Qed.

  Lemma in_size_eq0 {A} lo hi (l : list A) : in_size lo hi (zlen l) = true -> (hi =? 0) = true -> l = [].
  Proof. intros H H0. apply (in_size_hi0 lo hi l H). apply Z.eqb_eq in H0. apply Z.leb_le. lia. Qed.

  Lemma wf_valt_arr vs v : wf_valt (VArr vs) = true -> In v vs -> wf_valt v = true.
  Proof. cbn. rewrite forallb_forall. auto. Qed.

  Lemma recv_array e lo hi : IH e -> good (TArray e lo hi) ->
    forall b, good b -> recv (TArray e lo hi) b = true -> sub (TArray e lo hi) b.
  Proof.
    intros IHe [Hwa Hna] b [Hwb Hnb] Hr. cbn in Hwa, Hna. assert (Hge : good e) by (split; assumption).
    destruct b; try (cbn in Hr; discriminate); intros x Hx Hi; destruct x; try (cbn in Hi; discriminate);
      cbn in Hr, Hwb, Hnb; cbn [Lattice.inst] in *;
      apply andb_true_iff in Hr; destruct Hr as [Hsz Hr]; apply andb_true_iff in Hi; destruct Hi as [Hisz Hi];
      rewrite (in_size_sub _ _ _ _ _ Hsz Hisz); cbn [andb]; apply orb_true_iff; right; apply forallb_forall; intros v Hv;
      pose proof (wf_valt_arr _ _ Hx Hv) as Hwv.
    - (* Array *) apply orb_true_iff in Hr. destruct Hr as [Hr|Hr]; [rewrite (in_size_hi0 _ _ _ Hisz Hr) in Hv; destruct Hv|].
      assert (Hs : sub e b) by (apply IHe; [assumption|split; assumption|assumption]).
      apply Hs; [assumption|]. apply orb_true_iff in Hi. destruct Hi as [Hi|Hi].
      + apply is_any_eq in Hi. subst. reflexivity.
      + rewrite forallb_forall in Hi. auto.
    - (* Tuple *) apply orb_true_iff in Hr. destruct Hr as [Hr|Hr]; [rewrite (in_size_hi0 _ _ _ Hisz Hr) in Hv; destruct Hv|].
      change (walk ts vs = true) in Hi. destruct ts as [|t0 ts].
      + assert (Hs : sub e TAny) by (apply IHe; [assumption|apply good_any|assumption]). apply Hs; auto.
      + destruct (walk_in (t0 :: ts) ltac:(congruence) vs Hi v Hv) as (t & Ht & Hit).
        apply andb_true_iff in Hwb. destruct Hwb as [_ Hwb]. rewrite forallb_forall in Hr, Hwb, Hnb.
        assert (Hs : sub e t) by (apply IHe; [assumption|split; auto|auto]). apply Hs; assumption.
  Qed.

  Lemma recv_variant ts : Forall IH ts -> good (TVariant ts) ->
    forall b, good b -> recv (TVariant ts) b = true -> sub (TVariant ts) b.
  Proof.
    intros IHts [Hwa Hna] b Hgb Hr x Hx Hi. cbn in Hwa, Hna, Hr |- *.
    apply existsb_exists in Hr. destruct Hr as (t & Ht & Hr). apply existsb_exists. exists t. split; [assumption|].
    rewrite Forall_forall in IHts. rewrite forallb_forall in Hwa, Hna.
    assert (Hs : sub t b) by (apply (IHts t Ht); [split; auto|assumption|assumption]). apply Hs; assumption.
  Qed.

  Lemma recv_optional t : IH t -> good (TOptional t) ->
    forall b, good b -> recv (TOptional t) b = true -> sub (TOptional t) b.
  Proof.
    intros IHt [Hwa Hna] b Hgb Hr x Hx Hi. cbn in Hwa, Hna, Hr.
    apply orb_true_iff in Hr. destruct Hr as [Hr|Hr].
    - destruct Hgb as [_ Hnb]. pose proof (flat_sound rx hs' FUndef b Hnb Hr x Hi) as Hf.
      destruct x; try discriminate. reflexivity.
    - assert (Hs : sub t b) by (apply IHt; [split; assumption|assumption|assumption]).
      specialize (Hs x Hx Hi). destruct x; cbn; auto.
  Qed.

  Lemma recv_notundef t : IH t -> good (TNotUndef t) ->
    forall b, good b -> recv (TNotUndef t) b = true -> sub (TNotUndef t) b.
  Proof.
    intros IHt [Hwa Hna] b Hgb Hr x Hx Hi. cbn in Hwa, Hna, Hr.
    apply andb_true_iff in Hr. destruct Hr as [Hnu Hr].
    assert (Hs : sub t b) by (apply IHt; [split; assumption|assumption|assumption]).
    specialize (Hs x Hx Hi). destruct x; cbn; auto.
    rewrite (nullable_inst rx hs') in Hnu. rewrite Hi in Hnu. discriminate.
  Qed.

  (* Type[T]: the instances are types; a type assignable to T' is assignable to every T that accepts T' —
     transitivity of assignability (LatticeTrans.asg_trans) *)
  Lemma recv_type t : good (TType t) -> forall b, good b -> recv (TType t) b = true -> sub (TType t) b.
  Proof.
    intros [Hwa Hna] b [Hwb Hnb] Hr x Hx Hi. destruct b; try (cbn in Hr; discriminate). destruct x; try (cbn in Hi; discriminate).
    cbn in Hr, Hi, Hwa, Hna, Hwb, Hnb, Hx |- *. apply andb_true_iff in Hx. destruct Hx as [Hwu Hnu].
    exact (asg_trans rx t b t0 Hwa Hwb Hwu Hna Hnb Hnu Hr Hi).
  Qed.

  Lemma recv_sensitive t : IH t -> good (TSensitive t) ->
    forall b, good b -> recv (TSensitive t) b = true -> sub (TSensitive t) b.
  Proof.
    intros IHt [Hwa Hna] b [Hwb Hnb] Hr x Hx Hi. destruct b; try (cbn in Hr; discriminate).
    destruct x; try (cbn in Hi; discriminate). cbn in *.
    assert (Hs : sub t b) by (apply IHt; [split; assumption|split; assumption|assumption]). auto.
  Qed.


  (* ---- facts about instances of a Struct type ---- *)
  Notation mname := (@fst str (ty * ty)).
  Notation sfound es := (found mname es).

  Lemma struct_inst_split ms es :
    inst (TStruct ms) (VHash es) =
    forallb (fun m => match hash_get (is_vstr (fst m)) es with
                      | None => key_optional (fst (snd m))
                      | Some x => inst (snd (snd m)) x
                      end) ms &&
    Z.eqb (zlen (filter (sfound es) ms)) (zlen es).
  Proof. reflexivity. Qed.

  Lemma struct_required_le ms es :
    forallb (fun m => match hash_get (is_vstr (fst m)) es with
                      | None => key_optional (fst (snd m))
                      | Some x => inst (snd (snd m)) x
                      end) ms = true ->
    (length (filter (fun m => negb (key_optional (fst (snd m)))) ms) <= length (filter (sfound es) ms))%nat.
  Proof.
    intros H. apply filter_length_impl. intros m Hm Hreq. rewrite forallb_forall in H. specialize (H m Hm).
    unfold found. destruct (hash_get (is_vstr (fst m)) es); [reflexivity|].
    rewrite H in Hreq. discriminate.
  Qed.

  Lemma struct_size ms es : inst (TStruct ms) (VHash es) = true ->
    in_size (struct_required ms) (zlen ms) (zlen es) = true.
  Proof.
    rewrite struct_inst_split. intros H. apply andb_true_iff in H. destruct H as [Hall Hc].
    apply Z.eqb_eq in Hc. pose proof (struct_required_le ms es Hall) as Hle.
    pose proof (filter_length_le' (sfound es) ms) as Hle2.
    unfold in_size, struct_required, zlen in *. apply andb_true_iff. split; apply Z.leb_le; lia.
  Qed.

  Lemma recv_collection lo hi : forall b, good b -> recv (TCollection lo hi) b = true -> sub (TCollection lo hi) b.
  Proof.
    intros b Hgb Hr. destruct b; try (cbn in Hr; discriminate); intros x Hx Hi; destruct x; try (cbn in Hi; discriminate);
      cbn in Hr; cbn [Lattice.inst] in *.
    - eapply in_size_sub; eauto.
    - eapply in_size_sub; eauto.
    - apply andb_true_iff in Hi. destruct Hi as [Hi _]. eapply in_size_sub; eauto.
    - apply andb_true_iff in Hi. destruct Hi as [Hi _]. eapply in_size_sub; eauto.
    - apply andb_true_iff in Hi. destruct Hi as [Hi _]. eapply in_size_sub; eauto.
    - eapply in_size_sub; [exact Hr|]. apply struct_size. exact Hi.
  Qed.

  Lemma wf_valt_hash es k x : wf_valt (VHash es) = true -> In (k, x) es -> wf_valt k = true /\ wf_valt x = true.
  Proof.
    cbn. intros H Hin. apply andb_true_iff in H. destruct H as [_ H]. rewrite forallb_forall in H.
    specialize (H _ Hin). cbn in H. apply andb_true_iff in H. exact H.
  Qed.

  Lemma wf_valt_keys es : wf_valt (VHash es) = true -> distinct_keys (map fst es) = true.
  Proof. cbn. intros H. apply andb_true_iff in H. tauto. Qed.

  Lemma wf_struct_names ms : wf_ty (TStruct ms) = true -> distinct (map fst ms) = true.
  Proof. cbn. intros H. apply andb_true_iff in H. tauto. Qed.

  Lemma wf_struct_member ms m : wf_ty (TStruct ms) = true -> In m ms ->
    key_ok (fst m) (fst (snd m)) = true /\ wf_ty (snd (snd m)) = true.
  Proof.
    cbn. intros H Hin. apply andb_true_iff in H. destruct H as [_ H]. rewrite forallb_forall in H.
    specialize (H _ Hin). apply andb_true_iff in H. exact H.
  Qed.

  Lemma nounit_struct_member ms m : no_unit (TStruct ms) = true -> In m ms ->
    no_unit (fst (snd m)) = true /\ no_unit (snd (snd m)) = true.
  Proof.
    cbn. intros H Hin. rewrite forallb_forall in H. specialize (H _ Hin). apply andb_true_iff in H. exact H.
  Qed.

  Lemma key_ok_actual n k : key_ok n k = true -> actual_key k = TStringVal n.
  Proof.
    destruct k; cbn; try discriminate.
    - intros H. apply str_eqb_eq in H. now subst.
    - destruct k; cbn; try discriminate. intros H. apply str_eqb_eq in H. now subst.
  Qed.

  Lemma key_ok_wf n k : key_ok n k = true -> wf_ty k = true.
  Proof. destruct k; cbn; try discriminate; try reflexivity. destruct k; cbn; try discriminate; reflexivity. Qed.

  (* every entry of an instance of a Struct is (name of a declared member, an instance of its value type) *)
  Lemma struct_entries ms es : wf_ty (TStruct ms) = true -> wf_valt (VHash es) = true ->
    inst (TStruct ms) (VHash es) = true ->
    forall k x, In (k, x) es -> exists m, In m ms /\ k = VStr (fst m) /\ inst (snd (snd m)) x = true.
  Proof.
    intros Hw Hx Hi k x Hin. rewrite struct_inst_split in Hi. apply andb_true_iff in Hi. destruct Hi as [Hall Hc].
    pose proof (cover mname ms es (wf_struct_names _ Hw) (wf_valt_keys _ Hx) Hc) as Hcov.
    destruct (Hcov k x Hin) as (m & Hm & -> & Hg). exists m. repeat split; [assumption|].
    rewrite forallb_forall in Hall. specialize (Hall m Hm). now rewrite Hg in Hall.
  Qed.

  Lemma recv_hash k v lo hi : IH k -> IH v -> good (THash k v lo hi) ->
    forall b, good b -> recv (THash k v lo hi) b = true -> sub (THash k v lo hi) b.
  Proof.
    intros IHk IHv [Hwa Hna] b [Hwb Hnb] Hr. cbn in Hwa, Hna.
    apply andb_true_iff in Hwa. destruct Hwa as [Hwk Hwv]. apply andb_true_iff in Hna. destruct Hna as [Hnk Hnv].
    assert (Hgk : good k) by (split; assumption). assert (Hgv : good v) by (split; assumption).
    destruct b; try (cbn in Hr; discriminate); intros x Hx Hi; destruct x; try (cbn in Hi; discriminate).
    - (* Hash *) cbn in Hr, Hwb, Hnb. cbn [Lattice.inst] in *.
      apply andb_true_iff in Hr. destruct Hr as [Hsz Hr].
      apply andb_true_iff in Hwb. destruct Hwb as [Hwb1 Hwb2]. apply andb_true_iff in Hnb. destruct Hnb as [Hnb1 Hnb2].
      apply andb_true_iff in Hi. destruct Hi as [Hisz Hi]. rewrite (in_size_sub _ _ _ _ _ Hsz Hisz). cbn [andb].
      apply orb_true_iff in Hr. destruct Hr as [Hr|Hr]; [rewrite (in_size_hi0 _ _ _ Hisz Hr); reflexivity|].
      apply andb_true_iff in Hr. destruct Hr as [Hk Hv].
      rewrite forallb_forall in Hi |- *. intros [k0 x0] Hin. specialize (Hi _ Hin). cbn [fst snd] in *.
      apply andb_true_iff in Hi. destruct Hi as [Hik Hix]. destruct (wf_valt_hash _ _ _ Hx Hin) as [Hwk0 Hwx0].
      assert (Hsk : sub k b1) by (apply IHk; [assumption|split; assumption|assumption]).
      assert (Hsv : sub v b2) by (apply IHv; [assumption|split; assumption|assumption]).
      rewrite (Hsk _ Hwk0 Hik), (Hsv _ Hwx0 Hix). reflexivity.
    - (* Struct *) cbn in Hr. apply andb_true_iff in Hr. destruct Hr as [Hsz Hall].
      pose proof (struct_size _ _ Hi) as Hisz. cbn [Lattice.inst].
      rewrite (in_size_sub _ _ _ _ _ Hsz Hisz). cbn [andb].
      apply forallb_forall. intros [k0 x0] Hin. cbn [fst snd].
      destruct (struct_entries _ _ Hwb Hx Hi k0 x0 Hin) as (m & Hm & -> & Him).
      destruct (wf_valt_hash _ _ _ Hx Hin) as [Hwk0 Hwx0].
      rewrite forallb_forall in Hall. specialize (Hall m Hm). apply andb_true_iff in Hall. destruct Hall as [Hak Hav].
      destruct (wf_struct_member _ _ Hwb Hm) as [Hko Hwm]. destruct (nounit_struct_member _ _ Hnb Hm) as [Hnk' Hnv'].
      rewrite (key_ok_actual _ _ Hko) in Hak.
      assert (Hsk : sub k (TStringVal (fst m))) by (apply IHk; [assumption|split; reflexivity|assumption]).
      assert (Hsv : sub v (snd (snd m))) by (apply IHv; [assumption|split; assumption|assumption]).
      rewrite (Hsk (VStr (fst m)) Hwk0) by (cbn; apply str_eqb_refl). rewrite (Hsv _ Hwx0 Him). reflexivity.
  Qed.

  (* ---- Tuple ---- *)
  Notation tpairs := (tpairs asg).

  Lemma tpairs_walk ts : forall os vs,
    (forall t o, In t ts -> In o os -> asg t o = true -> sub t o) ->
    os <> [] -> wf_valt (VArr vs) = true ->
    tpairs ts os = true -> walk os vs = true -> walk ts vs = true.
  Proof.
    induction ts as [|t ts IHts]; intros os vs Hsub Hos Hx Hp Hw; [reflexivity|].
    destruct os as [|o os]; [congruence|].
    destruct ts as [|t' ts].
    - (* single type on the left *)
      cbn in Hp. apply andb_true_iff in Hp. destruct Hp as [Hp0 Hp].
      apply walk_all. intros u v [<-|[]] Hv.
      destruct (walk_in (o :: os) ltac:(congruence) vs Hw v Hv) as (o' & Ho' & Hi).
      assert (Ha : asg t o' = true).
      { destruct Ho' as [<-|Ho']; [assumption|]. rewrite forallb_forall in Hp. auto. }
      apply (Hsub t o' (or_introl eq_refl) Ho' Ha); [apply (wf_valt_arr _ _ Hx Hv)|assumption].
    - destruct os as [|o' os].
      + (* single type on the right *)
        change (asg t o && forallb (fun t'0 => asg t'0 o) (t' :: ts) = true) in Hp.
        apply andb_true_iff in Hp. destruct Hp as [Hp0 Hp].
        apply walk_all. intros u v Hu Hv.
        destruct (walk_in [o] ltac:(congruence) vs Hw v Hv) as (o' & [<-|[]] & Hi).
        assert (Ha : asg u o = true).
        { destruct Hu as [<-|Hu]; [assumption|]. rewrite forallb_forall in Hp. auto. }
        apply (Hsub u o Hu (or_introl eq_refl) Ha); [apply (wf_valt_arr _ _ Hx Hv)|assumption].
      + change (asg t o && tpairs (t' :: ts) (o' :: os) = true) in Hp.
        apply andb_true_iff in Hp. destruct Hp as [Hp0 Hp].
        destruct vs as [|v vs]; [apply walk_nil_r|].
        change (inst o v && walk (o' :: os) vs = true) in Hw. apply andb_true_iff in Hw. destruct Hw as [Hw0 Hw].
        change (inst t v && walk (t' :: ts) vs = true). apply andb_true_iff. split.
        * apply (Hsub t o (or_introl eq_refl) (or_introl eq_refl) Hp0); [apply (wf_valt_arr _ _ Hx (or_introl eq_refl))|assumption].
        * apply (IHts (o' :: os) vs); [|congruence| |assumption|assumption].
          -- intros a b Ha Hb. apply Hsub; right; assumption.
          -- cbn in Hx |- *. apply andb_true_iff in Hx. tauto.
  Qed.

  Lemma recv_tuple ts g lo hi : Forall IH ts -> good (TTuple ts g lo hi) ->
    forall b, good b -> recv (TTuple ts g lo hi) b = true -> sub (TTuple ts g lo hi) b.
  Proof.
    intros IHts [Hwa Hna] b [Hwb Hnb] Hr. cbn in Hwa, Hna. apply andb_true_iff in Hwa. destruct Hwa as [_ Hwa].
    rewrite Forall_forall in IHts. rewrite forallb_forall in Hwa, Hna.
    assert (Hsub : forall t o, In t ts -> good o -> asg t o = true -> sub t o).
    { intros t o Ht Hgo Ha. apply (IHts t Ht); [split; auto|assumption|assumption]. }
    destruct b; try (cbn in Hr; discriminate); intros x Hx Hi; destruct x; try (cbn in Hi; discriminate);
      cbn in Hr, Hwb, Hnb; cbn [Lattice.inst] in *;
      apply andb_true_iff in Hr; destruct Hr as [Hsz Hr]; apply andb_true_iff in Hi; destruct Hi as [Hisz Hi];
      rewrite (in_size_sub _ _ _ _ _ Hsz Hisz); cbn [andb]; change (walk ts vs = true).
    - (* Array *) apply orb_true_iff in Hr. destruct Hr as [Hr|Hr]; [rewrite (in_size_hi0 _ _ _ Hisz Hr); apply walk_nil_r|].
      apply walk_all. intros t v Ht Hv. rewrite forallb_forall in Hr.
      apply (Hsub t b Ht (conj Hwb Hnb) (Hr t Ht)); [apply (wf_valt_arr _ _ Hx Hv)|].
      apply orb_true_iff in Hi. destruct Hi as [Hi|Hi]; [apply is_any_eq in Hi; subst; reflexivity|].
      rewrite forallb_forall in Hi. auto.
    - (* Tuple *) change (walk ts0 vs = true) in Hi. destruct ts as [|t0 ts]; [reflexivity|].
      apply orb_true_iff in Hr. destruct Hr as [Hr|Hr]; [rewrite (in_size_hi0 _ _ _ Hisz Hr); apply walk_nil_r|].
      destruct ts0 as [|o0 os].
      + (* a tuple type without slots: every slot of the receiver accepts Any *)
        apply walk_all. intros t v Ht Hv. rewrite forallb_forall in Hr.
        apply (Hsub t TAny Ht good_any (Hr t Ht)); [apply (wf_valt_arr _ _ Hx Hv)|reflexivity].
      + apply andb_true_iff in Hwb. destruct Hwb as [_ Hwb]. rewrite forallb_forall in Hwb, Hnb.
        apply (tpairs_walk (t0 :: ts) (o0 :: os) vs); [|congruence|assumption|assumption|assumption].
        intros t o Ht Ho. apply Hsub; [assumption|split; auto].
  Qed.

  (* ---- Struct ---- *)
  Lemma hash_get_in n x es : hash_get (is_vstr n) es = Some x -> In (VStr n, x) es.
  Proof.
    induction es as [|[k0 x0] es IHes]; cbn; [discriminate|].
    destruct (is_vstr n k0) eqn:E.
    - intros H. injection H as ->. destruct k0; try discriminate. cbn in E. apply str_eqb_eq in E. subst. auto.
    - auto.
  Qed.

  Lemma recv_struct ms :
    Forall (fun m => IH (fst (snd m)) /\ IH (snd (snd m))) ms -> good (TStruct ms) ->
    forall b, good b -> recv (TStruct ms) b = true -> sub (TStruct ms) b.
  Proof.
    intros IHms [Hwa Hna] b [Hwb Hnb] Hr. rewrite Forall_forall in IHms.
    destruct b; try (cbn in Hr; discriminate); intros x Hx Hi; destruct x; try (cbn in Hi; discriminate).
    rename ms0 into ms'. cbn in Hr. apply andb_true_iff in Hr. destruct Hr as [Hall Hcnt].
    pose proof (wf_struct_names _ Hwa) as Hda. pose proof (wf_struct_names _ Hwb) as Hdb.
    pose proof (struct_entries _ _ Hwb Hx Hi) as Hent.
    rewrite struct_inst_split in Hi |- *. apply andb_true_iff in Hi. destruct Hi as [Hiall Hicnt].
    rewrite forallb_forall in Hall, Hiall.
    apply andb_true_iff. split.
    - (* every member of ms is satisfied *)
      apply forallb_forall. intros m Hm. specialize (Hall m Hm).
      destruct (IHms m Hm) as [IHk IHv].
      destruct (wf_struct_member _ _ Hwa Hm) as [Hko Hwv]. destruct (nounit_struct_member _ _ Hna Hm) as [Hnk Hnv].
      destruct (hash_get (is_vstr (fst m)) es) as [x|] eqn:Eg.
      + apply hash_get_in in Eg. destruct (Hent _ _ Eg) as (m' & Hm' & Hname & Him').
        injection Hname as Hname.
        assert (Hf : find_member (fst m) ms' = Some (snd m')).
        { apply find_member_in; [assumption|]. rewrite Hname. destruct m'; assumption. }
        rewrite Hf in Hall. destruct (snd m') as [k' v'] eqn:Em'. apply andb_true_iff in Hall. destruct Hall as [_ Hav].
        destruct (wf_struct_member _ _ Hwb Hm') as [_ Hwv']. destruct (nounit_struct_member _ _ Hnb Hm') as [_ Hnv'].
        try rewrite Em' in Hwv'; try rewrite Em' in Hnv'; try rewrite Em' in Him'. cbn [snd] in Hwv', Hnv', Him'.
        assert (Hs : sub (snd (snd m)) v') by (apply IHv; [split; assumption|split; assumption|assumption]).
        apply Hs; [|assumption]. destruct (wf_valt_hash _ _ _ Hx Eg). assumption.
      + destruct (find_member (fst m) ms') as [[k' v']|] eqn:Ef; [|exact Hall].
        apply andb_true_iff in Hall. destruct Hall as [Hak _].
        apply find_member_some in Ef. specialize (Hiall _ Ef). cbn [fst snd] in Hiall. rewrite Eg in Hiall.
        (* k' accepts undef, so the accepting key type does *)
        destruct (wf_struct_member _ _ Hwb Ef) as [Hko' _]. destruct (nounit_struct_member _ _ Hnb Ef) as [Hnk' _].
        cbn [fst snd] in Hko', Hnk'.
        assert (Hs : sub (fst (snd m)) k').
        { apply IHk; [split; [apply (key_ok_wf _ _ Hko)|assumption]|split; [apply (key_ok_wf _ _ Hko')|assumption]|assumption]. }
        unfold key_optional in *. rewrite (nullable_inst rx hs') in Hiall |- *. apply Hs; [reflexivity|assumption].
    - (* every entry is a member of ms *)
      apply Z.eqb_eq. unfold zlen. f_equal.
      apply (count_full mname ms Hda es (wf_valt_keys _ Hx)). intros k x Hin.
      destruct (Hent k x Hin) as (m' & Hm' & -> & _).
      (* the members of ms' are covered by ms *)
      assert (Hcnt' : Z.eqb (zlen (filter (found mname (member_entries ms')) ms)) (zlen (member_entries ms')) = true).
      { unfold member_entries at 2. unfold zlen at 2. rewrite map_length. fold (zlen ms').
        erewrite filter_ext; [exact Hcnt|]. intros m. unfold found. apply found_member_entries. }
      pose proof (cover mname ms (member_entries ms') Hda (distinct_member_entries _ Hdb) Hcnt') as Hcov.
      destruct (Hcov (VStr (fst m')) VUndef) as (m & Hm & Hname & _).
      { unfold member_entries. apply in_map_iff. exists m'. split; [reflexivity|assumption]. }
      exists m. split; [assumption|exact Hname].
  Qed.

  Theorem sound_full : forall a, good a -> forall b, good b -> asg a b = true -> sub a b.
  Proof.
    induction a using ty_ind'; intros Hga; apply gstep_sound.
    all: try (atomic; fail).
    all: auto using recv_boolean, recv_integer, recv_float, recv_scalar, recv_scalardata, recv_stringsz, recv_stringval,
      recv_enum, recv_pattern, recv_regexp, recv_collection.
    - apply recv_array; [exact IHa|assumption].
    - apply recv_hash; [exact IHa1|exact IHa2|assumption].
    - apply recv_tuple; [|assumption]. eapply Forall_impl; [|exact H]. intros t Ht. exact Ht.
    - apply recv_struct; [|assumption]. eapply Forall_impl; [|exact H]. intros m [H1 H2]. split; assumption.
    - apply recv_variant; [|assumption]. eapply Forall_impl; [|exact H]. intros t Ht. exact Ht.
    - apply recv_optional; [exact IHa|assumption].
    - apply recv_notundef; [exact IHa|assumption].
    - apply recv_type; assumption.
    - apply recv_sensitive; [exact IHa|assumption].
  Qed.
End Sound.
End FullSound.

(* ---- the by-specification rule and instance-of: `inst` consults assignability only for Type[T] ---- *)
Definition gwalk (I : ty -> value -> bool) :=
  fix walk (ts : list ty) (vs : list value) {struct ts} : bool :=
    match ts, vs with
    | [], _ => true
    | _, [] => true
    | [t], v :: vs' => I t v && forallb (I t) vs'
    | t :: ts', v :: vs' => I t v && walk ts' vs'
    end.

Lemma gwalk_ext (I J : ty -> value -> bool) ts : forall vs,
  (forall t v, In t ts -> In v vs -> I t v = J t v) -> gwalk I ts vs = gwalk J ts vs.
Proof.
  induction ts as [|t ts IH]; intros vs H; [reflexivity|].
  destruct vs as [|v vs]; [destruct ts; reflexivity|]. destruct ts as [|t' ts].
  - cbn. rewrite (H t v) by (cbn; auto). f_equal. apply forallb_ext_in. intros x Hx. apply H; cbn; auto.
  - change (I t v && gwalk I (t' :: ts) vs = J t v && gwalk J (t' :: ts) vs). rewrite (H t v) by (cbn; auto). f_equal.
    apply IH. intros a x Ha Hx. apply H; right; assumption.
Qed.

Lemma hash_get_sub p es x : hash_get p es = Some x -> exists k, In (k, x) es.
Proof. intros H. destruct (hash_get_some p es x H) as (k & Hin & _). exists k. exact Hin. Qed.

Section InstRule.
  Variable rx : str -> str -> bool.

  Definition irr (t : ty) : Prop :=
    forall v, no_struct t = true \/ no_hash_val v = true -> inst rx true t v = inst rx false t v.

  Lemma inst_tuple hs ts g lo hi vs :
    inst rx hs (TTuple ts g lo hi) (VArr vs) = in_size lo hi (zlen vs) && gwalk (inst rx hs) ts vs.
  Proof. reflexivity. Qed.

  Lemma inst_rule_irrelevant_aux : forall t, irr t.
  Proof.
    induction t using ty_ind'; intros w Hok; try reflexivity.
    - (* Array *) destruct w; try reflexivity. cbn [inst]. f_equal. f_equal. apply forallb_ext_in. intros x Hx. apply IHt.
      destruct Hok as [Hs|Hv]; [left; exact Hs|right]. cbn in Hv. rewrite forallb_forall in Hv. auto.
    - (* Hash *) destruct w; try reflexivity. cbn [inst]. f_equal. apply forallb_ext_in. intros [k0 x0] He. cbn [fst snd].
      assert (Hk : (no_struct t1 = true \/ no_hash_val k0 = true) /\ (no_struct t2 = true \/ no_hash_val x0 = true)).
      { destruct Hok as [Hs|Hv].
        - cbn in Hs. apply andb_true_iff in Hs. destruct Hs. split; left; assumption.
        - cbn in Hv. rewrite forallb_forall in Hv. specialize (Hv _ He). cbn [fst snd] in Hv. apply andb_true_iff in Hv. destruct Hv.
          split; right; assumption. }
      destruct Hk as [Hk Hx]. rewrite (IHt1 k0 Hk), (IHt2 x0 Hx). reflexivity.
    - (* Tuple *) destruct w; try reflexivity. rewrite !inst_tuple. f_equal. apply gwalk_ext. intros t x Ht Hx.
      rewrite Forall_forall in H. apply (H t Ht). destruct Hok as [Hs|Hv].
      + left. cbn in Hs. rewrite forallb_forall in Hs. auto.
      + right. cbn in Hv. rewrite forallb_forall in Hv. auto.
    - (* Struct *) destruct w; try reflexivity. cbn [inst]. f_equal. apply forallb_ext_in. intros m Hm.
      destruct (hash_get (is_vstr (fst m)) es) as [x|] eqn:Eg; [|reflexivity].
      rewrite Forall_forall in H. destruct (H m Hm) as [_ IHv]. apply IHv. destruct Hok as [Hs|Hv]; [discriminate Hs|right].
      destruct (hash_get_sub _ _ _ Eg) as (k & Hin). cbn in Hv. rewrite forallb_forall in Hv. specialize (Hv _ Hin).
      cbn [fst snd] in Hv. apply andb_true_iff in Hv. tauto.
    - (* Variant *) cbn [inst]. apply existsb_ext_in. intros t Ht. rewrite Forall_forall in H. apply (H t Ht).
      destruct Hok as [Hs|Hv]; [left|right; exact Hv]. cbn in Hs. rewrite forallb_forall in Hs. auto.
    - (* Optional *) destruct w; try reflexivity; cbn [inst]; apply IHt; exact Hok.
    - (* NotUndef *) destruct w; try reflexivity; cbn [inst]; apply IHt; exact Hok.
    - (* Type *) destruct w; try reflexivity. cbn [inst]. apply asg_rule_irrelevant. unfold rule_free.
      destruct Hok as [Hs|Hv]; [cbn in Hs; rewrite Hs; reflexivity|cbn in Hv; rewrite Hv; apply orb_true_r].
    - (* Sensitive *) destruct w; try reflexivity. cbn [inst]. apply IHt. destruct Hok as [Hs|Hv]; [left; exact Hs|right; exact Hv].
  Qed.

  Lemma inst_rule_irrelevant t v : rule_free_val t v = true -> inst rx true t v = inst rx false t v.
  Proof. intros H. apply inst_rule_irrelevant_aux. unfold rule_free_val in H. apply orb_true_iff in H. exact H. Qed.
End InstRule.

(* C01 in the rule-free model, all values *)
Theorem C01_sound_rule_free_model :
  forall (rx : str -> str -> bool) (a b : ty) (v : value),
    wf_ty a = true -> wf_ty b = true -> no_unit a = true -> no_unit b = true -> wf_valt v = true ->
    asg rx false a b = true -> inst rx false b v = true -> inst rx false a v = true.
Proof.
  intros rx a b v Hwa Hwb Hna Hnb Hv Ha Hi.
  exact (FullSound.sound_full rx a (conj Hwa Hna) b (conj Hwb Hnb) Ha v Hv Hi).
Qed.

(* C01 for the model of the code (rule enabled), all values, wherever the by-specification rule cannot have
   contributed to any of the three answers *)
Theorem C01_sound_all_values :
  forall (rx : str -> str -> bool) (a b : ty) (v : value),
    wf_ty a = true -> wf_ty b = true -> no_unit a = true -> no_unit b = true ->
    rule_free a b = true -> rule_free_val a v = true -> rule_free_val b v = true -> wf_valt v = true ->
    asg rx true a b = true -> inst rx true b v = true -> inst rx true a v = true.
Proof.
  intros rx a b v Hwa Hwb Hna Hnb Hrf Hra Hrb Hv Ha Hi.
  rewrite (asg_rule_irrelevant rx a b Hrf) in Ha. rewrite (inst_rule_irrelevant rx b v Hrb) in Hi.
  rewrite (inst_rule_irrelevant rx a v Hra). exact (C01_sound_rule_free_model rx a b v Hwa Hwb Hna Hnb Hv Ha Hi).
Qed.
