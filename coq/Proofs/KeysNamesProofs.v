(* KeysNamesProofs.v — C07: the cached canonical form of a TypedName is, on every construction route, the one that
   the visible parts determine; hence equality is a function of the visible parts. *)
From Coq Require Import ZArith NArith Bool List Arith Lia.
From PcoreV Require Import Model.Base Model.KeysNames.
Import ListNotations.
Open Scope nat_scope.

Lemma ascii_str_app a b : ascii_str (a ++ b) = ascii_str a && ascii_str b.
Proof. unfold ascii_str. apply forallb_app. Qed.

Lemma to_lower_ascii s : ascii_str s = true -> to_lower s = map lower_byte s.
Proof. intros H. unfold to_lower. now rewrite H. Qed.

(* the part of the canonical form in front of the name *)
Definition pre_of (t : tname) : str := tn_auth t ++ slash :: tn_ns t ++ [slash].

Lemma full_split auth ns name : auth ++ slash :: ns ++ slash :: name = (auth ++ slash :: ns ++ [slash]) ++ name.
Proof. rewrite <- app_assoc. cbn [app]. rewrite <- app_assoc. reflexivity. Qed.

Lemma pre_of_length t : length (pre_of t) = length (tn_auth t) + length (tn_ns t) + 2.
Proof. unfold pre_of. rewrite app_length. cbn [length]. rewrite app_length. cbn [length]. lia. Qed.

Lemma plain_pre t : plain t = true -> ascii_str (pre_of t) = true.
Proof.
  unfold plain, pre_of. intros H.
  apply andb_true_iff in H as [H Hn]. apply andb_true_iff in H as [Ha Hs].
  rewrite ascii_str_app, Ha. cbn [andb]. change (slash :: tn_ns t ++ [slash]) with ([slash] ++ tn_ns t ++ [slash]).
  rewrite !ascii_str_app, Hs. reflexivity.
Qed.

Lemma plain_name t : plain t = true -> ascii_str (tn_name t) = true.
Proof. unfold plain. intros H. apply andb_true_iff in H as [_ H]. exact H. Qed.

(* the canonical form of plain parts: byte-wise *)
Lemma canon_plain t name :
  plain t = true -> ascii_str name = true ->
  canon_of (tn_ns t) (tn_auth t) name = map lower_byte (pre_of t) ++ map lower_byte name.
Proof.
  intros Hp Hn. unfold canon_of. rewrite full_split. fold (pre_of t).
  rewrite to_lower_ascii by (rewrite ascii_str_app, (plain_pre _ Hp), Hn; reflexivity).
  apply map_app.
Qed.

Lemma after_sep_suffix s : forall r, after_sep s = Some r -> exists pre, s = pre ++ r.
Proof.
  induction s as [|a s IH]; intros r H; cbn [after_sep] in H; [discriminate|].
  destruct s as [|b s']; [discriminate|].
  destruct (N.eqb a 58 && N.eqb b 58).
  - injection H as <-. exists [a; b]. reflexivity.
  - destruct (IH r H) as [pre Hp]. exists (a :: pre). cbn [app]. now rewrite <- Hp.
Qed.

Lemma strip_suffix n : forall s r, strip n s = Some r -> exists pre, s = pre ++ r.
Proof.
  induction n as [|n IH]; intros s r H; cbn [strip] in H.
  - injection H as <-. exists []. reflexivity.
  - destruct (after_sep s) as [s1|] eqn:E; [|discriminate].
    destruct (after_sep_suffix _ _ E) as [p1 H1]. destruct (IH _ _ H) as [p2 H2].
    exists (p1 ++ p2). rewrite <- app_assoc. now rewrite <- H2.
Qed.

Lemma last_sep_le s : forall i, last_sep s = Some i -> i <= length s.
Proof.
  induction s as [|a s IH]; intros i H; cbn [last_sep] in H; [discriminate|].
  destruct (last_sep s) as [j|].
  - injection H as <-. specialize (IH j eq_refl). cbn [length]. lia.
  - destruct s as [|b s']; [discriminate|]. destruct (N.eqb a 58 && N.eqb b 58); [|discriminate].
    injection H as <-. lia.
Qed.

Lemma is_empty_true s : is_empty s = true -> s = [].
Proof. destruct s; [reflexivity|discriminate]. Qed.

Lemma new_ok ns auth name : tn_ok (new_typed_name ns auth name).
Proof. right. reflexivity. Qed.

Lemma from_key_ok k t : typed_name_from_map_key k = RName t -> tn_ok t.
Proof.
  unfold typed_name_from_map_key. destruct (last_index_byte slash k) as [[|i]|]; try discriminate.
  destruct (last_index_byte slash (firstn (S i) k)) as [[|j]|]; try discriminate.
  intros H. injection H as <-. apply new_ok.
Qed.

(* child never faults on a name whose cache is in order, and the derived cache is in order *)
Lemma child_ok t n : tn_ok t -> match child t n with RName t' => tn_ok t' | RFault => False | _ => True end.
Proof.
  intros Hok. unfold child. destruct (strip n (tn_name t)) as [name|] eqn:Es; [|exact I].
  destruct (plain t) eqn:Hp; cbn [negb].
  2:{ right. reflexivity. }
  destruct (is_empty (tn_canonical t)) eqn:He.
  { left. reflexivity. }
  destruct Hok as [H0|Hc]; [rewrite H0 in He; discriminate|].
  destruct (strip_suffix _ _ _ Es) as [pre Hpre].
  assert (Hn : ascii_str name = true).
  { pose proof (plain_name _ Hp) as H. rewrite Hpre, ascii_str_app in H. apply andb_true_iff in H. tauto. }
  assert (Hcan : tn_canonical t = map lower_byte (pre_of t) ++ map lower_byte pre ++ map lower_byte name).
  { rewrite Hc. unfold canon_of_t. rewrite (canon_plain t (tn_name t) Hp (plain_name _ Hp)). rewrite Hpre at 1. now rewrite map_app. }
  assert (Hd : length (tn_name t) - length name = length pre).
  { rewrite Hpre, app_length. lia. }
  rewrite Hd, <- pre_of_length.
  unfold slice_to, slice_from. rewrite Hcan.
  replace (length (pre_of t)) with (length (map lower_byte (pre_of t))) by apply map_length.
  replace (length pre) with (length (map lower_byte pre)) by apply map_length.
  set (P := map lower_byte (pre_of t)). set (X := map lower_byte pre). set (Y := map lower_byte name).
  assert (L1 : (length P <=? length (P ++ X ++ Y)) = true) by (apply Nat.leb_le; rewrite !app_length; lia).
  assert (L2 : (length P + length X <=? length (P ++ X ++ Y)) = true) by (apply Nat.leb_le; rewrite !app_length; lia).
  rewrite L1, L2.
  assert (F : firstn (length P) (P ++ X ++ Y) = P).
  { rewrite firstn_app, Nat.sub_diag, firstn_all. cbn [firstn]. apply app_nil_r. }
  assert (S' : skipn (length P + length X) (P ++ X ++ Y) = Y).
  { rewrite app_assoc. replace (length P + length X) with (length (P ++ X)) by apply app_length.
    rewrite skipn_app, Nat.sub_diag, skipn_all. reflexivity. }
  rewrite F, S'. right. cbn [tn_canonical]. unfold canon_of_t. cbn [tn_ns tn_auth tn_name].
  subst P Y. symmetry.
  exact (canon_plain t name Hp Hn).
Qed.

Lemma tn_child_ok t : tn_ok t -> match tn_child t with RName t' => tn_ok t' | RFault => False | _ => True end.
Proof. intros H. unfold tn_child. destruct (is_qualified t); [apply child_ok; exact H|exact I]. Qed.

Lemma ascii_firstn k s : ascii_str s = true -> ascii_str (firstn k s) = true.
Proof.
  intros H. rewrite <- (firstn_skipn k s), ascii_str_app in H. apply andb_true_iff in H. tauto.
Qed.

Lemma tn_parent_ok t : tn_ok t -> match tn_parent t with RName t' => tn_ok t' | RFault => False | _ => True end.
Proof.
  intros Hok. unfold tn_parent. destruct (last_sep (tn_name t)) as [lx|] eqn:El; [|exact I].
  destruct (plain t) eqn:Hp; cbn [negb].
  2:{ right. reflexivity. }
  destruct (is_empty (tn_canonical t)) eqn:He.
  { left. reflexivity. }
  destruct Hok as [H0|Hc]; [rewrite H0 in He; discriminate|].
  pose proof (last_sep_le _ _ El) as Hle.
  assert (Hcan : tn_canonical t = map lower_byte (pre_of t) ++ map lower_byte (tn_name t)).
  { rewrite Hc. unfold canon_of_t. apply (canon_plain t (tn_name t) Hp (plain_name _ Hp)). }
  rewrite <- pre_of_length. unfold slice_to. rewrite Hcan.
  replace (length (pre_of t)) with (length (map lower_byte (pre_of t))) by apply map_length.
  set (P := map lower_byte (pre_of t)).
  assert (L : (length P + lx <=? length (P ++ map lower_byte (tn_name t))) = true).
  { apply Nat.leb_le. rewrite app_length, map_length. lia. }
  rewrite L, firstn_app_2, firstn_map.
  right. cbn [tn_canonical]. unfold canon_of_t. cbn [tn_ns tn_auth tn_name]. subst P. symmetry.
  apply (canon_plain t (firstn lx (tn_name t)) Hp). apply ascii_firstn, (plain_name _ Hp).
Qed.

Lemma tn_relative_to_ok t p : tn_ok t -> match tn_relative_to t p with RName t' => tn_ok t' | RFault => False | _ => True end.
Proof.
  intros H. unfold tn_relative_to. destruct (tn_parts p) as [tps|]; [|exact I]. destruct (tn_parts t) as [ops|]; [|exact I].
  destruct (Nat.ltb (length tps) (length ops) && is_prefix tps ops); [apply child_ok; exact H|exact I].
Qed.

Definition res_ok (r : nres) : Prop := match r with RName t => tn_ok t | RFault => False | _ => True end.

(* every construction route: no fault, and the cache of the result is in order *)
Lemma nx_eval_res_ok e : res_ok (nx_eval e).
Proof.
  induction e as [ns auth name|k|e IH|e IH|e IH p IHp]; cbn [nx_eval].
  - apply new_ok.
  - unfold res_ok. destruct (typed_name_from_map_key k) as [t| | | |] eqn:E; try exact I.
    + eapply from_key_ok; eauto.
    + unfold typed_name_from_map_key in E. destruct (last_index_byte slash k) as [[|i]|]; try discriminate.
      destruct (last_index_byte slash (firstn (S i) k)) as [[|j]|]; discriminate.
  - destruct (nx_eval e) as [t| | | |]; cbn [bind]; try exact IH. apply tn_child_ok, IH.
  - destruct (nx_eval e) as [t| | | |]; cbn [bind]; try exact IH. apply tn_parent_ok, IH.
  - destruct (nx_eval e) as [t| | | |]; cbn [bind]; try exact IH.
    destruct (nx_eval p) as [pt| | | |]; cbn [bind]; try exact IHp. apply tn_relative_to_ok, IH.
Qed.

Lemma nx_eval_ok e t : nx_eval e = RName t -> tn_ok t.
Proof. intros H. pose proof (nx_eval_res_ok e) as R. rewrite H in R. exact R. Qed.

Lemma nx_eval_no_fault e : nx_eval e <> RFault.
Proof. intros H. pose proof (nx_eval_res_ok e) as R. rewrite H in R. exact R. Qed.

Lemma map_key_ok t : tn_ok t -> tn_map_key t = canon_of_t t.
Proof.
  intros [H|H]; unfold tn_map_key.
  - rewrite H. reflexivity.
  - destruct (is_empty (tn_canonical t)); [reflexivity|exact H].
Qed.

Lemma equals_visible a b : tn_ok a -> tn_ok b -> tn_equals a b = visible_eqb a b.
Proof. intros Ha Hb. unfold tn_equals, visible_eqb. now rewrite (map_key_ok _ Ha), (map_key_ok _ Hb). Qed.

Lemma equals_route_independent e1 e2 t1 t2 :
  nx_eval e1 = RName t1 -> nx_eval e2 = RName t2 -> tn_equals t1 t2 = visible_eqb t1 t2.
Proof. intros H1 H2. apply equals_visible; eapply nx_eval_ok; eauto. Qed.

Lemma same_parts_equal e1 e2 t1 t2 :
  nx_eval e1 = RName t1 -> nx_eval e2 = RName t2 ->
  tn_ns t1 = tn_ns t2 -> tn_auth t1 = tn_auth t2 -> tn_name t1 = tn_name t2 -> tn_equals t1 t2 = true.
Proof.
  intros H1 H2 Hn Ha Hm. rewrite (equals_route_independent _ _ _ _ H1 H2).
  unfold visible_eqb, canon_of_t. rewrite Hn, Ha, Hm. apply str_eqb_refl.
Qed.

(* the answer against any third name is the same for two names with the same visible parts *)
Lemma same_parts_same_answers e1 e2 e3 t1 t2 t3 :
  nx_eval e1 = RName t1 -> nx_eval e2 = RName t2 -> nx_eval e3 = RName t3 ->
  tn_ns t1 = tn_ns t2 -> tn_auth t1 = tn_auth t2 -> tn_name t1 = tn_name t2 ->
  tn_equals t1 t3 = tn_equals t2 t3 /\ tn_equals t3 t1 = tn_equals t3 t2.
Proof.
  intros H1 H2 H3 Hn Ha Hm.
  rewrite (equals_route_independent _ _ _ _ H1 H3), (equals_route_independent _ _ _ _ H2 H3),
          (equals_route_independent _ _ _ _ H3 H1), (equals_route_independent _ _ _ _ H3 H2).
  unfold visible_eqb, canon_of_t. rewrite Hn, Ha, Hm. split; reflexivity.
Qed.

Lemma tn_equals_refl a : tn_equals a a = true.
Proof. apply str_eqb_refl. Qed.

Lemma tn_equals_sym a b : tn_equals a b = tn_equals b a.
Proof.
  unfold tn_equals. destruct (str_eqb_spec (tn_map_key a) (tn_map_key b)) as [E|N];
    destruct (str_eqb_spec (tn_map_key b) (tn_map_key a)) as [E'|N']; congruence.
Qed.

Lemma tn_equals_trans a b c : tn_equals a b = true -> tn_equals b c = true -> tn_equals a c = true.
Proof. unfold tn_equals. rewrite !str_eqb_eq. congruence. Qed.

(* open finding typeset-key-by-content *)
Lemma typeset_key_by_content_refuted : exists a b, ts_eqb a b = true /\ ts_key a <> ts_key b.
Proof.
  exists (mkTs [65%N] [] [] [49%N] [49%N] [1%N]), (mkTs [65%N] [] [] [49%N] [49%N] [2%N]).
  split; [reflexivity|discriminate].
Qed.

(* a name whose cache is NOT in order: the modelled code then answers by the cache (the theorems need tn_ok) *)
Lemma bad_cache_decides :
  exists a b, tn_ns a = tn_ns b /\ tn_auth a = tn_auth b /\ tn_name a = tn_name b /\ tn_equals a b = false.
Proof.
  exists (mkTName [116%N] [104%N] [99%N] [120%N]), (mkTName [116%N] [104%N] [99%N] []).
  repeat split; reflexivity.
Qed.
