(* InferInst.v — C04: every value is an instance of its inferred (generic) type.
   The inferred type of a collection is a fold of commonType over the element types; the proof shows, for the
   class K of types that inference produces from values (closed under commonType), that commonType is a
   SEMANTIC upper bound (every instance of an operand is an instance of the result), using soundness of
   assignability on K, proved here directly (K contains the empty collection types Array[Unit,0,0] and
   Hash[Unit,Unit,0,0], which C01 excludes). *)
From Coq Require Import ZArith NArith Bool List Lia.
From PcoreV Require Import Model.Base Model.Ty Model.Lattice Model.Infer Proofs.LatticeUnfold Proofs.LatticeBasics
  Proofs.InferProofs Proofs.InferCommon.
Import ListNotations.
Open Scope Z_scope.

(* the types inference produces from first-order values, closed under commonType: scalars with value or range,
   the ladder types, Array/Hash/Sensitive of such, the two empty collection types, and the markers TOther
   (aliases Data / RichData, out of fuel) *)
Fixpoint K (t : ty) : bool :=
  match t with
  | TAny | TUndef | TDefault | TBoolean _ | TInteger _ _ | TFloat _ _ | TNumeric | TScalar | TScalarData
  | TString | TStringVal _ | TRegexp _ | TBinary | TOther _ => true
  | TEnum ci _ => negb ci
  | TArray e lo hi => (is_unit e && (lo =? 0) && (hi =? 0)) || K e
  | THash k v lo hi => (is_unit k && is_unit v && (lo =? 0) && (hi =? 0)) || (K k && K v)
  | TSensitive t => K t
  | _ => false
  end.

Lemma K_plain b : K b = true -> plain b = true.
Proof. destruct b; try discriminate; reflexivity. Qed.

Lemma K_not_unit b : K b = true -> is_unit b = false.
Proof. destruct b; try discriminate; reflexivity. Qed.

Section InferInst.
  Variable rx : str -> str -> bool.
  Notation A := (asg rx true).
  Notation R := (recv rx true (asg rx true)).
  Notation I := (inst rx true).
  Notation C := (common_f rx).

  Lemma zlen_nil_of_size {X} lo hi (l : list X) : in_size lo hi (zlen l) = true -> (hi <=? 0) = true -> l = [].
  Proof.
    unfold in_size. intros H H0. apply andb_true_iff in H. destruct H as [_ H]. apply Z.leb_le in H, H0.
    destruct l; [reflexivity|]. unfold zlen in H. cbn [length] in H. lia.
  Qed.

  Ltac dead H :=
    solve [ discriminate H
          | repeat (match type of H with context [match ?x with _ => _ end] => destruct x end; try discriminate H) ].

  (* ---- soundness of assignability on K ---- *)
  Definition SK (a : ty) : Prop := forall b, K b = true -> A a b = true -> forall x, I b x = true -> I a x = true.

  Lemma SK_atomic a :
    (forall b, K b = true -> R a b = true -> forall x, I b x = true -> I a x = true) -> SK a.
  Proof.
    intros H b Kb Ha x Hi. rewrite (asg_plain rx true a b (K_plain b Kb)) in Ha.
    destruct (is_any a) eqn:Ea; [apply is_any_eq in Ea; subst; reflexivity|]. cbn [orb] in Ha. eauto.
  Qed.

  Ltac atomic :=
    apply SK_atomic; intros b Kb Hr x Hi;
    destruct b; try discriminate Kb; cbn [recv flat flat_recv is_undef orb] in Hr; try (dead Hr);
    destruct x; cbn [inst] in Hi |- *; try discriminate Hi; try reflexivity.

  Lemma in_size_sub' lo hi lo' hi' n : size_sub lo hi lo' hi' = true -> in_size lo' hi' n = true -> in_size lo hi n = true.
  Proof. apply in_size_sub. Qed.

  Theorem sound_K : forall a, K a = true -> SK a.
  Proof.
    induction a using ty_ind'; intros Ka; try discriminate Ka.
    - intros b Kb Ha x Hi. reflexivity.
    - atomic.
    - atomic.
    - (* Boolean *) atomic. destruct v as [y|]; [|reflexivity]. destruct v0 as [z|]; cbn in Hr; [|discriminate Hr].
      apply eqb_prop in Hr. subst. exact Hi.
    - (* Integer *) atomic. eapply in_size_sub'; eassumption.
    - (* Float *) atomic; [eapply float_in_sub|eapply float_unbounded_sub]; eassumption.
    - (* Numeric *) atomic.
    - (* Scalar *) atomic.
    - (* ScalarData *) atomic.
    - (* String *) atomic.
    - (* StringVal *) atomic. apply str_eqb_eq in Hr, Hi. subst. apply str_eqb_refl.
    - (* Enum *) cbn [K] in Ka. apply negb_true_iff in Ka. subst ci. apply SK_atomic. intros b Kb Hr x Hi.
      destruct vs as [|v0 vs].
      + destruct b; try discriminate Kb; cbn [recv] in Hr; try discriminate Hr; destruct x; cbn [inst] in Hi |- *; try discriminate Hi; reflexivity.
      + destruct b; try discriminate Kb; cbn [recv] in Hr; try discriminate Hr; destruct x; cbn [inst] in Hi |- *; try discriminate Hi.
        * apply str_eqb_eq in Hi. subst. exact Hr.
        * cbn [K] in Kb. apply negb_true_iff in Kb. subst ci.
          apply andb_true_iff in Hr. destruct Hr as [Hr Hall]. apply andb_true_iff in Hr. destruct Hr as [Hne _].
          destruct vs0 as [|w0 ws]; [discriminate Hne|]. cbn [enum_inst] in Hi. apply mem_str_In in Hi.
          rewrite forallb_forall in Hall. apply Hall. exact Hi.
    - (* Regexp *) atomic. apply orb_true_iff in Hr. destruct Hr as [Hr|Hr]; [rewrite Hr; reflexivity|].
      apply str_eqb_eq in Hr. subst. exact Hi.
    - (* Binary *) atomic.
    - (* Array *) apply SK_atomic. intros b Kb Hr x Hi.
      destruct b; try discriminate Kb; cbn [recv] in Hr; try discriminate Hr. destruct x; cbn [inst] in Hi; try discriminate Hi.
      apply andb_true_iff in Hr. destruct Hr as [Hsz Hr]. apply andb_true_iff in Hi. destruct Hi as [Hisz Hi].
      cbn [inst]. rewrite (in_size_sub _ _ _ _ _ Hsz Hisz). cbn [andb].
      destruct (hi0 <=? 0) eqn:Eh.
      { rewrite (zlen_nil_of_size _ _ _ Hisz Eh). apply orb_true_r. }
      cbn [orb] in Hr. cbn [K] in Ka, Kb.
      apply orb_true_iff in Kb. destruct Kb as [Kb|Kb].
      { apply andb_true_iff in Kb. destruct Kb as [_ Kb]. apply Z.eqb_eq in Kb. apply Z.leb_gt in Eh. lia. }
      apply orb_true_iff in Ka. destruct Ka as [Ka|Ka].
      { (* a = Array[Unit,0,0] accepts only size [0,0] *)
        apply andb_true_iff in Ka. destruct Ka as [Ka Kh]. apply Z.eqb_eq in Kh. subst hi.
        unfold size_sub in Hsz. apply andb_true_iff in Hsz. destruct Hsz as [_ Hsz].
        rewrite (zlen_nil_of_size _ _ _ Hisz Hsz). apply orb_true_r. }
      apply orb_true_iff. right. apply orb_true_iff in Hi. destruct Hi as [Hi|Hi].
      + apply is_any_eq in Hi. subst b. apply forallb_forall. intros y Hy. apply (IHa Ka TAny eq_refl Hr). reflexivity.
      + apply forallb_forall. intros y Hy. rewrite forallb_forall in Hi. apply (IHa Ka b Kb Hr). auto.
    - (* Hash *) apply SK_atomic. intros b Kb Hr x Hi.
      destruct b; try discriminate Kb; cbn [recv] in Hr; try discriminate Hr. destruct x; cbn [inst] in Hi; try discriminate Hi.
      apply andb_true_iff in Hr. destruct Hr as [Hsz Hr]. apply andb_true_iff in Hi. destruct Hi as [Hisz Hi].
      cbn [inst]. rewrite (in_size_sub _ _ _ _ _ Hsz Hisz). cbn [andb].
      destruct (hi0 <=? 0) eqn:Eh.
      { rewrite (zlen_nil_of_size _ _ _ Hisz Eh). reflexivity. }
      cbn [orb] in Hr. cbn [K] in Ka, Kb.
      apply orb_true_iff in Kb. destruct Kb as [Kb|Kb].
      { apply andb_true_iff in Kb. destruct Kb as [_ Kb]. apply Z.eqb_eq in Kb. apply Z.leb_gt in Eh. lia. }
      apply orb_true_iff in Ka. destruct Ka as [Ka|Ka].
      { apply andb_true_iff in Ka. destruct Ka as [Ka Kh]. apply Z.eqb_eq in Kh. subst hi.
        unfold size_sub in Hsz. apply andb_true_iff in Hsz. destruct Hsz as [_ Hsz].
        rewrite (zlen_nil_of_size _ _ _ Hisz Hsz). reflexivity. }
      apply andb_true_iff in Ka, Kb, Hr. destruct Ka as [Ka1 Ka2]. destruct Kb as [Kb1 Kb2]. destruct Hr as [Hr1 Hr2].
      apply forallb_forall. intros e He. rewrite forallb_forall in Hi. specialize (Hi e He).
      apply andb_true_iff in Hi. destruct Hi as [Hi1 Hi2].
      rewrite (IHa1 Ka1 b1 Kb1 Hr1 _ Hi1), (IHa2 Ka2 b2 Kb2 Hr2 _ Hi2). reflexivity.
    - (* Sensitive *) apply SK_atomic. intros b Kb Hr x Hi.
      destruct b; try discriminate Kb; cbn [recv] in Hr; try discriminate Hr. destruct x; cbn [inst] in Hi |- *; try discriminate Hi.
      apply (IHa Ka b Kb Hr). exact Hi.
    - (* Other *) apply SK_atomic. intros b Kb Hr. discriminate Hr.
  Qed.

  (* ---- K is closed under commonType, and commonType is a semantic upper bound on K ---- *)
  Lemma common_any_l n b : C (S n) TAny b = TAny.
  Proof. cbn [common_f is_unit]. destruct (is_unit b); [reflexivity|]. rewrite asg_any_l. reflexivity. Qed.

  Lemma common_unit_r n a : is_unit a = false -> C (S n) a TUnit = a.
  Proof. intros H. cbn [common_f is_unit]. rewrite H. reflexivity. Qed.

  Lemma common_unit_l n b : C (S n) TUnit b = b.
  Proof. reflexivity. Qed.

  Lemma K_ladder a b : K (ladder rx a b) = true.
  Proof.
    unfold ladder. destruct (A TNumeric a && A TNumeric b); [reflexivity|].
    destruct (A TScalarData a && A TScalarData b); [reflexivity|].
    destruct (A TScalar a && A TScalar b); [reflexivity|].
    destruct (data_asg rx a && data_asg rx b); [reflexivity|].
    destruct (rich_asg rx a && rich_asg rx b); reflexivity.
  Qed.

  Lemma K_string_merge a b c : K a = true -> K b = true -> string_merge a b = Some c -> K c = true.
  Proof.
    intros Ka Kb Hm. destruct a; try discriminate Hm; try discriminate Ka; destruct b; try discriminate Hm; try discriminate Kb;
      cbn [string_merge] in Hm; injection Hm as <-; try reflexivity; cbn [K] in *.
    - apply negb_true_iff in Kb. subst. reflexivity.
    - apply negb_true_iff in Ka. subst. reflexivity.
    - apply negb_true_iff in Ka, Kb. subst. reflexivity.
  Qed.

  Theorem common_K : forall n a b, K a = true -> K b = true -> K (C n a b) = true.
  Proof.
    induction n as [|n IH]; intros a b Ka Kb; [reflexivity|]. cbn [common_f].
    rewrite (K_not_unit a Ka), (K_not_unit b Kb).
    destruct (A a b); [assumption|]. destruct (A b a); [assumption|].
    destruct (string_merge a b) as [c|] eqn:Es; [exact (K_string_merge a b c Ka Kb Es)|].
    destruct a; try discriminate Ka; try apply K_ladder; destruct b; try discriminate Kb; try apply K_ladder;
      cbn [merge_same common_range fst snd]; try reflexivity.
    (* Array + Array *)
    cbn [K] in Ka, Kb |- *. apply orb_true_iff in Ka, Kb.
    destruct Ka as [Ka|Ka]; destruct Kb as [Kb|Kb].
    - (* both empty array types *)
      apply andb_true_iff in Ka, Kb. destruct Ka as [Ka Ha]. destruct Kb as [Kb Hb].
      apply andb_true_iff in Ka, Kb. destruct Ka as [Ua La]. destruct Kb as [Ub Lb].
      apply Z.eqb_eq in Ha, Hb, La, Lb. subst. destruct a; try discriminate Ua. destruct b; try discriminate Ub.
      destruct n; reflexivity.
    - apply andb_true_iff in Ka. destruct Ka as [Ka _]. apply andb_true_iff in Ka. destruct Ka as [Ua _].
      destruct a; try discriminate Ua. destruct n; [reflexivity|]. rewrite common_unit_l, Kb. apply orb_true_r.
    - apply andb_true_iff in Kb. destruct Kb as [Kb _]. apply andb_true_iff in Kb. destruct Kb as [Ub _].
      destruct b; try discriminate Ub. destruct n; [reflexivity|]. rewrite (common_unit_r n a (K_not_unit a Ka)), Ka. apply orb_true_r.
    - rewrite (IH a b Ka Kb). apply orb_true_r.
  Qed.

  Lemma enum_false_inst U z : In z U -> enum_inst false U z = true.
  Proof. intros H. unfold enum_inst. destruct U eqn:E; [reflexivity|]. rewrite <- E. apply mem_str_In. rewrite E. exact H. Qed.

  Lemma enum_false_inst_in vs z : vs <> [] -> enum_inst false vs z = true -> In z vs.
  Proof. intros Hne H. destruct vs; [congruence|]. cbn [enum_inst] in H. apply mem_str_In in H. exact H. Qed.

  Lemma string_merge_sem a b c x :
    K a = true -> K b = true -> string_merge a b = Some c -> A a b = false -> A b a = false ->
    I a x = true \/ I b x = true -> I c x = true.
  Proof.
    intros Ka Kb Hm Hab Hba Hi.
    destruct a; try discriminate Hm; try discriminate Ka; destruct b; try discriminate Hm; try discriminate Kb;
      cbn [string_merge] in Hm; injection Hm as <-; cbn [K] in Ka, Kb;
      try (apply negb_true_iff in Ka; subst ci); try (apply negb_true_iff in Kb); subst;
      destruct x; cbn [inst] in Hi |- *; try (destruct Hi as [Hi|Hi]; discriminate Hi); try reflexivity.
    - (* StringVal + StringVal *) cbn [mem_str existsb enum_inst]. destruct Hi as [Hi|Hi]; apply str_eqb_eq in Hi; subst.
      + rewrite str_eqb_refl. reflexivity.
      + rewrite str_eqb_refl. apply orb_true_r.
    - (* StringVal + Enum *)
      assert (Hne : vs <> []) by (intros ->; rewrite enum_nil_accepts in Hba by reflexivity; discriminate).
      unfold mk_enum. apply enum_false_inst. apply sdedup_in. apply in_or_app. destruct Hi as [Hi|Hi].
      + apply str_eqb_eq in Hi. subst. right. left. reflexivity.
      + left. apply enum_false_inst_in; assumption.
    - (* Enum + StringVal *)
      assert (Hne : vs <> []) by (intros ->; rewrite enum_nil_accepts in Hab by reflexivity; discriminate).
      unfold mk_enum. apply enum_false_inst. apply sdedup_in. apply in_or_app. destruct Hi as [Hi|Hi].
      + left. apply enum_false_inst_in; assumption.
      + apply str_eqb_eq in Hi. subst. right. left. reflexivity.
    - (* Enum + Enum *)
      assert (Hne : vs <> []) by (intros ->; rewrite enum_nil_accepts in Hab by reflexivity; discriminate).
      assert (Hne' : vs0 <> []) by (intros ->; rewrite enum_nil_accepts in Hba by reflexivity; discriminate).
      unfold mk_enum. cbn [orb]. apply enum_false_inst. apply sdedup_in. apply in_or_app. destruct Hi as [Hi|Hi].
      + left. apply enum_false_inst_in; assumption.
      + right. apply enum_false_inst_in; assumption.
  Qed.

  Lemma in_size_minmax_l lo hi lo' hi' z : in_size lo hi z = true -> in_size (Z.min lo lo') (Z.max hi hi') z = true.
  Proof. unfold in_size. intros H. apply andb_true_iff in H. destruct H as [H1 H2]. apply Z.leb_le in H1, H2.
         apply andb_true_iff. split; apply Z.leb_le; lia. Qed.
  Lemma in_size_minmax_r lo hi lo' hi' z : in_size lo' hi' z = true -> in_size (Z.min lo lo') (Z.max hi hi') z = true.
  Proof. unfold in_size. intros H. apply andb_true_iff in H. destruct H as [H1 H2]. apply Z.leb_le in H1, H2.
         apply andb_true_iff. split; apply Z.leb_le; lia. Qed.

  Lemma ladder_sem a b x : K a = true -> K b = true -> no_other (ladder rx a b) = true ->
    I a x = true \/ I b x = true -> I (ladder rx a b) x = true.
  Proof.
    intros Ka Kb Hn Hi. unfold ladder in *.
    destruct (A TNumeric a && A TNumeric b) eqn:E1.
    { apply andb_true_iff in E1. destruct E1 as [Ea Eb]. destruct Hi as [Hi|Hi];
        [apply (sound_K TNumeric eq_refl a Ka Ea x Hi)|apply (sound_K TNumeric eq_refl b Kb Eb x Hi)]. }
    destruct (A TScalarData a && A TScalarData b) eqn:E2.
    { apply andb_true_iff in E2. destruct E2 as [Ea Eb]. destruct Hi as [Hi|Hi];
        [apply (sound_K TScalarData eq_refl a Ka Ea x Hi)|apply (sound_K TScalarData eq_refl b Kb Eb x Hi)]. }
    destruct (A TScalar a && A TScalar b) eqn:E3.
    { apply andb_true_iff in E3. destruct E3 as [Ea Eb]. destruct Hi as [Hi|Hi];
        [apply (sound_K TScalar eq_refl a Ka Ea x Hi)|apply (sound_K TScalar eq_refl b Kb Eb x Hi)]. }
    destruct (data_asg rx a && data_asg rx b); [discriminate Hn|].
    destruct (rich_asg rx a && rich_asg rx b); [discriminate Hn|]. reflexivity.
  Qed.

  (* every instance of an operand is an instance of the common type *)
  Theorem common_sem : forall n a b x, K a = true -> K b = true -> no_other (C n a b) = true ->
    I a x = true \/ I b x = true -> I (C n a b) x = true.
  Proof.
    induction n as [|n IH]; intros a b x Ka Kb Hn Hi; [discriminate Hn|]. cbn [common_f] in *.
    rewrite (K_not_unit a Ka), (K_not_unit b Kb) in *.
    destruct (A a b) eqn:Hab.
    { destruct Hi as [Hi|Hi]; [exact Hi|apply (sound_K a Ka b Kb Hab x Hi)]. }
    destruct (A b a) eqn:Hba.
    { destruct Hi as [Hi|Hi]; [apply (sound_K b Kb a Ka Hba x Hi)|exact Hi]. }
    destruct (string_merge a b) as [c|] eqn:Es; [exact (string_merge_sem a b c x Ka Kb Es Hab Hba Hi)|].
    destruct a; try discriminate Ka; try (apply ladder_sem; assumption);
      destruct b; try discriminate Kb; try (apply ladder_sem; assumption);
      cbn [merge_same common_range fst snd] in *.
    - (* Integer *) destruct x; cbn [inst] in Hi |- *; try (destruct Hi as [Hi|Hi]; discriminate Hi).
      destruct Hi as [Hi|Hi]; [apply in_size_minmax_l|apply in_size_minmax_r]; exact Hi.
    - (* Float *) destruct x; cbn [inst] in Hi |- *; try (destruct Hi as [Hi|Hi]; discriminate Hi);
        unfold in_size, float_unbounded in *; lia.
    - (* Array *) destruct x; cbn [inst] in Hi; try (destruct Hi as [Hi|Hi]; discriminate Hi).
      cbn [no_other] in Hn. cbn [K] in Ka, Kb. cbn [inst].
      destruct Hi as [Hi|Hi]; apply andb_true_iff in Hi; destruct Hi as [Hsz Hi].
      + rewrite (in_size_minmax_l _ _ lo0 hi0 _ Hsz). cbn [andb].
        apply orb_true_iff in Ka. destruct Ka as [Ka|Ka].
        { apply andb_true_iff in Ka. destruct Ka as [_ Kh]. apply Z.eqb_eq in Kh. subst hi.
          rewrite (zlen_nil_of_size _ _ _ Hsz eq_refl). apply orb_true_r. }
        apply orb_true_iff in Hi. destruct Hi as [Hi|Hi].
        { apply is_any_eq in Hi. subst a. destruct n; [discriminate Hn|]. rewrite common_any_l. reflexivity. }
        apply orb_true_iff. right. apply forallb_forall. intros y Hy. rewrite forallb_forall in Hi. specialize (Hi y Hy).
        apply orb_true_iff in Kb. destruct Kb as [Kb|Kb].
        * apply andb_true_iff in Kb. destruct Kb as [Kb _]. apply andb_true_iff in Kb. destruct Kb as [Ub _].
          destruct b; try discriminate Ub. destruct n; [discriminate Hn|]. rewrite (common_unit_r n a (K_not_unit a Ka)). exact Hi.
        * apply IH; auto.
      + rewrite (in_size_minmax_r lo hi _ _ _ Hsz). cbn [andb].
        apply orb_true_iff in Kb. destruct Kb as [Kb|Kb].
        { apply andb_true_iff in Kb. destruct Kb as [_ Kh]. apply Z.eqb_eq in Kh. subst hi0.
          rewrite (zlen_nil_of_size _ _ _ Hsz eq_refl). apply orb_true_r. }
        apply orb_true_iff in Hi. destruct Hi as [Hi|Hi].
        { apply is_any_eq in Hi. subst b. destruct n; [discriminate Hn|].
          apply orb_true_iff in Ka. destruct Ka as [Ka|Ka].
          - apply andb_true_iff in Ka. destruct Ka as [Ka _]. apply andb_true_iff in Ka. destruct Ka as [Ua _].
            destruct a; try discriminate Ua. rewrite common_unit_l. reflexivity.
          - cbn [common_f]. rewrite (K_not_unit a Ka). cbn [is_unit].
            destruct (A a TAny) eqn:E1.
            + (* a accepts Any: in K only Any does *)
              apply orb_true_iff. right. apply forallb_forall. intros y Hy.
              apply (sound_K a Ka TAny eq_refl E1 y). reflexivity.
            + rewrite asg_any_l. reflexivity. }
        apply orb_true_iff. right. apply forallb_forall. intros y Hy. rewrite forallb_forall in Hi. specialize (Hi y Hy).
        apply orb_true_iff in Ka. destruct Ka as [Ka|Ka].
        * apply andb_true_iff in Ka. destruct Ka as [Ka _]. apply andb_true_iff in Ka. destruct Ka as [Ua _].
          destruct a; try discriminate Ua. destruct n; [discriminate Hn|]. rewrite common_unit_l. exact Hi.
        * apply IH; auto.
  Qed.

  (* ---- folds ---- *)
  Fixpoint fold_ok (acc : ty) (ts : list ty) : bool :=
    no_other acc && match ts with [] => true | t :: r => fold_ok (common rx acc t) r end.

  Lemma fold_sem : forall ts acc, K acc = true -> forallb K ts = true -> fold_ok acc ts = true ->
    K (fold_left (common rx) ts acc) = true /\
    (forall z, I acc z = true -> I (fold_left (common rx) ts acc) z = true) /\
    (forall t z, In t ts -> I t z = true -> I (fold_left (common rx) ts acc) z = true).
  Proof.
    induction ts as [|t r IH]; intros acc Ka Kts Hok.
    - cbn. split; [assumption|]. split; [auto|]. intros t z [].
    - cbn [forallb] in Kts. apply andb_true_iff in Kts. destruct Kts as [Kt Kr].
      cbn [fold_ok] in Hok. apply andb_true_iff in Hok. destruct Hok as [_ Hok].
      assert (Hn : no_other (common rx acc t) = true).
      { destruct r; cbn [fold_ok] in Hok; apply andb_true_iff in Hok; tauto. }
      assert (Kc : K (common rx acc t) = true) by (apply common_K; assumption).
      destruct (IH (common rx acc t) Kc Kr Hok) as (HK & Hacc & Hts). cbn [fold_left]. repeat split; [exact HK| |].
      + intros z Hz. apply Hacc. apply common_sem; auto.
      + intros u z [<-|Hu] Hz; [apply Hacc; apply common_sem; auto|eauto].
  Qed.

  (* the values the theorem ranges over: first order (no type used as a value: instances of Type[T] need
     transitivity of assignability, C03), and no alias Data / RichData at any step of the
     inference (the aliases are no constructors of `ty`: missing constructor TAlias) *)
  Fixpoint iv_ok (v : value) : bool :=
    match v with
    | VOther _ | VType _ => false
    | VArr vs =>
        forallb iv_ok vs &&
        match vs with [] => true | x :: r => fold_ok (infer rx x) (map (infer rx) r) end
    | VHash es =>
        forallb (fun e => iv_ok (fst e) && iv_ok (snd e)) es &&
        match es with
        | [] => true
        | (k, x) :: r => fold_ok (infer rx k) (map (fun e => infer rx (fst e)) r) &&
                         fold_ok (infer rx x) (map (fun e => infer rx (snd e)) r)
        end
    | VSensitive x => iv_ok x
    | _ => true
    end.

  Lemma fold_left_map {X} (f : X -> ty) (g : ty -> ty -> ty) l acc :
    fold_left (fun a y => g a (f y)) l acc = fold_left g (map f l) acc.
  Proof. revert acc. induction l as [|y l IH]; intros acc; [reflexivity|]. cbn. apply IH. Qed.

  Lemma infer_arr_cons x r :
    infer rx (VArr (x :: r)) = TArray (fold_left (common rx) (map (infer rx) r) (infer rx x)) (zlen (x :: r)) (zlen (x :: r)).
  Proof. cbn [infer]. rewrite (fold_left_map (infer rx) (common rx)). reflexivity. Qed.

  Lemma infer_hash_cons k x r :
    infer rx (VHash ((k, x) :: r)) =
    THash (fold_left (common rx) (map (fun e => infer rx (fst e)) r) (infer rx k))
          (fold_left (common rx) (map (fun e => infer rx (snd e)) r) (infer rx x))
          (zlen ((k, x) :: r)) (zlen ((k, x) :: r)).
  Proof.
    cbn [infer].
    rewrite (fold_left_map (fun e : value * value => match e with (k', _) => infer rx k' end) (common rx)).
    rewrite (fold_left_map (fun e : value * value => match e with (_, x') => infer rx x' end) (common rx)).
    f_equal; f_equal; apply map_ext; intros [? ?]; reflexivity.
  Qed.

  Lemma in_size_refl' n : in_size n n n = true.
  Proof. unfold in_size. now rewrite Z.leb_refl. Qed.

  Theorem infer_inst : forall v, iv_ok v = true -> K (infer rx v) = true /\ I (infer rx v) v = true.
  Proof.
    induction v using value_ind'; intros Hok; cbn [iv_ok] in Hok; try discriminate Hok; try (split; reflexivity).
    - (* Bool *) split; [reflexivity|]. cbn. apply eqb_reflx.
    - (* Int *) split; [reflexivity|]. cbn. apply in_size_refl'.
    - (* Float *) split; [reflexivity|]. cbn. rewrite in_size_refl'. reflexivity.
    - (* Str *) split; [reflexivity|]. cbn. apply str_eqb_refl.
    - (* Regexp *) split; [reflexivity|]. cbn. rewrite str_eqb_refl. apply orb_true_r.
    - (* Arr *) destruct vs as [|x r]; [split; reflexivity|].
      apply andb_true_iff in Hok. destruct Hok as [Hall Hfold]. rewrite forallb_forall in Hall. rewrite Forall_forall in H.
      assert (HKI : forall y, In y (x :: r) -> K (infer rx y) = true /\ I (infer rx y) y = true) by (intros y Hy; apply (H y Hy); auto).
      assert (Kts : forallb K (map (infer rx) r) = true).
      { apply forallb_forall. intros t Ht. apply in_map_iff in Ht. destruct Ht as (y & <- & Hy). apply HKI. right. assumption. }
      destruct (fold_sem (map (infer rx) r) (infer rx x) (proj1 (HKI x (or_introl eq_refl))) Kts Hfold) as (HK & Hacc & Hts).
      rewrite infer_arr_cons. split.
      + cbn [K]. rewrite HK. apply orb_true_r.
      + cbn [inst]. rewrite in_size_refl'. cbn [andb]. apply orb_true_iff. right. apply forallb_forall. intros y [<-|Hy].
        * apply Hacc. apply HKI. left. reflexivity.
        * apply (Hts (infer rx y)); [apply in_map; assumption|]. apply HKI. right. assumption.
    - (* Hash *) destruct es as [|[k x] r]; [split; reflexivity|].
      apply andb_true_iff in Hok. destruct Hok as [Hall Hfold]. apply andb_true_iff in Hfold. destruct Hfold as [Hfk Hfx].
      rewrite forallb_forall in Hall. rewrite Forall_forall in H.
      assert (HKI : forall e, In e ((k, x) :: r) ->
                (K (infer rx (fst e)) = true /\ I (infer rx (fst e)) (fst e) = true) /\
                (K (infer rx (snd e)) = true /\ I (infer rx (snd e)) (snd e) = true)).
      { intros e He. destruct (H e He) as [H1 H2]. specialize (Hall e He). apply andb_true_iff in Hall. destruct Hall. split; auto. }
      assert (Kks : forallb K (map (fun e => infer rx (fst e)) r) = true).
      { apply forallb_forall. intros t Ht. apply in_map_iff in Ht. destruct Ht as (e & <- & He). apply HKI. right. assumption. }
      assert (Kxs : forallb K (map (fun e => infer rx (snd e)) r) = true).
      { apply forallb_forall. intros t Ht. apply in_map_iff in Ht. destruct Ht as (e & <- & He). apply HKI. right. assumption. }
      pose proof (HKI (k, x) (or_introl eq_refl)) as H0. cbn [fst snd] in H0. destruct H0 as [[Kk Ik] [Kx Ix]].
      destruct (fold_sem _ _ Kk Kks Hfk) as (HK1 & Hacc1 & Hts1).
      destruct (fold_sem _ _ Kx Kxs Hfx) as (HK2 & Hacc2 & Hts2).
      rewrite infer_hash_cons. split.
      + cbn [K]. rewrite HK1, HK2. apply orb_true_r.
      + cbn [inst]. rewrite in_size_refl'. cbn [andb]. apply forallb_forall. intros e [<-|He]; cbn [fst snd].
        * rewrite (Hacc1 _ Ik), (Hacc2 _ Ix). reflexivity.
        * destruct (HKI e (or_intror He)) as [[_ Ike] [_ Ixe]].
          rewrite (Hts1 (infer rx (fst e)) (fst e)), (Hts2 (infer rx (snd e)) (snd e)); auto.
          -- apply (in_map (fun e0 => infer rx (snd e0))). assumption.
          -- apply (in_map (fun e0 => infer rx (fst e0))). assumption.
    - (* Sensitive *) destruct (IHv Hok) as [HK HI]. split; [exact HK|exact HI].
  Qed.
End InferInst.
