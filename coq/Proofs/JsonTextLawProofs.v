(* JsonTextLawProofs.v - the law `float_law` of Model/JsonText.v is satisfiable by a pair of total functions, for
   EVERY bit pattern: the hypothesis class of the C11_text_* theorems is inhabited (consistency of the law - that
   strconv satisfies it is what the correspondence run observes, float by float). *)
From Coq Require Import ZArith NArith Bool List Lia Decimal.
From PcoreV Require Import Model.Base Model.Json Model.JsonStr Model.JsonText Proofs.JsonTextProofs.
Import ListNotations.
Local Open Scope N_scope.

(* a toy float printer/parser: the bits in decimal followed by e0 / the integer in front of the last two bytes *)
Definition toy_text (b : Z) : list N := int_text b ++ [101; 48].
Definition toy_parse (t : list N) : Z :=
  match int_of_text (firstn (length t - 2) t) with Some z => z | None => 0%Z end.

Lemma drop_digits_app ds r : forallb is_digit ds = true -> drop_digits (ds ++ 101 :: r) = 101 :: r.
Proof.
  induction ds as [|c ds IH]; intros H; [reflexivity|].
  cbn [forallb] in H. apply andb_prop in H as [Hc Hd].
  cbn [Datatypes.app drop_digits]. rewrite Hc. exact (IH Hd).
Qed.

Lemma num_int_e0 u : head_ok u -> num_int (uint_bytes u ++ [101; 48]) = true.
Proof.
  destruct u as [|u|u|u|u|u|u|u|u|u|u]; cbn [head_ok]; intros H; try contradiction;
    try (cbn [uint_bytes Datatypes.app]; unfold num_int;
         cbn [N.eqb Pos.eqb in_rng N.leb N.compare Pos.compare Pos.compare_cont andb];
         rewrite (drop_digits_app _ _ (uint_bytes_digits u)); reflexivity).
  destruct u; try contradiction. reflexivity.
Qed.

Lemma toy_num_ok b : num_ok (toy_text b) = true.
Proof.
  unfold toy_text. destruct (int_text_cases b) as [(u & Hh & -> & _)|(u & Hh & -> & _)].
  - destruct (head_ok_nonnil u Hh) as (c & r & Hu & Hc).
    pose proof (num_int_e0 u Hh) as H. rewrite Hu in *. cbn [Datatypes.app] in *.
    unfold num_ok. rewrite (is_digit_not_minus c Hc). exact H.
  - cbn [Datatypes.app]. unfold num_ok. cbn [N.eqb Pos.eqb]. apply num_int_e0, Hh.
Qed.

Lemma firstn_drop2 (a : list N) x y : firstn (length (a ++ [x; y]) - 2) (a ++ [x; y]) = a.
Proof.
  rewrite app_length. cbn [length].
  replace (length a + 2 - 2)%nat with (length a + 0)%nat by lia.
  rewrite firstn_app_2. cbn [firstn]. apply app_nil_r.
Qed.

Lemma toy_parse_text b : toy_parse (toy_text b) = b.
Proof. unfold toy_parse, toy_text. rewrite firstn_drop2, int_of_text_int_text. reflexivity. Qed.

Lemma toy_has_frac b : has_frac (toy_text b) = true.
Proof. unfold toy_text, has_frac. rewrite existsb_app. apply orb_true_r. Qed.

Theorem float_law_satisfiable : exists ft pf, forall b, float_law ft pf b = true.
Proof.
  exists toy_text, toy_parse. intros b. unfold float_law, fix_float. rewrite toy_has_frac.
  rewrite toy_num_ok, toy_parse_text, Z.eqb_refl. apply orb_true_r.
Qed.

(* with the law assumed of every float: the events round trip over bytes, for every well-formed tree *)
Theorem text_events_roundtrip_all ft pf : (forall b, float_law ft pf b = true) ->
  forall e, json_wf e = true -> exists bs, btext ft e = Ok bs /\ read_text pf bs = Ok [json_image e].
Proof. intros Hall e Hwf. apply text_events_roundtrip; [exact Hwf|apply floats_lawful_all, Hall]. Qed.
