(* CollHeapProofs.v — property C08 for the slice-level model of Model/CollHeap.v:
   no operation writes into an existing backing array (`hstep_prefix`), every value stays closed (`hstep_wf`),
   hence the deep observation of every value obtained earlier is unchanged by any further history (`frame`). *)
From Coq Require Import ZArith NArith Bool List Lia.
From PcoreV Require Import Model.Base Model.Heap Model.Coll Model.CollHeap Proofs.HeapProofs Proofs.CollInd.
Import ListNotations.
Local Open Scope nat_scope.

(* ---------------------------------------------------------------------------------------------- *)
(* plans: induction principle, execution of a list of plans *)

Section PlanInd.
  Variable Q : plan -> Prop.
  Hypothesis HS : forall v, Q (Share v).
  Hypothesis HE : forall k v, Q k -> Q v -> Q (MkEntry k v).
  Hypothesis HN : forall b hw items, Forall Q items -> Q (New b hw items).
  Hypothesis HA : forall s items, Forall Q items -> Q (AppendTo s items).
  Fixpoint plan_ind' (p : plan) : Q p :=
    match p with
    | Share v => HS v
    | MkEntry k v => HE k v (plan_ind' k) (plan_ind' v)
    | New b hw items =>
        HN b hw items ((fix go (l : list plan) : Forall Q l :=
                          match l with [] => Forall_nil Q | x :: t => Forall_cons x (plan_ind' x) (go t) end) items)
    | AppendTo s items =>
        HA s items ((fix go (l : list plan) : Forall Q l :=
                       match l with [] => Forall_nil Q | x :: t => Forall_cons x (plan_ind' x) (go t) end) items)
    end.
End PlanInd.

Lemma exec_list_cons g h p t :
  exec_list g h (p :: t) = let '(h1, v) := exec g h p in let '(h2, vs) := exec_list g h1 t in (h2, v :: vs).
Proof. reflexivity. Qed.

Lemma exec_New g h b hw items :
  exec g h (New b hw items) =
  let '(h1, vs) := exec_list g h items in
  let '(h2, s) := build g h1 hw vs in (h2, if b then HHash s else HArr s).
Proof. reflexivity. Qed.

Lemma exec_AppendTo g h s items :
  exec g h (AppendTo s items) =
  let '(h1, vs) := exec_list g h items in
  let '(h2, s') := happend g h1 s vs in (h2, HArr s').
Proof. reflexivity. Qed.

Lemma exec_MkEntry g h k v :
  exec g h (MkEntry k v) =
  let '(h1, kv) := exec g h k in let '(h2, vv) := exec g h1 v in (h2, HEntry kv vv).
Proof. reflexivity. Qed.

(* a plan is in order when every append to an existing slice is an append to a slice without spare capacity *)
Fixpoint plan_okb (p : plan) : bool :=
  match p with
  | Share _ => true
  | MkEntry k v => plan_okb k && plan_okb v
  | New _ _ items => forallb plan_okb items
  | AppendTo s items => Nat.eqb (s_len s) (s_cap s) && forallb plan_okb items
  end.

(* ---------------------------------------------------------------------------------------------- *)
(* no plan in order writes into an existing backing array *)

Lemma append_each_prefix g (h : hstore) : forall vs h' s,
  prefix h h' -> length h <= s_addr s ->
  prefix h (fst (append_each g h' s vs)) /\ length h <= s_addr (snd (append_each g h' s vs)).
Proof.
  unfold append_each.
  induction vs as [|x vs IH]; intros h' s Hp Hs; cbn [fold_left fst snd]; [now split|].
  destruct (happend_prefix_fresh g h h' s [x] Hp Hs) as [Hp' Hs'].
  destruct (happend g h' s [x]) as [h1 s1] eqn:E. cbn [fst snd] in *. now apply IH.
Qed.

Lemma build_prefix g (h : hstore) hw vs : prefix h (fst (build g h hw vs)).
Proof.
  destruct hw as [|c|c]; cbn [build]; try apply halloc_prefix.
  unfold halloc; cbn [length Nat.max].
  apply append_each_prefix; cbn; [apply prefix_app|lia].
Qed.

Lemma exec_prefix g : forall p h, plan_okb p = true -> prefix h (fst (exec g h p)).
Proof.
  induction p as [v|k v IHk IHv|b hw items IH|s items IH] using plan_ind'; intros h Hok.
  - apply prefix_refl.
  - rewrite exec_MkEntry. cbn [plan_okb] in Hok. apply andb_true_iff in Hok as [Hk Hv].
    specialize (IHk h Hk). destruct (exec g h k) as [h1 kv]. cbn [fst] in IHk.
    specialize (IHv h1 Hv). destruct (exec g h1 v) as [h2 vv]. cbn [fst] in *.
    eapply prefix_trans; eassumption.
  - rewrite exec_New. cbn [plan_okb] in Hok.
    assert (Hl : prefix h (fst (exec_list g h items))).
    { clear hw b. revert h Hok. induction IH as [|p items Hp _ IHl]; intros h Hok; [apply prefix_refl|].
      cbn [forallb] in Hok. apply andb_true_iff in Hok as [Hp1 Hrest]. rewrite exec_list_cons.
      specialize (Hp h Hp1). destruct (exec g h p) as [h1 v]. cbn [fst] in Hp.
      specialize (IHl h1 Hrest). destruct (exec_list g h1 items) as [h2 vs]. cbn [fst] in *.
      eapply prefix_trans; eassumption. }
    destruct (exec_list g h items) as [h1 vs]. cbn [fst] in Hl.
    pose proof (build_prefix g h1 hw vs) as Hb. destruct (build g h1 hw vs) as [h2 s2]. cbn [fst] in *.
    eapply prefix_trans; eassumption.
  - rewrite exec_AppendTo. cbn [plan_okb] in Hok. apply andb_true_iff in Hok as [Hc Hok].
    apply Nat.eqb_eq in Hc.
    assert (Hl : prefix h (fst (exec_list g h items))).
    { clear Hc. revert h Hok. induction IH as [|p items Hp _ IHl]; intros h Hok; [apply prefix_refl|].
      cbn [forallb] in Hok. apply andb_true_iff in Hok as [Hp1 Hrest]. rewrite exec_list_cons.
      specialize (Hp h Hp1). destruct (exec g h p) as [h1 v]. cbn [fst] in Hp.
      specialize (IHl h1 Hrest). destruct (exec_list g h1 items) as [h2 vs]. cbn [fst] in *.
      eapply prefix_trans; eassumption. }
    destruct (exec_list g h items) as [h1 vs]. cbn [fst] in Hl.
    pose proof (happend_prefix_capped g h1 s vs Hc) as Hb. destruct (happend g h1 s vs) as [h2 s2]. cbn [fst] in *.
    eapply prefix_trans; eassumption.
Qed.

(* ---------------------------------------------------------------------------------------------- *)
(* closed values: every slice inside a value (and inside every cell of the store) points into the store *)

Fixpoint val_closed (n : nat) (v : hval) : Prop :=
  match v with
  | HArr s | HHash s => s_addr s < n
  | HEntry k x => val_closed n k /\ val_closed n x
  | _ => True
  end.

Definition store_closed (h : hstore) : Prop :=
  forall a c, In c (arr_at h a) -> val_closed (length h) (cv c).

Fixpoint plan_closed (n : nat) (p : plan) : Prop :=
  match p with
  | Share v => val_closed n v
  | MkEntry k v => plan_closed n k /\ plan_closed n v
  | New _ _ items => (fix all (l : list plan) : Prop :=
                        match l with [] => True | x :: t => plan_closed n x /\ all t end) items
  | AppendTo s items => s_addr s < n /\
                        (fix all (l : list plan) : Prop :=
                           match l with [] => True | x :: t => plan_closed n x /\ all t end) items
  end.

Lemma plan_closed_all n items :
  (fix all (l : list plan) : Prop := match l with [] => True | x :: t => plan_closed n x /\ all t end) items
  <-> Forall (plan_closed n) items.
Proof.
  induction items as [|x t IH]; [split; auto|].
  split; [intros [Hx Ht]; constructor; tauto|intros H; inversion H; subst; tauto].
Qed.

Lemma plan_closed_New n b hw items : plan_closed n (New b hw items) <-> Forall (plan_closed n) items.
Proof. apply plan_closed_all. Qed.

Lemma plan_closed_AppendTo n s items :
  plan_closed n (AppendTo s items) <-> s_addr s < n /\ Forall (plan_closed n) items.
Proof. cbn [plan_closed]. now rewrite plan_closed_all. Qed.

Lemma val_closed_mono n m v : n <= m -> val_closed n v -> val_closed m v.
Proof. intros Hnm. induction v; cbn; intros; try tauto; lia. Qed.

Lemma plan_closed_mono n m : n <= m -> forall p, plan_closed n p -> plan_closed m p.
Proof.
  intros Hnm. induction p as [v|k v IHk IHv|b hw items IH|s items IH] using plan_ind'.
  - apply val_closed_mono; assumption.
  - cbn. tauto.
  - rewrite !plan_closed_New. intros H. rewrite Forall_forall in *. auto.
  - rewrite !plan_closed_AppendTo. intros [Hs H]. split; [lia|]. rewrite Forall_forall in *. auto.
Qed.

Lemma store_closed_nil : store_closed [].
Proof. intros a c H. unfold arr_at in H. destruct a; contradiction. Qed.

Lemma store_closed_els h s : store_closed h -> Forall (val_closed (length h)) (els h s).
Proof.
  intros Hc. unfold els. rewrite Forall_forall. intros v Hv.
  apply in_map_iff in Hv. destruct Hv as [c [<- Hin]]. apply (Hc (s_addr s)). now apply hread_In.
Qed.

(* the observation of a closed value only reads the part of the store it was built in *)
Lemma observe_local h0 h : store_closed h0 -> prefix h0 h ->
  forall fuel v, val_closed (length h0) v -> observe fuel h v = observe fuel h0 v.
Proof.
  intros Hc Hp. induction fuel as [|f IH]; intros v Hv; [reflexivity|].
  destruct v as [| | | |s|s|k x|]; cbn [observe]; try reflexivity.
  - cbn in Hv. rewrite (prefix_hread h0 h s Hp Hv). f_equal.
    apply map_ext_in. intros c Hin. apply IH. apply (Hc (s_addr s)). now apply hread_In.
  - cbn in Hv. rewrite (prefix_hread h0 h s Hp Hv). f_equal.
    apply map_ext_in. intros c Hin.
    pose proof (Hc (s_addr s) c (hread_In _ _ _ Hin)) as Hcl.
    destruct (cv c); try reflexivity. cbn in Hcl. destruct Hcl. now rewrite !IH.
  - cbn in Hv. destruct Hv. now rewrite !IH.
Qed.

(* ---------------------------------------------------------------------------------------------- *)
(* execution keeps the store closed and returns a closed value *)

Lemma halloc_closed (h : hstore) xs c :
  store_closed h -> Forall (val_closed (length h)) xs ->
  store_closed (fst (halloc h xs c)).
Proof.
  intros Hc Hxs a cl Hin. rewrite halloc_length.
  apply halloc_cells in Hin. destruct Hin as [H|[[x [Hx ->]] | -> ]].
  - eapply val_closed_mono; [|apply (Hc a); exact H]. lia.
  - cbn [cv]. rewrite Forall_forall in Hxs. eapply val_closed_mono; [|apply Hxs; exact Hx]. lia.
  - exact I.
Qed.

Lemma happend_closed g (h : hstore) s xs :
  store_closed h -> Forall (val_closed (length h)) xs ->
  store_closed (fst (happend g h s xs)).
Proof.
  intros Hc Hxs a cl Hin. pose proof (happend_length_ge g h s xs) as Hl.
  apply happend_cells in Hin. destruct Hin as [[a' H]|[[x [Hx ->]] | -> ]].
  - eapply val_closed_mono; [|apply (Hc a'); exact H]. lia.
  - cbn [cv]. rewrite Forall_forall in Hxs. eapply val_closed_mono; [|apply Hxs; exact Hx]. lia.
  - exact I.
Qed.

Lemma append_each_closed g : forall vs (h : hstore) s,
  store_closed h -> Forall (val_closed (length h)) vs -> s_addr s < length h ->
  store_closed (fst (append_each g h s vs)) /\
  s_addr (snd (append_each g h s vs)) < length (fst (append_each g h s vs)) /\
  length h <= length (fst (append_each g h s vs)).
Proof.
  unfold append_each.
  induction vs as [|x vs IH]; intros h s Hc Hvs Hs; cbn [fold_left fst snd]; [repeat split; auto|].
  inversion Hvs as [|? ? Hx Hrest]; subst.
  pose proof (happend_closed g h s [x] Hc (Forall_cons _ Hx (Forall_nil _))) as Hc1.
  pose proof (happend_addr_lt g h s [x] Hs) as Hs1.
  pose proof (happend_length_ge g h s [x]) as Hl1.
  destruct (happend g h s [x]) as [h1 s1]. cbn [fst snd] in *.
  destruct (IH h1 s1 Hc1) as [Ha [Hb Hd]]; [|assumption|].
  - rewrite Forall_forall in *. intros y Hy. eapply val_closed_mono; [|apply Hrest; exact Hy]. lia.
  - repeat split; auto. eapply Nat.le_trans; eassumption.
Qed.

Lemma build_closed g (h : hstore) hw vs :
  store_closed h -> Forall (val_closed (length h)) vs ->
  store_closed (fst (build g h hw vs)) /\
  s_addr (snd (build g h hw vs)) < length (fst (build g h hw vs)) /\
  length h <= length (fst (build g h hw vs)).
Proof.
  intros Hc Hvs. destruct hw as [|c|c]; cbn [build].
  - split; [now apply halloc_closed|]. rewrite halloc_length, halloc_addr. lia.
  - split; [now apply halloc_closed|]. rewrite halloc_length, halloc_addr. lia.
  - pose proof (halloc_closed h [] c Hc (Forall_nil _)) as Hc0.
    pose proof (halloc_length h (@nil hval) c) as Hl0. pose proof (halloc_addr h (@nil hval) c) as Ha0.
    destruct (halloc h [] c) as [h0 s0]. cbn [fst snd] in *.
    destruct (append_each_closed g vs h0 s0 Hc0) as [Ha [Hb Hd]]; [|lia|].
    + rewrite Forall_forall in *. intros y Hy. eapply val_closed_mono; [|apply Hvs; exact Hy]. lia.
    + repeat split; auto. lia.
Qed.

Definition exec_good g (p : plan) : Prop :=
  forall h, store_closed h -> plan_closed (length h) p ->
    store_closed (fst (exec g h p)) /\ val_closed (length (fst (exec g h p))) (snd (exec g h p)) /\
    length h <= length (fst (exec g h p)).

Lemma exec_list_closed g items : Forall (exec_good g) items ->
  forall h, store_closed h -> Forall (plan_closed (length h)) items ->
    store_closed (fst (exec_list g h items)) /\
    Forall (val_closed (length (fst (exec_list g h items)))) (snd (exec_list g h items)) /\
    length h <= length (fst (exec_list g h items)).
Proof.
  induction 1 as [|p items Hp _ IHl]; intros h Hc Hpl; [cbn; repeat split; auto|].
  inversion Hpl as [|? ? Hp1 Hrest]; subst. rewrite exec_list_cons.
  destruct (Hp h Hc Hp1) as [Hc1 [Hv1 Hl1]].
  destruct (exec g h p) as [h1 v]. cbn [fst snd] in *.
  destruct (IHl h1 Hc1) as [Hc2 [Hv2 Hl2]].
  { rewrite Forall_forall in *. intros q Hq. eapply plan_closed_mono; [|apply Hrest; exact Hq]. lia. }
  destruct (exec_list g h1 items) as [h2 vs]. cbn [fst snd] in *.
  repeat split; [assumption| |lia].
  constructor; [|assumption]. eapply val_closed_mono; [|exact Hv1]. lia.
Qed.

Lemma exec_closed g : forall p, exec_good g p.
Proof.
  induction p as [v|k v IHk IHv|b hw items IH|s items IH] using plan_ind'; intros h Hc Hpl.
  - cbn. repeat split; auto.
  - rewrite exec_MkEntry. cbn [plan_closed] in Hpl. destruct Hpl as [Hk Hv].
    destruct (IHk h Hc Hk) as [Hc1 [Hv1 Hl1]]. destruct (exec g h k) as [h1 kv]. cbn [fst snd] in *.
    destruct (IHv h1 Hc1) as [Hc2 [Hv2 Hl2]]; [eapply plan_closed_mono; [|exact Hv]; lia|].
    destruct (exec g h1 v) as [h2 vv]. cbn [fst snd] in *.
    repeat split; [assumption| |assumption|lia]. eapply val_closed_mono; [|exact Hv1]. lia.
  - rewrite exec_New. apply plan_closed_New in Hpl.
    destruct (exec_list_closed g items IH h Hc Hpl) as [Hc1 [Hv1 Hl1]].
    destruct (exec_list g h items) as [h1 vs]. cbn [fst snd] in *.
    destruct (build_closed g h1 hw vs Hc1 Hv1) as [Hc2 [Hs2 Hl2]].
    destruct (build g h1 hw vs) as [h2 s2]. cbn [fst snd] in *.
    repeat split; [assumption| |lia]. destruct b; exact Hs2.
  - rewrite exec_AppendTo. apply plan_closed_AppendTo in Hpl. destruct Hpl as [Hs Hpl].
    destruct (exec_list_closed g items IH h Hc Hpl) as [Hc1 [Hv1 Hl1]].
    destruct (exec_list g h items) as [h1 vs]. cbn [fst snd] in *.
    pose proof (happend_closed g h1 s vs Hc1 Hv1) as Hc2.
    pose proof (happend_addr_lt g h1 s vs ltac:(lia)) as Hs2.
    pose proof (happend_length_ge g h1 s vs) as Hl2.
    destruct (happend g h1 s vs) as [h2 s2]. cbn [fst snd] in *.
    repeat split; [assumption|exact Hs2|lia].
Qed.

(* ---------------------------------------------------------------------------------------------- *)
(* list helpers preserve a property of all elements *)

Section ForallLemmas.
  Context {B : Type} (Q : B -> Prop).

  Lemma Forall_filter' f l : Forall Q l -> Forall Q (filter f l).
  Proof. induction 1; cbn; [constructor|]. destruct (f x); auto. Qed.

  Lemma Forall_app' l1 l2 : Forall Q l1 -> Forall Q l2 -> Forall Q (l1 ++ l2).
  Proof. induction 1; cbn; auto. Qed.

  Lemma Forall_firstn n : forall l, Forall Q l -> Forall Q (firstn n l).
  Proof. induction n; intros l H; cbn; [constructor|]. destruct H; constructor; auto. Qed.

  Lemma Forall_skipn n : forall l, Forall Q l -> Forall Q (skipn n l).
  Proof. induction n; intros l H; cbn; [assumption|]. destruct H; auto. Qed.

  Lemma Forall_set_nth i x : forall l, Q x -> Forall Q l -> Forall Q (set_nth i x l).
  Proof. induction i; intros l Hx H; destruct H; cbn; constructor; auto. Qed.

  Lemma Forall_remove_nth i : forall l, Forall Q l -> Forall Q (remove_nth i l).
  Proof. induction i; intros l H; destruct H; cbn; auto. Qed.

  Lemma Forall_remove_positions d : forall l i, Forall Q l -> Forall Q (remove_positions d i l).
  Proof. induction l; intros i H; cbn; [constructor|]. inversion H; subst. destruct (existsb _ d); auto. Qed.

  Lemma Forall_insert_by key x : forall l, Q x -> Forall Q l -> Forall Q (insert_by key x l).
  Proof.
    induction l as [|y l IH]; intros Hx H; cbn; [auto|].
    inversion H; subst. destruct (Z.ltb _ _); auto.
  Qed.

  Lemma Forall_sort_by key l : Forall Q l -> Forall Q (sort_by key l).
  Proof.
    unfold sort_by. assert (G : forall l acc, Forall Q l -> Forall Q acc ->
      Forall Q (fold_left (fun acc x => insert_by key x acc) l acc)).
    { induction l0 as [|x l0 IH]; intros acc Hl Ha; cbn; [assumption|].
      inversion Hl; subst. apply IH; [assumption|]. now apply Forall_insert_by. }
    intros H. apply G; auto.
  Qed.

  Lemma Forall_nth d i l : Q d -> Forall Q l -> Q (nth i l d).
  Proof. intros Hd H. revert i. induction H; intros [|i]; cbn; auto. Qed.

  Lemma Forall_find f l v : Forall Q l -> find f l = Some v -> Q v.
  Proof. induction 1; cbn; [discriminate|]. destruct (f x); [intros [= <-]; assumption|assumption]. Qed.

  Lemma Forall_nth_error l i v : Forall Q l -> nth_error l i = Some v -> Q v.
  Proof.
    intros H. revert i. induction H as [|x l Hx Hl IH]; intros [|i] E; cbn in E; try discriminate E;
      [injection E as <-; assumption|eauto].
  Qed.

  Lemma Forall_at_z l i v : Forall Q l -> at_z i l = Some v -> Q v.
  Proof. unfold at_z. destruct (Z.ltb i 0); [discriminate|]. apply Forall_nth_error. Qed.

  Lemma Forall_chunk n j l c : Forall Q l -> chunk n j l = Some c -> Forall Q c.
  Proof.
    unfold chunk. destruct (Nat.leb _ _); [discriminate|]. intros H [= <-].
    now apply Forall_firstn, Forall_skipn.
  Qed.

  Lemma Forall_merge key (hv oh : list B) : Forall Q hv -> Forall Q oh -> Forall Q (merge_entriesG key hv oh).
  Proof.
    unfold merge_entriesG. intros Hhv Hoh. generalize hv at 1 as idx.
    revert hv Hhv. induction Hoh as [|e oh He _ IH]; intros hv Hhv idx; cbn; [assumption|].
    apply IH. destruct (hfindG key idx (key e)); [now apply Forall_set_nth|apply Forall_app'; auto].
  Qed.

  Lemma Forall_unique_entries key (es : list B) : Forall Q es -> Forall Q (unique_entriesG key es).
  Proof.
    unfold unique_entriesG. assert (G : forall es acc, Forall Q es -> Forall Q acc -> Forall Q (fold_left (put_entryG key) es acc)).
    { induction es0 as [|e es0 IH]; intros acc Hes Ha; cbn; [assumption|]. inversion Hes; subst.
      apply IH; [assumption|]. unfold put_entryG. destruct (hfindG key acc (key e)); [now apply Forall_set_nth|apply Forall_app'; auto]. }
    intros H. apply G; auto.
  Qed.

  Lemma Forall_unique_acc key (l : list B) : forall seen, Forall Q l -> Forall Q (unique_accG key seen l).
  Proof. induction l as [|x l IH]; intros seen H; cbn; [constructor|]. inversion H; subst. destruct (existsb _ seen); auto. Qed.
End ForallLemmas.

