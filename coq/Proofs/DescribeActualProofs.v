(* Proofs about Model/DescribeActual.v: whatever the alias graphs on the two sides look like, the actual component
   of the pairs the describer recurses on stays inside the written actual type (an alias is never unfolded), and
   the number of descents into it is bounded by its depth - the recursion on the actual side is structural. *)
From Coq Require Import NArith Bool List Arith Lia Wellfounded.
From PcoreV Require Import Model.Base Model.DescribeWalk Model.DescribeActual Proofs.DescribeWalkProofs.
Import ListNotations.

Local Arguments Nat.ltb : simpl never.

Lemma asubterms_self a : In a (asubterms a).
Proof. destruct a; cbn [asubterms]; left; reflexivity. Qed.

Lemma asubterms_child ds d x : In d ds -> In x (asubterms d) -> In x (asubterms (ANode ds)).
Proof.
  intros Hd Hx. cbn [asubterms]. right. apply in_flat_map. exists d. split; assumption.
Qed.

Lemma asubterms_leaf a b : (forall ds, a <> ANode ds) -> In b (asubterms a) -> b = a.
Proof.
  intros Hn Hb. destruct a as [ | n | i | ds ]; cbn [asubterms] in Hb.
  - destruct Hb as [Hb | []]. symmetry. exact Hb.
  - destruct Hb as [Hb | []]. symmetry. exact Hb.
  - destruct Hb as [Hb | []]. symmetry. exact Hb.
  - exfalso. exact (Hn ds eq_refl).
Qed.

Lemma asubterms_node ds b :
  In b (asubterms (ANode ds)) -> b = ANode ds \/ exists d, In d ds /\ In b (asubterms d).
Proof.
  cbn [asubterms]. intros [Hb | Hb].
  - left. symmetry. exact Hb.
  - right. apply in_flat_map in Hb. exact Hb.
Qed.

Lemma asubterms_trans_n : forall n a, depth a < n -> forall b c,
  In b (asubterms a) -> In c (asubterms b) -> In c (asubterms a).
Proof.
  induction n as [ | n IH ]; intros a Hd b c Hb Hc; [lia | ].
  destruct a as [ | s | i | ds ].
  - rewrite (asubterms_leaf ALeaf b) in Hc; [exact Hc | intros ds H; discriminate | exact Hb].
  - rewrite (asubterms_leaf (ARef s) b) in Hc; [exact Hc | intros ds H; discriminate | exact Hb].
  - rewrite (asubterms_leaf (AAlias i) b) in Hc; [exact Hc | intros ds H; discriminate | exact Hb].
  - destruct (asubterms_node ds b Hb) as [Heq | [d [Hin Hbd]]].
    + subst b. exact Hc.
    + apply asubterms_child with (d := d); [exact Hin | ].
      pose proof (depth_child d ds Hin) as Hlt.
      apply IH with (b := b); [lia | exact Hbd | exact Hc].
Qed.

Lemma asubterms_trans a b c : In b (asubterms a) -> In c (asubterms b) -> In c (asubterms a).
Proof. apply asubterms_trans_n with (n := S (depth a)). lia. Qed.

Lemma asubterms_depth_n : forall n a, depth a < n -> forall b, In b (asubterms a) -> depth b <= depth a.
Proof.
  induction n as [ | n IH ]; intros a Hd b Hb; [lia | ].
  destruct a as [ | s | i | ds ].
  - rewrite (asubterms_leaf ALeaf b); [apply le_n | intros ds H; discriminate | exact Hb].
  - rewrite (asubterms_leaf (ARef s) b); [apply le_n | intros ds H; discriminate | exact Hb].
  - rewrite (asubterms_leaf (AAlias i) b); [apply le_n | intros ds H; discriminate | exact Hb].
  - destruct (asubterms_node ds b Hb) as [Heq | [d [Hin Hbd]]].
    + subst b. apply le_n.
    + pose proof (depth_child d ds Hin) as Hlt.
      assert (depth b <= depth d) as Hle by (apply IH; [lia | exact Hbd]). lia.
Qed.

Lemma asubterms_depth a b : In b (asubterms a) -> depth b <= depth a.
Proof. apply asubterms_depth_n with (n := S (depth a)). lia. Qed.

Lemma flat_map_length_sum {A B} (f : A -> list B) (g : A -> nat) (l : list A) :
  (forall x, In x l -> length (f x) = g x) -> length (flat_map f l) = list_sum (map g l).
Proof.
  induction l as [ | x l IHl ]; intro H; cbn [flat_map map list_sum].
  - reflexivity.
  - rewrite app_length, IHl, (H x (or_introl eq_refl)); [reflexivity | ].
    intros y Hy. apply H. right. exact Hy.
Qed.

Lemma asubterms_length_n : forall n a, depth a < n -> length (asubterms a) = anodes a.
Proof.
  induction n as [ | n IH ]; intros a Hd; [lia | ].
  destruct a as [ | s | i | ds ]; cbn [asubterms anodes length]; try reflexivity.
  f_equal. apply flat_map_length_sum. intros d Hin.
  pose proof (depth_child d ds Hin) as Hlt. apply IH. lia.
Qed.

Lemma asubterms_length a : length (asubterms a) = anodes a.
Proof. apply asubterms_length_n with (n := S (depth a)). lia. Qed.

(* an alias (a leaf, a reference) on the actual side has no proper contained type *)
Lemma asubterms_alias i x : In x (asubterms (AAlias i)) -> x = AAlias i.
Proof. cbn [asubterms]. intros [H | []]. symmetry. exact H. Qed.

Section Reach.
  Variable env : list aty.

  (* the invariant of every sequence of moves *)
  Lemma dreach_inv k e a e' a' :
    dreach env k (e, a) (e', a') -> In a' (asubterms a) /\ k + depth a' <= depth a.
  Proof.
    intro H. remember (e, a) as p eqn:Hp. remember (e', a') as q eqn:Hq.
    revert e' a' Hq. induction H as [ p | k p ts c a0 H IH Hin | k p i r a0 H IH Hn | k p e0 ds d H IH Hin ];
      intros e' a' Hq.
    - subst p. inversion Hq; subst. split; [apply asubterms_self | lia].
    - inversion Hq; subst. exact (IH eq_refl (ANode ts) a' eq_refl).
    - inversion Hq; subst. exact (IH eq_refl (AAlias i) a' eq_refl).
    - inversion Hq; subst. destruct (IH eq_refl e' (ANode ds) eq_refl) as [Hs Hd]. split.
      + apply asubterms_trans with (b := ANode ds); [exact Hs | ].
        apply asubterms_child with (d := a'); [exact Hin | apply asubterms_self].
      + pose proof (depth_child a' ds Hin). lia.
  Qed.

  Lemma dreach_subterm k e a e' a' : dreach env k (e, a) (e', a') -> In a' (asubterms a).
  Proof. intro H. exact (proj1 (dreach_inv _ _ _ _ _ H)). Qed.

  Lemma dreach_descents k e a e' a' : dreach env k (e, a) (e', a') -> k + depth a' <= depth a.
  Proof. intro H. exact (proj2 (dreach_inv _ _ _ _ _ H)). Qed.

  (* an alias on the actual side is never unfolded: the actual type stays that alias, no descent is made *)
  Lemma dreach_actual_alias k e i e' a' : dreach env k (e, AAlias i) (e', a') -> a' = AAlias i /\ k = 0.
  Proof.
    intro H. destruct (dreach_inv _ _ _ _ _ H) as [Hs Hd]. split.
    - exact (asubterms_alias _ _ Hs).
    - cbn [depth] in Hd. lia.
  Qed.

  (* a single move is a reach *)
  Lemma dmove_reach p q : dmove env p q -> exists k, dreach env k p q /\ k <= 1.
  Proof.
    intro H. destruct H as [ ts c a Hin | i r a Hn | e ds d Hin ].
    - exists 0. split; [ | lia]. apply DStepE with (ts := ts); [apply DRefl | exact Hin].
    - exists 0. split; [ | lia]. apply DStepAlias with (i := i); [apply DRefl | exact Hn].
    - exists 1. split; [ | lia]. apply DStepA with (ds := ds); [apply DRefl | exact Hin].
  Qed.
End Reach.

(* the descent into the actual type is well-founded for EVERY type graph: no environment is consulted *)
Definition achild (d a : aty) : Prop := exists ds, a = ANode ds /\ In d ds.

Lemma achild_wf : well_founded achild.
Proof.
  apply well_founded_lt_compat with (f := depth).
  intros d a [ds [Ha Hin]]. subst a. exact (depth_child d ds Hin).
Qed.

(* the computable check of the correspondence is what dreach_descents states *)
Lemma descents_ok_spec a ds : descents_ok a ds = true <-> Forall (fun d => d <= depth a) ds.
Proof.
  unfold descents_ok. rewrite forallb_forall, Forall_forall. split; intros H x Hx.
  - apply Nat.leb_le. exact (H x Hx).
  - apply Nat.leb_le. exact (H x Hx).
Qed.

Lemma dreach_in_written_type env k e a e' a' :
  dreach env k (e, a) (e', a') -> In a' (asubterms a) /\ length (asubterms a) = anodes a.
Proof.
  intro H. split.
  - exact (dreach_subterm env k e a e' a' H).
  - exact (asubterms_length a).
Qed.

Lemma ex_two_lists :
  let env := two_lists in
  closed_env env = true /\
  dreach env 0 (AAlias 0, AAlias 1) (AAlias 0, AAlias 1) /\
  dreach env 1 (AAlias 0, list_body 1) (AAlias 0, AAlias 1) /\
  depth (list_body 1) = 2 /\
  descents_ok (list_body 1) [1; 0] = true /\
  descents_ok (AAlias 1) [1] = false.
Proof.
  cbv zeta. split; [vm_compute; reflexivity | ]. split; [apply DRefl | ].
  split; [ | split; [vm_compute; reflexivity | split; vm_compute; reflexivity]].
  (* List1 -> the Struct of List1 -> its member next = List1 again; then one descent into the actual Struct *)
  apply DStepA with (ds := [a_key false; ALeaf; a_key true; AAlias 1]).
  - apply DStepE with (ts := [a_key false; ALeaf; a_key true; AAlias 0]).
    + apply DStepAlias with (i := 0); [apply DRefl | reflexivity].
    + right. right. right. left. reflexivity.
  - right. right. right. left. reflexivity.
Qed.
