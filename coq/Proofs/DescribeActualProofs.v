(* Proofs about Model/DescribeActual.v: whatever the alias graphs on the two sides look like, the actual component
   of the pairs the describer recurses on stays inside the written actual type (an alias is never unfolded), and
   the number of descents into it is bounded by its depth - the recursion on the actual side is structural. *)
From Coq Require Import NArith Bool List Arith Lia Wellfounded.
From PcoreV Require Import Model.Base Model.DescribeWalk Model.DescribeActual Proofs.DescribeWalkProofs.
Import ListNotations.

Local Arguments Nat.ltb : simpl never.

Lemma asubterms_self a : In a (asubterms a).
Proof. destruct a; cbn [asubterms]; left; reflexivity. Qed.

Lemma asubterms_child ds d x : In d ds -> In x (asubterms d) -> In x (asubterms (ANode ds)).
Proof.
  intros Hd Hx. cbn [asubterms]. right. apply in_flat_map. exists d. split; assumption.
Qed.

Lemma asubterms_trans : forall a b c, In b (asubterms a) -> In c (asubterms b) -> In c (asubterms a).
Proof.
  fix IH 1. intros a b c Hb Hc. destruct a as [ | n | i | ds ].
  - cbn [asubterms] in Hb. destruct Hb as [Hb | []]. subst b. exact Hc.
  - cbn [asubterms] in Hb. destruct Hb as [Hb | []]. subst b. exact Hc.
  - cbn [asubterms] in Hb. destruct Hb as [Hb | []]. subst b. exact Hc.
  - cbn [asubterms] in Hb. destruct Hb as [Hb | Hb].
    + subst b. exact Hc.
    + cbn [asubterms]. right.
      revert Hb. generalize ds at 1 3. intro l. induction l as [ | d l IHl ]; intro Hb.
      * destruct Hb.
      * cbn [flat_map] in Hb |- *. apply in_app_or in Hb. apply in_or_app. destruct Hb as [Hb | Hb].
        -- left. exact (IH d b c Hb Hc).
        -- right. exact (IHl Hb).
Qed.

Lemma asubterms_depth : forall a b, In b (asubterms a) -> depth b <= depth a.
Proof.
  fix IH 1. intros a b Hb. destruct a as [ | n | i | ds ].
  - cbn [asubterms] in Hb. destruct Hb as [Hb | []]. subst b. apply le_n.
  - cbn [asubterms] in Hb. destruct Hb as [Hb | []]. subst b. apply le_n.
  - cbn [asubterms] in Hb. destruct Hb as [Hb | []]. subst b. apply le_n.
  - cbn [asubterms] in Hb. destruct Hb as [Hb | Hb].
    + subst b. apply le_n.
    + assert (Hex : exists d, In d ds /\ depth b <= depth d).
      { revert Hb. generalize ds. intro l. induction l as [ | d l IHl ]; intro Hb.
        - destruct Hb.
        - cbn [flat_map] in Hb. apply in_app_or in Hb. destruct Hb as [Hb | Hb].
          + exists d. split; [left; reflexivity | exact (IH d b Hb)].
          + destruct (IHl Hb) as [d' [Hin Hle]]. exists d'. split; [right; exact Hin | exact Hle]. }
      destruct Hex as [d [Hin Hle]]. pose proof (depth_child d ds Hin). lia.
Qed.

Lemma asubterms_length : forall a, length (asubterms a) = anodes a.
Proof.
  fix IH 1. intro a. destruct a as [ | n | i | ds ]; cbn [asubterms anodes length]; try reflexivity.
  f_equal. induction ds as [ | d l IHl ]; cbn [flat_map map list_sum].
  - reflexivity.
  - rewrite app_length, IHl, (IH d). reflexivity.
Qed.

(* an alias (a leaf, a reference) on the actual side has no proper contained type *)
Lemma asubterms_alias i x : In x (asubterms (AAlias i)) -> x = AAlias i.
Proof. cbn [asubterms]. intros [H | []]. symmetry. exact H. Qed.

Section Reach.
  Variable env : list aty.

  (* the invariant of every sequence of moves *)
  Lemma dreach_inv k e a e' a' :
    dreach env k (e, a) (e', a') -> In a' (asubterms a) /\ k + depth a' <= depth a.
  Proof.
    intro H. remember (e, a) as p eqn:Hp. remember (e', a') as q eqn:Hq.
    revert e' a' Hq. induction H as [ p | k p ts c a0 H IH Hin | k p i r a0 H IH Hn | k p e0 ds d H IH Hin ];
      intros e' a' Hq.
    - subst p. inversion Hq; subst. split; [apply asubterms_self | lia].
    - inversion Hq; subst. exact (IH eq_refl (ANode ts) a' eq_refl).
    - inversion Hq; subst. exact (IH eq_refl (AAlias i) a' eq_refl).
    - inversion Hq; subst. destruct (IH eq_refl e' (ANode ds) eq_refl) as [Hs Hd]. split.
      + apply asubterms_trans with (b := ANode ds); [exact Hs | ].
        apply asubterms_child with (d := a'); [exact Hin | apply asubterms_self].
      + pose proof (depth_child a' ds Hin). lia.
  Qed.

  Lemma dreach_subterm k e a e' a' : dreach env k (e, a) (e', a') -> In a' (asubterms a).
  Proof. intro H. exact (proj1 (dreach_inv _ _ _ _ _ H)). Qed.

  Lemma dreach_descents k e a e' a' : dreach env k (e, a) (e', a') -> k + depth a' <= depth a.
  Proof. intro H. exact (proj2 (dreach_inv _ _ _ _ _ H)). Qed.

  (* an alias on the actual side is never unfolded: the actual type stays that alias, no descent is made *)
  Lemma dreach_actual_alias k e i e' a' : dreach env k (e, AAlias i) (e', a') -> a' = AAlias i /\ k = 0.
  Proof.
    intro H. destruct (dreach_inv _ _ _ _ _ H) as [Hs Hd]. split.
    - exact (asubterms_alias _ _ Hs).
    - cbn [depth] in Hd. lia.
  Qed.

  (* a single move is a reach *)
  Lemma dmove_reach p q : dmove env p q -> exists k, dreach env k p q /\ k <= 1.
  Proof.
    intro H. destruct H as [ ts c a Hin | i r a Hn | e ds d Hin ].
    - exists 0. split; [ | lia]. apply DStepE with (ts := ts); [apply DRefl | exact Hin].
    - exists 0. split; [ | lia]. apply DStepAlias with (i := i); [apply DRefl | exact Hn].
    - exists 1. split; [ | lia]. apply DStepA with (ds := ds); [apply DRefl | exact Hin].
  Qed.
End Reach.

(* the descent into the actual type is well-founded for EVERY type graph: no environment is consulted *)
Definition achild (d a : aty) : Prop := exists ds, a = ANode ds /\ In d ds.

Lemma achild_wf : well_founded achild.
Proof.
  apply well_founded_lt_compat with (f := depth).
  intros d a [ds [Ha Hin]]. subst a. exact (depth_child d ds Hin).
Qed.

(* the computable check of the correspondence is what dreach_descents states *)
Lemma descents_ok_spec a ds : descents_ok a ds = true <-> Forall (fun d => d <= depth a) ds.
Proof.
  unfold descents_ok. rewrite forallb_forall, Forall_forall. split; intros H x Hx.
  - apply Nat.leb_le. exact (H x Hx).
  - apply Nat.leb_le. exact (H x Hx).
Qed.
