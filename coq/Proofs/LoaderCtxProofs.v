(* LoaderCtxProofs.v — the loader a context holds (Model/LoaderCtx.v): the DoWithLoader calls of every px.AddTypes
   are properly nested and name the loader the context holds (`compile_track`), so after the call - however it
   ends - the context holds what it held before (`ctx_exec_restores`), and a history through contexts is the
   history through the loaders the contexts were made for (`crun_fixed`). *)
From Coq Require Import Arith NArith Bool List Lia.
From PcoreV Require Import Model.Base Model.Loader Model.LoaderSpec Model.LoaderAdd Model.LoaderCtx Proofs.LoaderAddScoped.
Import ListNotations.

Lemma lref_eqb_eq a b : lref_eqb a b = true -> a = b.
Proof.
  destruct a as [|j], b as [|k]; cbn [lref_eqb]; try discriminate; [reflexivity|].
  intros H. apply Nat.eqb_eq in H. congruence.
Qed.

Lemma lref_eqb_refl a : lref_eqb a a = true.
Proof. destruct a as [|j]; cbn [lref_eqb]; [reflexivity|apply Nat.eqb_refl]. Qed.

Lemma track_app : forall is1 is2 stk,
  track stk (is1 ++ is2) = match track stk is1 with Some s => track s is2 | None => None end.
Proof.
  induction is1 as [|i is1 IH]; intros is2 stk; [reflexivity|].
  destruct i as [a|p ts|r n body|[r| |]]; cbn [app track]; try apply IH.
  - destruct (lref_eqb p (hd HL stk)); [apply IH|reflexivity].
  - destruct stk as [|x stk]; [reflexivity|apply IH].
Qed.

Lemma guards_track : forall is N stk, forallb (guard_ok N) is = true -> track stk is = Some stk.
Proof.
  induction is as [|i is IH]; intros N stk H; [reflexivity|].
  cbn [forallb] in H. apply andb_prop in H. destruct H as [Hi H].
  destruct i as [a|p ts|r n body|ca]; cbn [guard_ok] in Hi; try discriminate; cbn [track]; eapply IH; eauto.
Qed.

Lemma track_acts : forall acts stk, track stk (map IAct acts) = Some stk.
Proof. induction acts as [|a acts IH]; intros stk; [reflexivity|]. cbn [map track]. apply IH. Qed.

Section Plan.
  Variable auth : str.

  Definition plan_tr (m : mtype) : Prop :=
    forall h next ks is nx stk, plan auth h next m = (ks, is, nx) -> hd HL stk = h -> track stk ks = Some stk.

  Lemma plan_list_tr : forall ms, Forall (fun km => plan_tr (snd km)) ms ->
    forall me nx0 ks is nx stk, plan_list auth me nx0 ms = (ks, is, nx) -> hd HL stk = me -> track stk ks = Some stk.
  Proof.
    induction ms as [|km ms IH]; intros Hall me nx0 ks is nx stk H Hme; cbn [plan_list] in H.
    - injection H as <- <- <-. reflexivity.
    - inversion Hall as [|? ? Hkm Hms]; subst.
      destruct (plan auth (hd HL stk) nx0 (snd km)) as [[k1 i1] n1] eqn:E1.
      fold (plan_list auth (hd HL stk)) in H.
      destruct (plan_list auth (hd HL stk) n1 ms) as [[k2 i2] n2] eqn:E2.
      injection H as <- <- <-.
      rewrite track_app, (Hkm (hd HL stk) nx0 k1 i1 n1 stk E1 eq_refl).
      eapply IH; eauto.
  Qed.

  Lemma plan_tr_all m : plan_tr m.
  Proof.
    induction m as [n v|n v al ct|n v ms IH|n v] using mtype_ind'; intros h next ks is nx stk H Hh.
    - cbn [plan] in H. injection H as <- <- <-. reflexivity.
    - cbn [plan] in H. injection H as <- <- <-. reflexivity.
    - rewrite plan_set in H. destruct (plan_list auth (HH next) (S next) ms) as [[k1 i1] n1] eqn:E.
      injection H as <- <- <-.
      cbn [track]. rewrite Hh, lref_eqb_refl. cbn [track].
      rewrite track_app, (plan_list_tr ms IH (HH next) (S next) k1 i1 n1 (HH next :: stk) E eq_refl).
      reflexivity.
    - cbn [plan] in H. injection H as <- <- <-. reflexivity.
  Qed.

  Lemma phase2_track : forall ts next a b, phase2 auth next ts = (a, b) -> track [] a = Some [].
  Proof.
    induction ts as [|t ts IH]; intros next a b H; cbn [phase2] in H.
    - injection H as <- <-. reflexivity.
    - destruct t as [n v|n v al ct|n v ms|n v].
      + eapply IH; eauto.
      + destruct (phase2 auth next ts) as [a1 b1] eqn:E. injection H as <- <-.
        rewrite track_app, track_acts. eapply IH; eauto.
      + destruct (plan auth HL next (MSet n v ms)) as [[ks is] nx] eqn:Ep.
        destruct (phase2 auth nx ts) as [a1 b1] eqn:E. injection H as <- <-.
        rewrite track_app, (plan_tr_all (MSet n v ms) HL next ks is nx [] Ep eq_refl). eapply IH; eauto.
      + destruct (phase2 auth next ts) as [a1 b1] eqn:E. injection H as <- <-.
        cbn [track]. eapply IH; eauto.
  Qed.

  (* every px.AddTypes: the DoWithLoader calls are nested, each is left again, and every type-set loader is made on
     top of the loader the context holds at that moment *)
  Theorem compile_track ts : track [] (compile auth ts) = Some [].
  Proof.
    unfold compile. destruct (phase2 auth 0 ts) as [a b] eqn:E. cbn [fst snd].
    destruct (phase2_ok auth ts 0 a b E) as [_ Hg].
    rewrite track_app, (guards_track _ 0 [] (phase1_guards auth ts)).
    rewrite track_app, (phase2_track ts 0 a b E).
    rewrite track_app, (guards_track _ _ [] Hg).
    apply (guards_track _ 0). apply phase3_guards.
  Qed.
  Theorem compile_decl_track ts : track [] (compile_decl auth ts) = Some [].
  Proof.
    unfold compile_decl. destruct (phase2 auth 0 ts) as [a b] eqn:E. cbn [fst snd].
    destruct (phase2_ok auth ts 0 a b E) as [_ Hg].
    rewrite track_app, (guards_track _ 0 [] (phase1_all_guards auth ts)).
    rewrite track_app, (phase2_track ts 0 a b E).
    apply (guards_track _ _ [] Hg).
  Qed.
End Plan.

Section Sem.
  Context {S : Type}.
  Variable stp : S -> op -> S * out.
  Variable addn : S -> lkind -> S * out.
  Variable len : S -> nat.
  Variable L base : nat.

  Lemma hd_map stk : hd L (map (ref_idx L base) stk) = ref_idx L base (hd HL stk).
  Proof. destruct stk; reflexivity. Qed.

  (* on a properly nested call sequence the machine with the context is the machine without it, and the loaders of the
     running DoWithLoader calls are the tracked ones after a normal end, none after a panic *)
  Lemma ctx_exec_track : forall is s stk stk', track stk is = Some stk' ->
    ctx_exec stp addn len L base s (map (ref_idx L base) stk) is =
    (fst (exec stp addn len L base s is), snd (exec stp addn len L base s is),
     match snd (exec stp addn len L base s is) with AOk => map (ref_idx L base) stk' | _ => [] end).
  Proof.
    induction is as [|i is IH]; intros s stk stk' H.
    - cbn in *. injection H as <-. reflexivity.
    - cbn [ctx_exec exec].
      destruct i as [a|p ts|r n body|[r| |]].
      + cbn [ctx_agrees ctx_move track] in *.
        destruct (exec_instr stp addn len L base s (IAct a)) as [s1 o].
        destruct o; try reflexivity. apply IH. exact H.
      + cbn [track] in H. destruct (lref_eqb p (hd HL stk)) eqn:Ep; [|discriminate H].
        apply lref_eqb_eq in Ep. cbn [ctx_agrees ctx_move]. rewrite hd_map, <- Ep, Nat.eqb_refl.
        destruct (exec_instr stp addn len L base s (INode p ts)) as [s1 o].
        destruct o; try reflexivity. apply IH. exact H.
      + cbn [ctx_agrees ctx_move track] in *.
        destruct (exec_instr stp addn len L base s (IUnless r n body)) as [s1 o].
        destruct o; try reflexivity. apply IH. exact H.
      + cbn [ctx_agrees ctx_move track exec_instr] in *. exact (IH s (r :: stk) stk' H).
      + destruct stk as [|x stk0]; cbn [track] in H; [discriminate H|].
        cbn [ctx_agrees ctx_move exec_instr map tl]. exact (IH s stk0 stk' H).
      + cbn [ctx_agrees ctx_move exec_instr]. reflexivity.
  Qed.
End Sem.

(* after px.AddTypes - normal end, redefinition error, rejected member, whatever the loaders hold - the context
   holds the loader it held when the call began; the loaders are those of the machine without contexts *)
Theorem ctx_exec_restores {S : Type} (stp : S -> op -> S * out) addn len L base s auth ts :
  let r := ctx_exec stp addn len L base s [] (compile auth ts) in
  hd L (snd r) = L /\ fst r = exec stp addn len L base s (compile auth ts).
Proof.
  cbn zeta. pose proof (ctx_exec_track stp addn len L base (compile auth ts) s [] [] (compile_track auth ts)) as H.
  cbn [map] in H. rewrite H. clear H.
  cbn [fst snd]. destruct (exec stp addn len L base s (compile auth ts)) as [s' o]. cbn [fst snd map].
  split; [destruct o; reflexivity|reflexivity].
Qed.

(* the same for the declaration route *)
Theorem ctx_exec_restores_decl {S : Type} (stp : S -> op -> S * out) addn len L base s auth ts :
  let r := ctx_exec stp addn len L base s [] (compile_decl auth ts) in
  hd L (snd r) = L /\ fst r = exec stp addn len L base s (compile_decl auth ts).
Proof.
  cbn zeta. pose proof (ctx_exec_track stp addn len L base (compile_decl auth ts) s [] [] (compile_decl_track auth ts)) as H.
  cbn [map] in H. rewrite H. clear H.
  cbn [fst snd]. destruct (exec stp addn len L base s (compile_decl auth ts)) as [s' o]. cbn [fst snd map].
  split; [destruct o; reflexivity|reflexivity].
Qed.

Lemma cstep_fixed cfg st x :
  cstep cfg (st, []) x = ((fst (xstep cfg st x), []), snd (xstep cfg st x), xop_loader x).
Proof.
  destruct x as [o|l ts|l ts].
  - destruct o; cbn [cstep xstep via op_loader xop_loader]; destruct (step cfg st _) as [st' r]; reflexivity.
  - cbn [cstep xstep via xop_loader]. destruct (Nat.ltb l (length st)); [|reflexivity].
    destruct (ctx_exec_restores (step cfg) add_node (@length lnode) l (length st) st (cfg_auth cfg) ts) as [Hc He].
    destruct (ctx_exec (step cfg) add_node (@length lnode) l (length st) st [] (compile (cfg_auth cfg) ts)) as [[st' a] top].
    cbn [fst snd] in Hc, He. rewrite Hc, <- He. unfold tab_set. rewrite Nat.eqb_refl. reflexivity.
  - cbn [cstep xstep via xop_loader]. destruct (Nat.ltb l (length st)); [|reflexivity].
    destruct (ctx_exec_restores_decl (step cfg) add_node (@length lnode) l (length st) st (cfg_auth cfg) ts) as [Hc He].
    destruct (ctx_exec (step cfg) add_node (@length lnode) l (length st) st [] (compile_decl (cfg_auth cfg) ts)) as [[st' a] top].
    cbn [fst snd] in Hc, He. rewrite Hc, <- He. unfold tab_set. rewrite Nat.eqb_refl. reflexivity.
Qed.

Lemma crun_from_fixed cfg : forall xs st,
  crun_from cfg (st, []) xs = ((fst (xrun_from cfg st xs), []), snd (xrun_from cfg st xs), map xop_loader xs).
Proof.
  induction xs as [|x xs IH]; intros st; [reflexivity|].
  cbn [crun_from xrun_from map]. rewrite cstep_fixed.
  destruct (xstep cfg st x) as [st1 r]. cbn [fst snd]. rewrite IH.
  destruct (xrun_from cfg st1 xs) as [st2 rs]. reflexivity.
Qed.

(* histories through contexts: no context ever holds another loader than the one it was made for, the results and
   the loaders are those of the history through the loaders *)
Theorem crun_fixed cfg xs :
  crun cfg xs = ((fst (xrun cfg xs), []), xouts cfg xs, map xop_loader xs).
Proof. unfold crun, xrun, xouts, xrun. apply crun_from_fixed. Qed.
