(* InferHeapProofs.v — property C08 for results that are TYPES (Model/InferHeap.v): no inference, no common type
   changes what a type obtained earlier contains.

   Unlike the List operations (Proofs/CollHeapFrame.v: no step writes to a cell that existed before), commonType DOES
   write into existing backing arrays: `append(ea.values, ...)` lands in the spare capacity of the members of its
   first operand.  The invariant that makes this harmless:
     wfL   every live slice points into the store;
     excl  two live slices over the same backing array are the same slice (same offset, length, capacity),
   so a write behind the length of a live slice is behind the length of EVERY live slice over that array.  The
   invariant is kept because utils.Unique copies (a temporary slice that covers the written cells never becomes
   the members of a type) - except for fewer than two strings, which cannot happen here: an Enum without members
   accepts every string type, and commonType returns the accepting operand before it gets to the append. *)
From Coq Require Import ZArith NArith Bool List Lia.
From PcoreV Require Import Model.Base Model.Heap Model.Coll Model.Ty Model.Lattice Model.Infer Model.InferHeap
     Proofs.HeapProofs.
Import ListNotations.
Local Open Scope nat_scope.

(* ---------------------------------------------------------------------------------------------- *)
(* live slices *)

Fixpoint slices (t : yty) : list slice :=
  match t with
  | YP _ => []
  | YEnum _ s => [s]
  | YArray e _ _ => slices e
  | YHash k v _ _ => slices k ++ slices v
  | YType t => slices t
  end.

Definition wfL (h : sstore) (L : list slice) : Prop := forall s, In s L -> s_addr s < length h.
Definition excl (L : list slice) : Prop :=
  forall s1 s2, In s1 L -> In s2 L -> s_addr s1 = s_addr s2 -> s1 = s2.
Definition good (h : sstore) (L : list slice) : Prop := wfL h L /\ excl L.
(* the cells seen through the slices of L are the same in h' as in h *)
Definition pres (L : list slice) (h h' : sstore) : Prop := forall s, In s L -> hread h' s = hread h s.

Lemma good_incl h L L' : good h L -> incl L' L -> good h L'.
Proof.
  intros [Hw He] Hi. split.
  - intros s Hs. apply Hw, Hi, Hs.
  - intros s1 s2 H1 H2. apply He; apply Hi; assumption.
Qed.

Lemma pres_refl L h : pres L h h.
Proof. intros s _. reflexivity. Qed.

Lemma pres_trans L L' h0 h1 h2 : incl L L' -> pres L h0 h1 -> pres L' h1 h2 -> pres L h0 h2.
Proof. intros Hi H1 H2 s Hs. rewrite H2 by (apply Hi, Hs). now apply H1. Qed.

Lemma pres_incl L L' h h' : incl L' L -> pres L h h' -> pres L' h h'.
Proof. intros Hi Hp s Hs. apply Hp, Hi, Hs. Qed.

Lemma tobs_pres L h h' : pres L h h' -> forall t, incl (slices t) L -> tobs h' t = tobs h t.
Proof.
  intros Hp. induction t as [t|ci s|e IHe lo hi|k IHk v IHv lo hi|t IHt]; cbn [tobs slices]; intros Hi.
  - reflexivity.
  - unfold strs. rewrite Hp; [reflexivity|]. apply Hi. now left.
  - now rewrite IHe.
  - rewrite IHk, IHv; [reflexivity| |]; intros x Hx; apply Hi, in_or_app; auto.
  - now rewrite IHt.
Qed.

Lemma incl_app_l {A} (l1 l2 l : list A) : incl (l1 ++ l2) l -> incl l1 l.
Proof. intros H x Hx. apply H, in_or_app. now left. Qed.
Lemma incl_app_r {A} (l1 l2 l : list A) : incl (l1 ++ l2) l -> incl l2 l.
Proof. intros H x Hx. apply H, in_or_app. now right. Qed.

(* ---------------------------------------------------------------------------------------------- *)
(* the primitives of the store *)

Lemma write_cells_firstn {A} (a : barray A) : forall n xs, firstn n (write_cells a n xs) = firstn n a.
Proof.
  induction a as [|c a IH]; intros n xs.
  - destruct n; reflexivity.
  - destruct n as [|n]; [reflexivity|]. cbn [write_cells firstn]. now rewrite IH.
Qed.

(* the cells of a slice depend only on the array up to offset + length *)
Lemma read_window {A} (a b : list A) o l :
  firstn (o + l) a = firstn (o + l) b -> firstn l (skipn o a) = firstn l (skipn o b).
Proof. intros H. now rewrite !firstn_skipn_comm, H. Qed.

Lemma strs_len0 h s : s_len s = 0 -> strs h s = [].
Proof. unfold strs, hread. now intros ->. Qed.

Lemma strs_length_le h s : length (strs h s) <= s_len s.
Proof. unfold strs, hread. rewrite map_length. apply firstn_le_length. Qed.

Section Prims.
  Variable g : nat -> nat -> nat.

  (* a fresh array: nothing live changes, its slice may join the live slices *)
  Lemma halloc_ok (h : sstore) L xs c :
    good h L ->
    pres L h (fst (halloc h xs c)) /\ good (fst (halloc h xs c)) (snd (halloc h xs c) :: L).
  Proof.
    intros [Hw He]. unfold halloc; cbn [fst snd]. split; [|split].
    - intros s Hs. apply prefix_hread; [apply prefix_app|apply Hw, Hs].
    - intros s [<-|Hs]; rewrite app_length; cbn; [lia|]. specialize (Hw s Hs). lia.
    - intros s1 s2 [<-|H1] [<-|H2]; cbn; intros Ha; auto.
      + specialize (Hw s2 H2). lia.
      + specialize (Hw s1 H1). lia.
  Qed.

  (* append(s, xs...) on a live slice s: whether it lands in the spare capacity of s or in a fresh array, the cells
     seen through the live slices stay *)
  Lemma happend_ok (h : sstore) L s xs :
    good h L -> In s L ->
    pres L h (fst (happend g h s xs)) /\ good (fst (happend g h s xs)) L /\
    s_len (snd (happend g h s xs)) = s_len s + length xs.
  Proof.
    intros [Hw He] Hs. unfold happend.
    destruct (Nat.leb (s_len s + length xs) (s_cap s)); cbn [fst snd s_len].
    - split; [|split; [split|reflexivity]].
      + intros s' Hs'. unfold hread, arr_at. rewrite update_nth_nth.
        destruct (Nat.eqb (s_addr s) (s_addr s')) eqn:E; [|reflexivity].
        apply Nat.eqb_eq in E. assert (s' = s) as -> by (apply He; auto).
        pose proof (Hw s Hs) as Hlt. apply Nat.ltb_lt in Hlt. rewrite Hlt.
        apply read_window. apply write_cells_firstn.
      + intros s' Hs'. rewrite update_nth_length. apply Hw, Hs'.
      + exact He.
    - split; [|split; [split|reflexivity]].
      + intros s' Hs'. apply prefix_hread; [apply prefix_app|apply Hw, Hs'].
      + intros s' Hs'. rewrite app_length. specialize (Hw s' Hs'). lia.
      + exact He.
  Qed.

  Lemma hnew_enum_ok (h : sstore) L u ci :
    good h L -> In u L ->
    pres L h (fst (hnew_enum h u ci)) /\ good (fst (hnew_enum h u ci)) (slices (snd (hnew_enum h u ci)) ++ L).
  Proof.
    intros Hg Hu. unfold hnew_enum. destruct (ci && Nat.ltb 0 (s_len u))%bool.
    - pose proof (halloc_ok h L (map lower_ascii (strs h u)) 0 Hg) as [Hp Hg'].
      destruct (halloc h (map lower_ascii (strs h u)) 0) as [h' l]. cbn [fst snd slices app] in *. now split.
    - cbn [fst snd slices app]. split; [apply pres_refl|].
      eapply good_incl; [exact Hg|]. intros x [<-|Hx]; assumption.
  Qed.

  (* NewEnumType(utils.Unique(append(ea.values, xs...)), ci) with at least two strings in all: Unique copies *)
  Lemma enum_merge_ok (h : sstore) L s xs ci :
    good h L -> In s L -> 2 <= s_len s + length xs ->
    pres L h (fst (enum_merge g h s xs ci)) /\
    good (fst (enum_merge g h s xs ci)) (slices (snd (enum_merge g h s xs ci)) ++ L).
  Proof.
    intros Hg Hs Hlen. unfold enum_merge.
    pose proof (happend_ok h L s xs Hg Hs) as [Hp1 [Hg1 Hl1]].
    destruct (happend g h s xs) as [h1 tmp]. cbn [fst snd] in *.
    unfold hunique. replace (Nat.ltb (s_len tmp) 2) with false by (symmetry; apply Nat.ltb_ge; lia).
    pose proof (halloc_ok h1 L (sdedup (strs h1 tmp)) (s_len tmp) Hg1) as [Hp2 Hg2].
    destruct (halloc h1 (sdedup (strs h1 tmp)) (s_len tmp)) as [h2 u]. cbn [fst snd] in *.
    pose proof (hnew_enum_ok h2 (u :: L) u ci Hg2 (or_introl eq_refl)) as [Hp3 Hg3].
    destruct (hnew_enum h2 u ci) as [h3 t]. cbn [fst snd] in *. split.
    - eapply pres_trans; [apply incl_refl|exact Hp1|].
      eapply pres_trans; [apply incl_refl|exact Hp2|]. eapply pres_incl; [|exact Hp3]. apply incl_tl, incl_refl.
    - eapply good_incl; [exact Hg3|]. intros x Hx. apply in_app_or in Hx. apply in_or_app.
      destruct Hx as [Hx|Hx]; [now left|right; now right].
  Qed.
End Prims.

(* ---------------------------------------------------------------------------------------------- *)
(* the shield: an Enum without members accepts every string value and every Enum, so commonType returns it (or
   the other operand) before the append; whenever the append is reached both operands have members *)

Lemma asg_empty_enum_strval ci x : asg norx true (TEnum ci []) (TStringVal x) = true.
Proof. reflexivity. Qed.
Lemma asg_empty_enum_enum ci ci' vs : asg norx true (TEnum ci []) (TEnum ci' vs) = true.
Proof. reflexivity. Qed.

Lemma enum_has_member_strval h ci s x :
  asg norx true (TEnum ci (strs h s)) (TStringVal x) = false -> 1 <= s_len s.
Proof.
  intros H. destruct (s_len s) eqn:E; [|lia]. rewrite (strs_len0 h s E), asg_empty_enum_strval in H. discriminate.
Qed.

Lemma enum_has_member_enum h ci s ci' vs :
  asg norx true (TEnum ci (strs h s)) (TEnum ci' vs) = false -> 1 <= s_len s.
Proof.
  intros H. destruct (s_len s) eqn:E; [|lia]. rewrite (strs_len0 h s E), asg_empty_enum_enum in H. discriminate.
Qed.

Lemma enum_members_nonempty ci vs ci' vs' :
  asg norx true (TEnum ci vs) (TEnum ci' vs') = false -> 1 <= length vs.
Proof. intros H. destruct vs; [rewrite asg_empty_enum_enum in H; discriminate|cbn; lia]. Qed.

(* ---------------------------------------------------------------------------------------------- *)
(* commonType *)

Definition common_post (L : list slice) (h : sstore) (r : sstore * yty) : Prop :=
  pres L h (fst r) /\ good (fst r) (slices (snd r) ++ L).

Lemma common_post_shared L h t : good h L -> incl (slices t) L -> common_post L h (h, t).
Proof.
  intros Hg Hi. split; [apply pres_refl|]. cbn [fst snd]. eapply good_incl; [exact Hg|].
  intros x Hx. apply in_app_or in Hx. destruct Hx; auto.
Qed.

Lemma common_post_pure L h t : good h L -> common_post L h (h, YP t).
Proof. intros Hg. apply common_post_shared; [assumption|]. intros x []. Qed.

Lemma hcommon_f_ok g : forall n h a b L,
  good h L -> incl (slices a) L -> incl (slices b) L -> common_post L h (hcommon_f g n h a b).
Proof.
  induction n as [|n IH]; intros h a b L Hg Ha Hb; cbn [hcommon_f]; [now apply common_post_pure|].
  destruct (is_unit (tobs h a)); [now apply common_post_shared|].
  destruct (is_unit (tobs h b)); [now apply common_post_shared|].
  destruct (asg norx true (tobs h a) (tobs h b)) eqn:Hab; [now apply common_post_shared|].
  destruct (asg norx true (tobs h b) (tobs h a)) eqn:Hba; [now apply common_post_shared|].
  destruct a as [ta|ci s|e lo hi|k v lo hi|t].
  - (* a without slices *)
    destruct b as [tb|ci' s'|e' lo' hi'|k' v' lo' hi'|t']; destruct ta; try (now apply common_post_pure).
    + (* String value, String value: []string{a, b} *)
      destruct tb; try (now apply common_post_pure).
      pose proof (halloc_ok h L [s; s0] 0 Hg) as [Hp Hg'].
      destruct (halloc h [s; s0] 0) as [h' sl]. cbn [fst snd] in *. split; assumption.
    + (* String value, Enum: commonType(b, a) *)
      cbn [tobs] in Hba. apply enum_merge_ok; [assumption|apply Hb; now left|].
      apply enum_has_member_strval in Hba. cbn [length]. lia.
  - (* a is an Enum *)
    cbn [tobs] in Hab, Hba.
    destruct b as [tb|ci' s'|e' lo' hi'|k' v' lo' hi'|t']; try (now apply common_post_pure).
    + destruct tb; try (now apply common_post_pure).
      apply enum_merge_ok; [assumption|apply Ha; now left|].
      apply enum_has_member_strval in Hab. cbn [length]. lia.
    + cbn [tobs] in Hab, Hba. apply enum_merge_ok; [assumption|apply Ha; now left|].
      apply enum_has_member_enum in Hab. apply enum_members_nonempty in Hba. lia.
  - destruct b as [tb|ci' s'|e' lo' hi'|k' v' lo' hi'|t']; try (now apply common_post_pure).
    cbn [slices] in Ha, Hb. specialize (IH h e e' L Hg Ha Hb).
    destruct (hcommon_f g n h e e') as [h' c]. exact IH.
  - destruct b as [tb|ci' s'|e' lo' hi'|k' v' lo' hi'|t']; now apply common_post_pure.
  - destruct b as [tb|ci' s'|e' lo' hi'|k' v' lo' hi'|t']; try (now apply common_post_pure).
    cbn [slices] in Ha, Hb. specialize (IH h t t' L Hg Ha Hb).
    destruct (hcommon_f g n h t t') as [h' c]. exact IH.
Qed.

Lemma hcommon_ok g h a b L :
  good h L -> incl (slices a) L -> incl (slices b) L -> common_post L h (hcommon g h a b).
Proof. apply hcommon_f_ok. Qed.

(* ---------------------------------------------------------------------------------------------- *)
(* v.PType() with the cache of inferred types *)

Section IvalInd.
  Variable P : ival -> Prop.
  Hypothesis HUndef : P IUndef.
  Hypothesis HBool : forall b, P (IBool b).
  Hypothesis HInt : forall z, P (IInt z).
  Hypothesis HStr : forall s, P (IStr s).
  Hypothesis HArr : forall id vs, Forall P vs -> P (IArr id vs).
  Hypothesis HHash : forall id es, Forall (fun e => P (fst e) /\ P (snd e)) es -> P (IHash id es).

  Fixpoint ival_ind' (v : ival) : P v :=
    match v with
    | IUndef => HUndef | IBool b => HBool b | IInt z => HInt z | IStr s => HStr s
    | IArr id vs =>
        HArr id vs ((fix go (l : list ival) : Forall P l :=
                       match l with [] => Forall_nil _ | x :: r => Forall_cons _ (ival_ind' x) (go r) end) vs)
    | IHash id es =>
        HHash id es ((fix go (l : list (ival * ival)) : Forall (fun e => P (fst e) /\ P (snd e)) l :=
                        match l with
                        | [] => Forall_nil _
                        | e :: r => Forall_cons _ (conj (ival_ind' (fst e)) (ival_ind' (snd e))) (go r)
                        end) es)
    end.
End IvalInd.

Definition cache_slices (c : icache) : list slice := flat_map (fun p => slices (snd p)) c.
(* a cached type stays cached: the type a value reports is the type it reported before *)
Definition cache_ext (c c' : icache) : Prop := forall id t, clookup id c = Some t -> clookup id c' = Some t.

Lemma cache_ext_refl c : cache_ext c c.
Proof. intros id t H. exact H. Qed.
Lemma cache_ext_trans c0 c1 c2 : cache_ext c0 c1 -> cache_ext c1 c2 -> cache_ext c0 c2.
Proof. intros H1 H2 id t H. apply H2, H1, H. Qed.

Lemma clookup_slices id t : forall c, clookup id c = Some t -> incl (slices t) (cache_slices c).
Proof.
  induction c as [|[i u] c IH]; cbn [clookup cache_slices flat_map snd]; [discriminate|].
  destruct (Nat.eqb i id).
  - intros [= ->]. apply incl_appl, incl_refl.
  - intros H. apply incl_appr. now apply IH.
Qed.

Lemma cache_ext_cons id t c c' : clookup id c = None -> cache_ext c c' -> cache_ext c ((id, t) :: c').
Proof.
  intros Hn He i u Hu. cbn [clookup]. destruct (Nat.eqb id i) eqn:E.
  - apply Nat.eqb_eq in E. subst i. congruence.
  - now apply He.
Qed.

(* what a step of inference guarantees, for every set L of slices that contains the live ones *)
Definition infer_post (L : list slice) (h : sstore) (c : icache) (r : ist0 * yty) : Prop :=
  exists L', incl L L' /\ good (fst (fst r)) L' /\ pres L h (fst (fst r)) /\
             incl (cache_slices (snd (fst r))) L' /\ incl (slices (snd r)) L' /\ cache_ext c (snd (fst r)).

Definition inf_spec (inf : ival -> ist0 -> ist0 * yty) (v : ival) : Prop :=
  forall h c L, good h L -> incl (cache_slices c) L -> infer_post L h c (inf v (h, c)).

Lemma infer_post_here L h c t : good h L -> incl (cache_slices c) L -> incl (slices t) L -> infer_post L h c ((h, c), t).
Proof.
  intros Hg Hc Ht. exists L. cbn [fst snd].
  repeat split; try assumption; try apply incl_refl; try apply pres_refl; try apply cache_ext_refl; apply Hg.
Qed.

(* chaining: an inference, then a common type with a type that was live before *)
Lemma infer_then_common g L h c (r : ist0 * yty) acc :
  infer_post L h c r -> incl (slices acc) L ->
  let hc := hcommon g (fst (fst r)) acc (snd r) in
  infer_post L h c ((fst hc, snd (fst r)), snd hc).
Proof.
  intros [L1 [Hi1 [Hg1 [Hp1 [Hc1 [Ht1 He1]]]]]] Hacc. cbn zeta.
  pose proof (hcommon_ok g (fst (fst r)) acc (snd r) L1 Hg1 (incl_tran Hacc Hi1) Ht1) as [Hp2 Hg2].
  destruct (hcommon g (fst (fst r)) acc (snd r)) as [h2 t2]. cbn [fst snd] in *.
  exists (slices t2 ++ L1). repeat split.
  - apply incl_appr, Hi1.
  - apply Hg2.
  - apply Hg2.
  - eapply pres_trans; [exact Hi1|exact Hp1|exact Hp2].
  - apply incl_appr, Hc1.
  - apply incl_appl, incl_refl.
  - exact He1.
Qed.

Lemma infer_post_seq L h c (r1 : ist0 * yty) (f : ist0 * yty -> ist0 * yty) :
  infer_post L h c r1 ->
  (forall L1, incl L L1 -> good (fst (fst r1)) L1 -> incl (cache_slices (snd (fst r1))) L1 -> incl (slices (snd r1)) L1 ->
              infer_post L1 (fst (fst r1)) (snd (fst r1)) (f r1)) ->
  infer_post L h c (f r1).
Proof.
  intros [L1 [Hi1 [Hg1 [Hp1 [Hc1 [Ht1 He1]]]]]] Hf.
  destruct (Hf L1 Hi1 Hg1 Hc1 Ht1) as [L2 [Hi2 [Hg2 [Hp2 [Hc2 [Ht2 He2]]]]]].
  exists L2. repeat split; try assumption; try apply Hg2.
  - eapply incl_tran; eassumption.
  - eapply pres_trans; [exact Hi1|exact Hp1|exact Hp2].
  - eapply cache_ext_trans; eassumption.
Qed.

Lemma fold_arr_ok g inf : forall l, Forall (inf_spec inf) l ->
  forall h c acc L, good h L -> incl (cache_slices c) L -> incl (slices acc) L ->
    infer_post L h c (fold_arr g inf l (h, c) acc).
Proof.
  induction l as [|y l IH]; intros Hall h c acc L Hg Hc Hacc; cbn [fold_arr].
  - now apply infer_post_here.
  - inversion Hall as [|y' l' Hy Hl]; subst.
    pose proof (Hy h c L Hg Hc) as H1.
    pose proof (infer_then_common g L h c (inf y (h, c)) acc H1 Hacc) as H2. cbn zeta in H2.
    destruct (inf y (h, c)) as [[h1 c1] ty]. cbn [fst snd] in *.
    destruct (hcommon g h1 acc ty) as [h2 t2]. cbn [fst snd] in *.
    apply (infer_post_seq L h c ((h2, c1), t2) (fun r => fold_arr g inf l (fst r) (snd r)) H2).
    intros L1 Hi1 Hg1 Hc1 Ht1. cbn [fst snd] in *. now apply IH.
Qed.

Lemma fold_hash_ok g inf : forall l, Forall (fun e => inf_spec inf (fst e) /\ inf_spec inf (snd e)) l ->
  forall h c ka va L, good h L -> incl (cache_slices c) L -> incl (slices ka) L -> incl (slices va) L ->
    exists L', incl L L' /\
      let r := fold_hash g inf l (h, c) ka va in
      good (fst (fst r)) L' /\ pres L h (fst (fst r)) /\ incl (cache_slices (snd (fst r))) L' /\
      incl (slices (fst (snd r))) L' /\ incl (slices (snd (snd r))) L' /\ cache_ext c (snd (fst r)).
Proof.
  induction l as [|e l IH]; intros Hall h c ka va L Hg Hc Hka Hva; cbn [fold_hash].
  - exists L. cbn [fst snd]. repeat split; try assumption; try apply incl_refl; try apply pres_refl;
      try apply cache_ext_refl; apply Hg.
  - inversion Hall as [|e' l' [Hk Hv] Hl]; subst.
    (* the key *)
    pose proof (infer_then_common g L h c (inf (fst e) (h, c)) ka (Hk h c L Hg Hc) Hka) as H2. cbn zeta in H2.
    destruct (inf (fst e) (h, c)) as [[h1 c1] tk]. cbn [fst snd] in *.
    destruct (hcommon g h1 ka tk) as [h2 ka']. cbn [fst snd] in *.
    destruct H2 as [L2 [Hi2 [Hg2 [Hp2 [Hc2 [Ht2 He2]]]]]]. cbn [fst snd] in *.
    (* the value *)
    pose proof (infer_then_common g L2 h2 c1 (inf (snd e) (h2, c1)) va (Hv h2 c1 L2 Hg2 Hc2) (incl_tran Hva Hi2)) as H4.
    cbn zeta in H4.
    destruct (inf (snd e) (h2, c1)) as [[h3 c3] tv]. cbn [fst snd] in *.
    destruct (hcommon g h3 va tv) as [h4 va']. cbn [fst snd] in *.
    destruct H4 as [L4 [Hi4 [Hg4 [Hp4 [Hc4 [Ht4 He4]]]]]]. cbn [fst snd] in *.
    destruct (IH Hl h4 c3 ka' va' L4 Hg4 Hc4 (incl_tran Ht2 Hi4) Ht4) as [L5 [Hi5 H5]]. cbn zeta in H5.
    exists L5. split; [eapply incl_tran; [exact Hi2|]; eapply incl_tran; eassumption|].
    cbn zeta. destruct (fold_hash g inf l (h4, c3) ka' va') as [[h5 c5] [kf vf]]. cbn [fst snd] in *.
    destruct H5 as [Hg5 [Hp5 [Hc5 [Hk5 [Hv5 He5]]]]]. repeat split; try assumption; try apply Hg5.
    + eapply pres_trans; [exact Hi2|exact Hp2|]. eapply pres_trans; [exact Hi4|exact Hp4|exact Hp5].
    + eapply cache_ext_trans; [exact He2|]. eapply cache_ext_trans; eassumption.
Qed.

Lemma infer_post_cache L h c id (r : ist0 * yty) (t : yty) :
  clookup id c = None -> infer_post L h c r -> incl (slices t) (slices (snd r)) ->
  infer_post L h c ((fst (fst r), (id, t) :: snd (fst r)), t).
Proof.
  intros Hn [L1 [Hi1 [Hg1 [Hp1 [Hc1 [Ht1 He1]]]]]] Ht. exists L1. cbn [fst snd].
  repeat split; try assumption; try apply Hg1.
  - cbn [cache_slices flat_map snd]. apply incl_app; [eapply incl_tran; eassumption|exact Hc1].
  - eapply incl_tran; eassumption.
  - now apply cache_ext_cons.
Qed.

Lemma hinfer_ok g : forall v, inf_spec (hinfer g) v.
Proof.
  induction v as [|b|z|s|id vs IH|id es IH] using ival_ind'; intros h c L Hg Hc; cbn [hinfer snd fst];
    try (apply infer_post_here; [assumption|assumption|intros x []]).
  - destruct (clookup id c) as [t|] eqn:El.
    + apply infer_post_here; try assumption. eapply incl_tran; [eapply clookup_slices; eassumption|assumption].
    + destruct vs as [|x r]; [apply infer_post_here; [assumption|assumption|intros y []]|].
      inversion IH as [|x' r' Hx Hr]; subst.
      pose proof (Hx h c L Hg Hc) as H1.
      assert (H2 : infer_post L h c (fold_arr g (hinfer g) r (fst (hinfer g x (h, c))) (snd (hinfer g x (h, c))))).
      { apply (infer_post_seq L h c (hinfer g x (h, c)) (fun r0 => fold_arr g (hinfer g) r (fst r0) (snd r0)) H1).
        intros L1 Hi1 Hg1 Hc1 Ht1. destruct (hinfer g x (h, c)) as [[h1 c1] t0]. cbn [fst snd] in *.
        now apply fold_arr_ok. }
      destruct (hinfer g x (h, c)) as [st1 t0]. cbn [fst snd] in H2.
      destruct (fold_arr g (hinfer g) r st1 t0) as [st2 te] eqn:Ef.
      apply (infer_post_cache L h c id (st2, te)); [assumption|exact H2|]. cbn [slices snd]. apply incl_refl.
  - destruct (clookup id c) as [t|] eqn:El.
    + apply infer_post_here; try assumption. eapply incl_tran; [eapply clookup_slices; eassumption|assumption].
    + destruct es as [|e r]; [apply infer_post_here; [assumption|assumption|intros y []]|].
      inversion IH as [|e' r' [Hk Hv] Hr]; subst.
      destruct (Hk h c L Hg Hc) as [L1 [Hi1 [Hg1 [Hp1 [Hc1 [Ht1 He1]]]]]].
      destruct (hinfer g (fst e) (h, c)) as [[h1 c1] tk]. cbn [fst snd] in *.
      destruct (Hv h1 c1 L1 Hg1 Hc1) as [L2 [Hi2 [Hg2 [Hp2 [Hc2 [Ht2 He2]]]]]].
      destruct (hinfer g (snd e) (h1, c1)) as [[h2 c2] tv]. cbn [fst snd] in *.
      destruct (fold_hash_ok g (hinfer g) r Hr h2 c2 tk tv L2 Hg2 Hc2 (incl_tran Ht1 Hi2) Ht2) as [L3 [Hi3 H3]].
      cbn zeta in H3. destruct (fold_hash g (hinfer g) r (h2, c2) tk tv) as [[h3 c3] [kf vf]]. cbn [fst snd] in *.
      destruct H3 as [Hg3 [Hp3 [Hc3 [Hk3 [Hv3 He3]]]]].
      exists L3. cbn [fst snd]. repeat split; try assumption; try apply Hg3.
      * eapply incl_tran; [exact Hi1|]. eapply incl_tran; eassumption.
      * eapply pres_trans; [exact Hi1|exact Hp1|]. eapply pres_trans; [exact Hi2|exact Hp2|exact Hp3].
      * cbn [cache_slices flat_map snd slices]. apply incl_app; [apply incl_app; assumption|exact Hc3].
      * cbn [slices]. apply incl_app; assumption.
      * apply cache_ext_cons; [assumption|]. eapply cache_ext_trans; [exact He1|]. eapply cache_ext_trans; eassumption.
Qed.

(* ---------------------------------------------------------------------------------------------- *)
(* histories *)

Definition ent_slices (e : ient) : list slice := match e with ET t => slices t | EV _ => [] end.
Definition pool_slices (pool : list ient) : list slice := flat_map ent_slices pool.
Definition live (st : ist) : list slice := pool_slices (i_pool st) ++ cache_slices (i_cache st).

(* the invariant of every history: the slices of the types in the pool and in the caches of the values are
   among a set of slices that point into the store and do not overlap unless they are the same slice *)
Definition ist_wf (st : ist) : Prop := exists L, good (i_heap st) L /\ incl (live st) L.

Lemma iempty_wf : ist_wf iempty.
Proof. exists []. split; [split; [intros s []|intros s1 s2 []]|intros s []]. Qed.

Lemma pool_slices_app p q : pool_slices (p ++ q) = pool_slices p ++ pool_slices q.
Proof. unfold pool_slices. apply flat_map_app. Qed.

Lemma pool_slices_In pool e : In e pool -> incl (ent_slices e) (pool_slices pool).
Proof. intros He x Hx. unfold pool_slices. apply in_flat_map. now exists e. Qed.

Lemma EP_In pool i e : EP pool i = Some e -> In e pool.
Proof. unfold EP. apply nth_error_In. Qed.

Lemma eobs_pres L h h' e : pres L h h' -> incl (ent_slices e) L -> eobs h' e = eobs h e.
Proof. intros Hp Hi. destruct e as [v|t]; cbn [eobs]; [reflexivity|]. f_equal. eapply tobs_pres; eassumption. Qed.

Lemma sub_ty_slices t i u : sub_ty t i = Some u -> incl (slices u) (slices t).
Proof.
  destruct t as [t|ci s|e lo hi|k v lo hi|t]; destruct i as [|[|i]]; cbn [sub_ty slices]; try discriminate;
    intros [= <-]; try apply incl_refl; [apply incl_appl|apply incl_appr]; apply incl_refl.
Qed.

(* one step: the invariant is kept, nothing seen through a live slice changes, the pool grows by one entry at the
   end and every cached type stays cached *)
Definition step_post (st st' : ist) : Prop :=
  ist_wf st' /\ pres (live st) (i_heap st) (i_heap st') /\
  (exists e, i_pool st' = i_pool st ++ [e]) /\ cache_ext (i_cache st) (i_cache st').

Lemma step_post_same st e n :
  ist_wf st -> incl (ent_slices e) (live st) ->
  step_post st (mkIst (i_heap st) (i_cache st) (i_pool st ++ [e]) n).
Proof.
  intros [L [Hg Hl]] He. split; [|split; [apply pres_refl|split; [now exists e|apply cache_ext_refl]]].
  exists L. split; [exact Hg|]. unfold live in *. cbn [i_pool i_cache i_heap].
  rewrite pool_slices_app. intros x Hx. apply in_app_or in Hx. destruct Hx as [Hx|Hx].
  - apply in_app_or in Hx. destruct Hx as [Hx|Hx]; [apply Hl, in_or_app; now left|].
    unfold pool_slices in Hx. cbn [flat_map] in Hx. rewrite app_nil_r in Hx. apply Hl, He, Hx.
  - apply Hl, in_or_app. now right.
Qed.

Lemma step_post_new st h' c' e n L' :
  incl (live st) L' -> good h' L' -> pres (live st) (i_heap st) h' ->
  incl (cache_slices c') L' -> incl (ent_slices e) L' -> cache_ext (i_cache st) c' ->
  step_post st (mkIst h' c' (i_pool st ++ [e]) n).
Proof.
  intros Hl Hg Hp Hc He Hx. split; [|split; [exact Hp|split; [now exists e|exact Hx]]].
  exists L'. split; [exact Hg|]. unfold live in *. cbn [i_pool i_cache i_heap].
  rewrite pool_slices_app. apply incl_app; [apply incl_app|exact Hc].
  - eapply incl_tran; [|exact Hl]. apply incl_appl, incl_refl.
  - unfold pool_slices. cbn [flat_map]. now rewrite app_nil_r.
Qed.

Lemma live_pool st i e : EP (i_pool st) i = Some e -> incl (ent_slices e) (live st).
Proof. intros H. apply incl_appl. apply pool_slices_In. eapply EP_In; eassumption. Qed.

Lemma istep_ok g st o : ist_wf st -> step_post st (fst (istep g st o)).
Proof.
  intros Hw. pose proof Hw as [L [Hg Hl]].
  assert (Hfail : step_post st (fst (ifail st))).
  { unfold ifail. cbn [fst]. apply step_post_same; [assumption|intros x []]. }
  destruct o as [p|rs|krs|r x|r i|r i|ci vs spare|r|r x]; cbn [istep].
  - destruct (lit_ival (i_next st) p) as [n' v]. cbn [ipush fst]. apply step_post_same; [assumption|intros x []].
  - destruct (pool_vals (i_pool st) rs); [|exact Hfail]. cbn [ipush fst]. apply step_post_same; [assumption|intros x []].
  - destruct (pool_entries (i_pool st) krs); [|exact Hfail]. cbn [ipush fst]. apply step_post_same; [assumption|intros x []].
  - destruct (EP (i_pool st) r) as [[[]|]|]; try exact Hfail.
    destruct (EP (i_pool st) x) as [[]|]; try exact Hfail. cbn [ipush fst]. apply step_post_same; [assumption|intros y []].
  - destruct (EP (i_pool st) r) as [[[]|]|]; try exact Hfail. cbn [ipush fst]. apply step_post_same; [assumption|intros y []].
  - destruct (EP (i_pool st) r) as [[|t]|] eqn:Er; try exact Hfail.
    destruct (sub_ty t i) as [u|] eqn:Es; [|exact Hfail]. cbn [ipush fst]. apply step_post_same; [assumption|].
    cbn [ent_slices]. eapply incl_tran; [eapply sub_ty_slices; eassumption|]. apply (live_pool st r (ET t) Er).
  - pose proof (halloc_ok (i_heap st) L vs (length vs + spare) Hg) as [Hp1 Hg1].
    destruct (halloc (i_heap st) vs (length vs + spare)) as [h1 s]. cbn [fst snd] in *.
    pose proof (hnew_enum_ok h1 (s :: L) s ci Hg1 (or_introl eq_refl)) as [Hp2 Hg2].
    destruct (hnew_enum h1 s ci) as [h2 t]. cbn [fst snd ipush] in *.
    apply (step_post_new st h2 (i_cache st) (ET t) (i_next st) (slices t ++ s :: L)).
    + apply incl_appr, incl_tl, Hl.
    + exact Hg2.
    + eapply pres_incl; [exact Hl|]. eapply pres_trans; [apply incl_tl, incl_refl|exact Hp1|exact Hp2].
    + apply incl_appr, incl_tl. eapply incl_tran; [|exact Hl]. apply incl_appr, incl_refl.
    + cbn [ent_slices]. apply incl_appl, incl_refl.
    + apply cache_ext_refl.
  - destruct (EP (i_pool st) r) as [[v|t]|] eqn:Er; try exact Hfail.
    + assert (Hc : incl (cache_slices (i_cache st)) L) by (eapply incl_tran; [|exact Hl]; apply incl_appr, incl_refl).
      destruct (hinfer_ok g v (i_heap st) (i_cache st) L Hg Hc) as [L1 [Hi1 [Hg1 [Hp1 [Hc1 [Ht1 He1]]]]]].
      destruct (hinfer g v (i_heap st, i_cache st)) as [[h1 c1] t]. cbn [fst snd ipush] in *.
      apply (step_post_new st h1 c1 (ET t) (i_next st) L1); try assumption.
      * eapply incl_tran; eassumption.
      * eapply pres_incl; eassumption.
    + cbn [ipush fst]. apply step_post_same; [assumption|]. cbn [ent_slices slices]. apply (live_pool st r (ET t) Er).
  - destruct (EP (i_pool st) r) as [[|a]|] eqn:Er; try exact Hfail.
    destruct (EP (i_pool st) x) as [[|b]|] eqn:Ex; try exact Hfail.
    pose proof (live_pool st r (ET a) Er) as Ha. pose proof (live_pool st x (ET b) Ex) as Hb. cbn [ent_slices] in Ha, Hb.
    destruct (hcommon_ok g (i_heap st) a b L Hg (incl_tran Ha Hl) (incl_tran Hb Hl)) as [Hp1 Hg1].
    destruct (hcommon g (i_heap st) a b) as [h1 t]. cbn [fst snd ipush] in *.
    apply (step_post_new st h1 (i_cache st) (ET t) (i_next st) (slices t ++ L)).
    + apply incl_appr, Hl.
    + exact Hg1.
    + eapply pres_incl; eassumption.
    + apply incl_appr. eapply incl_tran; [|exact Hl]. apply incl_appr, incl_refl.
    + cbn [ent_slices]. apply incl_appl, incl_refl.
    + apply cache_ext_refl.
Qed.

Lemma irun_cons g st o t :
  irun g st (o :: t) = let '(st1, r) := istep g st o in let '(st2, rs) := irun g st1 t in (st2, r :: rs).
Proof. reflexivity. Qed.

Lemma live_mono st st' : (exists e, i_pool st' = i_pool st ++ [e]) -> cache_ext (i_cache st) (i_cache st') ->
  incl (pool_slices (i_pool st)) (live st').
Proof. intros [e He] _. unfold live. rewrite He, pool_slices_app. apply incl_appl, incl_appl, incl_refl. Qed.

(* a whole history: the invariant, the pool grows at the end by one entry per step, and the cells seen through the
   slices of the types that were in the pool or cached at the start are untouched *)
Definition seen (st : ist) (s : slice) : Prop :=
  In s (pool_slices (i_pool st)) \/ exists id t, clookup id (i_cache st) = Some t /\ In s (slices t).

Lemma seen_live st s : seen st s -> In s (live st).
Proof.
  intros [H|[id [t [Hc Hs]]]]; apply in_or_app; [now left|right]. eapply clookup_slices; eassumption.
Qed.

Lemma irun_ok g : forall ops st, ist_wf st ->
  let st' := fst (irun g st ops) in
  ist_wf st' /\ (forall s, seen st s -> hread (i_heap st') s = hread (i_heap st) s) /\
  (exists more, i_pool st' = i_pool st ++ more /\ length more = length ops) /\
  cache_ext (i_cache st) (i_cache st').
Proof.
  induction ops as [|o t IH]; intros st Hw; cbn zeta.
  - cbn [irun fst]. repeat split; try assumption; try apply cache_ext_refl.
    exists []. now rewrite app_nil_r.
  - rewrite irun_cons. pose proof (istep_ok g st o Hw) as [Hw1 [Hp1 [[e He] Hc1]]].
    destruct (istep g st o) as [st1 r]. cbn [fst] in *.
    specialize (IH st1 Hw1). cbn zeta in IH. destruct (irun g st1 t) as [st2 rs]. cbn [fst] in *.
    destruct IH as [Hw2 [Hp2 [[more [Hm Hl]] Hc2]]]. repeat split.
    + exact Hw2.
    + intros s Hs. rewrite Hp2.
      * apply Hp1. now apply seen_live.
      * destruct Hs as [Hs|[id [u [Hu Hs]]]]; [left|right].
        -- rewrite He, pool_slices_app. apply in_or_app. now left.
        -- exists id, u. split; [now apply Hc1|assumption].
    + exists (e :: more). rewrite Hm, He, <- app_assoc. split; [reflexivity|cbn; lia].
    + eapply cache_ext_trans; eassumption.
Qed.

Lemma irun_wf g ops st : ist_wf st -> ist_wf (fst (irun g st ops)).
Proof. intros Hw. apply (irun_ok g ops st Hw). Qed.

Lemma tobs_seen (P : slice -> Prop) h h' : (forall s, P s -> hread h' s = hread h s) ->
  forall t, (forall s, In s (slices t) -> P s) -> tobs h' t = tobs h t.
Proof.
  intros Hp. induction t as [t|ci s|e IHe lo hi|k IHk v IHv lo hi|t IHt]; cbn [tobs slices]; intros Hi.
  - reflexivity.
  - unfold strs. rewrite Hp; [reflexivity|]. apply Hi. now left.
  - now rewrite IHe.
  - rewrite IHk, IHv; [reflexivity| |]; intros x Hx; apply Hi, in_or_app; auto.
  - now rewrite IHt.
Qed.

(* C08 for types: no history changes the deep observation of an entry of the pool - a value, or a TYPE returned
   by an earlier inference / common type / parse *)
Theorem infer_frame g ops st : ist_wf st ->
  forall e, In e (i_pool st) -> eobs (i_heap (fst (irun g st ops))) e = eobs (i_heap st) e.
Proof.
  intros Hw e He. destruct (irun_ok g ops st Hw) as [_ [Hp _]].
  destruct e as [v|t]; cbn [eobs]; [reflexivity|]. f_equal.
  apply (tobs_seen (seen st)); [exact Hp|]. intros s Hs. left.
  apply (pool_slices_In (i_pool st) (ET t) He). exact Hs.
Qed.

(* ... and the type a value reports: once an Array / Hash object has cached its inferred type, it reports the same
   type object for ever, and what that type contains does not change *)
Theorem cached_type_stable g ops st : ist_wf st ->
  forall id t, clookup id (i_cache st) = Some t ->
    clookup id (i_cache (fst (irun g st ops))) = Some t /\
    tobs (i_heap (fst (irun g st ops))) t = tobs (i_heap st) t.
Proof.
  intros Hw id t Hc. destruct (irun_ok g ops st Hw) as [_ [Hp [_ Hx]]]. split; [now apply Hx|].
  apply (tobs_seen (seen st)); [exact Hp|]. intros s Hs. right. now exists id, t.
Qed.

Lemma irun_app g : forall ops1 ops2 st,
  irun g st (ops1 ++ ops2) =
  let '(st1, r1) := irun g st ops1 in let '(st2, r2) := irun g st1 ops2 in (st2, r1 ++ r2).
Proof.
  induction ops1 as [|o t IH]; intros ops2 st.
  - cbn [app irun]. destruct (irun g st ops2); reflexivity.
  - cbn [app]. rewrite !irun_cons. destruct (istep g st o) as [st1 r]. rewrite IH.
    destruct (irun g st1 t) as [st2 rs]. destruct (irun g st2 ops2); reflexivity.
Qed.

(* in the terms of the harness: what is observed of the entries of a history after ANY continuation is what was
   observed at the end of the history itself *)
Theorem ifinal_stable g ops1 ops2 :
  firstn (length ops1) (ifinal (fst (irun g iempty (ops1 ++ ops2)))) = ifinal (fst (irun g iempty ops1)).
Proof.
  rewrite irun_app.
  pose proof (irun_ok g ops1 iempty iempty_wf) as [Hw [_ [[m1 [Hm1 Hl1]] _]]]. cbn zeta in *.
  destruct (irun g iempty ops1) as [st1 r1]. cbn [fst] in *.
  pose proof (infer_frame g ops2 st1 Hw) as Hf.
  pose proof (irun_ok g ops2 st1 Hw) as [_ [_ [[m2 [Hm2 Hl2]] _]]]. cbn zeta in *.
  destruct (irun g st1 ops2) as [st2 r2]. cbn [fst] in *.
  unfold ifinal. rewrite Hm2, map_app.
  assert (Hlen : length ops1 = length (map (eobs (i_heap st2)) (i_pool st1))).
  { rewrite map_length, Hm1. cbn. lia. }
  rewrite Hlen, firstn_app, Nat.sub_diag, firstn_all. cbn [firstn]. rewrite app_nil_r.
  apply map_ext_in. intros x Hx. now apply Hf.
Qed.

Lemma istep_out g st o :
  let st' := fst (istep g st o) in
  match snd (istep g st o) with
  | IVal p => exists e, i_pool st' = i_pool st ++ [e] /\ p = eobs (i_heap st') e
  | IErr => i_pool st' = i_pool st ++ [EV IUndef]
  end.
Proof.
  assert (Hpush : forall h c n e, let r := ipush st h c n e in
            match snd r with
            | IVal p => exists e0, i_pool (fst r) = i_pool st ++ [e0] /\ p = eobs (i_heap (fst r)) e0
            | IErr => i_pool (fst r) = i_pool st ++ [EV IUndef]
            end).
  { intros h c n e. cbn. now exists e. }
  cbn zeta. destruct o as [p|rs|krs|r x|r i|r i|ci vs spare|r|r x]; cbn [istep].
  - destruct (lit_ival (i_next st) p). apply Hpush.
  - destruct (pool_vals (i_pool st) rs); [apply Hpush|reflexivity].
  - destruct (pool_entries (i_pool st) krs); [apply Hpush|reflexivity].
  - destruct (EP (i_pool st) r) as [[[]|]|]; try reflexivity.
    destruct (EP (i_pool st) x) as [[]|]; try reflexivity. apply Hpush.
  - destruct (EP (i_pool st) r) as [[[]|]|]; try reflexivity. apply Hpush.
  - destruct (EP (i_pool st) r) as [[|t]|]; try reflexivity. destruct (sub_ty t i); [apply Hpush|reflexivity].
  - destruct (halloc (i_heap st) vs (length vs + spare)) as [h1 s]. destruct (hnew_enum h1 s ci) as [h2 t]. apply Hpush.
  - destruct (EP (i_pool st) r) as [[v|t]|]; try reflexivity; [|apply Hpush].
    destruct (hinfer g v (i_heap st, i_cache st)) as [st0 t]. apply Hpush.
  - destruct (EP (i_pool st) r) as [[|a]|]; try reflexivity.
    destruct (EP (i_pool st) x) as [[|b]|]; try reflexivity.
    destruct (hcommon g (i_heap st) a b) as [h' t]. apply Hpush.
Qed.

Lemma skipn_map_app' {A B} (f : A -> B) l1 l2 : skipn (length l1) (map f (l1 ++ l2)) = map f l2.
Proof. rewrite map_app, <- (map_length f l1), skipn_app, skipn_all, Nat.sub_diag. reflexivity. Qed.

(* the result of every step, as observed when the step returned, is what is observed of it at the end *)
Definition iout_matches (r : iout) (p : iobs) : Prop :=
  match r with IVal q => q = p | IErr => p = OV PUndef end.

Theorem iresults_stable g : forall ops st, ist_wf st ->
  Forall2 iout_matches (snd (irun g st ops)) (skipn (length (i_pool st)) (ifinal (fst (irun g st ops)))).
Proof.
  induction ops as [|o t IH]; intros st Hw.
  - cbn [irun fst snd]. unfold ifinal. rewrite <- (map_length (eobs (i_heap st))), skipn_all. constructor.
  - rewrite irun_cons.
    pose proof (istep_out g st o) as Ho. pose proof (istep_ok g st o Hw) as [Hw1 _].
    destruct (istep g st o) as [st1 r]. cbn [fst snd] in *.
    specialize (IH st1 Hw1). pose proof (infer_frame g t st1 Hw1) as Hf.
    pose proof (irun_ok g t st1 Hw1) as [_ [_ [[more [Hm Hl]] _]]]. cbn zeta in *.
    destruct (irun g st1 t) as [st2 rs]. cbn [fst snd] in *.
    assert (Hv : exists e, i_pool st1 = i_pool st ++ [e] /\ iout_matches r (eobs (i_heap st2) e)).
    { destruct r as [p|].
      - destruct Ho as [e [Hp ->]]. exists e. split; [assumption|]. cbn. symmetry. apply Hf. rewrite Hp.
        apply in_or_app; right; now left.
      - exists (EV IUndef). split; [assumption|reflexivity]. }
    destruct Hv as [e [Hp Hr]].
    unfold ifinal in *. rewrite Hm in *. rewrite skipn_map_app' in IH.
    rewrite Hp, <- app_assoc. cbn [app]. rewrite skipn_map_app'. cbn [map].
    constructor; assumption.
Qed.

(* ---------------------------------------------------------------------------------------------- *)
(* sensitivity: the model expresses the seeded defect.  With a utils.Unique that hands back its argument when
   nothing was removed, the members of the merged Enum live in the spare capacity of the members of the first
   operand, and the next merge on the same operand overwrites them:
     e := Enum['a','b',false] (one spare cell); c1 := commonType(e, String 'y'); commonType(e, String 'z')
   turns c1 = Enum['a','b','y'] into Enum['a','b','z']. *)
Example unique_shortcut_breaks_frame :
  let a := [97%N] in let b := [98%N] in let y := [121%N] in let z := [122%N] in
  let '(h0, s) := halloc ([] : sstore) [a; b] 3 in
  let '(h1, c1) := enum_merge_shortcut (fun _ n => n) h0 s [y] false in
  let '(h2, c2) := enum_merge_shortcut (fun _ n => n) h1 s [z] false in
  tobs h1 c1 = TEnum false [a; b; y] /\ tobs h2 c1 = TEnum false [a; b; z] /\
  (* the code as it is: *)
  let '(k1, d1) := enum_merge (fun _ n => n) h0 s [y] false in
  let '(k2, d2) := enum_merge (fun _ n => n) k1 s [z] false in
  tobs k1 d1 = TEnum false [a; b; y] /\ tobs k2 d1 = TEnum false [a; b; y] /\ tobs k2 d2 = TEnum false [a; b; z].
Proof. vm_compute. repeat split; reflexivity. Qed.
