(* LoaderAddProofs.v — px.AddTypes (Model/LoaderAdd.v) refines its abstract specification: the forward simulation of
   Proofs/LoaderProofs.v extended to histories with AddTypes operations. *)
From Coq Require Import Arith NArith Bool List Lia.
From PcoreV Require Import Model.Base Model.Loader Model.LoaderSpec Model.LoaderAdd Proofs.LoaderNames Proofs.LoaderProofs.
Import ListNotations.

Definition aout_fine (o : aout) : Prop :=
  o = AOk \/ o = AErr ERedefine \/ o = AErr ERedefineType \/ o = ABadLoader \/ o = AErr EOther.

Lemma aout_fine_ok x o : aout_fine o -> xout_ok (XAddTypes (fst x) (snd x)) (XA o) = true.
Proof. intros [->|[->|[->|[->| ->]]]]; reflexivity. Qed.

Lemma aout_fine_ok_decl x o : aout_fine o -> xout_ok (XDeclare (fst x) (snd x)) (XA o) = true.
Proof. intros [->|[->|[->|[->| ->]]]]; reflexivity. Qed.

Section Sim.
  Variable cfg : config.
  Variables L base : nat.

  Lemma exec_set_sim st r n v st' o :
    inv st -> tn_wf (norm n) = true ->
    exec_set (step cfg) L base st r n v = (st', o) ->
    inv st' /\ exec_set (spec_step cfg) L base (abs st) r n v = (abs st', o) /\ aout_fine o.
  Proof.
    intros Hi Hw H. unfold exec_set in *.
    destruct (step cfg st (ODefine (ref_idx L base r) n v)) as [st1 r1] eqn:E.
    destruct (step_sim cfg st (ODefine (ref_idx L base r) n v) st1 r1 Hi Hw E) as (Hi1 & Hs & Hok).
    rewrite Hs. injection H as <- <-. split; [exact Hi1|].
    unfold aout_fine.
    destruct r1 as [| | | |[| |]| | |[| |]| |]; cbn [out_ok] in Hok; try discriminate; cbn [project aout_of]; auto 8.
  Qed.

  Lemma exec_act_sim st a st' o :
    inv st -> tn_wf (norm (act_name a)) = true ->
    exec_act (step cfg) L base st a = (st', o) ->
    inv st' /\ exec_act (spec_step cfg) L base (abs st) a = (abs st', o) /\ aout_fine o.
  Proof.
    intros Hi Hw H. destruct a as [r n v|r n v]; cbn [exec_act act_name] in *.
    - eapply exec_set_sim; eauto.
    - destruct (step cfg st (OLoadEntry (ref_idx L base r) n)) as [st1 r1] eqn:E.
      destruct (step_sim cfg st (OLoadEntry (ref_idx L base r) n) st1 r1 Hi Hw E) as (Hi1 & Hs & Hok).
      rewrite Hs.
      destruct r1 as [| | | |[| |]| | |[| |]| |]; cbn [out_ok] in Hok; try discriminate; cbn [project].
      + injection H as <- <-. split; [exact Hi1|]. split; [reflexivity|]. unfold aout_fine. cbn [aout_of]. auto 8.
      + eapply exec_set_sim; eauto.
      + eapply exec_set_sim; eauto.
      + injection H as <- <-. split; [exact Hi1|]. split; [reflexivity|]. unfold aout_fine. auto 8.
  Qed.

  Lemma exec_acts_sim : forall acts st st' o,
    inv st -> forallb (fun a => tn_wf (norm (act_name a))) acts = true ->
    exec_acts (step cfg) L base st acts = (st', o) ->
    inv st' /\ exec_acts (spec_step cfg) L base (abs st) acts = (abs st', o) /\ aout_fine o.
  Proof.
    induction acts as [|a acts IH]; intros st st' o Hi Hw H; cbn [exec_acts forallb] in *.
    - injection H as <- <-. split; [exact Hi|]. split; [reflexivity|]. unfold aout_fine. auto 8.
    - apply andb_prop in Hw. destruct Hw as [Hwa Hw].
      destruct (exec_act (step cfg) L base st a) as [st1 o1] eqn:E.
      destruct (exec_act_sim st a st1 o1 Hi Hwa E) as (Hi1 & Hs & Hf). rewrite Hs.
      destruct o1; try (injection H as <- <-; split; [exact Hi1|]; split; [reflexivity|exact Hf]).
      eapply IH; eauto.
  Qed.

  Lemma exec_instr_sim st i st' o :
    inv st -> instr_wf i = true ->
    exec_instr (step cfg) add_node (@length lnode) L base st i = (st', o) ->
    inv st' /\ exec_instr (spec_step cfg) spec_add (@length anode) L base (abs st) i = (abs st', o) /\ aout_fine o.
  Proof.
    intros Hi Hw H. destruct i as [a|p ts|r n body|c]; cbn [exec_instr instr_wf] in *.
    4: { injection H as <- <-. split; [exact Hi|]. split; [reflexivity|]. unfold aout_fine. destruct c; auto 6. }
    - eapply exec_act_sim; eauto.
    - rewrite abs_length.
      destruct (Nat.ltb_spec (ref_idx L base p) (length st)) as [Hl|Hl].
      + destruct (add_node st (KTypeSet (ref_idx L base p) ts)) as [st1 r1] eqn:E.
        destruct (add_node_sim st (KTypeSet (ref_idx L base p) ts) st1 r1 Hi ltac:(intros q Eq; cbn [parent_of] in Eq; injection Eq as <-; exact Hl) E) as (Hi1 & Hs & ->).
        rewrite Hs. injection H as <- <-. split; [exact Hi1|]. split; [reflexivity|]. unfold aout_fine. auto 8.
      + injection H as <- <-. split; [exact Hi|]. split; [reflexivity|]. unfold aout_fine. auto 8.
    - apply andb_prop in Hw. destruct Hw as [Hwn Hwb].
      destruct (step cfg st (OLoadEntry (ref_idx L base r) n)) as [st1 r1] eqn:E.
      destruct (step_sim cfg st (OLoadEntry (ref_idx L base r) n) st1 r1 Hi Hwn E) as (Hi1 & Hs & Hok).
      rewrite Hs.
      destruct r1 as [| | | |[| |]| | |[| |]| |]; cbn [out_ok] in Hok; try discriminate; cbn [project].
      + injection H as <- <-. split; [exact Hi1|]. split; [reflexivity|]. unfold aout_fine. cbn [aout_of]. auto 8.
      + eapply exec_acts_sim; eauto.
      + eapply exec_acts_sim; eauto.
      + injection H as <- <-. split; [exact Hi1|]. split; [reflexivity|]. unfold aout_fine. auto 8.
  Qed.

  Lemma exec_sim : forall is st st' o,
    inv st -> forallb instr_wf is = true ->
    exec (step cfg) add_node (@length lnode) L base st is = (st', o) ->
    inv st' /\ exec (spec_step cfg) spec_add (@length anode) L base (abs st) is = (abs st', o) /\ aout_fine o.
  Proof.
    induction is as [|i is IH]; intros st st' o Hi Hw H; cbn [exec forallb] in *.
    - injection H as <- <-. split; [exact Hi|]. split; [reflexivity|]. unfold aout_fine. auto 8.
    - apply andb_prop in Hw. destruct Hw as [Hwi Hw].
      destruct (exec_instr (step cfg) add_node (@length lnode) L base st i) as [st1 o1] eqn:E.
      destruct (exec_instr_sim st i st1 o1 Hi Hwi E) as (Hi1 & Hs & Hf). rewrite Hs.
      destruct o1; try (injection H as <- <-; split; [exact Hi1|]; split; [reflexivity|exact Hf]).
      eapply IH; eauto.
  Qed.
End Sim.

Lemma xstep_sim cfg st x st' r :
  inv st -> xop_wf cfg x = true -> xstep cfg st x = (st', r) ->
  inv st' /\ spec_xstep cfg (abs st) x = (abs st', xproject r) /\ xout_ok x r = true.
Proof.
  intros Hi Hw H. destruct x as [o|l ts|l ts]; cbn [xstep spec_xstep xop_wf] in *.
  - destruct (step cfg st o) as [st1 r1] eqn:E.
    destruct (step_sim cfg st o st1 r1 Hi Hw E) as (Hi1 & Hs & Hok).
    rewrite Hs. injection H as <- <-. split; [exact Hi1|]. split; [reflexivity|exact Hok].
  - rewrite abs_length.
    destruct (Nat.ltb l (length st)).
    + destruct (exec (step cfg) add_node (@length lnode) l (length st) st (compile (cfg_auth cfg) ts)) as [st1 o1] eqn:E.
      destruct (exec_sim cfg l (length st) _ st st1 o1 Hi Hw E) as (Hi1 & Hs & Hf).
      rewrite Hs. injection H as <- <-. split; [exact Hi1|]. split; [reflexivity|].
      exact (aout_fine_ok (l, ts) o1 Hf).
    + injection H as <- <-. split; [exact Hi|]. split; reflexivity.
  - rewrite abs_length.
    destruct (Nat.ltb l (length st)).
    + destruct (exec (step cfg) add_node (@length lnode) l (length st) st (compile_decl (cfg_auth cfg) ts)) as [st1 o1] eqn:E.
      destruct (exec_sim cfg l (length st) _ st st1 o1 Hi Hw E) as (Hi1 & Hs & Hf).
      rewrite Hs. injection H as <- <-. split; [exact Hi1|]. split; [reflexivity|].
      exact (aout_fine_ok_decl (l, ts) o1 Hf).
    + injection H as <- <-. split; [exact Hi|]. split; reflexivity.
Qed.

Lemma xrun_from_sim cfg : forall xs st,
  inv st -> forallb (xop_wf cfg) xs = true ->
  inv (fst (xrun_from cfg st xs)) /\
  spec_xrun_from cfg (abs st) xs = (abs (fst (xrun_from cfg st xs)), map xproject (snd (xrun_from cfg st xs))) /\
  Forall2 (fun x r => xout_ok x r = true) xs (snd (xrun_from cfg st xs)).
Proof.
  induction xs as [|x xs IH]; intros st Hi Hw.
  - cbn. split; [exact Hi|]. split; [reflexivity|constructor].
  - cbn [forallb] in Hw. apply andb_prop in Hw. destruct Hw as [Hwx Hw].
    cbn [xrun_from spec_xrun_from].
    destruct (xstep cfg st x) as [st1 r] eqn:Hs.
    destruct (xstep_sim cfg st x st1 r Hi Hwx Hs) as (Hi1 & Hsp & Hok).
    rewrite Hsp. destruct (IH st1 Hi1 Hw) as (Hi2 & Hsp2 & Hok2).
    rewrite Hsp2. destruct (xrun_from cfg st1 xs) as [st2 rs]. cbn [fst snd map] in *.
    split; [exact Hi2|]. split; [reflexivity|]. constructor; assumption.
Qed.

(* Histories with px.AddTypes refine the write-once specification. *)
Theorem xloader_refines cfg xs :
  cfg_wf cfg = true -> forallb (xop_wf cfg) xs = true -> map xproject (xouts cfg xs) = spec_xouts cfg xs.
Proof.
  intros Hc Hw. unfold xouts, spec_xouts, xrun, spec_xrun.
  destruct (xrun_from_sim cfg xs (init_state cfg) (inv_init cfg Hc) Hw) as (_ & Hs & _).
  rewrite abs_init in Hs. rewrite Hs. reflexivity.
Qed.

Theorem xloader_state_refines cfg xs :
  cfg_wf cfg = true -> forallb (xop_wf cfg) xs = true -> abs (fst (xrun cfg xs)) = fst (spec_xrun cfg xs).
Proof.
  intros Hc Hw. unfold xrun, spec_xrun.
  destruct (xrun_from_sim cfg xs (init_state cfg) (inv_init cfg Hc) Hw) as (_ & Hs & _).
  rewrite abs_init in Hs. rewrite Hs. reflexivity.
Qed.

Theorem xreachable_inv cfg xs :
  cfg_wf cfg = true -> forallb (xop_wf cfg) xs = true -> inv (fst (xrun cfg xs)).
Proof.
  intros Hc Hw. unfold xrun. apply (xrun_from_sim cfg xs (init_state cfg) (inv_init cfg Hc) Hw).
Qed.

Theorem xresults_classified cfg xs :
  cfg_wf cfg = true -> forallb (xop_wf cfg) xs = true -> Forall2 (fun x r => xout_ok x r = true) xs (xouts cfg xs).
Proof.
  intros Hc Hw. unfold xouts, xrun. apply (xrun_from_sim cfg xs (init_state cfg) (inv_init cfg Hc) Hw).
Qed.

(* a history without AddTypes is a history of Model/Loader.v *)
Lemma xrun_from_embed cfg : forall ops st,
  xrun_from cfg st (map XOp ops) = (fst (run_from cfg st ops), map XR (snd (run_from cfg st ops))).
Proof.
  induction ops as [|o ops IH]; intros st; [reflexivity|].
  cbn [map xrun_from run_from xstep]. destruct (step cfg st o) as [st1 r]. rewrite IH.
  destruct (run_from cfg st1 ops) as [st2 rs]. reflexivity.
Qed.

Theorem xrun_embed cfg ops : xrun cfg (map XOp ops) = (fst (run cfg ops), map XR (outs cfg ops)).
Proof. unfold xrun, run, outs. apply xrun_from_embed. Qed.

(* ---------------------------------------------------------------------------------------------- *)
(* one more operation *)

Definition xresult_after (cfg : config) (xs : list xop) (x : xop) : xout := snd (xstep cfg (fst (xrun cfg xs)) x).

Lemma xrun_from_app cfg : forall xs1 xs2 st,
  xrun_from cfg st (xs1 ++ xs2) =
  (fst (xrun_from cfg (fst (xrun_from cfg st xs1)) xs2),
   snd (xrun_from cfg st xs1) ++ snd (xrun_from cfg (fst (xrun_from cfg st xs1)) xs2)).
Proof.
  induction xs1 as [|x xs1 IH]; intros xs2 st.
  - cbn. destruct (xrun_from cfg st xs2). reflexivity.
  - cbn [app xrun_from]. destruct (xstep cfg st x) as [st1 r]. rewrite IH.
    destruct (xrun_from cfg st1 xs1) as [st2 rs]. cbn [fst snd].
    destruct (xrun_from cfg st2 xs2). reflexivity.
Qed.

Lemma xrun_snoc cfg xs x :
  xrun cfg (xs ++ [x]) = (fst (xstep cfg (fst (xrun cfg xs)) x), xouts cfg xs ++ [xresult_after cfg xs x]).
Proof.
  unfold xrun, xouts, xresult_after, xrun. rewrite xrun_from_app. cbn [xrun_from].
  destruct (xstep cfg (fst (xrun_from cfg (init_state cfg) xs)) x). reflexivity.
Qed.

Lemma xresult_after_sim cfg xs x :
  cfg_wf cfg = true -> forallb (xop_wf cfg) xs = true -> xop_wf cfg x = true ->
  inv (fst (xrun cfg xs)) /\
  spec_xstep cfg (abs (fst (xrun cfg xs))) x = (abs (fst (xrun cfg (xs ++ [x]))), xproject (xresult_after cfg xs x)).
Proof.
  intros Hc Hw Hx. pose proof (xreachable_inv cfg xs Hc Hw) as Hi. split; [exact Hi|].
  rewrite xrun_snoc. cbn [fst]. unfold xresult_after.
  destruct (xstep cfg (fst (xrun cfg xs)) x) as [st' r] eqn:E.
  destruct (xstep_sim cfg _ x st' r Hi Hx E) as (_ & Hs & _). exact Hs.
Qed.
