(* SerStructProofs.v — object instances (Model/SerStruct.v): the init hash leaves out exactly the default-valued
   attributes, and InitFromHash of the consumer (fill, trim again, set every field) puts every one of them
   back.  Property C10. *)
From Coq Require Import ZArith NArith Bool Lia List.
From PcoreV Require Import Model.Base Model.Ser Model.SerAttrs Model.SerStruct
  Proofs.SerProofs Proofs.SerDeserProofs Proofs.SerAttrsProofs.
Import ListNotations.
Local Open Scope nat_scope.

Section StructProofs.
Context {payload : Type}.
Notation attr := (attr payload).
Notation decl := (decl payload).

(* ---- the init hash ---- *)

Theorem init_attrs_spec (l : list attr) (a : attr) :
  In a (init_attrs l) <-> In a l /\ a_isdef a = false.
Proof.
  unfold init_attrs. rewrite filter_In. split; intros [Hin Hd]; split; auto.
  - now destruct (a_isdef a).
  - now rewrite Hd.
Qed.

Lemma in_map_filter {A B} (g : A -> B) (f : A -> bool) l s :
  In s (map g (filter f l)) -> In s (map g l).
Proof.
  rewrite !in_map_iff. intros (x & Hx & Hin). exists x. split; [exact Hx|].
  apply filter_In in Hin. tauto.
Qed.

Lemma NoDup_map_filter {A B} (g : A -> B) (f : A -> bool) l :
  NoDup (map g l) -> NoDup (map g (filter f l)).
Proof.
  induction l as [|a l IH]; intros Hnd; cbn; [constructor|].
  cbn in Hnd. inversion Hnd as [|? ? Hnotin Hnd']; subst.
  destruct (f a); [|now apply IH].
  cbn. constructor; [|now apply IH].
  intros Hin. apply Hnotin. now apply in_map_filter in Hin.
Qed.

Lemma NoDup_map_inj {A B} (g : A -> B) l x y :
  NoDup (map g l) -> In x l -> In y l -> g x = g y -> x = y.
Proof.
  induction l as [|a l IH]; intros Hnd Hx Hy Hg; [destruct Hx|].
  cbn in Hnd. inversion Hnd as [|? ? Hnotin Hnd']; subst.
  destruct Hx as [->|Hx], Hy as [->|Hy]; auto.
  - exfalso. apply Hnotin. rewrite Hg. now apply in_map.
  - exfalso. apply Hnotin. rewrite <- Hg. now apply in_map.
Qed.

(* the constructor from the hash of ANY sub-collection k of the attributes that misses only default-valued ones
   rebuilds all attribute values (Proofs/SerAttrsProofs.trim_fill is the instance k = a prefix) *)
Lemma fill_of_subset (l k : list attr) (ds : list decl) :
  Forall2 (fun a d => d_name d = a_name a /\ isdef_sound a d) l ds ->
  NoDup (map a_name l) ->
  (forall a, In a k -> In a l) ->
  NoDup (map a_name k) ->
  (forall a, In a l -> ~ In a k -> a_isdef a = true) ->
  fill ds (given_of k) = Ok (map (fun a => erase (a_val a)) l).
Proof.
  intros Hds Hnd Hsub Hndk Hmiss.
  apply fill_forall2.
  assert (Hpoint : forall a, In a l ->
            In a k \/ (a_isdef a = true /\ ~ In (a_name a) (map a_name k))).
  { intros a Hin.
    destruct (in_dec (fun x y : str => list_eq_dec N.eq_dec x y) (a_name a) (map a_name k)) as [Hn|Hn].
    - left. apply in_map_iff in Hn. destruct Hn as (a' & Hname & Hk).
      assert (a' = a) as <-; [|exact Hk].
      apply (NoDup_map_inj a_name l); auto.
    - right. split; [|exact Hn]. apply Hmiss; [exact Hin|]. intros Hk. apply Hn. now apply in_map. }
  apply (Forall2_In_l _ _ _ _ Hds) in Hpoint.
  clear Hds Hnd Hsub Hmiss.
  induction Hpoint as [|a d l' ds' [[Hname Hsound] Hcase] _ IH]; constructor; [|exact IH].
  unfold fill_one. rewrite Hname.
  destruct Hcase as [Hk|[Hdef Hnot]].
  - now rewrite (plookup_present k a Hndk Hk).
  - rewrite (plookup_absent _ _ Hnot). now rewrite (Hsound Hdef).
Qed.

Theorem init_attrs_fill (l : list attr) (ds : list decl) :
  Forall2 (fun a d => d_name d = a_name a /\ isdef_sound a d) l ds ->
  NoDup (map a_name l) ->
  fill ds (given_of (init_attrs l)) = Ok (map (fun a => erase (a_val a)) l).
Proof.
  intros Hds Hnd. apply fill_of_subset; auto.
  - intros a Hin. now apply init_attrs_spec in Hin.
  - now apply NoDup_map_filter.
  - intros a Hin Hnot. destruct (a_isdef a) eqn:Hd; [reflexivity|].
    exfalso. apply Hnot. now apply init_attrs_spec.
Qed.

(* ---- the consumer: trimming again and setting every field ---- *)
Variable veq : @pvalue payload -> @pvalue payload -> bool.
Hypothesis veq_sound : forall a b, veq a b = true -> a = b.

Lemma decl_isdef_sound (d : decl) v : decl_isdef veq d v = true -> default_or_undef d = v.
Proof.
  unfold decl_isdef, default_or_undef. destruct (d_default d) as [dv|]; [|discriminate].
  apply veq_sound.
Qed.

Lemma drop_defaults_p_spec n (rl : list (decl * @pvalue payload)) :
  exists dropped,
    rl = dropped ++ drop_defaults_p veq n rl /\
    Forall (fun p => decl_isdef veq (fst p) (snd p) = true) dropped /\
    length dropped <= n.
Proof.
  revert rl. induction n as [|n IH]; intros rl.
  - exists []. cbn. repeat split; auto.
  - destruct rl as [|p rl]; cbn [drop_defaults_p].
    + exists []. cbn. repeat split; auto; lia.
    + destruct (decl_isdef veq (fst p) (snd p)) eqn:Hp.
      * destruct (IH rl) as (d & Hd & Hall & Hlen).
        exists (p :: d). cbn [app length]. repeat split.
        -- now rewrite <- Hd.
        -- now constructor.
        -- lia.
      * exists []. cbn. repeat split; auto; lia.
Qed.

(* what PositionalFromHash cuts off is a suffix of default-valued optional attributes *)
Theorem trim_p_prefix (req : nat) (ds : list decl) (vs : list (@pvalue payload)) :
  exists K D,
    combine ds vs = K ++ D /\ trim_p veq req ds vs = map snd K /\
    Forall (fun p => decl_isdef veq (fst p) (snd p) = true) D /\
    length D <= length vs - req.
Proof.
  unfold trim_p.
  destruct (drop_defaults_p_spec (length vs - req) (rev (combine ds vs))) as (d & Hd & Hall & Hlen).
  exists (rev (drop_defaults_p veq (length vs - req) (rev (combine ds vs)))), (rev d). repeat split.
  - rewrite <- rev_app_distr, <- Hd. now rewrite rev_involutive.
  - apply Forall_rev. exact Hall.
  - now rewrite rev_length.
Qed.

Lemma set_values_all_default (ds : list decl) (vs : list (@pvalue payload)) :
  length ds = length vs ->
  Forall (fun p => decl_isdef veq (fst p) (snd p) = true) (combine ds vs) ->
  set_values ds [] = vs.
Proof.
  revert vs. induction ds as [|d ds IH]; intros [|v vs] Hlen Hall; try discriminate; [reflexivity|].
  cbn in Hall. inversion Hall as [|? ? Hp Hall']; subst. cbn [fst snd] in Hp.
  cbn [set_values]. rewrite (decl_isdef_sound _ _ Hp). f_equal. apply IH; [now inversion Hlen|exact Hall'].
Qed.

Lemma set_values_prefix (K D : list (decl * @pvalue payload)) :
  forall (ds : list decl) (vs : list (@pvalue payload)),
  length ds = length vs ->
  combine ds vs = K ++ D ->
  Forall (fun p => decl_isdef veq (fst p) (snd p) = true) D ->
  set_values ds (map snd K) = vs.
Proof.
  induction K as [|[d v] K IH]; intros ds vs Hlen Hc Hall.
  - cbn in Hc. cbn [map]. apply set_values_all_default; [exact Hlen|]. now rewrite Hc.
  - destruct ds as [|d' ds], vs as [|v' vs]; try discriminate.
    cbn in Hc. inversion Hc as [[Hd Hv Hrest]]. subst d' v'.
    cbn [map snd set_values]. f_equal. apply IH; [now inversion Hlen|exact Hrest|exact Hall].
Qed.

(* setValues after PositionalFromHash: the fields are what fill computed - the trimming is undone *)
Theorem set_values_trim_p (req : nat) (ds : list decl) (vs : list (@pvalue payload)) :
  length ds = length vs -> set_values ds (trim_p veq req ds vs) = vs.
Proof.
  intros Hlen. destruct (trim_p_prefix req ds vs) as (K & D & Hc & Ht & Hall & _).
  rewrite Ht. now apply (set_values_prefix K D).
Qed.

Lemma sequence_length {A} (l : list (res A)) r : sequence l = Ok r -> length r = length l.
Proof.
  revert r. induction l as [|x l IH]; intros r H; cbn in H.
  - now inversion H.
  - destruct x as [a| |]; try discriminate. cbn in H.
    destruct (sequence l) as [t| |] eqn:Hs; try discriminate. cbn in H. inversion H; subst.
    cbn. f_equal. now apply IH.
Qed.

Theorem init_from_hash_is_fill (req : nat) (ds : list decl) given vs :
  fill ds given = Ok vs -> init_from_hash veq req ds given = Ok vs.
Proof.
  intros Hf. unfold init_from_hash, positional_from_hash. rewrite Hf. cbn [bind].
  f_equal. apply set_values_trim_p.
  unfold fill in Hf. apply sequence_length in Hf. now rewrite map_length in Hf.
Qed.

(* the fields of the rebuilt instance are the attribute values of the original *)
Theorem struct_init_from_hash (req : nat) (l : list attr) (ds : list decl) :
  Forall2 (fun a d => d_name d = a_name a /\ isdef_sound a d) l ds ->
  NoDup (map a_name l) ->
  init_from_hash veq req ds (given_of (init_attrs l)) = Ok (map (fun a => erase (a_val a)) l).
Proof.
  intros Hds Hnd. apply init_from_hash_is_fill. now apply init_attrs_fill.
Qed.

End StructProofs.

Lemma pobj_attrs_VObjS {payload} id ty (l : list (attr payload)) disp :
  pobj_attrs (erase (VObjS id ty l disp)) = given_of (init_attrs l).
Proof. unfold VObjS. now rewrite erase_obj. Qed.

(* ---- end to end: serialize, collect, deserialize, allocate, InitFromHash ---- *)
Theorem struct_roundtrip {payload} (to_s : str -> payload -> str) (of_s : str -> str -> option payload)
    (veq : @pvalue payload -> @pvalue payload -> bool) :
  (forall tn p, of_s tn (to_s tn p) = Some p) ->
  (forall a b, veq a b = true -> a = b) ->
  forall (o : opts) (c : caps) id ty req (l : list (attr payload)) disp (ds : list (decl payload)),
    rich_data o = true ->
    wf_rich (VObjS id ty l disp) -> rt_ok to_s (env_of o c) (VObjS id ty l disp) = true ->
    Forall2 (fun a d => d_name d = a_name a /\ isdef_sound a d) l ds ->
    NoDup (map a_name l) ->
    bind (roundtrip to_s of_s o c (VObjS id ty l disp)) (fun p => init_from_hash veq req ds (pobj_attrs p))
      = Ok (map (fun a => erase (a_val a)) l).
Proof.
  intros Hinv Hveq o c id ty req l disp ds Hrich Hwf Hrt Hds Hnd.
  rewrite (roundtrip_rich to_s of_s Hinv o c _ Hwf Hrt).
  unfold expected. replace (e_rich (env_of o c)) with true by (symmetry; exact Hrich).
  cbn [bind]. rewrite pobj_attrs_VObjS. now apply struct_init_from_hash.
Qed.
