(* Property C20: the recursion guard of Array.ToString2 / Hash.ToString2 is invisible on values
   without a cycle - a container instance that occurs at several positions of a value (aliasing)
   renders at each of them as a value of its own, and the guard map is handed back unchanged. *)
From Coq Require Import ZArith NArith Bool List Lia.
From PcoreV Require Import Model.Base Model.Format Model.FormatShare Proofs.FormatTotal.
Import ListNotations.
Open Scope Z_scope.

(* the tree rendering, with the guard map g attached *)
Definition lift (g : rdetect) (x : option obs) : option (R (rdetect * str)) :=
  match x with
  | None => None
  | Some (RErr e) => Some (RErr e)
  | Some (ROk s) => Some (ROk (g, s))
  end.

Lemma g_del_add : forall g id, g_has g id = false -> g_del (g_add g id) id = g.
Proof.
  intros g [i|] Hn; cbn [g_del g_add]; [|reflexivity].
  cbn [g_has] in Hn. cbn [filter]. rewrite N.eqb_refl. cbn [negb].
  induction g as [|j g IH]; [reflexivity|].
  cbn [existsb] in Hn. apply orb_false_iff in Hn as [Hj Hg].
  cbn [filter]. rewrite Hj. cbn [negb]. f_equal. exact (IH Hg).
Qed.

Lemma map_s_lift :
  forall (A A' B : Type) (f : rdetect -> A -> option (R (rdetect * B))) (f' : A' -> option (R B)) (e : A -> A') g l,
    (forall x, In x l ->
               f g x = match f' (e x) with
                       | None => None | Some (RErr er) => Some (RErr er) | Some (ROk b) => Some (ROk (g, b)) end) ->
    map_s f g l = match map_m f' (List.map e l) with
                  | None => None | Some (RErr er) => Some (RErr er) | Some (ROk bs) => Some (ROk (g, bs)) end.
Proof.
  intros A A' B f f' e g l. induction l as [|x r IH]; intros Hf; [reflexivity|].
  cbn [map_s List.map map_m].
  rewrite (Hf x (or_introl eq_refl)).
  destruct (f' (e x)) as [[b|er]|]; cbn [obind]; try reflexivity.
  cbn [fst snd]. rewrite IH by (intros y Hy; apply Hf; right; exact Hy).
  destruct (map_m f' (List.map e r)) as [[bs|er]|]; cbn [obind fst snd]; reflexivity.
Qed.

Lemma erase_entries :
  forall es, List.map erase (List.map lentry_array es)
             = List.map entry_array (List.map (fun kv => (erase (fst kv), erase (snd kv))) es).
Proof.
  induction es as [|kv r IH]; [reflexivity|].
  cbn [List.map]. rewrite IH. reflexivity.
Qed.

Lemma lok_entries :
  forall g es, forallb (fun kv => lok g (fst kv) && lok g (snd kv)) es = true ->
               forallb (lok g) (List.map lentry_array es) = true.
Proof.
  intros g es. induction es as [|kv r IH]; intros H; [reflexivity|].
  cbn [forallb List.map] in *. apply andb_true_iff in H as [Hkv Hr].
  rewrite (IH Hr), andb_true_r.
  unfold lentry_array. cbn [lok g_has g_add negb forallb]. rewrite andb_true_r. exact Hkv.
Qed.

(* the main lemma: by induction on the fuel *)
Lemma render_g_lift :
  forall n o ind m entries g lv,
    lok g lv = true ->
    render_g n o ind m entries g lv = lift g (render n o ind m entries (erase lv)).
Proof.
  induction n as [|n IH]; intros o ind m entries g lv Hok; [reflexivity|].
  destruct lv as [v|id es|id es].
  - (* LTree *)
    cbn [render_g erase]. unfold lift.
    destruct (render (S n) o ind m entries v) as [[s|er]|]; reflexivity.
  - (* LArr *)
    cbn [lok] in Hok. apply andb_true_iff in Hok as [Hid Hes]. apply negb_true_iff in Hid.
    cbn [render_g]. cbn [erase]. cbn [render].
    destruct (get_format o m (VArr (List.map erase es))) as [f|er]; [|reflexivity].
    rewrite Hid.
    destruct (negb (mem (f_char f) set_array)); [reflexivity|].
    rewrite (map_s_lift _ _ _ _
               (fun e => obind (render n o (i_subsequent (i_increase (i_set_indenting ind (f_alt f || i_indenting ind)) (f_alt f)))
                                       (if negb entries && is_container e then m else cf_or_default f) false e)
                               (fun s => Some (ROk (negb entries && is_container e, s))))
               erase (g_add g id) es).
    + destruct (map_m _ (List.map erase es)) as [[items|er]|]; cbn [obind lift fst snd]; try reflexivity.
      rewrite (g_del_add g id Hid). reflexivity.
    + intros x Hx. rewrite forallb_forall in Hes.
      rewrite (IH o _ _ false (g_add g id) x (Hes x Hx)). unfold lift.
      destruct (render n o _ _ false (erase x)) as [[s|er]|]; cbn [obind fst snd]; reflexivity.
  - (* LHash *)
    cbn [lok] in Hok. apply andb_true_iff in Hok as [Hid Hes]. apply negb_true_iff in Hid.
    cbn [render_g]. cbn [erase]. cbn [render].
    destruct (get_format o m (VHash (List.map (fun kv => (erase (fst kv), erase (snd kv))) es))) as [f|er]; [|reflexivity].
    rewrite Hid.
    destruct (N.eqb (f_char f) 97).
    + (* 'a': the array of the entries, then the delete *)
      rewrite (IH o ind m true (g_add g id) (LArr None (List.map lentry_array es))).
      * cbn [erase]. rewrite erase_entries. unfold lift.
        destruct (render n o ind m true _) as [[s|er]|]; cbn [obind fst snd]; try reflexivity.
        rewrite (g_del_add g id Hid). reflexivity.
      * cbn [lok g_has negb andb g_add]. apply lok_entries. exact Hes.
    + destruct (negb (mem (f_char f) l_hsp)); [reflexivity|].
      rewrite (map_s_lift _ _ _ _
                 (fun kv => obind (render n o (i_increase (i_set_indenting ind (f_alt f || i_indenting ind)) (f_alt f))
                                          (if is_container (fst kv) then m else cf_or_default f) false (fst kv)) (fun ks =>
                            obind (render n o (i_increase (i_set_indenting ind (f_alt f || i_indenting ind)) (f_alt f))
                                          (if is_container (snd kv) then m else cf_or_default f) false (snd kv)) (fun vs =>
                            Some (ROk (ks, vs)))))
                 (fun kv => (erase (fst kv), erase (snd kv))) (g_add g id) es).
      * destruct (map_m _ (List.map _ es)) as [[items|er]|]; cbn [obind lift fst snd]; try reflexivity.
        rewrite (g_del_add g id Hid). reflexivity.
      * intros [k v] Hx. rewrite forallb_forall in Hes. specialize (Hes _ Hx).
        cbn [fst snd] in *. apply andb_true_iff in Hes as [Hk Hv].
        rewrite (IH o _ _ false (g_add g id) k Hk). unfold lift.
        destruct (render n o _ _ false (erase k)) as [[ks|er]|]; cbn [obind fst snd]; try reflexivity.
        rewrite (IH o _ _ false (g_add g id) v Hv). unfold lift.
        destruct (render n o _ _ false (erase v)) as [[vs|er]|]; cbn [obind fst snd]; reflexivity.
Qed.

(* sharing is invisible: a value whose instances form no cycle formats as the tree it unfolds to *)
Theorem sharing_invisible :
  forall o lv spec, lok [] lv = true -> format_value_g o lv spec = format_value o (erase lv) spec.
Proof.
  intros o lv spec Hok. unfold format_value_g, format_value.
  destruct (context_of spec) as [[m|er]|]; try reflexivity.
  rewrite (render_g_lift _ o default_indentation m false [] lv Hok). unfold lift.
  destruct (render _ o default_indentation m false (erase lv)) as [[s|er]|]; reflexivity.
Qed.

(* every exit of ToString2 that returns leaves the guard map as it found it *)
Theorem guard_restored :
  forall n o ind m entries g lv g' s,
    lok g lv = true -> render_g n o ind m entries g lv = Some (ROk (g', s)) -> g' = g.
Proof.
  intros n o ind m entries g lv g' s Hok H.
  rewrite (render_g_lift n o ind m entries g lv Hok) in H. unfold lift in H.
  destruct (render n o ind m entries (erase lv)) as [[t|er]|]; try discriminate.
  injection H as <- _. reflexivity.
Qed.

Theorem format_total_shared :
  forall o lv spec, lok [] lv = true -> exists r, format_value_g o lv spec = Some r.
Proof.
  intros o lv spec Hok. rewrite (sharing_invisible o lv spec Hok). apply format_total.
Qed.
