(* CtxIsolation.v — lemmas for the fork part of property C14, on the machine of Model/Ctx.v.

   Part 7  every context belongs to one goroutine (`Own`): a step of h writes no context of g; two goroutines never
           have the same current context
   Part 8  loaders: parents are older than children (`LInv`); what a lookup depends on (`sees`, `load_entry_agree`);
           what a forked context inherits (`fork_inherits`)
   Part 9  the loader of a forked context stays invisible to every goroutine but the child and its descendants
           (`Blind`, `fork_blind`, `step_blind`, `run_blind`); definitions are visible along the loader chain only
           (`step_load_frame`, `blind_load_frame`) *)
From Coq Require Import ZArith NArith Bool List Lia Arith.
From PcoreV Require Import Model.Base Model.Ctx Proofs.CtxProofs.
Import ListNotations.
Local Open Scope nat_scope.

(* ================================================================================================ *)
(* Part 7: every context belongs to one goroutine                                                    *)

(* the contexts a goroutine can get hold of: its current one and those named by its frames *)
Definition dact_addrs (x : dact) : list addr :=
  match x with XRestore a => [a] | XLoader a _ => [a] | _ => [] end.
Definition frame_addrs (f : frame) : list addr :=
  match f with
  | KSeq env _ => env
  | KDefer xs => flat_map dact_addrs xs
  | KStart (Some a) => [a]
  | _ => []
  end.
Definition stack_addrs (K : list frame) : list addr := flat_map frame_addrs K.
Definition tbl_addrs (t : option table) : list addr := match t with Some (Some a) => [a] | _ => [] end.
Definition owned_by (t : option table) (K : list frame) : list addr := tbl_addrs t ++ stack_addrs K.
Definition owned (c : config) (g : gid) (st : gstate) : list addr :=
  owned_by (tl_find g (tls (sh c))) (g_stack st).

Lemma stack_addrs_app X Y : stack_addrs (X ++ Y) = stack_addrs X ++ stack_addrs Y.
Proof. unfold stack_addrs. apply flat_map_app. Qed.

Lemma settle_addrs : forall K a, In a (stack_addrs (settle K)) -> In a (stack_addrs K).
Proof.
  induction K as [|f K IH]; intros a H; cbn [settle] in H; [exact H|].
  destruct f as [env ps|xs| |cfo|cl]; try exact H.
  - destruct ps; [|exact H]. change (stack_addrs (KSeq env [] :: K)) with (env ++ stack_addrs K).
    apply in_or_app. right. apply IH. exact H.
  - apply IH. exact H.
Qed.

Lemma unwind_addrs : forall K a, In a (stack_addrs (snd (unwind K))) -> In a (stack_addrs K).
Proof.
  induction K as [|f K IH]; intros a H; cbn [unwind] in H; [exact H|].
  destruct f as [env ps|xs| |cfo|cl]; cbn [snd] in H; try exact H.
  - change (stack_addrs (KSeq env ps :: K)) with (env ++ stack_addrs K). apply in_or_app. right. apply IH. exact H.
  - apply settle_addrs. exact H.
  - change (stack_addrs (KStart cfo :: K)) with (frame_addrs (KStart cfo) ++ stack_addrs K).
    apply in_or_app. right. apply IH. exact H.
Qed.

Lemma resume_addrs b K pn K' a : resume b K = (pn, K') -> In a (stack_addrs K') -> In a (stack_addrs K).
Proof.
  intros E H. unfold resume in E. destruct b.
  - apply unwind_addrs. rewrite E. exact H.
  - inversion E; subst. apply settle_addrs. exact H.
Qed.

(* runtime.Goexit removes recover points from the frames below (exit_stack): nothing is added *)
Lemma notry_incl : forall K f, In f (notry K) -> In f K.
Proof.
  induction K as [|f0 K IH]; intros f H; cbn [notry] in H; [exact H|].
  destruct f0; try (destruct H as [H|H]; [left; exact H|right; apply IH; exact H]).
  right. apply IH. exact H.
Qed.

Lemma exit_stack_incl p K f : In f (exit_stack p K) -> In f K.
Proof. unfold exit_stack. destruct (is_goexit p); [apply notry_incl|auto]. Qed.

Lemma exit_stack_addrs p K a : In a (stack_addrs (exit_stack p K)) -> In a (stack_addrs K).
Proof.
  unfold stack_addrs. rewrite !in_flat_map. intros (f & Hf & Ha). exists f. split; [eapply exit_stack_incl; eauto|exact Ha].
Qed.

Lemma resume_exit_addrs b X env ps p K pn K' a :
  resume b (X ++ KSeq env ps :: exit_stack p K) = (pn, K') -> In a (stack_addrs K') -> In a (stack_addrs (X ++ KSeq env ps :: K)).
Proof.
  intros E Ha. apply (resume_addrs _ _ _ _ _ E) in Ha. rewrite stack_addrs_app in *.
  apply in_app_or in Ha. apply in_or_app. destruct Ha as [Ha|Ha]; [left; exact Ha|right].
  change (stack_addrs (KSeq env ps :: exit_stack p K)) with (env ++ stack_addrs (exit_stack p K)) in Ha.
  change (stack_addrs (KSeq env ps :: K)) with (env ++ stack_addrs K).
  apply in_app_or in Ha. apply in_or_app. destruct Ha as [Ha|Ha]; [left; exact Ha|right; eapply exit_stack_addrs; eauto].
Qed.

Ltac in_cases H :=
  repeat match type of H with
         | In _ (_ ++ _) => apply in_app_or in H; destruct H as [H|H]
         | In _ (_ :: _) => destruct H as [H|H]
         | In _ [] => destruct H
         end.

(* s is s0 with the same table, possibly more contexts, and below n no context changed except w *)
Definition heap_frame (n : nat) (w : option addr) (s0 s : shared) : Prop :=
  tls s = tls s0 /\ n <= length (cheap s) /\
  forall b, b < n -> w <> Some b -> nth_error (cheap s) b = nth_error (cheap s0) b.

Lemma heap_frame_refl w s : heap_frame (length (cheap s)) w s s.
Proof. repeat split; auto. Qed.

Lemma heap_frame_put n a c s0 s : heap_frame n (Some a) s0 s -> heap_frame n (Some a) s0 (put_ctx a c s).
Proof.
  intros (A & B & C). repeat split; cbn [put_ctx with_cheap tls cheap]; auto.
  - rewrite upd_length. exact B.
  - intros b Hb Hw. assert (Hab : a <> b) by (intros ->; apply Hw; reflexivity).
    rewrite nth_error_upd_other by exact Hab. apply C; auto.
Qed.

Lemma heap_frame_lheap n w lh s0 s : heap_frame n w s0 s -> heap_frame n w s0 (with_lheap lh s).
Proof. intros (A & B & C). repeat split; cbn [with_lheap tls cheap]; auto. Qed.

Lemma heap_frame_alloc n w c s0 s : heap_frame n w s0 s -> heap_frame n w s0 (snd (alloc_ctx c s)).
Proof.
  intros (A & B & C). repeat split; cbn [alloc_ctx snd with_cheap tls cheap]; auto.
  - rewrite app_length. lia.
  - intros b Hb Hw. rewrite nth_error_app1 by lia. apply C; auto.
Qed.

Lemma heap_frame_weaken n w s0 s : heap_frame n None s0 s -> heap_frame n w s0 s.
Proof. intros (A & B & C). repeat split; auto. intros b Hb _. apply C; auto. discriminate. Qed.

(* the result of a statement, as to ownership *)
Record res_own (g : gid) (env : list addr) (s : shared) (r : sres) : Prop := {
  (* contexts it can get hold of afterwards: those it had, or new ones *)
  wo_addrs : forall a, In a (owned_by (tl_find g (tls (r_sh r))) (r_push r)) ->
             In a (owned_by (tl_find g (tls s)) [KSeq env []]) \/
             (length (cheap s) <= a < length (cheap (r_sh r)) /\ r_spawn r = None);
  (* a spawned goroutine gets new contexts only, and its parent keeps none of them *)
  wo_spawn : forall fs, r_spawn r = Some fs ->
             forall a, In a (stack_addrs fs) -> length (cheap s) <= a < length (cheap (r_sh r));
  (* existing contexts are not written, except the lexical one *)
  wo_heap : forall b, b < length (cheap s) -> hd_error env <> Some b ->
            nth_error (cheap (r_sh r)) b = nth_error (cheap s) b;
  wo_len : length (cheap s) <= length (cheap (r_sh r))
}.

Lemma owned_by_old g env s a t K :
  In a (owned_by t K) -> t = tl_find g (tls s) -> (forall b, In b (stack_addrs K) -> In b env) ->
  In a (owned_by (tl_find g (tls s)) [KSeq env []]).
Proof.
  intros H -> HK. unfold owned_by in *. apply in_app_or in H. apply in_or_app.
  destruct H as [H|H]; [left; exact H|right]. cbn [stack_addrs flat_map frame_addrs]. rewrite app_nil_r. apply HK; exact H.
Qed.

Lemma res_own_plain g env s0 s r :
  heap_frame (length (cheap s0)) (hd_error env) s0 s -> r_sh r = s -> r_spawn r = None ->
  (forall b, In b (stack_addrs (r_push r)) -> In b env) ->
  res_own g env s0 r.
Proof.
  intros (A & B & C) Es Esp HK. split; rewrite ?Es.
  - intros a H. left. eapply owned_by_old; eauto. rewrite A. reflexivity.
  - intros fs H. congruence.
  - intros b Hb Hw. apply C; auto.
  - exact B.
Qed.

Lemma res_own_raise g env s0 s c :
  heap_frame (length (cheap s0)) (hd_error env) s0 s -> res_own g env s0 (raise s c).
Proof. intros H. eapply res_own_plain; eauto. intros b []. Qed.

Lemma res_own_done g env s0 s :
  heap_frame (length (cheap s0)) (hd_error env) s0 s -> res_own g env s0 (ok s).
Proof. intros H. eapply res_own_plain; eauto. intros b []. Qed.

Lemma res_own_with_lex g env s f :
  (forall a c rest, env = a :: rest -> nth_error (cheap s) a = Some c -> res_own g env s (f a c)) ->
  res_own g env s (with_lex env s f).
Proof.
  intros H. unfold with_lex. destruct env as [|a rest]; [apply res_own_raise; apply heap_frame_refl|].
  destruct (nth_error (cheap s) a) as [c|] eqn:E; [eapply H; eauto|apply res_own_raise; apply heap_frame_refl].
Qed.

Lemma tbl_addrs_ctx t a : In a (tbl_addrs t) <-> tbl_ctx t = Some a.
Proof.
  destruct t as [[b|]|]; cbn [tbl_addrs tbl_ctx In]; split; intros H; try tauto; try discriminate.
  - destruct H as [->|[]]. reflexivity.
  - inversion H. auto.
Qed.

(* px.DoWithContext(a, body) in state s; a is an old context of g or a new one *)
Lemma res_own_dwc g a env body s0 s :
  heap_frame (length (cheap s0)) (hd_error env) s0 s -> g < length (tls s0) ->
  In a env \/ length (cheap s0) <= a < length (cheap s) ->
  res_own g env s0 (do_with_context g a env body s).
Proof.
  intros Hf Hg Ha. pose proof Hf as (A & B & C). unfold do_with_context.
  assert (Hg' : g < length (tls s)) by (rewrite A; exact Hg).
  pose proof (dwc_enter_spec g a (tls s) Hg') as Sp.
  assert (Hx : forall saved, snd (fst (dwc_enter g a (tls s))) = XRestore saved -> tbl_ctx (tl_find g (tls s)) = Some saved).
  { unfold dwc_enter. rewrite tl_get_find, tl_initialized_find.
    destruct (tl_find g (tls s)) as [[sv|]|]; cbn [tbl_ctx]; intros saved;
      match goal with |- context [tl_set ?g ?a ?t] => destruct (tl_set g a t) end; cbn [fst snd]; intros E;
      inversion E; reflexivity. }
  assert (Hl : forall xa xl, snd (fst (dwc_enter g a (tls s))) <> XLoader xa xl).
  { unfold dwc_enter. intros xa xl.
    destruct (tl_get g (tls s)); [|destruct (tl_initialized g (tls s))];
      match goal with |- context [tl_set ?g ?a ?t] => destruct (tl_set g a t) end; cbn [fst snd]; discriminate. }
  destruct (dwc_enter g a (tls s)) as [[t x] fine]. destruct Sp as (F & L & Fg & Fo & Dt & Dok). subst fine.
  cbn [fst snd] in Hx, Hl. cbv iota.
  split; cbn [enter r_sh r_push r_spawn with_tls tls cheap].
  - intros b Hb. rewrite Fg in Hb. unfold owned_by, stack_addrs in Hb.
    cbn [tbl_addrs flat_map frame_addrs] in Hb.
    assert (Hb' : b = a \/ In b env \/ In b (dact_addrs x)).
    { in_cases Hb; subst; auto. }
    destruct Hb' as [->|[Hb'|Hb']].
    + destruct Ha as [Ha|Ha]; [|right; auto]. left. unfold owned_by. apply in_or_app. right.
      cbn [stack_addrs flat_map frame_addrs]. rewrite app_nil_r. exact Ha.
    + left. unfold owned_by. apply in_or_app. right. cbn [stack_addrs flat_map frame_addrs]. rewrite app_nil_r. exact Hb'.
    + left. unfold owned_by. apply in_or_app. left. destruct x as [saved| | |xa xl]; cbn [dact_addrs In] in Hb'; try tauto.
      * destruct Hb' as [<-|[]]. apply tbl_addrs_ctx. rewrite <- A. apply Hx. reflexivity.
      * exfalso. apply (Hl xa xl). reflexivity.
  - intros fs H; discriminate.
  - intros b Hb Hw. apply C; auto.
  - exact B.
Qed.

Lemma dwc_enter_addrs g a t b :
  In b (dact_addrs (snd (fst (dwc_enter g a t)))) -> tbl_ctx (tl_find g t) = Some b.
Proof.
  unfold dwc_enter. rewrite tl_get_find, tl_initialized_find.
  destruct (tl_find g t) as [[sv|]|]; cbn [tbl_ctx];
    match goal with |- context [tl_set ?g ?a ?t] => destruct (tl_set g a t) end; cbn [fst snd dact_addrs In];
    intros H; try tauto; destruct H as [->|[]]; reflexivity.
Qed.

Lemma res_own_spawn g env s0 s fs :
  heap_frame (length (cheap s0)) (hd_error env) s0 s ->
  (forall a, In a (stack_addrs fs) -> length (cheap s0) <= a < length (cheap s)) ->
  res_own g env s0 (spawn s fs).
Proof.
  intros (A & B & C) Hfs. split; cbn [spawn r_sh r_push r_spawn].
  - intros a H. left. eapply owned_by_old; eauto; [rewrite A; reflexivity|intros b []].
  - intros fs' E. inversion E; subst. exact Hfs.
  - intros b Hb Hw. apply C; auto.
  - exact B.
Qed.

Lemma exec_stmt_own g env p s : g < length (tls s) -> res_own g env s (exec_stmt g env p s).
Proof.
  intros Hg.
  destruct p as [lbl try body|lbl ce body|lbl le body|lbl body|lbl body|body|body|k v|k|l| |lbl le|n v|lbl| | ];
    cbn [exec_stmt].
  - (* PDo *)
    unfold alloc_ctx at 1. cbv beta iota zeta. cbn [with_cheap tls cheap lheap].
    set (root := {| c_label := unknown_label; c_loader := 0; c_stack := []; c_vars := [] |}).
    pose proof (dwc_enter_spec g (length (cheap s)) (tls s) Hg) as Sp1.
    pose proof (dwc_enter_addrs g (length (cheap s)) (tls s)) as Ad1.
    destruct (dwc_enter g (length (cheap s)) (tls s)) as [[t1 x1] fine1].
    destruct Sp1 as (F1 & L1 & Fg1 & Fo1 & Dt1 & Dok1). subst fine1. cbn [negb fst snd] in *.
    destruct (fork_ctx lbl root (lheap s)) as [fc lh].
    unfold alloc_ctx. cbv beta iota zeta. cbn [with_cheap with_tls with_lheap tls cheap lheap].
    assert (Hg1 : g < length t1) by (rewrite L1; exact Hg).
    pose proof (dwc_enter_spec g (length (cheap s ++ [root])) t1 Hg1) as Sp2.
    pose proof (dwc_enter_addrs g (length (cheap s ++ [root])) t1) as Ad2.
    destruct (dwc_enter g (length (cheap s ++ [root])) t1) as [[t2 x2] fine2].
    destruct Sp2 as (F2 & L2 & Fg2 & Fo2 & Dt2 & Dok2). subst fine2. cbn [negb fst snd] in *.
    split; cbn [enter r_sh r_push r_spawn with_cheap with_tls with_lheap tls cheap lheap]; rewrite ?app_length; cbn [length].
    + intros a Ha. rewrite Fg2 in Ha. unfold owned_by, stack_addrs in Ha. rewrite flat_map_app in Ha.
      cbn [tbl_addrs flat_map frame_addrs] in Ha.
      assert (Ha' : a = length (cheap s) + 1 \/ In a env \/ In a (dact_addrs x2) \/ In a (dact_addrs x1)).
      { rewrite app_length in Ha. cbn [length] in Ha. destruct try; cbn [flat_map frame_addrs] in Ha; in_cases Ha; subst; auto. }
      destruct Ha' as [->|[Ha'|[Ha'|Ha']]].
      * right. split; [lia|reflexivity].
      * left. unfold owned_by. apply in_or_app. right. cbn [stack_addrs flat_map frame_addrs]. rewrite app_nil_r. exact Ha'.
      * right. apply Ad2 in Ha'. rewrite Fg1 in Ha'. cbn [tbl_ctx] in Ha'. inversion Ha'. split; [lia|reflexivity].
      * left. unfold owned_by. apply in_or_app. left. apply tbl_addrs_ctx. apply Ad1. exact Ha'.
    + intros fs H; discriminate.
    + intros b Hb Hw. rewrite nth_error_app1 by (rewrite app_length; lia). rewrite nth_error_app1 by lia. reflexivity.
    + lia.
  - (* PDoCtx *)
    destruct ce as [| |k].
    + apply res_own_with_lex. intros a c rest -> Ea.
      destruct (fork_ctx lbl c (lheap s)) as [fc lh].
      unfold alloc_ctx. cbv beta iota zeta.
      apply res_own_dwc; auto.
      * apply (heap_frame_alloc _ _ fc s (with_lheap lh s)). apply heap_frame_lheap. apply heap_frame_refl.
      * right. cbn [with_cheap with_lheap tls cheap]. rewrite app_length. cbn [length]. lia.
    + destruct (new_loader lbl 0 (lheap s)) as [l lh].
      unfold alloc_ctx. cbv beta iota zeta.
      apply res_own_dwc; auto.
      * apply (heap_frame_alloc _ _ {| c_label := lbl; c_loader := l; c_stack := []; c_vars := [] |} s (with_lheap lh s)).
        apply heap_frame_lheap. apply heap_frame_refl.
      * right. cbn [with_cheap with_lheap tls cheap]. rewrite app_length. cbn [length]. lia.
    + destruct (nth_error env k) as [a|] eqn:Ek; [|apply res_own_raise; apply heap_frame_refl].
      apply res_own_dwc; auto; [apply heap_frame_refl|]. left. eapply nth_error_In; eauto.
  - (* PDoLoader *)
    apply res_own_with_lex. intros a c rest -> Ea.
    destruct (eval_lexp lbl le c (lheap s)) as [l lh].
    eapply res_own_plain; [| reflexivity | reflexivity |].
    + cbn [enter r_sh hd_error]. apply heap_frame_put. apply heap_frame_lheap. apply heap_frame_refl.
    + cbn [enter r_push]. unfold stack_addrs. cbn [flat_map frame_addrs dact_addrs]. intros b Hb.
      in_cases Hb; subst; cbn [In]; auto.
  - (* PFork *)
    apply res_own_with_lex. intros a c rest -> Ea.
    destruct (fork_ctx lbl c (lheap s)) as [fc lh].
    unfold alloc_ctx. cbv beta iota zeta.
    apply res_own_spawn.
    + apply (heap_frame_alloc _ _ fc s (with_lheap lh s)). apply heap_frame_lheap. apply heap_frame_refl.
    + cbn [with_cheap with_lheap tls cheap]. rewrite app_length. cbn [length].
      unfold stack_addrs. cbn [flat_map frame_addrs]. intros b Hb. in_cases Hb; subst; lia.
  - (* PGo *)
    destruct (tl_get g (tls s)) as [a|]; [|apply res_own_raise; apply heap_frame_refl].
    destruct (nth_error (cheap s) a) as [c|]; [|apply res_own_raise; apply heap_frame_refl].
    destruct (fork_ctx lbl c (lheap s)) as [fc lh].
    unfold alloc_ctx. cbv beta iota zeta.
    apply res_own_spawn.
    + apply (heap_frame_alloc _ _ fc s (with_lheap lh s)). apply heap_frame_lheap. apply heap_frame_refl.
    + cbn [with_cheap with_lheap tls cheap]. rewrite app_length. cbn [length].
      unfold stack_addrs. cbn [flat_map frame_addrs]. intros b Hb. in_cases Hb; subst; lia.
  - (* PTlGo *)
    apply res_own_spawn; [apply heap_frame_refl|].
    unfold stack_addrs. cbn [flat_map frame_addrs]. intros b Hb. in_cases Hb.
  - (* PTry *)
    eapply res_own_plain; [apply heap_frame_refl|reflexivity|reflexivity|].
    cbn [enter r_push]. unfold stack_addrs. cbn [flat_map frame_addrs]. intros b Hb. in_cases Hb; auto.
  - (* PSet *) apply res_own_with_lex. intros a c rest -> Ea. apply res_own_done. apply heap_frame_put. apply heap_frame_refl.
  - (* PDel *) apply res_own_with_lex. intros a c rest -> Ea. apply res_own_done. apply heap_frame_put. apply heap_frame_refl.
  - (* PPush *) apply res_own_with_lex. intros a c rest -> Ea. apply res_own_done. apply heap_frame_put. apply heap_frame_refl.
  - (* PPop *)
    apply res_own_with_lex. intros a c rest -> Ea.
    destruct (c_stack c); [apply res_own_raise; apply heap_frame_refl|apply res_own_done; apply heap_frame_put; apply heap_frame_refl].
  - (* PSetLoader *)
    apply res_own_with_lex. intros a c rest -> Ea.
    destruct (eval_lexp lbl le c (lheap s)) as [l lh].
    apply res_own_done. apply heap_frame_put. apply heap_frame_lheap. apply heap_frame_refl.
  - (* PDefine *)
    apply res_own_with_lex. intros a c rest -> Ea.
    destruct (nth_error (lheap s) (c_loader c)) as [ld|]; [|apply res_own_raise; apply heap_frame_refl].
    destruct (set_entry n v ld) as [ld'|];
      [apply res_own_done; apply heap_frame_lheap; apply heap_frame_refl|apply res_own_raise; apply heap_frame_refl].
  - (* PObserve *)
    eapply res_own_plain; [apply heap_frame_refl|reflexivity|reflexivity|]. cbn [r_push]. intros b [].
  - (* PPanic *) apply res_own_raise; apply heap_frame_refl.
  - (* PGoexit *) apply res_own_raise; apply heap_frame_refl.
Qed.

Lemma run_dact_own g x s :
  g < length (tls s) ->
  (forall a, In a (tbl_addrs (tl_find g (tls (fst (run_dact g x s))))) ->
             In a (tbl_addrs (tl_find g (tls s))) \/ In a (dact_addrs x)) /\
  length (cheap (fst (run_dact g x s))) = length (cheap s) /\
  length (tls (fst (run_dact g x s))) = length (tls s) /\
  (forall b, ~ In b (dact_addrs x) -> nth_error (cheap (fst (run_dact g x s))) b = nth_error (cheap s) b).
Proof.
  intros Hg. destruct x as [saved| | |a l]; cbn [run_dact dact_addrs].
  - unfold tl_set. destruct (tl_find g (tls s)) as [tb|] eqn:E; cbn [fst with_tls tls cheap].
    + rewrite tl_find_upd_same by exact Hg. rewrite upd_length. splits; auto; try (intros a Ha; right; exact Ha).
    + rewrite E. splits; auto.
  - cbn [fst with_tls tls cheap]. unfold tl_delete. destruct (tl_find g (tls s)) as [tb|] eqn:E.
    + rewrite tl_find_upd_same by exact Hg. rewrite upd_length. splits; auto; try (intros a []).
    + rewrite E. splits; auto.
  - cbn [fst with_tls tls cheap]. unfold tl_cleanup. rewrite tl_find_upd_same by exact Hg. rewrite upd_length.
    splits; auto; try (intros a []).
  - destruct (nth_error (cheap s) a) as [c|]; cbn [fst with_cheap tls cheap]; splits; auto.
    + apply upd_length.
    + intros b Hb. apply nth_error_upd_other. intros ->. apply Hb. left. reflexivity.
Qed.

Lemma run_dacts_own g : forall xs s,
  g < length (tls s) ->
  (forall a, In a (tbl_addrs (tl_find g (tls (fst (run_dacts g xs s))))) ->
             In a (tbl_addrs (tl_find g (tls s))) \/ In a (flat_map dact_addrs xs)) /\
  length (cheap (fst (run_dacts g xs s))) = length (cheap s) /\
  (forall b, ~ In b (flat_map dact_addrs xs) -> nth_error (cheap (fst (run_dacts g xs s))) b = nth_error (cheap s) b).
Proof.
  induction xs as [|x xs IH]; intros s Hg; cbn [run_dacts flat_map].
  - cbn [fst]. splits; auto.
  - destruct (run_dact_own g x s Hg) as (P1 & P2 & P3 & P4).
    destruct (run_dact g x s) as [s1 p]. cbn [fst] in *.
    assert (Hg1 : g < length (tls s1)) by (rewrite P3; exact Hg).
    destruct (IH s1 Hg1) as (Q1 & Q2 & Q3).
    destruct (run_dacts g xs s1) as [s2 evs]. cbn [fst] in *. splits.
    + intros a Ha. destruct (Q1 a Ha) as [H|H].
      * destruct (P1 a H) as [H'|H']; [left; exact H'|right; apply in_or_app; left; exact H'].
      * right. apply in_or_app. right. exact H.
    + congruence.
    + intros b Hb. rewrite Q3, P4; auto; intros H; apply Hb; apply in_or_app; auto.
Qed.

Lemma step_g_own g s st :
  g < length (tls s) ->
  let '(s1, st1, sp) := step_g g s st in
  (forall a, In a (owned_by (tl_find g (tls s1)) (g_stack st1)) ->
     In a (owned_by (tl_find g (tls s)) (g_stack st)) \/ (length (cheap s) <= a < length (cheap s1) /\ sp = None)) /\
  (forall ch, sp = Some ch -> forall a, In a (stack_addrs (g_stack ch)) -> length (cheap s) <= a < length (cheap s1)) /\
  (forall b, b < length (cheap s) -> ~ In b (owned_by (tl_find g (tls s)) (g_stack st)) ->
     nth_error (cheap s1) b = nth_error (cheap s) b) /\
  length (cheap s) <= length (cheap s1).
Proof.
  intros Hg. unfold step_g.
  destruct (g_stack st) as [|f K] eqn:EK.
  - cbv beta iota zeta. rewrite EK. splits; auto; try (intros ch H; discriminate); try (intros a Ha; left; exact Ha).
  - destruct f as [env ps|xs| |cfo|cl].
    + destruct ps as [|p ps].
      * destruct (resume (g_panic st) K) as [pn K'] eqn:ER. cbn [g_stack]. splits; auto; [|intros ch H; discriminate].
        intros a Ha. left. unfold owned_by in *. apply in_app_or in Ha. apply in_or_app.
        destruct Ha as [Ha|Ha]; [left; exact Ha|right].
        change (stack_addrs (KSeq env [] :: K)) with (env ++ stack_addrs K). apply in_or_app. right.
        eapply resume_addrs; eauto.
      * pose proof (exec_stmt_own g env p s Hg) as R. set (r := exec_stmt g env p s) in *.
        destruct R as [Ra Rs Rh Rl].
        destruct (resume (r_panic r) (r_push r ++ KSeq env ps :: exit_stack p K)) as [pn K'] eqn:ER. cbn [g_stack].
        change (stack_addrs (KSeq env (p :: ps) :: K)) with (env ++ stack_addrs K).
        splits; auto.
        -- intros a Ha. unfold owned_by in Ha. apply in_app_or in Ha.
           assert (Ha' : In a (owned_by (tl_find g (tls (r_sh r))) (r_push r)) \/ In a env \/ In a (stack_addrs K)).
           { destruct Ha as [Ha|Ha]; [left; unfold owned_by; apply in_or_app; left; exact Ha|].
             apply (resume_exit_addrs _ _ _ _ _ _ _ _ _ ER) in Ha. rewrite stack_addrs_app in Ha.
             change (stack_addrs (KSeq env ps :: K)) with (env ++ stack_addrs K) in Ha.
             in_cases Ha; auto. left. unfold owned_by. apply in_or_app. right. exact Ha. }
           destruct Ha' as [Ha'|[Ha'|Ha']].
           ++ destruct (Ra a Ha') as [H|[H1 H2]].
              ** left. unfold owned_by in *. cbn [stack_addrs flat_map frame_addrs] in H. rewrite app_nil_r in H.
                 apply in_app_or in H. apply in_or_app. destruct H as [H|H]; [left; exact H|right].
                 change (stack_addrs (KSeq env (p :: ps) :: K)) with (env ++ stack_addrs K). apply in_or_app. left. exact H.
              ** right. rewrite H2. auto.
           ++ left. unfold owned_by. apply in_or_app. right.
              change (stack_addrs (KSeq env (p :: ps) :: K)) with (env ++ stack_addrs K). apply in_or_app. left. exact Ha'.
           ++ left. unfold owned_by. apply in_or_app. right.
              change (stack_addrs (KSeq env (p :: ps) :: K)) with (env ++ stack_addrs K). apply in_or_app. right. exact Ha'.
        -- intros ch Hch a Ha. destruct (r_spawn r) as [fs|] eqn:Efs; [|discriminate].
           inversion Hch; subst ch. cbn [g_stack] in Ha. eapply Rs; eauto.
        -- intros b Hb Hn. apply Rh; [exact Hb|]. intros Hhd. apply Hn. unfold owned_by. apply in_or_app. right.
           change (stack_addrs (KSeq env (p :: ps) :: K)) with (env ++ stack_addrs K). apply in_or_app. left.
           destruct env as [|e env']; [discriminate|]. inversion Hhd. left. reflexivity.
    + destruct (run_dacts_own g xs s Hg) as (P1 & P2 & P3).
      destruct (run_dacts g xs s) as [s1 evs]. cbn [fst] in *.
      destruct (resume (g_panic st || negb match evs with [] => true | _ :: _ => false end) K) as [pn K'] eqn:ER.
      cbn [g_stack]. change (stack_addrs (KDefer xs :: K)) with (flat_map dact_addrs xs ++ stack_addrs K).
      splits; auto; [|intros ch H; discriminate| |lia].
      * intros a Ha. left. unfold owned_by in *. apply in_app_or in Ha. apply in_or_app.
        destruct Ha as [Ha|Ha].
        -- destruct (P1 a Ha) as [H|H]; [left; exact H|right].
           change (stack_addrs (KDefer xs :: K)) with (flat_map dact_addrs xs ++ stack_addrs K). apply in_or_app. left. exact H.
        -- right. change (stack_addrs (KDefer xs :: K)) with (flat_map dact_addrs xs ++ stack_addrs K).
           apply in_or_app. right. eapply resume_addrs; eauto.
      * intros b Hb Hn. apply P3. intros H. apply Hn. unfold owned_by. apply in_or_app. right.
        change (stack_addrs (KDefer xs :: K)) with (flat_map dact_addrs xs ++ stack_addrs K). apply in_or_app. left. exact H.
    + destruct (resume (g_panic st) K) as [pn K'] eqn:ER. cbn [g_stack]. splits; auto; [|intros ch H; discriminate].
      intros a Ha. left. unfold owned_by in *. apply in_app_or in Ha. apply in_or_app.
      destruct Ha as [Ha|Ha]; [left; exact Ha|right].
      change (stack_addrs (KTry :: K)) with ([] ++ stack_addrs K). cbn [app]. eapply resume_addrs; eauto.
    + assert (Hfi : tl_find g (tl_init g (tls s)) = Some None)
        by (unfold tl_init; apply tl_find_upd_same; exact Hg).
      assert (Hres : forall b pn K' a, resume b K = (pn, K') -> In a (stack_addrs K') ->
                In a (owned_by (tl_find g (tls s)) (KStart cfo :: K))).
      { intros b pn K' a ER Ha. unfold owned_by. apply in_or_app. right.
        change (stack_addrs (KStart cfo :: K)) with (frame_addrs (KStart cfo) ++ stack_addrs K).
        apply in_or_app. right. eapply resume_addrs; eauto. }
      destruct cfo as [cf|].
      * unfold tl_set. rewrite Hfi.
        destruct (resume false K) as [pn K'] eqn:ER. cbn [g_stack with_tls tls cheap].
        splits; auto; [|intros ch H; discriminate].
        intros a Ha. left. unfold owned_by in Ha. apply in_app_or in Ha. destruct Ha as [Ha|Ha]; [|eapply Hres; eauto].
        rewrite tl_find_upd_same in Ha by (unfold tl_init; rewrite upd_length; exact Hg).
        cbn [tbl_addrs In] in Ha. destruct Ha as [<-|[]].
        unfold owned_by. apply in_or_app. right. cbn [stack_addrs flat_map frame_addrs app In]. left. reflexivity.
      * destruct (resume false K) as [pn K'] eqn:ER. cbn [g_stack with_tls tls cheap].
        splits; auto; [|intros ch H; discriminate].
        intros a Ha. left. unfold owned_by in Ha. apply in_app_or in Ha. destruct Ha as [Ha|Ha]; [|eapply Hres; eauto].
        rewrite Hfi in Ha. destruct Ha.
    + cbn [g_stack]. splits; auto; [|intros ch H; discriminate| |destruct cl; cbn [with_tls cheap]; auto].
      * intros a Ha. left. unfold owned_by in *. apply in_app_or in Ha. apply in_or_app.
        destruct Ha as [Ha|Ha].
        -- destruct cl; cbn [with_tls tls] in Ha; [|left; exact Ha].
           unfold tl_cleanup in Ha. rewrite tl_find_upd_same in Ha by exact Hg. destruct Ha.
        -- right. change (stack_addrs (KEnd cl :: K)) with ([] ++ stack_addrs K). exact Ha.
      * intros b Hb Hn. destruct cl; reflexivity.
Qed.

(* ---- the ownership invariant ------------------------------------------------------------------------ *)

Record Own (c : config) : Prop := {
  own_lt : forall g st a, nth_error (gs c) g = Some st -> In a (owned c g st) -> a < length (cheap (sh c));
  own_disj : forall g h stg sth a, g <> h -> nth_error (gs c) g = Some stg -> nth_error (gs c) h = Some sth ->
             In a (owned c g stg) -> In a (owned c h sth) -> False
}.

(* what `step g c` is made of *)
Lemma step_parts g c st :
  nth_error (gs c) g = Some st ->
  let '(s1, st1, sp) := step_g g (sh c) st in
  gs (step g c) = upd g st1 (gs c) ++ match sp with Some ch => [ch] | None => [] end /\
  tls (sh (step g c)) = tls s1 ++ match sp with Some _ => [None] | None => [] end /\
  cheap (sh (step g c)) = cheap s1 /\ lheap (sh (step g c)) = lheap s1.
Proof.
  intros Eg. unfold step. rewrite Eg. destruct (step_g g (sh c) st) as [[s1 st1] sp].
  destruct sp; cbn [sh gs with_tls tls cheap lheap]; rewrite ?app_nil_r; auto.
Qed.

Lemma step_own g c : Inv c -> Own c -> Own (step g c).
Proof.
  intros HI HO. destruct (nth_error (gs c) g) as [st|] eqn:Eg; [|unfold step; rewrite Eg; exact HO].
  pose proof HI as [Hlen Hg]. destruct HO as [Olt Odisj].
  assert (Hlt : g < length (tls (sh c))) by (rewrite Hlen; eapply nth_error_lt; eauto).
  assert (Hltg : g < length (gs c)) by (eapply nth_error_lt; eauto).
  destruct (Hg g st Eg) as [Hst Htr].
  pose proof (step_g_ok g (sh c) st Hlt Hst Htr) as S.
  pose proof (step_g_own g (sh c) st Hlt) as W.
  pose proof (step_parts g c st Eg) as P.
  destruct (step_g g (sh c) st) as [[s1 st1] sp].
  destruct S as (Ssh & _). destruct W as (W1 & W2 & W3 & W4). destruct P as (Pg & Pt & Pc & Pl).
  set (n := length (cheap (sh c))) in *. set (n1 := length (cheap s1)) in *.
  (* every goroutine of the new configuration is: g itself, an old other goroutine, or the child *)
  assert (Cls : forall i st' a, nth_error (gs (step g c)) i = Some st' -> In a (owned (step g c) i st') ->
            (i = g /\ (In a (owned c g st) \/ (n <= a < n1 /\ sp = None))) \/
            (i <> g /\ nth_error (gs c) i = Some st' /\ In a (owned c i st')) \/
            (i = length (gs c) /\ sp <> None /\ n <= a < n1)).
  { intros i st' a Ei Ha. unfold owned in Ha. rewrite Pt in Ha. rewrite Pg in Ei.
    assert (Htf : tl_find i (tls s1 ++ match sp with Some _ => [None] | None => [] end) = tl_find i (tls s1))
      by (destruct sp; [apply tl_find_snoc|rewrite app_nil_r; reflexivity]).
    rewrite Htf in Ha.
    destruct (Nat.lt_ge_cases i (length (gs c))) as [Hi|Hi].
    - rewrite nth_error_app1 in Ei by (rewrite upd_length; exact Hi).
      destruct (Nat.eq_dec i g) as [->|Hne].
      + left. split; [reflexivity|]. rewrite nth_error_upd_same in Ei by exact Hltg. inversion Ei; subst st'.
        apply W1. exact Ha.
      + right. left. rewrite nth_error_upd_other in Ei by auto. splits; auto.
        unfold owned. rewrite <- (ss_other _ _ _ Ssh) by exact Hne. exact Ha.
    - right. right. rewrite nth_error_app2 in Ei by (rewrite upd_length; exact Hi). rewrite upd_length in Ei.
      destruct sp as [ch|]; [|destruct (i - length (gs c)); discriminate].
      destruct (i - length (gs c)) as [|k] eqn:Ek; [|destruct k; discriminate]. cbn [nth_error] in Ei.
      inversion Ei; subst st'. split; [lia|]. split; [discriminate|].
      rewrite tl_find_overflow in Ha by (rewrite (ss_len _ _ _ Ssh), Hlen; exact Hi).
      unfold owned_by in Ha. cbn [tbl_addrs app] in Ha. eapply W2; eauto. }
  split.
  - intros i st' a Ei Ha. rewrite Pc. fold n1.
    destruct (Cls i st' a Ei Ha) as [(-> & [H|[H _]])|[(Hne & Ei' & H)|(-> & _ & H)]]; try lia.
    + pose proof (Olt g st a Eg H). unfold n1, n in *. lia.
    + pose proof (Olt i st' a Ei' H). unfold n1, n in *. lia.
  - intros i j sti stj a Hij Ei Ej Hai Haj.
    destruct (Cls i sti a Ei Hai) as [(-> & Hi)|[(Hni & Ei' & Hi)|(-> & Hsp & Hi)]];
    destruct (Cls j stj a Ej Haj) as [(-> & Hj)|[(Hnj & Ej' & Hj)|(-> & Hsp' & Hj)]]; try congruence.
    + destruct Hi as [Hi|[Hi _]]; [eapply (Odisj g j); eauto|]. pose proof (Olt j stj a Ej' Hj). unfold n in *. lia.
    + destruct Hi as [Hi|[_ Hi]]; [|congruence]. pose proof (Olt g st a Eg Hi). unfold n in *. lia.
    + destruct Hj as [Hj|[Hj _]]; [eapply (Odisj g i); eauto|]. pose proof (Olt i sti a Ei' Hi). unfold n in *. lia.
    + eapply (Odisj i j); eauto.
    + pose proof (Olt i sti a Ei' Hi). unfold n in *. lia.
    + destruct Hj as [Hj|[_ Hj]]; [|congruence]. pose proof (Olt g st a Eg Hj). unfold n in *. lia.
    + pose proof (Olt j stj a Ej' Hj). unfold n in *. lia.
Qed.

Lemma run_inv_own sched : forall c, Inv c -> Own c -> Inv (run sched c) /\ Own (run sched c).
Proof.
  induction sched as [|g sched IH]; intros c HI HO; cbn [run fold_left]; [auto|].
  apply IH; [apply step_inv; exact HI|apply step_own; auto].
Qed.

Lemma init_own roots : Own (init_config roots).
Proof.
  assert (E : forall g st a, nth_error (gs (init_config roots)) g = Some st -> In a (owned (init_config roots) g st) -> False).
  { intros g st a Eg Ha. cbn [init_config gs] in Eg. rewrite nth_error_map in Eg.
    destruct (nth_error roots g) as [ps|]; [|discriminate]. cbn [option_map] in Eg. inversion Eg; subst st.
    unfold owned in Ha. cbn [init_config sh tls] in Ha. rewrite tl_find_all_none in Ha.
    unfold owned_by in Ha. cbn [tbl_addrs app root_gstate g_stack] in Ha.
    apply settle_addrs in Ha. cbn in Ha. exact Ha. }
  split.
  - intros g st a Eg Ha. exfalso. eapply E; eauto.
  - intros g h stg sth a _ Eg _ Ha _. eapply E; eauto.
Qed.

Theorem reachable_own roots sched : Own (run sched (init_config roots)).
Proof. apply run_inv_own; [apply init_inv|apply init_own]. Qed.

(* ---- consequences ------------------------------------------------------------------------------------- *)

(* never observed from another goroutine: two goroutines never have the same current context *)
Lemma current_not_shared c g h a :
  Inv c -> Own c -> g <> h -> tl_get g (tls (sh c)) = Some a -> tl_get h (tls (sh c)) <> Some a.
Proof.
  intros [Hlen _] [_ Odisj] Hne Eg Eh. rewrite tl_get_find in Eg, Eh.
  assert (Hex : forall i, tbl_ctx (tl_find i (tls (sh c))) = Some a -> exists st, nth_error (gs c) i = Some st).
  { intros i Hi. destruct (nth_error (gs c) i) as [st|] eqn:E; [eauto|].
    apply nth_error_None in E. rewrite tl_find_overflow in Hi by (rewrite Hlen; exact E). discriminate. }
  destruct (Hex g Eg) as [stg Sg]. destruct (Hex h Eh) as [sth Sh].
  apply (Odisj g h stg sth a Hne Sg Sh); unfold owned, owned_by; apply in_or_app; left; apply tbl_addrs_ctx; auto.
Qed.

(* a step of goroutine h does not touch a context that belongs to goroutine g *)
Lemma step_ctx_isolated c g h st a :
  Inv c -> Own c -> h <> g -> nth_error (gs c) g = Some st -> In a (owned c g st) ->
  nth_error (cheap (sh (step h c))) a = nth_error (cheap (sh c)) a.
Proof.
  intros HI HO Hne Eg Ha. destruct (nth_error (gs c) h) as [sth|] eqn:Eh; [|unfold step; rewrite Eh; reflexivity].
  pose proof HI as [Hlen _]. pose proof HO as [Olt Odisj].
  assert (Hlt : h < length (tls (sh c))) by (rewrite Hlen; eapply nth_error_lt; eauto).
  pose proof (step_g_own h (sh c) sth Hlt) as W. pose proof (step_parts h c sth Eh) as P.
  destruct (step_g h (sh c) sth) as [[s1 st1] sp]. destruct W as (_ & _ & W3 & _). destruct P as (_ & _ & Pc & _).
  rewrite Pc. apply W3.
  - exact (Olt g st a Eg Ha).
  - intro Hb. apply (Odisj g h st sth a (not_eq_sym Hne) Eg Eh Ha). exact Hb.
Qed.

(* ... along any schedule in which g itself does not move, as long as it keeps the context *)
Lemma run_ctx_isolated g : forall sched c st a,
  Inv c -> Own c -> ~ In g sched -> nth_error (gs c) g = Some st -> In a (owned c g st) ->
  nth_error (cheap (sh (run sched c))) a = nth_error (cheap (sh c)) a /\
  nth_error (gs (run sched c)) g = Some st /\ tl_find g (tls (sh (run sched c))) = tl_find g (tls (sh c)).
Proof.
  induction sched as [|h sched IH]; intros c st a HI HO Hn Eg Ha; cbn [run fold_left]; [auto|].
  assert (Hne : h <> g) by (intros ->; apply Hn; left; reflexivity).
  destruct (step_other g h c st HI Hne Eg) as [Eg1 Et1].
  assert (Ha1 : In a (owned (step h c) g st)) by (unfold owned in *; rewrite Et1; exact Ha).
  destruct (IH (step h c) st a (step_inv h c HI) (step_own h c HI HO) (fun H => Hn (or_intror H)) Eg1 Ha1) as (R1 & R2 & R3).
  fold (run sched (step h c)). rewrite R1, R3. splits; auto.
  eapply step_ctx_isolated; eauto.
Qed.

(* ================================================================================================ *)
(* Part 8: loaders                                                                                   *)

(* the parent of a loader is older than the loader *)
Definition lh_wf (lh : list ldr) : Prop :=
  forall i ld p, nth_error lh i = Some ld -> l_parent ld = Some p -> p < i.

(* lh' has the loaders of lh, with the same parents (entries may have been added), and maybe more *)
Definition lh_ext (lh lh' : list ldr) : Prop :=
  length lh <= length lh' /\
  forall i ld, nth_error lh i = Some ld -> exists ld', nth_error lh' i = Some ld' /\ l_parent ld' = l_parent ld.

Lemma lh_ext_refl lh : lh_ext lh lh.
Proof. split; [lia|]. intros i ld H. exists ld. auto. Qed.

Lemma lh_ext_trans a b c : lh_ext a b -> lh_ext b c -> lh_ext a c.
Proof.
  intros [A1 A2] [B1 B2]. split; [lia|]. intros i ld H.
  destruct (A2 i ld H) as (ld' & H' & P'). destruct (B2 i ld' H') as (ld'' & H'' & P''). exists ld''. split; [auto|congruence].
Qed.

Lemma lh_ext_snoc lh x : lh_ext lh (lh ++ [x]).
Proof.
  split; [rewrite app_length; lia|]. intros i ld H. exists ld. split; [|reflexivity].
  rewrite nth_error_app1; [exact H|]. eapply nth_error_lt; eauto.
Qed.

Lemma lh_ext_upd lh l ld ld' :
  nth_error lh l = Some ld -> l_parent ld' = l_parent ld -> lh_ext lh (upd l ld' lh).
Proof.
  intros H P. split; [rewrite upd_length; lia|]. intros i ldi Hi.
  destruct (Nat.eq_dec l i) as [->|Hne].
  - exists ld'. rewrite nth_error_upd_same by (eapply nth_error_lt; eauto). split; [reflexivity|congruence].
  - exists ldi. rewrite nth_error_upd_other by exact Hne. auto.
Qed.

Lemma lh_wf_snoc lh x : lh_wf lh -> (forall p, l_parent x = Some p -> p < length lh) -> lh_wf (lh ++ [x]).
Proof.
  intros W Hx i ld p Hi Hp. destruct (Nat.lt_ge_cases i (length lh)) as [Hlt|Hge].
  - rewrite nth_error_app1 in Hi by exact Hlt. eapply W; eauto.
  - rewrite nth_error_app2 in Hi by exact Hge. destruct (i - length lh) as [|k] eqn:E; [|destruct k; discriminate].
    cbn [nth_error] in Hi. inversion Hi; subst ld. apply Hx in Hp. lia.
Qed.

Lemma lh_wf_upd lh l ld ld' :
  lh_wf lh -> nth_error lh l = Some ld -> l_parent ld' = l_parent ld -> lh_wf (upd l ld' lh).
Proof.
  intros W H P i ldi p Hi Hp. destruct (Nat.eq_dec l i) as [->|Hne].
  - rewrite nth_error_upd_same in Hi by (eapply nth_error_lt; eauto). inversion Hi; subst ldi.
    eapply W; eauto. congruence.
  - rewrite nth_error_upd_other in Hi by exact Hne. eapply W; eauto.
Qed.

Lemma set_entry_parent n v ld ld' : set_entry n v ld = Some ld' -> l_parent ld' = l_parent ld.
Proof.
  unfold set_entry. destruct (alist_get n (l_ents ld)) as [ov|].
  - destruct (Z.eqb ov v); intros H; inversion H; reflexivity.
  - intros H; inversion H; reflexivity.
Qed.

(* the loaders of a shared state are in order: there is a base loader, parents are older, every context has an
   existing loader *)
Record ld_ok (s : shared) : Prop := {
  ldk_base : 0 < length (lheap s);
  ldk_wf : lh_wf (lheap s);
  ldk_ctx : forall a c, nth_error (cheap s) a = Some c -> c_loader c < length (lheap s)
}.

(* the loaders saved by DoWithLoader exist *)
Definition frames_ld (m : nat) (K : list frame) : Prop :=
  forall xs a l, In (KDefer xs) K -> In (XLoader a l) xs -> l < m.

Lemma frames_ld_mono m m' K : m <= m' -> frames_ld m K -> frames_ld m' K.
Proof. intros Hm H xs a l H1 H2. pose proof (H xs a l H1 H2). lia. Qed.

Lemma frames_ld_incl m K K' : (forall f, In f K' -> In f K) -> frames_ld m K -> frames_ld m K'.
Proof. intros Hi H xs a l H1 H2. eapply H; eauto. Qed.

Lemma frames_ld_app m X Y : frames_ld m X -> frames_ld m Y -> frames_ld m (X ++ Y).
Proof. intros HX HY xs a l H1 H2. apply in_app_or in H1. destruct H1; [eapply HX|eapply HY]; eauto. Qed.

Lemma settle_incl : forall K f, In f (settle K) -> In f K.
Proof.
  induction K as [|f0 K IH]; intros f H; cbn [settle] in H; [exact H|].
  destruct f0 as [env ps|xs| |cfo|cl]; try exact H.
  - destruct ps; [right; apply IH; exact H|exact H].
  - right. apply IH. exact H.
Qed.

Lemma unwind_incl : forall K f, In f (snd (unwind K)) -> In f K.
Proof.
  induction K as [|f0 K IH]; intros f H; cbn [unwind] in H; [exact H|].
  destruct f0 as [env ps|xs| |cfo|cl]; cbn [snd] in H; try exact H.
  - right. apply IH. exact H.
  - right. apply settle_incl. exact H.
  - right. apply IH. exact H.
Qed.

Lemma resume_incl b K pn K' f : resume b K = (pn, K') -> In f K' -> In f K.
Proof.
  intros E H. unfold resume in E. destruct b.
  - apply unwind_incl. rewrite E. exact H.
  - inversion E; subst. apply settle_incl. exact H.
Qed.

Lemma resume_exit_incl b X env ps p K pn K' f :
  resume b (X ++ KSeq env ps :: exit_stack p K) = (pn, K') -> In f K' -> In f (X ++ KSeq env ps :: K).
Proof.
  intros E Hf. apply (resume_incl _ _ _ _ _ E) in Hf.
  apply in_app_or in Hf. apply in_or_app. destruct Hf as [Hf|Hf]; [left; exact Hf|right].
  destruct Hf as [Hf|Hf]; [left; exact Hf|right; eapply exit_stack_incl; eauto].
Qed.

(* updates that keep the loaders in order *)
Lemma ld_ok_put a c s : ld_ok s -> c_loader c < length (lheap s) -> ld_ok (put_ctx a c s).
Proof.
  intros [B W C] Hc. split; cbn [put_ctx with_cheap cheap lheap]; auto.
  intros b cb Hb. destruct (Nat.eq_dec a b) as [->|Hne].
  - destruct (Nat.lt_ge_cases b (length (cheap s))) as [Hlt|Hge].
    + rewrite nth_error_upd_same in Hb by exact Hlt. inversion Hb; subst. exact Hc.
    + apply nth_error_lt in Hb. rewrite upd_length in Hb. lia.
  - rewrite nth_error_upd_other in Hb by exact Hne. eapply C; eauto.
Qed.

Lemma ld_ok_alloc c s : ld_ok s -> c_loader c < length (lheap s) -> ld_ok (snd (alloc_ctx c s)).
Proof.
  intros [B W C] Hc. split; cbn [alloc_ctx snd with_cheap cheap lheap]; auto.
  intros b cb Hb. destruct (Nat.lt_ge_cases b (length (cheap s))) as [Hlt|Hge].
  - rewrite nth_error_app1 in Hb by exact Hlt. eapply C; eauto.
  - rewrite nth_error_app2 in Hb by exact Hge. destruct (b - length (cheap s)) as [|k]; [|destruct k; discriminate].
    cbn [nth_error] in Hb. inversion Hb; subst. exact Hc.
Qed.

Lemma ld_ok_tls t s : ld_ok s -> ld_ok (with_tls t s).
Proof. intros [B W C]. split; auto. Qed.

Lemma ld_ok_new_loader lbl p s :
  ld_ok s -> p < length (lheap s) ->
  ld_ok (with_lheap (snd (new_loader lbl p (lheap s))) s) /\ fst (new_loader lbl p (lheap s)) = length (lheap s) /\
  length (snd (new_loader lbl p (lheap s))) = S (length (lheap s)).
Proof.
  intros [B W C] Hp. unfold new_loader. cbn [fst snd]. splits; auto; [|rewrite app_length; cbn [length]; lia].
  split; cbn [with_lheap cheap lheap].
  - rewrite app_length. lia.
  - apply lh_wf_snoc; [exact W|]. cbn [l_parent]. intros q Hq. inversion Hq; subst. exact Hp.
  - intros a c Ha. rewrite app_length. pose proof (C a c Ha). lia.
Qed.

Lemma ld_ok_upd l ld ld' s :
  ld_ok s -> nth_error (lheap s) l = Some ld -> l_parent ld' = l_parent ld -> ld_ok (with_lheap (upd l ld' (lheap s)) s).
Proof.
  intros [B W C] H P. split; cbn [with_lheap cheap lheap]; rewrite ?upd_length; auto.
  eapply lh_wf_upd; eauto.
Qed.

Lemma eval_lexp_ok lbl le c s :
  ld_ok s -> c_loader c < length (lheap s) ->
  ld_ok (with_lheap (snd (eval_lexp lbl le c (lheap s))) s) /\
  fst (eval_lexp lbl le c (lheap s)) < length (snd (eval_lexp lbl le c (lheap s))) /\
  lh_ext (lheap s) (snd (eval_lexp lbl le c (lheap s))).
Proof.
  intros Hs Hc. destruct le; cbn [eval_lexp].
  - destruct (ld_ok_new_loader lbl (c_loader c) s Hs Hc) as (A1 & A2 & A3). splits; auto; [lia|apply lh_ext_snoc].
  - assert (Hid : with_lheap (lheap s) s = s) by (destruct s; reflexivity).
    destruct (nth_error (lheap s) (c_loader c)) as [ld|] eqn:E; cbn [fst snd]; rewrite ?Hid.
    + destruct (l_parent ld) as [p|] eqn:Ep; cbn [fst snd]; rewrite ?Hid; splits; auto using lh_ext_refl.
      pose proof (ldk_wf _ Hs _ _ _ E Ep). lia.
    + splits; auto using lh_ext_refl.
  - assert (Hid : with_lheap (lheap s) s = s) by (destruct s; reflexivity).
    cbn [fst snd]. rewrite Hid. splits; auto using lh_ext_refl. apply (ldk_base _ Hs).
Qed.

(* the result of a statement, as to loaders *)
Record res_ld (g : gid) (env : list addr) (s : shared) (r : sres) : Prop := {
  rl_ok : ld_ok (r_sh r);
  rl_ext : lh_ext (lheap s) (lheap (r_sh r));
  rl_push : frames_ld (length (lheap (r_sh r))) (r_push r);
  rl_spawn : forall fs, r_spawn r = Some fs -> frames_ld (length (lheap (r_sh r))) fs;
  (* entries are added to the loader of the lexical context only *)
  rl_ents : forall l ld, nth_error (lheap s) l = Some ld ->
            nth_error (lheap (r_sh r)) l = Some ld \/
            exists a c, hd_error env = Some a /\ nth_error (cheap s) a = Some c /\ c_loader c = l
}.

Lemma frames_ld_nil m : frames_ld m [].
Proof. intros xs a l []. Qed.

Lemma res_ld_plain g env s0 s r :
  ld_ok s -> lh_ext (lheap s0) (lheap s) -> r_sh r = s -> r_spawn r = None ->
  frames_ld (length (lheap s)) (r_push r) ->
  (forall l ld, nth_error (lheap s0) l = Some ld -> nth_error (lheap s) l = Some ld) ->
  res_ld g env s0 r.
Proof.
  intros Hok Hext Es Esp Hp He. split; rewrite ?Es; auto.
  intros fs H. congruence.
Qed.

Lemma res_ld_raise g env s0 s c :
  ld_ok s -> lh_ext (lheap s0) (lheap s) ->
  (forall l ld, nth_error (lheap s0) l = Some ld -> nth_error (lheap s) l = Some ld) -> res_ld g env s0 (raise s c).
Proof. intros. eapply res_ld_plain; eauto. apply frames_ld_nil. Qed.

Lemma res_ld_done g env s0 s :
  ld_ok s -> lh_ext (lheap s0) (lheap s) ->
  (forall l ld, nth_error (lheap s0) l = Some ld -> nth_error (lheap s) l = Some ld) -> res_ld g env s0 (ok s).
Proof. intros. eapply res_ld_plain; eauto. apply frames_ld_nil. Qed.

Lemma res_ld_with_lex g env s f :
  ld_ok s ->
  (forall a c rest, env = a :: rest -> nth_error (cheap s) a = Some c -> res_ld g env s (f a c)) ->
  res_ld g env s (with_lex env s f).
Proof.
  intros Hs H. unfold with_lex. destruct env as [|a rest]; [apply res_ld_raise; auto using lh_ext_refl|].
  destruct (nth_error (cheap s) a) as [c|] eqn:E; [eapply H; eauto|apply res_ld_raise; auto using lh_ext_refl].
Qed.

Lemma dwc_enter_no_loader g a t xa xl : snd (fst (dwc_enter g a t)) <> XLoader xa xl.
Proof.
  unfold dwc_enter.
  destruct (tl_get g t); [|destruct (tl_initialized g t)];
    match goal with |- context [tl_set ?g ?a ?t] => destruct (tl_set g a t) end; cbn [fst snd]; discriminate.
Qed.

Lemma run_dact_ld g x s :
  ld_ok s -> (forall a l, x = XLoader a l -> l < length (lheap s)) ->
  ld_ok (fst (run_dact g x s)) /\ lheap (fst (run_dact g x s)) = lheap s.
Proof.
  intros Hs Hx. destruct x as [saved| | |a l]; cbn [run_dact].
  - destruct (tl_set g saved (tls s)); cbn [fst]; split; auto. apply ld_ok_tls; auto.
  - cbn [fst]. split; auto. apply ld_ok_tls; auto.
  - cbn [fst]. split; auto. apply ld_ok_tls; auto.
  - destruct (nth_error (cheap s) a) as [c|]; cbn [fst]; split; auto.
    apply (ld_ok_put a (set_loader l c) s Hs). cbn [set_loader c_loader]. eapply Hx; eauto.
Qed.

Lemma run_dacts_ld g : forall xs s,
  ld_ok s -> (forall a l, In (XLoader a l) xs -> l < length (lheap s)) ->
  ld_ok (fst (run_dacts g xs s)) /\ lheap (fst (run_dacts g xs s)) = lheap s.
Proof.
  induction xs as [|x xs IH]; intros s Hs Hx; cbn [run_dacts]; [cbn [fst]; auto|].
  destruct (run_dact_ld g x s Hs) as [A B]; [intros a l ->; apply (Hx a l); left; reflexivity|].
  destruct (run_dact g x s) as [s1 p]. cbn [fst] in *.
  destruct (IH s1 A) as [A' B']; [intros a l H; rewrite B; apply (Hx a l); right; exact H|].
  destruct (run_dacts g xs s1) as [s2 evs]. cbn [fst] in *. split; [exact A'|congruence].
Qed.

(* DoWithContext in state s (reached from s0 without changing old loaders) *)
Lemma res_ld_dwc g a env body s0 s :
  ld_ok s -> lh_ext (lheap s0) (lheap s) ->
  (forall l ld, nth_error (lheap s0) l = Some ld -> nth_error (lheap s) l = Some ld) ->
  res_ld g env s0 (do_with_context g a env body s).
Proof.
  intros Hs Hext He. unfold do_with_context.
  pose proof (dwc_enter_no_loader g a (tls s)) as Hl.
  destruct (dwc_enter g a (tls s)) as [[t x] fine]. cbn [fst snd] in Hl.
  destruct fine.
  - eapply res_ld_plain; [apply ld_ok_tls; exact Hs|exact Hext|reflexivity|reflexivity| |exact He].
    cbn [enter r_push with_tls lheap]. intros xs xa xl [H|[H|[]]] Hin; [discriminate|].
    inversion H; subst xs. destruct Hin as [->|[]]. exfalso. eapply Hl; reflexivity.
  - destruct (run_dact_ld g x (with_tls t s) (ld_ok_tls t s Hs)) as [A B]; [intros xa xl ->; exfalso; eapply Hl; reflexivity|].
    destruct (run_dact g x (with_tls t s)) as [s1 p]. cbn [fst] in *. cbn [with_tls lheap] in B.
    apply res_ld_raise; rewrite ?B; auto.
Qed.

Lemma fork_ctx_ld lbl c s :
  ld_ok s -> c_loader c < length (lheap s) ->
  ld_ok (with_lheap (snd (fork_ctx lbl c (lheap s))) s) /\
  c_loader (fst (fork_ctx lbl c (lheap s))) = length (lheap s) /\
  snd (fork_ctx lbl c (lheap s)) = lheap s ++ [{| l_label := lbl; l_parent := Some (c_loader c); l_ents := [] |}].
Proof.
  intros Hs Hc. destruct (ld_ok_new_loader lbl (c_loader c) s Hs Hc) as (A1 & A2 & A3).
  unfold fork_ctx. unfold new_loader in *. cbn [fst snd c_loader] in *. auto.
Qed.

Lemma nth_error_snoc_old {A} (l : list A) x i y : nth_error l i = Some y -> nth_error (l ++ [x]) i = Some y.
Proof. intros H. rewrite nth_error_app1; [exact H|]. eapply nth_error_lt; eauto. Qed.

Lemma exec_stmt_ld g env p s : ld_ok s -> res_ld g env s (exec_stmt g env p s).
Proof.
  intros Hs.
  destruct p as [lbl try body|lbl ce body|lbl le body|lbl body|lbl body|body|body|k v|k|l| |lbl le|n v|lbl| | ];
    cbn [exec_stmt].
  - (* PDo *)
    set (root := {| c_label := unknown_label; c_loader := 0; c_stack := []; c_vars := [] |}).
    assert (Hr : c_loader root < length (lheap s)) by (cbn; apply (ldk_base _ Hs)).
    pose proof (ld_ok_alloc root s Hs Hr) as Hs1.
    destruct (alloc_ctx root s) as [ra s1] eqn:Ea1. cbn [snd] in Hs1.
    assert (El1 : lheap s1 = lheap s) by (unfold alloc_ctx in Ea1; inversion Ea1; reflexivity).
    pose proof (dwc_enter_no_loader g ra (tls s1)) as Hl1.
    destruct (dwc_enter g ra (tls s1)) as [[t1 x1] fine1]. cbn [fst snd] in Hl1.
    destruct fine1; cbn [negb].
    + assert (Hr1 : c_loader root < length (lheap s1)) by (rewrite El1; exact Hr).
      destruct (fork_ctx_ld lbl root s1 Hs1 Hr1) as (F1 & F2 & F3).
      destruct (fork_ctx lbl root (lheap s1)) as [fc lh]. cbn [fst snd] in F1, F2, F3.
      assert (Hs2a : ld_ok (with_lheap lh (with_tls t1 s1))) by (destruct F1; split; auto).
      assert (Hfc : c_loader fc < length (lheap (with_lheap lh (with_tls t1 s1)))).
      { cbn [with_lheap lheap]. rewrite F2, F3, app_length. cbn [length]. lia. }
      pose proof (ld_ok_alloc fc _ Hs2a Hfc) as Hs2.
      destruct (alloc_ctx fc (with_lheap lh (with_tls t1 s1))) as [fa s2] eqn:Ea2. cbn [snd] in Hs2.
      assert (El2 : lheap s2 = lh) by (unfold alloc_ctx in Ea2; inversion Ea2; reflexivity).
      pose proof (dwc_enter_no_loader g fa (tls s2)) as Hl2.
      destruct (dwc_enter g fa (tls s2)) as [[t2 x2] fine2]. cbn [fst snd] in Hl2.
      assert (Hext : lh_ext (lheap s) lh) by (rewrite F3, El1; apply lh_ext_snoc).
      assert (Hold : forall l ld, nth_error (lheap s) l = Some ld -> nth_error lh l = Some ld)
        by (intros l ld H; rewrite F3, El1; apply nth_error_snoc_old; exact H).
      destruct fine2; cbn [negb].
      * eapply res_ld_plain; [apply ld_ok_tls; exact Hs2| | reflexivity|reflexivity| |]; cbn [with_tls lheap]; rewrite ?El2; auto.
        cbn [enter r_push]. intros xs xa xl Hin Hx. apply in_app_or in Hin.
        destruct Hin as [[H|[H|[]]]|H]; [discriminate| |destruct try; [destruct H as [H|[]]; discriminate|destruct H]].
        inversion H; subst xs. destruct Hx as [->|[->|[]]]; exfalso; [eapply Hl2|eapply Hl1]; reflexivity.
      * destruct (run_dacts_ld g [x2; x1] (with_tls t2 s2) (ld_ok_tls t2 s2 Hs2)) as [A B].
        { intros xa xl [->|[->|[]]]; exfalso; [eapply Hl2|eapply Hl1]; reflexivity. }
        destruct (run_dacts g [x2; x1] (with_tls t2 s2)) as [s3 e3]. cbn [fst] in *. cbn [with_tls lheap] in B.
        apply res_ld_raise; rewrite ?B, ?El2; auto.
    + destruct (run_dact_ld g x1 (with_tls t1 s1) (ld_ok_tls t1 s1 Hs1)) as [A B]; [intros xa xl ->; exfalso; eapply Hl1; reflexivity|].
      destruct (run_dact g x1 (with_tls t1 s1)) as [s3 e3]. cbn [fst] in *. cbn [with_tls lheap] in B.
      apply res_ld_raise; rewrite ?B, ?El1; auto using lh_ext_refl.
  - (* PDoCtx *)
    destruct ce as [| |k].
    + apply res_ld_with_lex; [exact Hs|]. intros a c rest -> Ea.
      pose proof (ldk_ctx _ Hs a c Ea) as Hc.
      destruct (fork_ctx_ld lbl c s Hs Hc) as (F1 & F2 & F3).
      destruct (fork_ctx lbl c (lheap s)) as [fc lh]. cbn [fst snd] in F1, F2, F3.
      assert (Hfc : c_loader fc < length (lheap (with_lheap lh s))).
      { cbn [with_lheap lheap]. rewrite F2, F3, app_length. cbn [length]. lia. }
      pose proof (ld_ok_alloc fc _ F1 Hfc) as Hs2.
      destruct (alloc_ctx fc (with_lheap lh s)) as [fa s2] eqn:Ea2. cbn [snd] in Hs2.
      assert (El2 : lheap s2 = lh) by (unfold alloc_ctx in Ea2; inversion Ea2; reflexivity).
      apply res_ld_dwc; rewrite ?El2, ?F3; auto using lh_ext_snoc.
      intros l ld H. apply nth_error_snoc_old; exact H.
    + destruct (ld_ok_new_loader lbl 0 s Hs (ldk_base _ Hs)) as (A1 & A2 & A3).
      destruct (new_loader lbl 0 (lheap s)) as [l lh] eqn:En. cbn [fst snd] in A1, A2, A3.
      set (nc := {| c_label := lbl; c_loader := l; c_stack := []; c_vars := [] |}).
      assert (Hnc : c_loader nc < length (lheap (with_lheap lh s))) by (cbn [with_lheap lheap nc c_loader]; lia).
      pose proof (ld_ok_alloc nc _ A1 Hnc) as Hs2.
      destruct (alloc_ctx nc (with_lheap lh s)) as [fa s2] eqn:Ea2. cbn [snd] in Hs2.
      assert (El2 : lheap s2 = lh) by (unfold alloc_ctx in Ea2; inversion Ea2; reflexivity).
      assert (Elh : lh = lheap s ++ [{| l_label := lbl; l_parent := Some 0; l_ents := [] |}])
        by (unfold new_loader in En; inversion En; reflexivity).
      apply res_ld_dwc; rewrite ?El2, ?Elh; auto using lh_ext_snoc.
      intros l' ld H. apply nth_error_snoc_old; exact H.
    + destruct (nth_error env k); [apply res_ld_dwc|apply res_ld_raise]; auto using lh_ext_refl.
  - (* PDoLoader *)
    apply res_ld_with_lex; [exact Hs|]. intros a c rest -> Ea.
    pose proof (ldk_ctx _ Hs a c Ea) as Hc.
    destruct (eval_lexp_ok lbl le c s Hs Hc) as (E1 & E2 & E3).
    assert (E4 : forall l ld, nth_error (lheap s) l = Some ld -> nth_error (snd (eval_lexp lbl le c (lheap s))) l = Some ld).
    { intros l ld H. destruct le; cbn [eval_lexp]; unfold new_loader; cbn [snd].
      - apply nth_error_snoc_old; exact H.
      - destruct (nth_error (lheap s) (c_loader c)) as [ldc|]; [destruct (l_parent ldc)|]; exact H.
      - exact H. }
    destruct (eval_lexp lbl le c (lheap s)) as [l lh]. cbn [fst snd] in *.
    eapply res_ld_plain; [| |reflexivity|reflexivity| |]; cbn [enter r_sh r_push put_ctx with_cheap with_lheap lheap].
    + apply (ld_ok_put a (set_loader l c) (with_lheap lh s) E1). cbn [set_loader c_loader with_lheap lheap]. exact E2.
    + exact E3.
    + intros xs xa xl [H|[H|[]]] Hin; [discriminate|]. inversion H; subst xs. destruct Hin as [Hin|[]].
      inversion Hin; subst. destruct E3 as [E3 _]. lia.
    + exact E4.
  - (* PFork *)
    apply res_ld_with_lex; [exact Hs|]. intros a c rest -> Ea.
    pose proof (ldk_ctx _ Hs a c Ea) as Hc.
    destruct (fork_ctx_ld lbl c s Hs Hc) as (F1 & F2 & F3).
    destruct (fork_ctx lbl c (lheap s)) as [fc lh]. cbn [fst snd] in F1, F2, F3.
    assert (Hfc : c_loader fc < length (lheap (with_lheap lh s))).
    { cbn [with_lheap lheap]. rewrite F2, F3, app_length. cbn [length]. lia. }
    pose proof (ld_ok_alloc fc _ F1 Hfc) as Hs2.
    destruct (alloc_ctx fc (with_lheap lh s)) as [fa s2] eqn:Ea2. cbn [snd] in Hs2.
    assert (El2 : lheap s2 = lh) by (unfold alloc_ctx in Ea2; inversion Ea2; reflexivity).
    split; cbn [spawn r_sh r_push r_spawn]; rewrite ?El2, ?F3; auto using lh_ext_snoc, frames_ld_nil.
    * intros fs H. inversion H; subst fs. intros xs xa xl [H1|[H1|[H1|[]]]]; discriminate.
    * intros l ld H. left. apply nth_error_snoc_old; exact H.
  - (* PGo *)
    destruct (tl_get g (tls s)) as [a|]; [|apply res_ld_raise; auto using lh_ext_refl].
    destruct (nth_error (cheap s) a) as [c|] eqn:Ea; [|apply res_ld_raise; auto using lh_ext_refl].
    pose proof (ldk_ctx _ Hs a c Ea) as Hc.
    destruct (fork_ctx_ld lbl c s Hs Hc) as (F1 & F2 & F3).
    destruct (fork_ctx lbl c (lheap s)) as [fc lh]. cbn [fst snd] in F1, F2, F3.
    assert (Hfc : c_loader fc < length (lheap (with_lheap lh s))).
    { cbn [with_lheap lheap]. rewrite F2, F3, app_length. cbn [length]. lia. }
    pose proof (ld_ok_alloc fc _ F1 Hfc) as Hs2.
    destruct (alloc_ctx fc (with_lheap lh s)) as [fa s2] eqn:Ea2. cbn [snd] in Hs2.
    assert (El2 : lheap s2 = lh) by (unfold alloc_ctx in Ea2; inversion Ea2; reflexivity).
    split; cbn [spawn r_sh r_push r_spawn]; rewrite ?El2, ?F3; auto using lh_ext_snoc, frames_ld_nil.
    * intros fs H. inversion H; subst fs. intros xs xa xl [H1|[H1|[H1|[]]]]; discriminate.
    * intros l ld H. left. apply nth_error_snoc_old; exact H.
  - (* PTlGo *)
    split; cbn [spawn r_sh r_push r_spawn]; auto using lh_ext_refl, frames_ld_nil.
    intros fs H. inversion H; subst fs. intros xs xa xl [H1|[H1|[H1|[]]]]; discriminate.
  - (* PTry *)
    eapply res_ld_plain; [exact Hs|apply lh_ext_refl|reflexivity|reflexivity| |auto].
    cbn [enter r_push]. intros xs xa xl [H|[H|[]]]; discriminate.
  - (* PSet *)
    apply res_ld_with_lex; [exact Hs|]. intros a c rest -> Ea. apply res_ld_done; cbn [put_ctx with_cheap lheap]; auto using lh_ext_refl.
    apply ld_ok_put; auto. cbn [set_vars c_loader]. eapply ldk_ctx; eauto.
  - (* PDel *)
    apply res_ld_with_lex; [exact Hs|]. intros a c rest -> Ea. apply res_ld_done; cbn [put_ctx with_cheap lheap]; auto using lh_ext_refl.
    apply ld_ok_put; auto. cbn [set_vars c_loader]. eapply ldk_ctx; eauto.
  - (* PPush *)
    apply res_ld_with_lex; [exact Hs|]. intros a c rest -> Ea. apply res_ld_done; cbn [put_ctx with_cheap lheap]; auto using lh_ext_refl.
    apply ld_ok_put; auto. cbn [set_stack c_loader]. eapply ldk_ctx; eauto.
  - (* PPop *)
    apply res_ld_with_lex; [exact Hs|]. intros a c rest -> Ea.
    destruct (c_stack c); [apply res_ld_raise; auto using lh_ext_refl|].
    apply res_ld_done; cbn [put_ctx with_cheap lheap]; auto using lh_ext_refl.
    apply ld_ok_put; auto. cbn [set_stack c_loader]. eapply ldk_ctx; eauto.
  - (* PSetLoader *)
    apply res_ld_with_lex; [exact Hs|]. intros a c rest -> Ea.
    pose proof (ldk_ctx _ Hs a c Ea) as Hc.
    destruct (eval_lexp_ok lbl le c s Hs Hc) as (E1 & E2 & E3).
    assert (E4 : forall l ld, nth_error (lheap s) l = Some ld -> nth_error (snd (eval_lexp lbl le c (lheap s))) l = Some ld).
    { intros l ld H. destruct le; cbn [eval_lexp]; unfold new_loader; cbn [snd].
      - apply nth_error_snoc_old; exact H.
      - destruct (nth_error (lheap s) (c_loader c)) as [ldc|]; [destruct (l_parent ldc)|]; exact H.
      - exact H. }
    destruct (eval_lexp lbl le c (lheap s)) as [l lh]. cbn [fst snd] in *.
    apply res_ld_done; cbn [put_ctx with_cheap with_lheap lheap]; auto.
    apply (ld_ok_put a (set_loader l c) (with_lheap lh s) E1). cbn [set_loader c_loader with_lheap lheap]. exact E2.
  - (* PDefine *)
    apply res_ld_with_lex; [exact Hs|]. intros a c rest -> Ea.
    destruct (nth_error (lheap s) (c_loader c)) as [ld|] eqn:El; [|apply res_ld_raise; auto using lh_ext_refl].
    destruct (set_entry n v ld) as [ld'|] eqn:Es; [|apply res_ld_raise; auto using lh_ext_refl].
    pose proof (set_entry_parent _ _ _ _ Es) as Hp.
    split; cbn [ok r_sh r_push r_spawn with_lheap lheap]; auto using frames_ld_nil.
    + eapply ld_ok_upd; eauto.
    + eapply lh_ext_upd; eauto.
    + intros fs H; discriminate.
    + intros l ldl Hl. destruct (Nat.eq_dec (c_loader c) l) as [<-|Hne].
      * right. exists a, c. cbn [hd_error]. auto.
      * left. rewrite nth_error_upd_other by exact Hne. exact Hl.
  - (* PObserve *)
    eapply res_ld_plain; [exact Hs|apply lh_ext_refl|reflexivity|reflexivity|apply frames_ld_nil|auto].
  - (* PPanic *) apply res_ld_raise; auto using lh_ext_refl.
  - (* PGoexit *) apply res_ld_raise; auto using lh_ext_refl.
Qed.

(* ---- one step, all schedules ------------------------------------------------------------------------ *)

Lemma step_g_ld g s st :
  ld_ok s -> frames_ld (length (lheap s)) (g_stack st) ->
  let '(s1, st1, sp) := step_g g s st in
  ld_ok s1 /\ lh_ext (lheap s) (lheap s1) /\ frames_ld (length (lheap s1)) (g_stack st1) /\
  (forall ch, sp = Some ch -> frames_ld (length (lheap s1)) (g_stack ch)) /\
  (forall l ld, nth_error (lheap s) l = Some ld ->
     nth_error (lheap s1) l = Some ld \/
     exists env p ps K a c, g_stack st = KSeq env (p :: ps) :: K /\ hd_error env = Some a /\
                            nth_error (cheap s) a = Some c /\ c_loader c = l).
Proof.
  intros Hs Hf. unfold step_g.
  destruct (g_stack st) as [|f K] eqn:EK.
  - cbv beta iota zeta. rewrite EK. splits; auto using lh_ext_refl. intros ch H; discriminate.
  - destruct f as [env ps|xs| |cfo|cl].
    + destruct ps as [|p ps].
      * destruct (resume (g_panic st) K) as [pn K'] eqn:ER. cbn [g_stack].
        splits; auto using lh_ext_refl; [|intros ch H; discriminate].
        eapply frames_ld_incl; [|exact Hf]. intros f Hin. right. eapply resume_incl; eauto.
      * pose proof (exec_stmt_ld g env p s Hs) as R. set (r := exec_stmt g env p s) in *.
        destruct R as [Rok Rext Rpush Rspawn Rents].
        destruct (resume (r_panic r) (r_push r ++ KSeq env ps :: exit_stack p K)) as [pn K'] eqn:ER. cbn [g_stack].
        splits; auto.
        -- eapply frames_ld_incl; [intros f Hin; eapply resume_exit_incl; eauto|].
           apply frames_ld_app; [exact Rpush|].
           eapply frames_ld_mono; [apply Rext|].
           intros xs a l [H|H] Hx; [discriminate|]. eapply Hf; [right; exact H|exact Hx].
        -- intros ch Hch. destruct (r_spawn r) as [fs|] eqn:Efs; [|discriminate]. inversion Hch; subst ch.
           cbn [g_stack]. apply Rspawn. reflexivity.
        -- intros l ld Hl. destruct (Rents l ld Hl) as [H|(a & c & H1 & H2 & H3)]; [left; exact H|].
           right. exists env, p, ps, K, a, c. auto.
    + destruct (run_dacts_ld g xs s Hs) as [A B].
      { intros a l Hin. eapply Hf; [left; reflexivity|exact Hin]. }
      destruct (run_dacts g xs s) as [s1 evs]. cbn [fst] in *.
      destruct (resume (g_panic st || negb match evs with [] => true | _ :: _ => false end) K) as [pn K'] eqn:ER.
      cbn [g_stack]. rewrite B. splits; auto using lh_ext_refl; [|intros ch H; discriminate].
      eapply frames_ld_incl; [|exact Hf]. intros f Hin. right. eapply resume_incl; eauto.
    + destruct (resume (g_panic st) K) as [pn K'] eqn:ER. cbn [g_stack].
      splits; auto using lh_ext_refl; [|intros ch H; discriminate].
      eapply frames_ld_incl; [|exact Hf]. intros f Hin. right. eapply resume_incl; eauto.
    + assert (Hres : forall b pn K', resume b K = (pn, K') -> frames_ld (length (lheap s)) K').
      { intros b pn K' ER. eapply frames_ld_incl; [|exact Hf]. intros f Hin. right. eapply resume_incl; eauto. }
      destruct cfo as [cf|].
      * destruct (tl_set g cf (tl_init g (tls s))).
        -- destruct (resume false K) as [pn K'] eqn:ER. cbn [g_stack with_tls lheap].
           splits; eauto using lh_ext_refl, ld_ok_tls. intros ch H; discriminate.
        -- destruct (resume true K) as [pn K'] eqn:ER. cbn [g_stack with_tls lheap].
           splits; eauto using lh_ext_refl, ld_ok_tls. intros ch H; discriminate.
      * destruct (resume false K) as [pn K'] eqn:ER. cbn [g_stack with_tls lheap].
        splits; eauto using lh_ext_refl, ld_ok_tls. intros ch H; discriminate.
    + cbn [g_stack]. assert (E : lheap (if cl then with_tls (tl_cleanup g (tls s)) s else s) = lheap s) by (destruct cl; reflexivity).
      rewrite E. splits; auto using lh_ext_refl.
      * destruct cl; auto using ld_ok_tls.
      * eapply frames_ld_incl; [|exact Hf]. intros f Hin. right. exact Hin.
      * intros ch H; discriminate.
Qed.

Record LInv (c : config) : Prop := {
  li_ok : ld_ok (sh c);
  li_frames : forall g st, nth_error (gs c) g = Some st -> frames_ld (length (lheap (sh c))) (g_stack st)
}.

Lemma ld_ok_heaps s s' : cheap s' = cheap s -> lheap s' = lheap s -> ld_ok s -> ld_ok s'.
Proof. intros A B [X Y Z]. split; rewrite ?A, ?B; auto. Qed.

Lemma step_linv g c : LInv c -> LInv (step g c) /\ lh_ext (lheap (sh c)) (lheap (sh (step g c))).
Proof.
  intros [Hok Hfr]. destruct (nth_error (gs c) g) as [st|] eqn:Eg; [|unfold step; rewrite Eg; split; [split; auto|apply lh_ext_refl]].
  pose proof (step_g_ld g (sh c) st Hok (Hfr g st Eg)) as S. pose proof (step_parts g c st Eg) as P.
  destruct (step_g g (sh c) st) as [[s1 st1] sp]. destruct S as (S1 & S2 & S3 & S4 & _). destruct P as (Pg & Pt & Pc & Pl).
  split; [|rewrite Pl; exact S2]. split.
  - eapply ld_ok_heaps; eauto.
  - intros i st' Ei. rewrite Pl. rewrite Pg in Ei.
    destruct (Nat.lt_ge_cases i (length (gs c))) as [Hi|Hi].
    + rewrite nth_error_app1 in Ei by (rewrite upd_length; exact Hi).
      destruct (Nat.eq_dec g i) as [->|Hne].
      * rewrite nth_error_upd_same in Ei by exact Hi. inversion Ei; subst. exact S3.
      * rewrite nth_error_upd_other in Ei by exact Hne. eapply frames_ld_mono; [apply S2|]. eapply Hfr; eauto.
    + rewrite nth_error_app2 in Ei by (rewrite upd_length; exact Hi). rewrite upd_length in Ei.
      destruct sp as [ch|]; [|destruct (i - length (gs c)); discriminate].
      destruct (i - length (gs c)) as [|k]; [|destruct k; discriminate]. cbn [nth_error] in Ei.
      inversion Ei; subst. apply S4. reflexivity.
Qed.

Lemma run_linv sched : forall c, LInv c -> LInv (run sched c) /\ lh_ext (lheap (sh c)) (lheap (sh (run sched c))).
Proof.
  induction sched as [|g sched IH]; intros c H; cbn [run fold_left]; [split; [exact H|apply lh_ext_refl]|].
  destruct (step_linv g c H) as [H1 E1]. destruct (IH _ H1) as [H2 E2]. split; [exact H2|eapply lh_ext_trans; eauto].
Qed.

Lemma init_linv roots : LInv (init_config roots).
Proof.
  split.
  - split; cbn [init_config sh lheap cheap length]; [lia| |].
    + intros i ld p Hi Hp. destruct i as [|[|i]]; cbn [nth_error] in Hi; try discriminate.
      inversion Hi; subst ld. discriminate.
    + intros a c Ha. destruct a; discriminate.
  - intros g st Eg. cbn [init_config gs] in Eg. rewrite nth_error_map in Eg.
    destruct (nth_error roots g) as [ps|]; [|discriminate]. cbn [option_map] in Eg. inversion Eg; subst st.
    cbn [root_gstate g_stack]. eapply frames_ld_incl; [apply settle_incl|].
    intros xs a l [H|[H|[]]]; discriminate.
Qed.

Theorem reachable_linv roots sched : LInv (run sched (init_config roots)).
Proof. apply run_linv. apply init_linv. Qed.

(* ---- loading through a chain of loaders ---------------------------------------------------------------- *)

(* loader l sees loader x: x is l or one of its ancestors *)
Inductive sees (lh : list ldr) : laddr -> laddr -> Prop :=
| sees_self l : sees lh l l
| sees_up l ld p x : nth_error lh l = Some ld -> l_parent ld = Some p -> sees lh p x -> sees lh l x.

Lemma sees_le lh l x : lh_wf lh -> sees lh l x -> x <= l.
Proof. intros W H. induction H as [l|l ld p x Hl Hp _ IH]; [lia|]. pose proof (W l ld p Hl Hp). lia. Qed.

Lemma sees_trans lh l m x : sees lh l m -> sees lh m x -> sees lh l x.
Proof. intros H1 H2. induction H1 as [l|l ld p m Hl Hp _ IH]; [exact H2|]. eapply sees_up; eauto. Qed.

(* seeing is decided by the parents, which never change *)
Lemma sees_ext lh lh' l x : lh_wf lh -> lh_ext lh lh' -> l < length lh -> (sees lh' l x <-> sees lh l x).
Proof.
  intros W [E1 E2] Hl. split; intros H.
  - induction H as [l|l ld' p x Hl' Hp' _ IH]; [apply sees_self|].
    destruct (nth_error lh l) as [ld|] eqn:El; [|apply nth_error_None in El; lia].
    destruct (E2 l ld El) as (ld2 & H2 & P2). rewrite Hl' in H2. inversion H2; subst ld2.
    assert (Hp : l_parent ld = Some p) by congruence.
    eapply sees_up; eauto. apply IH. pose proof (W l ld p El Hp). lia.
  - induction H as [l|l ld p x Hl' Hp' _ IH]; [apply sees_self|].
    destruct (E2 l ld Hl') as (ld2 & H2 & P2). eapply sees_up; [exact H2|rewrite P2; exact Hp'|].
    apply IH. pose proof (W l ld p Hl' Hp'). lia.
Qed.

(* a lookup depends only on the loaders that are seen *)
Lemma load_entry_agree lh lh' n : forall f l,
  (forall x, sees lh l x -> nth_error lh' x = nth_error lh x) -> load_entry f lh' l n = load_entry f lh l n.
Proof.
  induction f as [|f IH]; intros l H; cbn [load_entry]; [reflexivity|].
  rewrite (H l (sees_self lh l)). destruct (nth_error lh l) as [ld|] eqn:El; [|reflexivity].
  destruct (l_parent ld) as [p|] eqn:Ep; [|reflexivity].
  rewrite (IH p); [reflexivity|]. intros x Hx. apply H. eapply sees_up; eauto.
Qed.

(* with parents older than their children, `S l` levels suffice for loader l *)
Lemma load_entry_fuel lh n : lh_wf lh -> forall l f, l < f -> load_entry f lh l n = load_entry (S l) lh l n.
Proof.
  intros W l. induction l as [l IH] using lt_wf_ind. intros f Hf.
  destruct f as [|f]; [lia|]. cbn [load_entry].
  destruct (nth_error lh l) as [ld|] eqn:El; [|reflexivity].
  destruct (l_parent ld) as [p|] eqn:Ep; [|reflexivity].
  pose proof (W l ld p El Ep) as Hp.
  rewrite (IH p Hp f) by lia. rewrite (IH p Hp l) by lia. reflexivity.
Qed.

Lemma load_fuel lh n l f : lh_wf lh -> l < length lh -> l < f -> load_entry f lh l n = load lh l n.
Proof.
  intros W Hl Hf. unfold load. rewrite (load_entry_fuel lh n W l f) by lia.
  rewrite (load_entry_fuel lh n W l (S (length lh))) by lia. reflexivity.
Qed.

(* loading through an existing loader is not affected by newer loaders ... *)
Lemma load_snoc lh x n l : lh_wf lh -> lh_wf (lh ++ [x]) -> l < length lh -> load (lh ++ [x]) l n = load lh l n.
Proof.
  intros W W' Hl. unfold load.
  rewrite (load_entry_fuel (lh ++ [x]) n W' l) by (rewrite app_length; cbn [length]; lia).
  rewrite (load_entry_fuel lh n W l (S (length lh))) by lia.
  apply load_entry_agree. intros y Hy. apply sees_le in Hy; [|exact W]. apply nth_error_app1. lia.
Qed.

(* ... and a new child loader without entries finds what its parent finds *)
Lemma load_new_child lh lbl p n :
  lh_wf lh -> p < length lh ->
  load (lh ++ [{| l_label := lbl; l_parent := Some p; l_ents := [] |}]) (length lh) n = load lh p n.
Proof.
  intros W Hp. set (x := {| l_label := lbl; l_parent := Some p; l_ents := [] |}).
  assert (W' : lh_wf (lh ++ [x])) by (apply lh_wf_snoc; [exact W|]; cbn; intros q Hq; inversion Hq; subst; exact Hp).
  rewrite <- (load_snoc lh x n p W W' Hp).
  unfold load at 1. cbn [load_entry]. rewrite nth_error_snoc_eq. cbn [x l_parent l_ents alist_get].
  rewrite (load_fuel (lh ++ [x]) n p (length (lh ++ [x])) W') by (rewrite ?app_length; cbn [length]; lia).
  destruct (load (lh ++ [x]) p n); reflexivity.
Qed.

(* what a forked context inherits: the variables, the stack, and everything its parent's loader finds *)
Lemma fork_ctx_inherits lbl c lh :
  lh_wf lh -> c_loader c < length lh ->
  c_vars (fst (fork_ctx lbl c lh)) = c_vars c /\ c_stack (fst (fork_ctx lbl c lh)) = c_stack c /\
  c_label (fst (fork_ctx lbl c lh)) = lbl /\
  forall n, load (snd (fork_ctx lbl c lh)) (c_loader (fst (fork_ctx lbl c lh))) n = load lh (c_loader c) n.
Proof.
  intros W Hc. unfold fork_ctx, new_loader. cbn [fst snd c_vars c_stack c_label c_loader]. splits; auto.
  intros n. apply load_new_child; auto.
Qed.

(* ---- the step that forks ------------------------------------------------------------------------------ *)

Definition child_state (fa : addr) (body : list prog) : gstate :=
  {| g_stack := [KStart (Some fa); KSeq [fa] body; KEnd true]; g_panic := false; g_trace := [] |}.

(* px.Fork(lexical context) and px.Go (= Fork(CurrentContext())): what the step makes *)
Lemma step_fork c g st env stmt lbl body ps K a ctx :
  nth_error (gs c) g = Some st -> g_stack st = KSeq env (stmt :: ps) :: K ->
  (stmt = PFork lbl body /\ hd_error env = Some a) \/ (stmt = PGo lbl body /\ tl_get g (tls (sh c)) = Some a) ->
  nth_error (cheap (sh c)) a = Some ctx ->
  nth_error (gs (step g c)) (length (gs c)) = Some (child_state (length (cheap (sh c))) body) /\
  cheap (sh (step g c)) = cheap (sh c) ++ [fst (fork_ctx lbl ctx (lheap (sh c)))] /\
  lheap (sh (step g c)) = snd (fork_ctx lbl ctx (lheap (sh c))).
Proof.
  intros Eg EK Hst Ea. pose proof (step_parts g c st Eg) as P. unfold step_g in P. rewrite EK in P.
  assert (Er : exec_stmt g env stmt (sh c) =
               spawn (snd (alloc_ctx (fst (fork_ctx lbl ctx (lheap (sh c)))) (with_lheap (snd (fork_ctx lbl ctx (lheap (sh c)))) (sh c))))
                     [KStart (Some (length (cheap (sh c)))); KSeq [length (cheap (sh c))] body; KEnd true]).
  { destruct Hst as [[-> Hhd]|[-> Hget]]; cbn [exec_stmt].
    - unfold with_lex. destruct env as [|a' rest]; [discriminate|]. inversion Hhd; subst a'. rewrite Ea.
      destruct (fork_ctx lbl ctx (lheap (sh c))) as [fc lh]. reflexivity.
    - rewrite Hget, Ea. destruct (fork_ctx lbl ctx (lheap (sh c))) as [fc lh]. reflexivity. }
  assert (Ex : exit_stack stmt K = K) by (destruct Hst as [[-> _]|[-> _]]; reflexivity).
  rewrite Er, Ex in P. cbn [spawn r_sh r_push r_spawn r_events r_panic app] in P.
  destruct (resume false (KSeq env ps :: K)) as [pn K'].
  destruct P as (Pg & Pt & Pc & Pl). splits.
  - rewrite Pg. rewrite nth_error_app2 by (rewrite upd_length; lia). rewrite upd_length, Nat.sub_diag. reflexivity.
  - rewrite Pc. reflexivity.
  - rewrite Pl. reflexivity.
Qed.

Lemma fork_inherits c g st env stmt lbl body ps K a ctx :
  LInv c ->
  nth_error (gs c) g = Some st -> g_stack st = KSeq env (stmt :: ps) :: K ->
  (stmt = PFork lbl body /\ hd_error env = Some a) \/ (stmt = PGo lbl body /\ tl_get g (tls (sh c)) = Some a) ->
  nth_error (cheap (sh c)) a = Some ctx ->
  let c' := step g c in let fa := length (cheap (sh c)) in
  (* a new goroutine whose context is the new context fa ... *)
  nth_error (gs c') (length (gs c)) = Some (child_state fa body) /\
  exists cf, nth_error (cheap (sh c')) fa = Some cf /\
  (* ... which starts with the parent's variables and stack frames and finds every definition the parent finds *)
  c_vars cf = c_vars ctx /\ c_stack cf = c_stack ctx /\
  (forall n, load (lheap (sh c')) (c_loader cf) n = load (lheap (sh c)) (c_loader ctx) n) /\
  (* through a loader of its own, that did not exist before; the parent's context is as it was *)
  c_loader cf = length (lheap (sh c)) /\ nth_error (cheap (sh c')) a = Some ctx.
Proof.
  intros [Hok _] Eg EK Hst Ea c' fa.
  destruct (step_fork c g st env stmt lbl body ps K a ctx Eg EK Hst Ea) as (S1 & S2 & S3).
  split; [exact S1|]. exists (fst (fork_ctx lbl ctx (lheap (sh c)))).
  pose proof (ldk_ctx _ Hok a ctx Ea) as Hc.
  destruct (fork_ctx_inherits lbl ctx (lheap (sh c)) (ldk_wf _ Hok) Hc) as (I1 & I2 & I3 & I4).
  subst c' fa. rewrite S2, S3. splits; auto.
  - apply nth_error_snoc_eq.
  - apply nth_error_snoc_old. exact Ea.
Qed.

(* ================================================================================================ *)
(* Part 9: the loader of a forked context stays invisible to everybody else                          *)

(* context a, if it exists, has a loader that does not see loader x *)
Definition ctx_blind (x : laddr) (s : shared) (a : addr) : Prop :=
  forall c, nth_error (cheap s) a = Some c -> ~ sees (lheap s) (c_loader c) x.
Definition blind_over (x : laddr) (P : addr -> Prop) (s : shared) : Prop := forall a, P a -> ctx_blind x s a.
(* the loaders saved by DoWithLoader do not see x *)
Definition frames_blind (x : laddr) (lh : list ldr) (K : list frame) : Prop :=
  forall xs a l, In (KDefer xs) K -> In (XLoader a l) xs -> ~ sees lh l x.

Lemma frames_blind_nil x lh : frames_blind x lh [].
Proof. intros xs a l []. Qed.

Lemma frames_blind_incl x lh K K' : (forall f, In f K' -> In f K) -> frames_blind x lh K -> frames_blind x lh K'.
Proof. intros Hi H xs a l H1 H2. eapply H; eauto. Qed.

Lemma frames_blind_app x lh X Y : frames_blind x lh X -> frames_blind x lh Y -> frames_blind x lh (X ++ Y).
Proof. intros HX HY xs a l H1 H2. apply in_app_or in H1. destruct H1; [eapply HX|eapply HY]; eauto. Qed.

Lemma frames_blind_ext x lh lh' K :
  lh_wf lh -> lh_ext lh lh' -> frames_ld (length lh) K -> frames_blind x lh K -> frames_blind x lh' K.
Proof.
  intros W E Hld H xs a l H1 H2 Hs. apply (H xs a l H1 H2). apply (sees_ext lh lh' l x W E); [eapply Hld; eauto|exact Hs].
Qed.

Lemma blind_tls x P t s : blind_over x P s -> blind_over x P (with_tls t s).
Proof. intros H a Pa c Ha. apply (H a Pa c Ha). Qed.

Lemma blind_lheap x P lh' s :
  ld_ok s -> lh_ext (lheap s) lh' -> blind_over x P s -> blind_over x P (with_lheap lh' s).
Proof.
  intros Hs E H a Pa c Ha. cbn [with_lheap cheap lheap] in *. intros Hsee.
  apply (H a Pa c Ha). apply (sees_ext (lheap s) lh' (c_loader c) x (ldk_wf _ Hs) E); [eapply ldk_ctx; eauto|exact Hsee].
Qed.

Lemma blind_put x P a c s :
  blind_over x P s -> ~ sees (lheap s) (c_loader c) x -> blind_over x P (put_ctx a c s).
Proof.
  intros H Hc b Pb cb Hb. cbn [put_ctx with_cheap cheap lheap] in *.
  destruct (Nat.eq_dec a b) as [->|Hne].
  - destruct (Nat.lt_ge_cases b (length (cheap s))) as [Hlt|Hge].
    + rewrite nth_error_upd_same in Hb by exact Hlt. inversion Hb; subst. exact Hc.
    + apply nth_error_lt in Hb. rewrite upd_length in Hb. lia.
  - rewrite nth_error_upd_other in Hb by exact Hne. apply (H b Pb cb Hb).
Qed.

Lemma blind_alloc x P c s :
  blind_over x P s -> ~ sees (lheap s) (c_loader c) x -> blind_over x P (snd (alloc_ctx c s)).
Proof.
  intros H Hc b Pb cb Hb. cbn [alloc_ctx snd with_cheap cheap lheap] in *.
  destruct (Nat.lt_ge_cases b (length (cheap s))) as [Hlt|Hge].
  - rewrite nth_error_app1 in Hb by exact Hlt. apply (H b Pb cb Hb).
  - rewrite nth_error_app2 in Hb by exact Hge. destruct (b - length (cheap s)) as [|k]; [|destruct k; discriminate].
    cbn [nth_error] in Hb. inversion Hb; subst. exact Hc.
Qed.

Lemma sees_base lh x : lh_wf lh -> 0 < x -> ~ sees lh 0 x.
Proof. intros W Hx H. apply sees_le in H; [lia|exact W]. Qed.

(* a new child loader of a loader that does not see x does not see x (x exists already) *)
Lemma sees_new_child lh lbl p x :
  lh_wf lh -> p < length lh -> x < length lh -> ~ sees lh p x ->
  ~ sees (lh ++ [{| l_label := lbl; l_parent := Some p; l_ents := [] |}]) (length lh) x.
Proof.
  intros W Hp Hx Hn H. set (nl := {| l_label := lbl; l_parent := Some p; l_ents := [] |}) in *.
  inversion H as [l E1 E2|l ld q y Hl Hq Hs E1 E2]; subst.
  - lia.
  - rewrite nth_error_snoc_eq in Hl. inversion Hl; subst ld. cbn [nl l_parent] in Hq. inversion Hq; subst q.
    apply Hn. apply (sees_ext lh (lh ++ [nl]) p x W (lh_ext_snoc lh nl) Hp). exact Hs.
Qed.

Lemma eval_lexp_blind lbl le c s x :
  ld_ok s -> c_loader c < length (lheap s) -> 0 < x < length (lheap s) -> ~ sees (lheap s) (c_loader c) x ->
  ~ sees (snd (eval_lexp lbl le c (lheap s))) (fst (eval_lexp lbl le c (lheap s))) x.
Proof.
  intros Hs Hc Hx Hn. destruct le; cbn [eval_lexp].
  - unfold new_loader. cbn [fst snd]. apply sees_new_child; auto; [apply (ldk_wf _ Hs)|lia].
  - destruct (nth_error (lheap s) (c_loader c)) as [ld|] eqn:E; cbn [fst snd]; [|exact Hn].
    destruct (l_parent ld) as [p|] eqn:Ep; cbn [fst snd]; [|exact Hn].
    intros H. apply Hn. eapply sees_up; eauto.
  - cbn [fst snd]. apply sees_base; [apply (ldk_wf _ Hs)|lia].
Qed.

Lemma fork_ctx_blind lbl c s x :
  ld_ok s -> c_loader c < length (lheap s) -> x < length (lheap s) -> ~ sees (lheap s) (c_loader c) x ->
  ~ sees (snd (fork_ctx lbl c (lheap s))) (c_loader (fst (fork_ctx lbl c (lheap s)))) x.
Proof.
  intros Hs Hc Hx Hn. unfold fork_ctx, new_loader. cbn [fst snd c_loader]. apply sees_new_child; auto. apply (ldk_wf _ Hs).
Qed.

Lemma run_dact_blind g d x P s :
  ld_ok s -> blind_over x P s -> (forall a l, d = XLoader a l -> ~ sees (lheap s) l x) ->
  blind_over x P (fst (run_dact g d s)).
Proof.
  intros Hs H Hd. destruct d as [saved| | |a l]; cbn [run_dact].
  - destruct (tl_set g saved (tls s)); cbn [fst]; auto using blind_tls.
  - cbn [fst]. auto using blind_tls.
  - cbn [fst]. auto using blind_tls.
  - destruct (nth_error (cheap s) a) as [c|]; cbn [fst]; auto.
    apply (blind_put x P a (set_loader l c) s H). cbn [set_loader c_loader]. eapply Hd; eauto.
Qed.

Lemma run_dacts_blind g x P : forall xs s,
  ld_ok s -> (forall a l, In (XLoader a l) xs -> l < length (lheap s)) ->
  blind_over x P s -> (forall a l, In (XLoader a l) xs -> ~ sees (lheap s) l x) ->
  blind_over x P (fst (run_dacts g xs s)).
Proof.
  induction xs as [|d xs IH]; intros s Hs Hld H Hd; cbn [run_dacts]; [exact H|].
  pose proof (run_dact_blind g d x P s Hs H) as B1.
  destruct (run_dact_ld g d s Hs) as [A B]; [intros a l ->; apply (Hld a l); left; reflexivity|].
  destruct (run_dact g d s) as [s1 p]. cbn [fst] in *.
  assert (B1' : blind_over x P s1) by (apply B1; intros a l ->; apply (Hd a l); left; reflexivity).
  pose proof (IH s1 A) as B2. destruct (run_dacts g xs s1) as [s2 evs]. cbn [fst] in *.
  apply B2; auto; intros a l Hin; rewrite B; [apply (Hld a l)|apply (Hd a l)]; right; exact Hin.
Qed.

(* the result of a statement of a goroutine none of whose contexts sees x *)
Record res_blind (x : laddr) (P : addr -> Prop) (r : sres) : Prop := {
  rb_sh : blind_over x P (r_sh r);
  rb_push : frames_blind x (lheap (r_sh r)) (r_push r);
  rb_spawn : forall fs, r_spawn r = Some fs -> frames_blind x (lheap (r_sh r)) fs
}.

Lemma res_blind_plain x P s r :
  blind_over x P s -> r_sh r = s -> r_spawn r = None -> frames_blind x (lheap s) (r_push r) -> res_blind x P r.
Proof. intros H Es Esp Hp. split; rewrite ?Es; auto. intros fs E; congruence. Qed.

Lemma res_blind_raise x P s c : blind_over x P s -> res_blind x P (raise s c).
Proof. intros H. eapply res_blind_plain; eauto. apply frames_blind_nil. Qed.

Lemma res_blind_done x P s : blind_over x P s -> res_blind x P (ok s).
Proof. intros H. eapply res_blind_plain; eauto. apply frames_blind_nil. Qed.

Lemma res_blind_with_lex x P env s f :
  blind_over x P s ->
  (forall a c rest, env = a :: rest -> nth_error (cheap s) a = Some c -> res_blind x P (f a c)) ->
  res_blind x P (with_lex env s f).
Proof.
  intros Hb H. unfold with_lex. destruct env as [|a rest]; [apply res_blind_raise; exact Hb|].
  destruct (nth_error (cheap s) a) as [c|] eqn:E; [eapply H; eauto|apply res_blind_raise; exact Hb].
Qed.

Lemma res_blind_dwc g x P a env body s :
  ld_ok s -> blind_over x P s -> res_blind x P (do_with_context g a env body s).
Proof.
  intros Hs Hb. unfold do_with_context.
  pose proof (dwc_enter_no_loader g a (tls s)) as Hl.
  destruct (dwc_enter g a (tls s)) as [[t d] fine]. cbn [fst snd] in Hl.
  destruct fine.
  - eapply res_blind_plain; [apply blind_tls; exact Hb|reflexivity|reflexivity|].
    cbn [enter r_push with_tls lheap]. intros xs xa xl [H|[H|[]]] Hin; [discriminate|].
    inversion H; subst xs. destruct Hin as [->|[]]. exfalso. eapply Hl; reflexivity.
  - pose proof (run_dact_blind g d x P (with_tls t s) (ld_ok_tls t s Hs) (blind_tls x P t s Hb)) as B.
    destruct (run_dact g d (with_tls t s)) as [s1 p]. cbn [fst] in B. apply res_blind_raise. apply B.
    intros xa xl ->. exfalso. eapply Hl; reflexivity.
Qed.

Lemma exec_stmt_blind g env p s x P :
  ld_ok s -> 0 < x < length (lheap s) -> blind_over x P s ->
  (forall a, hd_error env = Some a -> P a) -> (forall a, tl_get g (tls s) = Some a -> P a) ->
  res_blind x P (exec_stmt g env p s).
Proof.
  intros Hs Hx Hb Phd Ptl.
  assert (Hsb : ~ sees (lheap s) 0 x) by (apply sees_base; [apply (ldk_wf _ Hs)|lia]).
  destruct p as [lbl try body|lbl ce body|lbl le body|lbl body|lbl body|body|body|k v|k|l| |lbl le|n v|lbl| | ];
    cbn [exec_stmt].
  - (* PDo *)
    set (root := {| c_label := unknown_label; c_loader := 0; c_stack := []; c_vars := [] |}).
    assert (Hr : c_loader root < length (lheap s)) by (cbn; apply (ldk_base _ Hs)).
    pose proof (ld_ok_alloc root s Hs Hr) as Hs1.
    pose proof (blind_alloc x P root s Hb Hsb) as Hb1.
    destruct (alloc_ctx root s) as [ra s1] eqn:Ea1. cbn [snd] in Hs1, Hb1.
    assert (El1 : lheap s1 = lheap s) by (unfold alloc_ctx in Ea1; inversion Ea1; reflexivity).
    pose proof (dwc_enter_no_loader g ra (tls s1)) as Hl1.
    destruct (dwc_enter g ra (tls s1)) as [[t1 x1] fine1]. cbn [fst snd] in Hl1.
    destruct fine1; cbn [negb].
    + assert (Hr1 : c_loader root < length (lheap s1)) by (rewrite El1; exact Hr).
      destruct (fork_ctx_ld lbl root s1 Hs1 Hr1) as (F1 & F2 & F3).
      assert (Hfb : ~ sees (snd (fork_ctx lbl root (lheap s1))) (c_loader (fst (fork_ctx lbl root (lheap s1)))) x)
        by (apply fork_ctx_blind; rewrite ?El1; auto; lia).
      destruct (fork_ctx lbl root (lheap s1)) as [fc lh]. cbn [fst snd] in F1, F2, F3, Hfb.
      assert (Hext1 : lh_ext (lheap (with_tls t1 s1)) lh) by (cbn [with_tls lheap]; rewrite F3; apply lh_ext_snoc).
      pose proof (blind_lheap x P lh (with_tls t1 s1) (ld_ok_tls t1 s1 Hs1) Hext1 (blind_tls x P t1 s1 Hb1)) as Hb2a.
      assert (Hs2a : ld_ok (with_lheap lh (with_tls t1 s1))) by (destruct F1; split; auto).
      assert (Hfc : c_loader fc < length (lheap (with_lheap lh (with_tls t1 s1)))).
      { cbn [with_lheap lheap]. rewrite F2, F3, app_length. cbn [length]. lia. }
      pose proof (ld_ok_alloc fc _ Hs2a Hfc) as Hs2.
      pose proof (blind_alloc x P fc _ Hb2a Hfb) as Hb2.
      destruct (alloc_ctx fc (with_lheap lh (with_tls t1 s1))) as [fa s2] eqn:Ea2. cbn [snd] in Hs2, Hb2.
      pose proof (dwc_enter_no_loader g fa (tls s2)) as Hl2.
      destruct (dwc_enter g fa (tls s2)) as [[t2 x2] fine2]. cbn [fst snd] in Hl2.
      destruct fine2; cbn [negb].
      * eapply res_blind_plain; [apply blind_tls; exact Hb2|reflexivity|reflexivity|].
        cbn [enter r_push]. intros xs xa xl Hin Hxx. apply in_app_or in Hin.
        destruct Hin as [[H|[H|[]]]|H]; [discriminate| |destruct try; [destruct H as [H|[]]; discriminate|destruct H]].
        inversion H; subst xs. destruct Hxx as [->|[->|[]]]; exfalso; [eapply Hl2|eapply Hl1]; reflexivity.
      * pose proof (run_dacts_blind g x P [x2; x1] (with_tls t2 s2) (ld_ok_tls t2 s2 Hs2)) as B.
        destruct (run_dacts g [x2; x1] (with_tls t2 s2)) as [s3 e3]. cbn [fst] in B. apply res_blind_raise. apply B.
        -- intros xa xl [->|[->|[]]]; exfalso; [eapply Hl2|eapply Hl1]; reflexivity.
        -- apply blind_tls; exact Hb2.
        -- intros xa xl [->|[->|[]]]; exfalso; [eapply Hl2|eapply Hl1]; reflexivity.
    + pose proof (run_dact_blind g x1 x P (with_tls t1 s1) (ld_ok_tls t1 s1 Hs1) (blind_tls x P t1 s1 Hb1)) as B.
      destruct (run_dact g x1 (with_tls t1 s1)) as [s3 e3]. cbn [fst] in B. apply res_blind_raise. apply B.
      intros xa xl ->. exfalso. eapply Hl1; reflexivity.
  - (* PDoCtx *)
    destruct ce as [| |k].
    + apply res_blind_with_lex; [exact Hb|]. intros a c rest -> Ea.
      pose proof (ldk_ctx _ Hs a c Ea) as Hc.
      assert (Hcb : ~ sees (lheap s) (c_loader c) x) by (apply (Hb a (Phd a eq_refl) c Ea)).
      destruct (fork_ctx_ld lbl c s Hs Hc) as (F1 & F2 & F3).
      pose proof (fork_ctx_blind lbl c s x Hs Hc (proj2 Hx) Hcb) as Hfb.
      destruct (fork_ctx lbl c (lheap s)) as [fc lh]. cbn [fst snd] in F1, F2, F3, Hfb.
      assert (Hext : lh_ext (lheap s) lh) by (rewrite F3; apply lh_ext_snoc).
      assert (Hfc : c_loader fc < length (lheap (with_lheap lh s))).
      { cbn [with_lheap lheap]. rewrite F2, F3, app_length. cbn [length]. lia. }
      pose proof (ld_ok_alloc fc _ F1 Hfc) as Hs2.
      pose proof (blind_alloc x P fc _ (blind_lheap x P lh s Hs Hext Hb) Hfb) as Hb2.
      destruct (alloc_ctx fc (with_lheap lh s)) as [fa s2]. cbn [snd] in Hs2, Hb2.
      apply res_blind_dwc; auto.
    + destruct (ld_ok_new_loader lbl 0 s Hs (ldk_base _ Hs)) as (A1 & A2 & A3).
      assert (Hnb : ~ sees (snd (new_loader lbl 0 (lheap s))) (fst (new_loader lbl 0 (lheap s))) x).
      { unfold new_loader. cbn [fst snd]. apply sees_new_child; auto; [apply (ldk_wf _ Hs)|apply (ldk_base _ Hs)|lia]. }
      assert (Hext : lh_ext (lheap s) (snd (new_loader lbl 0 (lheap s)))) by (unfold new_loader; cbn [snd]; apply lh_ext_snoc).
      destruct (new_loader lbl 0 (lheap s)) as [l lh]. cbn [fst snd] in A1, A2, A3, Hnb, Hext.
      set (nc := {| c_label := lbl; c_loader := l; c_stack := []; c_vars := [] |}).
      assert (Hnc : c_loader nc < length (lheap (with_lheap lh s))) by (cbn [with_lheap lheap nc c_loader]; lia).
      pose proof (ld_ok_alloc nc _ A1 Hnc) as Hs2.
      pose proof (blind_alloc x P nc _ (blind_lheap x P lh s Hs Hext Hb) Hnb) as Hb2.
      destruct (alloc_ctx nc (with_lheap lh s)) as [fa s2]. cbn [snd] in Hs2, Hb2.
      apply res_blind_dwc; auto.
    + destruct (nth_error env k); [apply res_blind_dwc|apply res_blind_raise]; auto.
  - (* PDoLoader *)
    apply res_blind_with_lex; [exact Hb|]. intros a c rest -> Ea.
    pose proof (ldk_ctx _ Hs a c Ea) as Hc.
    assert (Hcb : ~ sees (lheap s) (c_loader c) x) by (apply (Hb a (Phd a eq_refl) c Ea)).
    destruct (eval_lexp_ok lbl le c s Hs Hc) as (E1 & E2 & E3).
    pose proof (eval_lexp_blind lbl le c s x Hs Hc Hx Hcb) as E5.
    destruct (eval_lexp lbl le c (lheap s)) as [l lh]. cbn [fst snd] in *.
    eapply res_blind_plain; [|reflexivity|reflexivity|]; cbn [enter r_sh r_push].
    + apply blind_put; [apply blind_lheap; auto|]. cbn [set_loader c_loader with_lheap lheap]. exact E5.
    + cbn [put_ctx with_cheap with_lheap lheap]. intros xs xa xl [H|[H|[]]] Hin; [discriminate|].
      inversion H; subst xs. destruct Hin as [Hin|[]]. inversion Hin; subst.
      intros Hsee. apply Hcb. apply (sees_ext (lheap s) lh (c_loader c) x (ldk_wf _ Hs) E3 Hc). exact Hsee.
  - (* PFork *)
    apply res_blind_with_lex; [exact Hb|]. intros a c rest -> Ea.
    pose proof (ldk_ctx _ Hs a c Ea) as Hc.
    assert (Hcb : ~ sees (lheap s) (c_loader c) x) by (apply (Hb a (Phd a eq_refl) c Ea)).
    destruct (fork_ctx_ld lbl c s Hs Hc) as (F1 & F2 & F3).
    pose proof (fork_ctx_blind lbl c s x Hs Hc (proj2 Hx) Hcb) as Hfb.
    destruct (fork_ctx lbl c (lheap s)) as [fc lh]. cbn [fst snd] in F1, F2, F3, Hfb.
    assert (Hext : lh_ext (lheap s) lh) by (rewrite F3; apply lh_ext_snoc).
    pose proof (blind_alloc x P fc _ (blind_lheap x P lh s Hs Hext Hb) Hfb) as Hb2.
    destruct (alloc_ctx fc (with_lheap lh s)) as [fa s2]. cbn [snd] in Hb2.
    split; cbn [spawn r_sh r_push r_spawn]; auto using frames_blind_nil.
    intros fs H. inversion H; subst fs. intros xs xa xl [H1|[H1|[H1|[]]]]; discriminate.
  - (* PGo *)
    destruct (tl_get g (tls s)) as [a|] eqn:Eg; [|apply res_blind_raise; auto].
    destruct (nth_error (cheap s) a) as [c|] eqn:Ea; [|apply res_blind_raise; auto].
    pose proof (ldk_ctx _ Hs a c Ea) as Hc.
    assert (Hcb : ~ sees (lheap s) (c_loader c) x) by (apply (Hb a (Ptl a eq_refl) c Ea)).
    destruct (fork_ctx_ld lbl c s Hs Hc) as (F1 & F2 & F3).
    pose proof (fork_ctx_blind lbl c s x Hs Hc (proj2 Hx) Hcb) as Hfb.
    destruct (fork_ctx lbl c (lheap s)) as [fc lh]. cbn [fst snd] in F1, F2, F3, Hfb.
    assert (Hext : lh_ext (lheap s) lh) by (rewrite F3; apply lh_ext_snoc).
    pose proof (blind_alloc x P fc _ (blind_lheap x P lh s Hs Hext Hb) Hfb) as Hb2.
    destruct (alloc_ctx fc (with_lheap lh s)) as [fa s2]. cbn [snd] in Hb2.
    split; cbn [spawn r_sh r_push r_spawn]; auto using frames_blind_nil.
    intros fs H. inversion H; subst fs. intros xs xa xl [H1|[H1|[H1|[]]]]; discriminate.
  - (* PTlGo *)
    split; cbn [spawn r_sh r_push r_spawn]; auto using frames_blind_nil.
    intros fs H. inversion H; subst fs. intros xs xa xl [H1|[H1|[H1|[]]]]; discriminate.
  - (* PTry *)
    eapply res_blind_plain; [exact Hb|reflexivity|reflexivity|].
    cbn [enter r_push]. intros xs xa xl [H|[H|[]]]; discriminate.
  - (* PSet *)
    apply res_blind_with_lex; [exact Hb|]. intros a c rest -> Ea. apply res_blind_done. apply blind_put; auto.
    cbn [set_vars c_loader]. apply (Hb a (Phd a eq_refl) c Ea).
  - (* PDel *)
    apply res_blind_with_lex; [exact Hb|]. intros a c rest -> Ea. apply res_blind_done. apply blind_put; auto.
    cbn [set_vars c_loader]. apply (Hb a (Phd a eq_refl) c Ea).
  - (* PPush *)
    apply res_blind_with_lex; [exact Hb|]. intros a c rest -> Ea. apply res_blind_done. apply blind_put; auto.
    cbn [set_stack c_loader]. apply (Hb a (Phd a eq_refl) c Ea).
  - (* PPop *)
    apply res_blind_with_lex; [exact Hb|]. intros a c rest -> Ea.
    destruct (c_stack c); [apply res_blind_raise; auto|]. apply res_blind_done. apply blind_put; auto.
    cbn [set_stack c_loader]. apply (Hb a (Phd a eq_refl) c Ea).
  - (* PSetLoader *)
    apply res_blind_with_lex; [exact Hb|]. intros a c rest -> Ea.
    pose proof (ldk_ctx _ Hs a c Ea) as Hc.
    assert (Hcb : ~ sees (lheap s) (c_loader c) x) by (apply (Hb a (Phd a eq_refl) c Ea)).
    destruct (eval_lexp_ok lbl le c s Hs Hc) as (E1 & E2 & E3).
    pose proof (eval_lexp_blind lbl le c s x Hs Hc Hx Hcb) as E5.
    destruct (eval_lexp lbl le c (lheap s)) as [l lh]. cbn [fst snd] in *.
    apply res_blind_done. apply blind_put; [apply blind_lheap; auto|]. cbn [set_loader c_loader with_lheap lheap]. exact E5.
  - (* PDefine *)
    apply res_blind_with_lex; [exact Hb|]. intros a c rest -> Ea.
    destruct (nth_error (lheap s) (c_loader c)) as [ld|] eqn:El; [|apply res_blind_raise; auto].
    destruct (set_entry n v ld) as [ld'|] eqn:Es; [|apply res_blind_raise; auto].
    apply res_blind_done. apply blind_lheap; auto. eapply lh_ext_upd; eauto. eapply set_entry_parent; eauto.
  - (* PObserve *)
    eapply res_blind_plain; [exact Hb|reflexivity|reflexivity|apply frames_blind_nil].
  - (* PPanic *) apply res_blind_raise; auto.
  - (* PGoexit *) apply res_blind_raise; auto.
Qed.

Lemma step_g_blind g s st x P :
  ld_ok s -> frames_ld (length (lheap s)) (g_stack st) -> 0 < x < length (lheap s) ->
  blind_over x P s -> (forall a, In a (owned_by (tl_find g (tls s)) (g_stack st)) -> P a) ->
  frames_blind x (lheap s) (g_stack st) ->
  let '(s1, st1, sp) := step_g g s st in
  blind_over x P s1 /\ frames_blind x (lheap s1) (g_stack st1) /\
  (forall ch, sp = Some ch -> frames_blind x (lheap s1) (g_stack ch)).
Proof.
  intros Hs Hld Hx Hb HP Hfb. unfold step_g.
  destruct (g_stack st) as [|f K] eqn:EK.
  - cbv beta iota zeta. rewrite EK. splits; auto. intros ch H; discriminate.
  - destruct f as [env ps|xs| |cfo|cl].
    + destruct ps as [|p ps].
      * destruct (resume (g_panic st) K) as [pn K'] eqn:ER. cbn [g_stack]. splits; auto; [|intros ch H; discriminate].
        eapply frames_blind_incl; [|exact Hfb]. intros f Hin. right. eapply resume_incl; eauto.
      * assert (Phd : forall a, hd_error env = Some a -> P a).
        { intros a Ha. apply HP. unfold owned_by. apply in_or_app. right.
          change (stack_addrs (KSeq env (p :: ps) :: K)) with (env ++ stack_addrs K). apply in_or_app. left.
          destruct env as [|e env']; [discriminate|]. inversion Ha. left. reflexivity. }
        assert (Ptl : forall a, tl_get g (tls s) = Some a -> P a).
        { intros a Ha. apply HP. unfold owned_by. apply in_or_app. left. apply tbl_addrs_ctx. rewrite <- tl_get_find. exact Ha. }
        pose proof (exec_stmt_blind g env p s x P Hs Hx Hb Phd Ptl) as R.
        pose proof (exec_stmt_ld g env p s Hs) as L.
        set (r := exec_stmt g env p s) in *. destruct R as [R1 R2 R3]. destruct L as [L1 L2 L3 L4 L5].
        destruct (resume (r_panic r) (r_push r ++ KSeq env ps :: exit_stack p K)) as [pn K'] eqn:ER. cbn [g_stack].
        splits; auto.
        -- eapply frames_blind_incl; [intros f Hin; eapply resume_exit_incl; eauto|].
           apply frames_blind_app; [exact R2|].
           apply (frames_blind_ext x (lheap s) (lheap (r_sh r)) _ (ldk_wf _ Hs) L2).
           ++ intros xs a l [H|H] Hxx; [discriminate|]. eapply Hld; [right; exact H|exact Hxx].
           ++ intros xs a l [H|H] Hxx; [discriminate|]. eapply Hfb; [right; exact H|exact Hxx].
        -- intros ch Hch. destruct (r_spawn r) as [fs|] eqn:Efs; [|discriminate]. inversion Hch; subst ch.
           cbn [g_stack]. apply R3. reflexivity.
    + pose proof (run_dacts_blind g x P xs s Hs) as B.
      destruct (run_dacts_ld g xs s Hs) as [A E].
      { intros a l Hin. eapply Hld; [left; reflexivity|exact Hin]. }
      destruct (run_dacts g xs s) as [s1 evs]. cbn [fst] in *.
      destruct (resume (g_panic st || negb match evs with [] => true | _ :: _ => false end) K) as [pn K'] eqn:ER.
      cbn [g_stack]. rewrite E. splits; [| |intros ch H; discriminate].
      * apply B; auto.
        -- intros a l Hin. eapply Hld; [left; reflexivity|exact Hin].
        -- intros a l Hin. eapply Hfb; [left; reflexivity|exact Hin].
      * eapply frames_blind_incl; [|exact Hfb]. intros f Hin. right. eapply resume_incl; eauto.
    + destruct (resume (g_panic st) K) as [pn K'] eqn:ER. cbn [g_stack]. splits; auto; [|intros ch H; discriminate].
      eapply frames_blind_incl; [|exact Hfb]. intros f Hin. right. eapply resume_incl; eauto.
    + assert (Hres : forall b pn K', resume b K = (pn, K') -> frames_blind x (lheap s) K').
      { intros b pn K' ER. eapply frames_blind_incl; [|exact Hfb]. intros f Hin. right. eapply resume_incl; eauto. }
      destruct cfo as [cf|].
      * destruct (tl_set g cf (tl_init g (tls s))).
        -- destruct (resume false K) as [pn K'] eqn:ER. cbn [g_stack with_tls lheap].
           splits; eauto using blind_tls. intros ch H; discriminate.
        -- destruct (resume true K) as [pn K'] eqn:ER. cbn [g_stack with_tls lheap].
           splits; eauto using blind_tls. intros ch H; discriminate.
      * destruct (resume false K) as [pn K'] eqn:ER. cbn [g_stack with_tls lheap].
        splits; eauto using blind_tls. intros ch H; discriminate.
    + cbn [g_stack]. assert (E : lheap (if cl then with_tls (tl_cleanup g (tls s)) s else s) = lheap s) by (destruct cl; reflexivity).
      rewrite E. splits.
      * destruct cl; auto using blind_tls.
      * eapply frames_blind_incl; [|exact Hfb]. intros f Hin. right. exact Hin.
      * intros ch H; discriminate.
Qed.

(* no context of goroutine h sees loader x, and no loader it will restore does *)
Definition Blind (x : laddr) (c : config) (h : gid) : Prop :=
  exists st, nth_error (gs c) h = Some st /\
    (forall a, In a (owned c h st) -> ctx_blind x (sh c) a) /\ frames_blind x (lheap (sh c)) (g_stack st).

Lemma ctx_blind_heaps x s s' a : cheap s' = cheap s -> lheap s' = lheap s -> ctx_blind x s a -> ctx_blind x s' a.
Proof. intros A B H c Hc. rewrite A in Hc. rewrite B. apply (H c Hc). Qed.

(* blindness is kept by every step of every goroutine, and inherited by the goroutines a blind goroutine forks *)
Lemma step_blind x c h i :
  Inv c -> Own c -> LInv c -> 0 < x < length (lheap (sh c)) -> Blind x c h ->
  Blind x (step i c) h /\
  (i = h -> forall ch, nth_error (gs (step i c)) (length (gs c)) = Some ch -> Blind x (step i c) (length (gs c))).
Proof.
  intros HI HO HL Hx (st & Eh & Bc & Bf).
  destruct (Nat.eq_dec i h) as [->|Hne].
  - (* h itself moves *)
    pose proof HI as [Hlen Hg]. pose proof HL as [Lok Lfr].
    assert (Hlt : h < length (tls (sh c))) by (rewrite Hlen; eapply nth_error_lt; eauto).
    assert (Hlth : h < length (gs c)) by (eapply nth_error_lt; eauto).
    set (P := fun a => In a (owned c h st) \/ length (cheap (sh c)) <= a).
    assert (HbP : blind_over x P (sh c)).
    { intros a [Ha|Ha]; [apply Bc; exact Ha|]. intros cc Hc. apply nth_error_lt in Hc. lia. }
    pose proof (step_g_blind h (sh c) st x P Lok (Lfr h st Eh) Hx HbP (fun a Ha => or_introl Ha) Bf) as SB.
    pose proof (step_g_own h (sh c) st Hlt) as W. pose proof (step_parts h c st Eh) as Pp.
    pose proof (step_g_ok h (sh c) st Hlt (proj1 (Hg h st Eh)) (proj2 (Hg h st Eh))) as S.
    destruct (step_g h (sh c) st) as [[s1 st1] sp].
    destruct SB as (SB1 & SB2 & SB3). destruct W as (W1 & W2 & _ & _). destruct Pp as (Pg & Pt & Pc & Pl).
    destruct S as (Ssh & _).
    assert (Eh1 : nth_error (gs (step h c)) h = Some st1).
    { rewrite Pg. rewrite nth_error_app1 by (rewrite upd_length; exact Hlth). apply nth_error_upd_same; exact Hlth. }
    assert (Et1 : tl_find h (tls (sh (step h c))) = tl_find h (tls s1)).
    { rewrite Pt. destruct sp; [apply tl_find_snoc|rewrite app_nil_r; reflexivity]. }
    split.
    + exists st1. splits; auto.
      * intros a Ha. apply (ctx_blind_heaps x s1 _ a Pc Pl). apply SB1. unfold owned in Ha. rewrite Et1 in Ha.
        destruct (W1 a Ha) as [H|[H _]]; [left; exact H|right; lia].
      * rewrite Pl. exact SB2.
    + intros _ ch Ech. rewrite Pg in Ech. rewrite nth_error_app2 in Ech by (rewrite upd_length; lia).
      rewrite upd_length, Nat.sub_diag in Ech. destruct sp as [ch'|]; [|discriminate]. cbn [nth_error] in Ech.
      inversion Ech; subst ch'. exists ch. splits.
      * rewrite Pg. rewrite nth_error_app2 by (rewrite upd_length; lia). rewrite upd_length, Nat.sub_diag. reflexivity.
      * intros a Ha. apply (ctx_blind_heaps x s1 _ a Pc Pl). apply SB1. right.
        unfold owned in Ha. rewrite Pt, tl_find_snoc in Ha.
        assert (Hnone : tl_find (length (gs c)) (tls s1) = None).
        { apply tl_find_overflow. rewrite (ss_len _ _ _ Ssh), Hlen. lia. }
        rewrite Hnone in Ha. unfold owned_by in Ha. cbn [tbl_addrs app] in Ha.
        apply (W2 ch eq_refl a Ha).
      * rewrite Pl. apply SB3. reflexivity.
  - (* another goroutine moves *)
    split; [|intros E; congruence].
    destruct (step_other h i c st HI Hne Eh) as [Eh1 Et1].
    destruct (step_linv i c HL) as [HL1 Hext]. pose proof HL as [Lok Lfr].
    exists st. splits; auto.
    + intros a Ha cc Hc Hsee. unfold owned in Ha. rewrite Et1 in Ha.
      rewrite (step_ctx_isolated c h i st a HI HO Hne Eh Ha) in Hc.
      apply (Bc a Ha cc Hc). apply (sees_ext _ _ (c_loader cc) x (ldk_wf _ Lok) Hext); [eapply ldk_ctx; eauto|exact Hsee].
    + apply (frames_blind_ext x _ _ _ (ldk_wf _ Lok) Hext (Lfr h st Eh) Bf).
Qed.

Lemma run_blind x h : forall sched c,
  Inv c -> Own c -> LInv c -> 0 < x < length (lheap (sh c)) -> Blind x c h -> Blind x (run sched c) h.
Proof.
  induction sched as [|i sched IH]; intros c HI HO HL Hx HB; cbn [run fold_left]; [exact HB|].
  apply IH.
  - apply step_inv; exact HI.
  - apply step_own; auto.
  - apply step_linv; exact HL.
  - destruct (step_linv i c HL) as [_ [E _]]. lia.
  - apply (step_blind x c h i HI HO HL Hx HB).
Qed.

(* the rest of the fork step: the parent goes on below the statement, everybody else stands still *)
Lemma step_fork_rest c g st env stmt lbl body ps K a ctx :
  nth_error (gs c) g = Some st -> g_stack st = KSeq env (stmt :: ps) :: K ->
  (stmt = PFork lbl body /\ hd_error env = Some a) \/ (stmt = PGo lbl body /\ tl_get g (tls (sh c)) = Some a) ->
  nth_error (cheap (sh c)) a = Some ctx ->
  tls (sh (step g c)) = tls (sh c) ++ [None] /\
  (exists st1, nth_error (gs (step g c)) g = Some st1 /\ forall f, In f (g_stack st1) -> In f (KSeq env ps :: K)) /\
  (forall i st', i <> g -> i <> length (gs c) -> nth_error (gs (step g c)) i = Some st' -> nth_error (gs c) i = Some st').
Proof.
  intros Eg EK Hst Ea. pose proof (step_parts g c st Eg) as P. unfold step_g in P. rewrite EK in P.
  assert (Hlt : g < length (gs c)) by (eapply nth_error_lt; eauto).
  assert (Er : exec_stmt g env stmt (sh c) =
               spawn (snd (alloc_ctx (fst (fork_ctx lbl ctx (lheap (sh c)))) (with_lheap (snd (fork_ctx lbl ctx (lheap (sh c)))) (sh c))))
                     [KStart (Some (length (cheap (sh c)))); KSeq [length (cheap (sh c))] body; KEnd true]).
  { destruct Hst as [[-> Hhd]|[-> Hget]]; cbn [exec_stmt].
    - unfold with_lex. destruct env as [|a' rest]; [discriminate|]. inversion Hhd; subst a'. rewrite Ea.
      destruct (fork_ctx lbl ctx (lheap (sh c))) as [fc lh]. reflexivity.
    - rewrite Hget, Ea. destruct (fork_ctx lbl ctx (lheap (sh c))) as [fc lh]. reflexivity. }
  assert (Ex : exit_stack stmt K = K) by (destruct Hst as [[-> _]|[-> _]]; reflexivity).
  rewrite Er, Ex in P. cbn [spawn r_sh r_push r_spawn r_events r_panic app] in P.
  destruct (resume false (KSeq env ps :: K)) as [pn K'] eqn:ER.
  destruct P as (Pg & Pt & Pc & Pl). splits.
  - rewrite Pt. reflexivity.
  - eexists. split.
    + rewrite Pg. rewrite nth_error_app1 by (rewrite upd_length; exact Hlt). apply nth_error_upd_same; exact Hlt.
    + cbn [g_stack]. intros f Hf. eapply resume_incl; eauto.
  - intros i st' Hi Hk Ei. rewrite Pg in Ei.
    destruct (Nat.lt_ge_cases i (length (gs c))) as [Hl|Hge].
    + rewrite nth_error_app1 in Ei by (rewrite upd_length; exact Hl). rewrite nth_error_upd_other in Ei by auto. exact Ei.
    + rewrite nth_error_app2 in Ei by (rewrite upd_length; exact Hge). rewrite upd_length in Ei.
      destruct (i - length (gs c)) as [|k] eqn:E; [lia|]. destruct k; discriminate.
Qed.

Lemma incl_stack_addrs K K' a : (forall f, In f K' -> In f K) -> In a (stack_addrs K') -> In a (stack_addrs K).
Proof.
  intros Hi Ha. unfold stack_addrs in *. apply in_flat_map in Ha. destruct Ha as (f & Hf & Hfa).
  apply in_flat_map. exists f. auto.
Qed.

(* right after the fork, the new loader is seen by the child only *)
Lemma fork_blind c g st env stmt lbl body ps K a ctx :
  Inv c -> Own c -> LInv c ->
  nth_error (gs c) g = Some st -> g_stack st = KSeq env (stmt :: ps) :: K ->
  (stmt = PFork lbl body /\ hd_error env = Some a) \/ (stmt = PGo lbl body /\ tl_get g (tls (sh c)) = Some a) ->
  nth_error (cheap (sh c)) a = Some ctx ->
  forall i st', i <> length (gs c) -> nth_error (gs (step g c)) i = Some st' -> Blind (length (lheap (sh c))) (step g c) i.
Proof.
  intros HI HO HL Eg EK Hst Ea i st' Hik Ei.
  destruct (step_fork c g st env stmt lbl body ps K a ctx Eg EK Hst Ea) as (_ & Fc & Fl).
  destruct (step_fork_rest c g st env stmt lbl body ps K a ctx Eg EK Hst Ea) as (Ft & (st1 & Eg1 & Hst1) & Foth).
  destruct (step_linv g c HL) as [HL1 _]. pose proof HL as [Lok Lfr]. pose proof HL1 as [Lok1 _]. pose proof HO as [Olt _].
  (* whatever goroutine i owns was owned before, by the same goroutine; so were its frames *)
  assert (Hold : exists sto, nth_error (gs c) i = Some sto /\
            (forall b, In b (owned (step g c) i st') -> In b (owned c i sto)) /\
            (forall xs, In (KDefer xs) (g_stack st') -> In (KDefer xs) (g_stack sto))).
  { destruct (Nat.eq_dec i g) as [->|Hne].
    - rewrite Eg1 in Ei. inversion Ei; subst st'. exists st. splits; auto.
      + intros b Hb. unfold owned, owned_by in *. rewrite Ft, tl_find_snoc in Hb. apply in_app_or in Hb. apply in_or_app.
        destruct Hb as [Hb|Hb]; [left; exact Hb|right]. rewrite EK.
        apply (incl_stack_addrs (KSeq env ps :: K) _ b Hst1) in Hb.
        change (stack_addrs (KSeq env ps :: K)) with (env ++ stack_addrs K) in Hb.
        change (stack_addrs (KSeq env (stmt :: ps) :: K)) with (env ++ stack_addrs K). exact Hb.
      + intros xs Hin. rewrite EK. apply Hst1 in Hin. destruct Hin as [H|H]; [discriminate|right; exact H].
    - pose proof (Foth i st' Hne Hik Ei) as Eio. exists st'. splits; auto.
      intros b Hb. unfold owned in *. rewrite Ft, tl_find_snoc in Hb. exact Hb. }
  destruct Hold as (sto & Eio & Hown & Hfr).
  exists st'. splits; auto.
  - intros b Hb cc Hc Hsee. pose proof (Olt i sto b Eio (Hown b Hb)) as Hbn.
    rewrite Fc, nth_error_app1 in Hc by exact Hbn.
    pose proof (ldk_ctx _ Lok b cc Hc) as Hl. apply sees_le in Hsee; [lia|apply (ldk_wf _ Lok1)].
  - intros xs xa xl Hin Hx Hsee. pose proof (Lfr i sto Eio xs xa xl (Hfr xs Hin) Hx) as Hl.
    apply sees_le in Hsee; [lia|apply (ldk_wf _ Lok1)].
Qed.

(* ---- definitions are visible along the loader chain only --------------------------------------------- *)

Lemma sees_dec lh : lh_wf lh -> forall l x, sees lh l x \/ ~ sees lh l x.
Proof.
  intros W l. induction l as [l IH] using lt_wf_ind. intros x.
  destruct (Nat.eq_dec l x) as [->|Hne]; [left; apply sees_self|].
  destruct (nth_error lh l) as [ld|] eqn:El.
  - destruct (l_parent ld) as [p|] eqn:Ep.
    + destruct (IH p (W l ld p El Ep) x) as [H|H].
      * left. eapply sees_up; eauto.
      * right. intros Hs. inversion Hs as [l' E1 E2|l' ld' q y Hl Hq Hsq E1 E2]; subst; [congruence|].
        rewrite El in Hl. inversion Hl; subst ld'. rewrite Ep in Hq. inversion Hq; subst q. auto.
    + right. intros Hs. inversion Hs as [l' E1 E2|l' ld' q y Hl Hq Hsq E1 E2]; subst; [congruence|].
      rewrite El in Hl. inversion Hl; subst ld'. congruence.
  - right. intros Hs. inversion Hs as [l' E1 E2|l' ld' q y Hl Hq Hsq E1 E2]; subst; congruence.
Qed.

(* a step of goroutine d changes what loader lb finds only if it is a statement of d whose lexical context has a
   loader that lb sees (then: possibly, by a Define) *)
Lemma step_load_frame c d lb :
  LInv c -> lb < length (lheap (sh c)) ->
  (forall n, load (lheap (sh (step d c))) lb n = load (lheap (sh c)) lb n) \/
  (exists st env p ps K a ctx, nth_error (gs c) d = Some st /\ g_stack st = KSeq env (p :: ps) :: K /\
     hd_error env = Some a /\ nth_error (cheap (sh c)) a = Some ctx /\ sees (lheap (sh c)) lb (c_loader ctx)).
Proof.
  intros HL Hlb. destruct (step_linv d c HL) as [HL1 Hext]. pose proof HL as [Lok Lfr]. pose proof HL1 as [Lok1 _].
  destruct (nth_error (gs c) d) as [st|] eqn:Ed; [|left; intros n; unfold step; rewrite Ed; reflexivity].
  pose proof (step_g_ld d (sh c) st Lok (Lfr d st Ed)) as S. pose proof (step_parts d c st Ed) as P.
  destruct (step_g d (sh c) st) as [[s1 st1] sp]. destruct S as (_ & _ & _ & _ & Sents). destruct P as (_ & _ & _ & Pl).
  (* either some seen loader is the loader of d's lexical context, or nothing that lb sees has changed *)
  assert (Hcase : (forall y, sees (lheap (sh c)) lb y -> nth_error (lheap s1) y = nth_error (lheap (sh c)) y) \/
                  (exists env p ps K a ctx, g_stack st = KSeq env (p :: ps) :: K /\ hd_error env = Some a /\
                     nth_error (cheap (sh c)) a = Some ctx /\ sees (lheap (sh c)) lb (c_loader ctx))).
  { destruct (g_stack st) as [|[env [|p ps]|xs| |cfo|cl] K] eqn:EK;
      try (left; intros y Hy; apply sees_le in Hy; [|apply (ldk_wf _ Lok)];
           destruct (nth_error (lheap (sh c)) y) as [ld|] eqn:Ey; [|apply nth_error_None in Ey; lia];
           destruct (Sents y ld Ey) as [H|(env' & p' & ps' & K' & a' & c' & Hk & _)]; [exact H|discriminate]).
    destruct (hd_error env) as [a|] eqn:Eh.
    - destruct (nth_error (cheap (sh c)) a) as [ctx|] eqn:Ea.
      + destruct (sees_dec _ (ldk_wf _ Lok) lb (c_loader ctx)) as [Hs|Hn].
        * right. exists env, p, ps, K, a, ctx. auto.
        * left. intros y Hy. pose proof Hy as Hy'. apply sees_le in Hy; [|apply (ldk_wf _ Lok)].
          destruct (nth_error (lheap (sh c)) y) as [ld|] eqn:Ey; [|apply nth_error_None in Ey; lia].
          destruct (Sents y ld Ey) as [H|(env' & p' & ps' & K' & a' & c' & Hk & Hh & Hc & Hl)]; [exact H|].
          inversion Hk; subst env' p' ps' K'. rewrite Eh in Hh. inversion Hh; subst a'. rewrite Ea in Hc. inversion Hc; subst c'.
          exfalso. apply Hn. rewrite Hl. exact Hy'.
      + left. intros y Hy. apply sees_le in Hy; [|apply (ldk_wf _ Lok)].
        destruct (nth_error (lheap (sh c)) y) as [ld|] eqn:Ey; [|apply nth_error_None in Ey; lia].
        destruct (Sents y ld Ey) as [H|(env' & p' & ps' & K' & a' & c' & Hk & Hh & Hc & Hl)]; [exact H|].
        inversion Hk; subst env' p' ps' K'. rewrite Eh in Hh. inversion Hh; subst a'. congruence.
    - left. intros y Hy. apply sees_le in Hy; [|apply (ldk_wf _ Lok)].
      destruct (nth_error (lheap (sh c)) y) as [ld|] eqn:Ey; [|apply nth_error_None in Ey; lia].
      destruct (Sents y ld Ey) as [H|(env' & p' & ps' & K' & a' & c' & Hk & Hh & Hc & Hl)]; [exact H|].
      inversion Hk; subst env' p' ps' K'. congruence. }
  destruct Hcase as [Hsame|(env & p & ps & K & a & ctx & H1 & H2 & H3 & H4)].
  - left. intros n. rewrite Pl. unfold load.
    assert (Hlb1 : lb < length (lheap s1)) by (rewrite <- Pl; destruct Hext; lia).
    assert (W1 : lh_wf (lheap s1)) by (rewrite <- Pl; apply (ldk_wf _ Lok1)).
    rewrite (load_entry_fuel (lheap s1) n W1 lb (S (length (lheap s1)))) by lia.
    rewrite (load_entry_fuel (lheap (sh c)) n (ldk_wf _ Lok) lb (S (length (lheap (sh c))))) by lia.
    apply load_entry_agree. exact Hsame.
  - right. exists st, env, p, ps, K, a, ctx. auto.
Qed.

(* so: a definition made through a context whose loader sees x is invisible to a goroutine that is blind for x *)
Lemma blind_load_frame x c d h st b cb :
  Inv c -> LInv c -> Blind x c h -> nth_error (gs c) h = Some st -> In b (owned c h st) ->
  nth_error (cheap (sh c)) b = Some cb ->
  (* d's statement, if any, acts on a context whose loader sees x *)
  (forall std env p ps K a ctx, nth_error (gs c) d = Some std -> g_stack std = KSeq env (p :: ps) :: K ->
     hd_error env = Some a -> nth_error (cheap (sh c)) a = Some ctx -> sees (lheap (sh c)) (c_loader ctx) x) ->
  forall n, load (lheap (sh (step d c))) (c_loader cb) n = load (lheap (sh c)) (c_loader cb) n.
Proof.
  intros HI HL (st0 & E0 & Bc & _) Eh Hb Ecb Hd. rewrite Eh in E0. inversion E0; subst st0.
  pose proof HL as [Lok _].
  destruct (step_load_frame c d (c_loader cb) HL (ldk_ctx _ Lok b cb Ecb)) as [H|(std & env & p & ps & K & a & ctx & H1 & H2 & H3 & H4 & H5)];
    [exact H|].
  exfalso. apply (Bc b Hb cb Ecb). eapply sees_trans; [exact H5|]. eapply Hd; eauto.
Qed.

(* ---- the two multi-step forms used by Properties/C14.v ------------------------------------------------ *)

Lemma fork_blind_run c g st env stmt lbl body ps K a ctx i st' sched :
  Inv c -> Own c -> LInv c ->
  nth_error (gs c) g = Some st -> g_stack st = KSeq env (stmt :: ps) :: K ->
  (stmt = PFork lbl body /\ hd_error env = Some a) \/ (stmt = PGo lbl body /\ tl_get g (tls (sh c)) = Some a) ->
  nth_error (cheap (sh c)) a = Some ctx ->
  i <> length (gs c) -> nth_error (gs (step g c)) i = Some st' ->
  Blind (length (lheap (sh c))) (run sched (step g c)) i.
Proof.
  intros HI HO HL Eg EK Hst Ea Hi Ei.
  destruct (step_fork c g st env stmt lbl body ps K a ctx Eg EK Hst Ea) as (_ & _ & Fl).
  apply run_blind.
  - apply step_inv; exact HI.
  - apply step_own; auto.
  - apply step_linv; exact HL.
  - rewrite Fl. unfold fork_ctx, new_loader. cbn [snd]. rewrite app_length. cbn [length].
    pose proof (ldk_base _ (li_ok _ HL)). lia.
  - eapply fork_blind; eauto.
Qed.

Lemma blind_inherited c x h :
  Inv c -> Own c -> LInv c -> 0 < x < length (lheap (sh c)) -> Blind x c h ->
  (forall sched, Blind x (run sched c) h) /\
  (forall ch sched, nth_error (gs (step h c)) (length (gs c)) = Some ch ->
                    Blind x (run sched (step h c)) (length (gs c))).
Proof.
  intros HI HO HL Hx HB. split.
  - intros sched. apply run_blind; auto.
  - intros ch sched Ech. destruct (step_blind x c h h HI HO HL Hx HB) as [_ Hch].
    apply run_blind.
    + apply step_inv; exact HI.
    + apply step_own; auto.
    + apply step_linv; exact HL.
    + destruct (step_linv h c HL) as [_ [E _]]. lia.
    + apply (Hch eq_refl ch Ech).
Qed.
