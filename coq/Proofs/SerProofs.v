(* SerProofs.v — the simulation between the serializer state (values map, refIndex) and the collector
   state (positions, stack) of Model/Ser.v, proved by induction over the value for every option and
   capability:  collect (serialize o c x) = Ok (image (env_of o c) x)  for every value whose identity
   tags name subtrees (wf_rich).  Property C10. *)
From Coq Require Import ZArith NArith Bool Lia List.
From PcoreV Require Import Model.Base Model.Ser.
Import ListNotations.
Local Open Scope nat_scope.
Local Arguments Nat.ltb : simpl never.
Local Arguments Nat.eqb : simpl never.
Local Arguments N.eqb : simpl never.
Local Arguments N.leb : simpl never.

(* ------------------------------------------------------------------------------------------------ *)
(* generic list facts *)

Lemma set_nth_mid {A} (p q : list A) (x y : A) :
  set_nth (length p) x ((p ++ [y]) ++ q) = p ++ x :: q.
Proof.
  induction p as [|a p IH]; cbn; [reflexivity|]. now rewrite IH.
Qed.

Lemma nth_error_mid_other {A} (p q : list A) (x y : A) i :
  i <> length p -> nth_error ((p ++ [x]) ++ q) i = nth_error (p ++ y :: q) i.
Proof.
  revert i; induction p as [|a p IH]; intros i Hi; cbn in *.
  - destruct i; [congruence|reflexivity].
  - destruct i; [reflexivity|]. cbn. apply IH. congruence.
Qed.

Lemma nth_error_mid_eq {A} (p q : list A) (x : A) : nth_error (p ++ x :: q) (length p) = Some x.
Proof. induction p; cbn; auto. Qed.

Lemma nth_error_app_some {A} (l l' : list A) i x : nth_error l i = Some x -> nth_error (l ++ l') i = Some x.
Proof.
  intros H. rewrite nth_error_app1; [assumption|]. apply nth_error_Some. congruence.
Qed.

Lemma pair_up_flat {A B} (f g : B -> A) (l : list B) :
  pair_up (flat_map (fun b => [f b; g b]) l) = Some (map (fun b => (f b, g b)) l).
Proof. induction l as [|b l IH]; cbn; [reflexivity|]. cbn in IH. now rewrite IH. Qed.

(* ------------------------------------------------------------------------------------------------ *)
(* keys of the values map *)

Lemma mkey_eqb_spec a b : reflect (a = b) (mkey_eqb a b).
Proof.
  destruct a as [s|i], b as [t|j]; cbn; try (constructor; congruence).
  - destruct (str_eqb_spec s t); constructor; congruence.
  - destruct (N.eqb_spec i j); constructor; congruence.
Qed.

Lemma mkey_eqb_refl a : mkey_eqb a a = true.
Proof. destruct (mkey_eqb_spec a a); congruence. Qed.

Lemma lookup_remove k k' l :
  lookup k (remove_key k' l) = if mkey_eqb k k' then None else lookup k l.
Proof.
  induction l as [|[k0 i] l IH]; cbn.
  - now destruct (mkey_eqb k k').
  - destruct (mkey_eqb_spec k' k0) as [<-|Hn].
    + rewrite IH. destruct (mkey_eqb k k'); reflexivity.
    + cbn. rewrite IH. destruct (mkey_eqb_spec k k0) as [->|Hn2]; [|reflexivity].
      destruct (mkey_eqb_spec k0 k'); congruence.
Qed.

Section Sim.
Context {payload : Type}.
Context (to_s : str -> payload -> str).
Notation data := (@data payload).
Notation event := (@event payload).
Notation rvalue := (@rvalue payload).
Notation cstate := (@cstate payload).
Notation emitter := (@emitter payload).
Notation to_data := (to_data to_s).
Notation image := (image to_s).

(* ------------------------------------------------------------------------------------------------ *)
(* the collector *)

Definition app_pos (new : list (option data)) (cs : cstate) : cstate :=
  mkcstate (positions cs ++ new) (frames cs) (root cs).
Definition pushes (ds : list data) (cs : cstate) : cstate := fold_left (fun c d => push d c) ds cs.

Lemma push_positions d (cs : cstate) : positions (push d cs) = positions cs.
Proof. unfold push. now destruct (frames cs). Qed.

Lemma push_app_pos d new (cs : cstate) : push d (app_pos new cs) = app_pos new (push d cs).
Proof. unfold push, app_pos. cbn. now destruct (frames cs). Qed.

Lemma pushes_app_pos ds new (cs : cstate) : pushes ds (app_pos new cs) = app_pos new (pushes ds cs).
Proof.
  revert cs; induction ds as [|d ds IH]; intros cs; cbn; [reflexivity|].
  now rewrite push_app_pos, IH.
Qed.

Lemma app_pos_app_pos n1 n2 (cs : cstate) : app_pos n2 (app_pos n1 cs) = app_pos (n1 ++ n2) cs.
Proof. unfold app_pos; cbn. now rewrite app_assoc. Qed.

Lemma app_pos_nil (cs : cstate) : app_pos [] cs = cs.
Proof. destruct cs; unfold app_pos; cbn. now rewrite app_nil_r. Qed.

Lemma pushes_app a b (cs : cstate) : pushes (a ++ b) cs = pushes b (pushes a cs).
Proof. apply fold_left_app. Qed.

Lemma pushes_positions ds (cs : cstate) : positions (pushes ds cs) = positions cs.
Proof.
  revert cs; induction ds as [|d ds IH]; intros cs; cbn; [reflexivity|].
  now rewrite IH, push_positions.
Qed.

Lemma pushes_frame ds p h q items fs (r : list data) :
  pushes ds (mkcstate p (mkframe h q items :: fs) r) = mkcstate p (mkframe h q (rev ds ++ items) :: fs) r.
Proof.
  revert items; induction ds as [|d ds IH]; intros items; cbn; [reflexivity|].
  unfold push at 1; cbn. rewrite IH. now rewrite <- app_assoc.
Qed.

Lemma crun_app (cs : cstate) e1 e2 : crun cs (e1 ++ e2) = bind (crun cs e1) (fun cs' => crun cs' e2).
Proof.
  revert cs; induction e1 as [|ev e1 IH]; intros cs; cbn; [reflexivity|].
  destruct (cstep cs ev); cbn; auto.
Qed.

Lemma cstep_add (cs : cstate) d : cstep cs (EAdd d) = Ok (app_pos [Some d] (push d cs)).
Proof. reflexivity. Qed.

Lemma cstep_ref (cs : cstate) n d :
  nth_error (positions cs) n = Some (Some d) -> cstep cs (ERef n) = Ok (push d cs).
Proof. intros H; cbn. now rewrite H. Qed.

(* a container: open, the children, close *)
Lemma crun_container (h : bool) n evs ds (cs : cstate) new d :
  let cs1 := mkcstate (positions cs ++ [None]) (mkframe h (length (positions cs)) [] :: frames cs) (root cs) in
  crun cs1 evs = Ok (app_pos new (pushes ds cs1)) ->
  (if h then option_map DHash (pair_up ds) else Some (DArr ds)) = Some d ->
  crun cs ((if h then EHash n else EArr n) :: evs ++ [EEnd]) = Ok (app_pos (Some d :: new) (push d cs)).
Proof.
  intros cs1 Hrun Hd.
  assert (Hstep : cstep cs (if h then EHash n else EArr n) = Ok cs1) by (destruct h; reflexivity).
  cbn [crun]. rewrite Hstep; cbn [bind]. rewrite crun_app, Hrun; cbn [bind crun].
  unfold cs1 at 1. rewrite pushes_frame. unfold cstep, app_pos at 1; cbn [frames positions root f_hash f_items f_pos].
  rewrite app_nil_r, rev_involutive, Hd. cbn [bind].
  unfold app_pos at 1 2; cbn [positions frames root].
  rewrite set_nth_mid. f_equal.
  change (mkcstate (positions cs ++ Some d :: new) (frames cs) (root cs)) with (app_pos (Some d :: new) cs).
  apply push_app_pos.
Qed.

(* ------------------------------------------------------------------------------------------------ *)
(* the simulation relation *)

Variable e : env.
Variable m : N -> rvalue.     (* identity tag -> the subtree it names *)

(* an entry of the values map is either closed: its position holds the image of the value; or it belongs
   to a container that is still open (listed in op with its position) *)
Definition entry_ok (op : list (N * nat)) (pos : list (option data)) (k : mkey) (i : nat) : Prop :=
  match k with
  | KStr s => nth_error pos i = Some (Some (DStr s))
  | KId id => nth_error pos i = Some (Some (image e (m id))) \/ In (id, i) op
  end.

(* length positions = refIndex, and every (value -> index) of the values map points to its image *)
Definition R (op : list (N * nat)) (st : sctx) (pos : list (option data)) : Prop :=
  length pos = ridx st /\ forall k i, lookup k (vals st) = Some i -> entry_ok op pos k i.

Definition first_is (new : list (option data)) (d : data) : Prop :=
  match new with [] => True | x :: _ => x = Some d end.

(* f delivers exactly the datum d to the current frame, creates the positions new, keeps R *)
Definition spec (op : list (N * nat)) (f : emitter) (d : data) : Prop :=
  forall st pos, R op st pos ->
  exists st' evs new,
    f st = (st', evs) /\
    (forall cs : cstate, positions cs = pos -> crun cs evs = Ok (app_pos new (push d cs))) /\
    R op st' (pos ++ new) /\ first_is new d.

Definition specs (op : list (N * nat)) (f : emitter) (ds : list data) : Prop :=
  forall st pos, R op st pos ->
  exists st' evs new,
    f st = (st', evs) /\
    (forall cs : cstate, positions cs = pos -> crun cs evs = Ok (app_pos new (pushes ds cs))) /\
    R op st' (pos ++ new).

Lemma entry_ok_app op pos new k i : entry_ok op pos k i -> entry_ok op (pos ++ new) k i.
Proof.
  destruct k as [s|id]; cbn.
  - apply nth_error_app_some.
  - intros [H|H]; [left; now apply nth_error_app_some | now right].
Qed.

Lemma spec_specs op f d : spec op f d -> specs op f [d].
Proof.
  intros H st pos HR. destruct (H st pos HR) as (st' & evs & new & Hf & Hrun & HR' & _).
  exists st', evs, new. auto.
Qed.

Lemma specs_nop op : specs op nop [].
Proof.
  intros st pos HR. exists st, [], []. split; [reflexivity|]. split.
  - intros cs _. cbn. now rewrite app_pos_nil.
  - now rewrite app_nil_r.
Qed.

Lemma specs_seq op f g ds1 ds2 : specs op f ds1 -> specs op g ds2 -> specs op (seq f g) (ds1 ++ ds2).
Proof.
  intros Hf Hg st pos HR.
  destruct (Hf st pos HR) as (st1 & e1 & n1 & Ef & Hrun1 & HR1).
  destruct (Hg st1 _ HR1) as (st2 & e2 & n2 & Eg & Hrun2 & HR2).
  exists st2, (e1 ++ e2), (n1 ++ n2). unfold seq. rewrite Ef, Eg. split; [reflexivity|]. split.
  - intros cs Hcs. rewrite crun_app, (Hrun1 cs Hcs); cbn [bind].
    rewrite Hrun2 by (cbn; now rewrite pushes_positions, Hcs).
    now rewrite pushes_app_pos, app_pos_app_pos, pushes_app.
  - now rewrite app_assoc.
Qed.

Lemma spec_seq op f g d ds : spec op f d -> specs op g ds -> specs op (seq f g) (d :: ds).
Proof. intros Hf Hg. apply (specs_seq op f g [d] ds); [now apply spec_specs|assumption]. Qed.

Lemma spec_seq2 op f g d1 d2 : spec op f d1 -> spec op g d2 -> specs op (seq f g) [d1; d2].
Proof. intros Hf Hg. apply spec_seq; [assumption|now apply spec_specs]. Qed.

(* serializer.go:246 addData *)
Lemma add_data_spec op d : spec op (add_data d) d.
Proof.
  intros st pos [Hlen Hent]. exists (mksctx (vals st) (S (ridx st))), [EAdd d], [Some d].
  split; [reflexivity|]. split; [|split].
  - intros cs Hcs. cbn [crun]. rewrite cstep_add. reflexivity.
  - split; cbn [ridx vals].
    + rewrite app_length; cbn. lia.
    + intros k i Hk. apply entry_ok_app. now apply Hent.
  - reflexivity.
Qed.

Lemma R_ref op st pos r d :
  R op st pos -> nth_error pos r = Some (Some d) ->
  exists st' evs new, (st, [ERef r]) = (st', evs) /\
    (forall cs : cstate, positions cs = pos -> crun cs evs = Ok (app_pos new (push d cs))) /\
    R op st' (pos ++ new) /\ first_is new d.
Proof.
  intros HR Hnth. exists st, [ERef r], []. split; [reflexivity|]. split; [|split].
  - intros cs Hcs. cbn [crun]. rewrite (cstep_ref cs r d) by now rewrite Hcs.
    cbn [bind]. now rewrite app_pos_nil.
  - now rewrite app_nil_r.
  - exact I.
Qed.

(* serializer.go:98-108 a string, de-duplicated by content *)
Lemma to_data_str_spec op lvl s : spec op (to_data_str e lvl s) (DStr s).
Proof.
  unfold to_data_str. destruct (_ && _); [|apply add_data_spec].
  intros st pos HR. unfold process.
  destruct (N.eqb (e_dedup e) 0); [now apply add_data_spec|].
  destruct (lookup (KStr s) (vals st)) as [r|] eqn:L.
  - apply R_ref; [assumption|]. destruct HR as [_ Hent]. exact (Hent _ _ L).
  - destruct HR as [Hlen Hent]. cbn [add_data ridx vals].
    replace (Nat.eqb (S (ridx st)) (ridx st)) with false by (symmetry; apply Nat.eqb_neq; lia).
    eexists _, _, [Some (DStr s)]. split; [reflexivity|]. split; [|split].
    + intros cs Hcs. cbn [crun]. rewrite cstep_add. reflexivity.
    + split; cbn [ridx vals].
      * rewrite app_length; cbn. lia.
      * intros k i. cbn [lookup]. destruct (mkey_eqb_spec k (KStr s)) as [->|Hn].
        -- intros [= <-]. cbn. rewrite <- Hlen. apply nth_error_mid_eq.
        -- intros Hk. apply entry_ok_app. now apply Hent.
    + reflexivity.
Qed.

(* serializer.go:197-215 process, for a value keyed by identity *)
Lemma process_spec op id doer d :
  (forall i, ~ In (id, i) op) ->
  d = image e (m id) ->
  spec op doer d ->
  (forall idx, spec ((id, idx) :: op) doer d) ->
  spec op (process e (KId id) doer) d.
Proof.
  intros Hnot Hd Hdo0 Hdo st pos HR. subst d. unfold process.
  destruct (N.eqb (e_dedup e) 0); [now apply Hdo0|].
  destruct (lookup (KId id) (vals st)) as [r|] eqn:L.
  - apply R_ref; [assumption|]. destruct HR as [_ Hent]. destruct (Hent _ _ L) as [H|H].
    + assumption.
    + now apply Hnot in H.
  - destruct HR as [Hlen Hent].
    set (st1 := mksctx ((KId id, ridx st) :: vals st) (ridx st)).
    assert (HR1 : R ((id, ridx st) :: op) st1 pos).
    { split; [exact Hlen|]. intros k i. unfold st1; cbn [vals lookup].
      destruct (mkey_eqb_spec k (KId id)) as [->|Hn].
      - intros [= <-]. right. now left.
      - intros Hk. specialize (Hent _ _ Hk). destruct k as [s|id']; cbn in *; [assumption|].
        destruct Hent; [now left|right; now right]. }
    destruct (Hdo (ridx st) st1 pos HR1) as (st' & evs & new & Ef & Hrun & [Hlen' Hent'] & Hfirst).
    rewrite Ef. rewrite app_length in Hlen'.
    destruct (Nat.eqb_spec (ridx st') (ridx st)) as [E|E].
    + assert (new = []) by (destruct new; [reflexivity|cbn in Hlen'; lia]). subst new.
      eexists _, evs, []. split; [reflexivity|]. split; [assumption|]. split; [|exact I].
      split; cbn [ridx vals]; [rewrite app_length; cbn; lia|].
      intros k i. rewrite lookup_remove. destruct (mkey_eqb_spec k (KId id)) as [->|Hn]; [discriminate|].
      intros Hk. specialize (Hent' _ _ Hk). destruct k as [s|id']; cbn in *; [assumption|].
      destruct Hent' as [H|[H|H]]; [now left| |now right]. congruence.
    + destruct new as [|x tl]; [cbn in Hlen'; lia|]. cbn in Hfirst; subst x.
      exists st', evs, (Some (image e (m id)) :: tl). split; [reflexivity|]. split; [assumption|]. split; [|reflexivity].
      split; [rewrite app_length; exact Hlen'|].
      intros k i Hk. specialize (Hent' _ _ Hk). destruct k as [s|id']; cbn in *; [assumption|].
      destruct Hent' as [H|[H|H]]; [now left| |now right].
      inversion H; subst. left. rewrite <- Hlen. apply nth_error_mid_eq.
Qed.

Lemma R_open op st pos : R op st pos -> R op (mksctx (vals st) (S (ridx st))) (pos ++ [None]).
Proof.
  intros [Hlen Hent]. split; cbn [ridx vals].
  - rewrite app_length; cbn; lia.
  - intros k i Hk. apply entry_ok_app. now apply Hent.
Qed.

Lemma R_close op st pos new d : R op st ((pos ++ [None]) ++ new) -> R op st (pos ++ Some d :: new).
Proof.
  intros [Hlen Hent]. split.
  - rewrite <- Hlen. rewrite !app_length; cbn. lia.
  - intros k i Hk. specialize (Hent _ _ Hk).
    assert (Hne : forall x, nth_error ((pos ++ [None]) ++ new) i = Some (Some x) ->
                            nth_error (pos ++ Some d :: new) i = Some (Some x)).
    { intros x Hx. destruct (Nat.eq_dec i (length pos)) as [->|Hi].
      - rewrite <- app_assoc in Hx. cbn in Hx. rewrite nth_error_mid_eq in Hx. discriminate.
      - now rewrite <- (nth_error_mid_other pos new None (Some d) i Hi). }
    destruct k as [s|id]; cbn in *; [now apply Hne|]. destruct Hent as [H|H]; [left; now apply Hne|now right].
Qed.

(* serializer.go:236-244 addArray / addHash *)
Lemma add_container_spec op (h : bool) n body ds d :
  specs op body ds ->
  (if h then option_map DHash (pair_up ds) else Some (DArr ds)) = Some d ->
  spec op (if h then add_hash n body else add_array n body) d.
Proof.
  intros Hbody Hd st pos HR.
  destruct (Hbody _ _ (R_open _ _ _ HR)) as (st' & evs & new & Eb & Hrun & HR').
  exists st', ((if h then EHash n else EArr n) :: evs ++ [EEnd]), (Some d :: new).
  split; [|split; [|split]].
  - destruct h; unfold add_hash, add_array; now rewrite Eb.
  - intros cs Hcs. apply (crun_container h n evs ds cs new d); [|assumption].
    rewrite Hrun by (cbn; now rewrite Hcs). reflexivity.
  - now apply R_close.
  - reflexivity.
Qed.

Lemma add_hash_spec op n body ds prs :
  specs op body ds -> pair_up ds = Some prs -> spec op (add_hash n body) (DHash prs).
Proof.
  intros Hb Hp. apply (add_container_spec op true n body ds); [assumption|]. now rewrite Hp.
Qed.

Lemma add_array_spec op n body ds : specs op body ds -> spec op (add_array n body) (DArr ds).
Proof. intros Hb. now apply (add_container_spec op false n body ds). Qed.


(* ------------------------------------------------------------------------------------------------ *)
(* structure of rich values: induction principle, children, size, identity tags *)

Section RvInd.
Variable P : rvalue -> Prop.
Hypothesis HUndef : P VUndef.
Hypothesis HBool : forall b, P (VBool b).
Hypothesis HInt : forall z, P (VInt z).
Hypothesis HFloat : forall f, P (VFloat f).
Hypothesis HStr : forall s, P (VStr s).
Hypothesis HDefault : P VDefault.
Hypothesis HArr : forall id vs, Forall P vs -> P (VArr id vs).
Hypothesis HHash : forall id es, Forall (fun en => P (fst (fst en)) /\ P (snd en)) es -> P (VHash id es).
Hypothesis HSens : forall id x, P x -> P (VSens id x).
Hypothesis HBin : forall id p disp, P (VBin id p disp).
Hypothesis HRich : forall id tn l2 p disp, P (VRich id tn l2 p disp).
Hypothesis HObj : forall id ty hint attrs disp, P ty -> Forall (fun a => P (snd a)) attrs -> P (VObj id ty hint attrs disp).

Fixpoint rvalue_ind' (v : rvalue) : P v :=
  match v with
  | VUndef => HUndef | VBool b => HBool b | VInt z => HInt z | VFloat f => HFloat f
  | VStr s => HStr s | VDefault => HDefault
  | VArr id vs =>
      HArr id vs ((fix go (l : list rvalue) : Forall P l :=
                     match l with [] => Forall_nil _ | x :: l' => Forall_cons x (rvalue_ind' x) (go l') end) vs)
  | VHash id es =>
      HHash id es ((fix go (l : list (rvalue * str * rvalue)) : Forall (fun en => P (fst (fst en)) /\ P (snd en)) l :=
                      match l with
                      | [] => Forall_nil _
                      | (k, kd, x) :: l' => Forall_cons (k, kd, x) (conj (rvalue_ind' k) (rvalue_ind' x)) (go l')
                      end) es)
  | VSens id x => HSens id x (rvalue_ind' x)
  | VBin id p disp => HBin id p disp
  | VRich id tn l2 p disp => HRich id tn l2 p disp
  | VObj id ty hint attrs disp =>
      HObj id ty hint attrs disp (rvalue_ind' ty)
        ((fix go (l : list (str * rvalue)) : Forall (fun a => P (snd a)) l :=
            match l with [] => Forall_nil _ | (k, x) :: l' => Forall_cons (k, x) (rvalue_ind' x) (go l') end) attrs)
  end.
End RvInd.

Inductive child : rvalue -> rvalue -> Prop :=
| ch_arr id vs x : In x vs -> child x (VArr id vs)
| ch_hk id es en : In en es -> child (fst (fst en)) (VHash id es)
| ch_hv id es en : In en es -> child (snd en) (VHash id es)
| ch_sens id x : child x (VSens id x)
| ch_objt id ty hint attrs disp : child ty (VObj id ty hint attrs disp)
| ch_obja id ty hint attrs disp a : In a attrs -> child (snd a) (VObj id ty hint attrs disp).

(* sub n v: n is a node of v *)
Inductive sub (n : rvalue) : rvalue -> Prop :=
| sub_refl : sub n n
| sub_step c v : child c v -> sub n c -> sub n v.

Fixpoint rsize (v : rvalue) : nat :=
  match v with
  | VArr _ vs => S ((fix go (l : list rvalue) := match l with [] => 0 | x :: l' => rsize x + go l' end) vs)
  | VHash _ es => S ((fix go (l : list (rvalue * str * rvalue)) :=
                        match l with [] => 0 | (k, _, x) :: l' => rsize k + rsize x + go l' end) es)
  | VSens _ x => S (rsize x)
  | VObj _ ty _ attrs _ =>
      S (rsize ty + (fix go (l : list (str * rvalue)) := match l with [] => 0 | (_, x) :: l' => rsize x + go l' end) attrs)
  | _ => 1
  end.

Lemma child_size c v : child c v -> rsize c < rsize v.
Proof.
  intros H; destruct H as [id vs x Hin|id es en Hin|id es en Hin|id x|id ty hint attrs disp|id ty hint attrs disp a Hin];
    cbn [rsize]; try lia.
  - induction vs as [|y vs IH]; [contradiction|]. destruct Hin as [->|Hin]; [lia|]. specialize (IH Hin). lia.
  - induction es as [|[[k kd] y] es IH]; [contradiction|]. destruct Hin as [<-|Hin]; cbn; [lia|].
    specialize (IH Hin). lia.
  - induction es as [|[[k kd] y] es IH]; [contradiction|]. destruct Hin as [<-|Hin]; cbn; [lia|].
    specialize (IH Hin). lia.
  - induction attrs as [|[k y] attrs IH]; [contradiction|]. destruct Hin as [<-|Hin]; cbn; [lia|].
    specialize (IH Hin). lia.
Qed.

(* identity tags name subtrees: every tagged node n of v is the tree m (its tag) *)
Definition consistent (v : rvalue) : Prop := forall n, sub n v -> forall id, id_of n = Some id -> m id = n.

Lemma consistent_child c v : consistent v -> child c v -> consistent c.
Proof. intros H Hc n Hn. apply H. now apply (sub_step n c v). Qed.

Lemma consistent_self v id : consistent v -> id_of v = Some id -> m id = v.
Proof. intros H. apply H. constructor. Qed.

(* consistent, constructor by constructor *)
Lemma consistent_intro v :
  (forall id, id_of v = Some id -> m id = v) -> (forall c, child c v -> consistent c) -> consistent v.
Proof.
  intros Hself Hch n Hn. inversion Hn as [|c v' Hc Hs]; subst.
  - exact (Hself).
  - exact (Hch c Hc n Hs).
Qed.

Lemma consistent_untagged_leaf v :
  match v with VUndef | VBool _ | VInt _ | VFloat _ | VStr _ | VDefault => True | _ => False end -> consistent v.
Proof.
  intros Hv. apply consistent_intro.
  - destruct v; cbn; try discriminate; contradiction.
  - intros c Hc. destruct v; try contradiction; inversion Hc.
Qed.

Lemma consistent_bin id p disp : m id = VBin id p disp -> consistent (VBin id p disp).
Proof. intros Hm. apply consistent_intro; [intros id' [= <-]; exact Hm|intros c Hc; inversion Hc]. Qed.

Lemma consistent_rich id tn l2 p disp : m id = VRich id tn l2 p disp -> consistent (VRich id tn l2 p disp).
Proof. intros Hm. apply consistent_intro; [intros id' [= <-]; exact Hm|intros c Hc; inversion Hc]. Qed.

Lemma consistent_arr id vs : m id = VArr id vs -> Forall consistent vs -> consistent (VArr id vs).
Proof.
  intros Hm Hvs. apply consistent_intro; [intros id' [= <-]; exact Hm|].
  intros c Hc. inversion Hc; subst. rewrite Forall_forall in Hvs. now apply Hvs.
Qed.

Lemma consistent_hash id es :
  m id = VHash id es -> Forall (fun en => consistent (fst (fst en)) /\ consistent (snd en)) es ->
  consistent (VHash id es).
Proof.
  intros Hm Hes. apply consistent_intro; [intros id' [= <-]; exact Hm|].
  intros c Hc. rewrite Forall_forall in Hes. inversion Hc; subst; now apply Hes.
Qed.

Lemma consistent_sens id x : m id = VSens id x -> consistent x -> consistent (VSens id x).
Proof.
  intros Hm Hx. apply consistent_intro; [intros id' [= <-]; exact Hm|].
  intros c Hc. inversion Hc; subst. exact Hx.
Qed.

Lemma consistent_obj id ty hint attrs disp :
  m id = VObj id ty hint attrs disp -> consistent ty -> Forall (fun a => consistent (snd a)) attrs ->
  consistent (VObj id ty hint attrs disp).
Proof.
  intros Hm Hty Hat. apply consistent_intro; [intros id' [= <-]; exact Hm|].
  intros c Hc. rewrite Forall_forall in Hat. inversion Hc; subst; [exact Hty|now apply Hat].
Qed.

(* ------------------------------------------------------------------------------------------------ *)
(* to_data and image with the inner loops as folds *)

Definition seq_all (l : list emitter) : emitter := fold_right seq nop l.

Definition key_str (en : rvalue * str * rvalue) : emitter :=
  match fst (fst en) with VStr s => to_data_str e lk s | _ => to_data_str e lk (snd (fst en)) end.
Definition key_img (en : rvalue * str * rvalue) : data :=
  match fst (fst en) with VStr s => DStr s | _ => DStr (snd (fst en)) end.

Lemma to_data_arr lvl id vs :
  to_data e lvl (VArr id vs) = process e (KId id) (add_array (length vs) (seq_all (map (to_data e lv) vs))).
Proof.
  cbn [Ser.to_data]. f_equal. f_equal. induction vs as [|x vs IH]; cbn; [reflexivity|]. now rewrite IH.
Qed.

Lemma to_data_hash lvl id es :
  to_data e lvl (VHash id es) =
  if e_ck e || all_keys_str es then
    process e (KId id) (add_hash (length es)
      (seq_all (flat_map (fun en => [to_data e lk (fst (fst en)); to_data e lv (snd en)]) es)))
  else if e_rich e then
    process e (KId id) (add_hash 2
      (seq (to_data_str e lk ptype_key) (seq (to_data_str e lv t_hash) (seq (to_data_str e lk pvalue_key)
        (add_array (length es * 2)
           (seq_all (flat_map (fun en => [to_data e lv (fst (fst en)); to_data e lv (snd en)]) es)))))))
  else
    process e (KId id) (add_hash (length es)
      (seq_all (flat_map (fun en => [key_str en; to_data e lv (snd en)]) es))).
Proof.
  cbn [Ser.to_data]. destruct (e_ck e || all_keys_str es); [|destruct (e_rich e)].
  - f_equal. f_equal. induction es as [|[[k kd] x] es IH]; cbn; [reflexivity|]. now rewrite IH.
  - f_equal. f_equal. f_equal. f_equal. f_equal. f_equal.
    induction es as [|[[k kd] x] es IH]; cbn; [reflexivity|]. now rewrite IH.
  - f_equal. f_equal. induction es as [|[[k kd] x] es IH]; cbn; [reflexivity|]. rewrite IH.
    unfold key_str; cbn. now destruct k.
Qed.

Lemma to_data_obj lvl id ty hint attrs disp :
  to_data e lvl (VObj id ty hint attrs disp) =
  if e_rich e then
    process e (KId id) (add_hash hint (seq (to_data_str e lk ptype_key) (seq (to_data e lv ty)
      (seq_all (flat_map (fun a => [to_data_str e lk (fst a); to_data e lv (snd a)]) attrs)))))
  else to_data_str e lv disp.
Proof.
  cbn [Ser.to_data]. destruct (e_rich e); [|reflexivity].
  f_equal. f_equal. f_equal. f_equal. induction attrs as [|[k x] attrs IH]; cbn; [reflexivity|]. now rewrite IH.
Qed.

Lemma image_hash id es :
  image e (VHash id es) =
  if e_ck e || all_keys_str es then DHash (map (fun en => (image e (fst (fst en)), image e (snd en))) es)
  else if e_rich e then
    DHash [(DStr ptype_key, DStr t_hash);
           (DStr pvalue_key, DArr (flat_map (fun en => [image e (fst (fst en)); image e (snd en)]) es))]
  else DHash (map (fun en => (key_img en, image e (snd en))) es).
Proof.
  cbn [Ser.image]. destruct (e_ck e || all_keys_str es); [|destruct (e_rich e)].
  - f_equal. induction es as [|[[k kd] x] es IH]; cbn; [reflexivity|]. now rewrite IH.
  - do 5 f_equal. induction es as [|[[k kd] x] es IH]; cbn; [reflexivity|]. now rewrite IH.
  - f_equal. induction es as [|[[k kd] x] es IH]; cbn; [reflexivity|]. rewrite IH.
    unfold key_img; cbn. now destruct k.
Qed.

Lemma image_obj id ty hint attrs disp :
  image e (VObj id ty hint attrs disp) =
  if e_rich e then DHash ((DStr ptype_key, image e ty) :: map (fun a => (DStr (fst a), image e (snd a))) attrs)
  else DStr disp.
Proof.
  cbn [Ser.image]. destruct (e_rich e); [|reflexivity].
  do 2 f_equal. induction attrs as [|[k x] attrs IH]; cbn; [reflexivity|]. now rewrite IH.
Qed.

Lemma specs_map op {A} (F : A -> emitter) (G : A -> data) l :
  (forall x, In x l -> spec op (F x) (G x)) -> specs op (seq_all (map F l)) (map G l).
Proof.
  induction l as [|x l IH]; intros H; cbn; [apply specs_nop|].
  apply spec_seq; [apply H; now left|]. apply IH. intros y Hy. apply H. now right.
Qed.

Lemma specs_pairs op {A} (FK FV : A -> emitter) (GK GV : A -> data) l :
  (forall x, In x l -> spec op (FK x) (GK x) /\ spec op (FV x) (GV x)) ->
  specs op (seq_all (flat_map (fun x => [FK x; FV x]) l)) (flat_map (fun x => [GK x; GV x]) l).
Proof.
  induction l as [|x l IH]; intros H; cbn; [apply specs_nop|].
  destruct (H x (or_introl eq_refl)) as [H1 H2].
  apply spec_seq; [assumption|]. apply spec_seq; [assumption|].
  apply IH. intros y Hy. apply H. now right.
Qed.

(* ------------------------------------------------------------------------------------------------ *)
(* the simulation, by induction over the value *)

Definition below (v : rvalue) (op : list (N * nat)) : Prop :=
  forall id i, In (id, i) op -> rsize v < rsize (m id).
Definition below_eq (v : rvalue) (op : list (N * nat)) : Prop :=
  forall id i, In (id, i) op -> rsize v <= rsize (m id).

Lemma below_child c v op : child c v -> below_eq v op -> below c op.
Proof. intros Hc H id i Hin. specialize (H _ _ Hin). apply child_size in Hc. lia. Qed.

Lemma process_node op v id doer :
  id_of v = Some id -> consistent v -> below v op ->
  (forall op', below_eq v op' -> spec op' doer (image e v)) ->
  spec op (process e (KId id) doer) (image e v).
Proof.
  intros Hid Hc Hb Hdo. pose proof (consistent_self v id Hc Hid) as Hm.
  apply process_spec.
  - intros i Hin. specialize (Hb _ _ Hin). rewrite Hm in Hb. lia.
  - now rewrite Hm.
  - apply Hdo. intros id' i Hin. specialize (Hb _ _ Hin). lia.
  - intros idx. apply Hdo. intros id' i [H|Hin].
    + injection H as E1 E2. subst id'. rewrite Hm. lia.
    + specialize (Hb _ _ Hin). lia.
Qed.

Lemma rich_hash2_spec op lvl tn f d :
  spec op f d ->
  spec op (add_hash 2 (seq (to_data_str e lk ptype_key) (seq (to_data_str e lvl tn)
             (seq (to_data_str e lk pvalue_key) f))))
          (DHash [(DStr ptype_key, DStr tn); (DStr pvalue_key, d)]).
Proof.
  intros Hf. eapply add_hash_spec.
  - apply spec_seq; [apply to_data_str_spec|]. apply spec_seq; [apply to_data_str_spec|].
    apply spec_seq2; [apply to_data_str_spec|exact Hf].
  - reflexivity.
Qed.

Theorem to_data_spec v :
  forall lvl op, consistent v -> below v op -> spec op (to_data e lvl v) (image e v).
Proof.
  induction v as [ | b | z | f | s | | id vs IH | id es IH | id x IH | id p disp | id tn l2 p disp
                   | id ty hint attrs disp IHty IHattrs ] using rvalue_ind';
    intros lvl op Hc Hb.
  - apply add_data_spec.
  - apply add_data_spec.
  - apply add_data_spec.
  - apply add_data_spec.
  - apply to_data_str_spec.
  - (* Default *)
    cbn [Ser.to_data Ser.image]. destruct (e_rich e); [|apply to_data_str_spec].
    eapply add_hash_spec; [apply spec_seq2; apply to_data_str_spec|reflexivity].
  - (* Array *)
    rewrite to_data_arr. apply (process_node op (VArr id vs) id); [reflexivity|assumption|assumption|].
    intros op' Hb'. cbn [Ser.image]. apply add_array_spec. apply specs_map.
    intros x Hx. rewrite Forall_forall in IH. apply IH; [assumption| |].
    + apply (consistent_child x _ Hc). now constructor.
    + apply (below_child x (VArr id vs)); [now constructor|assumption].
  - (* Hash *)
    rewrite Forall_forall in IH.
    assert (Hk : forall en, In en es -> forall l op', below_eq (VHash id es) op' ->
                 spec op' (to_data e l (fst (fst en))) (image e (fst (fst en)))).
    { intros en Hen l op' Hb'. apply (proj1 (IH en Hen)).
      - apply (consistent_child _ _ Hc). now constructor.
      - apply (below_child _ (VHash id es)); [now constructor|assumption]. }
    assert (Hv : forall en, In en es -> forall l op', below_eq (VHash id es) op' ->
                 spec op' (to_data e l (snd en)) (image e (snd en))).
    { intros en Hen l op' Hb'. apply (proj2 (IH en Hen)).
      - apply (consistent_child _ _ Hc). now constructor.
      - apply (below_child _ (VHash id es)); [now constructor|assumption]. }
    assert (Hnode : forall doer,
               (forall op', below_eq (VHash id es) op' -> spec op' doer (image e (VHash id es))) ->
               spec op (process e (KId id) doer) (image e (VHash id es))).
    { intros doer. now apply (process_node op (VHash id es) id). }
    revert Hnode. rewrite to_data_hash, image_hash.
    destruct (e_ck e || all_keys_str es); [|destruct (e_rich e)]; intros Hnode; apply Hnode; intros op' Hb'.
    + eapply add_hash_spec; [|apply pair_up_flat].
      apply (specs_pairs op' (fun en => to_data e lk (fst (fst en))) (fun en => to_data e lv (snd en))
                             (fun en => image e (fst (fst en))) (fun en => image e (snd en))).
      intros en Hen. split; [now apply Hk|now apply Hv].
    + apply rich_hash2_spec. apply add_array_spec.
      apply (specs_pairs op' (fun en => to_data e lv (fst (fst en))) (fun en => to_data e lv (snd en))
                             (fun en => image e (fst (fst en))) (fun en => image e (snd en))).
      intros en Hen. split; [now apply Hk|now apply Hv].
    + eapply add_hash_spec; [|apply pair_up_flat].
      apply (specs_pairs op' key_str (fun en => to_data e lv (snd en)) key_img (fun en => image e (snd en))).
      intros en Hen. split; [|now apply Hv].
      unfold key_str, key_img. destruct (fst (fst en)); apply to_data_str_spec.
  - (* Sensitive *)
    cbn [Ser.to_data]. apply (process_node op (VSens id x) id); [reflexivity|assumption|assumption|].
    intros op' Hb'. cbn [Ser.image]. destruct (e_rich e); [|apply to_data_str_spec].
    apply rich_hash2_spec. apply IH.
    + apply (consistent_child _ _ Hc). constructor.
    + apply (below_child _ (VSens id x)); [constructor|assumption].
  - (* Binary *)
    cbn [Ser.to_data]. apply (process_node op (VBin id p disp) id); [reflexivity|assumption|assumption|].
    intros op' Hb'. cbn [Ser.image]. destruct (e_bin e); [apply add_data_spec|].
    destruct (e_rich e); [|apply to_data_str_spec].
    apply rich_hash2_spec. apply to_data_str_spec.
  - (* a value with a serialization string *)
    cbn [Ser.to_data]. destruct (e_rich e) eqn:Er.
    + apply (process_node op (VRich id tn l2 p disp) id); [reflexivity|assumption|assumption|].
      intros op' Hb'. cbn [Ser.image]. rewrite Er. apply rich_hash2_spec. apply to_data_str_spec.
    + cbn [Ser.image]. rewrite Er. apply to_data_str_spec.
  - (* an object *)
    rewrite to_data_obj. destruct (e_rich e) eqn:Er.
    + apply (process_node op (VObj id ty hint attrs disp) id); [reflexivity|assumption|assumption|].
      intros op' Hb'. rewrite image_obj, Er. eapply add_hash_spec.
      * apply spec_seq; [apply to_data_str_spec|]. apply spec_seq.
        -- apply IHty.
           ++ apply (consistent_child _ _ Hc). constructor.
           ++ apply (below_child _ (VObj id ty hint attrs disp)); [constructor|assumption].
        -- apply (specs_pairs op' (fun a => to_data_str e lk (fst a)) (fun a => to_data e lv (snd a))
                                  (fun a => DStr (fst a)) (fun a => image e (snd a))).
           intros a Ha. split; [apply to_data_str_spec|].
           rewrite Forall_forall in IHattrs. apply IHattrs; [assumption| |].
           ++ apply (consistent_child _ _ Hc). now constructor.
           ++ apply (below_child _ (VObj id ty hint attrs disp)); [now constructor|assumption].
      * cbn [pair_up]. now rewrite pair_up_flat.
    + rewrite image_obj, Er. apply to_data_str_spec.
Qed.

(* the empty state *)
Lemma R_init : R [] (mksctx [] 0) [].
Proof. split; [reflexivity|]. intros k i H. discriminate. Qed.

Theorem collect_to_data x :
  consistent x -> collect (snd (to_data e lv x (mksctx [] 0))) = Ok (image e x).
Proof.
  intros Hc.
  destruct (to_data_spec x lv [] Hc (fun id i H => match H with end) _ _ R_init)
    as (st' & evs & new & Ef & Hrun & _).
  rewrite Ef; cbn [snd]. unfold collect. rewrite (Hrun cinit eq_refl). reflexivity.
Qed.

(* length positions = refIndex at the end, for the record *)
Theorem positions_in_step x :
  consistent x ->
  exists cs, crun cinit (snd (to_data e lv x (mksctx [] 0))) = Ok cs /\
             length (positions cs) = ridx (fst (to_data e lv x (mksctx [] 0))).
Proof.
  intros Hc.
  destruct (to_data_spec x lv [] Hc (fun id i H => match H with end) _ _ R_init)
    as (st' & evs & new & Ef & Hrun & [Hlen _] & _).
  rewrite Ef; cbn [fst snd]. eexists. split; [apply (Hrun cinit eq_refl)|]. exact Hlen.
Qed.

End Sim.

(* ------------------------------------------------------------------------------------------------ *)
(* the statements without the section parameters *)

(* the identity tags of x name subtrees: same tag => same subtree (in particular x is acyclic) *)
Definition wf_rich {payload} (x : @rvalue payload) : Prop := exists m, consistent m x.

Theorem collect_serialize {payload} (to_s : str -> payload -> str) o c x :
  wf_rich x -> collect (serialize to_s o c x) = Ok (image to_s (env_of o c) x).
Proof. intros [m Hm]. unfold serialize. now apply (collect_to_data to_s (env_of o c) m). Qed.

(* ------------------------------------------------------------------------------------------------ *)
(* a checker for wf_rich: pairwise "same tag => same tree" over the nodes (run on every correspondence case) *)

Section Checker.
Context {payload : Type}.
Notation rvalue := (@rvalue payload).
Variable eqb : rvalue -> rvalue -> bool.
Hypothesis eqb_sound : forall a b, eqb a b = true -> a = b.

Lemma nodes_self (v : rvalue) : In v (nodes v).
Proof. destruct v; cbn [nodes]; now left. Qed.

Lemma nodes_child (c v : rvalue) : child c v -> forall n, In n (nodes c) -> In n (nodes v).
Proof.
  intros Hc n Hn.
  destruct Hc as [id vs x Hin|id es en Hin|id es en Hin|id x|id ty hint attrs disp|id ty hint attrs disp a Hin];
    cbn [nodes]; right.
  - apply in_flat_map. now exists x.
  - apply in_flat_map. exists en. split; [assumption|]. apply in_or_app. now left.
  - apply in_flat_map. exists en. split; [assumption|]. apply in_or_app. now right.
  - assumption.
  - apply in_or_app. now left.
  - apply in_or_app. right. apply in_flat_map. now exists a.
Qed.

Lemma sub_nodes (n v : rvalue) : sub n v -> In n (nodes v).
Proof.
  induction 1 as [|c v Hc Hs IH]; [apply nodes_self|]. now apply (nodes_child c v).
Qed.

Definition has_tag (i : N) (n : rvalue) : bool := match id_of n with Some j => N.eqb i j | None => false end.
Definition pick (x : rvalue) (i : N) : rvalue :=
  match find (has_tag i) (nodes x) with Some n => n | None => VUndef end.

Theorem wf_richb_sound x : wf_richb eqb x = true -> wf_rich x.
Proof.
  intros H. exists (pick x). intros n Hn id Hid. unfold pick.
  pose proof (sub_nodes n x Hn) as Hin.
  destruct (find (has_tag id) (nodes x)) as [n'|] eqn:F.
  - apply find_some in F as [Hin' Ht]. unfold has_tag in Ht.
    destruct (id_of n') as [j|] eqn:Hj; [|discriminate]. apply N.eqb_eq in Ht. subst j.
    unfold wf_richb in H. rewrite forallb_forall in H. specialize (H n' Hin').
    rewrite forallb_forall in H. specialize (H n Hin). rewrite Hj, Hid, N.eqb_refl in H.
    now apply eqb_sound.
  - pose proof (find_none _ _ F n Hin) as Hf. unfold has_tag in Hf. rewrite Hid, N.eqb_refl in Hf. discriminate.
Qed.

End Checker.

(* the structural equality test is sound *)
Section Eqb.
Context {payload : Type}.
Notation rvalue := (@rvalue payload).
Variable peqb : payload -> payload -> bool.
Hypothesis peqb_sound : forall p q, peqb p q = true -> p = q.

Ltac split_andb :=
  repeat match goal with
         | H : _ && _ = true |- _ => apply andb_prop in H; destruct H
         end.

Theorem rvalue_eqb_sound (a : rvalue) : forall b, rvalue_eqb peqb a b = true -> a = b.
Proof.
  induction a as [ | x | x | x | x | | i xs IH | i xs IH | i x IH | i p d | i tn l p d
                   | i ty h ats d IHty IHats ] using rvalue_ind';
    intros b H; destruct b; cbn [rvalue_eqb] in H; try discriminate.
  - reflexivity.
  - f_equal. now apply Bool.eqb_prop.
  - f_equal. now apply Z.eqb_eq.
  - f_equal. now apply Z.eqb_eq.
  - f_equal. now apply str_eqb_eq.
  - reflexivity.
  - apply andb_prop in H as [Hi Hl]. f_equal; [now apply N.eqb_eq|].
    revert vs Hl. induction IH as [|x xs Hx _ IHl]; intros [|y ys] Hl; try discriminate; [reflexivity|].
    apply andb_prop in Hl as [H1 H2]. f_equal; [now apply Hx|now apply IHl].
  - apply andb_prop in H as [Hi Hl]. f_equal; [now apply N.eqb_eq|].
    revert es Hl. induction IH as [|[[k kd] x] xs [Hk Hx] _ IHl]; intros [|[[k2 kd2] y] ys] Hl; try discriminate;
      [reflexivity|].
    split_andb. cbn [fst snd] in *. f_equal; [|now apply IHl].
    f_equal; [f_equal; [now apply Hk|now apply str_eqb_eq]|now apply Hx].
  - apply andb_prop in H as [Hi Hx]. f_equal; [now apply N.eqb_eq|now apply IH].
  - split_andb. f_equal; [now apply N.eqb_eq|now apply peqb_sound|now apply str_eqb_eq].
  - split_andb.
    f_equal; [now apply N.eqb_eq|now apply str_eqb_eq|now apply Bool.eqb_prop|now apply peqb_sound|now apply str_eqb_eq].
  - apply andb_prop in H as [H Hd]. apply andb_prop in H as [H Hl]. apply andb_prop in H as [H Hh].
    apply andb_prop in H as [Hi Hty].
    f_equal; [now apply N.eqb_eq|now apply IHty|now apply Nat.eqb_eq| |now apply str_eqb_eq].
    revert attrs Hl. induction IHats as [|[k x] xs Hx _ IHl]; intros [|[k2 y] ys] Hl; try discriminate;
      [reflexivity|].
    split_andb. cbn [snd] in *. f_equal; [|now apply IHl]. f_equal; [now apply str_eqb_eq|now apply Hx].
Qed.

End Eqb.

(* with string payloads (the correspondence cases): the checker decides a sufficient condition of wf_rich *)
Theorem wf_richb_str_sound (x : @rvalue str) : wf_richb (rvalue_eqb str_eqb) x = true -> wf_rich x.
Proof.
  apply wf_richb_sound. apply rvalue_eqb_sound. intros p q. apply str_eqb_eq.
Qed.
