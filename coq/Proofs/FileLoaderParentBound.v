(* FileLoaderParentBound.v — property C15: a name that the parent loader (the system loader above the file-based loaders)
   binds is never answered "not found", in any topology and any state without a cached miss of the dependency loader
   (every state reached by an error-free run).  fileBasedLoader.LoadEntry asks the parent first (filebased.go:79), so
   whatever the loaders have cached for the name - a stale miss included - the parent's binding is returned.
   This removes the third guard (the parent does not bind the member name) from the TypeSet-member theorem. *)
From Coq Require Import ZArith NArith Bool List Lia.
From PcoreV Require Import Model.Base Model.FileLoader Proofs.FileLoaderProofs Proofs.FileLoaderIff.
Import ListNotations.
Local Open Scope nat_scope.

Lemma top_cases (t : topk) : t = TopSingle \/ t = TopDep \/ t = TopChain.
Proof. destruct t; auto. Qed.

Section ParentBound.
  Variable w : world.
  Notation ixs := (indexes_of w).
  Variables (k nm : str).
  Hypothesis Hsh : shadow w k = Some nm.
  Hypothesis Hmods : w_top w = TopDep -> 1 <= length (w_mods w).

  Definition pval (e : eres) : Prop := e = Some (Some (shadow_val nm)).

  Section Layer.
    Variable LE : ctxl -> str -> M eres.
    Variable FD : ctxl -> nat -> str -> M eres.

    Lemma pb_entry cl j s : mod_load_entry w ixs LE FD cl j k s = (s, Ok (Some (Some (shadow_val nm)))).
    Proof. unfold mod_load_entry. rewrite Hsh. reflexivity. Qed.

    Lemma pb_chain np : forall cl j s, chain_load_entry w ixs LE FD np cl j k s = (s, Ok (Some (Some (shadow_val nm)))).
    Proof.
      induction np as [|np IH]; intros cl j s; cbn [chain_load_entry]; [apply pb_entry|].
      unfold bind. rewrite IH. reflexivity.
    Qed.

    Lemma pb_dep_find cl s s' e : dep_find w ixs LE FD cl k s = (s', Ok e) -> w_top w = TopDep -> s' = s /\ pval e.
    Proof.
      intros Hm Ht. pose proof (Hmods Ht) as Hlen. unfold dep_find in Hm.
      assert (Hloop : forall n j, 1 <= n ->
                (fix loop (n : nat) (i : nat) : M eres :=
                   match n with
                   | 0 => fun s => (s, Ok (dep_get (st_dep s) k))
                   | S n' => e <- mod_load_entry w ixs LE FD cl i k ;;
                             match e with Some (Some _) => ret e | _ => loop n' (S i) end
                   end) n j s = (s, Ok (Some (Some (shadow_val nm))))).
      { intros n j Hn. destruct n as [|n]; [lia|]. unfold bind. rewrite pb_entry. reflexivity. }
      destruct (dep_index_nonempty w && is_qualified k).
      - destruct (parts_checked k) as [ps|e0| |]; try discriminate Hm.
        destruct (dep_index_get w (hd [] ps)) as [j|].
        + rewrite pb_entry in Hm. inversion Hm. split; reflexivity.
        + rewrite (Hloop _ 0 Hlen) in Hm. inversion Hm. split; reflexivity.
      - rewrite (Hloop _ 0 Hlen) in Hm. inversion Hm. split; reflexivity.
    Qed.

    Lemma pb_dep_load_entry cl s s' e : depok s -> w_top w = TopDep ->
      dep_load_entry w ixs LE FD cl k s = (s', Ok e) -> exists v, e = Some (Some v).
    Proof.
      intros Hd Ht Hm. unfold dep_load_entry, bind in Hm.
      destruct (dep_get (st_dep s) k) as [[v|]|] eqn:Hdg.
      - inversion Hm. exists v; reflexivity.
      - exfalso. exact (Hd k Hdg).
      - destruct (dep_find w ixs LE FD cl k s) as [s1 r1] eqn:Ef.
        destruct r1 as [e1|e1| |]; try discriminate Hm.
        destruct (pb_dep_find cl s s1 e1 Ef Ht) as [_ He1]. unfold pval in He1. subst e1.
        destruct (dep_set_m k (Some (shadow_val nm)) s1) as [s2 [[]|e2| |]]; inversion Hm. eexists; reflexivity.
    Qed.

    Lemma pb_top cl s s' e : depok s -> top_load_entry w ixs LE FD cl k s = (s', Ok e) -> exists v, e = Some (Some v).
    Proof.
      intros Hd Hm. unfold top_load_entry in Hm. destruct (top_cases (w_top w)) as [Ht|[Ht|Ht]]; rewrite Ht in Hm.
      - rewrite pb_entry in Hm. inversion Hm. eexists; reflexivity.
      - exact (pb_dep_load_entry cl s s' e Hd Ht Hm).
      - rewrite pb_chain in Hm. inversion Hm. eexists; reflexivity.
    Qed.

    Lemma pb_ctx cl s s' e : depok s -> ctx_load_entry w ixs LE FD cl k s = (s', Ok e) -> exists v, e = Some (Some v).
    Proof.
      intros Hd Hm. unfold ctx_load_entry in Hm. destruct (cl_ctx cl) as [j|]; [|exact (pb_top cl s s' e Hd Hm)].
      apply bind_ok_inv in Hm. destruct Hm as (s1 & e1 & E1 & Hm).
      destruct (pb_top cl s s1 e1 Hd E1) as [v Hv]. subst e1. inversion Hm. exists v; reflexivity.
    Qed.
  End Layer.

  Lemma pb_LEn n cl s s' e : depok s -> LEn w ixs n cl k s = (s', Ok e) -> exists v, e = Some (Some v).
  Proof.
    destruct n as [|n]; [intros _ H; inversion H|].
    change (LEn w ixs (S n) cl k s) with (ctx_load_entry w ixs (LEn w ixs n) (FDn w ixs n) cl k s). apply pb_ctx.
  Qed.

  Lemma pb_load n cl s s' r : depok s -> load w (LEn w ixs n) cl k s = (s', Ok r) -> r <> None.
  Proof.
    intros Hd Hm. unfold load in Hm. apply bind_ok_inv in Hm. destruct Hm as (s1 & e1 & E1 & Hm).
    destruct (pb_LEn n cl s s1 e1 Hd E1) as [v Hv]. subst e1. inversion Hm. discriminate.
  Qed.
End ParentBound.

(* a name that the parent binds is never answered "not found" after an error-free run *)
Lemma parent_bound_not_missed w fuel ops ctx name s' o rd i :
  clean_run w fuel ops -> lookup_after w fuel ops ctx name = (s', (o, rd)) ->
  shadow w (norm_name name) <> None -> consulted w (norm_name name) i -> o <> ONotFound.
Proof.
  intros Hc Hl Hsh Hck Ho. subst o. destruct (reach_Bnd w fuel ops Hc) as [Hd _].
  destruct (shadow w (norm_name name)) as [nm|] eqn:Es; [|exact (Hsh eq_refl)].
  unfold lookup_after, step in Hl.
  destruct (load w (LEn w (indexes_of w) fuel) (top_ctx ctx) (norm_name name) (reach w fuel ops)) as [s1 r1] eqn:E.
  inversion Hl as [[Hs1 Hout Hrd]]. clear Hl Hrd.
  destruct r1 as [[v|]|e| |]; try discriminate Hout.
  refine (pb_load w (norm_name name) nm Es _ fuel (top_ctx ctx) _ _ _ Hd E eq_refl).
  intros Ht. unfold consulted in Hck. rewrite Ht in Hck.
  destruct (dep_index_nonempty w && is_qualified (norm_name name)).
  - destruct (dep_index_get w (hd [] (split_dc (norm_name name)))) as [j|] eqn:Eg; [|lia].
    subst i. unfold dep_index_get in Eg. destruct (w_mods w); [|cbn [length]; lia].
    cbn in Eg. discriminate Eg.
  - lia.
Qed.
