(* HeapProofs.v — facts about the store of Model/Heap.v: which primitives leave the existing backing arrays
   alone (all of them, except an in-place `happend`), and where the cells of a new or rewritten array come from. *)
From Coq Require Import ZArith NArith Bool List Lia.
From PcoreV Require Import Model.Base Model.Heap.
Import ListNotations.
Local Open Scope nat_scope.

Lemma in_firstn {B} (x : B) : forall n l, In x (firstn n l) -> In x l.
Proof. induction n as [|n IH]; intros [|y l]; cbn; auto; try contradiction. intros [H|H]; auto. Qed.

Lemma in_skipn {B} (x : B) : forall n l, In x (skipn n l) -> In x l.
Proof. induction n as [|n IH]; intros [|y l]; cbn; auto. Qed.

Section Store.
  Context {A : Type}.
  Notation store := (store A).

  (* h0 is an initial segment of h: every backing array of h0 is in h, at the same address, with the same cells *)
  Definition prefix (h0 h : store) : Prop := exists ext, h = h0 ++ ext.

  Lemma prefix_refl h : prefix h h.
  Proof. exists []. now rewrite app_nil_r. Qed.

  Lemma prefix_trans h0 h1 h2 : prefix h0 h1 -> prefix h1 h2 -> prefix h0 h2.
  Proof. intros [e1 ->] [e2 ->]. exists (e1 ++ e2). now rewrite app_assoc. Qed.

  Lemma prefix_length h0 h : prefix h0 h -> length h0 <= length h.
  Proof. intros [e ->]. rewrite app_length. lia. Qed.

  Lemma prefix_app h ext : prefix h (h ++ ext).
  Proof. now exists ext. Qed.

  Lemma prefix_arr_at h0 h a : prefix h0 h -> a < length h0 -> arr_at h a = arr_at h0 a.
  Proof. intros [e ->] Ha. unfold arr_at. now rewrite app_nth1. Qed.

  Lemma prefix_hread h0 h s : prefix h0 h -> s_addr s < length h0 -> hread h s = hread h0 s.
  Proof. intros Hp Ha. unfold hread. now rewrite (prefix_arr_at h0 h). Qed.

  (* ---------------------------------------------------------------------------------------------- *)
  (* update_nth *)

  Lemma update_nth_length {B} i (f : B -> B) l : length (update_nth i f l) = length l.
  Proof. revert i; induction l as [|x l IH]; intros [|i]; cbn; auto. Qed.

  Lemma update_nth_app_r {B} (f : B -> B) l0 : forall i l, length l0 <= i ->
    update_nth i f (l0 ++ l) = l0 ++ update_nth (i - length l0) f l.
  Proof.
    induction l0 as [|x l0 IH]; intros i l Hi; cbn in *.
    - now rewrite Nat.sub_0_r.
    - destruct i as [|i]; [lia|]. cbn. f_equal. apply IH. lia.
  Qed.

  Lemma update_nth_id {B} (f : B -> B) : (forall x, f x = x) -> forall i l, update_nth i f l = l.
  Proof. intros Hf i l; revert i; induction l as [|x l IH]; intros [|i]; cbn; auto; now rewrite ?Hf, ?IH. Qed.

  Lemma update_nth_nth {B} (f : B -> B) d : forall i j l,
    nth j (update_nth i f l) d = if Nat.eqb i j then (if Nat.ltb j (length l) then f (nth j l d) else d) else nth j l d.
  Proof.
    intros i j l; revert i j; induction l as [|x l IH]; intros i j.
    - cbn. destruct i, j; cbn; auto; destruct (Nat.eqb i j); auto.
    - destruct i as [|i], j as [|j]; cbn; auto.
      rewrite IH. destruct (Nat.eqb i j); auto.
  Qed.

  Lemma write_cells_nil (a : barray A) n : write_cells a n [] = a.
  Proof. revert n; induction a as [|c a IH]; intros [|n]; cbn; auto. now rewrite IH. Qed.

  Lemma write_cells_length (a : barray A) : forall n xs, length (write_cells a n xs) = length a.
  Proof.
    induction a as [|c a IH]; intros n xs.
    - destruct n; reflexivity.
    - destruct n as [|n]; cbn.
      + destruct xs; cbn; auto.
      + now rewrite IH.
  Qed.

  Lemma write_cells_In (a : barray A) : forall n xs c,
    In c (write_cells a n xs) -> In c a \/ exists x, In x xs /\ c = Some x.
  Proof.
    induction a as [|c0 a IH]; intros n xs c Hin.
    - destruct n; cbn in Hin; contradiction.
    - destruct n as [|n]; cbn in Hin.
      + destruct xs as [|x xs]; [now left|].
        destruct Hin as [<-|Hin]; [right; exists x; cbn; auto|].
        destruct (IH 0 xs c Hin) as [H|[y [Hy ->]]]; [left; now right|right; exists y; cbn; auto].
      + destruct Hin as [<-|Hin]; [left; now left|].
        destruct (IH n xs c Hin) as [H|H]; [left; now right|now right].
  Qed.

  (* ---------------------------------------------------------------------------------------------- *)
  (* the primitives *)

  Lemma halloc_prefix (h : store) xs c : prefix h (fst (halloc h xs c)).
  Proof. unfold halloc; cbn. apply prefix_app. Qed.

  Lemma halloc_addr (h : store) xs c : s_addr (snd (halloc h xs c)) = length h.
  Proof. reflexivity. Qed.

  Lemma halloc_length (h : store) xs c : length (fst (halloc h xs c)) = S (length h).
  Proof. unfold halloc; cbn. rewrite app_length; cbn; lia. Qed.

  (* `happend` leaves the arrays below `length h0` alone when the slice lives above them ... *)
  Lemma happend_prefix_fresh grow (h0 h : store) s xs :
    prefix h0 h -> length h0 <= s_addr s ->
    prefix h0 (fst (happend grow h s xs)) /\ length h0 <= s_addr (snd (happend grow h s xs)).
  Proof.
    intros [e ->] Hs. unfold happend.
    destruct (Nat.leb (s_len s + length xs) (s_cap s)); cbn.
    - split; [|assumption]. rewrite update_nth_app_r by assumption. now eexists.
    - split; [rewrite <- app_assoc; now eexists|]. rewrite app_length. lia.
  Qed.

  (* ... and also when the slice has no spare capacity: append(s[:n:n], xs...) never writes in place *)
  Lemma happend_prefix_capped grow (h : store) s xs :
    s_len s = s_cap s -> prefix h (fst (happend grow h s xs)).
  Proof.
    intros Hc. unfold happend.
    destruct (Nat.leb (s_len s + length xs) (s_cap s)) eqn:E; cbn.
    - apply Nat.leb_le in E. assert (length xs = 0) as Hx by lia.
      destruct xs; [|discriminate].
      rewrite update_nth_id; [apply prefix_refl|]. intros a. apply write_cells_nil.
    - apply prefix_app.
  Qed.

  Lemma happend_length_ge grow (h : store) s xs : length h <= length (fst (happend grow h s xs)).
  Proof.
    unfold happend. destruct (Nat.leb _ _); cbn.
    - now rewrite update_nth_length.
    - rewrite app_length; cbn; lia.
  Qed.

  Lemma happend_addr_lt grow (h : store) s xs :
    s_addr s < length h -> s_addr (snd (happend grow h s xs)) < length (fst (happend grow h s xs)).
  Proof.
    intros Hs. unfold happend. destruct (Nat.leb _ _); cbn.
    - now rewrite update_nth_length.
    - rewrite app_length; cbn; lia.
  Qed.

  (* where the cells of the store after an append come from *)
  Lemma happend_cells grow (h : store) s xs a c :
    In c (arr_at (fst (happend grow h s xs)) a) ->
    (exists a', In c (arr_at h a')) \/ (exists x, In x xs /\ c = Some x) \/ c = None.
  Proof.
    unfold happend. destruct (Nat.leb _ _); cbn; intros Hin.
    - unfold arr_at in Hin. rewrite update_nth_nth in Hin.
      destruct (Nat.eqb (s_addr s) a).
      + destruct (Nat.ltb a (length h)); [|contradiction].
        apply write_cells_In in Hin. destruct Hin as [H|H]; [left; now exists a|right; now left].
      + left; now exists a.
    - unfold arr_at in Hin.
      destruct (Nat.lt_ge_cases a (length h)) as [Ha|Ha].
      + rewrite app_nth1 in Hin by assumption. left; now exists a.
      + rewrite app_nth2 in Hin by assumption.
        destruct (a - length h) as [|k]; cbn in Hin.
        * rewrite !in_app_iff in Hin. destruct Hin as [H|[H|H]].
          -- left. exists (s_addr s). unfold hread in H.
             apply in_firstn in H. eapply in_skipn; eassumption.
          -- right; left. apply in_map_iff in H. destruct H as [x [<- Hx]]. now exists x.
          -- right; right. now apply repeat_spec in H.
        * destruct k; contradiction.
  Qed.

  Lemma halloc_cells (h : store) xs cp a c :
    In c (arr_at (fst (halloc h xs cp)) a) ->
    In c (arr_at h a) \/ (exists x, In x xs /\ c = Some x) \/ c = None.
  Proof.
    unfold halloc; cbn. unfold arr_at. intros Hin.
    destruct (Nat.lt_ge_cases a (length h)) as [Ha|Ha].
    - rewrite app_nth1 in Hin by assumption. now left.
    - rewrite app_nth2 in Hin by assumption.
      destruct (a - length h) as [|k]; cbn in Hin.
      + rewrite in_app_iff in Hin. destruct Hin as [H|H].
        * right; left. apply in_map_iff in H. destruct H as [x [<- Hx]]. now exists x.
        * right; right. now apply repeat_spec in H.
      + destruct k; contradiction.
  Qed.

  Lemma hread_In (h : store) s c : In c (hread h s) -> In c (arr_at h (s_addr s)).
  Proof. unfold hread. intros H. apply in_firstn in H. eapply in_skipn; eassumption. Qed.

  Lemma hslice_addr s i j s' : hslice s i j = Some s' -> s_addr s' = s_addr s.
  Proof. unfold hslice. destruct (_ && _); [|discriminate]. now intros [= <-]. Qed.
End Store.
