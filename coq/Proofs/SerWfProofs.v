(* SerWfProofs.v — well-formedness of the emitted event stream, for EVERY value (no assumption on the
   identity tags) and every environment produced by NewSerializer/Convert:
     - refIndex counts exactly the positions the consumer has received,
     - every back-reference is smaller than the number of positions produced before it,
     - every hash receives an even number of children,
     - no Binary reaches a consumer that cannot do binary, and a consumer that cannot do complex keys
       receives every hash key as a plain string delivered by Add.
   Property C10. *)
From Coq Require Import ZArith NArith Bool Lia List.
From PcoreV Require Import Model.Base Model.Ser Proofs.SerProofs.
Import ListNotations.
Local Open Scope nat_scope.
Local Arguments Nat.ltb : simpl never.
Local Arguments Nat.eqb : simpl never.
Local Arguments Nat.even : simpl never.
Local Arguments N.eqb : simpl never.
Local Arguments N.leb : simpl never.

Section Wf.
Context {payload : Type}.
Context (to_s : str -> payload -> str).
Notation data := (@data payload).
Notation event := (@event payload).
Notation rvalue := (@rvalue payload).
Notation emitter := (@emitter payload).
Notation to_data := (to_data to_s).

Variable e : env.
(* serializer.go:64-66: a consumer without complex keys never sees key de-duplication *)
Hypothesis Henv : e_ck e = false -> (e_dedup e < 2)%N.

(* positions a stream produces at the consumer *)
Fixpoint npos (evs : list event) : nat :=
  match evs with
  | [] => 0
  | EAdd _ :: t | EArr _ :: t | EHash _ :: t => S (npos t)
  | _ :: t => npos t
  end.

Lemma npos_app a b : npos (a ++ b) = npos a + npos b.
Proof. induction a as [|ev a IH]; cbn; [reflexivity|]. destruct ev; cbn; lia. Qed.

Definition slot_ok (stk : list (bool * nat)) : bool := negb (key_slot stk) || e_ck e.
Definition any_slot (stk : list (bool * nat)) : bool := true.
Definition pre_add (d : data) (stk : list (bool * nat)) : bool :=
  is_plain_scalar (e_bin e) d && (negb (key_slot stk) || e_ck e || is_dstr d).

(* every registered index is an existing position, except for the values in ps, which are being
   processed and have not yet produced their position *)
Definition Invp (ps : list mkey) (st : sctx) : Prop :=
  forall k i, lookup k (vals st) = Some i -> i < ridx st \/ (In k ps /\ i = ridx st).

(* f emits one child of the current frame *)
Definition wfcp (ps : list mkey) (pre : list (bool * nat) -> bool) (f : emitter) : Prop :=
  forall st, Invp ps st ->
  exists st' evs,
    f st = (st', evs) /\
    ridx st' = ridx st + npos evs /\
    (if Nat.eqb (ridx st') (ridx st) then Invp ps st' else Invp [] st') /\
    forall stk rest, pre stk = true ->
      wf_stream_from e (ridx st) stk (evs ++ rest) = wf_stream_from e (ridx st') (bump stk) rest.

(* f emits cnt children of a frame of kind h *)
Definition wfbody (h : bool) (cnt : nat) (f : emitter) : Prop :=
  forall st, Invp [] st ->
  exists st' evs,
    f st = (st', evs) /\
    ridx st' = ridx st + npos evs /\
    Invp [] st' /\
    forall n t rest, (h = true -> Nat.even n = true) ->
      wf_stream_from e (ridx st) ((h, n) :: t) (evs ++ rest) = wf_stream_from e (ridx st') ((h, n + cnt) :: t) rest.

Lemma Invp_weaken ps st : Invp [] st -> Invp ps st.
Proof. intros H k i Hk. destruct (H k i Hk) as [?|[[] _]]. now left. Qed.

Lemma wfcp_pre ps (pre pre' : list (bool * nat) -> bool) f :
  (forall stk, pre' stk = true -> pre stk = true) -> wfcp ps pre f -> wfcp ps pre' f.
Proof.
  intros Hp H st HI. destruct (H st HI) as (st' & evs & Ef & Hr & HI' & Hwf).
  exists st', evs. repeat split; auto.
Qed.

Lemma wfcp_post f pre st :
  wfcp [] pre f -> Invp [] st ->
  exists st' evs, f st = (st', evs) /\ ridx st' = ridx st + npos evs /\ Invp [] st' /\
    forall stk rest, pre stk = true ->
      wf_stream_from e (ridx st) stk (evs ++ rest) = wf_stream_from e (ridx st') (bump stk) rest.
Proof.
  intros H HI. destruct (H st HI) as (st' & evs & Ef & Hr & HI' & Hwf).
  exists st', evs. repeat split; auto. now destruct (Nat.eqb (ridx st') (ridx st)).
Qed.

(* serializer.go:246 addData *)
Lemma add_data_wf ps d : wfcp ps (pre_add d) (add_data d).
Proof.
  intros st HI. exists (mksctx (vals st) (S (ridx st))), [EAdd d]. split; [reflexivity|]. cbn [ridx vals npos].
  split; [lia|]. split.
  - replace (Nat.eqb (S (ridx st)) (ridx st)) with false by (symmetry; apply Nat.eqb_neq; lia).
    intros k i Hk. left. cbn [ridx]. destruct (HI k i Hk) as [?|[_ ?]]; lia.
  - intros stk rest Hpre. unfold pre_add in Hpre. cbn [app wf_stream_from]. now rewrite Hpre.
Qed.

Lemma slot_ok_pre_add_str s stk : pre_add (DStr s) stk = true.
Proof. unfold pre_add; cbn. now rewrite orb_true_r. Qed.

(* serializer.go:197 process *)
Lemma process_wf ps pre k doer :
  ~ In k ps ->
  (forall stk, pre stk = true -> slot_ok stk = true) ->
  wfcp ps pre doer -> wfcp (k :: ps) pre doer ->
  wfcp ps pre (process e k doer).
Proof.
  intros Hnot Hpre Hdo0 Hdo st HI. unfold process.
  destruct (N.eqb (e_dedup e) 0); [now apply Hdo0|].
  destruct (lookup k (vals st)) as [r|] eqn:L.
  - exists st, [ERef r]. split; [reflexivity|]. cbn [npos]. split; [lia|]. split.
    + now rewrite Nat.eqb_refl.
    + intros stk rest Hp. cbn [app wf_stream_from]. fold (slot_ok stk). rewrite (Hpre _ Hp).
      destruct (HI _ _ L) as [Hlt|[Hin _]]; [|contradiction].
      apply Nat.ltb_lt in Hlt. now rewrite Hlt.
  - set (st1 := mksctx ((k, ridx st) :: vals st) (ridx st)).
    assert (HI1 : Invp (k :: ps) st1).
    { intros k' i. unfold st1; cbn [vals lookup ridx].
      destruct (mkey_eqb_spec k' k) as [->|Hn].
      - intros [= <-]. right. split; [now left|reflexivity].
      - intros Hk. destruct (HI _ _ Hk) as [?|[? ?]]; [now left|right]. split; [now right|assumption]. }
    destruct (Hdo st1 HI1) as (st' & evs & Ef & Hr & HI' & Hwf). rewrite Ef.
    change (ridx st1) with (ridx st) in *.
    destruct (Nat.eqb (ridx st') (ridx st)) eqn:E.
    + eexists _, evs. split; [reflexivity|]. cbn [ridx vals]. split; [assumption|]. rewrite E. split; [|assumption].
      intros k' i. cbn [vals ridx]. rewrite lookup_remove. destruct (mkey_eqb_spec k' k) as [->|Hn]; [discriminate|].
      intros Hk. destruct (HI' _ _ Hk) as [?|[[?|?] ?]]; [now left|congruence|now right].
    + exists st', evs. split; [reflexivity|]. split; [assumption|]. rewrite E. split; assumption.
Qed.

(* serializer.go:98-108 *)
Lemma to_data_str_wf ps lvl s : ~ In (KStr s) ps -> wfcp ps slot_ok (to_data_str e lvl s).
Proof.
  intros Hnot. unfold to_data_str.
  assert (Hadd : forall ps', wfcp ps' slot_ok (add_data (DStr s))).
  { intros ps'. apply (wfcp_pre ps' (pre_add (DStr s))); [|apply add_data_wf].
    intros stk _. apply slot_ok_pre_add_str. }
  destruct (_ && _); [|apply Hadd].
  apply process_wf; auto.
Qed.

(* a string in key position: a consumer that cannot do complex keys gets it by Add *)
Lemma to_data_str_key s : wfcp [] any_slot (to_data_str e lk s).
Proof.
  destruct (Bool.bool_dec (e_ck e) true) as [Eck|Eck].
  - apply (wfcp_pre [] slot_ok); [|apply to_data_str_wf; auto].
    intros stk _. unfold slot_ok. rewrite Eck. apply orb_true_r.
  - apply not_true_is_false in Eck. unfold to_data_str. pose proof (Henv Eck) as Hd.
    replace (lk <=? e_dedup e)%N with false by (symmetry; apply N.leb_gt; exact Hd).
    cbn [andb]. apply (wfcp_pre [] (pre_add (DStr s))); [|apply add_data_wf].
    intros stk _. apply slot_ok_pre_add_str.
Qed.

Lemma wfbody_nop h : wfbody h 0 nop.
Proof.
  intros st HI. exists st, []. split; [reflexivity|]. cbn [npos]. split; [lia|]. split; [assumption|].
  intros n t rest _. cbn [app]. now rewrite Nat.add_0_r.
Qed.

(* a key and its value *)
Lemma wfbody_pair fk fv g cnt :
  wfcp [] any_slot fk -> wfcp [] slot_ok fv -> wfbody true cnt g -> wfbody true (2 + cnt) (seq fk (seq fv g)).
Proof.
  intros Hk Hv Hg st HI.
  destruct (wfcp_post _ _ _ Hk HI) as (st1 & e1 & E1 & Hr1 & HI1 & Hw1).
  destruct (wfcp_post _ _ _ Hv HI1) as (st2 & e2 & E2 & Hr2 & HI2 & Hw2).
  destruct (Hg st2 HI2) as (st3 & e3 & E3 & Hr3 & HI3 & Hw3).
  exists st3, (e1 ++ e2 ++ e3). unfold seq. rewrite E1, E2, E3. split; [reflexivity|].
  rewrite !npos_app. split; [lia|]. split; [assumption|].
  intros n t rest Hn. specialize (Hn eq_refl).
  rewrite <- !app_assoc. rewrite Hw1 by reflexivity. cbn [bump].
  rewrite Hw2.
  2:{ unfold slot_ok; cbn [key_slot]. rewrite Nat.even_succ, <- Nat.negb_even, Hn. reflexivity. }
  cbn [bump]. rewrite Hw3.
  2:{ intros _. rewrite Nat.even_succ, <- Nat.negb_even, Nat.even_succ, <- Nat.negb_even, Hn. reflexivity. }
  do 2 f_equal. f_equal. lia.
Qed.

(* an element of an array *)
Lemma wfbody_elem f g cnt :
  wfcp [] slot_ok f -> wfbody false cnt g -> wfbody false (1 + cnt) (seq f g).
Proof.
  intros Hf Hg st HI.
  destruct (wfcp_post _ _ _ Hf HI) as (st1 & e1 & E1 & Hr1 & HI1 & Hw1).
  destruct (Hg st1 HI1) as (st2 & e2 & E2 & Hr2 & HI2 & Hw2).
  exists st2, (e1 ++ e2). unfold seq. rewrite E1, E2. split; [reflexivity|].
  rewrite npos_app. split; [lia|]. split; [assumption|].
  intros n t rest _. rewrite <- app_assoc, Hw1 by reflexivity. cbn [bump].
  rewrite Hw2 by discriminate. do 2 f_equal. f_equal. lia.
Qed.

(* serializer.go:236-244 addArray / addHash *)
Lemma add_container_wf ps (h : bool) n cnt body :
  wfbody h cnt body -> (h = true -> Nat.even cnt = true) ->
  wfcp ps slot_ok (if h then add_hash n body else add_array n body).
Proof.
  intros Hb Hev st HI.
  set (st1 := mksctx (vals st) (S (ridx st))).
  assert (HI1 : Invp [] st1).
  { intros k i Hk. left. cbn [ridx st1]. destruct (HI k i Hk) as [?|[_ ?]]; lia. }
  destruct (Hb st1 HI1) as (st' & evs & Eb & Hr & HI' & Hwf). cbn [ridx st1] in Hr.
  exists st', ((if h then EHash n else EArr n) :: evs ++ [EEnd]).
  split; [destruct h; unfold add_hash, add_array; fold st1; now rewrite Eb|].
  assert (Hn : npos ((if h then EHash n else EArr n) :: evs ++ [EEnd]) = S (npos evs)).
  { destruct h; cbn [npos]; rewrite npos_app; cbn; lia. }
  rewrite Hn. split; [lia|]. split.
  - replace (Nat.eqb (ridx st') (ridx st)) with false by (symmetry; apply Nat.eqb_neq; lia). assumption.
  - intros stk rest Hp. unfold slot_ok in Hp.
    assert (E : wf_stream_from e (ridx st) stk (((if h then EHash n else EArr n) :: evs ++ [EEnd]) ++ rest) =
                wf_stream_from e (S (ridx st)) ((h, 0) :: bump stk) (evs ++ EEnd :: rest)).
    { destruct h; cbn [app wf_stream_from]; rewrite Hp; cbn [andb]; now rewrite <- app_assoc. }
    rewrite E. change (S (ridx st)) with (ridx st1). rewrite Hwf by (intros _; reflexivity).
    cbn [wf_stream_from plus]. destruct h; cbn [negb orb andb]; [|reflexivity]. now rewrite (Hev eq_refl).
Qed.

Lemma add_hash_wf ps n cnt body :
  wfbody true cnt body -> Nat.even cnt = true -> wfcp ps slot_ok (add_hash n body).
Proof. intros Hb Hev. now apply (add_container_wf ps true n cnt body). Qed.

Lemma add_array_wf ps n cnt body : wfbody false cnt body -> wfcp ps slot_ok (add_array n body).
Proof. intros Hb. apply (add_container_wf ps false n cnt body); [assumption|discriminate]. Qed.

Lemma wfbody_elems {A} (F : A -> emitter) l :
  (forall x, In x l -> wfcp [] slot_ok (F x)) -> wfbody false (length l) (seq_all (map F l)).
Proof.
  induction l as [|x l IH]; intros H; cbn [map seq_all fold_right length]; [apply wfbody_nop|].
  apply (wfbody_elem (F x)); [apply H; now left|]. apply IH. intros y Hy. apply H. now right.
Qed.

Lemma wfbody_pairs {A} (FK FV : A -> emitter) l :
  (forall x, In x l -> wfcp [] any_slot (FK x) /\ wfcp [] slot_ok (FV x)) ->
  wfbody true (2 * length l) (seq_all (flat_map (fun x => [FK x; FV x]) l)).
Proof.
  induction l as [|x l IH]; intros H; [apply wfbody_nop|].
  replace (2 * length (x :: l)) with (2 + 2 * length l) by (cbn [length]; lia).
  destruct (H x (or_introl eq_refl)) as [H1 H2].
  cbn [flat_map app seq_all fold_right]. apply wfbody_pair; [assumption|assumption|].
  apply IH. intros y Hy. apply H. now right.
Qed.

Lemma wfbody_pairs_flat {A} (FK FV : A -> emitter) l :
  (forall x, In x l -> wfcp [] slot_ok (FK x) /\ wfcp [] slot_ok (FV x)) ->
  exists cnt, wfbody false cnt (seq_all (flat_map (fun x => [FK x; FV x]) l)).
Proof.
  induction l as [|x l IH]; intros H; [exists 0; apply wfbody_nop|].
  destruct (H x (or_introl eq_refl)) as [H1 H2].
  destruct IH as [cnt Hc]; [intros y Hy; apply H; now right|].
  exists (1 + (1 + cnt)). cbn [flat_map app seq_all fold_right].
  apply wfbody_elem; [assumption|]. now apply wfbody_elem.
Qed.

Lemma even_double n : Nat.even (2 * n) = true.
Proof. rewrite Nat.even_mul. reflexivity. Qed.

Lemma wfbody_pair_last fk fv :
  wfcp [] any_slot fk -> wfcp [] slot_ok fv -> wfbody true 2 (seq fk fv).
Proof.
  intros Hk Hv.
  pose proof (wfbody_pair _ _ nop 0 Hk Hv (wfbody_nop true)) as Hp.
  intros st HI. destruct (Hp st HI) as (st' & evs & Ef & Hrest). exists st', evs. split; [|exact Hrest].
  rewrite <- Ef. unfold seq, nop. destruct (fk st) as [s1 e1].
  destruct (fv s1) as [s2 e2]. now rewrite app_nil_r.
Qed.

(* the four-entry encoding {__ptype => tn, __pvalue => f} *)
Lemma rich_hash2_wf ps lvl tn f :
  wfcp [] slot_ok f ->
  wfcp ps slot_ok (add_hash 2 (seq (to_data_str e lk ptype_key) (seq (to_data_str e lvl tn)
                                 (seq (to_data_str e lk pvalue_key) f)))).
Proof.
  intros Hf. apply (add_hash_wf ps 2 (2 + 2)); [|reflexivity].
  apply wfbody_pair; [apply to_data_str_key|apply to_data_str_wf; auto|].
  apply wfbody_pair_last; [apply to_data_str_key|assumption].
Qed.

(* a value keyed by identity *)
Definition ids_only (ps : list mkey) : Prop := forall k, In k ps -> exists id, k = KId id.

Lemma process_id_wf id doer :
  (forall ps, ids_only ps -> wfcp ps slot_ok doer) -> wfcp [] slot_ok (process e (KId id) doer).
Proof.
  intros H. apply process_wf; auto.
  - apply H. intros k [].
  - apply H. intros k [<-|[]]. now exists id.
Qed.

Lemma to_data_str_doer lvl s ps : ids_only ps -> wfcp ps slot_ok (to_data_str e lvl s).
Proof. intros H. apply to_data_str_wf. intros Hin. destruct (H _ Hin) as [id Hid]. discriminate. Qed.

Theorem to_data_wf v : forall lvl, wfcp [] slot_ok (to_data e lvl v).
Proof.
  assert (Hadd : forall d, is_plain_scalar (e_bin e) d = true -> is_dstr d = false ->
                           forall ps, wfcp ps slot_ok (add_data d)).
  { intros d Hpl Hs ps. apply (wfcp_pre ps (pre_add d)); [|apply add_data_wf].
    intros stk Hk. unfold pre_add. unfold slot_ok in Hk. now rewrite Hpl, Hk. }
  induction v as [ | b | z | f | s | | id vs IH | id es IH | id x IH | id p disp | id tn l2 p disp
                   | id ty hint attrs disp IHty IHattrs ] using rvalue_ind'; intros lvl.
  - now apply Hadd.
  - now apply Hadd.
  - now apply Hadd.
  - now apply Hadd.
  - apply to_data_str_wf; auto.
  - (* Default *)
    cbn [Ser.to_data]. destruct (e_rich e); [|apply to_data_str_wf; auto].
    apply (add_hash_wf [] 1 2); [|reflexivity].
    apply wfbody_pair_last; [apply to_data_str_key|apply to_data_str_wf; auto].
  - (* Array *)
    rewrite to_data_arr. apply process_id_wf. intros ps _. apply (add_array_wf ps _ (length vs)).
    apply wfbody_elems. intros x Hx. rewrite Forall_forall in IH. now apply IH.
  - (* Hash *)
    rewrite Forall_forall in IH. rewrite to_data_hash.
    destruct (e_ck e || all_keys_str es) eqn:Eks; [|destruct (e_rich e)]; apply process_id_wf; intros ps _.
    + apply (add_hash_wf ps _ (2 * length es)); [|apply even_double].
      apply (wfbody_pairs (fun en => to_data e lk (fst (fst en))) (fun en => to_data e lv (snd en))).
      intros en Hen. split; [|now apply (proj2 (IH en Hen))].
      destruct (Bool.bool_dec (e_ck e) true) as [Eck|Eck].
      * apply (wfcp_pre [] slot_ok); [|now apply (proj1 (IH en Hen))].
        intros stk _. unfold slot_ok. rewrite Eck. apply orb_true_r.
      * apply not_true_is_false in Eck. rewrite Eck in Eks. cbn [orb] in Eks. unfold all_keys_str in Eks. rewrite forallb_forall in Eks. specialize (Eks en Hen).
        destruct (fst (fst en)); try discriminate. apply to_data_str_key.
    + apply rich_hash2_wf.
      destruct (wfbody_pairs_flat (fun en => to_data e lv (fst (fst en))) (fun en => to_data e lv (snd en)) es)
        as [cnt Hc].
      { intros en Hen. split; [now apply (proj1 (IH en Hen))|now apply (proj2 (IH en Hen))]. }
      now apply (add_array_wf [] _ cnt).
    + apply (add_hash_wf ps _ (2 * length es)); [|apply even_double].
      apply (wfbody_pairs (key_str e) (fun en => to_data e lv (snd en))).
      intros en Hen. split; [|now apply (proj2 (IH en Hen))].
      unfold key_str. destruct (fst (fst en)); apply to_data_str_key.
  - (* Sensitive *)
    cbn [Ser.to_data]. apply process_id_wf. intros ps Hps. destruct (e_rich e).
    + apply rich_hash2_wf. apply IH.
    + now apply to_data_str_doer.
  - (* Binary *)
    cbn [Ser.to_data]. apply process_id_wf. intros ps Hps. destruct (e_bin e) eqn:Eb.
    + apply Hadd; reflexivity.
    + destruct (e_rich e); [|now apply to_data_str_doer].
      apply rich_hash2_wf. apply to_data_str_wf; auto.
  - (* a value with a serialization string *)
    cbn [Ser.to_data]. destruct (e_rich e); [|apply to_data_str_wf; auto].
    apply process_id_wf. intros ps Hps. apply rich_hash2_wf. apply to_data_str_wf; auto.
  - (* an object *)
    rewrite to_data_obj. destruct (e_rich e); [|apply to_data_str_wf; auto].
    apply process_id_wf. intros ps Hps.
    apply (add_hash_wf ps _ (2 + 2 * length attrs)).
    + apply wfbody_pair; [apply to_data_str_key|apply IHty|].
      apply (wfbody_pairs (fun a => to_data_str e lk (fst a)) (fun a => to_data e lv (snd a))).
      intros a Ha. split; [apply to_data_str_key|]. rewrite Forall_forall in IHattrs. now apply IHattrs.
    + replace (2 + 2 * length attrs) with (2 * S (length attrs)) by lia. apply even_double.
Qed.

(* the whole stream, from the empty state *)
Lemma Invp_init : Invp [] (mksctx [] 0).
Proof. intros k i H. discriminate. Qed.

Theorem stream_wf_env x :
  wf_stream e (snd (to_data e lv x (mksctx [] 0))) = true /\
  ridx (fst (to_data e lv x (mksctx [] 0))) = npos (snd (to_data e lv x (mksctx [] 0))).
Proof.
  destruct (to_data_wf x lv _ Invp_init) as (st' & evs & Ef & Hr & _ & Hwf).
  rewrite Ef; cbn [fst snd]. split; [|exact Hr].
  unfold wf_stream. specialize (Hwf [] [] eq_refl). rewrite app_nil_r in Hwf. cbn [ridx bump] in Hwf.
  rewrite Hwf. reflexivity.
Qed.

End Wf.

(* ------------------------------------------------------------------------------------------------ *)
(* for the environments NewSerializer + Convert produce *)

Lemma env_of_keys o c : e_ck (env_of o c) = false -> (e_dedup (env_of o c) < 2)%N.
Proof.
  unfold env_of; cbn [e_ck e_dedup]. intros Hck. rewrite Hck; cbn [negb].
  rewrite andb_true_r. destruct (N.leb_spec 2 (if local_reference o then dedup_level o else 0%N)); lia.
Qed.

(* the stream is well formed for every value and every point of the option x capability matrix *)
Theorem stream_wf {payload} (to_s : str -> payload -> str) o c x :
  wf_stream (env_of o c) (serialize to_s o c x) = true.
Proof. unfold serialize. apply (stream_wf_env to_s (env_of o c) (env_of_keys o c) x). Qed.

(* refIndex is in step with the consumer: at the end it is the number of positions delivered *)
Theorem refindex_counts_positions {payload} (to_s : str -> payload -> str) o c x :
  ridx (fst (to_data to_s (env_of o c) lv x (mksctx [] 0))) = npos (serialize to_s o c x).
Proof. unfold serialize. apply (stream_wf_env to_s (env_of o c) (env_of_keys o c) x). Qed.
