(* DescribeProofs.v — lemmas about the model of the type mismatch describer (C19):
   totality (no Fault), emptiness <-> assignability, every mismatch lies below the given path,
   assertions raise exactly on non-instances. *)
From Coq Require Import ZArith NArith Bool List Arith Lia.
From PcoreV Require Import Model.Base Model.Ty Model.Lattice Model.Describe.
Import ListNotations.

(* ---- an induction principle that also covers ActualKeyType of a Struct member key ---- *)
Section IndAK.
  Variable P : ty -> Prop.
  Hypothesis step : forall e,
      match e with
      | TArray t _ _ | TOptional t | TNotUndef t | TType t | TSensitive t => P t
      | THash k v _ _ => P k /\ P v
      | TTuple ts _ _ _ | TVariant ts => Forall P ts
      | TStruct ms => Forall (fun m => P (actual_key (fst (snd m))) /\ P (snd (snd m))) ms
      | _ => True
      end -> P e.

  Lemma ty_ind_ak : forall e, P e.
  Proof.
    assert (H : forall e, P e /\ P (actual_key e)).
    { induction e using ty_ind';
        try (split; apply step; exact I);
        try (split; apply step; cbn; tauto).
      - (* Tuple *) split; (apply step; cbn; eapply Forall_impl; [|exact H]; cbn; tauto).
      - (* Struct *) split; (apply step; cbn; eapply Forall_impl; [|exact H]; cbn; tauto).
      - (* Variant *) split; (apply step; cbn; eapply Forall_impl; [|exact H]; cbn; tauto).
      - (* Optional *) split; [apply step; cbn; tauto | cbn; tauto]. }
    intro e. apply H.
  Qed.
End IndAK.

Section Proofs.
  Variable rx : str -> str -> bool.
  Variable teq : ty -> ty -> bool.
  Notation asg := (asg rx true).
  Notation idesc := (idesc rx teq).
  Notation guarded := (guarded rx).

  (* ---- one-level unfolding ---- *)

  Lemma idesc_guarded e oo a p : exists r, idesc e oo a p = guarded e a p r.
  Proof. destruct e; eexists; reflexivity. Qed.

  (* the Undef that describeVariantType appends is described as internalDescribe would *)
  Lemma idesc_undef oo a p : idesc TUndef oo a p = desc_flat rx TUndef a p.
  Proof. reflexivity. Qed.

  (* ---- emptiness ---- *)

  Lemma guarded_empty_iff e a p r : guarded e a p r = Ok [] <-> asg e a = true.
  Proof.
    unfold Describe.guarded. destruct (Lattice.asg rx true e a).
    - tauto.
    - split; [|discriminate]. destruct r as [[|m ms]|s]; discriminate.
  Qed.

  Lemma idesc_empty_iff e oo a p : idesc e oo a p = Ok [] <-> asg e a = true.
  Proof. destruct (idesc_guarded e oo a p) as [r ->]. apply guarded_empty_iff. Qed.

  Lemma guarded_not_assignable e a p r :
    asg e a = false -> guarded e a p r = match r with Ok [] => Ok [(CType, p)] | _ => r end.
  Proof. unfold Describe.guarded. intros ->. reflexivity. Qed.

  (* ---- totality ---- *)

  Definition total (d : dfun) : Prop := forall a p, exists ms, d a p = Ok ms.
  Definition okr {A} (r : res A) : Prop := exists x, r = Ok x.

  Lemma okr_Ok {A} (x : A) : okr (Ok x).
  Proof. eexists; reflexivity. Qed.
  Hint Resolve okr_Ok : core.

  Lemma app_res_ok x y : okr x -> okr y -> okr (app_res x y).
  Proof. intros [a ->] [b ->]. cbn. auto. Qed.

  Lemma guarded_ok e a p r : okr r -> okr (guarded e a p r).
  Proof.
    intros [ms ->]. unfold Describe.guarded. destruct (Lattice.asg rx true e a); auto.
    destruct ms; auto.
  Qed.

  Lemma merge_class_try_ok c ds : ds <> [] -> okr (merge_class_try c ds).
  Proof.
    intros Hne. unfold merge_class_try.
    destruct (Nat.eqb (length (filter (fun d => mclass_eqb (fst d) c) ds)) (length ds)) eqn:E; auto.
    destruct (filter (fun d => mclass_eqb (fst d) c) ds) as [|prev rest] eqn:F.
    - apply Nat.eqb_eq in E. cbn in E. destruct ds; [congruence|discriminate].
    - destruct (forallb _ rest); auto.
  Qed.

  Lemma merge_loop_ok cs ds : ds <> [] -> okr (merge_loop cs ds).
  Proof.
    intros Hne. induction cs as [|c cs IH]; cbn [merge_loop]; auto.
    destruct (merge_class_try_ok c ds Hne) as [[m|] ->]; auto.
  Qed.

  Lemma merge_descriptions_ok v sm ds : okr (merge_descriptions v sm ds).
  Proof.
    unfold merge_descriptions. destruct ds as [|d ds]; auto.
    destruct (merge_loop_ok [sm; CMissingRequiredBlock; CUnexpectedBlock; CType] (d :: ds)) as [ds' ->]; [discriminate|].
    cbn. unfold unique. destruct ds' as [|x [|y l]]; auto.
  Qed.

  Lemma array_tuple_loop_ok et d p ats ax : total d -> okr (array_tuple_loop rx et d p ats ax).
  Proof.
    intros Hd. revert ax. induction ats as [|t r IH]; intros ax; cbn [array_tuple_loop]; auto.
    apply app_res_ok; [|apply IH]. destruct (negb _); auto. apply Hd.
  Qed.

  Lemma hash_struct_loop_ok dk dv p ms : total dk -> total dv -> okr (hash_struct_loop dk dv p ms).
  Proof.
    intros Hk Hv. induction ms as [|[n [k v]] r IH]; cbn [hash_struct_loop]; auto.
    apply app_res_ok; [apply Hk|]. apply app_res_ok; [apply Hv|apply IH].
  Qed.

  Definition selem_total (e : selem) : Prop := total (snd (fst e)) /\ total (snd e).

  Lemma struct_struct_loop_ok p es h2 : Forall selem_total es -> okr (struct_struct_loop p es h2).
  Proof.
    intros H. revert h2. induction H as [|[[[n opt] dk] dv] r [Hk Hv] Hr IH]; intros h2; cbn [struct_struct_loop]; auto.
    cbn in Hk, Hv. destruct (find_member n h2) as [[k2 v2]|].
    - apply app_res_ok; [apply Hk|]. apply app_res_ok; [apply Hv|apply IH].
    - apply app_res_ok; [auto|apply IH].
  Qed.

  Lemma tuple_array_loop_ok ds p ea ex : Forall total ds -> okr (tuple_array_loop ds p ea ex).
  Proof.
    intros H. revert ex. induction H as [|d r Hd Hr IH]; intros ex; cbn [tuple_array_loop]; auto.
    apply app_res_ok; [apply Hd|apply IH].
  Qed.

  Lemma nth_error_last_some {A} (l : list A) : l <> [] -> exists x, nth_error l (length l - 1) = Some x /\ In x l.
  Proof.
    intros Hne. destruct (nth_error l (length l - 1)) eqn:E.
    - eexists; split; [reflexivity|]. eapply nth_error_In; eauto.
    - apply nth_error_None in E. destruct l; [congruence|]. cbn in E. lia.
  Qed.

  Lemma tuple_tuple_loop_ok ds p ats ax : ds <> [] -> Forall total ds -> okr (tuple_tuple_loop ds p ats ax).
  Proof.
    intros Hne H. revert ax. induction ats as [|t r IH]; intros ax; cbn [tuple_tuple_loop]; auto.
    apply app_res_ok; [|apply IH].
    match goal with |- context [if ?c then _ else _] => destruct c end; auto.
    destruct (nth_error_last_some ds Hne) as (d & -> & Hin).
    rewrite Forall_forall in H. apply (H d Hin).
  Qed.

  Lemma variant_loop_ok a p ts ex vs : Forall (fun td => total (snd td)) ts -> okr (variant_loop rx a p ts ex vs).
  Proof.
    intros H. revert ex vs. induction H as [|[vt d] r Hd Hr IH]; intros ex vs; cbn [variant_loop]; auto.
    destruct (Lattice.asg rx true vt a); auto.
    cbn in Hd. destruct (Hd a (pw p PVariant (kidx ex))) as [dd ->]. apply IH.
  Qed.

  Lemma desc_flat_total e : total (desc_flat rx e).
  Proof.
    intros a p. unfold desc_flat. apply guarded_ok. unfold describe_any. destruct (Lattice.asg rx true e a); auto.
  Qed.

  Lemma describe_variant_ok oo ts a p : Forall (fun td => total (snd td)) ts -> okr (describe_variant rx oo ts a p).
  Proof.
    intros H. unfold describe_variant.
    assert (H' : Forall (fun td => total (snd td)) (if oo then ts ++ [(TUndef, desc_flat rx TUndef)] else ts)).
    { destruct oo; auto. apply Forall_app; split; auto. constructor; [apply desc_flat_total|constructor]. }
    destruct (variant_loop_ok a p _ 0 [] H') as [[vs|] ->]; auto. apply merge_descriptions_ok.
  Qed.

  Lemma describe_array_ok e et d lo hi a p : total d -> okr (describe_array rx e et d lo hi a p).
  Proof.
    intros Hd. unfold describe_array. destruct a; auto.
    - destruct (negb _); auto. destruct (size_sub _ _ _ _); auto.
    - destruct (size_sub _ _ _ _); auto. apply array_tuple_loop_ok; auto.
  Qed.

  Lemma describe_hash_ok e dk dv lo hi a p : total dk -> total dv -> okr (describe_hash rx e dk dv lo hi a p).
  Proof.
    intros Hk Hv. unfold describe_hash. destruct a; auto.
    - destruct (negb _); auto. destruct (size_sub _ _ _ _); auto.
    - destruct (size_sub _ _ _ _); auto. apply hash_struct_loop_ok; auto.
  Qed.

  Lemma describe_struct_ok e ms es a p : Forall selem_total es -> okr (describe_struct rx e ms es a p).
  Proof.
    intros H. unfold describe_struct. destruct a; auto.
    - destruct (negb _); auto. destruct (size_sub _ _ _ _); auto.
    - apply struct_struct_loop_ok; auto.
  Qed.

  Lemma describe_tuple_ok e ds lo hi a p : Forall total ds -> okr (describe_tuple rx teq e ds lo hi a p).
  Proof.
    intros H. unfold describe_tuple. destruct a; auto.
    - destruct (_ || _); auto. destruct (is_any a); auto. destruct (negb _); auto.
      apply tuple_array_loop_ok; auto.
    - destruct (_ || _); auto. destruct (negb _); auto.
      destruct (Nat.eqb (length ds) 0) eqn:E; auto.
      apply tuple_tuple_loop_ok; auto. intros ->. discriminate.
  Qed.

  Lemma describe_optional_ok d a p : total d -> okr (describe_optional d a p).
  Proof. intros Hd. unfold describe_optional. destruct a; auto; apply Hd. Qed.

  Lemma describe_any_ok e a p : okr (describe_any rx e a p).
  Proof. unfold describe_any. destruct (Lattice.asg rx true e a); auto. Qed.
  Lemma describe_pattern_ok e a p : okr (describe_pattern rx e a p).
  Proof. unfold describe_pattern. destruct (Lattice.asg rx true e a); auto. Qed.

  Lemma idesc_total : forall e oo, total (idesc e oo).
  Proof.
    intro e. induction e using ty_ind_ak. intros oo a p.
    destruct e; cbn [Describe.idesc]; apply guarded_ok;
      try apply describe_any_ok; try apply describe_pattern_ok.
    - (* Array *) apply describe_array_ok. apply H.
    - (* Hash *) destruct H as [Hk Hv]. apply describe_hash_ok; [apply Hk|apply Hv].
    - (* Tuple *) apply describe_tuple_ok. apply Forall_map. eapply Forall_impl; [|exact H]. intros t Ht. apply Ht.
    - (* Struct *) apply describe_struct_ok. apply Forall_map. eapply Forall_impl; [|exact H].
      intros [n [k v]] [Hk Hv]. cbn in Hk, Hv. split; cbn.
      + destruct k; apply Hk.
      + apply Hv.
    - (* Variant *) apply describe_variant_ok. apply Forall_map. eapply Forall_impl; [|exact H]. intros t Ht. apply Ht.
    - (* Optional *) apply describe_optional_ok. apply H.
  Qed.

  Theorem describe_total e a p : exists ms, describe rx teq e a p = Ok ms.
  Proof. apply idesc_total. Qed.

  Theorem describe_empty_iff e a p : describe rx teq e a p = Ok [] <-> asg e a = true.
  Proof. apply idesc_empty_iff. Qed.

  (* ---- every mismatch lies below the path that was given ---- *)

  Definition below (p : path) (m : mismatch) : Prop := exists r, snd m = p ++ r.
  Definition all_below (p : path) (r : res (list mismatch)) : Prop :=
    forall ms, r = Ok ms -> Forall (below p) ms.
  Definition keeps (d : dfun) : Prop := forall a p, all_below p (d a p).

  Lemma below_here c p : below p (c, p).
  Proof. exists []. cbn. now rewrite app_nil_r. Qed.
  Lemma below_pw p k key m : below (pw p k key) m -> below p m.
  Proof. intros [r Hr]. exists ((k, key) :: r). rewrite Hr. unfold pw. now rewrite <- app_assoc. Qed.
  Lemma all_below_pw p k key r : all_below (pw p k key) r -> all_below p r.
  Proof. intros H ms E. eapply Forall_impl; [|apply (H ms E)]. intros m. apply below_pw. Qed.
  Lemma all_below_Ok_nil p : all_below p (Ok []).
  Proof. intros ms E. inversion E. constructor. Qed.
  Lemma all_below_Ok_one p c : all_below p (Ok [(c, p)]).
  Proof. intros ms E. inversion E. constructor; [apply below_here|constructor]. Qed.
  Hint Resolve all_below_Ok_nil all_below_Ok_one : core.

  Lemma all_below_app p x y : all_below p x -> all_below p y -> all_below p (app_res x y).
  Proof.
    intros Hx Hy ms E. destruct x as [a|]; [|discriminate]. destruct y as [b|]; [|discriminate].
    cbn in E. inversion E; subst. apply Forall_app; split; [apply Hx|apply Hy]; reflexivity.
  Qed.

  Lemma all_below_guarded e a p r : all_below p r -> all_below p (guarded e a p r).
  Proof.
    intros H. unfold Describe.guarded. destruct (Lattice.asg rx true e a); auto.
    destruct r as [[|m ms]|s]; auto.
  Qed.

  Lemma remove_nth_app {A} (p r : list A) : remove_nth (length p) (p ++ r) = p ++ remove_nth 0 r.
  Proof. induction p as [|x p IH]; cbn; [reflexivity|]. now rewrite IH. Qed.

  Lemma below_chop p m : below p m -> below p (chop_path m (length p)).
  Proof.
    intros [r Hr]. unfold chop_path. destruct (length (snd m) <=? length p)%nat; [exists r; exact Hr|].
    cbn. rewrite Hr, remove_nth_app. eexists; reflexivity.
  Qed.

  Lemma merge_class_try_in c ds m : merge_class_try c ds = Ok (Some m) -> In m ds.
  Proof.
    unfold merge_class_try. destruct (Nat.eqb _ _); [|discriminate].
    destruct (filter (fun d => mclass_eqb (fst d) c) ds) as [|prev rest] eqn:F; [discriminate|].
    destruct (forallb _ rest); [|discriminate]. intros E. inversion E; subst.
    assert (Hin : In m (filter (fun d => mclass_eqb (fst d) c) ds)) by (rewrite F; left; reflexivity).
    apply filter_In in Hin. tauto.
  Qed.

  Lemma merge_loop_below P cs ds ds' : Forall P ds -> merge_loop cs ds = Ok ds' -> Forall P ds'.
  Proof.
    intros H. induction cs as [|c cs IH]; cbn; intros E.
    - inversion E; subst; exact H.
    - destruct (merge_class_try c ds) as [[m|]|s] eqn:M; [| |discriminate].
      + inversion E; subst. constructor; [|constructor].
        rewrite Forall_forall in H. apply H. eapply merge_class_try_in; eauto.
      + apply IH; exact E.
  Qed.

  Lemma merge_descriptions_below p sm ds :
    Forall (below p) ds -> all_below p (merge_descriptions (length p) sm ds).
  Proof.
    intros H ms E. unfold merge_descriptions in E. destruct ds as [|d ds]; [inversion E; constructor|].
    destruct (merge_loop [sm; CMissingRequiredBlock; CUnexpectedBlock; CType] (d :: ds)) as [ds'|s] eqn:M; [|discriminate].
    pose proof (merge_loop_below _ _ _ _ H M) as H'. cbn in E. unfold unique in E.
    destruct ds' as [|x [|y l]]; inversion E; subst; auto.
    constructor; [|constructor]. apply below_chop. now inversion H'.
  Qed.

  Lemma array_tuple_loop_below et d p ats ax : keeps d -> all_below p (array_tuple_loop rx et d p ats ax).
  Proof.
    intros Hd. revert ax. induction ats as [|t r IH]; intros ax; cbn [array_tuple_loop]; auto.
    apply all_below_app; [|apply IH]. destruct (negb _); auto. eapply all_below_pw. apply Hd.
  Qed.

  Lemma hash_struct_loop_below dk dv p ms : keeps dk -> keeps dv -> all_below p (hash_struct_loop dk dv p ms).
  Proof.
    intros Hk Hv. induction ms as [|[n [k v]] r IH]; cbn [hash_struct_loop]; auto.
    apply all_below_app; [eapply all_below_pw; apply Hk|].
    apply all_below_app; [eapply all_below_pw; apply Hv|apply IH].
  Qed.

  Definition selem_keeps (e : selem) : Prop := keeps (snd (fst e)) /\ keeps (snd e).

  Lemma struct_struct_loop_below p es h2 : Forall selem_keeps es -> all_below p (struct_struct_loop p es h2).
  Proof.
    intros H. revert h2. induction H as [|[[[n opt] dk] dv] r [Hk Hv] Hr IH]; intros h2; cbn [struct_struct_loop].
    - intros ms E. inversion E; subst. apply Forall_forall. intros m Hin. apply in_map_iff in Hin.
      destruct Hin as (x & <- & _). apply below_here.
    - cbn in Hk, Hv. destruct (find_member n h2) as [[k2 v2]|].
      + apply all_below_app; [eapply all_below_pw; apply Hk|].
        apply all_below_app; [eapply all_below_pw; apply Hv|apply IH].
      + apply all_below_app; [|apply IH]. destruct opt; auto.
  Qed.

  Lemma tuple_array_loop_below ds p ea ex : Forall keeps ds -> all_below p (tuple_array_loop ds p ea ex).
  Proof.
    intros H. revert ex. induction H as [|d r Hd Hr IH]; intros ex; cbn [tuple_array_loop]; auto.
    apply all_below_app; [eapply all_below_pw; apply Hd|apply IH].
  Qed.

  Lemma tuple_tuple_loop_below ds p ats ax : Forall keeps ds -> all_below p (tuple_tuple_loop ds p ats ax).
  Proof.
    intros H. revert ax. induction ats as [|t r IH]; intros ax; cbn [tuple_tuple_loop]; auto.
    apply all_below_app; [|apply IH].
    match goal with |- context [if ?c then _ else _] => destruct c end; auto.
    destruct (nth_error ds (length ds - 1)) as [d|] eqn:E; [|intros ms E'; discriminate].
    eapply all_below_pw. rewrite Forall_forall in H. apply (H d). eapply nth_error_In; eauto.
  Qed.

  Lemma variant_loop_below a p ts ex vs vs' :
    Forall (fun td => keeps (snd td)) ts -> Forall (below p) vs ->
    variant_loop rx a p ts ex vs = Ok (Some vs') -> Forall (below p) vs'.
  Proof.
    intros H. revert ex vs. induction H as [|[vt d] r Hd Hr IH]; intros ex vs Hvs; cbn [variant_loop].
    - intros E; inversion E; subst; exact Hvs.
    - destruct (Lattice.asg rx true vt a); [discriminate|].
      destruct (d a (pw p PVariant (kidx ex))) as [dd|s] eqn:D; [|discriminate].
      apply IH. apply Forall_app; split; [exact Hvs|].
      cbn in Hd. eapply Forall_impl; [|apply (Hd a _ dd D)]. intros m. apply below_pw.
  Qed.

  Lemma desc_flat_keeps e : keeps (desc_flat rx e).
  Proof.
    intros a p. unfold desc_flat. apply all_below_guarded. unfold describe_any.
    destruct (Lattice.asg rx true e a); auto.
  Qed.

  Lemma describe_variant_below oo ts a p :
    Forall (fun td => keeps (snd td)) ts -> all_below p (describe_variant rx oo ts a p).
  Proof.
    intros H. unfold describe_variant.
    assert (H' : Forall (fun td => keeps (snd td)) (if oo then ts ++ [(TUndef, desc_flat rx TUndef)] else ts)).
    { destruct oo; auto. apply Forall_app; split; auto. constructor; [apply desc_flat_keeps|constructor]. }
    destruct (variant_loop rx a p _ 0 []) as [[vs|]|s] eqn:V; auto; [|intros ms E; discriminate].
    apply merge_descriptions_below. eapply variant_loop_below; eauto.
  Qed.

  Lemma describe_array_below e et d lo hi a p : keeps d -> all_below p (describe_array rx e et d lo hi a p).
  Proof.
    intros Hd. unfold describe_array. destruct a; auto.
    - destruct (negb _); auto. destruct (size_sub _ _ _ _); auto.
    - destruct (size_sub _ _ _ _); auto. apply array_tuple_loop_below; auto.
  Qed.

  Lemma describe_hash_below e dk dv lo hi a p : keeps dk -> keeps dv -> all_below p (describe_hash rx e dk dv lo hi a p).
  Proof.
    intros Hk Hv. unfold describe_hash. destruct a; auto.
    - destruct (negb _); auto. destruct (size_sub _ _ _ _); auto.
    - destruct (size_sub _ _ _ _); auto. apply hash_struct_loop_below; auto.
  Qed.

  Lemma describe_struct_below e ms es a p : Forall selem_keeps es -> all_below p (describe_struct rx e ms es a p).
  Proof.
    intros H. unfold describe_struct. destruct a; auto.
    - destruct (negb _); auto. destruct (size_sub _ _ _ _); auto.
    - apply struct_struct_loop_below; auto.
  Qed.

  Lemma describe_tuple_below e ds lo hi a p : Forall keeps ds -> all_below p (describe_tuple rx teq e ds lo hi a p).
  Proof.
    intros H. unfold describe_tuple. destruct a; auto.
    - destruct (_ || _); auto. destruct (is_any a); auto. destruct (negb _); auto.
      apply tuple_array_loop_below; auto.
    - destruct (_ || _); auto. destruct (negb _); auto. destruct (Nat.eqb (length ds) 0); auto.
      apply tuple_tuple_loop_below; auto.
  Qed.

  Lemma describe_optional_below d a p : keeps d -> all_below p (describe_optional d a p).
  Proof. intros Hd. unfold describe_optional. destruct a; auto; apply Hd. Qed.
  Lemma describe_any_below e a p : all_below p (describe_any rx e a p).
  Proof. unfold describe_any. destruct (Lattice.asg rx true e a); auto. Qed.
  Lemma describe_pattern_below e a p : all_below p (describe_pattern rx e a p).
  Proof. unfold describe_pattern. destruct (Lattice.asg rx true e a); auto. Qed.

  Lemma idesc_keeps : forall e oo, keeps (idesc e oo).
  Proof.
    intro e. induction e using ty_ind_ak. intros oo a p.
    destruct e; cbn [Describe.idesc]; apply all_below_guarded;
      try apply describe_any_below; try apply describe_pattern_below.
    - apply describe_array_below. apply H.
    - destruct H as [Hk Hv]. apply describe_hash_below; [apply Hk|apply Hv].
    - apply describe_tuple_below. apply Forall_map. eapply Forall_impl; [|exact H]. intros t Ht. apply Ht.
    - apply describe_struct_below. apply Forall_map. eapply Forall_impl; [|exact H].
      intros [n [k v]] [Hk Hv]. cbn in Hk, Hv. split; cbn.
      + destruct k; apply Hk.
      + apply Hv.
    - apply describe_variant_below. apply Forall_map. eapply Forall_impl; [|exact H]. intros t Ht. apply Ht.
    - apply describe_optional_below. apply H.
  Qed.

  Theorem describe_below e a p ms : describe rx teq e a p = Ok ms -> Forall (below p) ms.
  Proof. apply idesc_keeps. Qed.

  (* the subject (the first path element that was given) heads the path of every mismatch *)
  Theorem describe_names_subject e a subj p ms :
    describe rx teq e a (subj :: p) = Ok ms -> Forall (fun m => hd_error (snd m) = Some subj) ms.
  Proof.
    intros E. eapply Forall_impl; [|apply (describe_below _ _ _ _ E)].
    intros [c q] [r Hr]. cbn in Hr |- *. subst q. reflexivity.
  Qed.

  (* ---- the mismatch classes of the fragment ---- *)

  Definition value_class (c : mclass) : bool :=
    match c with CType | CPattern | CSize | CCount | CMissingKey | CExtraneousKey => true | _ => false end.

  (* ---- assertions ---- *)

  Theorem assert_type_total name e a : exists o, assert_type rx teq name e a = Ok o.
  Proof.
    unfold assert_type, type_mismatch_error, describe_mismatch. destruct (Lattice.asg rx true e a); [eauto|].
    destruct (describe_total e a (subject_path name)) as [ms ->]. cbn. eauto.
  Qed.

  Theorem assert_type_raises_iff name e a :
    (assert_type rx teq name e a = Ok Returns <-> asg e a = true) /\
    ((exists m ms, assert_type rx teq name e a = Ok (Raises TypeMismatchIssue (m :: ms))) <-> asg e a = false).
  Proof.
    unfold assert_type, type_mismatch_error, describe_mismatch.
    destruct (Lattice.asg rx true e a) eqn:A.
    - split; [tauto|]. split; [intros (m & ms & E); discriminate|discriminate].
    - destruct (describe_total e a (subject_path name)) as [ms E]. rewrite E. cbn.
      split; [split; discriminate|]. split; [reflexivity|]. intros _.
      destruct ms as [|m ms]; [|eauto]. apply describe_empty_iff in E. congruence.
  Qed.

  Theorem assert_instance_total name e v dt : exists o, assert_instance rx teq name e v dt = Ok o.
  Proof.
    unfold assert_instance, mismatch_error, describe_mismatch. destruct (inst rx true e v); [eauto|].
    destruct (describe_total e dt (subject_path name)) as [ms ->]. cbn. eauto.
  Qed.

  Theorem assert_instance_raises_iff name e v dt :
    (assert_instance rx teq name e v dt = Ok Returns <-> inst rx true e v = true) /\
    ((exists m ms, assert_instance rx teq name e v dt = Ok (Raises TypeMismatchIssue (m :: ms))) <-> inst rx true e v = false).
  Proof.
    unfold assert_instance, mismatch_error, describe_mismatch.
    destruct (inst rx true e v) eqn:I.
    - split; [tauto|]. split; [intros (m & ms & E); discriminate|discriminate].
    - destruct (describe_total e dt (subject_path name)) as [ms E]. rewrite E. cbn.
      split; [split; discriminate|]. split; [reflexivity|]. intros _.
      destruct ms as [|m ms]; eauto.
  Qed.

  (* what an assertion raises names the subject *)
  Theorem assert_instance_names_subject name e v dt c ms :
    assert_instance rx teq name e v dt = Ok (Raises c ms) ->
    Forall (fun m => hd_error (snd m) = Some (PSubject, KName (fn_prefix ++ name ++ [58%N]))) ms.
  Proof.
    unfold assert_instance, mismatch_error, describe_mismatch, subject_path.
    destruct (inst rx true e v); [discriminate|].
    destruct (describe rx teq e dt _) as [ms'|s] eqn:E; [|discriminate]. cbn. intros E'. inversion E'; subst.
    destruct ms' as [|m ms'].
    - constructor; [reflexivity|constructor].
    - eapply describe_names_subject; eauto.
  Qed.

  Theorem assert_type_names_subject name e a c ms :
    assert_type rx teq name e a = Ok (Raises c ms) ->
    Forall (fun m => hd_error (snd m) = Some (PSubject, KName (fn_prefix ++ name ++ [58%N]))) ms.
  Proof.
    unfold assert_type, type_mismatch_error, describe_mismatch, subject_path.
    destruct (Lattice.asg rx true e a); [discriminate|].
    destruct (describe rx teq e a _) as [ms'|s] eqn:E; [|discriminate]. cbn. intros E'. inversion E'; subst.
    eapply describe_names_subject; eauto.
  Qed.

  (* when the inferred type is precise for the expected type (C04: detailed_sound/complete), the detail of
     AssertInstance is the description of the two types itself, not the fallback *)
  Theorem assert_instance_detail name e v dt :
    inst rx true e v = false -> asg e dt = false ->
    exists m ms, describe_mismatch rx teq name e dt = Ok (m :: ms) /\
                 assert_instance rx teq name e v dt = Ok (Raises TypeMismatchIssue (m :: ms)).
  Proof.
    intros I A. unfold assert_instance, mismatch_error, describe_mismatch. rewrite I.
    destruct (describe_total e dt (subject_path name)) as [ms E]. rewrite E. cbn.
    destruct ms as [|m ms]; [apply describe_empty_iff in E; congruence|eauto].
  Qed.
End Proofs.
