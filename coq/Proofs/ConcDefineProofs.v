(* C13 - the definers of a name agree (Model/Conc.v): every Define of name n in loader l that is accepted is handed the
   one value that is bound to n in l, and its own value equals that value (identical, or equal by px.Equality) -
   whatever entry without value (cached miss, instantiation mark) the name held before and however the calls overlap.
   basicLoader.SetEntry is one critical section: set_entry is one step.  Seeded change C13-m6 (look-up and update in
   two critical sections) makes two different definitions of a name that holds a cached miss both accepted. *)
From Coq Require Import NArith Arith Bool List Lia.
From PcoreV Require Import Model.Conc Proofs.ConcProofs.
Import ListNotations.

Lemma set_entry_defined sh d n v sh' r :
  set_entry sh d n (Some v) = (sh', Some (Some r)) -> ents sh' d n = Some (Some r) /\ veq r v = true.
Proof.
  unfold set_entry. destruct (ents sh d n) as [[ov|]|] eqn:He; intros H.
  - destruct (veq ov v) eqn:Hv; inversion H; subst. auto.
  - inversion H; subst. cbn [set_ents ents]. rewrite upd2_eq. split; [reflexivity|apply veq_refl].
  - inversion H; subst. cbn [set_ents ents]. rewrite upd2_eq. split; [reflexivity|apply veq_refl].
Qed.

Lemma found_not_defined r x : (exists y, r = RFound y) -> r = RDefined x -> False.
Proof. intros [y ->] H. discriminate. Qed.

(* the segments after the first one belong to loads: none of them reports a definition *)
Lemma seg_no_defined cfg sh t p sh' r t' o x :
  seg cfg sh t p = Some (sh', r) -> In (EvRes t' o (RDefined x)) (snd r) -> False.
Proof.
  intros Hs Hin. destruct p; cbn [seg] in Hs.
  - discriminate.
  - inv_pair Hs. apply after_read_evs in Hin. destruct Hin; discriminate.
  - inv_pair Hs. cbn in Hin. destruct Hin as [H|[]]; discriminate.
  - destruct (file_of cfg d n); [destruct (lockmap sh d n)|]; inv_pair Hs; destruct Hin.
  - inv_pair Hs. first [apply next_level_evs in Hin; destruct Hin; discriminate | destruct rest; cbn in Hin; [destruct Hin as [H|[]]; discriminate | destruct Hin]].
  - destruct (held sh lk); inv_pair Hs; destruct Hin.
  - destruct (get sh d n); inv_pair Hs; destruct Hin.
  - inv_pair Hs. destruct Hin.
  - destruct (file_of cfg d n) as [fv|]; [|inv_pair Hs; cbn in Hin; destruct Hin as [H|[]]; discriminate].
    destruct (file_bad cfg d n); [inv_pair Hs; cbn in Hin; destruct Hin as [H|[]]; discriminate|].
    destruct (set_entry sh d n (Some fv)) as [sh1 [r1|]]; inv_pair Hs; cbn in Hin; destruct Hin as [H|[]]; discriminate.
  - destruct r0; inv_pair Hs.
    + apply next_level_evs in Hin. destruct Hin; discriminate.
    + cbn in Hin. destruct Hin as [H|[]]. destruct (file_bad cfg d n); discriminate.
Qed.

Lemma start_defined cfg sh t o sh' r t' l n v x :
  start cfg sh t o = (sh', r) -> In (EvRes t' (ODefine l n v) (RDefined x)) (snd r) ->
  ents sh' l n = Some (Some x) /\ veq x v = true.
Proof.
  intros Hs Hin. destruct o as [l0 n0|l0 n0 v0|l0 n0]; cbn in Hs.
  - destruct (chain cfg l0); inv_pair Hs.
    + cbn in Hin. destruct Hin as [H|[]]; discriminate.
    + apply after_read_evs in Hin. destruct Hin; discriminate.
  - destruct (set_entry sh l0 n0 (Some v0)) as [sh1 [[r1|]|]] eqn:He; inv_pair Hs; cbn in Hin;
      destruct Hin as [H|[]]; try discriminate.
    inversion H; subst. eapply set_entry_defined; eauto.
  - inv_pair Hs. cbn in Hin. destruct Hin as [H|[]]; discriminate.
Qed.

Definition dinv (st : state) : Prop :=
  forall t l n v x, In (EvRes t (ODefine l n v) (RDefined x)) (st_log st) ->
    ents (st_sh st) l n = Some (Some x) /\ veq x v = true.

Lemma dinv_init p : dinv (init p).
Proof. intros t l n v x []. Qed.

Lemma dinv_step cfg st t : dinv st -> dinv (step cfg st t).
Proof.
  intros Hi. destruct (step_cases cfg st t) as [He | (sh' & p' & todo' & evs & Hm & He)]; rewrite He; [assumption|].
  intros t0 l n v x Hin. cbn [st_log st_sh] in *. apply in_app_or in Hin. destruct Hin as [Hin|Hin].
  - destruct (Hi _ _ _ _ _ Hin) as [Hb Hv]. split; [|assumption].
    destruct Hm as [(_ & o & _ & Hs) | (_ & _ & Hs)].
    + eapply start_ents_keep; eauto.
    + eapply seg_ents_keep; eauto.
  - destruct Hm as [(_ & o & _ & Hs) | (_ & _ & Hs)].
    + eapply (start_defined cfg (st_sh st) t o sh' (p', evs)); eauto.
    + exfalso. eapply (seg_no_defined cfg (st_sh st) t _ sh' (p', evs)); eauto.
Qed.

Lemma dinv_exec cfg p s : dinv (exec cfg p s).
Proof. apply exec_inv; [apply dinv_init | intros; now apply dinv_step]. Qed.

(* every accepted definition of (l, n) was handed the value that is bound, and its own value equals it *)
Lemma definers_agree cfg p s l n t1 t2 v1 v2 x1 x2 :
  In (EvRes t1 (ODefine l n v1) (RDefined x1)) (trace cfg p s) ->
  In (EvRes t2 (ODefine l n v2) (RDefined x2)) (trace cfg p s) ->
  x1 = x2 /\ veq x1 v1 = true /\ veq x1 v2 = true.
Proof.
  intros H1 H2. unfold trace in *.
  destruct (dinv_exec cfg p s _ _ _ _ _ H1) as [Hb1 Hv1].
  destruct (dinv_exec cfg p s _ _ _ _ _ H2) as [Hb2 Hv2].
  assert (x1 = x2) by congruence. subst. auto.
Qed.

(* ... and it stays bound: later loads through l see it or a value of an ancestor, never another value of l *)
Lemma defined_stays_bound cfg p s s' t l n v x :
  In (EvRes t (ODefine l n v) (RDefined x)) (trace cfg p s) ->
  ents (st_sh (exec cfg p (s ++ s'))) l n = Some (Some x).
Proof.
  intros H. destruct (dinv_exec cfg p s _ _ _ _ _ H) as [Hb _].
  unfold exec. rewrite fold_left_app. now apply steps_binding_stable.
Qed.
