(* LoaderDeclProofs.v — the declaration route (px.RegisterResolvableType / px.NewObjectType / ... bound by the
   resolveResolvables of the next pcore.Do / pcore.RootContext; Model/LoaderAdd.v `compile_decl`, `XDeclare`):
     - it is a definition route like the others: for types that are neither object types nor type sets the calls are
       those of px.AddTypes, for a single one the call is SetEntry itself (same state, same verdict);
     - write-once: a declaration of a name that the defining loader has bound is a no-op when the value is equal and is
       rejected with AttemptToRedefine[Type] - nothing changes, the rest of the declarations is not bound - when it is
       not (the seeded change C12-m7, `if !l.HasEntry(tn)` in front of the SetEntry, falsifies this);
     - a failed lookup followed by a declaration makes the name resolvable.
   The refinement, no-fault and context theorems for histories with XDeclare are those of LoaderAddProofs.v /
   LoaderCtxProofs.v (the case is part of `xstep_sim`, `cstep_fixed`). *)
From Coq Require Import Arith NArith Bool List Lia.
From PcoreV Require Import Model.Base Model.Loader Model.LoaderSpec Model.LoaderAdd Proofs.LoaderNames Proofs.LoaderProofs
  Proofs.LoaderCorollaries Proofs.LoaderAddProofs.
Import ListNotations.

Definition is_plain (t : mtype) : bool := match t with MPlain _ _ => true | _ => false end.

Lemma phase1_all_plain auth : forall ts, forallb is_plain ts = true -> phase1_all auth ts = phase1 auth ts.
Proof.
  induction ts as [|t ts IH]; intros H; [reflexivity|].
  cbn [forallb] in H. apply andb_prop in H. destruct H as [Ht H].
  destruct t as [n v|n v al ct|n v ms|n v]; try discriminate Ht.
  cbn [phase1_all phase1 mt_name mt_val]. rewrite (IH H). reflexivity.
Qed.

Lemma phase2_plain auth : forall ts next, forallb is_plain ts = true -> phase2 auth next ts = ([], []).
Proof.
  induction ts as [|t ts IH]; intros next H; [reflexivity|].
  cbn [forallb] in H. apply andb_prop in H. destruct H as [Ht H].
  destruct t as [n v|n v al ct|n v ms|n v]; try discriminate Ht.
  cbn [phase2]. apply IH. exact H.
Qed.

Lemma phase3_plain auth : forall ts, forallb is_plain ts = true -> phase3 auth ts = [].
Proof.
  induction ts as [|t ts IH]; intros H; [reflexivity|].
  cbn [forallb] in H. apply andb_prop in H. destruct H as [Ht H].
  destruct t as [n v|n v al ct|n v ms|n v]; try discriminate Ht.
  cbn [phase3]. apply IH. exact H.
Qed.

(* types that are neither object types nor type sets: the declaration route makes the calls of px.AddTypes *)
Theorem compile_decl_plain auth ts : forallb is_plain ts = true -> compile_decl auth ts = compile auth ts.
Proof.
  intros H. unfold compile_decl, compile.
  rewrite (phase1_all_plain auth ts H), (phase2_plain auth ts 0 H), (phase3_plain auth ts H). reflexivity.
Qed.

Theorem declare_is_addtypes cfg st l ts :
  forallb is_plain ts = true -> xstep cfg st (XDeclare l ts) = xstep cfg st (XAddTypes l ts).
Proof. intros H. cbn [xstep]. rewrite (compile_decl_plain _ ts H). reflexivity. Qed.

(* one declared type: the call is SetEntry *)
Theorem declare_is_define cfg st l name v :
  l < length st ->
  xstep cfg st (XDeclare l [MPlain name v]) =
  (fst (step cfg st (ODefine l (mkTn (cfg_auth cfg) ns_type name) v)),
   XA (match snd (step cfg st (ODefine l (mkTn (cfg_auth cfg) ns_type name) v)) with RDefined _ => AOk | o => aout_of o end)).
Proof.
  intros Hl. cbn [xstep]. apply Nat.ltb_lt in Hl. rewrite Hl.
  cbn [compile_decl phase1_all phase2 fst snd app mt_name mt_val exec exec_instr exec_act ref_idx]. unfold exec_set, tn_of. cbn [ref_idx].
  destruct (step cfg st (ODefine l (mkTn (cfg_auth cfg) ns_type name) v)) as [st1 o]. cbn [fst snd].
  destruct o as [| | | |[| |]| | |[| |]| |]; reflexivity.
Qed.

Lemma xproject_inv_a r a : xproject r = XA a -> r = XA a.
Proof. destruct r as [o|b]; cbn [xproject]; [discriminate|auto]. Qed.

(* write-once on the declaration route: the first declared type names an entry the defining loader has bound *)
Theorem declare_redefine cfg xs l t ts old :
  cfg_wf cfg = true -> forallb (xop_wf cfg) (xs ++ [XDeclare l (t :: ts)]) = true ->
  l < length (fst (xrun cfg xs)) ->
  spec_own_binding (abs (fst (xrun cfg xs))) l (norm (mkTn (cfg_auth cfg) ns_type (mt_name t))) = Some old ->
  val_same old (mt_val t) || val_equals old (mt_val t) = false ->
  abs (fst (xrun cfg (xs ++ [XDeclare l (t :: ts)]))) = abs (fst (xrun cfg xs)) /\
  xresult_after cfg xs (XDeclare l (t :: ts)) =
    XA (AErr (if vty old && vty (mt_val t) then ERedefineType else ERedefine)).
Proof.
  intros Hc Hw Hl Hb Hne. apply forallb_snoc in Hw. destruct Hw as [Hw Ho].
  destruct (xresult_after_sim cfg xs _ Hc Hw Ho) as [Hi Hs].
  cbn [spec_xstep] in Hs. rewrite abs_length in Hs.
  destruct (Nat.ltb_spec l (length (fst (xrun cfg xs)))) as [_|]; [|lia].
  cbn [compile_decl phase1_all app exec exec_instr exec_act exec_set ref_idx spec_step] in Hs. unfold exec_set, tn_of in Hs. cbn [ref_idx spec_step] in Hs.
  rewrite abs_length in Hs.
  destruct (Nat.ltb_spec l (length (fst (xrun cfg xs)))) as [_|]; [|lia].
  unfold spec_define in Hs. unfold spec_own_binding in Hb.
  destruct (def_target (S l) (abs (fst (xrun cfg xs))) l) as [tg|]; [|discriminate].
  rewrite Hb, Hne in Hs.
  destruct (vty old && vty (mt_val t)); cbn [aout_of] in Hs; injection Hs as Ha Hr;
    (split; [symmetry; exact Ha|apply xproject_inv_a; symmetry; exact Hr]).
Qed.

(* ... with an equal value: a no-op *)
Theorem declare_equal cfg xs l name v old :
  cfg_wf cfg = true -> forallb (xop_wf cfg) (xs ++ [XDeclare l [MPlain name v]]) = true ->
  l < length (fst (xrun cfg xs)) ->
  spec_own_binding (abs (fst (xrun cfg xs))) l (norm (mkTn (cfg_auth cfg) ns_type name)) = Some old ->
  val_same old v || val_equals old v = true ->
  abs (fst (xrun cfg (xs ++ [XDeclare l [MPlain name v]]))) = abs (fst (xrun cfg xs)) /\
  xresult_after cfg xs (XDeclare l [MPlain name v]) = XA AOk.
Proof.
  intros Hc Hw Hl Hb He. apply forallb_snoc in Hw. destruct Hw as [Hw Ho].
  destruct (xresult_after_sim cfg xs _ Hc Hw Ho) as [Hi Hs].
  cbn [spec_xstep] in Hs. rewrite abs_length in Hs.
  destruct (Nat.ltb_spec l (length (fst (xrun cfg xs)))) as [_|]; [|lia].
  cbn [compile_decl phase1_all phase2 fst snd mt_name mt_val app exec exec_instr exec_act exec_set ref_idx spec_step] in Hs.
  unfold exec_set, tn_of in Hs. cbn [ref_idx spec_step] in Hs. rewrite abs_length in Hs.
  destruct (Nat.ltb_spec l (length (fst (xrun cfg xs)))) as [_|]; [|lia].
  unfold spec_define in Hs. unfold spec_own_binding in Hb.
  destruct (def_target (S l) (abs (fst (xrun cfg xs))) l) as [tg|]; [|discriminate].
  rewrite Hb, He in Hs. injection Hs as Ha Hr.
  split; [symmetry; exact Ha|apply xproject_inv_a; symmetry; exact Hr].
Qed.

(* the entry is not bound yet (never asked for, or a lookup has failed and left a cached miss): the declaration binds it *)
Theorem declare_fresh cfg xs l name v tg :
  cfg_wf cfg = true -> forallb (xop_wf cfg) (xs ++ [XDeclare l [MPlain name v]]) = true ->
  l < length (fst (xrun cfg xs)) ->
  def_target (S l) (abs (fst (xrun cfg xs))) l = Some tg ->
  assoc (map_key (norm (mkTn (cfg_auth cfg) ns_type name))) (own_binds (abs (fst (xrun cfg xs))) tg) = None ->
  xresult_after cfg xs (XDeclare l [MPlain name v]) = XA AOk /\
  abs (fst (xrun cfg (xs ++ [XDeclare l [MPlain name v]]))) =
    set_binds (abs (fst (xrun cfg xs))) tg
      (own_binds (abs (fst (xrun cfg xs))) tg ++ [(map_key (norm (mkTn (cfg_auth cfg) ns_type name)), v)]).
Proof.
  intros Hc Hw Hl Ht Hb. apply forallb_snoc in Hw. destruct Hw as [Hw Ho].
  destruct (xresult_after_sim cfg xs _ Hc Hw Ho) as [Hi Hs].
  cbn [spec_xstep] in Hs. rewrite abs_length in Hs.
  destruct (Nat.ltb_spec l (length (fst (xrun cfg xs)))) as [_|]; [|lia].
  cbn [compile_decl phase1_all phase2 fst snd mt_name mt_val app exec exec_instr exec_act exec_set ref_idx spec_step] in Hs.
  unfold exec_set, tn_of in Hs. cbn [ref_idx spec_step] in Hs. rewrite abs_length in Hs.
  destruct (Nat.ltb_spec l (length (fst (xrun cfg xs)))) as [_|]; [|lia].
  unfold spec_define in Hs. rewrite Ht, Hb in Hs. injection Hs as Ha Hr.
  split; [apply xproject_inv_a; symmetry; exact Hr|symmetry; exact Ha].
Qed.
