(* LatticeRule.v — the by-specification rule "a Struct accepts a Hash type on key type and size alone"
   (structtype.go, case *HashType) is the only place where the flag `hs` of the model matters, and it can
   fire only when the left operand contains a Struct type and the right operand contains a Hash type.
   So for every other pair the model of the code (hs = true) and the rule-free model (hs = false) agree. *)
From Coq Require Import ZArith NArith Bool List Lia.
From PcoreV Require Import Model.Base Model.Ty Model.Lattice Proofs.LatticeUnfold.
Import ListNotations.
Open Scope Z_scope.

Fixpoint no_struct (t : ty) : bool :=
  match t with
  | TStruct _ => false
  | TArray e _ _ => no_struct e
  | THash k v _ _ => no_struct k && no_struct v
  | TTuple ts _ _ _ => forallb no_struct ts
  | TVariant ts => forallb no_struct ts
  | TOptional t | TNotUndef t | TType t | TSensitive t => no_struct t
  | _ => true
  end.

Fixpoint no_hash (t : ty) : bool :=
  match t with
  | THash _ _ _ _ => false
  | TArray e _ _ => no_hash e
  | TTuple ts _ _ _ => forallb no_hash ts
  | TStruct ms => forallb (fun m => no_hash (fst (snd m)) && no_hash (snd (snd m))) ms
  | TVariant ts => forallb no_hash ts
  | TOptional t | TNotUndef t | TType t | TSensitive t => no_hash t
  | _ => true
  end.

(* the syntactic exclusion of C01: the rule cannot have contributed *)
Definition rule_free (a b : ty) : bool := no_struct a || no_hash b.

Lemma rule_free_l a b : no_struct a = true -> rule_free a b = true.
Proof. unfold rule_free. now intros ->. Qed.
Lemma rule_free_r a b : no_hash b = true -> rule_free a b = true.
Proof. unfold rule_free. intros ->. apply orb_true_r. Qed.

Lemma forallb_ext_in {A} (f g : A -> bool) l : (forall x, In x l -> f x = g x) -> forallb f l = forallb g l.
Proof.
  induction l as [|x l IH]; intros H; [reflexivity|]. cbn. rewrite (H x (or_introl eq_refl)). f_equal.
  apply IH. intros y Hy. apply H. right. assumption.
Qed.
Lemma existsb_ext_in {A} (f g : A -> bool) l : (forall x, In x l -> f x = g x) -> existsb f l = existsb g l.
Proof.
  induction l as [|x l IH]; intros H; [reflexivity|]. cbn. rewrite (H x (or_introl eq_refl)). f_equal.
  apply IH. intros y Hy. apply H. right. assumption.
Qed.

Lemma tpairs_ext (G G' : ty -> ty -> bool) ts : forall os,
  (forall t o, In t ts -> In o os -> G t o = G' t o) -> tpairs G ts os = tpairs G' ts os.
Proof.
  induction ts as [|t ts IH]; intros os H; [reflexivity|].
  destruct os as [|o os]; [destruct ts; reflexivity|].
  destruct ts as [|t' ts].
  - cbn. rewrite (H t o) by (cbn; auto). f_equal. apply forallb_ext_in. intros x Hx. apply H; cbn; auto.
  - destruct os as [|o' os].
    + change (G t o && forallb (fun x => G x o) (t' :: ts) = G' t o && forallb (fun x => G' x o) (t' :: ts)).
      rewrite (H t o) by (cbn; auto). f_equal. apply forallb_ext_in. intros x Hx. apply H; [right; assumption|cbn; auto].
    + change (G t o && tpairs G (t' :: ts) (o' :: os) = G' t o && tpairs G' (t' :: ts) (o' :: os)).
      rewrite (H t o) by (cbn; auto). f_equal. apply IH. intros a b Ha Hb. apply H; right; assumption.
Qed.

Lemma find_member_in' n kv ms : find_member n ms = Some kv -> In (n, kv) ms.
Proof.
  induction ms as [|[n' kv'] ms IH]; cbn; [discriminate|]. destruct (str_eqb_spec n n') as [->|Hne].
  - intros H. injection H as ->. auto.
  - auto.
Qed.

Lemma no_hash_actual_key k : no_hash k = true -> no_hash (actual_key k) = true.
Proof. destruct k; cbn; auto. Qed.

Section Rule.
  Variable rx : str -> str -> bool.
  Notation asgT := (asg rx true).
  Notation asgF := (asg rx false).

  Definition agree (a b : ty) : Prop := rule_free a b = true -> asgT a b = asgF a b.

  (* GuardedIsAssignable's decomposition of the right operand keeps the left operand *)
  Lemma gstep_agree a :
    (forall b, rule_free a b = true -> recv rx true asgT a b = recv rx false asgF a b) ->
    forall b, agree a b.
  Proof.
    intros Hrecv. induction b using ty_ind'; intros Hok; rewrite !asg_unfold; unfold gstep;
      destruct (is_any a); try reflexivity; try (apply Hrecv; exact Hok).
    - (* Variant *) apply forallb_ext_in. intros t Ht. rewrite Forall_forall in H. apply (H t Ht).
      unfold rule_free in *. apply orb_true_iff in Hok. destruct Hok as [->|Hok]; [reflexivity|].
      cbn in Hok. rewrite forallb_forall in Hok. rewrite (Hok t Ht). apply orb_true_r.
    - (* Optional *) destruct (nullable a); [|reflexivity]. apply IHb. exact Hok.
    - (* NotUndef *) rewrite (IHb Hok). destruct (asgF a b); [reflexivity|].
      destruct (nullable b); [apply Hrecv; exact Hok|reflexivity].
  Qed.

  Ltac split_ok H := unfold rule_free in H; cbn [no_struct no_hash] in H.

  Theorem asg_rule_irrelevant : forall a b, rule_free a b = true -> asgT a b = asgF a b.
  Proof.
    induction a using ty_ind'; apply gstep_agree; intros b Hok;
      try (destruct b; reflexivity).
    - (* Array *) destruct b; try reflexivity; cbn [recv]; f_equal; f_equal.
      + apply IHa. split_ok Hok. exact Hok.
      + destruct ts as [|t0 ts].
        * apply IHa. apply rule_free_r. reflexivity.
        * apply forallb_ext_in. intros t Ht. apply IHa. split_ok Hok.
          apply orb_true_iff in Hok. destruct Hok as [Hok|Hok]; [apply rule_free_l; exact Hok|].
          apply rule_free_r. rewrite forallb_forall in Hok. auto.
    - (* Hash *) split_ok Hok. destruct b; try reflexivity; cbn [recv].
      + cbn [no_hash] in Hok. rewrite orb_false_r in Hok. apply andb_true_iff in Hok. destruct Hok as [H1 H2].
        rewrite (IHa1 b1 (rule_free_l _ _ H1)), (IHa2 b2 (rule_free_l _ _ H2)). reflexivity.
      + f_equal. apply forallb_ext_in. intros m Hm.
        assert (Hk : rule_free a1 (actual_key (fst (snd m))) = true /\ rule_free a2 (snd (snd m)) = true).
        { apply orb_true_iff in Hok. destruct Hok as [Hok|Hok].
          - apply andb_true_iff in Hok. destruct Hok. split; apply rule_free_l; assumption.
          - cbn [no_hash] in Hok. rewrite forallb_forall in Hok. specialize (Hok m Hm).
            apply andb_true_iff in Hok. destruct Hok. split; apply rule_free_r; [apply no_hash_actual_key|]; assumption. }
        destruct Hk as [Hk Hv]. rewrite (IHa1 _ Hk), (IHa2 _ Hv). reflexivity.
    - (* Tuple *) split_ok Hok. rewrite Forall_forall in H. destruct b; try reflexivity; cbn [recv]; f_equal.
      + f_equal. apply forallb_ext_in. intros t Ht. apply (H t Ht).
        apply orb_true_iff in Hok. destruct Hok as [Hok|Hok].
        * apply rule_free_l. rewrite forallb_forall in Hok. auto.
        * apply rule_free_r. exact Hok.
      + destruct ts as [|t0 ts]; [reflexivity|]. f_equal. destruct ts0 as [|o0 os].
        * apply forallb_ext_in. intros t Ht. apply (H t Ht). apply rule_free_r. reflexivity.
        * apply tpairs_ext. intros t o Ht Ho. apply (H t Ht).
        apply orb_true_iff in Hok. destruct Hok as [Hok|Hok].
          -- apply rule_free_l. rewrite forallb_forall in Hok. auto.
          -- apply rule_free_r. cbn [no_hash] in Hok. rewrite forallb_forall in Hok. auto.
    - (* Struct *) split_ok Hok. cbn [orb] in Hok. rewrite Forall_forall in H. destruct b; try reflexivity.
      + (* right operand a Hash: excluded *) cbn in Hok. discriminate.
      + cbn [recv]. f_equal. apply forallb_ext_in. intros m Hm.
        destruct (find_member (fst m) ms0) as [[k' v']|] eqn:Ef; [|reflexivity].
        apply find_member_in' in Ef. cbn [no_hash] in Hok. rewrite forallb_forall in Hok. specialize (Hok _ Ef).
        cbn [fst snd] in Hok. apply andb_true_iff in Hok. destruct Hok as [Hk Hv].
        destruct (H m Hm) as [H1 H2]. rewrite (H1 k' (rule_free_r _ _ Hk)), (H2 v' (rule_free_r _ _ Hv)). reflexivity.
    - (* Variant *) rewrite Forall_forall in H. cbn [recv]. apply existsb_ext_in. intros t Ht. apply (H t Ht).
      split_ok Hok. apply orb_true_iff in Hok. destruct Hok as [Hok|Hok].
      + apply rule_free_l. rewrite forallb_forall in Hok. auto.
      + apply rule_free_r. exact Hok.
    - (* Optional *) cbn [recv]. f_equal. apply IHa. exact Hok.
    - (* NotUndef *) cbn [recv]. f_equal. apply IHa. exact Hok.
    - (* Type *) destruct b; try reflexivity. cbn [recv]. apply IHa. exact Hok.
    - (* Sensitive *) destruct b; try reflexivity. cbn [recv]. apply IHa. exact Hok.
  Qed.
End Rule.
