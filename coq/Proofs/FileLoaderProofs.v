(* FileLoaderProofs.v — lemmas about the model of file-based loading (Model/FileLoader.v), property C15.

   Part 1  state primitives, the index, origin_of (which file a lookup of a name instantiates)
   Part 2  the invariant Inv (bound values are backed by files and carry their key; the dependency loader's
           cache likewise; every file is read at most once) and the Hoare-style `spec` of the monadic code
   Part 3  one layer preserves it (Section Layer), hence every layer (LEn / FDn), hence every run
   Part 4  consequences: carries_requested_name, found_implies_file, parsed_at_most_once, bad_file_reports_file *)
From Coq Require Import ZArith NArith Bool List Lia.
From PcoreV Require Import Model.Base Model.FileLoader.
Import ListNotations.
Local Open Scope nat_scope.

(* ------------------------------------------------------------------------------------------------------------ *)
(* Part 1 *)

Lemma NoDup_snoc {A} (l : list A) (x : A) : NoDup l -> ~ In x l -> NoDup (l ++ [x]).
Proof.
  induction l as [|y l IH]; intros Hn Hx; cbn [app].
  - constructor; [intros []|constructor].
  - inversion Hn; subst. constructor.
    + intros Hin. apply in_app_or in Hin. destruct Hin as [Hin|[<-|[]]]; [auto|]. apply Hx; left; reflexivity.
    + apply IH; [assumption|]. intros Hin; apply Hx; right; exact Hin.
Qed.

Lemma mk_eqb_eq a b : mk_eqb a b = true <-> a = b.
Proof.
  destruct a as [i k], b as [j l]; unfold mk_eqb; cbn [fst snd].
  rewrite andb_true_iff, Nat.eqb_eq, str_eqb_eq. split.
  - intros [-> ->]; reflexivity.
  - intros H; inversion H; auto.
Qed.

Lemma mk_eqb_refl a : mk_eqb a a = true.
Proof. apply mk_eqb_eq; reflexivity. Qed.

Lemma tval_eqb_eq a b : tval_eqb a b = true -> a = b.
Proof.
  destruct a as [n m t], b as [n' m' t']; unfold tval_eqb; cbn [tv_name tv_marker tv_ts].
  rewrite !andb_true_iff, str_eqb_eq, N.eqb_eq. intros [[-> ->] Ht].
  apply eqb_prop in Ht; subst; reflexivity.
Qed.

Definition upd_ent (s : state) (i : nat) (k : str) (v : option tval) : state :=
  {| st_entries := ((i, k), v) :: st_entries s; st_dep := st_dep s; st_kids := st_kids s;
     st_reads := st_reads s; st_unres := st_unres s |}.

Lemma get_upd_ent s i k v i' k' :
  get_entry (upd_ent s i k v) i' k' = if mk_eqb (i', k') (i, k) then Some v else get_entry s i' k'.
Proof. reflexivity. Qed.

Lemma get_upd_same s i k v : get_entry (upd_ent s i k v) i k = Some v.
Proof. rewrite get_upd_ent, mk_eqb_refl; reflexivity. Qed.

Lemma get_upd_nonnil s i k v i' k' : get_entry s i' k' <> None -> get_entry (upd_ent s i k v) i' k' <> None.
Proof. intros H; rewrite get_upd_ent; destruct (mk_eqb _ _); [discriminate|exact H]. Qed.

(* what set_entry_m can do *)
Lemma set_entry_m_cases i k v s s' r :
  set_entry_m i k v s = (s', r) ->
  (r = Ok tt /\ s' = s /\ exists ov, get_entry s i k = Some (Some ov) /\ v = Some ov) \/
  (r = Ok tt /\ s' = upd_ent s i k v /\ (get_entry s i k = None \/ get_entry s i k = Some None)) \/
  (s' = s /\ (r = Er ERedefine \/ r = Er ERedefineType)).
Proof.
  unfold set_entry_m. destruct (get_entry s i k) as [[ov|]|] eqn:Hg.
  - destruct v as [nv|].
    + destruct (tval_eqb ov nv) eqn:He; intros H; inversion H; subst.
      * left. repeat split. exists ov; split; auto. f_equal. symmetry. apply tval_eqb_eq; exact He.
      * right; right; auto.
    + intros H; inversion H; subst. right; right; auto.
  - intros H; inversion H; subst. right; left; auto.
  - intros H; inversion H; subst. right; left; auto.
Qed.

(* ---- the index ---- *)

Definition ix_wf (m : modl) (ix : index) : Prop :=
  forall k ps, In (k, ps) ix -> ps <> [] /\ forall p, In p ps -> key_of_rel m p = Some k.

Lemma ix_add_wf m ix k p : ix_wf m ix -> key_of_rel m p = Some k -> ix_wf m (ix_add ix k p).
Proof.
  induction ix as [|[k' ps'] r IH]; intros Hwf Hk; cbn [ix_add].
  - intros k0 ps0 [H|[]]; inversion H; subst. split; [discriminate|]. intros p0 [<-|[]]; exact Hk.
  - assert (Hr : ix_wf m r) by (intros a b Hin; apply Hwf; right; exact Hin).
    destruct (str_eqb k k') eqn:E.
    + apply str_eqb_eq in E; subst k'.
      intros k0 ps0 [H|H].
      * inversion H; subst. destruct (Hwf k0 ps' (or_introl eq_refl)) as [Hne Hall]. split.
        -- destruct ps'; discriminate.
        -- intros p0 Hin. apply in_app_or in Hin. destruct Hin as [Hin|[<-|[]]]; auto.
      * apply Hwf; right; exact H.
    + intros k0 ps0 [H|H].
      * apply Hwf; left; exact H.
      * apply (IH Hr Hk); exact H.
Qed.

Lemma index_of_wf m : ix_wf m (index_of m).
Proof.
  unfold index_of.
  assert (G : forall l ix, ix_wf m ix ->
            ix_wf m (fold_left (fun ix f => match path_key m f with Some k => ix_add ix k (f_rel f) | None => ix end) l ix)).
  { induction l as [|f l IH]; intros ix Hwf; cbn [fold_left]; [exact Hwf|].
    apply IH. destruct (path_key m f) as [k|] eqn:Hk; [|exact Hwf].
    apply ix_add_wf; [exact Hwf|]. unfold path_key in Hk. destruct (f_dir f); [discriminate|exact Hk]. }
  apply G. intros k ps [].
Qed.

Lemma ix_get_in ix k ps : ix_get ix k = Some ps -> In (k, ps) ix.
Proof.
  induction ix as [|[k' ps'] r IH]; cbn [ix_get]; [discriminate|].
  destruct (str_eqb k k') eqn:E.
  - apply str_eqb_eq in E; subst. intros H; inversion H; subst; left; reflexivity.
  - intros H; right; apply IH; exact H.
Qed.

Lemma ix_get_wf m k ps : ix_get (index_of m) k = Some ps -> ps <> [] /\ key_of_rel m (hd [] ps) = Some k.
Proof.
  intros H. apply ix_get_in in H. destruct (index_of_wf m k ps H) as [Hne Hall]. split; [exact Hne|].
  destruct ps as [|p ps]; [congruence|]. apply Hall; left; reflexivity.
Qed.

(* ---- strings: an unqualified name is its own single part ---- *)

Lemma split_dc_cons2 c d r :
  split_dc (c :: d :: r) =
  if is_dc c d then [] :: split_dc r
  else match split_dc (d :: r) with h :: t => (c :: h) :: t | [] => [[c]] end.
Proof. reflexivity. Qed.

Lemma split_dc_nonempty s : split_dc s <> [].
Proof.
  destruct s as [|c r]; [discriminate|].
  destruct r as [|d r']; [discriminate|]. rewrite split_dc_cons2. destruct (is_dc c d); [discriminate|].
  destruct (split_dc (d :: r')); discriminate.
Qed.

Lemma split_dc_unq : forall k, is_qualified k = false -> split_dc k = [k].
Proof.
  unfold is_qualified. induction k as [|c r IH]; intros H; [reflexivity|].
  destruct r as [|d r']; [reflexivity|].
  rewrite split_dc_cons2 in H |- *. destruct (is_dc c d).
  - exfalso. pose proof (split_dc_nonempty r') as Hne. destruct (split_dc r'); [congruence|]. cbn in H. discriminate.
  - destruct (split_dc (d :: r')) as [|h t] eqn:E; [exfalso; eapply split_dc_nonempty; exact E|].
    assert (Hq : (1 <? length (h :: t)) = false) by exact H.
    specialize (IH Hq). inversion IH; subst. reflexivity.
Qed.

(* ------------------------------------------------------------------------------------------------------------ *)

Section WithWorld.
  Variable w : world.
  Let ixs := indexes_of w.

  (* the parent binds a type under the key of its name *)
  Hypothesis shadow_wf : forall k nm, shadow w k = Some nm -> nm = k.

  Notation mod_at := (mod_at w).
  Notation fep := (find_existing_path ixs).

  Lemma ixs_nth i : nth i ixs [] = index_of (mod_at i).
  Proof.
    unfold ixs, indexes_of, FileLoader.mod_at.
    change (@nil (str * list str)) with (index_of dummy_mod). apply map_nth.
  Qed.

  Lemma fep_wf i k ps : fep i k = Some ps -> ps <> [] /\ key_of_rel (mod_at i) (hd [] ps) = Some k.
  Proof. unfold find_existing_path. rewrite ixs_nth. apply ix_get_wf. Qed.

  (* the file that a lookup of name k in module i hands to the instantiator (filebased.go:141, :171) *)
  Definition origin_of (i : nat) (k : str) : option str :=
    if negb (is_global (mod_at i)) && negb (is_qualified k) then
      if str_eqb (m_name (mod_at i)) k then option_map (hd []) (fep i s_init_typeset) else None
    else option_map (hd []) (fep i k).

  Lemma om_key i k p : option_map (hd []) (fep i k) = Some p -> key_of_rel (mod_at i) p = Some k.
  Proof.
    destruct (fep i k) as [ps|] eqn:F; cbn [option_map]; [|discriminate].
    intros H; inversion H; subst. apply (fep_wf _ _ _ F).
  Qed.

  Lemma origin_inj i k k' p : origin_of i k = Some p -> origin_of i k' = Some p -> k = k'.
  Proof.
    unfold origin_of.
    destruct (negb (is_global (mod_at i))) eqn:G; cbn [andb].
    - destruct (negb (is_qualified k)) eqn:Q; destruct (negb (is_qualified k')) eqn:Q'.
      + destruct (str_eqb (m_name (mod_at i)) k) eqn:E; [|discriminate].
        destruct (str_eqb (m_name (mod_at i)) k') eqn:E'; [|discriminate].
        apply str_eqb_eq in E, E'. congruence.
      + destruct (str_eqb (m_name (mod_at i)) k) eqn:E; [|discriminate].
        intros H1 H2. apply om_key in H1, H2. rewrite H1 in H2. inversion H2; subst k'.
        apply negb_false_iff in Q'. discriminate Q'.
      + destruct (str_eqb (m_name (mod_at i)) k') eqn:E; [|discriminate].
        intros H1 H2. apply om_key in H1, H2. rewrite H2 in H1. inversion H1; subst k.
        apply negb_false_iff in Q. discriminate Q.
      + intros H1 H2. apply om_key in H1, H2. congruence.
    - intros H1 H2. apply om_key in H1, H2. congruence.
  Qed.

  (* ---------------------------------------------------------------------------------------------------------- *)
  (* Part 2: the invariant *)

  (* the value a well-formed, correctly named definition file f binds under key k *)
  Definition good_for (f : file) (k : str) (v : tval) : Prop :=
    match f_content f with
    | CGood decl _ => lower decl = k /\ v = {| tv_name := k; tv_marker := f_marker f; tv_ts := false |}
    | CAnon _ => v = {| tv_name := k; tv_marker := f_marker f; tv_ts := false |}
    | CTypeSet decl _ => lower decl = k /\ v = {| tv_name := k; tv_marker := 0%N; tv_ts := true |}
    | _ => False
    end.

  (* v, bound under key k in module i, is what the file at the path derived from k defines, or a member of the
     TypeSet that the file at the path derived from the TypeSet's name defines *)
  Definition backed (i : nat) (k : str) (v : tval) : Prop :=
    (exists p f, origin_of i k = Some p /\ file_at (mod_at i) p = Some f /\ good_for f k v) \/
    (exists kp p f decl members j mn,
        origin_of i kp = Some p /\ file_at (mod_at i) p = Some f /\
        f_content f = CTypeSet decl members /\ lower decl = kp /\ nth_error members j = Some mn /\
        k = lower (decl ++ s_dc ++ mn) /\
        v = {| tv_name := k; tv_marker := (f_marker f + 1 + N.of_nat j)%N; tv_ts := false |}).

  Definition val_ok (i : nat) (k : str) (v : tval) : Prop := tv_name v = k /\ backed i k v.

  (* what a lookup may return *)
  Definition found_ok (k : str) (v : tval) : Prop :=
    tv_name v = k /\ ((exists i, backed i k v) \/ (shadow w k = Some k /\ v = shadow_val k)).

  Lemma val_found i k v : val_ok i k v -> found_ok k v.
  Proof. intros [H1 H2]; split; [exact H1|left; exists i; exact H2]. Qed.

  Record Inv (s : state) : Prop := {
    inv_val : forall i k v, get_entry s i k = Some (Some v) -> val_ok i k v;
    inv_dep : forall k v, dep_get (st_dep s) k = Some (Some v) -> found_ok k v;
    inv_nodup : NoDup (st_reads s);
    inv_read : forall i p, In (i, p) (st_reads s) -> forall k, origin_of i k = Some p -> get_entry s i k <> None
  }.

  Lemma Inv_st0 : Inv st0.
  Proof. split; cbn; try discriminate; try constructor. intros i p []. Qed.

  (* a reported error names a file of the tree that is bad in the reported way, and the line *)
  Definition declared (c : content) : option str :=
    match c with CGood d _ => Some d | CTypeSet d _ => Some d | _ => None end.

  Definition err_ok (e : err) : Prop :=
    match e with
    | EParse i p l => exists f, file_at (mod_at i) p = Some f /\ f_content f = CMalformed l
    | EUnreadable i p => match file_at (mod_at i) p with Some f => f_content f = CUnreadable | None => True end
    | EWrongDef i p l => exists f k d, file_at (mod_at i) p = Some f /\ l = f_defline f /\
                                       origin_of i k = Some p /\ declared (f_content f) = Some d /\ lower d <> k
    | ENoDef i p l => exists f, file_at (mod_at i) p = Some f /\ l = f_defline f /\ f_content f = CNoDef
    | ENotTypeset i p => is_global (mod_at i) = false /\ option_map (hd []) (fep i s_init_typeset) = Some p
    | EInvalidName | ERedefine | ERedefineType => True
    end.

  Definition spec {A} (Pre : state -> Prop) (m : M A) (Post : A -> state -> Prop) : Prop :=
    forall s s' r, Inv s -> Pre s -> m s = (s', r) ->
      Inv s' /\ match r with Ok a => Post a s' | Er e => err_ok e | Fault => True | Fuel => True end.

  Definition anyS : state -> Prop := fun _ => True.

  Lemma spec_weaken {A} (Pre Pre' : state -> Prop) (m : M A) (Post Post' : A -> state -> Prop) :
    spec Pre' m Post' -> (forall s, Inv s -> Pre s -> Pre' s) -> (forall a s, Inv s -> Post' a s -> Post a s) -> spec Pre m Post.
  Proof.
    intros H HP HQ s s' r Hi Hp Hm. destruct (H s s' r Hi (HP s Hi Hp) Hm) as [Hi' Hr]. split; [exact Hi'|].
    destruct r; auto.
  Qed.

  Lemma spec_ret {A} (Pre : state -> Prop) (a : A) (Post : A -> state -> Prop) :
    (forall s, Inv s -> Pre s -> Post a s) -> spec Pre (ret a) Post.
  Proof. intros H s s' r Hi Hp Hm. inversion Hm; subst. split; auto. Qed.

  Lemma spec_fail {A} (Pre : state -> Prop) (e : err) (Post : A -> state -> Prop) :
    err_ok e -> spec Pre (@fail A e) Post.
  Proof. intros H s s' r Hi Hp Hm. inversion Hm; subst. split; auto. Qed.

  Lemma spec_bind {A B} (Pre : state -> Prop) (m : M A) (f : A -> M B) (Mid : A -> state -> Prop) (Post : B -> state -> Prop) :
    spec Pre m Mid -> (forall a, spec (Mid a) (f a) Post) -> spec Pre (bind m f) Post.
  Proof.
    intros Hm Hf s s' r Hi Hp Hb. unfold bind in Hb.
    destruct (m s) as [s1 r1] eqn:E1. destruct (Hm s s1 r1 Hi Hp E1) as [Hi1 Hr1].
    destruct r1 as [a|e| |].
    - exact (Hf a s1 s' r Hi1 Hr1 Hb).
    - inversion Hb; subst. split; auto.
    - inversion Hb; subst. split; auto.
    - inversion Hb; subst. split; auto.
  Qed.

  (* reading the state *)
  Lemma spec_get_entry Pre i k :
    spec Pre (get_entry_m i k) (fun e s => Pre s /\ e = get_entry s i k).
  Proof. intros s s' r Hi Hp Hm. inversion Hm; subst. split; auto. Qed.

  Lemma Inv_upd_ent s i k v :
    Inv s -> (forall x, v = Some x -> val_ok i k x) -> Inv (upd_ent s i k v).
  Proof.
    intros [Hv Hd Hn Hr] Hok. split; cbn [upd_ent st_dep st_reads]; auto.
    - intros i' k' v'. rewrite get_upd_ent. destruct (mk_eqb (i', k') (i, k)) eqn:E.
      + apply mk_eqb_eq in E. inversion E; subst. intros H; inversion H; subst. apply Hok; reflexivity.
      + apply Hv.
    - intros i' p Hin k' Ho. apply get_upd_nonnil. eapply Hr; eauto.
  Qed.

  (* binding a value (or a placeholder) in a module *)
  Lemma spec_set_entry (Pre : state -> Prop) i k v :
    (forall x, v = Some x -> val_ok i k x) ->
    (forall s, Pre s -> Pre (upd_ent s i k v)) ->
    spec Pre (set_entry_m i k v) (fun _ s => Pre s /\ get_entry s i k <> None).
  Proof.
    intros Hok Hpre s s' r Hi Hp Hm.
    destruct (set_entry_m_cases _ _ _ _ _ _ Hm) as [(-> & -> & ov & Hg & _)|[(-> & -> & _)|(-> & [->| ->])]].
    - split; [exact Hi|]. split; [exact Hp|congruence].
    - split; [apply Inv_upd_ent; assumption|]. split; [apply Hpre; exact Hp|]. rewrite get_upd_same; discriminate.
    - split; [exact Hi|exact I].
    - split; [exact Hi|exact I].
  Qed.

  Lemma spec_set_entry_any i k v :
    (forall x, v = Some x -> val_ok i k x) -> spec anyS (set_entry_m i k v) (fun _ _ => True).
  Proof.
    intros Hok. eapply spec_weaken; [apply (spec_set_entry anyS i k v Hok); intros; exact I| |]; auto.
  Qed.

  Lemma spec_dep_set k v :
    (forall x, v = Some x -> found_ok k x) -> spec anyS (dep_set_m k v) (fun _ _ => True).
  Proof.
    intros Hok s s' r Hi _ Hm. unfold dep_set_m in Hm.
    assert (Hnew : Inv {| st_entries := st_entries s; st_dep := (k, v) :: st_dep s; st_kids := st_kids s;
                          st_reads := st_reads s; st_unres := st_unres s |}).
    { destruct Hi as [Hv Hd Hn Hr]. split; cbn [st_dep st_reads]; auto.
      intros k' v'. cbn [dep_get]. destruct (str_eqb k' k) eqn:E.
      - apply str_eqb_eq in E; subst. intros H; inversion H; subst. apply Hok; reflexivity.
      - apply Hd. }
    destruct (dep_get (st_dep s) k) as [[ov|]|].
    - destruct v as [nv|]; [destruct (tval_eqb ov nv)|]; inversion Hm; subst; split; auto; exact I.
    - inversion Hm; subst; split; auto.
    - inversion Hm; subst; split; auto.
  Qed.

  (* state changes that touch neither entries, nor the dependency cache, nor the read log *)
  Lemma Inv_same s s' :
    st_entries s' = st_entries s -> st_dep s' = st_dep s -> st_reads s' = st_reads s -> Inv s -> Inv s'.
  Proof.
    intros He Hd Hr [Hv Hdp Hn Hrd]. split.
    - intros i k v. unfold get_entry. rewrite He. apply Hv.
    - rewrite Hd. exact Hdp.
    - rewrite Hr. exact Hn.
    - intros i p. rewrite Hr. intros Hin k Ho. unfold get_entry. rewrite He. eapply Hrd; eauto.
  Qed.

  (* instantiate: the placeholder for k is set, then the file that stands for k is read — for the first time *)
  Lemma Inv_read_add s i k p :
    Inv s -> origin_of i k = Some p -> get_entry s i k = None ->
    Inv {| st_entries := ((i, k), None) :: st_entries s; st_dep := st_dep s; st_kids := st_kids s;
           st_reads := st_reads s ++ [(i, p)]; st_unres := st_unres s |}.
  Proof.
    intros Hi Ho Hg.
    assert (Hnin : ~ In (i, p) (st_reads s)).
    { intros Hin. apply (inv_read _ Hi _ _ Hin k Ho). exact Hg. }
    pose proof (Inv_upd_ent s i k None Hi (fun x H => ltac:(discriminate))) as [Hv Hd Hn Hr].
    split; cbn [st_dep st_reads]; auto.
    - apply NoDup_snoc; [exact Hn|exact Hnin].
    - intros i' p' Hin k' Ho'. apply in_app_or in Hin. destruct Hin as [Hin|[Heq|[]]].
      + apply (Hr i' p' Hin k' Ho').
      + inversion Heq; subst i' p'. rewrite (origin_inj _ _ _ _ Ho' Ho).
        change (get_entry (upd_ent s i k None) i k <> None). rewrite get_upd_same. discriminate.
  Qed.

  Lemma spec_kid_add j k : spec anyS (kid_add_m j k) (fun _ _ => True).
  Proof. intros s s' r Hi _ Hm. inversion Hm; subst. split; [|exact I]. eapply Inv_same; try exact Hi; reflexivity. Qed.

  Lemma spec_unres_add mk : spec anyS (unres_add_m mk) (fun _ _ => True).
  Proof. intros s s' r Hi _ Hm. inversion Hm; subst. split; [|exact I]. eapply Inv_same; try exact Hi; reflexivity. Qed.

  Lemma spec_unres_del mk : spec anyS (unres_del_m mk) (fun _ _ => True).
  Proof. intros s s' r Hi _ Hm. inversion Hm; subst. split; [|exact I]. eapply Inv_same; try exact Hi; reflexivity. Qed.

  Lemma spec_any {A} (Pre : state -> Prop) (m : M A) (Post : A -> state -> Prop) :
    spec anyS m Post -> spec Pre m Post.
  Proof. intros H. eapply spec_weaken; [exact H| |]; auto. intros; exact I. Qed.

  Lemma spec_post_true {A} (Pre : state -> Prop) (m : M A) (Post : A -> state -> Prop) :
    spec Pre m Post -> spec Pre m (fun _ _ => True).
  Proof. intros H. eapply spec_weaken; [exact H| |]; auto. Qed.

  (* sequencing when nothing but the invariant is carried over *)
  Lemma spec_seq {A B} (m : M A) (f : A -> M B) (Mid : A -> state -> Prop) (Post : B -> state -> Prop) :
    spec anyS m Mid -> (forall a, spec anyS (f a) Post) -> spec anyS (bind m f) Post.
  Proof. intros Hm Hf. eapply spec_bind; [exact Hm|]. intros a. apply spec_any. apply Hf. Qed.

  Lemma spec_for_each {A} (f : A -> M unit) l :
    (forall x, In x l -> spec anyS (f x) (fun _ _ => True)) -> spec anyS (for_each f l) (fun _ _ => True).
  Proof.
    induction l as [|x t IH]; intros H; cbn [for_each].
    - apply spec_ret; auto.
    - eapply spec_seq; [apply H; left; reflexivity|]. intros u.
      apply IH. intros y Hy; apply H; right; exact Hy.
  Qed.

  Lemma spec_for_each_i {A} (f : nat -> A -> M unit) l : forall j0,
    (forall j x, nth_error l j = Some x -> spec anyS (f (j0 + j) x) (fun _ _ => True)) ->
    spec anyS (for_each_i f j0 l) (fun _ _ => True).
  Proof.
    induction l as [|x t IH]; intros j0 H; cbn [for_each_i].
    - apply spec_ret; auto.
    - eapply spec_seq.
      + specialize (H 0 x eq_refl). rewrite Nat.add_0_r in H. exact H.
      + intros u. apply (IH (S j0)).
        intros j y Hj. specialize (H (S j) y Hj). rewrite Nat.add_succ_r in H. exact H.
  Qed.

  (* ---------------------------------------------------------------------------------------------------------- *)
  (* Part 3: one layer *)

  Definition post_found (k : str) : eres -> state -> Prop :=
    fun e _ => forall v, e = Some (Some v) -> found_ok k v.
  Definition post_val (i : nat) (k : str) : eres -> state -> Prop :=
    fun e _ => forall v, e = Some (Some v) -> val_ok i k v.

  Lemma spec_ret_none Pre (P : eres -> state -> Prop) :
    (forall s, P None s) -> spec Pre (ret (@None (option tval))) P.
  Proof. intros H. apply spec_ret. intros; apply H. Qed.

  Section Layer.
    Variable LE : ctxl -> str -> M eres.
    Variable FD : ctxl -> nat -> str -> M eres.
    Hypothesis HLE : forall cl k, spec anyS (LE cl k) (post_found k).
    Hypothesis HFD : forall cl i k, spec anyS (FD cl i k) (post_val i k).

    Lemma spec_load cl k : spec anyS (load w LE cl k) (fun r _ => forall v, r = Some v -> found_ok k v).
    Proof.
      unfold load. eapply spec_bind; [apply HLE|]. intros [[v|]|].
      - apply spec_ret. intros s _ Hp v' Hv'. inversion Hv'; subst. apply Hp; reflexivity.
      - apply spec_ret. intros; discriminate.
      - apply spec_any. eapply spec_seq with (Mid := fun _ _ => True).
        + destruct (cl_def cl) as [i|].
          * apply spec_set_entry_any; intros; discriminate.
          * destruct (cl_ctx cl) as [j|]; [apply spec_kid_add|].
            destruct (w_top w); [apply spec_set_entry_any|apply spec_dep_set|apply spec_set_entry_any]; intros; discriminate.
        + intros u. apply spec_ret. intros; discriminate.
    Qed.

    Lemma spec_add_alias cl i kd mk refs :
      val_ok i kd {| tv_name := kd; tv_marker := mk; tv_ts := false |} ->
      spec anyS (add_alias w LE cl i kd mk refs) (fun _ _ => True).
    Proof.
      intros Hok. unfold add_alias.
      eapply spec_seq; [apply spec_set_entry_any; intros x Hx; inversion Hx; subst; exact Hok|]. intros u.
      eapply spec_seq; [apply spec_unres_add|]. intros u0.
      eapply spec_seq with (Mid := fun _ _ => True).
      - apply spec_for_each. intros r _.
        eapply spec_seq; [apply spec_load|]. intros u1. apply spec_ret; auto.
      - intros u1. apply spec_unres_del.
    Qed.

    Lemma spec_add_typeset cl i kd decl mk members p f :
      origin_of i kd = Some p -> file_at (mod_at i) p = Some f ->
      f_content f = CTypeSet decl members -> lower decl = kd -> mk = f_marker f ->
      spec anyS (add_typeset LE cl i kd decl mk members) (fun _ _ => True).
    Proof.
      intros Ho Hf Hc Hd Hmk. unfold add_typeset.
      eapply spec_seq with (Mid := fun _ _ => True).
      - apply spec_for_each_i. intros j mn Hj. cbn [Nat.add].
        eapply spec_seq; [apply HLE|]. intros e.
        assert (Hset : spec anyS
                         (set_entry_m i (lower (decl ++ s_dc ++ mn))
                            (Some {| tv_name := lower (decl ++ s_dc ++ mn); tv_marker := (mk + 1 + N.of_nat j)%N; tv_ts := false |}))
                         (fun _ _ => True)).
        { apply spec_set_entry_any.
          intros x Hx; inversion Hx; subst x. split; [reflexivity|].
          right. exists kd, p, f, decl, members, j, mn. subst mk. repeat split; auto. }
        destruct e as [[v|]|]; [apply spec_ret; auto|exact Hset|exact Hset].
      - intros u. apply spec_set_entry_any. intros x Hx; inversion Hx; subst x. split; [reflexivity|].
        left. exists p, f. repeat split; auto. unfold good_for. rewrite Hc. split; auto.
    Qed.

    Lemma spec_inst_body cl i k p :
      origin_of i k = Some p -> spec anyS (inst_body w LE cl i k p) (fun _ _ => True).
    Proof.
      intros Ho. unfold inst_body, content_at.
      destruct (file_at (mod_at i) p) as [f|] eqn:Hf.
      - destruct (f_content f) as [decl refs|refs|decl members|line| |] eqn:Hc.
        + destruct (str_eqb (lower decl) k) eqn:E.
          * apply str_eqb_eq in E. apply spec_add_alias. rewrite E. split; [reflexivity|].
            left. exists p, f. repeat split; auto. unfold good_for. rewrite Hc. split; auto.
          * apply spec_fail. cbn [err_ok]. exists f, k, decl. rewrite Hc. repeat split; auto.
            apply str_eqb_neq; exact E.
        + apply spec_add_alias. split; [reflexivity|]. left. exists p, f. repeat split; auto.
          unfold good_for. rewrite Hc. reflexivity.
        + destruct (str_eqb (lower decl) k) eqn:E.
          * apply str_eqb_eq in E. eapply spec_add_typeset; eauto. rewrite E; exact Ho.
          * apply spec_fail. cbn [err_ok]. exists f, k, decl. rewrite Hc. repeat split; auto.
            apply str_eqb_neq; exact E.
        + apply spec_fail. cbn [err_ok]. exists f; auto.
        + apply spec_fail. cbn [err_ok]. exists f; auto.
        + apply spec_fail. cbn [err_ok]. rewrite Hf; exact Hc.
      - apply spec_fail. cbn [err_ok]. rewrite Hf; exact I.
    Qed.

    (* the placeholder is set before the file is read, and a file is only read for a name without entry *)
    Lemma spec_instantiate cl i k origins :
      origin_of i k = Some (hd [] origins) -> spec anyS (instantiate w LE cl i k origins) (post_val i k).
    Proof.
      intros Ho s s' r Hi _ Hm. unfold instantiate, bind, get_entry_m in Hm.
      destruct (get_entry s i k) as [e|] eqn:Hg.
      - inversion Hm; subst. split; [exact Hi|]. intros v Hv. inversion Hv; subst.
        apply (inv_val _ Hi); exact Hg.
      - unfold set_entry_m in Hm. rewrite Hg in Hm. unfold inst_type, bind, log_read_m in Hm.
        cbn [st_entries st_dep st_kids st_reads st_unres] in Hm.
        pose proof (Inv_read_add s i k (hd [] origins) Hi Ho Hg) as Hi2.
        match type of Hm with context [inst_body w LE ?c i k ?p ?st] =>
          destruct (inst_body w LE c i k p st) as [s3 r3] eqn:E3;
          destruct (spec_inst_body c i k p Ho st s3 r3 Hi2 I E3) as [Hi3 Hr3]
        end.
        destruct r3 as [[]|e| |]; inversion Hm; subst; split; auto.
        unfold post_val. intros v Hv. apply (inv_val _ Hi3). exact Hv.
    Qed.

    Lemma spec_get_val i k :
      spec anyS (get_entry_m i k) (fun e s => e = get_entry s i k).
    Proof. intros s s' r Hi _ Hm. inversion Hm; subst. split; auto. Qed.

    Lemma spec_ret_entry i k (e : option tval) :
      spec (fun s => Some e = get_entry s i k) (ret (Some e)) (post_val i k).
    Proof.
      intros s s' r Hi He Hm. inversion Hm; subst. split; [exact Hi|].
      intros v Hv. inversion Hv; subst. apply (inv_val _ Hi). symmetry; assumption.
    Qed.

    Lemma spec_psearch cl i k anc : spec anyS (psearch FD cl i k anc) (post_val i k).
    Proof.
      induction anc as [|ts rest IH]; cbn [psearch].
      - apply spec_ret_none. intros s v Hv; discriminate.
      - eapply spec_seq; [apply (spec_get_val i ts)|]. intros [e0|]; [exact IH|].
        eapply spec_seq; [apply HFD|]. intros u.
        eapply spec_bind; [apply (spec_get_val i k)|]. intros [e|].
        + apply spec_ret_entry.
        + apply spec_any. exact IH.
    Qed.

    Lemma origin_general i k :
      (is_global (mod_at i) = true \/ is_qualified k = true) -> origin_of i k = option_map (hd []) (fep i k).
    Proof.
      unfold origin_of. intros [->| ->]; cbn [negb andb]; [reflexivity|]. rewrite andb_false_r. reflexivity.
    Qed.

    Lemma spec_find cl i k : spec anyS (find w ixs LE FD cl i k) (post_val i k).
    Proof.
      unfold find.
      assert (Hgen : (is_global (mod_at i) = true \/ is_qualified k = true) ->
                     spec anyS (match fep i k with
                                | Some origins => instantiate w LE cl i k origins
                                | None => if is_qualified k then psearch FD cl i k (ancestors k) else ret None
                                end) (post_val i k)).
      { intros Hq. destruct (fep i k) as [origins|] eqn:F.
        - apply spec_instantiate. rewrite (origin_general _ _ Hq), F. reflexivity.
        - destruct (is_qualified k); [apply spec_psearch|]. apply spec_ret_none. intros s v Hv; discriminate. }
      destruct (is_global (mod_at i)) eqn:G; [apply Hgen; left; reflexivity|].
      unfold parts_checked. destruct (forallb valid_seg (split_dc k)) eqn:V; [|apply spec_fail; exact I].
      destruct (negb (str_eqb (m_name (mod_at i)) (hd [] (split_dc k)))) eqn:Nm.
      { apply spec_ret_none. intros s v Hv; discriminate. }
      destruct (is_qualified k) eqn:Q; [apply Hgen; right; reflexivity|].
      destruct (fep i s_init_typeset) as [origins|] eqn:F.
      2:{ apply spec_ret_none. intros s v Hv; discriminate. }
      assert (Ho : origin_of i k = Some (hd [] origins)).
      { unfold origin_of. rewrite G, Q. cbn [negb andb].
        rewrite (split_dc_unq _ Q) in Nm. cbn [hd] in Nm. apply negb_false_iff in Nm. rewrite Nm, F. reflexivity. }
      assert (Hnt : err_ok (ENotTypeset i (hd [] origins))).
      { cbn [err_ok]. split; [exact G|]. rewrite F; reflexivity. }
      eapply spec_bind; [apply (spec_instantiate cl i k origins Ho)|].
      intros [[v|]|].
      - destruct (tv_ts v); [|apply spec_fail; exact Hnt].
        apply spec_ret. intros s _ Hp. exact Hp.
      - apply spec_fail; exact Hnt.
      - apply spec_fail; exact Hnt.
    Qed.

    Lemma spec_mod_load_own cl i k : spec anyS (mod_load_own w ixs LE FD cl i k) (post_found k).
    Proof.
      unfold mod_load_own.
      eapply spec_bind; [apply (spec_get_val i k)|]. intros [e0|].
      + intros s s' r Hi He Hm. inversion Hm; subst. split; [exact Hi|].
        intros v Hv. inversion Hv; subst. apply (val_found i). apply (inv_val _ Hi). symmetry; assumption.
      + apply spec_any. eapply spec_bind; [apply spec_find|]. intros [e|].
        * apply spec_ret. intros s _ Hp v Hv. apply (val_found i). apply Hp; exact Hv.
        * apply spec_any. eapply spec_seq with (Mid := fun _ _ => True).
          -- apply spec_set_entry_any; intros; discriminate.
          -- intros u. apply spec_ret. intros s _ _ v Hv; discriminate.
    Qed.

    Lemma spec_mod_load_entry cl i k : spec anyS (mod_load_entry w ixs LE FD cl i k) (post_found k).
    Proof.
      unfold mod_load_entry. destruct (shadow w k) as [nm|] eqn:Sh.
      - apply spec_ret. intros s _ _ v Hv. inversion Hv; subst v. pose proof (shadow_wf _ _ Sh) as ->.
        split; [reflexivity|]. right. split; auto.
      - apply spec_mod_load_own.
    Qed.

    (* a file-based loader below np file-based loaders *)
    Lemma spec_chain_load_entry np : forall cl i k,
      spec anyS (chain_load_entry w ixs LE FD np cl i k) (post_found k).
    Proof.
      induction np as [|np IH]; intros cl i k; cbn [chain_load_entry].
      - apply spec_mod_load_entry.
      - eapply spec_bind; [apply IH|]. intros [[v|]|].
        + apply spec_ret. intros s _ Hp. exact Hp.
        + apply spec_any. apply spec_mod_load_own.
        + apply spec_any. apply spec_mod_load_own.
    Qed.

    Lemma spec_dep_loop cl k n : forall i,
      spec anyS ((fix loop (n : nat) (i : nat) : M eres :=
                    match n with
                    | 0 => fun s => (s, Ok (dep_get (st_dep s) k))
                    | S n' => e <- mod_load_entry w ixs LE FD cl i k ;;
                              match e with Some (Some _) => ret e | _ => loop n' (S i) end
                    end) n i) (post_found k).
    Proof.
      induction n as [|n IH]; intros i.
      - intros s s' r Hi _ Hm. inversion Hm; subst. split; [exact Hi|].
        intros v Hv. apply (inv_dep _ Hi). exact Hv.
      - eapply spec_bind; [apply spec_mod_load_entry|]. intros [[v|]|].
        + apply spec_ret. intros s _ Hp. exact Hp.
        + apply spec_any. apply IH.
        + apply spec_any. apply IH.
    Qed.

    Lemma spec_dep_find cl k : spec anyS (dep_find w ixs LE FD cl k) (post_found k).
    Proof.
      unfold dep_find. destruct (dep_index_nonempty w && is_qualified k).
      - unfold parts_checked. destruct (forallb valid_seg (split_dc k)); [|apply spec_fail; exact I].
        destruct (dep_index_get w (hd [] (split_dc k))) as [i|]; [apply spec_mod_load_entry|apply spec_dep_loop].
      - apply spec_dep_loop.
    Qed.

    Lemma spec_dep_load_entry cl k : spec anyS (dep_load_entry w ixs LE FD cl k) (post_found k).
    Proof.
      unfold dep_load_entry. eapply spec_bind with (Mid := fun e s => e = dep_get (st_dep s) k).
      - intros s s' r Hi _ Hm. inversion Hm; subst. split; auto.
      - intros [e0|].
        + intros s s' r Hi He Hm. inversion Hm; subst. split; [exact Hi|].
          intros v Hv. inversion Hv; subst. apply (inv_dep _ Hi). symmetry; assumption.
        + apply spec_any. eapply spec_bind; [apply spec_dep_find|].
          intros [[v|]|].
          * intros s s' r Hi Hp Hm. unfold bind in Hm.
            destruct (dep_set_m k (Some v) s) as [s1 r1] eqn:E1.
            assert (Hfv : found_ok k v) by (apply Hp; reflexivity).
            assert (Hok : forall x, Some v = Some x -> found_ok k x) by (intros x Hx; inversion Hx; subst; exact Hfv).
            destruct (spec_dep_set k (Some v) Hok s s1 r1 Hi I E1) as [Hi1 Hr1].
            destruct r1 as [[]|e| |]; inversion Hm; subst; split; auto.
            all: try (unfold post_found; intros v' Hv'; inversion Hv'; subst; exact Hfv).
          * apply spec_ret. intros s _ _ v Hv; discriminate.
          * apply spec_ret. intros s _ _ v Hv; discriminate.
    Qed.

    Lemma spec_top_load_entry cl k : spec anyS (top_load_entry w ixs LE FD cl k) (post_found k).
    Proof.
      unfold top_load_entry. destruct (w_top w); [apply spec_mod_load_entry|apply spec_dep_load_entry|apply spec_chain_load_entry].
    Qed.

    Lemma spec_ctx_load_entry cl k : spec anyS (ctx_load_entry w ixs LE FD cl k) (post_found k).
    Proof.
      unfold ctx_load_entry. destruct (cl_ctx cl) as [j|]; [|apply spec_top_load_entry].
      eapply spec_bind; [apply spec_top_load_entry|]. intros [[v|]|].
      - apply spec_ret. intros s _ Hp. exact Hp.
      - intros s s' r Hi _ Hm. inversion Hm; subst. split; [exact Hi|]. intros v Hv. destruct (kid_has s' j k); discriminate.
      - intros s s' r Hi _ Hm. inversion Hm; subst. split; [exact Hi|]. intros v Hv. destruct (kid_has s' j k); discriminate.
    Qed.
  End Layer.

  (* every layer *)
  Lemma spec_layers n :
    (forall cl k, spec anyS (LEn w ixs n cl k) (post_found k)) /\
    (forall cl i k, spec anyS (FDn w ixs n cl i k) (post_val i k)).
  Proof.
    induction n as [|n [IH1 IH2]].
    - split; intros; intros s s' r Hi _ Hm; inversion Hm; subst; split; auto.
    - split; intros.
      + change (LEn w ixs (S n) cl k) with (ctx_load_entry w ixs (LEn w ixs n) (FDn w ixs n) cl k).
        apply spec_ctx_load_entry; assumption.
      + change (FDn w ixs (S n) cl i k) with (find w ixs (LEn w ixs n) (FDn w ixs n) cl i k).
        apply spec_find; assumption.
  Qed.

  Lemma spec_top_load n cl k :
    spec anyS (load w (LEn w ixs n) cl k) (fun r _ => forall v, r = Some v -> found_ok k v).
  Proof. apply spec_load. apply spec_layers. Qed.

  (* ---------------------------------------------------------------------------------------------------------- *)
  (* Part 4: runs *)

  Lemma step_inv fuel s o s' x : Inv s -> step w ixs fuel s o = (s', x) -> Inv s'.
  Proof.
    intros Hi Hs. destruct o; cbn [step] in Hs; try (inversion Hs; subst; exact Hi).
    destruct (load w (LEn w ixs fuel) (top_ctx ctx) (norm_name name) s) as [s1 r1] eqn:E.
    inversion Hs; subst. exact (proj1 (spec_top_load fuel _ _ s s' r1 Hi I E)).
  Qed.

  Lemma run_from_inv fuel ops : forall s s' xs, Inv s -> run_from w ixs fuel s ops = (s', xs) -> Inv s'.
  Proof.
    induction ops as [|o t IH]; intros s s' xs Hi Hr; cbn [run_from] in Hr.
    - inversion Hr; subst; exact Hi.
    - destruct (step w ixs fuel s o) as [s1 x] eqn:E1.
      destruct (run_from w ixs fuel s1 t) as [s2 xs2] eqn:E2.
      inversion Hr; subst. eapply IH; [|exact E2]. eapply step_inv; eauto.
  Qed.

  (* the state after any sequence of operations *)
  Definition reach (fuel : nat) (ops : list op) : state := fst (run_from w ixs fuel st0 ops).

  Lemma reach_inv fuel ops : Inv (reach fuel ops).
  Proof.
    unfold reach. destruct (run_from w ixs fuel st0 ops) as [s xs] eqn:E. cbn [fst].
    eapply run_from_inv; [apply Inv_st0|exact E].
  Qed.

  (* carries_requested_name + found_implies_file + bad_file_reports_file for a lookup in any reachable state *)
  Lemma load_reach fuel ops cl k s' r :
    load w (LEn w ixs fuel) cl k (reach fuel ops) = (s', r) ->
    match r with
    | Ok (Some v) => found_ok k v
    | Er e => err_ok e
    | _ => True
    end.
  Proof.
    intros H. destruct (spec_top_load fuel cl k _ _ _ (reach_inv fuel ops) I H) as [_ Hr].
    destruct r as [[v|]|e| |]; auto.
  Qed.

  Lemma reads_nodup fuel ops : NoDup (st_reads (reach fuel ops)).
  Proof. apply inv_nodup. apply reach_inv. Qed.
End WithWorld.

(* ------------------------------------------------------------------------------------------------------------ *)
(* Part 5: the path derivation and its inverse (smartpath.go:63 EffectivePath, :123 TypedNames) *)

Lemma is_word_chars c : is_word c = true -> c <> 58%N /\ c <> 47%N /\ c <> 46%N.
Proof.
  unfold is_word, is_alpha. rewrite !orb_true_iff, !andb_true_iff, !N.leb_le, N.eqb_eq. lia.
Qed.

Lemma is_alpha_word c : is_alpha c = true -> is_word c = true.
Proof. unfold is_word. intros ->. reflexivity. Qed.

Definition wordy (s : str) : Prop := Forall (fun c => is_word c = true) s.

Lemma valid_seg_wordy s : valid_seg s = true -> wordy s /\ s <> [].
Proof.
  destruct s as [|c r]; cbn [valid_seg]; [discriminate|]. rewrite andb_true_iff, forallb_forall. intros [Ha Hr].
  split; [|discriminate]. constructor; [apply is_alpha_word; exact Ha|]. apply Forall_forall. exact Hr.
Qed.

Lemma is_dc_false_l c d : c <> 58%N -> is_dc c d = false.
Proof. intros H. unfold is_dc. apply N.eqb_neq in H. rewrite H. reflexivity. Qed.

Lemma split_dc_wordy s : wordy s -> split_dc s = [s].
Proof.
  induction s as [|c r IH]; intros Hw; [reflexivity|]. inversion Hw as [|? ? Hc Hr]; subst.
  destruct r as [|d r']; [reflexivity|]. rewrite split_dc_cons2, is_dc_false_l by (apply is_word_chars; exact Hc).
  rewrite (IH Hr). reflexivity.
Qed.

Lemma split_dc_app x rest : wordy x -> split_dc (x ++ s_dc ++ rest) = x :: split_dc rest.
Proof.
  induction x as [|c x' IH]; intros Hw.
  - cbn [app s_dc]. rewrite split_dc_cons2. reflexivity.
  - inversion Hw as [|? ? Hc Hr]; subst. specialize (IH Hr).
    assert (Hc58 : c <> 58%N) by (apply is_word_chars; exact Hc).
    destruct x' as [|d x''].
    + cbn [app s_dc] in *. rewrite split_dc_cons2, (is_dc_false_l _ _ Hc58), IH. reflexivity.
    + cbn [app] in *. rewrite split_dc_cons2, (is_dc_false_l _ _ Hc58), IH. reflexivity.
Qed.

Lemma split_dc_join ps : ps <> [] -> Forall wordy ps -> split_dc (join s_dc ps) = ps.
Proof.
  induction ps as [|x t IH]; intros Hne Hw; [congruence|]. inversion Hw as [|? ? Hx Ht]; subst.
  destruct t as [|y t'].
  - cbn [join]. apply split_dc_wordy; exact Hx.
  - change (join s_dc (x :: y :: t')) with (x ++ s_dc ++ join s_dc (y :: t')).
    rewrite split_dc_app by exact Hx. rewrite IH; [reflexivity|discriminate|exact Ht].
Qed.

Lemma split_on_cons sep c r :
  split_on sep (c :: r) =
  if N.eqb c sep then [] :: split_on sep r
  else match split_on sep r with h :: t => (c :: h) :: t | [] => [[c]] end.
Proof. reflexivity. Qed.

Definition noslash (s : str) : Prop := Forall (fun c => c <> 47%N) s.

Lemma wordy_noslash s : wordy s -> noslash s.
Proof. intros H. eapply Forall_impl; [|exact H]. intros c Hc. apply is_word_chars; exact Hc. Qed.

Lemma split_on_noslash s : noslash s -> split_on 47 s = [s].
Proof.
  induction s as [|c r IH]; intros Hw; [reflexivity|]. inversion Hw as [|? ? Hc Hr]; subst.
  rewrite split_on_cons. apply N.eqb_neq in Hc. rewrite Hc, (IH Hr). reflexivity.
Qed.

Lemma split_on_app x rest : noslash x -> split_on 47 (x ++ s_slash ++ rest) = x :: split_on 47 rest.
Proof.
  induction x as [|c x' IH]; intros Hw.
  - reflexivity.
  - inversion Hw as [|? ? Hc Hr]; subst. cbn [app]. rewrite split_on_cons. apply N.eqb_neq in Hc. rewrite Hc.
    cbn [app] in IH. rewrite (IH Hr). reflexivity.
Qed.

(* the path of segments ps, the last one carrying the extension *)
Lemma split_on_join_ext ps : ps <> [] -> Forall wordy ps ->
  split_on 47 (join s_slash ps ++ s_pp) = removelast ps ++ [last ps [] ++ s_pp].
Proof.
  induction ps as [|x t IH]; intros Hne Hw; [congruence|]. inversion Hw as [|? ? Hx Ht]; subst.
  destruct t as [|y t'].
  - cbn [join removelast last app]. apply split_on_noslash. apply Forall_app. split; [apply wordy_noslash; exact Hx|].
    repeat constructor; discriminate.
  - change (join s_slash (x :: y :: t')) with (x ++ s_slash ++ join s_slash (y :: t')).
    rewrite <- !app_assoc. rewrite split_on_app by (apply wordy_noslash; exact Hx).
    rewrite IH; [|discriminate|exact Ht]. reflexivity.
Qed.

Lemma removelast_app_last {A} (l : list A) d : l <> [] -> removelast l ++ [last l d] = l.
Proof. intros H. symmetry. apply app_removelast_last. exact H. Qed.

Lemma firstn_app_exact {A} (a b : list A) : firstn (length (a ++ b) - length b) (a ++ b) = a.
Proof.
  rewrite app_length. replace (length a + length b - length b) with (length a) by lia.
  rewrite firstn_app, Nat.sub_diag, firstn_all. cbn [firstn]. apply app_nil_r.
Qed.

Lemma lower_app a b : lower (a ++ b) = lower a ++ lower b.
Proof. apply map_app. Qed.

Definition lowered (s : str) : Prop := lower s = s.

Lemma lower_join sep ps : lowered sep -> Forall lowered ps -> lower (join sep ps) = join sep ps.
Proof.
  intros Hs. induction ps as [|x t IH]; intros Hl; [reflexivity|]. inversion Hl as [|? ? Hx Ht]; subst.
  destruct t as [|y t']; [exact Hx|].
  change (join sep (x :: y :: t')) with (x ++ sep ++ join sep (y :: t')).
  rewrite !lower_app, Hx, Hs, (IH Ht). reflexivity.
Qed.

Lemma strip_types_slash x : strip_prefix s_types_slash (s_types_slash ++ x) = Some x.
Proof. reflexivity. Qed.

Lemma has_suffix_app a b : has_suffix b (a ++ b) = true.
Proof.
  unfold has_suffix. rewrite app_length. apply andb_true_iff. split; [apply Nat.leb_le; lia|].
  replace (length a + length b - length b) with (length a) by lia.
  rewrite skipn_app, Nat.sub_diag, skipn_all. cbn [skipn app]. apply str_eqb_refl.
Qed.

Lemma trim_dc_alpha c r : is_word c = true -> trim_dc (c :: r) = c :: r.
Proof.
  intros Hc. unfold trim_dc. destruct r as [|d r']; [reflexivity|].
  rewrite is_dc_false_l by (apply is_word_chars; exact Hc). reflexivity.
Qed.

Lemma join_head_word sep x t : wordy x -> x <> [] -> exists c r, join sep (x :: t) = c :: r /\ is_word c = true.
Proof.
  intros Hw Hne. destruct x as [|c x']; [congruence|]. inversion Hw; subst.
  destruct t as [|y t']; [exists c, x'; split; auto|]. exists c, (x' ++ sep ++ join sep (y :: t')). split; auto.
Qed.

(* a lower-case segment the code accepts as a part of a name *)
Definition seg_ok (s : str) : Prop := valid_seg s = true /\ lowered s.

Lemma segs_facts ps : Forall seg_ok ps -> Forall wordy ps /\ Forall lowered ps /\ forallb valid_seg ps = true.
Proof.
  induction 1 as [|x t [Hv Hl] Ht [IH1 [IH2 IH3]]]; [repeat split; constructor|].
  repeat split; try (constructor; auto). apply valid_seg_wordy; exact Hv. cbn [forallb]. rewrite Hv, IH3. reflexivity.
Qed.

Lemma seg_nonempty s : seg_ok s -> s <> [].
Proof. intros [Hv _]. apply valid_seg_wordy; exact Hv. Qed.

Definition path_of (ps : list str) : str := s_types_slash ++ join s_slash ps ++ s_pp.

(* TypedNames of the path of segments ps *)
Lemma typed_name_path m ps : ps <> [] -> Forall seg_ok ps ->
  typed_name m (join s_slash ps ++ s_pp) =
  Ok (trim_dc (join s_dc (if negb (is_global m) &&
                             negb ((length ps =? 1) && (str_eqb (last ps []) s_init || str_eqb (last ps []) s_init_typeset))
                          then m_name m :: ps else ps))).
Proof.
  intros Hne Hs. destruct (segs_facts _ Hs) as [Hw [Hl Hv]].
  unfold typed_name. rewrite (split_on_join_ext ps Hne Hw).
  rewrite last_last, removelast_last.
  assert (Hlen : (length (last ps [] ++ s_pp) <? 3) = false).
  { apply Nat.ltb_ge. rewrite app_length. cbn. lia. }
  rewrite Hlen.
  assert (Hf : firstn (length (last ps [] ++ s_pp) - 3) (last ps [] ++ s_pp) = last ps []).
  { change 3 with (length s_pp). apply firstn_app_exact. }
  rewrite Hf. pose proof (removelast_app_last ps [] Hne) as E. cbv beta in E. unfold str in *. rewrite E. reflexivity.
Qed.

Section PathName.
  Variable m : modl.

  (* global loader: the name with parts ps <-> types/<ps joined by '/'>.pp *)
  Lemma effective_path_global ps : is_global m = true -> ps <> [] -> Forall seg_ok ps ->
    effective_path m (join s_dc ps) = Ok (path_of ps).
  Proof.
    intros G Hne Hs. destruct (segs_facts _ Hs) as [Hw [Hl Hv]].
    unfold effective_path, parts_checked. rewrite (split_dc_join ps Hne Hw), Hv, G. reflexivity.
  Qed.

  Lemma key_of_path_global ps : is_global m = true -> ps <> [] -> Forall seg_ok ps ->
    key_of_rel m (path_of ps) = Some (join s_dc ps).
  Proof.
    intros G Hne Hs. destruct (segs_facts _ Hs) as [Hw [Hl Hv]].
    unfold key_of_rel, path_of. rewrite strip_types_slash.
    assert (Hsuf : has_suffix s_pp (s_types_slash ++ join s_slash ps ++ s_pp) = true) by (rewrite app_assoc; apply has_suffix_app).
    rewrite Hsuf. rewrite (typed_name_path m ps Hne Hs), G. cbn [negb andb].
    destruct ps as [|x t]; [congruence|]. inversion Hw; subst. inversion Hs; subst.
    destruct (join_head_word s_dc x t) as (c & r & E & Hc); auto. { eapply seg_nonempty; eauto. }
    rewrite E, (trim_dc_alpha c r Hc), <- E. f_equal. apply lower_join; [reflexivity|exact Hl].
  Qed.

  (* module loader: the name <module>::ps <-> types/<ps joined by '/'>.pp; a single part init / init_typeset is
     reserved (smartpath.go:134) *)
  Definition reserved (ps : list str) : bool :=
    (length ps =? 1) && (str_eqb (last ps []) s_init || str_eqb (last ps []) s_init_typeset).

  Lemma effective_path_module ps : is_global m = false -> seg_ok (m_name m) -> ps <> [] -> Forall seg_ok ps ->
    effective_path m (join s_dc (m_name m :: ps)) = Ok (path_of ps).
  Proof.
    intros G Hm Hne Hs. assert (Hs' : Forall seg_ok (m_name m :: ps)) by (constructor; auto).
    destruct (segs_facts _ Hs') as [Hw [Hl Hv]].
    assert (Hne' : m_name m :: ps <> []) by discriminate.
    unfold effective_path, parts_checked. rewrite (split_dc_join _ Hne' Hw), Hv, G.
    cbn [negb andb hd tl length]. rewrite str_eqb_refl. cbn [negb orb].
    destruct ps; [congruence|]. reflexivity.
  Qed.

  Lemma key_of_path_module ps : is_global m = false -> seg_ok (m_name m) -> ps <> [] -> Forall seg_ok ps ->
    reserved ps = false ->
    key_of_rel m (path_of ps) = Some (join s_dc (m_name m :: ps)).
  Proof.
    intros G Hm Hne Hs Hr. assert (Hs' : Forall seg_ok (m_name m :: ps)) by (constructor; auto).
    destruct (segs_facts _ Hs') as [Hw [Hl Hv]].
    unfold key_of_rel, path_of. rewrite strip_types_slash.
    assert (Hsuf : has_suffix s_pp (s_types_slash ++ join s_slash ps ++ s_pp) = true) by (rewrite app_assoc; apply has_suffix_app).
    rewrite Hsuf. rewrite (typed_name_path m ps Hne Hs), G.
    unfold reserved in Hr. rewrite Hr. cbn [negb andb].
    inversion Hw; subst.
    destruct (join_head_word s_dc (m_name m) ps) as (c & r & E & Hc); auto. { eapply seg_nonempty; eauto. }
    rewrite E, (trim_dc_alpha c r Hc), <- E. f_equal. apply lower_join; [reflexivity|exact Hl].
  Qed.
End PathName.

(* letter case: a name is used through its normal form only *)
Lemma lower_byte_idem c : lower_byte (lower_byte c) = lower_byte c.
Proof.
  unfold lower_byte. destruct (N.leb 65 c && N.leb c 90) eqn:E; [|rewrite E; reflexivity].
  apply andb_true_iff in E. destruct E as [E1 E2]. apply N.leb_le in E1, E2.
  destruct (N.leb 65 (c + 32) && N.leb (c + 32) 90) eqn:E'; [|reflexivity].
  apply andb_true_iff in E'. destruct E' as [_ E']. apply N.leb_le in E'. lia.
Qed.

Lemma lower_idem s : lower (lower s) = lower s.
Proof. unfold lower. rewrite map_map. apply map_ext. apply lower_byte_idem. Qed.

Lemma lower_byte_colon c : N.eqb (lower_byte c) 58 = N.eqb c 58.
Proof.
  unfold lower_byte. destruct (N.leb 65 c && N.leb c 90) eqn:E; [|reflexivity].
  apply andb_true_iff in E. destruct E as [E1 E2]. apply N.leb_le in E1, E2.
  transitivity false; [|symmetry]; apply N.eqb_neq; lia.
Qed.

Lemma trim_dc_lower s : trim_dc (lower s) = lower (trim_dc s).
Proof.
  destruct s as [|c [|d r]]; try reflexivity. cbn [lower map trim_dc]. unfold is_dc.
  rewrite !lower_byte_colon. destruct (N.eqb c 58 && N.eqb d 58); reflexivity.
Qed.

Lemma norm_name_lower s : norm_name (lower s) = norm_name s.
Proof. unfold norm_name. rewrite trim_dc_lower. apply lower_idem. Qed.

Definition upper_byte (c : N) : N := if (N.leb 97 c && N.leb c 122)%bool then (c - 32)%N else c.
Definition upper (s : str) : str := map upper_byte s.

Lemma lower_upper_byte c : lower_byte (upper_byte c) = lower_byte c.
Proof.
  unfold lower_byte, upper_byte. destruct (N.leb 97 c && N.leb c 122) eqn:E.
  - apply andb_true_iff in E. destruct E as [E1 E2]. apply N.leb_le in E1, E2.
    assert (H1 : (N.leb 65 (c - 32) && N.leb (c - 32) 90) = true).
    { apply andb_true_iff. split; apply N.leb_le; lia. }
    assert (H2 : (N.leb 65 c && N.leb c 90) = false).
    { apply andb_false_iff. right. apply N.leb_gt. lia. }
    rewrite H1, H2. lia.
  - reflexivity.
Qed.

Lemma upper_byte_colon c : N.eqb (upper_byte c) 58 = N.eqb c 58.
Proof.
  unfold upper_byte. destruct (N.leb 97 c && N.leb c 122) eqn:E; [|reflexivity].
  apply andb_true_iff in E. destruct E as [E1 E2]. apply N.leb_le in E1, E2.
  transitivity false; [|symmetry]; apply N.eqb_neq; lia.
Qed.

Lemma norm_name_upper s : norm_name (upper s) = norm_name s.
Proof.
  unfold norm_name.
  assert (Ht : trim_dc (upper s) = upper (trim_dc s)).
  { destruct s as [|c [|d r]]; try reflexivity. cbn [upper map trim_dc]. unfold is_dc.
    rewrite !upper_byte_colon. destruct (N.eqb c 58 && N.eqb d 58); reflexivity. }
  rewrite Ht. unfold lower, upper. rewrite map_map. apply map_ext. apply lower_upper_byte.
Qed.

(* ------------------------------------------------------------------------------------------------------------ *)
(* Part 6: the statements about one lookup after any sequence of operations *)

Definition shadow_wf (w : world) : Prop := forall k nm, shadow w k = Some nm -> nm = k.

(* the lookup of `name` through context `ctx` in the state reached by `ops` *)
Definition lookup_after (w : world) (fuel : nat) (ops : list op) (ctx : Z) (name : str) : state * (out * list (nat * str)) :=
  step w (indexes_of w) fuel (reach w fuel ops) (OpLoad ctx name).

Lemma lookup_after_cases w fuel ops ctx name :
  shadow_wf w ->
  match fst (snd (lookup_after w fuel ops ctx name)) with
  | OFound v => exists v0, found_ok w (norm_name name) v0 /\ tv_name v = tv_name v0 /\ tv_ts v = tv_ts v0 /\
                           (v = v0 \/ tv_marker v = 0%N)
  | OErr e => err_ok w e
  | _ => True
  end.
Proof.
  intros Hsh. unfold lookup_after, step.
  destruct (load w (LEn w (indexes_of w) fuel) (top_ctx ctx) (norm_name name) (reach w fuel ops)) as [s' r] eqn:E.
  pose proof (load_reach w Hsh fuel ops _ _ _ _ E) as H. cbn [snd fst].
  destruct r as [[v|]|e| |]; cbn [out_of_res]; auto.
  exists v. split; [exact H|].
  destruct (existsb (N.eqb (tv_marker v)) (st_unres s')); cbn [tv_name tv_ts tv_marker]; auto.
Qed.

Lemma found_carries_name w fuel ops ctx name s' v rd :
  shadow_wf w -> lookup_after w fuel ops ctx name = (s', (OFound v, rd)) -> tv_name v = norm_name name.
Proof.
  intros Hsh H. pose proof (lookup_after_cases w fuel ops ctx name Hsh) as C. rewrite H in C. cbn [fst snd] in C.
  destruct C as (v0 & [Hn _] & Hn' & _). congruence.
Qed.

(* the definition that a found name stands for: bound by the parent loader, or backed by a file of some module *)
Definition file_or_parent (w : world) (k : str) (v : tval) : Prop :=
  (exists i, backed w i k v) \/ (shadow w k = Some k /\ v = shadow_val k).

Lemma found_has_file w fuel ops ctx name s' v rd :
  shadow_wf w -> lookup_after w fuel ops ctx name = (s', (OFound v, rd)) ->
  exists v0, file_or_parent w (norm_name name) v0 /\ tv_name v = tv_name v0 /\ tv_ts v = tv_ts v0 /\
             (v = v0 \/ tv_marker v = 0%N).
Proof.
  intros Hsh H. pose proof (lookup_after_cases w fuel ops ctx name Hsh) as C. rewrite H in C. cbn [fst snd] in C.
  destruct C as (v0 & [_ Hb] & Hrest). exists v0. split; [exact Hb|exact Hrest].
Qed.

Lemma reported_names_bad_file w fuel ops ctx name s' e rd :
  shadow_wf w -> lookup_after w fuel ops ctx name = (s', (OErr e, rd)) -> err_ok w e.
Proof.
  intros Hsh H. pose proof (lookup_after_cases w fuel ops ctx name Hsh) as C. rewrite H in C. exact C.
Qed.

Lemma read_at_most_once w fuel ops : shadow_wf w -> NoDup (st_reads (reach w fuel ops)).
Proof. intros Hsh. apply reads_nodup. exact Hsh. Qed.

Lemma step_case_insensitive w ixs fuel s ctx n n' :
  norm_name n = norm_name n' -> step w ixs fuel s (OpLoad ctx n) = step w ixs fuel s (OpLoad ctx n').
Proof. intros H. unfold step. rewrite H. reflexivity. Qed.

Lemma step_upper w ixs fuel s ctx n : step w ixs fuel s (OpLoad ctx (upper n)) = step w ixs fuel s (OpLoad ctx n).
Proof. apply step_case_insensitive. apply norm_name_upper. Qed.

Lemma step_lower w ixs fuel s ctx n : step w ixs fuel s (OpLoad ctx (lower n)) = step w ixs fuel s (OpLoad ctx n).
Proof. apply step_case_insensitive. apply norm_name_lower. Qed.

(* ------------------------------------------------------------------------------------------------------------ *)
(* Part 7: what the first lookup that reaches a file does (any layer below: the file's class decides before any
   nested lookup) *)

(* instantiate: the state after the placeholder is set and the content is requested *)
Definition after_read (s : state) (i : nat) (k p : str) : state :=
  {| st_entries := ((i, k), None) :: st_entries s; st_dep := st_dep s; st_kids := st_kids s;
     st_reads := st_reads s ++ [(i, p)]; st_unres := st_unres s |}.

(* the error that a file, instantiated for key k, is reported with *)
Definition bad_err (i : nat) (p : str) (f : file) (k : str) : option err :=
  match f_content f with
  | CUnreadable => Some (EUnreadable i p)
  | CMalformed l => Some (EParse i p l)
  | CNoDef => Some (ENoDef i p (f_defline f))
  | CGood d _ | CTypeSet d _ => if str_eqb (lower d) k then None else Some (EWrongDef i p (f_defline f))
  | CAnon _ => None
  end.

(* the value that a definition file without references to other names binds under key k *)
Definition leaf_val (f : file) (k : str) : option tval :=
  match f_content f with
  | CGood d [] => if str_eqb (lower d) k then Some {| tv_name := k; tv_marker := f_marker f; tv_ts := false |} else None
  | CAnon [] => Some {| tv_name := k; tv_marker := f_marker f; tv_ts := false |}
  | CTypeSet d [] => if str_eqb (lower d) k then Some {| tv_name := k; tv_marker := 0%N; tv_ts := true |} else None
  | _ => None
  end.

Section Surfaces.
  Variable w : world.
  Let ixs := indexes_of w.
  Variable LE : ctxl -> str -> M eres.
  Variable FD : ctxl -> nat -> str -> M eres.
  Notation mod_at := (mod_at w).

  (* the name is one that module i answers for (filebased.go:116-139): any name for a global loader, a valid name
     that starts with the module name otherwise *)
  Definition routed (i : nat) (k : str) : Prop :=
    is_global (mod_at i) = true \/
    (forallb valid_seg (split_dc k) = true /\ str_eqb (m_name (mod_at i)) (hd [] (split_dc k)) = true).

  Lemma instantiate_unfold cl i k origins s :
    get_entry s i k = None ->
    instantiate w LE cl i k origins s =
    match inst_body w LE {| cl_ctx := cl_ctx cl; cl_def := Some i |} i k (hd [] origins) (after_read s i k (hd [] origins)) with
    | (s3, Ok _) => (s3, Ok (get_entry s3 i k))
    | (s3, Er e) => (s3, Er e)
    | (s3, Fault) => (s3, Fault)
    | (s3, Fuel) => (s3, Fuel)
    end.
  Proof.
    intros Hg. unfold instantiate, bind, get_entry_m. rewrite Hg. unfold set_entry_m. rewrite Hg.
    unfold inst_type, bind, log_read_m. cbn [st_entries st_dep st_kids st_reads st_unres]. unfold after_read.
    destruct (inst_body w LE _ i k (hd [] origins) _) as [s3 [[]|e| |]]; reflexivity.
  Qed.

  Lemma inst_body_bad cl i k p f e s :
    file_at (mod_at i) p = Some f -> bad_err i p f k = Some e -> inst_body w LE cl i k p s = (s, Er e).
  Proof.
    intros Hf Hb. unfold inst_body, content_at. rewrite Hf. unfold bad_err in Hb.
    destruct (f_content f) as [d refs|refs|d ms|l| |]; try (inversion Hb; subst; reflexivity).
    - destruct (str_eqb (lower d) k); [discriminate Hb|]. inversion Hb; subst; reflexivity.
    - destruct (str_eqb (lower d) k); [discriminate Hb|]. inversion Hb; subst; reflexivity.
  Qed.

  Lemma instantiate_bad cl i k origins f e s :
    get_entry s i k = None -> file_at (mod_at i) (hd [] origins) = Some f -> bad_err i (hd [] origins) f k = Some e ->
    instantiate w LE cl i k origins s = (after_read s i k (hd [] origins), Er e).
  Proof. intros Hg Hf Hb. rewrite (instantiate_unfold _ _ _ _ _ Hg), (inst_body_bad _ _ _ _ _ _ _ Hf Hb). reflexivity. Qed.

  (* find hands the file of origin_of to instantiate *)
  Lemma find_routes cl i k p s (R : state * res eres) :
    routed i k -> origin_of w i k = Some p ->
    (forall origins, hd [] origins = p -> instantiate w LE cl i k origins s = R) ->
    (match R with (_, Ok (Some (Some v))) => is_global (mod_at i) = false -> is_qualified k = false -> tv_ts v = true
             | (_, Ok _) => is_global (mod_at i) = true \/ is_qualified k = true
             | _ => True end) ->
    find w ixs LE FD cl i k s = R.
  Proof.
    intros Hr Ho Hinst Hts. unfold find, origin_of in *. fold ixs in Ho.
    destruct (is_global (mod_at i)) eqn:G.
    - cbn [negb andb] in Ho. destruct (find_existing_path ixs i k) as [origins|]; [|discriminate Ho].
      cbn [option_map] in Ho. inversion Ho. apply Hinst. assumption.
    - destruct Hr as [Hr|[Hv Hn]]; [unfold FileLoader.mod_at in *; congruence|]. unfold parts_checked. rewrite Hv, Hn. cbn [negb].
      destruct (is_qualified k) eqn:Q.
      + cbn [negb andb] in Ho. destruct (find_existing_path ixs i k) as [origins|]; [|discriminate Ho].
        cbn [option_map] in Ho. inversion Ho. apply Hinst. assumption.
      + cbn [negb andb] in Ho. rewrite (split_dc_unq _ Q) in Hn. cbn [hd] in Hn. rewrite Hn in Ho.
        destruct (find_existing_path ixs i s_init_typeset) as [origins|]; [|discriminate Ho].
        cbn [option_map] in Ho. inversion Ho as [Hp]. unfold bind. rewrite (Hinst origins Hp).
        destruct R as [s3 [[[v|]|]|e| |]]; try reflexivity.
        * rewrite (Hts eq_refl eq_refl). reflexivity.
        * destruct Hts as [Hx|Hx]; discriminate Hx.
        * destruct Hts as [Hx|Hx]; discriminate Hx.
  Qed.

  Lemma find_bad cl i k p f e s :
    routed i k -> origin_of w i k = Some p -> get_entry s i k = None ->
    file_at (mod_at i) p = Some f -> bad_err i p f k = Some e ->
    find w ixs LE FD cl i k s = (after_read s i k p, Er e).
  Proof.
    intros Hr Ho Hg Hf Hb. apply (find_routes cl i k p s _ Hr Ho); [|exact I].
    intros origins Hp. subst p. apply (instantiate_bad cl i k origins f e s); assumption.
  Qed.

  Lemma mod_load_entry_bad cl i k p f e s :
    shadow w k = None -> routed i k -> origin_of w i k = Some p -> get_entry s i k = None ->
    file_at (mod_at i) p = Some f -> bad_err i p f k = Some e ->
    mod_load_entry w ixs LE FD cl i k s = (after_read s i k p, Er e).
  Proof.
    intros Hsh Hr Ho Hg Hf Hb. unfold mod_load_entry, mod_load_own. rewrite Hsh. unfold bind, get_entry_m. rewrite Hg.
    rewrite (find_bad cl i k p f e s Hr Ho Hg Hf Hb). reflexivity.
  Qed.

  (* a definition file that refers to no other name *)
  Definition leaf_state (s : state) (i : nat) (k p : str) (v : tval) : state :=
    {| st_entries := ((i, k), Some v) :: ((i, k), None) :: st_entries s; st_dep := st_dep s; st_kids := st_kids s;
       st_reads := st_reads s ++ [(i, p)];
       st_unres := if tv_ts v then st_unres s
                   else filter (fun x => negb (N.eqb x (tv_marker v))) (tv_marker v :: st_unres s) |}.

  Lemma instantiate_leaf cl i k origins f v s :
    get_entry s i k = None -> file_at (mod_at i) (hd [] origins) = Some f -> leaf_val f k = Some v ->
    instantiate w LE cl i k origins s = (leaf_state s i k (hd [] origins) v, Ok (Some (Some v))).
  Proof.
    intros Hg Hf Hl. rewrite (instantiate_unfold _ _ _ _ _ Hg).
    unfold inst_body, content_at. rewrite Hf. unfold leaf_val in Hl.
    assert (Hph : forall kd, kd = k -> get_entry (after_read s i k (hd [] origins)) i kd = Some None).
    { intros kd ->. unfold get_entry, after_read. cbn [st_entries ent_get]. rewrite mk_eqb_refl. reflexivity. }
    destruct (f_content f) as [d [|r refs]|[|r refs]|d [|mn ms]|l| |]; try discriminate.
    - destruct (str_eqb (lower d) k) eqn:E; [|discriminate]. apply str_eqb_eq in E. inversion Hl; subst v.
      unfold add_alias, bind, set_entry_m, unres_add_m, unres_del_m. rewrite (Hph _ E). cbn [for_each ret].
      unfold leaf_state, get_entry. cbn [st_entries st_dep st_kids st_reads st_unres ent_get tv_ts tv_marker after_read].
      rewrite E, mk_eqb_refl. reflexivity.
    - inversion Hl; subst v.
      unfold add_alias, bind, set_entry_m, unres_add_m, unres_del_m. rewrite (Hph _ eq_refl). cbn [for_each ret].
      unfold leaf_state, get_entry. cbn [st_entries st_dep st_kids st_reads st_unres ent_get tv_ts tv_marker after_read].
      rewrite mk_eqb_refl. reflexivity.
    - destruct (str_eqb (lower d) k) eqn:E; [|discriminate]. apply str_eqb_eq in E. inversion Hl; subst v.
      unfold add_typeset, bind, set_entry_m. cbn [for_each_i ret]. rewrite (Hph _ E).
      unfold leaf_state, get_entry. cbn [st_entries st_dep st_kids st_reads st_unres ent_get tv_ts tv_marker after_read].
      rewrite E, mk_eqb_refl. reflexivity.
  Qed.

  Lemma mod_load_entry_leaf cl i k p f v s :
    shadow w k = None -> routed i k -> origin_of w i k = Some p -> get_entry s i k = None ->
    file_at (mod_at i) p = Some f -> leaf_val f k = Some v ->
    (is_global (mod_at i) = false -> is_qualified k = false -> tv_ts v = true) ->
    mod_load_entry w ixs LE FD cl i k s = (leaf_state s i k p v, Ok (Some (Some v))).
  Proof.
    intros Hsh Hr Ho Hg Hf Hl Hts. unfold mod_load_entry, mod_load_own. rewrite Hsh. unfold bind, get_entry_m. rewrite Hg.
    assert (Hfind : find w ixs LE FD cl i k s = (leaf_state s i k p v, Ok (Some (Some v)))).
    { apply (find_routes cl i k p s _ Hr Ho); [|exact Hts].
      intros origins Hp. subst p. apply (instantiate_leaf cl i k origins f v s); assumption. }
    rewrite Hfind. reflexivity.
  Qed.
End Surfaces.

(* one file-based loader: the lookup, through any context, in any state and at any depth *)
Lemma skipn_app_exact {A} (a b : list A) : skipn (length a) (a ++ b) = b.
Proof. rewrite skipn_app, Nat.sub_diag, skipn_all. reflexivity. Qed.

Lemma LEn_single_mod w n cl k s :
  w_top w = TopSingle ->
  LEn w (indexes_of w) (S n) cl k s =
  ctx_load_entry w (indexes_of w) (LEn w (indexes_of w) n) (FDn w (indexes_of w) n) cl k s.
Proof. reflexivity. Qed.

Lemma step_bad_file w n s ctx name p f e :
  let k := norm_name name in
  w_top w = TopSingle -> shadow w k = None -> routed w 0 k -> origin_of w 0 k = Some p -> get_entry s 0 k = None ->
  file_at (mod_at w 0) p = Some f -> bad_err 0 p f k = Some e ->
  step w (indexes_of w) (S n) s (OpLoad ctx name) = (after_read s 0 k p, (OErr e, [(0, p)])).
Proof.
  intros k Ht Hsh Hr Ho Hg Hf Hb. unfold step. fold k. unfold load, bind.
  assert (HLE : LEn w (indexes_of w) (S n) (top_ctx ctx) k s = (after_read s 0 k p, Er e)).
  { rewrite (LEn_single_mod w n _ k s Ht). unfold ctx_load_entry, top_load_entry. rewrite Ht.
    pose proof (mod_load_entry_bad w (LEn w (indexes_of w) n) (FDn w (indexes_of w) n) (top_ctx ctx) 0 k p f e s Hsh Hr Ho Hg Hf Hb) as Hm.
    destruct (cl_ctx (top_ctx ctx)); [unfold bind|]; rewrite Hm; reflexivity. }
  rewrite HLE. cbn [out_of_res st_reads after_read]. rewrite skipn_app_exact. reflexivity.
Qed.

Lemma step_leaf_file w n s ctx name p f v :
  let k := norm_name name in
  w_top w = TopSingle -> shadow w k = None -> routed w 0 k -> origin_of w 0 k = Some p -> get_entry s 0 k = None ->
  file_at (mod_at w 0) p = Some f -> leaf_val f k = Some v ->
  (is_global (mod_at w 0) = false -> is_qualified k = false -> tv_ts v = true) ->
  step w (indexes_of w) (S n) s (OpLoad ctx name) = (leaf_state s 0 k p v, (OFound v, [(0, p)])).
Proof.
  intros k Ht Hsh Hr Ho Hg Hf Hl Hts. unfold step. fold k. unfold load, bind.
  assert (HLE : LEn w (indexes_of w) (S n) (top_ctx ctx) k s = (leaf_state s 0 k p v, Ok (Some (Some v)))).
  { rewrite (LEn_single_mod w n _ k s Ht). unfold ctx_load_entry, top_load_entry. rewrite Ht.
    pose proof (mod_load_entry_leaf w (LEn w (indexes_of w) n) (FDn w (indexes_of w) n) (top_ctx ctx) 0 k p f v s Hsh Hr Ho Hg Hf Hl Hts) as Hm.
    destruct (cl_ctx (top_ctx ctx)); [unfold bind|]; rewrite Hm; reflexivity. }
  rewrite HLE. cbn [ret out_of_res st_reads leaf_state]. rewrite skipn_app_exact.
  assert (Hobs : (if existsb (N.eqb (tv_marker v)) (st_unres (leaf_state s 0 k p v))
                  then {| tv_name := tv_name v; tv_marker := 0%N; tv_ts := tv_ts v |} else v) = v).
  { unfold leaf_val in Hl. cbn [leaf_state st_unres].
    destruct (tv_ts v) eqn:Ets.
    - assert (Hm0 : tv_marker v = 0%N).
      { destruct (f_content f) as [d [|]|[|]|d [|]| | |]; try discriminate;
          try (destruct (str_eqb (lower d) k); [|discriminate]); inversion Hl; subst v; cbn in Ets; try discriminate; reflexivity. }
      destruct (existsb _ _); [|reflexivity]. destruct v; cbn in *; subst; reflexivity.
    - assert (Hnone : existsb (N.eqb (tv_marker v)) (filter (fun x => negb (N.eqb x (tv_marker v))) (tv_marker v :: st_unres s)) = false).
      { apply not_true_is_false. intros Hex. apply existsb_exists in Hex. destruct Hex as (x & Hin & Hx).
        apply filter_In in Hin. destruct Hin as [_ Hneg]. apply N.eqb_eq in Hx. subst x. rewrite N.eqb_refl in Hneg. discriminate. }
      rewrite Hnone. reflexivity. }
  rewrite Hobs. reflexivity.
Qed.

(* ------------------------------------------------------------------------------------------------------------ *)
(* Part 8: a name without a file stays absent without side effects *)

Lemma parent_name_len : forall s p, parent_name s = Some p -> length p + 2 <= length s.
Proof.
  induction s as [|c r IH]; intros p H; cbn [parent_name] in H; [discriminate|].
  destruct (parent_name r) as [p'|] eqn:E.
  - inversion H; subst. specialize (IH p' eq_refl). cbn [length]. lia.
  - destruct r as [|d r']; [discriminate|]. destruct (is_dc c d); [|discriminate]. inversion H; subst. cbn [length]. lia.
Qed.

Lemma ancestors_f_irrel : forall f1 f2 k, length k <= f1 -> length k <= f2 -> ancestors_f f1 k = ancestors_f f2 k.
Proof.
  induction f1 as [|f1 IH]; intros f2 k H1 H2.
  - destruct k; [|cbn in H1; lia]. destruct f2; reflexivity.
  - destruct f2 as [|f2].
    + destruct k; [reflexivity|cbn in H2; lia].
    + cbn [ancestors_f]. destruct (parent_name k) as [p|] eqn:E; [|reflexivity].
      apply parent_name_len in E. f_equal. apply IH; lia.
Qed.

Lemma ancestors_unfold k : ancestors k = match parent_name k with Some p => p :: ancestors p | None => [] end.
Proof.
  unfold ancestors. destruct k as [|c r]; [reflexivity|]. cbn [length ancestors_f].
  destruct (parent_name (c :: r)) as [p|] eqn:E; [|reflexivity].
  pose proof (parent_name_len _ _ E) as Hl. cbn [length] in Hl. f_equal. apply ancestors_f_irrel; lia.
Qed.

Lemma ancestors_trans : forall n k, length k <= n -> forall t a, In t (ancestors k) -> In a (ancestors t) -> In a (ancestors k).
Proof.
  induction n as [|n IH]; intros k Hn t a Ht Ha.
  - destruct k; [|cbn in Hn; lia]. cbn in Ht. destruct Ht.
  - rewrite ancestors_unfold in Ht |- *. destruct (parent_name k) as [p|] eqn:E; [|destruct Ht].
    pose proof (parent_name_len _ _ E) as Hl. destruct Ht as [<-|Ht].
    + right; exact Ha.
    + right. apply (IH p ltac:(lia) t a Ht Ha).
Qed.

Definition nocolon (s : str) : Prop := Forall (fun c => c <> 58%N) s.

Lemma parent_name_cons c r :
  parent_name (c :: r) =
  match parent_name r with
  | Some p => Some (c :: p)
  | None => match r with d :: _ => if is_dc c d then Some [] else None | [] => None end
  end.
Proof. reflexivity. Qed.

Lemma parent_name_nocolon s : nocolon s -> parent_name s = None.
Proof.
  induction s as [|c r IH]; intros H; [reflexivity|]. inversion H as [|? ? Hc Hr]; subst.
  rewrite parent_name_cons, (IH Hr). destruct r; [reflexivity|]. rewrite (is_dc_false_l _ _ Hc). reflexivity.
Qed.

Lemma parent_name_app x y : nocolon y -> parent_name (x ++ s_dc ++ y) = Some x.
Proof.
  intros Hy. induction x as [|c x' IH].
  - change ([] ++ s_dc ++ y) with (58%N :: 58%N :: y).
    assert (H1 : parent_name (58%N :: y) = None).
    { rewrite parent_name_cons, (parent_name_nocolon y Hy). destruct y as [|d y']; [reflexivity|].
      inversion Hy; subst. unfold is_dc. cbn [N.eqb andb]. destruct (N.eqb d 58) eqn:E; [apply N.eqb_eq in E; congruence|reflexivity]. }
    rewrite parent_name_cons, H1. reflexivity.
  - change ((c :: x') ++ s_dc ++ y) with (c :: (x' ++ s_dc ++ y)). rewrite parent_name_cons, IH. reflexivity.
Qed.

Lemma wordy_nocolon s : wordy s -> nocolon s.
Proof. intros H. eapply Forall_impl; [|exact H]. intros c Hc. apply is_word_chars; exact Hc. Qed.

Section Absent.
  Variable w : world.
  Let ixs := indexes_of w.
  Hypothesis Hsh : shadow_wf w.
  (* the members of a TypeSet have simple names (Pcore::SimpleTypeName; the code rejects a TypeSet otherwise) *)
  Hypothesis Hmem : forall i p f d ms mn,
      file_at (mod_at w i) p = Some f -> f_content f = CTypeSet d ms -> In mn ms -> valid_seg (lower mn) = true.

  (* no file at the path derived from the name nor from any of its ancestors, in module i *)
  Definition chain_absent (i : nat) (k : str) : Prop :=
    origin_of w i k = None /\ forall a, In a (ancestors k) -> origin_of w i a = None.

  Lemma chain_absent_anc i k a : chain_absent i k -> In a (ancestors k) -> chain_absent i a.
  Proof.
    intros [H0 H] Ha. split; [apply H; exact Ha|]. intros b Hb. apply H.
    apply (ancestors_trans (length k) k (le_n _) a b Ha Hb).
  Qed.

  Lemma backed_not_absent i k v : chain_absent i k -> backed w i k v -> False.
  Proof.
    intros [H0 H] [(p & f & Ho & _)|(kp & p & f & d & ms & j & mn & Ho & Hf & Hc & Hd & Hj & Hk & _)].
    - congruence.
    - assert (Hin : In mn ms) by (eapply nth_error_In; exact Hj).
      pose proof (Hmem i p f d ms mn Hf Hc Hin) as Hv. apply valid_seg_wordy in Hv. destruct Hv as [Hw _].
      assert (Hp : parent_name k = Some kp).
      { subst k kp. rewrite !lower_app. change (lower s_dc) with s_dc. apply parent_name_app. apply wordy_nocolon; exact Hw. }
      assert (Hin' : In kp (ancestors k)) by (rewrite ancestors_unfold, Hp; left; reflexivity).
      rewrite (H kp Hin') in Ho. discriminate.
  Qed.

  (* nothing happened *)
  Definition quiet (R : state * res eres) (s : state) : Prop :=
    R = (s, Ok None) \/ R = (s, Fuel) \/ R = (s, Er EInvalidName).

  Lemma origin_none_fep i k :
    (is_global (mod_at w i) = true \/ is_qualified k = true) -> origin_of w i k = None -> find_existing_path ixs i k = None.
  Proof.
    intros Hq Ho. rewrite (origin_general w i k Hq) in Ho. fold ixs in Ho.
    destruct (find_existing_path ixs i k); [discriminate|reflexivity].
  Qed.

  Section LayerAbsent.
    Variable LE : ctxl -> str -> M eres.
    Variable FD : ctxl -> nat -> str -> M eres.
    Hypothesis HFDq : forall cl i k s, chain_absent i k -> get_entry s i k = None -> quiet (FD cl i k s) s.

    Lemma psearch_absent cl i k s : forall anc,
      (forall a, In a anc -> chain_absent i a) -> get_entry s i k = None -> quiet (psearch FD cl i k anc s) s.
    Proof.
      induction anc as [|ts rest IH]; intros Ha Hg; cbn [psearch].
      - left; reflexivity.
      - unfold bind, get_entry_m. destruct (get_entry s i ts) as [e0|] eqn:Ets.
        + apply IH; [intros a Hin; apply Ha; right; exact Hin|exact Hg].
        + destruct (HFDq cl i ts s (Ha ts (or_introl eq_refl)) Ets) as [E|[E|E]]; rewrite E.
          * rewrite Hg. apply IH; [intros a Hin; apply Ha; right; exact Hin|exact Hg].
          * right; left; reflexivity.
          * right; right; reflexivity.
    Qed.

    Lemma find_absent cl i k s :
      chain_absent i k -> get_entry s i k = None -> quiet (find w ixs LE FD cl i k s) s.
    Proof.
      intros Hc Hg. unfold find.
      assert (Hgen : (is_global (mod_at w i) = true \/ is_qualified k = true) ->
                     quiet (match find_existing_path ixs i k with
                            | Some origins => instantiate w LE cl i k origins
                            | None => if is_qualified k then psearch FD cl i k (ancestors k) else ret None
                            end s) s).
      { intros Hq. rewrite (origin_none_fep i k Hq (proj1 Hc)).
        destruct (is_qualified k); [|left; reflexivity].
        apply psearch_absent; [|exact Hg]. intros a Ha. apply (chain_absent_anc i k a Hc Ha). }
      destruct (is_global (mod_at w i)) eqn:G; [apply Hgen; left; reflexivity|].
      unfold parts_checked. destruct (forallb valid_seg (split_dc k)) eqn:V; [|right; right; reflexivity].
      destruct (negb (str_eqb (m_name (mod_at w i)) (hd [] (split_dc k)))) eqn:Nm; [left; reflexivity|].
      destruct (is_qualified k) eqn:Q; [apply Hgen; right; reflexivity|].
      destruct Hc as [Ho _]. unfold origin_of in Ho. rewrite G, Q in Ho. cbn [negb andb] in Ho.
      rewrite (split_dc_unq _ Q) in Nm. cbn [hd] in Nm. apply negb_false_iff in Nm. rewrite Nm in Ho. fold ixs in Ho.
      destruct (find_existing_path ixs i s_init_typeset); [discriminate Ho|]. left; reflexivity.
    Qed.

    (* bindings (not placeholders), cache and read log are untouched *)
    Definition same_b (s s' : state) : Prop :=
      st_reads s' = st_reads s /\ st_dep s' = st_dep s /\
      forall i k v, get_entry s' i k = Some (Some v) <-> get_entry s i k = Some (Some v).

    Lemma same_b_refl s : same_b s s.
    Proof. repeat split; auto. Qed.

    Lemma same_b_trans s1 s2 s3 : same_b s1 s2 -> same_b s2 s3 -> same_b s1 s3.
    Proof.
      intros (R1 & D1 & V1) (R2 & D2 & V2). repeat split; try congruence.
      - intros H. apply V1. apply V2. exact H.
      - intros H. apply V2. apply V1. exact H.
    Qed.

    Lemma same_b_placeholder s i k : get_entry s i k = None -> same_b s (upd_ent s i k None).
    Proof.
      intros Hg. repeat split; auto.
      - rewrite get_upd_ent. destruct (mk_eqb (i0, k0) (i, k)) eqn:E; [discriminate|auto].
      - rewrite get_upd_ent. destruct (mk_eqb (i0, k0) (i, k)) eqn:E; [|auto].
        apply mk_eqb_eq in E. inversion E; subst. congruence.
    Qed.

    (* the answers a lookup of an absent name can give *)
    Definition absent_res (r : res eres) : Prop :=
      r = Ok (Some None) \/ r = Fuel \/ r = Er EInvalidName.

    Lemma mod_load_own_absent cl i k s s' r :
      Inv w s -> chain_absent i k ->
      mod_load_own w ixs LE FD cl i k s = (s', r) -> absent_res r /\ same_b s s'.
    Proof.
      intros Hi Hc Hm. unfold mod_load_own in Hm. unfold bind, get_entry_m in Hm.
      destruct (get_entry s i k) as [[v|]|] eqn:Hg.
      - exfalso. apply (backed_not_absent i k v Hc). apply (inv_val w _ Hi i k v Hg).
      - inversion Hm; subst. split; [left; reflexivity|apply same_b_refl].
      - destruct (find_absent cl i k s Hc Hg) as [E|[E|E]]; rewrite E in Hm.
        + unfold set_entry_m in Hm. rewrite Hg in Hm. inversion Hm; subst.
          split; [left; reflexivity|]. apply (same_b_placeholder s i k Hg).
        + inversion Hm; subst. split; [right; left; reflexivity|apply same_b_refl].
        + inversion Hm; subst. split; [right; right; reflexivity|apply same_b_refl].
    Qed.

    Lemma mod_load_entry_absent cl i k s s' r :
      Inv w s -> shadow w k = None -> chain_absent i k ->
      mod_load_entry w ixs LE FD cl i k s = (s', r) -> absent_res r /\ same_b s s'.
    Proof.
      intros Hi Hs Hc Hm. unfold mod_load_entry in Hm. rewrite Hs in Hm.
      exact (mod_load_own_absent cl i k s s' r Hi Hc Hm).
    Qed.
  End LayerAbsent.

  Lemma FDn_absent n : forall cl i k s, chain_absent i k -> get_entry s i k = None -> quiet (FDn w ixs n cl i k s) s.
  Proof.
    induction n as [|n IH]; intros cl i k s Hc Hg.
    - right; left; reflexivity.
    - change (FDn w ixs (S n) cl i k s) with (find w ixs (LEn w ixs n) (FDn w ixs n) cl i k s).
      apply find_absent; assumption.
  Qed.

  (* Inv is preserved by a module's LoadEntry (Part 3) *)
  Lemma mle_inv n cl i k s s' r :
    Inv w s -> mod_load_entry w ixs (LEn w ixs n) (FDn w ixs n) cl i k s = (s', r) -> Inv w s'.
  Proof.
    intros Hi Hm. destruct (spec_layers w Hsh n) as [H1 H2].
    exact (proj1 (spec_mod_load_entry w Hsh _ _ H1 H2 cl i k s s' r Hi I Hm)).
  Qed.

  Lemma chain_inv n np cl i k s s' r :
    Inv w s -> chain_load_entry w ixs (LEn w ixs n) (FDn w ixs n) np cl i k s = (s', r) -> Inv w s'.
  Proof.
    intros Hi Hm. destruct (spec_layers w Hsh n) as [H1 H2].
    exact (proj1 (spec_chain_load_entry w Hsh _ _ H1 H2 np cl i k s s' r Hi I Hm)).
  Qed.

  (* a chain of file-based loaders none of which has a file for the name *)
  Lemma chain_load_entry_absent n np : forall cl i k s s' r,
    Inv w s -> shadow w k = None -> (forall i, chain_absent i k) ->
    chain_load_entry w ixs (LEn w ixs n) (FDn w ixs n) np cl i k s = (s', r) -> absent_res r /\ same_b s s'.
  Proof.
    induction np as [|np IH]; intros cl i k s s' r Hi Hs Hc Hm; cbn [chain_load_entry] in Hm.
    - exact (mod_load_entry_absent _ _ (FDn_absent n) cl i k s s' r Hi Hs (Hc i) Hm).
    - unfold bind in Hm.
      destruct (chain_load_entry w ixs (LEn w ixs n) (FDn w ixs n) np cl (S i) k s) as [s1 r1] eqn:E1.
      destruct (IH cl (S i) k s s1 r1 Hi Hs Hc E1) as [Hr1 Hb1].
      pose proof (chain_inv n np cl (S i) k s s1 r1 Hi E1) as Hi1.
      destruct Hr1 as [->|[->| ->]].
      + destruct (mod_load_own_absent _ _ (FDn_absent n) cl i k s1 s' r Hi1 (Hc i) Hm) as [Hr Hb].
        split; [exact Hr|]. eapply same_b_trans; eauto.
      + inversion Hm; subst. split; [right; left; reflexivity|exact Hb1].
      + inversion Hm; subst. split; [right; right; reflexivity|exact Hb1].
  Qed.

  Lemma dep_value_not_absent s k v :
    Inv w s -> shadow w k = None -> (forall i, chain_absent i k) -> dep_get (st_dep s) k = Some (Some v) -> False.
  Proof.
    intros Hi Hs Hc Hd. destruct (inv_dep w _ Hi k v Hd) as [_ [[i Hb]|[Hs' _]]].
    - exact (backed_not_absent i k v (Hc i) Hb).
    - congruence.
  Qed.

  Lemma Inv_same_b_dep s s' : same_b s s' -> st_dep s' = st_dep s.
  Proof. intros (_ & D & _); exact D. Qed.

  Lemma dep_loop_absent n cl k : forall m i s s' r,
    Inv w s -> shadow w k = None -> (forall i, chain_absent i k) ->
    (fix loop (n0 : nat) (i0 : nat) : M eres :=
       match n0 with
       | 0 => fun s0 => (s0, Ok (dep_get (st_dep s0) k))
       | S n' => e <- mod_load_entry w ixs (LEn w ixs n) (FDn w ixs n) cl i0 k ;;
                 match e with Some (Some _) => ret e | _ => loop n' (S i0) end
       end) m i s = (s', r) ->
    (r = Ok None \/ absent_res r) /\ same_b s s'.
  Proof.
    induction m as [|m IH]; intros i s s' r Hi Hs Hc Hl.
    - inversion Hl; subst. split; [|apply same_b_refl].
      destruct (dep_get (st_dep s') k) as [[v|]|] eqn:Hd.
      + exfalso. exact (dep_value_not_absent s' k v Hi Hs Hc Hd).
      + right; left; reflexivity.
      + left; reflexivity.
    - unfold bind in Hl.
      destruct (mod_load_entry w ixs (LEn w ixs n) (FDn w ixs n) cl i k s) as [s1 r1] eqn:E1.
      destruct (mod_load_entry_absent _ _ (FDn_absent n) cl i k s s1 r1 Hi Hs (Hc i) E1) as [Hr1 Hb1].
      pose proof (mle_inv n cl i k s s1 r1 Hi E1) as Hi1.
      destruct Hr1 as [->|[->| ->]].
      + destruct (IH (S i) s1 s' r Hi1 Hs Hc Hl) as [Hr Hb]. split; [exact Hr|]. eapply same_b_trans; eauto.
      + inversion Hl; subst. split; [right; right; left; reflexivity|exact Hb1].
      + inversion Hl; subst. split; [right; right; right; reflexivity|exact Hb1].
  Qed.

  Lemma top_load_entry_absent n cl k s s' r :
    Inv w s -> shadow w k = None -> (forall i, chain_absent i k) ->
    top_load_entry w ixs (LEn w ixs n) (FDn w ixs n) cl k s = (s', r) -> absent_res r /\ same_b s s'.
  Proof.
    intros Hi Hs Hc Ht. unfold top_load_entry in Ht. destruct (w_top w).
    - exact (mod_load_entry_absent _ _ (FDn_absent n) cl 0 k s s' r Hi Hs (Hc 0) Ht).
    - unfold dep_load_entry, bind in Ht.
      destruct (dep_get (st_dep s) k) as [[v|]|] eqn:Hd.
      + exfalso. exact (dep_value_not_absent s k v Hi Hs Hc Hd).
      + inversion Ht; subst. split; [left; reflexivity|apply same_b_refl].
      + assert (Hfind : forall s1 r1, dep_find w ixs (LEn w ixs n) (FDn w ixs n) cl k s = (s1, r1) ->
                          (r1 = Ok None \/ absent_res r1) /\ same_b s s1).
        { intros s1 r1 Hf. unfold dep_find in Hf.
          destruct (dep_index_nonempty w && is_qualified k).
          - unfold parts_checked in Hf. destruct (forallb valid_seg (split_dc k)).
            + destruct (dep_index_get w (hd [] (split_dc k))) as [i|].
              * destruct (mod_load_entry_absent _ _ (FDn_absent n) cl i k s s1 r1 Hi Hs (Hc i) Hf) as [Hr Hb].
                split; [right; exact Hr|exact Hb].
              * exact (dep_loop_absent n cl k _ 0 s s1 r1 Hi Hs Hc Hf).
            + inversion Hf; subst. split; [right; right; right; reflexivity|apply same_b_refl].
          - exact (dep_loop_absent n cl k _ 0 s s1 r1 Hi Hs Hc Hf). }
        destruct (dep_find w ixs (LEn w ixs n) (FDn w ixs n) cl k s) as [s1 r1] eqn:Ef.
        destruct (Hfind s1 r1 eq_refl) as [[->|[->|[->| ->]]] Hb]; inversion Ht; subst; split; auto;
          try (left; reflexivity); try (right; left; reflexivity); try (right; right; reflexivity).
    - exact (chain_load_entry_absent n _ cl 0 k s s' r Hi Hs Hc Ht).
  Qed.

  Lemma LEn_absent n cl k s s' r :
    Inv w s -> shadow w k = None -> (forall i, chain_absent i k) ->
    LEn w ixs n cl k s = (s', r) -> ((r = Ok None /\ cl_ctx cl <> None) \/ absent_res r) /\ same_b s s'.
  Proof.
    intros Hi Hs Hc Hl. destruct n as [|n].
    - inversion Hl; subst. split; [right; right; left; reflexivity|apply same_b_refl].
    - change (LEn w ixs (S n) cl k s) with (ctx_load_entry w ixs (LEn w ixs n) (FDn w ixs n) cl k s) in Hl.
      unfold ctx_load_entry in Hl. destruct (cl_ctx cl) as [j|] eqn:Ecl.
      + unfold bind in Hl. destruct (top_load_entry w ixs (LEn w ixs n) (FDn w ixs n) cl k s) as [s1 r1] eqn:Et.
        destruct (top_load_entry_absent n cl k s s1 r1 Hi Hs Hc Et) as [[->|[->| ->]] Hb]; inversion Hl; subst; split; auto.
        * destruct (kid_has s' j k); [right; left; reflexivity|left; split; [reflexivity|discriminate]].
        * right; right; left; reflexivity.
        * right; right; right; reflexivity.
      + destruct (top_load_entry_absent n cl k s s' r Hi Hs Hc Hl) as [Hr Hb]. split; [right; exact Hr|exact Hb].
  Qed.

  (* the lookup: not found (or the name is rejected), nothing read, no binding and no cache entry changed *)
  Lemma step_absent fuel s ctx name s' o rd :
    let k := norm_name name in
    Inv w s -> shadow w k = None -> (forall i, chain_absent i k) ->
    step w ixs fuel s (OpLoad ctx name) = (s', (o, rd)) ->
    (o = ONotFound \/ o = OFuel \/ o = OErr EInvalidName) /\ rd = [] /\ same_b s s'.
  Proof.
    intros k Hi Hs Hc Hst. unfold step in Hst. fold k in Hst. unfold load, bind in Hst.
    destruct (LEn w ixs fuel (top_ctx ctx) k s) as [s1 r1] eqn:El.
    destruct (LEn_absent fuel (top_ctx ctx) k s s1 r1 Hi Hs Hc El) as [Hr (R1 & D1 & V1)].
    assert (Hrd : forall s2, st_reads s2 = st_reads s -> skipn (length (st_reads s)) (st_reads s2) = []).
    { intros s2 ->. apply skipn_all. }
    destruct Hr as [[-> Hne]|[->|[->| ->]]].
    - (* entry == nil: the child loader of the context caches the miss *)
      unfold top_ctx in Hst, Hne. cbn [cl_def cl_ctx] in Hst, Hne.
      destruct (ctx <? 0)%Z; [congruence|].
      inversion Hst; subst; cbn [out_of_res]. split; [left; reflexivity|]. split; [apply Hrd; exact R1|].
      repeat split; auto; apply V1.
    - inversion Hst; subst; cbn [out_of_res]. split; [left; reflexivity|]. split; [apply Hrd; exact R1|]. repeat split; auto; apply V1.
    - inversion Hst; subst; cbn [out_of_res]. split; [right; left; reflexivity|]. split; [apply Hrd; exact R1|]. repeat split; auto; apply V1.
    - inversion Hst; subst; cbn [out_of_res]. split; [right; right; reflexivity|]. split; [apply Hrd; exact R1|]. repeat split; auto; apply V1.
  Qed.
End Absent.

(* ------------------------------------------------------------------------------------------------------------ *)
(* Part 9: absent names, in the state after any sequence of operations *)

Definition members_wf (w : world) : Prop :=
  forall i p f d ms mn,
    file_at (mod_at w i) p = Some f -> f_content f = CTypeSet d ms -> In mn ms -> valid_seg (lower mn) = true.

Lemma lookup_absent w fuel ops ctx name s' o rd :
  shadow_wf w -> members_wf w ->
  shadow w (norm_name name) = None -> (forall i, chain_absent w i (norm_name name)) ->
  lookup_after w fuel ops ctx name = (s', (o, rd)) ->
  (o = ONotFound \/ o = OFuel \/ o = OErr EInvalidName) /\ rd = [] /\ same_b (reach w fuel ops) s'.
Proof.
  intros Hsh Hmem Hs Hc Hl. unfold lookup_after in Hl.
  exact (step_absent w Hsh Hmem fuel (reach w fuel ops) ctx name s' o rd (reach_inv w Hsh fuel ops) Hs Hc Hl).
Qed.

Lemma origin_of_out_of_range w i k : length (w_mods w) <= i -> origin_of w i k = None.
Proof.
  intros Hl. unfold origin_of, find_existing_path, FileLoader.mod_at.
  rewrite (nth_overflow (w_mods w) dummy_mod Hl).
  assert (Hix : nth i (indexes_of w) [] = []).
  { apply nth_overflow. unfold indexes_of. rewrite map_length. exact Hl. }
  rewrite Hix. reflexivity.
Qed.

(* ------------------------------------------------------------------------------------------------------------ *)
(* Part 10: a chain of file-based loaders (environment <- module <- ...): what a loader up the chain has bound is
   what a lookup through the loaders below it answers, whatever those have cached themselves *)

Section ChainParent.
  Variable w : world.
  Let ixs := indexes_of w.
  Variable LE : ctxl -> str -> M eres.
  Variable FD : ctxl -> nat -> str -> M eres.

  Lemma mod_load_own_hit cl i k e s :
    get_entry s i k = Some e -> mod_load_own w ixs LE FD cl i k s = (s, Ok (Some e)).
  Proof. intros Hg. unfold mod_load_own, bind, get_entry_m. rewrite Hg. reflexivity. Qed.

  (* every loader from i upwards has cached a miss *)
  Lemma chain_all_missed np : forall cl i k s,
    shadow w k = None -> (forall j, i <= j <= i + np -> get_entry s j k = Some None) ->
    chain_load_entry w ixs LE FD np cl i k s = (s, Ok (Some None)).
  Proof.
    induction np as [|np IH]; intros cl i k s Hs Hall; cbn [chain_load_entry].
    - unfold mod_load_entry. rewrite Hs. apply mod_load_own_hit. apply Hall. lia.
    - unfold bind. rewrite (IH cl (S i) k s Hs); [|intros j Hj; apply Hall; lia].
      apply mod_load_own_hit. apply Hall. lia.
  Qed.

  (* loader j (i <= j <= i + np) has bound v, the loaders above it have cached misses; the loaders below it may
     hold anything (a stale cached miss in particular) *)
  Lemma chain_parent_wins np : forall cl i k s j v,
    shadow w k = None -> i <= j <= i + np -> get_entry s j k = Some (Some v) ->
    (forall j', j < j' <= i + np -> get_entry s j' k = Some None) ->
    chain_load_entry w ixs LE FD np cl i k s = (s, Ok (Some (Some v))).
  Proof.
    induction np as [|np IH]; intros cl i k s j v Hs Hj Hv Hab; cbn [chain_load_entry].
    - assert (j = i) by lia. subst j. unfold mod_load_entry. rewrite Hs. apply mod_load_own_hit. exact Hv.
    - unfold bind. destruct (Nat.eq_dec j i) as [->|Hne].
      + rewrite (chain_all_missed np cl (S i) k s Hs); [|intros j' Hj'; apply Hab; lia].
        apply mod_load_own_hit. exact Hv.
      + rewrite (IH cl (S i) k s j v Hs); [reflexivity|lia|exact Hv|intros j' Hj'; apply Hab; lia].
  Qed.
End ChainParent.

Lemma step_chain_parent_binding w n s ctx name j v :
  let k := norm_name name in
  w_top w = TopChain -> shadow w k = None -> j < length (w_mods w) ->
  get_entry s j k = Some (Some v) ->
  (forall j', j < j' < length (w_mods w) -> get_entry s j' k = Some None) ->
  exists v', step w (indexes_of w) (S n) s (OpLoad ctx name) = (s, (OFound v', [])) /\
             tv_name v' = tv_name v /\ tv_ts v' = tv_ts v /\ (v' = v \/ tv_marker v' = 0%N).
Proof.
  intros k Ht Hsh Hj Hv Hab. unfold step. fold k. unfold load, bind.
  assert (HLE : LEn w (indexes_of w) (S n) (top_ctx ctx) k s = (s, Ok (Some (Some v)))).
  { change (LEn w (indexes_of w) (S n) (top_ctx ctx) k s)
      with (ctx_load_entry w (indexes_of w) (LEn w (indexes_of w) n) (FDn w (indexes_of w) n) (top_ctx ctx) k s).
    unfold ctx_load_entry, top_load_entry. rewrite Ht.
    pose proof (chain_parent_wins w (LEn w (indexes_of w) n) (FDn w (indexes_of w) n) (length (w_mods w) - 1)
                  (top_ctx ctx) 0 k s j v Hsh ltac:(lia) Hv ltac:(intros j' Hj'; apply Hab; lia)) as Hm.
    destruct (cl_ctx (top_ctx ctx)); [unfold bind|]; rewrite Hm; reflexivity. }
  rewrite HLE. cbn [ret out_of_res]. rewrite skipn_all.
  eexists. split; [reflexivity|].
  destruct (existsb (N.eqb (tv_marker v)) (st_unres s)); cbn [tv_name tv_ts tv_marker]; auto.
Qed.
