(* Proofs about Model/DescribeHist.v: the describer for named expected types (total, empty iff assignable, below the
   given path) and the history theorem - the state-passing run answers every call as the call alone is answered. *)
From Coq Require Import ZArith NArith Bool List Arith Lia.
From PcoreV Require Import Model.Base Model.Ty Model.Lattice Model.Describe Model.DescribeHist Proofs.DescribeProofs.
Import ListNotations.

(* ---- Part 1: named expected types ---- *)
Section NamedProofs.
  Variable rx : str -> str -> bool.
  Variable teq : ty -> ty -> bool.

  Lemma alias_single_ok p r : okr r -> okr (alias_single p r).
  Proof. intros [ms ->]. destruct ms as [|m [|m' ms]]; cbn; eexists; reflexivity. Qed.

  Lemma alias_single_below p r : all_below p r -> all_below p (alias_single p r).
  Proof.
    intros H. destruct r as [[|m [|m' ms]]|s]; cbn; try exact H.
    intros ms E. injection E as <-. constructor; [apply below_here|constructor].
  Qed.

  Lemma idesc_al_total : forall t, total (idesc_al rx teq t).
  Proof.
    induction t; intros act pth; cbn [idesc_al];
      try (apply idesc_total).
    - apply guarded_ok. apply alias_single_ok. apply describe_variant_ok.
      apply Forall_map. apply Forall_forall. intros vt _. cbn [snd]. apply idesc_total.
    - apply guarded_ok. apply describe_optional_ok. assumption.
  Qed.

  Lemma idesc_al_keeps : forall t, keeps (idesc_al rx teq t).
  Proof.
    induction t; intros act pth; cbn [idesc_al];
      try (apply idesc_keeps).
    - apply all_below_guarded. apply alias_single_below. apply describe_variant_below.
      apply Forall_map. apply Forall_forall. intros vt _. cbn [snd]. apply idesc_keeps.
    - apply all_below_guarded. apply describe_optional_below. assumption.
  Qed.

  Lemma ndesc_total : forall e a p, okr (ndesc rx teq e a p).
  Proof.
    induction e as [t|n r IH]; intros a p; cbn [ndesc].
    - apply describe_total.
    - apply guarded_ok. destruct r as [t|n2 r2]; [apply idesc_al_total|apply IH].
  Qed.

  Lemma ndesc_empty_iff e a p : ndesc rx teq e a p = Ok [] <-> nasg rx e a = true.
  Proof.
    destruct e as [t|n r]; cbn [ndesc]; unfold nasg.
    - cbn [nresolve]. exact (describe_empty_iff rx teq t a p).
    - exact (guarded_empty_iff rx teq _ a p _).
  Qed.

  Lemma ndesc_keeps : forall e a p, all_below p (ndesc rx teq e a p).
  Proof.
    induction e as [t|n r IH]; intros a p; cbn [ndesc].
    - intros ms E. eapply describe_below; eauto.
    - apply all_below_guarded. destruct r as [t|n2 r2]; [apply idesc_al_keeps|apply IH].
  Qed.

  Theorem ndescribe_total e a p : exists ms, ndescribe rx teq e a p = Ok ms.
  Proof. apply ndesc_total. Qed.

  Theorem ndescribe_empty_iff e a p : ndescribe rx teq e a p = Ok [] <-> nasg rx e a = true.
  Proof. apply ndesc_empty_iff. Qed.

  Theorem ndescribe_below e a p ms : ndescribe rx teq e a p = Ok ms -> Forall (below p) ms.
  Proof. apply ndesc_keeps. Qed.

  Theorem ndescribe_names_subject e a subj p ms :
    ndescribe rx teq e a (subj :: p) = Ok ms -> Forall (fun m => hd_error (snd m) = Some subj) ms.
  Proof.
    intros E. eapply Forall_impl; [|apply (ndescribe_below _ _ _ _ E)].
    intros [c q] [r Hr]. cbn in Hr |- *. subst q. reflexivity.
  Qed.

End NamedProofs.

(* ---- Part 2: histories ---- *)
Section HistProofs.
  Variables E A V : Type.
  Variable asgE : E -> A -> bool.
  Variable instE : E -> V -> bool.
  Variable desc : str -> E -> A -> res (list mismatch).
  Variable dt : V -> A.
  Notation step := (step E A V asgE instE desc dt).
  Notation hrun := (hrun E A V asgE instE desc dt).
  Notation hstate := (hstate E A V asgE instE desc dt).
  Notation alone := (alone E A V asgE instE desc dt).
  Notation consistent := (consistent E A V dt).
  Notation detailed := (detailed A V dt).

  Lemma consistent_nil w : consistent w [].
  Proof. intros i t H. discriminate. Qed.

  (* the kept type of a value object is the computed one: DetailedValueType answers as on the first request *)
  Lemma detailed_value w st i v :
    consistent w st -> nth_error (w_vs w) i = Some v -> fst (detailed st i v) = dt v.
  Proof.
    intros C Hv. unfold DescribeHist.detailed. destruct (cache_get A i st) as [t|] eqn:G; cbn; [|reflexivity].
    destruct (C i t G) as (v' & Hv' & ->). congruence.
  Qed.

  Lemma detailed_consistent w st i v :
    consistent w st -> nth_error (w_vs w) i = Some v -> consistent w (snd (detailed st i v)).
  Proof.
    intros C Hv. unfold DescribeHist.detailed. destruct (cache_get A i st) as [t|] eqn:G; cbn; [exact C|].
    intros j t. cbn [cache_get]. destruct (Nat.eqb j i) eqn:J.
    - apply Nat.eqb_eq in J. subst j. intros [= <-]. eauto.
    - apply C.
  Qed.

  Lemma step_consistent w st c : consistent w st -> consistent w (snd (step w st c)) .
  Proof.
    intros C. destruct c as [name e a|p e a|p e a|p e v|p e v]; cbn [DescribeHist.step];
      try (destruct (nth_error (w_es w) e) as [te|]; [|exact C]; destruct (nth_error (w_as w) a) as [ta|]; exact C).
    - destruct (nth_error (w_es w) e) as [te|]; [|exact C].
      destruct (nth_error (w_vs w) v) as [tv|] eqn:Hv; [|exact C].
      destruct (instE te tv); [exact C|].
      pose proof (detailed_consistent w st v tv C Hv) as D.
      destruct (detailed st v tv) as [t st']. exact D.
    - destruct (nth_error (w_es w) e) as [te|]; [|exact C].
      destruct (nth_error (w_vs w) v) as [tv|] eqn:Hv; [|exact C].
      pose proof (detailed_consistent w st v tv C Hv) as D.
      destruct (detailed st v tv) as [t st']. exact D.
  Qed.

  (* the answer does not depend on the state the earlier calls left *)
  Lemma step_answer w st c : consistent w st -> fst (step w st c) = alone w c.
  Proof.
    intros C. unfold DescribeHist.alone.
    destruct c as [name e a|p e a|p e a|p e v|p e v]; cbn [DescribeHist.step];
      try (destruct (nth_error (w_es w) e) as [te|]; [|reflexivity]; destruct (nth_error (w_as w) a) as [ta|]; reflexivity).
    - destruct (nth_error (w_es w) e) as [te|]; [|reflexivity].
      destruct (nth_error (w_vs w) v) as [tv|] eqn:Hv; [|reflexivity].
      destruct (instE te tv); [reflexivity|].
      pose proof (detailed_value w st v tv C Hv) as D1.
      pose proof (detailed_value w [] v tv (consistent_nil w) Hv) as D2.
      destruct (detailed st v tv) as [t st']. destruct (detailed [] v tv) as [t0 st0].
      cbn in D1, D2 |- *. congruence.
    - destruct (nth_error (w_es w) e) as [te|]; [|reflexivity].
      destruct (nth_error (w_vs w) v) as [tv|] eqn:Hv; [|reflexivity].
      pose proof (detailed_value w st v tv C Hv) as D1.
      pose proof (detailed_value w [] v tv (consistent_nil w) Hv) as D2.
      destruct (detailed st v tv) as [t st']. destruct (detailed [] v tv) as [t0 st0].
      cbn in D1, D2 |- *. congruence.
  Qed.

  Lemma hrun_alone_from w : forall cs st, consistent w st -> hrun w st cs = map (alone w) cs.
  Proof.
    induction cs as [|c cs IH]; intros st C; cbn [DescribeHist.hrun map]; [reflexivity|].
    pose proof (step_answer w st c C) as Ans. pose proof (step_consistent w st c C) as C'.
    destruct (step w st c) as [ans st']. cbn in Ans, C'. rewrite Ans. f_equal. apply IH. exact C'.
  Qed.

  (* EVERY history, from the initial state: the answers are those of the calls alone *)
  Theorem hrun_alone w cs : hrun w [] cs = map (alone w) cs.
  Proof. apply hrun_alone_from. apply consistent_nil. Qed.

  Lemma hstate_consistent w : forall cs st, consistent w st -> consistent w (hstate w st cs).
  Proof.
    induction cs as [|c cs IH]; intros st C; cbn [DescribeHist.hstate]; [exact C|].
    apply IH. apply step_consistent. exact C.
  Qed.

  Lemma hrun_app w : forall pre st cs, hrun w st (pre ++ cs) = hrun w st pre ++ hrun w (hstate w st pre) cs.
  Proof.
    induction pre as [|c pre IH]; intros st cs; cbn [app DescribeHist.hrun DescribeHist.hstate]; [reflexivity|].
    destruct (step w st c) as [ans st'] eqn:S. cbn [snd app]. f_equal. apply IH.
  Qed.

  (* a call after ANY history is answered as the call alone *)
  Theorem after_any_history w pre c : hrun w (hstate w [] pre) [c] = [alone w c].
  Proof. apply (hrun_alone_from w [c]). apply hstate_consistent. apply consistent_nil. Qed.

  (* the same call (same objects, same subject) gets the same answer wherever it stands in whichever two histories *)
  Theorem same_call_same_answer w pre1 pre2 c :
    hrun w (hstate w [] pre1) [c] = hrun w (hstate w [] pre2) [c].
  Proof. now rewrite !after_any_history. Qed.

  Lemma nth_error_hrun w cs i c : nth_error cs i = Some c -> nth_error (hrun w [] cs) i = Some (alone w c).
  Proof. intros H. rewrite hrun_alone. now apply map_nth_error. Qed.
End HistProofs.

(* ---- Part 3: named types: what a call in a history answers ---- *)
Section NamedHistProofs.
  Variable rx : str -> str -> bool.
  Variable teq : ty -> ty -> bool.

  Theorem nrun_alone (w : nworld) cs : nrun rx teq w [] cs = map (nalone rx teq w) cs.
  Proof. apply hrun_alone. Qed.

  Definition subject_elem (name : str) : pelem := (PSubject, KName (fn_prefix ++ name ++ [58%N])).

  (* the call alone: every mismatch it reports is headed by the subject IT was given *)
  Lemma nalone_names_subject (w : nworld) c :
    Forall (fun m => hd_error (snd m) = Some (subject_elem (call_name c))) (answer_mismatches (nalone rx teq w c)).
  Proof.
    unfold nalone, alone.
    assert (D : forall name e a ms, ndescribe_mismatch rx teq name e a = Ok ms ->
                Forall (fun m => hd_error (snd m) = Some (subject_elem name)) ms).
    { intros name e a ms H. unfold ndescribe_mismatch, subject_path in H. eapply ndescribe_names_subject; eauto. }
    assert (TM : forall name e a, Forall (fun m => hd_error (snd m) = Some (subject_elem name))
                 (answer_mismatches (AOut (tm_error nty ty (ndescribe_mismatch rx teq) name e a)))).
    { intros name e a. unfold tm_error. destruct (ndescribe_mismatch rx teq name e a) as [ms|s] eqn:H; cbn; [eauto|constructor]. }
    assert (ME : forall name e a, Forall (fun m => hd_error (snd m) = Some (subject_elem name))
                 (answer_mismatches (AOut (m_error nty ty (ndescribe_mismatch rx teq) name e a)))).
    { intros name e a. unfold m_error. destruct (ndescribe_mismatch rx teq name e a) as [ms|s] eqn:H; cbn; [|constructor].
      destruct ms as [|m ms]; [constructor; [reflexivity|constructor]|eauto]. }
    destruct c as [name e a|p e a|p e a|p e v|p e v]; cbn [step call_name fst].
    - destruct (nth_error (w_es w) e) as [te|]; [|constructor]. destruct (nth_error (w_as w) a) as [ta|]; [|constructor].
      cbn. destruct (ndescribe_mismatch rx teq name te ta) as [ms|s] eqn:H; [eauto|constructor].
    - destruct (nth_error (w_es w) e) as [te|]; [|constructor]. destruct (nth_error (w_as w) a) as [ta|]; [|constructor].
      cbn [fst]. destruct (nasg rx te ta); [constructor|apply TM].
    - destruct (nth_error (w_es w) e) as [te|]; [|constructor]. destruct (nth_error (w_as w) a) as [ta|]; [|constructor].
      cbn [fst]. apply TM.
    - destruct (nth_error (w_es w) e) as [te|]; [|constructor]. destruct (nth_error (w_vs w) v) as [tv|]; [|constructor].
      destruct (ninst rx te (fst tv)); [constructor|]. cbn. apply ME.
    - destruct (nth_error (w_es w) e) as [te|]; [|constructor]. destruct (nth_error (w_vs w) v) as [tv|]; [|constructor].
      cbn. apply ME.
  Qed.

  (* in EVERY history every answer names the subject of ITS call - never the subject of an earlier call *)
  Theorem nrun_names_its_subject (w : nworld) cs i c ans :
    nth_error cs i = Some c -> nth_error (nrun rx teq w [] cs) i = Some ans ->
    Forall (fun m => hd_error (snd m) = Some (subject_elem (call_name c))) (answer_mismatches ans).
  Proof.
    intros Hc Ha. unfold nrun in Ha. rewrite (nth_error_hrun _ _ _ _ _ _ _ w cs i c Hc) in Ha.
    injection Ha as <-. apply nalone_names_subject.
  Qed.

  (* in every history: the description is empty exactly when the types are assignable; it is never a fault *)
  Theorem nrun_describe_empty_iff (w : nworld) cs i name e a te ta :
    nth_error cs i = Some (CDescribe name e a) -> nth_error (w_es w) e = Some te -> nth_error (w_as w) a = Some ta ->
    exists ms, nth_error (nrun rx teq w [] cs) i = Some (ADesc (Ok ms)) /\ (ms = [] <-> nasg rx te ta = true).
  Proof.
    intros Hc He Ha. unfold nrun. rewrite (nth_error_hrun _ _ _ _ _ _ _ w cs i _ Hc).
    unfold alone. cbn [step]. rewrite He, Ha. cbn [fst].
    destruct (ndescribe_total rx teq te ta (subject_path name)) as [ms E].
    exists ms. unfold ndescribe_mismatch. rewrite E. split; [reflexivity|].
    rewrite <- (ndescribe_empty_iff rx teq te ta (subject_path name)). rewrite E. split; congruence.
  Qed.

  (* in every history: AssertInstance returns exactly on instances and otherwise raises the type mismatch issue with a
     non-empty detail, whatever the earlier calls were and whatever type is inferred for the value *)
  Theorem nrun_assert_instance (w : nworld) cs i p e v te tv :
    nth_error cs i = Some (CAssertInstance p e v) -> nth_error (w_es w) e = Some te -> nth_error (w_vs w) v = Some tv ->
    (ninst rx te (fst tv) = true /\ nth_error (nrun rx teq w [] cs) i = Some (AOut (Ok Returns))) \/
    (ninst rx te (fst tv) = false /\
     exists m ms, nth_error (nrun rx teq w [] cs) i = Some (AOut (Ok (Raises TypeMismatchIssue (m :: ms))))).
  Proof.
    intros Hc He Hv. unfold nrun. rewrite (nth_error_hrun _ _ _ _ _ _ _ w cs i _ Hc).
    unfold alone. cbn [step]. rewrite He, Hv.
    destruct (ninst rx te (fst tv)) eqn:I; [left; split; reflexivity|right; split; [reflexivity|]].
    cbn. unfold m_error, ndescribe_mismatch.
    destruct (ndescribe_total rx teq te (snd tv) (subject_path (get_prefix p))) as [ms E]. rewrite E. cbn.
    destruct ms as [|m ms]; eauto.
  Qed.
End NamedHistProofs.
