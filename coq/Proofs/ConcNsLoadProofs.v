(* C13 - several namespaces, one file (Model/ConcNs.v): WHAT a load returns.  For every set of files, number of
   namespaces, program and schedule: a px.Load of a good file through a namespace OTHER than the first returns the
   value that the (one) instantiation of the file bound - never "not found", never an error.  (Through the first
   namespace a load can meet the mark and answer "not found": open finding load-during-instantiate.)

   Invariant linv, on top of ConcNsProofs.ninv: while a thread is at "instantiate.marked" for a file, the lock table
   still maps the first-namespace name to the mutex that this thread holds, every thread on its way into the
   instantiation of that file has that mutex and nobody is past the critical section; the names of the other
   namespaces of a good file never hold an entry without value; a value is bound in all namespaces at once. *)
From Coq Require Import NArith Arith Bool List Lia.
From PcoreV Require Import Model.ConcNs Proofs.ConcNsProofs.
Import ListNotations.

Definition good (c : ncfg) (b : N) : Prop := has_file c b = true /\ is_bad c b = false.
Definition marked_lk (p : npc) : option (N * nlockid) := match p with NMarked _ b lk => Some (b, lk) | _ => None end.

Lemma marked_lk_b : forall p b lk, marked_lk p = Some (b, lk) -> marked_b p = Some b.
Proof. intros p b lk H. destruct p; try discriminate. cbn in *. now injection H as -> _. Qed.
Lemma marked_b_lk : forall p b, marked_b p = Some b -> exists lk, marked_lk p = Some (b, lk).
Proof. intros p b H. destruct p; try discriminate. cbn in *. injection H as ->. eauto. Qed.
Lemma marked_not_waits : forall p b lk, marked_lk p = Some (b, lk) -> waits_b p = None /\ unlocked_b p = None.
Proof. intros p b lk H. destruct p; try discriminate. auto. Qed.

Record linv (c : ncfg) (st : nstate) : Prop := mkLInv {
  l_sv : forall b s k, good c b -> s <= n_extra c -> nents (ns_sh st) s b = Some (Some k) ->
           k = 0 /\ forall s', s' <= n_extra c -> nents (ns_sh st) s' b = Some (Some 0);
  l_nh : forall b s, good c b -> 1 <= s -> s <= n_extra c -> nents (ns_sh st) s b <> Some None;
  l_h0 : forall b, good c b -> nents (ns_sh st) 0 b = Some None -> exists t, marked_b (pcof st t) = Some b;
  l_mk : forall t b, marked_b (pcof st t) = Some b -> nents (ns_sh st) 0 b = Some None;
  l_ml : forall t b lk, marked_lk (pcof st t) = Some (b, lk) ->
           nlockmap (ns_sh st) 0 b = Some lk /\
           (forall t2 lk2, waits_b (pcof st t2) = Some (b, lk2) -> lk2 = lk) /\
           (forall t2, unlocked_b (pcof st t2) <> Some b);
  l_bs : forall t s b, pcof st t = NBeforeSet s b -> good c b -> s <= n_extra c -> False;
  l_un : forall t s b lk r, pcof st t = NUnlocked s b lk r -> good c b -> s <= n_extra c -> r = Some (NdVal 0);
  l_res : forall t s b r, In (NvRes t (NLoad s b) r) (ns_log st) -> good c b -> 1 <= s -> s <= n_extra c ->
           r = NFound (Some 0)
}.

Lemma linv_init : forall c p, linv c (ninit p).
Proof.
  intros c p. constructor; unfold pcof; cbn; intros; try discriminate; try contradiction.
Qed.

Lemma linv_move : forall c st t p' todo sh' log',
  ninv c st -> linv c st ->
  (forall b s k, good c b -> s <= n_extra c -> nents sh' s b = Some (Some k) ->
       k = 0 /\ forall s', s' <= n_extra c -> nents sh' s' b = Some (Some 0)) ->
  (forall b s, good c b -> 1 <= s -> s <= n_extra c -> nents sh' s b <> Some None) ->
  (forall b, good c b -> nents sh' 0 b = Some None ->
       (exists t0, t0 <> t /\ marked_b (pcof st t0) = Some b) \/ marked_b p' = Some b) ->
  (forall t0 b, t0 <> t -> marked_b (pcof st t0) = Some b -> nents sh' 0 b = Some None) ->
  (forall b, marked_b p' = Some b -> nents sh' 0 b = Some None) ->
  (forall t0 b lk, t0 <> t -> marked_lk (pcof st t0) = Some (b, lk) ->
       nlockmap sh' 0 b = Some lk /\ (forall lk2, waits_b p' = Some (b, lk2) -> lk2 = lk) /\ unlocked_b p' <> Some b) ->
  (forall b lk, marked_lk p' = Some (b, lk) ->
       nlockmap sh' 0 b = Some lk /\ (forall t2 lk2, t2 <> t -> waits_b (pcof st t2) = Some (b, lk2) -> lk2 = lk) /\
       (forall t2, t2 <> t -> unlocked_b (pcof st t2) <> Some b)) ->
  (forall s b, p' = NBeforeSet s b -> good c b -> s <= n_extra c -> False) ->
  (forall s b lk r, p' = NUnlocked s b lk r -> good c b -> s <= n_extra c -> r = Some (NdVal 0)) ->
  (forall t' s b r, In (NvRes t' (NLoad s b) r) log' ->
       In (NvRes t' (NLoad s b) r) (ns_log st) \/ (good c b -> 1 <= s -> s <= n_extra c -> r = NFound (Some 0))) ->
  linv c (mkNSt sh' (nupd1 (ns_thr st) t (mkNT p' todo)) log').
Proof.
  intros c st t p' todo sh' log' HN HL Hsv Hnh Hh0 Hmko Hmkn Hmlo Hmln Hbs Hun Hres.
  assert (Hpc : forall t0, pcof (mkNSt sh' (nupd1 (ns_thr st) t (mkNT p' todo)) log') t0 =
                           if Nat.eqb t0 t then p' else pcof st t0).
  { intros t0. rewrite pcof_upd. reflexivity. }
  constructor; cbn [ns_sh ns_log].
  - exact Hsv.
  - exact Hnh.
  - intros b Hg Hx. destruct (Hh0 b Hg Hx) as [(t0 & Hne & Hm)|Hm].
    + exists t0. rewrite Hpc. destruct (Nat.eqb_spec t0 t); [contradiction|exact Hm].
    + exists t. rewrite Hpc, Nat.eqb_refl. exact Hm.
  - intros t0 b Hx. rewrite Hpc in Hx. destruct (Nat.eqb_spec t0 t) as [Heq|Hne]; [subst t0|]; [now apply Hmkn | now apply (Hmko t0)].
  - intros t0 b lk Hx. rewrite Hpc in Hx. destruct (Nat.eqb_spec t0 t) as [Heq|Hne]; [subst t0|].
    + destruct (Hmln b lk Hx) as (A1 & A2 & A3). destruct (marked_not_waits _ _ _ Hx) as [W U].
      split; [exact A1|split].
      * intros t2 lk2 Hy. rewrite Hpc in Hy. destruct (Nat.eqb_spec t2 t) as [Heq|Hne2]; [subst t2|]; [congruence | now apply (A2 t2)].
      * intros t2 Hy. rewrite Hpc in Hy. destruct (Nat.eqb_spec t2 t) as [Heq|Hne2]; [subst t2|]; [congruence | now apply (A3 t2)].
    + destruct (Hmlo t0 b lk Hne Hx) as (A1 & A2 & A3). destruct (l_ml c st HL t0 b lk Hx) as (_ & B2 & B3).
      split; [exact A1|split].
      * intros t2 lk2 Hy. rewrite Hpc in Hy. destruct (Nat.eqb_spec t2 t) as [Heq|Hne2]; [subst t2|]; [now apply A2 | now apply (B2 t2)].
      * intros t2 Hy. rewrite Hpc in Hy. destruct (Nat.eqb_spec t2 t) as [Heq|Hne2]; [subst t2|]; [contradiction | now apply (B3 t2)].
  - intros t0 s b Hx Hg Hs. rewrite Hpc in Hx. destruct (Nat.eqb_spec t0 t) as [Heq|Hne]; [subst t0|].
    + exact (Hbs s b Hx Hg Hs).
    + exact (l_bs c st HL t0 s b Hx Hg Hs).
  - intros t0 s b lk r Hx Hg Hs. rewrite Hpc in Hx. destruct (Nat.eqb_spec t0 t) as [Heq|Hne]; [subst t0|].
    + exact (Hun s b lk r Hx Hg Hs).
    + exact (l_un c st HL t0 s b lk r Hx Hg Hs).
  - intros t0 s b r Hx Hg H1 Hs. destruct (Hres t0 s b r Hx) as [Ho|Hn].
    + exact (l_res c st HL t0 s b r Ho Hg H1 Hs).
    + now apply Hn.
Qed.

(* ---- small facts ------------------------------------------------------------------------------------------ *)

Lemma marked_lk_holds : forall p b lk, marked_lk p = Some (b, lk) -> nholds p = Some lk.
Proof. intros p b lk H. destruct p; try discriminate. cbn in *. now injection H as _ ->. Qed.

Lemma nfinish_eq : forall t s b e,
  nfinish t s b e = (NIdle, [NvRes t (NLoad s b) (NFound (match e with NdVal k => Some k | _ => None end))]).
Proof. intros. destruct e; reflexivity. Qed.

Lemma in_log_nil : forall (e : nevent) log, In e (log ++ []) -> In e log.
Proof. intros e log H. now rewrite app_nil_r in H. Qed.
Lemma in_log_res : forall log t o r0 t' s b r,
  In (NvRes t' (NLoad s b) r) (log ++ [NvRes t o r0]) ->
  In (NvRes t' (NLoad s b) r) log \/ (t = t' /\ o = NLoad s b /\ r0 = r).
Proof.
  intros log t o r0 t' s b r H. apply in_app_or in H. destruct H as [H|[H|[]]]; [now left|right].
  injection H as -> -> ->. auto.
Qed.
Lemma in_log_parse : forall log t b0 t' o r,
  In (NvRes t' o r) (log ++ [NvParse t b0]) -> In (NvRes t' o r) log.
Proof. intros log t b0 t' o r H. apply in_app_or in H. destruct H as [H|[H|[]]]; [exact H|discriminate]. Qed.

Lemma nupd2_other_s : forall A (f : nsid -> N -> A) s b a s' b', s' <> s -> nupd2 f s b a s' b' = f s' b'.
Proof.
  intros A f s b a s' b' H. unfold nupd2. destruct (Nat.eqb s' s) eqn:E; [apply Nat.eqb_eq in E; contradiction|reflexivity].
Qed.

Lemma nset_hole_keep : forall sh s b s' b' e, nents sh s' b' = Some e -> nents (nset_hole sh s b) s' b' = Some e.
Proof.
  intros sh s b s' b' e H. unfold nset_hole. destruct (nents sh s b) eqn:E; [exact H|].
  cbn [nset_ents nents]. unfold nupd2. destruct (Nat.eqb_spec s' s) as [->|Hs]; cbn [andb]; [|exact H].
  destruct (N.eqb_spec b' b) as [->|Hb]; [congruence|exact H].
Qed.
Lemma nset_hole_inv : forall sh s b s' b' e, nents (nset_hole sh s b) s' b' = Some e ->
  nents sh s' b' = Some e \/ (s' = s /\ b' = b /\ e = None).
Proof.
  intros sh s b s' b' e. unfold nset_hole. destruct (nents sh s b) eqn:E; [auto|].
  cbn [nset_ents nents]. unfold nupd2. destruct (Nat.eqb_spec s' s) as [->|Hs]; cbn [andb]; [|auto].
  destruct (N.eqb_spec b' b) as [->|Hb]; [|auto]. intros H. injection H as <-. auto.
Qed.

(* the instantiator of a file none of whose names has a value binds them all *)
Lemma bind_from_ok : forall count sh b k s0,
  (forall s, s0 <= s < s0 + count -> forall v, nents sh s b <> Some (Some v)) ->
  exists sh', bind_from sh b k s0 count = (sh', true) /\
    nlockmap sh' = nlockmap sh /\ nheld sh' = nheld sh /\
    (forall s, s0 <= s < s0 + count -> nents sh' s b = Some (Some k)) /\
    (forall s b', (b' <> b \/ s < s0 \/ s0 + count <= s) -> nents sh' s b' = nents sh s b').
Proof.
  induction count as [|count IH]; intros sh b k s0 Hpre; cbn [bind_from].
  - exists sh. repeat split; auto. intros s Hs. lia.
  - assert (Hnv : forall v, nents sh s0 b <> Some (Some v)) by (apply Hpre; lia).
    assert (Hpre' : forall s, S s0 <= s < S s0 + count -> forall v, nents (nset_ents sh s0 b (Some k)) s b <> Some (Some v)).
    { intros s Hs v. cbn [nset_ents nents]. rewrite nupd2_other_s by lia. apply Hpre. lia. }
    destruct (IH (nset_ents sh s0 b (Some k)) b k (S s0) Hpre') as (sh' & E & E1 & E2 & E3 & E4).
    assert (Hgoal : exists sh'0, bind_from (nset_ents sh s0 b (Some k)) b k (S s0) count = (sh'0, true) /\
       nlockmap sh'0 = nlockmap sh /\ nheld sh'0 = nheld sh /\
       (forall s, s0 <= s < s0 + S count -> nents sh'0 s b = Some (Some k)) /\
       (forall s b', b' <> b \/ s < s0 \/ s0 + S count <= s -> nents sh'0 s b' = nents sh s b')).
    { exists sh'. split; [exact E|]. split; [exact E1|]. split; [exact E2|]. split.
      - intros s Hs. destruct (Nat.eq_dec s s0) as [->|Hne].
        + rewrite E4 by lia. cbn [nset_ents nents]. now rewrite nupd2_same.
        + apply E3. lia.
      - intros s b' Hc. rewrite E4 by lia. cbn [nset_ents nents].
        destruct Hc as [Hc|Hc]; [now apply nupd2_other_b | apply nupd2_other_s; lia]. }
    destruct (nents sh s0 b) as [[v|]|] eqn:E0; [exfalso; exact (Hnv v eq_refl) | exact Hgoal | exact Hgoal].
Qed.

(* the same when entries and lock table do not change and the thread neither is nor becomes the marker *)
Lemma linv_move_same : forall c st t p' todo sh' log',
  ninv c st -> linv c st ->
  nents sh' = nents (ns_sh st) -> nlockmap sh' = nlockmap (ns_sh st) ->
  marked_b (pcof st t) = None -> marked_b p' = None ->
  (forall t0 b lk, t0 <> t -> marked_lk (pcof st t0) = Some (b, lk) ->
       (forall lk2, waits_b p' = Some (b, lk2) -> lk2 = lk) /\ unlocked_b p' <> Some b) ->
  (forall s b, p' = NBeforeSet s b -> good c b -> s <= n_extra c -> False) ->
  (forall s b lk r, p' = NUnlocked s b lk r -> good c b -> s <= n_extra c -> r = Some (NdVal 0)) ->
  (forall t' s b r, In (NvRes t' (NLoad s b) r) log' ->
       In (NvRes t' (NLoad s b) r) (ns_log st) \/ (good c b -> 1 <= s -> s <= n_extra c -> r = NFound (Some 0))) ->
  linv c (mkNSt sh' (nupd1 (ns_thr st) t (mkNT p' todo)) log').
Proof.
  intros c st t p' todo sh' log' HN HL He Hl Hm Hm' Hml Hbs Hun Hres.
  apply linv_move; auto; rewrite ?He, ?Hl.
  - exact (l_sv c st HL).
  - exact (l_nh c st HL).
  - intros b Hg Hx. left. destruct (l_h0 c st HL b Hg Hx) as [t0 Ht0]. exists t0. split; [|exact Ht0].
    intros ->. congruence.
  - intros t0 b _ Hx. exact (l_mk c st HL t0 b Hx).
  - intros b Hx. congruence.
  - intros t0 b lk Hne Hx. destruct (l_ml c st HL t0 b lk Hx) as (A1 & _ & _).
    destruct (Hml t0 b lk Hne Hx) as [B1 B2]. auto.
  - intros b lk Hx. apply marked_lk_b in Hx. congruence.
Qed.

Ltac triv_ml := intros ? ? ? _ _; split; [intros ? Q; discriminate Q | intros Q; discriminate Q].
Ltac triv_bs := intros ? ? Q; discriminate Q.
Ltac triv_un := intros ? ? ? ? Q; discriminate Q.
Ltac triv_nil := intros ? ? ? ? Q; left; now apply in_log_nil.

Lemma linv_step : forall c st t, ninv c st -> linv c st -> linv c (nstep KeyMapped c st t).
Proof.
  intros c st t HN HL. unfold nstep.
  assert (Hpcof : pcof st t = nt_pc (ns_thr st t)) by reflexivity.
  destruct (nt_pc (ns_thr st t)) as [|s b|s b|s b|s b lk|s b lk|s b lk|s b lk|s b lk r] eqn:Hpc.
  - (* NIdle *)
    destruct (nt_todo (ns_thr st t)) as [|o todo]; [exact HL|].
    destruct o as [s b|s b]; cbn [nstart nfin].
    + apply linv_move_same; [exact HN|exact HL|reflexivity|reflexivity|now rewrite Hpcof|reflexivity|triv_ml|triv_bs|triv_un|triv_nil].
    + apply linv_move_same; [exact HN|exact HL|reflexivity|reflexivity|now rewrite Hpcof|reflexivity|triv_ml|triv_bs|triv_un|].
      intros t' s' b' r Q. apply in_log_res in Q. destruct Q as [Q|(_ & Q & _)]; [now left|discriminate].
  - (* NBetween *)
    cbn [nseg]. destruct (nget (ns_sh st) s b) eqn:Hg.
    + apply linv_move_same; [exact HN|exact HL|reflexivity|reflexivity|now rewrite Hpcof|reflexivity|triv_ml|triv_bs|triv_un|triv_nil].
    + rewrite nfinish_eq.
      apply linv_move_same; [exact HN|exact HL|reflexivity|reflexivity|now rewrite Hpcof|reflexivity|triv_ml|triv_bs|triv_un|].
      intros t' s' b' r Q. apply in_log_res in Q. destruct Q as [Q|(_ & Q1 & Q2)]; [now left|right].
      injection Q1 as <- <-. intros Hgd H1 Hs. exfalso. apply (l_nh c st HL b s Hgd H1 Hs).
      unfold nget in Hg. destruct (nents (ns_sh st) s b) as [[?|]|]; [discriminate|reflexivity|discriminate].
    + rewrite nfinish_eq.
      apply linv_move_same; [exact HN|exact HL|reflexivity|reflexivity|now rewrite Hpcof|reflexivity|triv_ml|triv_bs|triv_un|].
      intros t' s' b' r Q. apply in_log_res in Q. destruct Q as [Q|(_ & Q1 & Q2)]; [now left|right].
      injection Q1 as <- <-. intros Hgd H1 Hs. subst r.
      assert (Hv : nents (ns_sh st) s b = Some (Some k)).
      { unfold nget in Hg. destruct (nents (ns_sh st) s b) as [[?|]|]; [now injection Hg as ->|discriminate|discriminate]. }
      destruct (l_sv c st HL b s k Hgd Hs Hv) as [-> _]. reflexivity.
  - (* NBeforeFind *)
    cbn [nseg lock_ns]. destruct (Nat.leb s (n_extra c) && has_file c b) eqn:Hf.
    + destruct (nlockmap (ns_sh st) 0 b) as [lk|] eqn:Hlm.
      * apply linv_move_same; [exact HN|exact HL|reflexivity|reflexivity|now rewrite Hpcof|reflexivity| |triv_bs|triv_un|triv_nil].
        intros t0 b0 lk0 Hne Hx. split; [|intros Q; discriminate Q].
        intros lk2 Q. cbn in Q. injection Q as <- <-. destruct (l_ml c st HL t0 b lk0 Hx) as (A & _ & _). congruence.
      * apply linv_move; cbn [nbump nset_lockmap nents nlockmap]; [exact HN|exact HL|exact (l_sv c st HL)|exact (l_nh c st HL)| | | | | |triv_bs|triv_un|triv_nil].
        -- intros b0 Hgd Hx. left. destruct (l_h0 c st HL b0 Hgd Hx) as [t0 Ht0]. exists t0. split; [|exact Ht0].
           intros ->. rewrite Hpcof in Ht0. discriminate.
        -- intros t0 b0 _ Hx. exact (l_mk c st HL t0 b0 Hx).
        -- intros b0 Q. discriminate Q.
        -- intros t0 b0 lk0 Hne Hx. destruct (l_ml c st HL t0 b0 lk0 Hx) as (A & _ & _).
           destruct (N.eq_dec b0 b) as [->|Hnb]; [congruence|]. rewrite nupd2_other_b by exact Hnb.
           split; [exact A|split; [|intros Q; discriminate Q]].
           intros lk2 Q. cbn in Q. injection Q as Qb _. congruence.
        -- intros b0 lk0 Q. discriminate Q.
    + apply linv_move_same; [exact HN|exact HL|reflexivity|reflexivity|now rewrite Hpcof|reflexivity|triv_ml| |triv_un|triv_nil].
      intros s0 b0 Q [Hg1 _] Hs. injection Q as <- <-. rewrite Hg1 in Hf. apply Nat.leb_le in Hs. rewrite Hs in Hf. discriminate.
  - (* NBeforeSet *)
    cbn [nseg]. rewrite nfinish_eq.
    destruct (nset_hole_rest (ns_sh st) s b) as (Hr1 & Hr2 & Hr3).
    apply linv_move; [exact HN|exact HL| | | | | | | |triv_bs|triv_un|].
    + intros b0 s0 k Hgd Hs Hx. apply nset_hole_inv in Hx. destruct Hx as [Hx|(_ & _ & Q)]; [|discriminate].
      destruct (l_sv c st HL b0 s0 k Hgd Hs Hx) as [-> A]. split; [reflexivity|].
      intros s' Hs'. apply nset_hole_keep. now apply A.
    + intros b0 s0 Hgd H1 Hs Hx. apply nset_hole_inv in Hx. destruct Hx as [Hx|(E1 & E2 & _)].
      * exact (l_nh c st HL b0 s0 Hgd H1 Hs Hx).
      * subst s0 b0. exact (l_bs c st HL t s b Hpcof Hgd Hs).
    + intros b0 Hgd Hx. apply nset_hole_inv in Hx. destruct Hx as [Hx|(E1 & E2 & _)].
      * left. destruct (l_h0 c st HL b0 Hgd Hx) as [t0 Ht0]. exists t0. split; [|exact Ht0].
        intros ->. rewrite Hpcof in Ht0. discriminate.
      * exfalso. subst s b0. apply (l_bs c st HL t 0 b Hpcof Hgd). lia.
    + intros t0 b0 _ Hx. apply nset_hole_keep. exact (l_mk c st HL t0 b0 Hx).
    + intros b0 Q. discriminate Q.
    + intros t0 b0 lk0 _ Hx. rewrite Hr1. destruct (l_ml c st HL t0 b0 lk0 Hx) as (A & _ & _).
      split; [exact A|split; [intros ? Q; discriminate Q|intros Q; discriminate Q]].
    + intros b0 lk0 Q. discriminate Q.
    + intros t' s' b' r Q. apply in_log_res in Q. destruct Q as [Q|(_ & Q1 & Q2)]; [now left|right].
      injection Q1 as <- <-. intros Hgd H1 Hs. exfalso. exact (l_bs c st HL t s b Hpcof Hgd Hs).
  - (* NBeforeLock *)
    cbn [nseg]. destruct (nheld (ns_sh st) lk) eqn:Hh; [exact HL|].
    apply linv_move_same; [exact HN|exact HL|reflexivity|reflexivity|now rewrite Hpcof|reflexivity| |triv_bs|triv_un|triv_nil].
    intros t0 b0 lk0 Hne Hx. split; [|intros Q; discriminate Q].
    intros lk2 Q. cbn in Q. injection Q as <- <-. destruct (l_ml c st HL t0 b lk0 Hx) as (_ & A & _).
    apply (A t). now rewrite Hpcof.
  - (* NLocked *)
    cbn [nseg].
    assert (Hnomark : forall t0 lk0, t0 <> t -> marked_lk (pcof st t0) = Some (b, lk0) -> False).
    { intros t0 lk0 Hne Hx. destruct (l_ml c st HL t0 b lk0 Hx) as (_ & A & _).
      assert (lk = lk0) as <- by (apply (A t); now rewrite Hpcof).
      pose proof (i_held c st HN t0 lk (marked_lk_holds _ _ _ Hx)) as E1.
      assert (E2 : nheld (ns_sh st) lk = Some t) by (apply (i_held c st HN t lk); now rewrite Hpcof).
      congruence. }
    assert (Hml' : forall t0 b0 lk0, t0 <> t -> marked_lk (pcof st t0) = Some (b0, lk0) ->
              (forall lk2, @None (N * nlockid) = Some (b0, lk2) -> lk2 = lk0) /\ Some b <> Some b0).
    { intros t0 b0 lk0 Hne Hx. split; [intros ? Q; discriminate Q|]. intros Q. injection Q as ->. exact (Hnomark t0 lk0 Hne Hx). }
    destruct (nget (ns_sh st) 0 b) eqn:Hg.
    + apply linv_move_same; [exact HN|exact HL|reflexivity|reflexivity|now rewrite Hpcof|reflexivity| |triv_bs|triv_un|triv_nil].
      intros t0 b0 lk0 Hne Hx. split; [|intros Q; discriminate Q].
      intros lk2 Q. cbn in Q. injection Q as <- <-. destruct (l_ml c st HL t0 b lk0 Hx) as (_ & A & _).
      apply (A t). now rewrite Hpcof.
    + apply linv_move_same; [exact HN|exact HL|reflexivity|reflexivity|now rewrite Hpcof|reflexivity|exact Hml'|triv_bs| |triv_nil].
      intros s0 b0 lk1 r Q Hgd Hs. injection Q as <- <- _ <-. exfalso.
      assert (Hh : nents (ns_sh st) 0 b = Some None).
      { unfold nget in Hg. destruct (nents (ns_sh st) 0 b) as [[?|]|]; [discriminate|reflexivity|discriminate]. }
      destruct (l_h0 c st HL b Hgd Hh) as [t0 Ht0]. destruct (marked_b_lk _ _ Ht0) as [lk0 Hx].
      apply (Hnomark t0 lk0); [|exact Hx]. intros ->. rewrite Hpcof in Ht0. discriminate.
    + apply linv_move_same; [exact HN|exact HL|reflexivity|reflexivity|now rewrite Hpcof|reflexivity|exact Hml'|triv_bs| |triv_nil].
      intros s0 b0 lk1 r Q Hgd Hs. injection Q as <- <- _ <-.
      assert (Hv : nents (ns_sh st) 0 b = Some (Some k)).
      { unfold nget in Hg. destruct (nents (ns_sh st) 0 b) as [[?|]|]; [now injection Hg as ->|discriminate|discriminate]. }
      destruct (l_sv c st HL b 0 k Hgd ltac:(lia) Hv) as [_ A]. unfold nget. now rewrite (A s Hs).
  - (* NChecked: the mark *)
    cbn [nseg].
    assert (Hw : waits_b (pcof st t) = Some (b, lk)) by now rewrite Hpcof.
    assert (Hn : nents (ns_sh st) 0 b = None) by (apply (i_chk c st HN t b); now rewrite Hpcof).
    destruct (nset_hole_rest (ns_sh st) 0 b) as (Hr1 & Hr2 & Hr3).
    apply linv_move; [exact HN|exact HL| | | | | | | |triv_bs|triv_un|triv_nil].
    + intros b0 s0 k Hgd Hs Hx. apply nset_hole_inv in Hx. destruct Hx as [Hx|(_ & _ & Q)]; [|discriminate].
      destruct (l_sv c st HL b0 s0 k Hgd Hs Hx) as [-> A]. split; [reflexivity|].
      intros s' Hs'. apply nset_hole_keep. now apply A.
    + intros b0 s0 Hgd H1 Hs Hx. apply nset_hole_inv in Hx. destruct Hx as [Hx|(E1 & E2 & _)].
      * exact (l_nh c st HL b0 s0 Hgd H1 Hs Hx).
      * lia.
    + intros b0 Hgd Hx. apply nset_hole_inv in Hx. destruct Hx as [Hx|(E1 & E2 & _)].
      * left. destruct (l_h0 c st HL b0 Hgd Hx) as [t0 Ht0]. exists t0. split; [|exact Ht0].
        intros ->. rewrite Hpcof in Ht0. discriminate.
      * right. subst b0. reflexivity.
    + intros t0 b0 _ Hx. apply nset_hole_keep. exact (l_mk c st HL t0 b0 Hx).
    + intros b0 Q. cbn in Q. injection Q as <-. unfold nset_hole. rewrite Hn. cbn [nset_ents nents]. now rewrite nupd2_same.
    + intros t0 b0 lk0 _ Hx. rewrite Hr1. destruct (l_ml c st HL t0 b0 lk0 Hx) as (A & _ & _).
      split; [exact A|split; [intros ? Q; discriminate Q|intros Q; discriminate Q]].
    + intros b0 lk0 Q. cbn in Q. injection Q as <- <-. rewrite Hr1. split; [exact (i_lk c st HN t b lk Hn Hw)|split].
      * intros t2 lk2 _ Hy. pose proof (i_lk c st HN t2 b lk2 Hn Hy) as E1. pose proof (i_lk c st HN t b lk Hn Hw) as E2. congruence.
      * intros t2 _. destruct (i_none c st HN b Hn) as (_ & _ & U). apply U.
  - (* NMarked: the instantiator *)
    cbn [nseg].
    assert (Hmk : marked_b (pcof st t) = Some b) by now rewrite Hpcof.
    pose proof (l_mk c st HL t b Hmk) as Hh.
    pose proof (i_mk0 c st HN t b Hmk) as Hk0.
    assert (Hgen : forall sh1 r, nlockmap sh1 = nlockmap (ns_sh st) ->
              (forall s' b', b' <> b -> nents sh1 s' b' = nents (ns_sh st) s' b') ->
              (good c b -> forall s', s' <= n_extra c -> nents sh1 s' b = Some (Some 0)) ->
              (good c b -> s <= n_extra c -> r = Some (NdVal 0)) ->
              linv c (mkNSt (nset_held sh1 lk None) (nupd1 (ns_thr st) t (mkNT (NUnlocked s b lk r) (nt_todo (ns_thr st t))))
                            (ns_log st ++ [NvParse t b]))).
    { intros sh1 r El Eo Hall Hr.
      apply linv_move; cbn [nset_held nents nlockmap]; [exact HN|exact HL| | | | | | | |triv_bs| | ].
      - intros b0 s0 k Hgd Hs Hx. destruct (N.eq_dec b0 b) as [->|Hnb].
        + rewrite (Hall Hgd s0 Hs) in Hx. injection Hx as <-. split; [reflexivity|exact (Hall Hgd)].
        + rewrite Eo in Hx by exact Hnb. destruct (l_sv c st HL b0 s0 k Hgd Hs Hx) as [-> A]. split; [reflexivity|].
          intros s' Hs'. rewrite Eo by exact Hnb. now apply A.
      - intros b0 s0 Hgd H1 Hs. destruct (N.eq_dec b0 b) as [->|Hnb].
        + rewrite (Hall Hgd s0 Hs). discriminate.
        + rewrite Eo by exact Hnb. exact (l_nh c st HL b0 s0 Hgd H1 Hs).
      - intros b0 Hgd Hx. destruct (N.eq_dec b0 b) as [->|Hnb].
        + rewrite (Hall Hgd 0) in Hx by lia. discriminate.
        + rewrite Eo in Hx by exact Hnb. left. destruct (l_h0 c st HL b0 Hgd Hx) as [t0 Ht0]. exists t0. split; [|exact Ht0].
          intros ->. congruence.
      - intros t0 b0 Hne Hx. destruct (N.eq_dec b0 b) as [->|Hnb].
        + exfalso. apply Hne. exact (i_mk1 c st HN t0 t b Hx Hmk).
        + rewrite Eo by exact Hnb. exact (l_mk c st HL t0 b0 Hx).
      - intros b0 Q. discriminate Q.
      - intros t0 b0 lk0 Hne Hx. rewrite El. destruct (l_ml c st HL t0 b0 lk0 Hx) as (A & _ & _).
        split; [exact A|split; [intros ? Q; discriminate Q|]].
        intros Q. cbn in Q. injection Q as ->. apply Hne. exact (i_mk1 c st HN t0 t b0 (marked_lk_b _ _ _ Hx) Hmk).
      - intros b0 lk0 Q. discriminate Q.
      - intros s0 b0 lk1 r0 Q Hgd Hs. injection Q as <- <- _ <-. now apply Hr.
      - intros t' s' b' r0 Q. left. now apply in_log_parse in Q. }
    destruct (is_bad c b) eqn:Hbad.
    + apply Hgen; auto; intros [_ Q]; congruence.
    + unfold bind_all. destruct (has_file c b) eqn:Hfile.
      * assert (PRE : forall s', 0 <= s' < 0 + S (n_extra c) -> forall v, nents (ns_sh st) s' b <> Some (Some v)).
        { intros s' Hs' v Hx. destruct (l_sv c st HL b s' v (conj Hfile Hbad) ltac:(lia) Hx) as [_ A].
          rewrite (A 0 ltac:(lia)) in Hh. discriminate. }
        destruct (bind_from_ok (S (n_extra c)) (ns_sh st) b (nsparse b (ns_log st)) 0 PRE) as (sh1 & E & E1 & E2 & E3 & E4).
        rewrite E. rewrite Hk0 in E3. apply Hgen.
        -- exact E1.
        -- intros s' b' Hnb. apply E4. now left.
        -- intros _ s' Hs'. apply E3. lia.
        -- intros _ Hs. unfold nget. rewrite E3 by lia. reflexivity.
      * destruct (bind_from (ns_sh st) b (nsparse b (ns_log st)) 0 (S (n_extra c))) as [sh1 ok] eqn:Hb.
        apply bind_from_facts in Hb. destruct Hb as (E1 & E2 & E3 & E4 & E5).
        destruct ok; apply Hgen; auto; intros [Q _]; congruence.
  - (* NUnlocked *)
    cbn [nseg lock_ns].
    assert (Hul : unlocked_b (pcof st t) = Some b) by now rewrite Hpcof.
    assert (Hgen : forall p' evs, marked_b p' = None -> waits_b p' = None -> unlocked_b p' = None ->
              (forall s0 b0, p' = NBeforeSet s0 b0 -> good c b0 -> s0 <= n_extra c -> False) ->
              (forall t' s' b' r0, In (NvRes t' (NLoad s' b') r0) (ns_log st ++ evs) ->
                 In (NvRes t' (NLoad s' b') r0) (ns_log st) \/ (good c b' -> 1 <= s' -> s' <= n_extra c -> r0 = NFound (Some 0))) ->
              linv c (mkNSt (nset_lockmap (ns_sh st) 0 b None) (nupd1 (ns_thr st) t (mkNT p' (nt_todo (ns_thr st t)))) (ns_log st ++ evs))).
    { intros p' evs Q1 Q2 Q3 Hbs Hres.
      apply linv_move; cbn [nset_lockmap nents nlockmap]; [exact HN|exact HL|exact (l_sv c st HL)|exact (l_nh c st HL)| | | | | |exact Hbs| |exact Hres].
      - intros b0 Hgd Hx. left. destruct (l_h0 c st HL b0 Hgd Hx) as [t0 Ht0]. exists t0. split; [|exact Ht0].
        intros ->. rewrite Hpcof in Ht0. discriminate.
      - intros t0 b0 _ Hx. exact (l_mk c st HL t0 b0 Hx).
      - intros b0 Q. congruence.
      - intros t0 b0 lk0 Hne Hx. destruct (l_ml c st HL t0 b0 lk0 Hx) as (A & _ & U).
        destruct (N.eq_dec b0 b) as [->|Hnb]; [exfalso; exact (U t Hul)|]. rewrite nupd2_other_b by exact Hnb.
        split; [exact A|split; [intros ? Q; congruence|intros Q; congruence]].
      - intros b0 lk0 Q. apply marked_lk_b in Q. congruence.
      - intros s0 b0 lk1 r0 Q. subst p'. discriminate Q3. }
    destruct r as [e|].
    + destruct e.
      * apply Hgen; [reflexivity|reflexivity|reflexivity| |triv_nil].
        intros s0 b0 Q Hgd Hs. injection Q as <- <-. pose proof (l_un c st HL t s b lk _ Hpcof Hgd Hs) as E. discriminate E.
      * rewrite nfinish_eq. apply Hgen; [reflexivity|reflexivity|reflexivity|triv_bs|].
        intros t' s' b' r Q. apply in_log_res in Q. destruct Q as [Q|(_ & Q1 & Q2)]; [now left|right].
        injection Q1 as <- <-. intros Hgd H1 Hs. pose proof (l_un c st HL t s b lk _ Hpcof Hgd Hs) as E. discriminate E.
      * rewrite nfinish_eq. apply Hgen; [reflexivity|reflexivity|reflexivity|triv_bs|].
        intros t' s' b' r Q. apply in_log_res in Q. destruct Q as [Q|(_ & Q1 & Q2)]; [now left|right].
        injection Q1 as <- <-. intros Hgd H1 Hs. pose proof (l_un c st HL t s b lk _ Hpcof Hgd Hs) as E.
        injection E as ->. now subst r.
    + cbn [nfin]. apply Hgen; [reflexivity|reflexivity|reflexivity|triv_bs|].
      intros t' s' b' r Q. apply in_log_res in Q. destruct Q as [Q|(_ & Q1 & Q2)]; [now left|right].
      injection Q1 as <- <-. intros Hgd H1 Hs. pose proof (l_un c st HL t s b lk _ Hpcof Hgd Hs) as E. discriminate E.
Qed.

Lemma linv_exec : forall c p s, ninv c (nexec KeyMapped c p s) /\ linv c (nexec KeyMapped c p s).
Proof.
  intros c p s. unfold nexec. generalize (conj (ninv_init c p) (linv_init c p)). generalize (ninit p).
  induction s as [|t s IH]; intros st H; cbn [fold_left]; [exact H|].
  apply IH. destruct H as [HN HL]. split; [now apply ninv_step | now apply linv_step].
Qed.

(* every load of a good file through a namespace other than the first returns the value of the one instantiation *)
Lemma ns_load_finds_value : forall c p sch t s b r,
  has_file c b = true -> is_bad c b = false -> 1 <= s -> s <= n_extra c ->
  In (NvRes t (NLoad s b) r) (ntrace KeyMapped c p sch) -> r = NFound (Some 0).
Proof.
  intros c p sch t s b r Hf Hb H1 Hs Hin. destruct (linv_exec c p sch) as [_ HL].
  exact (l_res c _ HL t s b r Hin (conj Hf Hb) H1 Hs).
Qed.
