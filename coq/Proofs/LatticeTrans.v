(* LatticeTrans.v — transitivity of the modelled assignability (C03), rule-free model (hs = false). *)
From Coq Require Import ZArith NArith Bool List Lia.
From PcoreV Require Import Model.Base Model.Ty Model.Lattice Proofs.LatticeUnfold Proofs.LatticeBasics
  Proofs.StructCount Proofs.LatticeRule Proofs.LatticeSound Proofs.LatticeOrder.
From PcoreV Require Import Proofs.LatticeTransBasics Proofs.LatticeTransAtoms Proofs.LatticeTransColl.
Import ListNotations.
Open Scope Z_scope.

Section Trans.
  Variable rx : str -> str -> bool.
  Notation asg := (asg rx false).
  Notation recv := (recv rx false asg).

  Notation IHn := (IHn rx).

  (* receiver proper against receiver proper against a plain right operand: by the middle type *)
  Lemma core a b c : IHn (tsize a + tsize b + tsize c) -> gd a -> gd b -> gd c ->
    rcv a = true -> rcv b = true -> plain c = true -> recv a b = true -> recv b c = true -> recv a c = true.
  Proof.
    intros IH Ha Hb Hc Ra Rb Hp Hab Hbc. destruct b; try discriminate Rb.
    - exact (core_undef rx a c Ra Hab Hbc).
    - exact (core_default rx a c Ra Hab Hbc).
    - exact (core_boolean rx v a c Ra Hab Hbc).
    - exact (core_integer rx lo hi a c Ra Hab Hbc).
    - exact (core_float rx lo hi a c Ra Hab Hbc).
    - exact (core_numeric rx a c Ra Hab Hbc).
    - exact (core_scalar rx a c Ra Hab Hbc).
    - exact (core_scalardata rx a c Ra Hp Hab Hbc).
    - exact (core_string rx a c Ra Hab Hbc).
    - exact (core_stringsz rx lo hi a c Ra Hab Hbc).
    - exact (core_stringval rx s a c Ra Hab Hbc).
    - exact (core_enum rx ci vs a c Ra Hab Hbc).
    - exact (core_pattern rx rxs a c Ra Hab Hbc).
    - exact (core_regexp rx p a c Ra Hab Hbc).
    - exact (core_binary rx a c Ra Hab Hbc).
    - exact (core_collection rx lo hi a c Ra Hab Hbc).
    - exact (core_array rx b lo hi a c IH Ha Hb Hc Ra Hab Hbc).
    - exact (core_hash rx b1 b2 lo hi a c IH Ha Hb Hc Ra Hab Hbc).
    - exact (core_tuple rx ts given lo hi a c IH Ha Hb Hc Ra Hab Hbc).
    - exact (core_struct rx ms a c IH Ha Hb Hc Ra Hab Hbc).
    - exact (core_type rx b a c IH Ha Hb Hc Ra Hab Hbc).
    - exact (core_sensitive rx b a c IH Ha Hb Hc Ra Hab Hbc).
    - exact (core_other rx name a c Ra Hab Hbc).
  Qed.

  Ltac sz := cbn [tsize]; lia.

  (* step 3: the middle type is a receiver proper *)
  Lemma trans_left a b c : IHn (tsize a + tsize b + tsize c) -> gd a -> gd b -> gd c ->
    is_any a = false -> rcv b = true -> plain c = true ->
    recv a b = true -> asg b c = true -> recv b c = true -> asg a c = true.
  Proof.
    intros IH Ha Hb Hc Ea Eb Hp Hab Hbc Hbcr. destruct (rcv a) eqn:Era.
    - apply (asg_plain rx false a c Hp Ea). apply (core a b c); assumption.
    - destruct a; try discriminate.
      + (* Unit *) destruct Ha as [_ Hn]. discriminate.
      + (* Variant *) cbn [LatticeUnfold.recv] in Hab. apply existsb_exists in Hab. destruct Hab as (t & Ht & Hab).
        apply (variant_intro rx false ts t Ht). apply (IH t b c); try assumption.
        * pose proof (tsize_variant ts t Ht). lia.
        * apply (gd_variant ts t Ha Ht).
      + (* Optional *) cbn [LatticeUnfold.recv] in Hab. apply orb_true_iff in Hab. destruct Hab as [Hab|Hab].
        * apply (flat_undef_plain b (rcv_plain b Eb)) in Hab. subst b. cbn [LatticeUnfold.recv] in Hbcr.
          destruct c; try discriminate. apply optional_undef.
        * apply optional_intro. apply (IH a b c); try assumption. sz.
      + (* NotUndef *) cbn [LatticeUnfold.recv] in Hab. apply andb_true_iff in Hab. destruct Hab as [Hnb Hab].
        apply negb_true_iff in Hnb. apply notundef_intro.
        * destruct (nullable c) eqn:Enc; [|reflexivity].
          destruct Hc as [_ Hnc]. rewrite (nullable_mono rx false c Hnc b Hbc Enc) in Hnb. discriminate.
        * apply (IH a b c); try assumption. sz.
  Qed.

  (* step 2: the right type is plain, the middle type is taken apart *)
  Lemma trans_mid a b c : IHn (tsize a + tsize b + tsize c) -> gd a -> gd b -> gd c ->
    is_any a = false -> is_any b = false -> plain c = true ->
    asg a b = true -> asg b c = true -> recv b c = true -> asg a c = true.
  Proof.
    intros IH Ha Hb Hc Ea Eb Hp Hab Hbc Hbcr. destruct (rcv b) eqn:Erb.
    - apply (trans_left a b c); try assumption. rewrite <- (asg_rcv_r rx false a b Erb Ea). exact Hab.
    - destruct b; try discriminate.
      + (* Unit *) destruct Hb as [_ Hn]. discriminate.
      + (* Variant *) cbn [LatticeUnfold.recv] in Hbcr. apply existsb_exists in Hbcr. destruct Hbcr as (t & Ht & Htc).
        apply (IH a t c); try assumption.
        * pose proof (tsize_variant ts t Ht). lia.
        * apply (gd_variant ts t Hb Ht).
        * apply (asg_variant_elim rx false a ts Hab t Ht).
      + (* Optional *) destruct (asg_optional_elim rx false a b Hab) as [Hna Habt].
        cbn [LatticeUnfold.recv] in Hbcr. apply orb_true_iff in Hbcr. destruct Hbcr as [Hf|Htc].
        * apply (flat_undef_plain c Hp) in Hf. subst c. apply nullable_undef. exact Hna.
        * apply (IH a b c); try assumption. sz.
      + (* NotUndef *) cbn [LatticeUnfold.recv] in Hbcr. apply andb_true_iff in Hbcr. destruct Hbcr as [Hnc Htc].
        apply negb_true_iff in Hnc.
        destruct (asg_notundef_elim rx false a b Hab) as [Habt|(_ & Hnb & Har)].
        * apply (IH a b c); try assumption. sz.
        * destruct (rcv a) eqn:Era; [rewrite (recv_notundef_r rx false a b Era Hnb) in Har; discriminate|].
          destruct a; try discriminate.
          -- destruct Ha as [_ Hn]. discriminate.
          -- (* Variant *) cbn [LatticeUnfold.recv] in Har. apply existsb_exists in Har. destruct Har as (t & Ht & Har).
             apply (variant_intro rx false ts t Ht). apply (IH t (TNotUndef b) c); try assumption.
             ++ pose proof (tsize_variant ts t Ht). lia.
             ++ apply (gd_variant ts t Ha Ht).
          -- (* Optional *) cbn [LatticeUnfold.recv flat] in Har. rewrite Hnb in Har. cbn [orb] in Har.
             apply optional_intro. apply (IH a (TNotUndef b) c); try assumption. sz.
          -- (* NotUndef *) cbn [LatticeUnfold.recv nullable negb andb] in Har.
             apply notundef_intro; [exact Hnc|]. apply (IH a (TNotUndef b) c); try assumption. sz.
  Qed.

  (* step 1: the right type is taken apart *)
  Lemma trans_step a b c : IHn (tsize a + tsize b + tsize c) -> gd a -> gd b -> gd c ->
    asg a b = true -> asg b c = true -> asg a c = true.
  Proof.
    intros IH Ha Hb Hc Hab Hbc.
    destruct (is_any a) eqn:Ea; [apply is_any_eq in Ea; subst; apply asg_any|].
    destruct (plain c) eqn:Hp.
    - destruct (asg_plain_elim rx false b c Hp Hbc) as [Eb|[[Eb Hr]|(nt & -> & Hbnt)]].
      + apply is_any_eq in Eb. subst b. apply asg_any_all. exact Hab.
      + apply (trans_mid a b c); assumption.
      + apply asg_notundef_r1. apply (IH a b nt); try assumption. sz.
    - destruct c; try discriminate.
      + destruct Hc as [_ Hn]. discriminate.
      + (* Variant *) apply asg_variant_r. intros t Ht. apply (IH a b t); try assumption.
        * pose proof (tsize_variant ts t Ht). lia.
        * apply (gd_variant ts t Hc Ht).
        * apply (asg_variant_elim rx false b ts Hbc t Ht).
      + (* Optional *) destruct (asg_optional_elim rx false b c Hbc) as [Hnb Hbct].
        destruct Hb as [Hwb Hnub].
        apply asg_optional_r; [apply (nullable_mono rx false b Hnub a Hab Hnb)|].
        apply (IH a b c); try assumption; [sz|split; assumption].
      + (* NotUndef of a type that does not accept Undef *) cbn [plain] in Hp.
        destruct (asg_notundef_elim rx false b c Hbc) as [Hbnt|(_ & Hn & _)]; [|congruence].
        apply asg_notundef_r1. apply (IH a b c); try assumption. sz.
  Qed.

  Theorem asg_trans_gd : forall n a b c, (tsize a + tsize b + tsize c < n)%nat -> gd a -> gd b -> gd c ->
    asg a b = true -> asg b c = true -> asg a c = true.
  Proof.
    induction n as [|n IHn']; intros a b c Hlt; [lia|].
    apply trans_step. intros x y z Hlt'. apply IHn'. lia.
  Qed.
End Trans.

(* Transitivity of assignability in the rule-free model, for ALL types of the model.  Side conditions: what the Go
   constructors guarantee (wf_ty) and no Unit type (two-way assignable by definition).  (Before the fix of
   trans-negative-collection-size the rightmost type also had to be free of negative collection maxima.) *)
Theorem asg_trans : forall rx a b c,
  wf_ty a = true -> wf_ty b = true -> wf_ty c = true ->
  no_unit a = true -> no_unit b = true -> no_unit c = true ->
  asg rx false a b = true -> asg rx false b c = true -> asg rx false a c = true.
Proof.
  intros rx a b c Hwa Hwb Hwc Hna Hnb Hnc Hab Hbc.
  apply (asg_trans_gd rx (S (tsize a + tsize b + tsize c)) a b c); try assumption; [lia|split; assumption..].
Qed.

(* the same for the model of the code (rule enabled), wherever the by-specification rule cannot have
   contributed to any of the three answers *)
Theorem asg_trans_code : forall rx a b c,
  wf_ty a = true -> wf_ty b = true -> wf_ty c = true ->
  no_unit a = true -> no_unit b = true -> no_unit c = true ->
  rule_free a b = true -> rule_free b c = true -> rule_free a c = true ->
  asg rx true a b = true -> asg rx true b c = true -> asg rx true a c = true.
Proof.
  intros rx a b c Hwa Hwb Hwc Hna Hnb Hnc Rab Rbc Rac Hab Hbc.
  rewrite (asg_rule_irrelevant rx a b Rab) in Hab. rewrite (asg_rule_irrelevant rx b c Rbc) in Hbc.
  rewrite (asg_rule_irrelevant rx a c Rac). exact (asg_trans rx a b c Hwa Hwb Hwc Hna Hnb Hnc Hab Hbc).
Qed.

(* the statement without the rule_free guard, per relation: true of the rule-free relation (asg_trans), false of
   the model of the code through the by-specification rule "a Struct accepts a Hash type":
   Struct[{a=>Integer}] >= Hash[String,Integer,1,1] >= Struct[{b=>Integer}], but not Struct[{a=>..}] >= Struct[{b=>..}] *)
Definition asg_trans_unguarded (hs : bool) : Prop := forall rx a b c,
  wf_ty a = true -> wf_ty b = true -> wf_ty c = true ->
  no_unit a = true -> no_unit b = true -> no_unit c = true ->
  asg rx hs a b = true -> asg rx hs b c = true -> asg rx hs a c = true.

Lemma asg_trans_unguarded_rule_free : asg_trans_unguarded false.
Proof. exact asg_trans. Qed.

Lemma asg_trans_unguarded_code_refuted : ~ asg_trans_unguarded true.
Proof.
  intros H.
  pose (i := TInteger (-9223372036854775808) 9223372036854775807).
  specialize (H (fun _ _ => false) (TStruct [([97%N], (TStringVal [97%N], i))]) (THash TString i 1 1)
                (TStruct [([98%N], (TStringVal [98%N], i))])
                eq_refl eq_refl eq_refl eq_refl eq_refl eq_refl).
  vm_compute in H. specialize (H eq_refl eq_refl). discriminate H.
Qed.

(* the chains that refuted the statement before the fix (a sub-range of [-1,0] can have max < 0) are accepted now *)
Lemma asg_trans_negative_size_chain : forall hs,
  let rx := fun _ _ => false in
  let a := TArray (TInteger 0 9) (-1) 5 in let b := TArray TString (-1) 0 in let c := TArray TString (-1) (-1) in
  asg rx hs a b = true /\ asg rx hs b c = true /\ asg rx hs a c = true.
Proof. intros []; vm_compute; repeat split; reflexivity. Qed.
