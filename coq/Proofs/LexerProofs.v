(* LexerProofs.v — the lexer model terminates within fuel length+2, never reaches a fault, and every position it
   reports (token positions, the position where it gives up) lies within the input. *)
From Coq Require Import ZArith NArith Bool List Lia.
From PcoreV Require Import Model.Base Model.Lexer.
Import ListNotations.
Open Scope N_scope.

Local Arguments N.eqb : simpl never.
Local Arguments N.ltb : simpl never.
Local Arguments N.leb : simpl never.
Local Arguments N.modulo : simpl never.
Local Arguments N.div : simpl never.
Local Arguments N.mul : simpl never.
Local Arguments N.add : simpl never.
Local Arguments Z.add : simpl never.
Local Arguments Z.sub : simpl never.
Local Arguments skipn : simpl never.
Local Arguments encode_rune : simpl never.
Local Arguments decode_rune : simpl never.

(* ------------------------------------------------------------------------------------------------ *)
(* decode_rune: size and bytes consumed *)

Lemma decode_rune_size b t : (1 <= snd (decode_rune (b :: t)) <= 4)%nat.
Proof.
  unfold decode_rune.
  repeat match goal with
         | |- context [if ?c then _ else _] => destruct c
         | |- context [match ?l with [] => _ | _ :: _ => _ end] => destruct l
         end; cbn [snd]; lia.
Qed.

(* when more than one byte is consumed, none of the consumed bytes is a line feed (all are >= 128) *)
Definition no_nl (l : list N) : Prop := Forall (fun b => b <> 10) l.

Lemma decode_rune_no_nl b t : 128 <= b -> no_nl (firstn (snd (decode_rune (b :: t))) (b :: t)).
Proof.
  intros Hb. unfold decode_rune, is_cont, in_rng.
  assert (H0 : b <> 10) by lia.
  repeat match goal with
         | |- context [if ?c then _ else _] => let E := fresh "E" in destruct c eqn:E
         | |- context [match ?l with [] => _ | _ :: _ => _ end] => destruct l
         end; cbn [snd firstn]; unfold no_nl;
    repeat match goal with
           | H : (_ && _)%bool = true |- _ => apply andb_prop in H; destruct H
           | H : (_ <=? _) = true |- _ => apply N.leb_le in H
           | H : (if _ then _ else _) <= _ |- _ => revert H
           end;
    repeat match goal with
           | |- context [if ?c then _ else _] => destruct c
           end; intros;
    repeat constructor; try lia.
Qed.

(* ------------------------------------------------------------------------------------------------ *)
(* the reader: measure, reachability *)

Definition m (rd : reader) : nat :=
  match r_rest rd with
  | [] => if r_past rd then 0%nat else 1%nat
  | _ => S (length (r_rest rd))
  end.

Lemma rd_next_m rd r rd' :
  rd_next rd = (r, rd') -> (m rd' <= m rd)%nat /\ (r_rest rd <> [] -> m rd' < m rd)%nat /\ (r <> 0 -> r_rest rd <> []).
Proof.
  unfold rd_next, m. destruct rd as [rest past l c]; cbn [r_rest r_past r_line r_col].
  destruct rest as [|b t].
  - destruct past; intros E; inversion E; subst; cbn; intuition (try congruence; try lia).
  - destruct (b <? 128).
    + destruct (b =? 10); intros E; inversion E; subst; cbn [r_rest r_past length];
        destruct t; cbn [length]; intuition (try congruence; try lia).
    + pose proof (decode_rune_size b t) as Hs.
      destruct (decode_rune (b :: t)) as [c0 size]; cbn [snd] in Hs.
      intros E; inversion E; subst; cbn [r_rest r_past].
      pose proof (skipn_length size (b :: t)) as Hl. cbn [length] in *.
      destruct (skipn size (b :: t)); cbn [length] in *; intuition (try congruence; try lia).
Qed.

Lemma rd_peek_nonempty rd : rd_peek rd <> 0 -> r_rest rd <> [].
Proof. unfold rd_peek. destruct (r_rest rd); congruence. Qed.

(* rd' is reached from rd by calls of Next *)
Inductive reach : reader -> reader -> Prop :=
  | reach_refl rd : reach rd rd
  | reach_step rd r rd1 rd2 : rd_next rd = (r, rd1) -> reach rd1 rd2 -> reach rd rd2.

Lemma reach_trans a b c : reach a b -> reach b c -> reach a c.
Proof. induction 1; intros; auto. econstructor; eauto. Qed.

Lemma reach_one rd r rd1 : rd_next rd = (r, rd1) -> reach rd rd1.
Proof. intros; econstructor; eauto; constructor. Qed.

Lemma reach_m a b : reach a b -> (m b <= m a)%nat.
Proof.
  induction 1; auto.
  pose proof (rd_next_m _ _ _ H) as [? _]. lia.
Qed.

(* the result of a scanner started at rd: it answered (no fuel exhaustion, no fault) and its reader was reached
   from rd by calls of Next *)
Definition good {A} (rd : reader) (res : lres A) : Prop :=
  match res with
  | LOk _ rd' => reach rd rd'
  | LErr rd' => reach rd rd'
  | LFault => False
  | LOutOfFuel => False
  end.

Lemma good_lmap {A B} (f : A -> B) rd (res : lres A) : good rd res -> good rd (lmap f res).
Proof. destruct res; cbn; auto. Qed.

Lemma good_trans {A} a b (res : lres A) : reach a b -> good b res -> good a res.
Proof. destruct res; cbn; eauto using reach_trans. Qed.

(* ------------------------------------------------------------------------------------------------ *)
(* every scanner answers when the fuel exceeds the measure of the reader *)

Ltac next_step rd r rd1 E :=
  destruct (rd_next rd) as [r rd1] eqn:E;
  let H1 := fresh "Hle" in let H2 := fresh "Hlt" in let H3 := fresh "Hne" in
  pose proof (rd_next_m _ _ _ E) as (H1 & H2 & H3);
  let HR := fresh "Hreach" in pose proof (reach_one _ _ _ E) as HR.

Ltac break_if :=
  match goal with
  | |- context [if ?c then _ else _] => let E := fresh "Eb" in destruct c eqn:E
  end.

Ltac nonzero r :=
  assert (r <> 0) by
    (repeat match goal with
            | H : (_ || _)%bool = false |- _ => apply orb_false_elim in H; destruct H
            end;
     match goal with
     | H : (r =? 0) = false |- _ => apply N.eqb_neq in H; exact H
     end).

Lemma consume_line_comment_good fuel : forall rd, (m rd < fuel)%nat -> good rd (consume_line_comment fuel rd).
Proof.
  induction fuel as [|f IH]; intros rd Hm; [lia|].
  cbn [consume_line_comment]. next_step rd r rd1 E.
  break_if; [cbn; auto|]. break_if; [cbn; auto|].
  nonzero r.
  eapply good_trans; eauto. apply IH. specialize (Hlt (Hne H)). lia.
Qed.

Lemma consume_unsigned_integer_good ol fuel :
  forall rd buf, (m rd < fuel)%nat -> good rd (consume_unsigned_integer ol fuel rd buf).
Proof.
  induction fuel as [|f IH]; intros rd buf Hm; [lia|].
  cbn [consume_unsigned_integer].
  break_if; [cbn; constructor|]. break_if; [cbn; constructor|]. break_if; [cbn; constructor|].
  apply N.eqb_neq in Eb0. apply rd_peek_nonempty in Eb0.
  break_if.
  - next_step rd r rd1 E. eapply good_trans; eauto. apply IH. specialize (Hlt Eb0). lia.
  - break_if.
    + next_step rd r rd1 E. cbn. auto.
    + cbn. constructor.
Qed.

Lemma consume_exponent_good ol fuel rd buf : (m rd < fuel)%nat -> good rd (consume_exponent ol fuel rd buf).
Proof.
  intros Hm. unfold consume_exponent. next_step rd r rd1 E.
  break_if; [cbn; auto|]. break_if.
  - next_step rd1 r2 rd2 E2. break_if.
    + eapply good_trans; [eapply reach_trans; eauto|]. apply consume_unsigned_integer_good. lia.
    + cbn. eapply reach_trans; eauto.
  - break_if.
    + eapply good_trans; eauto. apply consume_unsigned_integer_good. lia.
    + cbn; auto.
Qed.

Lemma consume_hex_integer_good fuel : forall rd buf, (m rd < fuel)%nat -> good rd (consume_hex_integer fuel rd buf).
Proof.
  induction fuel as [|f IH]; intros rd buf Hm; [lia|].
  cbn [consume_hex_integer].
  break_if; [cbn; constructor|].
  apply N.eqb_neq in Eb. apply rd_peek_nonempty in Eb.
  break_if; [|cbn; constructor].
  next_step rd r rd1 E. eapply good_trans; eauto. apply IH. specialize (Hlt Eb). lia.
Qed.

Lemma consume_number_loop_good ol fuel :
  forall rd buf t fz, (m rd < fuel)%nat -> good rd (consume_number_loop ol fuel rd buf t fz).
Proof.
  induction fuel as [|f IH]; intros rd buf t fz Hm; [lia|].
  cbn [consume_number_loop].
  break_if; [cbn; constructor|].
  apply N.eqb_neq in Eb. apply rd_peek_nonempty in Eb.
  break_if.
  { next_step rd r rd1 E. eapply good_trans; eauto. apply IH. specialize (Hlt Eb). lia. }
  break_if.
  { next_step rd r rd1 E. apply good_lmap. eapply good_trans; eauto.
    apply consume_exponent_good. specialize (Hlt Eb). lia. }
  break_if.
  { destruct fz; [|cbn; constructor].
    next_step rd r rd1 E. next_step rd1 r2 rd2 E2. specialize (Hlt Eb).
    break_if; [|cbn; eapply reach_trans; eauto].
    apply good_lmap. eapply good_trans; [eapply reach_trans; eauto|].
    apply consume_hex_integer_good. lia. }
  break_if.
  { break_if; [cbn; constructor|].
    next_step rd r rd1 E. next_step rd1 r2 rd2 E2. specialize (Hlt Eb).
    break_if; [|cbn; eapply reach_trans; eauto].
    eapply good_trans; [eapply reach_trans; eauto|]. apply IH. lia. }
  break_if; [|cbn; constructor].
  next_step rd r rd1 E. eapply good_trans; eauto. apply IH. specialize (Hlt Eb). lia.
Qed.

Lemma consume_number_good ol fuel rd start buf t :
  (m rd < fuel)%nat -> good rd (consume_number ol fuel rd start buf t).
Proof. intros; unfold consume_number; apply consume_number_loop_good; auto. Qed.

Lemma consume_regexp_good fuel : forall rd buf, (m rd < fuel)%nat -> good rd (consume_regexp fuel rd buf).
Proof.
  induction fuel as [|f IH]; intros rd buf Hm; [lia|].
  cbn [consume_regexp]. next_step rd r rd1 E.
  break_if; [cbn; auto|]. break_if; [cbn; auto|].
  break_if.
  - apply N.eqb_eq in Eb1. assert (r <> 0) by lia. specialize (Hlt (Hne H)).
    next_step rd1 r2 rd2 E2.
    break_if; [cbn; eapply reach_trans; eauto|]. break_if; [cbn; eapply reach_trans; eauto|].
    break_if; (eapply good_trans; [eapply reach_trans; eauto|]; apply IH; lia).
  - break_if; [cbn; auto|].
    nonzero r. eapply good_trans; eauto. apply IH. specialize (Hlt (Hne H)). lia.
Qed.

Lemma unicode_digits_good fuel : forall rd ds, (m rd < fuel)%nat -> good rd (unicode_digits fuel rd ds).
Proof.
  induction fuel as [|f IH]; intros rd ds Hm; [lia|].
  cbn [unicode_digits]. next_step rd r rd1 E.
  break_if; [cbn; auto|]. break_if; [cbn; auto|].
  apply orb_false_elim in Eb0. destruct Eb0 as [Hhex _]. apply negb_false_iff in Hhex.
  assert (r <> 0).
  { intros ->. cbv in Hhex. discriminate. }
  eapply good_trans; eauto. apply IH. specialize (Hlt (Hne H)). lia.
Qed.

Lemma consume_unicode_escape_good fuel rd : (m rd < fuel)%nat -> good rd (consume_unicode_escape fuel rd).
Proof.
  intros Hm. unfold consume_unicode_escape. next_step rd r rd1 E.
  break_if; [cbn; auto|].
  pose proof (unicode_digits_good fuel rd1 [] ltac:(lia)) as Hg.
  destruct (unicode_digits fuel rd1 []) as [ds rd2| rd2 | |]; cbn in Hg; try contradiction.
  - destruct ds; [cbn; eapply reach_trans; eauto|].
    break_if; cbn; eapply reach_trans; eauto.
  - cbn. eapply reach_trans; eauto.
Qed.

Lemma consume_string_good fuel : forall rd e buf, (m rd < fuel)%nat -> good rd (consume_string fuel rd e buf).
Proof.
  induction fuel as [|f IH]; intros rd e buf Hm; [lia|].
  cbn [consume_string]. next_step rd r rd1 E.
  break_if; [cbn; auto|]. break_if; [cbn; auto|]. break_if; [cbn; auto|].
  apply N.eqb_neq in Eb0. specialize (Hlt (Hne Eb0)).
  break_if.
  - next_step rd1 r2 rd2 E2.
    break_if; [cbn; eapply reach_trans; eauto|]. break_if; [cbn; eapply reach_trans; eauto|].
    assert (Hr12 : reach rd rd2) by (eapply reach_trans; eauto).
    break_if; [eapply good_trans; eauto; apply IH; lia|].
    break_if; [eapply good_trans; eauto; apply IH; lia|].
    break_if; [eapply good_trans; eauto; apply IH; lia|].
    break_if.
    { pose proof (consume_unicode_escape_good f rd2 ltac:(lia)) as Hg.
      destruct (consume_unicode_escape f rd2) as [v rd3| rd3 | |]; cbn in Hg; try contradiction.
      - eapply good_trans; [eapply reach_trans; eauto|]. apply IH.
        pose proof (reach_m _ _ Hg). lia.
      - cbn. eapply reach_trans; eauto. }
    break_if; [eapply good_trans; eauto; apply IH; lia|].
    break_if; [cbn; auto|].
    eapply good_trans; eauto; apply IH; lia.
  - break_if; [cbn; auto|].
    eapply good_trans; eauto. apply IH. lia.
Qed.

Lemma consume_word_loop_good up fuel : forall rd buf, (m rd < fuel)%nat -> good rd (consume_word_loop up fuel rd buf).
Proof.
  induction fuel as [|f IH]; intros rd buf Hm; [lia|].
  cbn [consume_word_loop].
  break_if; [cbn; constructor|].
  apply N.eqb_neq in Eb. apply rd_peek_nonempty in Eb.
  break_if.
  - next_step rd r rd1 E. specialize (Hlt Eb). next_step rd1 r2 rd2 E2.
    break_if; [|cbn; eapply reach_trans; eauto].
    next_step rd2 r3 rd3 E3.
    assert (Hr13 : reach rd rd3) by (eapply reach_trans; [eauto|eapply reach_trans; eauto]).
    break_if; [|cbn; auto].
    eapply good_trans; eauto. apply IH. lia.
  - break_if; [|cbn; constructor].
    next_step rd r rd1 E. eapply good_trans; eauto. apply IH. specialize (Hlt Eb). lia.
Qed.

(* nextToken: it answers; its reader was reached from rd; and unless it is the end token, input was consumed *)
Definition good_token (rd : reader) (res : lres token) : Prop :=
  match res with
  | LOk t rd' => reach rd rd' /\ ((m rd' < m rd)%nat \/ tk_kind t = TEnd)
  | LErr rd' => reach rd rd'
  | LFault => False
  | LOutOfFuel => False
  end.

Lemma good_token_of_good {A} (f : A -> token) rd rd1 (res : lres A) :
  reach rd rd1 -> (m rd1 < m rd)%nat -> good rd1 res -> good_token rd (lmap f res).
Proof.
  intros Hr Hm Hg. destruct res; cbn in *; try contradiction.
  - split; [eapply reach_trans; eauto|]. left. pose proof (reach_m _ _ Hg). lia.
  - eapply reach_trans; eauto.
Qed.

Lemma good_token_trans a b res : reach a b -> (m b <= m a)%nat -> good_token b res -> good_token a res.
Proof.
  intros Hr Hm. destruct res; cbn; try tauto.
  - intros [H1 H2]. split; [eapply reach_trans; eauto|]. destruct H2; [left; lia|right; auto].
  - intros; eapply reach_trans; eauto.
Qed.

Lemma next_token_good ol fuel : forall rd, (m rd < fuel)%nat -> good_token rd (next_token ol fuel rd).
Proof.
  induction fuel as [|f IH]; intros rd Hm; [lia|].
  cbn [next_token]. next_step rd r rd1 E.
  break_if; [cbn; auto|].
  break_if; [cbn; auto|].
  apply N.eqb_neq in Eb0. specialize (Hlt (Hne Eb0)).
  break_if.
  { eapply good_token_trans; eauto. apply IH. lia. }
  break_if.
  { pose proof (consume_line_comment_good f rd1 ltac:(lia)) as Hg.
    destruct (consume_line_comment f rd1) as [u rd2| rd2 | |]; cbn in Hg; try contradiction.
    - pose proof (reach_m _ _ Hg).
      eapply good_token_trans; [eapply reach_trans; eauto|lia|]. apply IH. lia.
    - cbn. eapply reach_trans; eauto. }
  break_if.
  { eapply good_token_of_good; eauto. apply consume_string_good. lia. }
  break_if.
  { eapply good_token_of_good; eauto. apply consume_regexp_good. lia. }
  do 8 (break_if; [cbn; split; [auto|left; lia]|]).
  break_if.
  { break_if.
    - next_step rd1 r2 rd2 E2. cbn. split; [eapply reach_trans; eauto|left; lia].
    - cbn. split; [auto|left; lia]. }
  break_if.
  { next_step rd1 r2 rd2 E2. break_if; [cbn; eapply reach_trans; eauto|].
    eapply good_token_of_good; [eapply reach_trans; eauto|lia|]. apply consume_number_good. lia. }
  break_if.
  { eapply good_token_of_good; eauto. apply consume_number_good. lia. }
  break_if.
  { eapply good_token_of_good; eauto. apply consume_word_loop_good. lia. }
  break_if.
  { eapply good_token_of_good; eauto. apply consume_word_loop_good. lia. }
  cbn; auto.
Qed.

(* ------------------------------------------------------------------------------------------------ *)
(* the whole token stream *)

Lemma lex_all_ends ol fuel : forall rd, (m rd < fuel)%nat ->
  snd (lex_all ol fuel rd) <> ELexOutOfFuel /\ snd (lex_all ol fuel rd) <> ELexFault.
Proof.
  induction fuel as [|f IH]; intros rd Hm; [lia|].
  cbn [lex_all].
  pose proof (next_token_good ol (S f) rd Hm) as Hg.
  destruct (next_token ol (S f) rd) as [t rd1| rd1 | |]; cbn in Hg; try contradiction.
  - destruct Hg as [Hr [Hlt|He]].
    + specialize (IH rd1 ltac:(lia)).
      destruct (tk_kind t); cbn [snd]; try (split; discriminate);
        destruct (lex_all ol f rd1) as [ps e]; cbn [snd] in *; exact IH.
    + rewrite He. cbn [snd]. split; discriminate.
  - cbn [snd]. split; discriminate.
Qed.

Lemma m_new_reader s : m (new_reader s) = S (length s).
Proof. unfold m, new_reader; cbn. destruct s; reflexivity. Qed.

(* lex_terminates: the fuel length+2 suffices for every byte string and every letter oracle; in particular the
   number scanning loops stop at the end of the input *)
Theorem lex_terminates : forall ol s, snd (lex ol s) <> ELexOutOfFuel.
Proof.
  intros ol s. unfold lex, lex_fuel. apply lex_all_ends. rewrite m_new_reader. lia.
Qed.

Theorem lex_no_fault : forall ol s, snd (lex ol s) <> ELexFault.
Proof.
  intros ol s. unfold lex, lex_fuel. apply lex_all_ends. rewrite m_new_reader. lia.
Qed.

(* more fuel changes nothing: the stream is the same for every fuel above the bound *)

(* ------------------------------------------------------------------------------------------------ *)
(* positions lie within the input *)

Local Open Scope Z_scope.

Lemma count_nl_nonneg s : 0 <= count_nl s.
Proof. induction s as [|b t IH]; cbn [count_nl]; [lia|]. destruct (N.eqb b 10); lia. Qed.

Lemma count_nl_app a b : count_nl (a ++ b) = count_nl a + count_nl b.
Proof. induction a as [|x a IH]; cbn [count_nl app]; [lia|]. rewrite IH. lia. Qed.

Lemma line_len_nonneg s : forall l, 0 <= line_len s l.
Proof.
  induction s as [|b t IH]; intros l; cbn [line_len]; [lia|].
  destruct (N.eqb b 10); destruct (l =? 1); try lia; auto. specialize (IH 1). lia.
Qed.

(* the first line of a suffix is part of the line of the whole string on which the suffix starts *)
Lemma line_len_suffix pre t : line_len t 1 <= line_len (pre ++ t) (1 + count_nl pre).
Proof.
  induction pre as [|b p IH]; cbn [app count_nl line_len].
  - replace (1 + 0) with 1 by lia. lia.
  - pose proof (count_nl_nonneg p) as Hp.
    destruct (N.eqb b 10).
    + destruct (1 + (1 + count_nl p) =? 1) eqn:E; [apply Z.eqb_eq in E; lia|].
      replace (1 + (1 + count_nl p) - 1) with (1 + count_nl p) by lia. exact IH.
    + replace (1 + (0 + count_nl p)) with (1 + count_nl p) by lia.
      destruct (1 + count_nl p =? 1) eqn:E; [|exact IH].
      apply Z.eqb_eq in E. rewrite E in IH. lia.
Qed.

Lemma no_nl_count a : no_nl a -> count_nl a = 0.
Proof.
  induction 1 as [|x a Hx _ IH]; cbn [count_nl]; [reflexivity|].
  destruct (N.eqb_spec x 10); [contradiction|]. lia.
Qed.

Lemma no_nl_line_len a b : no_nl a -> line_len (a ++ b) 1 = Z.of_nat (length a) + line_len b 1.
Proof.
  induction 1 as [|x a Hx _ IH]; cbn [app line_len length]; [lia|].
  destruct (N.eqb_spec x 10); [contradiction|]. cbn [Z.eqb Pos.eqb]. rewrite IH. lia.
Qed.

(* the reader invariant with respect to the input s *)
Definition Inv (s : str) (rd : reader) : Prop :=
  exists pre,
    s = pre ++ r_rest rd /\ r_line rd = 1 + count_nl pre /\ 0 <= r_col rd /\
    (r_past rd = true -> r_rest rd = []) /\
    r_col rd + line_len (r_rest rd) 1
      <= line_len s (r_line rd) + (if 1 <? r_line rd then 1 else 0) + (if r_past rd then 1 else 0).

Lemma Inv_new s : Inv s (new_reader s).
Proof.
  exists []. cbn. repeat split; try lia; try discriminate.
Qed.

Lemma Inv_next s rd r rd' : Inv s rd -> rd_next rd = (r, rd') -> Inv s rd'.
Proof.
  intros (pre & Hs & Hl & Hc & Hp & Hb). unfold rd_next.
  destruct rd as [rest past l c]; cbn [r_rest r_past r_line r_col] in *.
  pose proof (count_nl_nonneg pre) as Hnn.
  destruct rest as [|b t].
  - destruct past; intros E; inversion E; subst; clear E.
    + exists pre. cbn [r_rest r_past r_line r_col]. repeat split; auto.
    + exists pre. cbn [r_rest r_past r_line r_col line_len] in *. repeat split; auto; lia.
  - assert (past = false) by (destruct past; auto; specialize (Hp eq_refl); discriminate). subst past.
    destruct (N.ltb b 128) eqn:E128.
    + destruct (N.eqb_spec b 10) as [->|Hn10]; intros E; inversion E; subst r rd' s l; clear E.
      * exists (pre ++ [10%N]). cbn [r_rest r_past r_line r_col].
        rewrite <- app_assoc. cbn [app]. rewrite count_nl_app. cbn [count_nl].
        change (N.eqb 10 10) with true. cbv iota.
        pose proof (line_len_suffix (pre ++ [10%N]) t) as HL.
        rewrite <- app_assoc in HL. cbn [app] in HL. rewrite count_nl_app in HL. cbn [count_nl] in HL.
        change (N.eqb 10 10) with true in HL. cbv iota in HL.
        replace (1 + count_nl pre + 1) with (1 + (count_nl pre + (1 + 0))) by lia.
        repeat split; try lia; try discriminate.
        destruct (1 <? 1 + (count_nl pre + (1 + 0))) eqn:E1; [lia|]. apply Z.ltb_ge in E1. lia.
      * exists (pre ++ [b]). cbn [r_rest r_past r_line r_col].
        rewrite <- app_assoc. cbn [app]. rewrite count_nl_app. cbn [count_nl].
        destruct (N.eqb_spec b 10); [contradiction|].
        cbn [line_len] in Hb. destruct (N.eqb_spec b 10); [contradiction|]. cbn [Z.eqb Pos.eqb] in Hb.
        repeat split; try lia; try discriminate.
    + pose proof (decode_rune_size b t) as Hsz.
      assert (Hge : (128 <= b)%N) by (apply N.ltb_ge in E128; exact E128).
      pose proof (decode_rune_no_nl b t Hge) as Hnl.
      destruct (decode_rune (b :: t)) as [c0 size]; cbn [snd] in *.
      intros E; inversion E; subst; clear E.
      exists (pre ++ firstn size (b :: t)). cbn [r_rest r_past r_line r_col].
      rewrite <- app_assoc. rewrite firstn_skipn. rewrite count_nl_app. rewrite (no_nl_count _ Hnl).
      rewrite <- (firstn_skipn size (b :: t)) in Hb at 1.
      rewrite (no_nl_line_len _ _ Hnl) in Hb.
      assert (Hlen : (1 <= length (firstn size (b :: t)))%nat).
      { rewrite firstn_length. cbn [length]. lia. }
      repeat split; try lia; try discriminate.
Qed.

Lemma Inv_reach s rd rd' : reach rd rd' -> Inv s rd -> Inv s rd'.
Proof. induction 1; intros; eauto using Inv_next. Qed.

Lemma Inv_within s rd : Inv s rd -> pos_within s (r_line rd) (r_col rd).
Proof.
  intros (pre & Hs & Hl & Hc & Hp & Hb).
  pose proof (count_nl_nonneg pre). pose proof (count_nl_nonneg (r_rest rd)).
  pose proof (line_len_nonneg (r_rest rd) 1).
  unfold pos_within. rewrite Hs at 1. rewrite count_nl_app.
  destruct (1 <? r_line rd); destruct (r_past rd); lia.
Qed.

Lemma lex_all_positions ol s fuel : forall rd, (m rd < fuel)%nat -> Inv s rd ->
  Forall (fun t => pos_within s (pt_line t) (pt_col t)) (fst (lex_all ol fuel rd)) /\
  (forall l c, snd (lex_all ol fuel rd) = ELexErr l c -> pos_within s l c).
Proof.
  induction fuel as [|f IH]; intros rd Hm HI; [lia|].
  cbn [lex_all].
  pose proof (next_token_good ol (S f) rd Hm) as Hg.
  destruct (next_token ol (S f) rd) as [t rd1| rd1 | |]; cbn in Hg; try contradiction.
  - destruct Hg as [Hr Hprog].
    pose proof (Inv_within _ _ (Inv_reach _ _ _ Hr HI)) as Hw.
    destruct (tkind_eqb (tk_kind t) TEnd) eqn:Ek.
    + assert (tk_kind t = TEnd) as -> by (destruct (tk_kind t); cbn in Ek; congruence).
      cbv iota. cbn [fst snd]. split; [constructor; [exact Hw|constructor]|discriminate].
    + assert (Hne : tk_kind t <> TEnd) by (intros Heq; rewrite Heq in Ek; cbn in Ek; discriminate).
      destruct Hprog as [Hlt|]; [|contradiction].
      specialize (IH rd1 ltac:(lia) (Inv_reach _ _ _ Hr HI)).
      destruct (lex_all ol f rd1) as [ps e]. cbn [fst snd] in IH. destruct IH as [IH1 IH2].
      destruct (tk_kind t); try contradiction; cbn [fst snd]; (split; [constructor; [exact Hw|exact IH1]|exact IH2]).
  - cbn [fst snd]. split; [constructor|].
    intros l c E; inversion E; subst. apply Inv_within. eapply Inv_reach; eauto.
Qed.

(* every token position and the position at which the lexer gives up lie within the input *)
Theorem lex_positions : forall ol s,
  Forall (fun t => pos_within s (pt_line t) (pt_col t)) (fst (lex ol s)) /\
  (forall l c, snd (lex ol s) = ELexErr l c -> pos_within s l c).
Proof.
  intros ol s. unfold lex, lex_fuel. apply lex_all_positions; [rewrite m_new_reader; lia|apply Inv_new].
Qed.

(* the shape of the stream: when it does not end in a lexer error, its last token is the end token *)
Lemma lex_all_shape ol fuel : forall rd,
  snd (lex_all ol fuel rd) = EEnd ->
  fst (lex_all ol fuel rd) <> [] /\ pt_kind (last (fst (lex_all ol fuel rd)) (mkPtok TEnd [] 0 0)) = TEnd.
Proof.
  induction fuel as [|f IH]; intros rd; cbn [lex_all]; [cbn; discriminate|].
  destruct (next_token ol (S f) rd) as [t rd1| rd1 | |]; cbn [fst snd]; try discriminate.
  specialize (IH rd1).
  destruct (tkind_eqb (tk_kind t) TEnd) eqn:Ek.
  - assert (tk_kind t = TEnd) as -> by (destruct (tk_kind t); cbn in Ek; congruence).
    cbn [fst snd]. intros _. split; [discriminate|reflexivity].
  - assert (Hlex : (let '(ps, e) := lex_all ol f rd1 in
                    (mkPtok (tk_kind t) (tk_text t) (r_line rd1) (r_col rd1) :: ps, e)) =
                   match tk_kind t with
                   | TEnd => ([mkPtok (tk_kind t) (tk_text t) (r_line rd1) (r_col rd1)], EEnd)
                   | _ => let '(ps, e) := lex_all ol f rd1 in
                          (mkPtok (tk_kind t) (tk_text t) (r_line rd1) (r_col rd1) :: ps, e)
                   end).
    { destruct (tk_kind t); try reflexivity. cbn in Ek. discriminate. }
    rewrite <- Hlex. clear Hlex.
    destruct (lex_all ol f rd1) as [ps e]. cbn [fst snd] in *.
    intros He. destruct (IH He) as [Hne Hlast].
    split; [discriminate|]. destruct ps; [contradiction|exact Hlast].
Qed.

Lemma lex_shape ol s :
  snd (lex ol s) = EEnd ->
  fst (lex ol s) <> [] /\ pt_kind (last (fst (lex ol s)) (mkPtok TEnd [] 0 0)) = TEnd.
Proof. apply lex_all_shape. Qed.

Lemma rune_count_fuel_nonneg n : forall bs, 0 <= rune_count_fuel n bs.
Proof.
  induction n as [|n IH]; intros bs; cbn [rune_count_fuel]; [lia|].
  destruct bs; [lia|]. specialize (IH (skipn (snd (decode_rune (n0 :: bs))) (n0 :: bs))). lia.
Qed.

Lemma rune_count_nonneg bs : 0 <= rune_count bs.
Proof. apply rune_count_fuel_nonneg. Qed.

(* ------------------------------------------------------------------------------------------------ *)
(* UTF-8: the encoding of a rune decodes to one rune of the same size, so a text written rune by rune
   (bytes.Buffer.WriteRune) has as many characters (utf8.RuneCountInString) as runes were written *)

Local Open Scope N_scope.

(* what is needed of every rune: its encoding decodes with the size of the encoding, and a one-byte encoding is
   an ASCII byte *)
Definition enc_ok (r : N) : bool :=
  let e := encode_rune r in
  (Nat.eqb (snd (decode_rune e)) (length e) &&
   match e with [b] => b <? 128 | [] => false | _ => true end)%bool.

Ltac Zify.zify_post_hook ::= Z.to_euclidean_division_equations.

Ltac enc_cases :=
  repeat match goal with
         | |- context [N.eqb ?a ?b] => destruct (N.eqb_spec a b); try lia
         | |- context [N.ltb ?a ?b] => destruct (N.ltb_spec a b); try lia
         | |- context [N.leb ?a ?b] => destruct (N.leb_spec a b); try lia
         end.

Lemma enc_ok_all r : enc_ok r = true.
Proof.
  unfold enc_ok, encode_rune, valid_rune.
  destruct (N.ltb_spec r 128).
  { cbv zeta. unfold decode_rune. enc_cases. reflexivity. }
  destruct (N.ltb_spec r 2048).
  { cbv zeta. unfold decode_rune, is_cont, in_rng. enc_cases; reflexivity. }
  destruct (N.ltb_spec r 55296); cbn [orb negb].
  { destruct (N.ltb_spec r 65536); [|lia].
    cbv zeta. unfold decode_rune, is_cont, in_rng. enc_cases; reflexivity. }
  destruct (N.ltb_spec 57343 r); cbn [andb negb]; [|vm_compute; reflexivity].
  destruct (N.leb_spec r 1114111); cbn [negb]; [|vm_compute; reflexivity].
  destruct (N.ltb_spec r 65536).
  { cbv zeta. unfold decode_rune, is_cont, in_rng. enc_cases; reflexivity. }
  cbv zeta. unfold decode_rune, is_cont, in_rng. enc_cases; reflexivity.
Qed.

Ltac Zify.zify_post_hook ::= idtac.

(* a successful decode looks at the bytes it consumes only *)
Lemma decode_rune_app bs t :
  snd (decode_rune bs) = length bs ->
  match bs with [b] => b <? 128 | [] => false | _ => true end = true ->
  snd (decode_rune (bs ++ t)) = length bs.
Proof.
  destruct bs as [|b0 [|b1 [|b2 [|b3 [|b4 bs]]]]]; cbn [app length]; try discriminate.
  - intros _ Hb. unfold decode_rune. rewrite Hb. reflexivity.
  - unfold decode_rune. intros H _. revert H.
    repeat match goal with
           | |- context [if ?c then _ else _] => destruct c
           end; cbn [snd]; try discriminate; auto.
  - unfold decode_rune. intros H _. revert H.
    repeat match goal with
           | |- context [if ?c then _ else _] => destruct c
           end; cbn [snd]; try discriminate; auto.
  - unfold decode_rune. intros H _. revert H.
    repeat match goal with
           | |- context [if ?c then _ else _] => destruct c
           end; cbn [snd]; try discriminate; auto.
  - intros H _. pose proof (decode_rune_size b0 (b1 :: b2 :: b3 :: b4 :: bs)) as Hs. rewrite H in Hs. cbn in Hs. lia.
Qed.

Lemma decode_encode_size r t : snd (decode_rune (encode_rune r ++ t)) = length (encode_rune r).
Proof.
  pose proof (enc_ok_all r) as H. unfold enc_ok in H. apply andb_prop in H. destruct H as [H1 H2].
  apply Nat.eqb_eq in H1. apply decode_rune_app; auto.
Qed.

Lemma encode_rune_nonempty r : encode_rune r <> [].
Proof.
  pose proof (enc_ok_all r) as H. unfold enc_ok in H. apply andb_prop in H. destruct H as [_ H].
  destruct (encode_rune r); [discriminate|discriminate].
Qed.

Local Open Scope Z_scope.

Lemma rune_count_fuel_indep : forall n k bs, (length bs <= n)%nat -> (length bs <= k)%nat ->
  rune_count_fuel n bs = rune_count_fuel k bs.
Proof.
  induction n as [|n IH]; intros k bs Hn Hk.
  - destruct bs; [|cbn in Hn; lia]. destruct k; reflexivity.
  - destruct k as [|k]; [destruct bs; [reflexivity|cbn in Hk; lia]|].
    cbn [rune_count_fuel]. destruct bs as [|b t]; [reflexivity|].
    pose proof (decode_rune_size b t) as Hs.
    f_equal. apply IH; rewrite skipn_length; cbn [length] in *; lia.
Qed.

Lemma rune_count_encode r t : rune_count (encode_rune r ++ t) = 1 + rune_count t.
Proof.
  unfold rune_count.
  pose proof (encode_rune_nonempty r) as Hne. pose proof (decode_encode_size r t) as Hd.
  destruct (encode_rune r) as [|x e'] eqn:E0; [contradiction|].
  cbn [app length rune_count_fuel]. change (x :: e' ++ t) with ((x :: e') ++ t).
  rewrite Hd. rewrite skipn_app. rewrite skipn_all. rewrite Nat.sub_diag. cbn [skipn app].
  f_equal. apply rune_count_fuel_indep; [rewrite app_length|]; lia.
Qed.

Lemma rune_count_flat_map rs : rune_count (flat_map encode_rune rs) = Z.of_nat (length rs).
Proof.
  induction rs as [|r rs IH]; [reflexivity|].
  cbn [flat_map length]. rewrite rune_count_encode, IH. lia.
Qed.

