(* FormatNoFault.v — no runtime fault escapes from formatting (property C20): the explicit fault
   sites of the model (index into an empty digit string in fmt.fmtFloat / floatGFormat, a second
   numeric conversion, a container handed to a scalar's ToString) are unreachable, provided the
   digit strings of the oracle are not empty (strconv never returns an empty string). *)
From Coq Require Import ZArith NArith Bool Lia List.
From PcoreV Require Import Model.Base Model.Format Proofs.FormatProofs.
Import ListNotations.
Open Scope Z_scope.

Definition nf {A} (r : R A) : Prop := match r with RErr EFault => False | _ => True end.
Definition onf {A} (x : option (R A)) : Prop := match x with Some r => nf r | None => True end.

Lemma nf_bind {A B} (x : R A) (k : A -> R B) : nf x -> (forall a, nf (k a)) -> nf (bind x k).
Proof. destruct x as [a|e]; cbn; [intros _ H; apply H | intros H _; exact H]. Qed.

Lemma onf_obind {A B} (x : option (R A)) (k : A -> option (R B)) : onf x -> (forall a, onf (k a)) -> onf (obind x k).
Proof. destruct x as [[a|e]|]; cbn; [intros _ H; apply H | intros H _; exact H | trivial]. Qed.

Lemma onf_map_m {A B} (f : A -> option (R B)) l : (forall x, onf (f x)) -> onf (map_m f l).
Proof.
  intros H. induction l as [|x l IH]; cbn [map_m]; [exact I|].
  apply onf_obind; [apply H|]. intros y. apply onf_obind; [exact IH|]. intros ys. exact I.
Qed.

(* strconv's digit strings are not empty (and not a bare sign) *)
Definition oracle_ok (o : oracle) : Prop :=
  forall k ds, In (k, ds) (o_fdig o) -> ds <> [] /\ ds <> [43%N].

Lemma assoc_in_gen {A B} (eqb : A -> A -> bool) k (l : list (A * B)) v :
  assoc eqb k l = Some v -> exists k', In (k', v) l.
Proof.
  induction l as [|[k' v'] l IH]; cbn [assoc]; [discriminate|].
  destruct (eqb k k'); [intros H; injection H as <-; exists k'; now left|].
  intros H. destruct (IH H) as (k'' & Hin). exists k''. now right.
Qed.

(* ------------------------------------------------------------------------------------------ *)
(* fmt.fmtFloat gives a non-empty text *)

Lemma fmt_pad_nonempty wid minus zero s : s <> [] -> fmt_pad wid minus zero s <> [].
Proof.
  intros H. unfold fmt_pad. destruct (wid <=? 0); [exact H|]. destruct minus.
  - destruct s; [congruence | discriminate].
  - intros E. apply app_eq_nil in E. destruct E as [_ E]. congruence.
Qed.

Lemma sharp_scan_length verb : forall l d hp saw acc,
  let '(body, tail, _, _) := sharp_scan verb l d hp saw acc in
  (length body + length tail = length acc + length l)%nat.
Proof.
  induction l as [|c r IH]; intros d hp saw acc; cbn [sharp_scan].
  - rewrite rev_length. cbn. lia.
  - destruct (N.eqb c 46).
    { specialize (IH d true saw (c :: acc)). destruct (sharp_scan verb r d true saw (c :: acc)) as [[[b t] ?] ?].
      cbn [length] in *. lia. }
    destruct (N.eqb c 112 || N.eqb c 80); [rewrite rev_length; cbn [length]; lia|].
    destruct ((N.eqb c 101 || N.eqb c 69) && negb (N.eqb verb 120) && negb (N.eqb verb 88)); [rewrite rev_length; cbn [length]; lia|].
    match goal with |- context [sharp_scan verb r ?d' hp ?s' (c :: acc)] =>
      specialize (IH d' hp s' (c :: acc)); destruct (sharp_scan verb r d' hp s' (c :: acc)) as [[[b t] ?] ?] end.
    cbn [length] in *. lia.
Qed.

Lemma sharp_fix_nonempty verb p num : num <> [] -> sharp_fix verb p num <> [].
Proof.
  intros Hn. unfold sharp_fix.
  match goal with |- context [sharp_scan verb num ?d0 false false []] =>
    pose proof (sharp_scan_length verb num d0 false false []) as H;
    destruct (sharp_scan verb num d0 false false []) as [[[body tail] digits] hp] end.
  cbn [length] in H.
  assert (Hl : (0 < length num)%nat) by (destruct num; [congruence | cbn; lia]).
  destruct hp.
  - intros E. apply (f_equal (@length N)) in E. rewrite !app_length in E. cbn [length] in E. lia.
  - intros E. apply (f_equal (@length N)) in E. rewrite !app_length in E. cbn [length] in E. lia.
Qed.

Definition good (r : obs) : Prop := match r with ROk t => t <> [] | RErr e => e <> EFault end.

Lemma good_nf r : good r -> nf r.
Proof. destruct r as [t|[]]; cbn; auto. Qed.

Lemma fmt_float_good o sharp zero plus space minus wid prec verb bits :
  oracle_ok o -> good (fmt_float o sharp zero plus space minus wid prec verb bits).
Proof.
  intros Ho. unfold fmt_float. cbv zeta.
  destruct (assoc fdig_key_eqb _ (o_fdig o)) as [ds0|] eqn:Ea; [|cbn; discriminate].
  destruct (assoc_in_gen _ _ _ _ Ea) as (k' & Hin). destruct (Ho k' ds0 Hin) as [H1 H2].
  assert (Hds : (match ds0 with 43%N :: r => r | _ => ds0 end) <> []).
  { destruct ds0 as [|a r]; [congruence|]. destruct a as [|p]; [discriminate|].
    repeat (destruct p as [p|p|]; try discriminate). intros ->. congruence. }
  destruct (match ds0 with 43%N :: r => r | _ => ds0 end) as [|d0 ds'] eqn:Ed; [congruence|].
  repeat match goal with
         | |- good (if ?b then _ else _) => destruct b
         end; cbn [good]; try discriminate;
    try (apply fmt_pad_nonempty; try discriminate; try (apply sharp_fix_nonempty; discriminate);
         try (destruct sharp; [apply sharp_fix_nonempty; discriminate | discriminate]));
    try (destruct (N.eqb d0 78 && negb space && negb plus); discriminate).
Qed.

Lemma go_fmt_float_good o f verb bits : oracle_ok o -> good (go_fmt_float o f verb bits).
Proof. apply fmt_float_good. Qed.

Lemma pad_float_nonempty f s : s <> [] -> pad_float f s <> [].
Proof.
  intros H. unfold pad_float. cbv zeta. destruct (_ <=? 0); [exact H|]. destruct (f_left f).
  - destruct s; [congruence | discriminate].
  - destruct (f_zero f && negb (mem 73 s || mem 78 s)).
    + destruct s as [|c r]; [congruence|]. destruct (_ || _); [discriminate|].
      intros E. apply app_eq_nil in E. destruct E as [_ E]. discriminate.
    + intros E. apply app_eq_nil in E. destruct E as [_ E]. congruence.
Qed.

Lemma float_g_good o f bits : oracle_ok o -> good (float_g o f bits).
Proof.
  intros Ho. unfold float_g. pose proof (go_fmt_float_good o (without_width f) (f_char f) bits Ho) as Hg.
  destruct (go_fmt_float o (without_width f) (f_char f) bits) as [s|e]; cbn [bind good] in *; [|exact Hg].
  cbv zeta. destruct (_ || _); [cbn; now apply pad_float_nonempty|].
  destruct s as [|c0 s']; [congruence|].
  destruct (_ && _); [now apply go_fmt_float_good|].
  cbn [good]. apply pad_float_nonempty. discriminate.
Qed.

(* ------------------------------------------------------------------------------------------ *)
(* the scalar ToString methods *)

Lemma nf_quote o s : nf (quote o s).
Proof. unfold quote. destruct (is_plain s); [exact I|]. destruct (assoc _ _ _); exact I. Qed.

Lemma nf_apply o f s q : nf (apply_string_flags o f s q).
Proof.
  unfold apply_string_flags. apply nf_bind; [destruct q; [apply nf_quote | exact I]|].
  intros a. destruct (_ || _); exact I.
Qed.

Lemma nf_case_op o op fn s : nf (case_op o op fn s).
Proof. unfold case_op. destruct (is_ascii s); [exact I|]. destruct (assoc _ _ _); exact I. Qed.

Ltac nf_tac Ho :=
  repeat first
         [ exact I
         | apply nf_apply | apply nf_case_op | apply nf_quote
         | apply good_nf; first [apply (go_fmt_float_good _ _ _ _ Ho) | apply (float_g_good _ _ _ Ho)]
         | apply nf_bind; [|intros ?]
         | match goal with
           | |- nf (if ?b then _ else _) => destruct b
           | |- nf (match ?x with _ => _ end) => destruct x
           end ].

Lemma render_integer_dx_nf o cb f n : mem (f_char f) l_dxXobB = true -> nf (render_integer o cb f n).
Proof.
  intros H. unfold render_integer. cbv zeta.
  destruct (mem (f_char f) l_xXodb) eqn:E1; [exact I|].
  destruct (N.eqb (f_char f) 66) eqn:E2; [exact I|].
  exfalso. assert (Hf : mem (f_char f) l_dxXobB = false).
  { apply (mem_cover (f_char f) l_dxXobB [l_xXodb; [66%N]] eq_refl). cbn [forallb mem existsb]. rewrite E1, E2. reflexivity. }
  congruence.
Qed.

Lemma render_float_efg_nf o cb f b : oracle_ok o -> mem (f_char f) l_efg = true -> nf (render_float o cb f b).
Proof.
  intros Ho H. unfold render_float. cbv zeta.
  rewrite (mem_disj (f_char f) l_efg l_dxXobB eq_refl H).
  destruct (N.eqb (f_char f) 112); [nf_tac Ho|].
  destruct (mem (f_char f) l_eEf); [nf_tac Ho|].
  destruct (mem (f_char f) l_gG); [nf_tac Ho|].
  destruct (N.eqb (f_char f) 115); [nf_tac Ho|].
  destruct (mem (f_char f) l_aA); [nf_tac Ho|]. exact I.
Qed.

Lemma render_integer_nf o cb f n :
  (forall f' b, mem (f_char f') l_efg = true -> nf (cb f' b)) -> nf (render_integer o cb f n).
Proof.
  intros Hcb. unfold render_integer. cbv zeta.
  destruct (mem (f_char f) l_xXodb); [exact I|].
  destruct (N.eqb (f_char f) 66); [exact I|].
  destruct (N.eqb (f_char f) 112); [apply nf_apply|].
  destruct (mem (f_char f) l_efg) eqn:E; [destruct (assoc _ _ _); [now apply Hcb | exact I]|].
  destruct (N.eqb (f_char f) 99); [apply nf_apply|].
  destruct (N.eqb (f_char f) 115); [apply nf_apply | exact I].
Qed.

Lemma render_float_nf o cb f b :
  oracle_ok o -> (forall f' n, mem (f_char f') l_dxXobB = true -> nf (cb f' n)) -> nf (render_float o cb f b).
Proof.
  intros Ho Hcb. unfold render_float. cbv zeta.
  destruct (mem (f_char f) l_dxXobB) eqn:E; [destruct (assoc _ _ _); [now apply Hcb | exact I]|].
  destruct (N.eqb (f_char f) 112); [nf_tac Ho|].
  destruct (mem (f_char f) l_eEf); [nf_tac Ho|].
  destruct (mem (f_char f) l_gG); [nf_tac Ho|].
  destruct (N.eqb (f_char f) 115); [nf_tac Ho|].
  destruct (mem (f_char f) l_aA); [nf_tac Ho|]. exact I.
Qed.

Lemma render_scalar_nf o f v : oracle_ok o -> is_container v = false -> nf (render_scalar o f v).
Proof.
  intros Ho. destruct v; cbn [is_container render_scalar]; intros Hc; try discriminate.
  - apply nf_apply.
  - unfold render_default. nf_tac Ho.
  - unfold render_boolean. cbv zeta.
    repeat match goal with
           | |- nf (if mem (f_char f) l_dxXobB then _ else _) =>
             destruct (mem (f_char f) l_dxXobB) eqn:?; [now apply render_integer_dx_nf|]
           | |- nf (if mem (f_char f) l_efg then _ else _) =>
             destruct (mem (f_char f) l_efg) eqn:?; [now apply render_float_efg_nf|]
           | |- nf (if ?b then _ else _) => destruct b; [apply nf_apply|]
           end. exact I.
  - apply render_integer_nf. intros f' b' H. now apply render_float_efg_nf.
  - apply render_float_nf; [assumption|]. intros f' n' H. now apply render_integer_dx_nf.
  - unfold render_string. nf_tac Ho.
  - unfold render_regexp. destruct (assoc _ _ _); [apply nf_apply | exact I].
  - unfold render_binary. nf_tac Ho.
Qed.

(* ------------------------------------------------------------------------------------------ *)
(* contexts and containers *)

Lemma key_accepts_nf o k v : nf (key_accepts o k v).
Proof. unfold key_accepts. destruct k; try exact I. destruct v; try exact I; destruct (assoc _ _ _); exact I. Qed.

Lemma get_format_nf o m v : nf (get_format o m v).
Proof.
  induction m as [|[k f] m IH]; cbn [get_format]; [exact I|].
  apply nf_bind; [apply key_accepts_nf|]. intros b. destruct b; [exact I | exact IH].
Qed.

Lemma render_nf : forall n o ind m ent v, oracle_ok o -> onf (render n o ind m ent v).
Proof.
  induction n as [|n IH]; intros o ind m ent v Ho; [exact I|].
  destruct v; cbn [render onf];
    try (apply nf_bind; [apply get_format_nf | intros f; now apply render_scalar_nf]).
  - pose proof (get_format_nf o m (VArr es)) as Hg.
    destruct (get_format o m (VArr es)) as [f|e]; [|exact Hg].
    destruct (negb (mem (f_char f) set_array)); [exact I|].
    apply onf_obind; [|intros; exact I]. apply onf_map_m. intros e.
    apply onf_obind; [now apply IH | intros; exact I].
  - pose proof (get_format_nf o m (VHash es)) as Hg.
    destruct (get_format o m (VHash es)) as [f|e]; [|exact Hg].
    destruct (N.eqb (f_char f) 97); [now apply IH|].
    destruct (negb (mem (f_char f) l_hsp)); [exact I|].
    apply onf_obind; [|intros; exact I]. apply onf_map_m. intros kv.
    apply onf_obind; [now apply IH|]. intros ks. apply onf_obind; [now apply IH|]. intros vs. exact I.
Qed.

Lemma once_nf flags c : nf (once flags c).
Proof. unfold once. destruct (count_c c flags) as [|[|?]]; exact I. Qed.

Lemma find_delim_nf flags ds found : nf (find_delim flags ds found).
Proof.
  revert found. induction ds as [|d ds IH]; intros found; cbn [find_delim]; [exact I|].
  apply nf_bind; [apply once_nf|]. intros b. destruct b; [|apply IH]. destruct (N.eqb found 0); [apply IH | exact I].
Qed.

Lemma parse_format_nf s sep sep2 cf : nf (parse_format s sep sep2 cf).
Proof.
  unfold parse_format. destruct (parse_directive s) as [[[[flags w] p] c]|]; [|exact I].
  repeat (apply nf_bind; [first [apply once_nf | apply find_delim_nf]|intros ?]). exact I.
Qed.

Lemma fent_format_hash fmt sep sep2 m :
  fent_format (FEHash fmt sep sep2 (Some m)) =
  bind (bind (new_format_map m) (fun fm => ROk (CfMap fm))) (fun cf => parse_format fmt (to_sep sep) (to_sep sep2) cf).
Proof. reflexivity. Qed.

Lemma fent_format_nf : forall d e, (fent_depth e <= d)%nat -> nf (fent_format e).
Proof.
  induction d as [|d IH]; intros e Hd.
  - destruct e as [s|fmt sep sep2 [m|]]; cbn in Hd; lia.
  - destruct e as [s|fmt sep sep2 [m|]].
    + apply parse_format_nf.
    + rewrite fent_format_hash. change (fent_depth (FEHash fmt sep sep2 (Some m))) with (S (fmap_depth m)) in Hd.
      apply nf_bind; [|intros; apply parse_format_nf]. apply nf_bind; [|intros; exact I].
      assert (Hd' : (fmap_depth m <= d)%nat) by lia. clear Hd.
      induction m as [|[k e'] m IHm]; cbn [new_format_map]; [exact I|]. cbn [fmap_depth] in Hd'.
      apply nf_bind; [apply IH; lia|]. intros f. apply nf_bind; [apply IHm; lia|]. intros; exact I.
    + cbn [fent_format bind]. apply parse_format_nf.
Qed.

Lemma new_format_map_nf m : nf (new_format_map m).
Proof.
  induction m as [|[k e] m IH]; cbn [new_format_map]; [exact I|].
  apply nf_bind; [apply (fent_format_nf (fent_depth e)); lia|]. intros f. apply nf_bind; [exact IH|]. intros; exact I.
Qed.

Lemma context_of_nf spec : onf (context_of spec).
Proof.
  destruct spec as [|s|m]; cbn [context_of onf]; [exact I | |].
  - apply nf_bind; [apply parse_format_nf | intros; exact I].
  - pose proof (new_format_map_nf m) as H. destruct (new_format_map m) as [hm|e]; [|exact H].
    destruct (merge_formats _ _ _); exact I.
Qed.

(* formatting never yields the runtime-fault class *)
Theorem no_fault o v spec r : oracle_ok o -> format_value o v spec = Some r -> r <> OErr EFault.
Proof.
  intros Ho H. assert (Hn : nf r).
  { unfold format_value in H. pose proof (context_of_nf spec) as Hc.
    destruct (context_of spec) as [[m|e]|]; [| |discriminate].
    - pose proof (render_nf (S (vdepth v)) o default_indentation m false v Ho) as Hr. rewrite H in Hr. exact Hr.
    - injection H as <-. exact Hc. }
  intros ->. exact Hn.
Qed.
