(* ReflectNamedProofs.v — the round trip and acceptance laws of C18 on defined Go types (Model/ReflectNamed.v). *)
From Coq Require Import ZArith NArith Bool Lia List Permutation.
From PcoreV Require Import Model.Base Model.Reflect Model.ReflectNamed Proofs.ReflectProofs.
Import ListNotations.
Open Scope Z_scope.

Lemma exact_unnamed : exact (NM false []) = true.
Proof. reflexivity. Qed.

Lemma nm_nth_unnamed i : nm_nth i (NM false []) = NM false [].
Proof. unfold nm_nth. cbn [nm_sub]. destruct i; reflexivity. Qed.

(* the model of Model/Reflect.v is the special case "no node is a defined type" *)
Lemma wrapn_unnamed ffmt : forall v w t, wrapn ffmt w t (NM false []) v = wrapx ffmt w t v.
Proof.
  induction v using gval_ind'; intros w t; try reflexivity.
  - (* slice *) cbn [wrapn wrapx]. rewrite exact_unnamed, nm_nth_unnamed. cbn [andb].
    unfold is_u8. destruct (elem_ty t) as [[]| | | | | | | | |]; try reflexivity;
      f_equal; apply map_ext_in; intros x Hx; rewrite Forall_forall in H; apply H; exact Hx.
  - (* map *) cbn [wrapn wrapx]. rewrite !nm_nth_unnamed. do 2 f_equal.
    apply map_ext_in. intros kv Hin. rewrite Forall_forall in H. destruct (H _ Hin) as [Hk Hv].
    rewrite Hk, Hv. reflexivity.
  - (* pointer *) cbn [wrapn wrapx]. rewrite nm_nth_unnamed. destruct (is_struct_ty (elem_ty t)); [reflexivity|apply IHv].
Qed.

Lemma ptype_n_unnamed : forall t, ptype_n t (NM false []) = ptype_of t.
Proof.
  induction t using gty_ind; try reflexivity.
  - cbn [ptype_n]. rewrite exact_unnamed, nm_nth_unnamed, IHt. cbn [andb]. rewrite ptype_of_slice. reflexivity.
  - cbn [ptype_n ptype_of]. rewrite !nm_nth_unnamed, IHt1, IHt2. reflexivity.
  - cbn [ptype_n ptype_of]. rewrite nm_nth_unnamed, IHt. reflexivity.
Qed.

Lemma named_generalises (ffmt : Z -> str) v w t :
  wrapn ffmt w t (NM false []) v = wrapx ffmt w t v /\ ptype_n t (NM false []) = ptype_of t.
Proof. split; [apply wrapn_unnamed|apply ptype_n_unnamed]. Qed.

Lemma wrapn_slice ffmt w e m es :
  wrapn ffmt w (GSlice e) m (GVSlice (Some es)) =
  if exact m && is_u8 e then VBinary (Some (bytes_of es)) else VArr (map (wrapn ffmt true e (nm_nth 0 m)) es).
Proof. reflexivity. Qed.

Lemma wrapn_false_liftable ffmt e m x :
  has_type x e = true -> is_ptr_ty e = false -> is_struct_ty e = false -> is_iface e = false ->
  is_nil_coll x = false -> ptr_liftable e (wrapn ffmt false e m x) = true.
Proof.
  intros Ht Hp Hs Hi Hn.
  destruct e; try discriminate;
    destruct x; cbn [has_type] in Ht; try discriminate Ht; try solve [absurd_match]; try reflexivity.
  - destruct o; [|discriminate Hn]. rewrite wrapn_slice. destruct (exact m && is_u8 e); reflexivity.
  - destruct o; [|discriminate Hn]. reflexivity.
Qed.

(* ------------------------------------------------------------------------------------------------ *)
(** * Round trip *)

Section RoundTripNamed.
  Variable ffmt : Z -> str.

  Definition rtn_prop (v : gval) : Prop :=
    forall w t m, has_type v t = true -> rt_ok_n w t m v = true -> (w = false -> is_iface t = false) ->
                  reflect_to t (wrapn ffmt w t m v) = Ok v.

  Lemma rtn_slice es : Forall rtn_prop es -> rtn_prop (GVSlice (Some es)).
  Proof.
    intros IH w t m Ht Hr _. destruct t; cbn [has_type] in Ht; try discriminate Ht.
    cbn [rt_ok_n elem_ty] in Hr. rewrite wrapn_slice. destruct (exact m && is_u8 t) eqn:Eu.
    - apply andb_true_iff in Eu as [_ Eu]. apply is_u8_eq in Eu. subst t. cbn [reflect_to binary_to].
      unfold bytes_gval. rewrite bytes_roundtrip by exact Ht. reflexivity.
    - cbn [reflect_to]. rewrite rmap_map_ok; [reflexivity|].
      intros x Hx. rewrite Forall_forall in IH. rewrite forallb_forall in Ht, Hr.
      apply IH; auto. discriminate.
  Qed.

  Lemma rtn_map kvs : Forall (fun kv => rtn_prop (fst kv) /\ rtn_prop (snd kv)) kvs -> rtn_prop (GVMap (Some kvs)).
  Proof.
    intros IH w t m Ht Hr _. destruct t; cbn [has_type] in Ht; try discriminate Ht.
    apply andb_true_iff in Ht as [Ht Hall]. apply andb_true_iff in Ht as [Hsc Hso].
    cbn [rt_ok_n elem_ty key_ty] in Hr. cbn [wrapn elem_ty key_ty].
    set (f := fun kv : gval * gval => (wrapn ffmt true t1 (nm_nth 0 m) (fst kv), wrapn ffmt true t2 (nm_nth 1 m) (snd kv))).
    destruct (Permutation_map_inv f _ (Permutation_sym (sorted_map_perm ffmt (map f kvs)))) as [l [El Hp]].
    rewrite El. cbn [reflect_to].
    rewrite forallb_forall in Hall, Hr. rewrite Forall_forall in IH.
    assert (Hkeys : forall kv, In kv kvs -> rt_ok_n true t1 (nm_nth 0 m) (fst kv) = true).
    { intros kv Hin. specialize (Hall _ Hin). apply andb_true_iff in Hall as [Hall _]. apply andb_true_iff in Hall as [Hk _].
      destruct t1; try discriminate Hsc; destruct (fst kv); cbn [has_type] in Hk; try discriminate Hk;
        try solve [absurd_match]; reflexivity. }
    rewrite (hash_build_map _ _ f l []).
    - cbn [rbind]. do 3 f_equal. eapply put_all_perm; eauto.
      + apply Forall_forall. intros kv Hin. specialize (Hall _ Hin).
        apply andb_true_iff in Hall as [Hall _]. apply andb_true_iff in Hall as [Hk _]. exact Hk.
      + apply sorted_keys_ssorted; exact Hso.
    - intros kv Hin. assert (Hin' : In kv kvs) by (eapply Permutation_in; [apply Permutation_sym; exact Hp|exact Hin]).
      destruct (IH _ Hin') as [IHk IHv]. pose proof (Hall _ Hin') as Hh.
      apply andb_true_iff in Hh as [Hh Hv]. apply andb_true_iff in Hh as [Hk _].
      unfold f; cbn [fst snd]. split.
      + apply IHv; auto. discriminate.
      + apply IHk; auto. discriminate.
  Qed.

  Lemma rtn_ptr x : rtn_prop x -> rtn_prop (GVPtr (Some x)).
  Proof.
    intros IH w t m Ht Hr _. destruct t; cbn [has_type] in Ht; try discriminate Ht.
    apply andb_true_iff in Ht as [Hi Hx]. apply negb_true_iff in Hi.
    cbn [rt_ok_n elem_ty] in Hr. cbn [wrapn elem_ty].
    destruct (is_struct_ty t) eqn:Es.
    - destruct t; try discriminate Es. cbn [struct_name reflect_to]. rewrite str_eqb_refl. reflexivity.
    - cbn [orb] in Hr. apply andb_true_iff in Hr as [Hr Hrx]. apply andb_true_iff in Hr as [Hp Hn].
      apply negb_true_iff in Hp. apply negb_true_iff in Hn.
      apply ptr_lift.
      + apply wrapn_false_liftable; auto.
      + apply IH; auto.
      + eapply has_type_not_outside; eauto.
  Qed.

  Theorem roundtrip_named_gen : forall v, rtn_prop v.
  Proof.
    induction v using gval_ind'.
    - intros w t m Ht Hr Hw. cbn [wrapn]. apply roundtrip_gen; auto.
    - intros w t m Ht Hr Hw. cbn [wrapn]. apply roundtrip_gen; auto.
    - intros w t m Ht Hr Hw. cbn [wrapn]. apply roundtrip_gen; auto.
    - intros w t m Ht Hr Hw. cbn [wrapn]. apply roundtrip_gen; auto.
    - (* nil slice *)
      intros w t m Ht Hr Hw. cbn [wrapn]. destruct (exact m) eqn:Ex.
      + apply roundtrip_gen; auto. cbn [rt_ok_n] in Hr. rewrite Ex in Hr. exact Hr.
      + destruct t; cbn [has_type] in Ht; try discriminate Ht. reflexivity.
    - apply rtn_slice; assumption.
    - (* nil map *)
      intros w t m Ht Hr Hw. cbn [wrapn]. destruct (exact m) eqn:Ex.
      + apply roundtrip_gen; auto. cbn [rt_ok_n] in Hr. rewrite Ex in Hr. exact Hr.
      + destruct t; cbn [has_type] in Ht; try discriminate Ht. reflexivity.
    - apply rtn_map; assumption.
    - intros w t m Ht Hr Hw. cbn [wrapn]. apply roundtrip_gen; auto.
    - apply rtn_ptr; assumption.
    - intros w t m Ht Hr Hw. cbn [wrapn]. apply roundtrip_gen; auto.
    - intros w t m Ht Hr Hw. cbn [wrapn]. apply roundtrip_gen; auto.
    - intros w t m Ht Hr Hw. cbn [wrapn]. apply roundtrip_gen; auto.
    - intros w t m Ht. destruct t; discriminate Ht.
  Qed.

  Corollary roundtrip_named v t m :
    has_type v t = true -> rt_ok_n true t m v = true -> reflect_to t (wrapn ffmt true t m v) = Ok v.
  Proof. intros Ht Hr. apply roundtrip_named_gen; auto. discriminate. Qed.
End RoundTripNamed.

(* ------------------------------------------------------------------------------------------------ *)
(** * Acceptance *)

Section AcceptsNamed.
  Variable ffmt : Z -> str.

  Definition accn_prop (v : gval) : Prop :=
    forall w t m, has_type v t = true -> acc_ok_n w t m v = true -> (w = false -> is_iface t = false) ->
                  inst (ptype_n t m) (wrapn ffmt w t m v) = true.

  (* on the value constructors that wrapn hands to wrapx the type is, or is accepted like, the type of the old model *)
  Lemma ptype_n_scalar t m : is_scalar_ty t = true -> ptype_n t m = ptype_of t.
  Proof. destruct t; try discriminate; reflexivity. Qed.

  Lemma accn_slice es : Forall accn_prop es -> accn_prop (GVSlice (Some es)).
  Proof.
    intros IH w t m Ht Ha _. destruct t; cbn [has_type] in Ht; try discriminate Ht.
    cbn [acc_ok_n elem_ty] in Ha. rewrite wrapn_slice. cbn [ptype_n]. destruct (exact m && is_u8 t) eqn:Eu; [reflexivity|].
    cbn [inst]. apply forallb_forall. intros x Hx. apply in_map_iff in Hx as [y [<- Hy]].
    rewrite Forall_forall in IH. rewrite forallb_forall in Ht, Ha. apply IH; auto. discriminate.
  Qed.

  Lemma accn_map kvs : Forall (fun kv => accn_prop (fst kv) /\ accn_prop (snd kv)) kvs -> accn_prop (GVMap (Some kvs)).
  Proof.
    intros IH w t m Ht Ha _. destruct t; cbn [has_type] in Ht; try discriminate Ht.
    apply andb_true_iff in Ht as [_ Hall].
    cbn [acc_ok_n elem_ty key_ty] in Ha. cbn [wrapn elem_ty key_ty ptype_n inst].
    apply forallb_forall. intros e He.
    apply (Permutation_in _ (Permutation_sym (sorted_map_perm ffmt _))) in He.
    apply in_map_iff in He as [kv [<- Hin]]. cbn [fst snd].
    rewrite forallb_forall in Hall, Ha. rewrite Forall_forall in IH.
    destruct (IH _ Hin) as [IHk IHv]. specialize (Hall _ Hin). specialize (Ha _ Hin).
    apply andb_true_iff in Hall as [Hh Hv]. apply andb_true_iff in Hh as [Hk _].
    apply andb_true_iff in Ha as [Hak Hav].
    rewrite IHk, IHv; auto; discriminate.
  Qed.

  Lemma accn_ptr x : accn_prop x -> accn_prop (GVPtr (Some x)).
  Proof.
    intros IH w t m Ht Ha _. destruct t; cbn [has_type] in Ht; try discriminate Ht.
    apply andb_true_iff in Ht as [Hi Hx]. apply negb_true_iff in Hi.
    cbn [acc_ok_n elem_ty] in Ha. cbn [wrapn elem_ty ptype_n].
    destruct (is_struct_ty t) eqn:Es.
    - destruct t; try discriminate Es. cbn [struct_name ptype_n ptype_of inst]. apply str_eqb_refl.
    - cbn [orb] in Ha.
      destruct x as [| | | |[|]|[|]|[|]| |[|]|]; try solve [apply inst_optional; apply IH; auto];
        try solve [destruct t; cbn [has_type] in Hx; try discriminate Hx; cbn [wrapn]; try destruct (exact _); reflexivity].
  Qed.

  Theorem accepts_named_gen : forall v, accn_prop v.
  Proof.
    induction v using gval_ind'.
    - intros w t m Ht Ha Hw. pose proof (accepts_gen ffmt _ w t Ht Ha Hw) as H.
      destruct t; cbn [has_type] in Ht; try discriminate Ht. exact H.
    - intros w t m Ht Ha Hw. pose proof (accepts_gen ffmt _ w t Ht Ha Hw) as H.
      destruct t; cbn [has_type] in Ht; try discriminate Ht; exact H.
    - intros w t m Ht Ha Hw. destruct t; cbn [has_type] in Ht; try discriminate Ht. reflexivity.
    - intros w t m Ht Ha Hw. destruct t; cbn [has_type] in Ht; try discriminate Ht. reflexivity.
    - (* nil slice *)
      intros w t m Ht Ha Hw. destruct t; cbn [has_type] in Ht; try discriminate Ht.
      cbn [acc_ok_n elem_ty] in Ha. apply andb_true_iff in Ha as [Ha Hf]. apply andb_true_iff in Ha as [Ex Hww].
      subst w. cbn [wrapn ptype_n]. rewrite Ex. rewrite wrapx_slice_nil. cbn [andb].
      destruct (is_u8 t); [reflexivity|]. rewrite orb_false_r in Hf. rewrite Hf. reflexivity.
    - apply accn_slice; assumption.
    - (* nil map *)
      intros w t m Ht Ha Hw. destruct t; cbn [has_type] in Ht; try discriminate Ht.
      cbn [acc_ok_n elem_ty key_ty] in Ha. apply andb_true_iff in Ha as [Ha Hf]. apply andb_true_iff in Ha as [Ex Hww].
      subst w. cbn [wrapn ptype_n wrapx elem_ty key_ty]. rewrite Ex. cbn [andb]. rewrite Hf. reflexivity.
    - apply accn_map; assumption.
    - intros w t m Ht _ _. destruct t; cbn [has_type] in Ht; try discriminate Ht. reflexivity.
    - apply accn_ptr; assumption.
    - intros w t m Ht _ _. destruct t; cbn [has_type] in Ht; try discriminate Ht.
      cbn [wrapn wrapx struct_name ptype_n ptype_of inst]. apply str_eqb_refl.
    - intros w t m Ht _ _. destruct t; cbn [has_type] in Ht; try discriminate Ht. reflexivity.
    - intros w t m Ht _ _. destruct t; cbn [has_type] in Ht; try discriminate Ht. reflexivity.
    - intros w t m Ht. destruct t; discriminate Ht.
  Qed.

  Corollary ptype_accepts_named v t m :
    has_type v t = true -> acc_ok_n true t m v = true -> inst (ptype_n t m) (wrapn ffmt true t m v) = true.
  Proof. intros Ht Ha. apply accepts_named_gen; auto. discriminate. Qed.
End AcceptsNamed.

(* ------------------------------------------------------------------------------------------------ *)
(** * Every field but a declared parent is an attribute *)

Lemma own_attr_fields_spec has_parent fs i f :
  nth_error fs i = Some f ->
  (i = 0%nat /\ snd f = true /\ has_parent = true) \/ In f (own_attr_fields has_parent fs).
Proof.
  intros Hn. unfold own_attr_fields.
  destruct fs as [|[n e] fs']; [destruct i; discriminate Hn|].
  destruct e; [destruct has_parent|].
  - destruct i as [|i]; cbn [nth_error] in Hn.
    + inversion Hn; subst. left. auto.
    + right. eapply nth_error_In; exact Hn.
  - right. eapply nth_error_In; exact Hn.
  - right. eapply nth_error_In; exact Hn.
Qed.

(* an embedded field that is not the first, or that belongs to a type without a declared parent, is an attribute
   named after its type *)
Lemma embedded_field_is_attribute has_parent fs i n :
  nth_error fs i = Some (n, true) -> (i <> 0%nat \/ has_parent = false) ->
  In (first_to_lower n) (own_attr_names has_parent fs).
Proof.
  intros Hn Hc. destruct (own_attr_fields_spec has_parent fs i (n, true) Hn) as [[Hi [_ Hp]]|Hin].
  - destruct Hc as [Hc|Hc]; [contradiction|congruence].
  - unfold own_attr_names. apply (in_map (fun f => first_to_lower (fst f))) in Hin. exact Hin.
Qed.

Lemma own_attr_count has_parent fs :
  length (own_attr_names has_parent fs) =
  (length fs - (match fs with (_, true) :: _ => if has_parent then 1 else 0 | _ => 0 end))%nat.
Proof.
  unfold own_attr_names, own_attr_fields. rewrite map_length.
  destruct fs as [|[n [|]] fs']; cbn [length]; try lia. destruct has_parent; cbn [length]; lia.
Qed.
