(* Proofs about Model/FileLoaderText.v (property C15): line numbers are lines of the file; a new generation of
   loaders answers from its own layout. *)
From Coq Require Import ZArith NArith Bool List Lia.
From PcoreV Require Import Model.Base Model.FileLoader Model.FileLoaderText Proofs.FileLoaderProofs.
Import ListNotations.
Local Open Scope nat_scope.

(* ---- lines ---------------------------------------------------------------------------------------------------- *)

Lemma count_lf_app a b : count_lf (a ++ b) = (count_lf a + count_lf b)%N.
Proof.
  induction a as [|c a IH]; [reflexivity|]. cbn [app count_lf]. rewrite IH. lia.
Qed.

Lemma firstn_app_len {A} (p b : list A) k : firstn (length p + k) (p ++ b) = p ++ firstn k b.
Proof.
  induction p as [|x p IH]; [reflexivity|]. cbn [length Nat.add app firstn]. now rewrite IH.
Qed.

(* the line of a position in the body of a file = the line feeds in front of the body + the line within the body *)
Lemma line_at_app p b k : line_at (p ++ b) (length p + k) = (count_lf p + line_at b k)%N.
Proof.
  unfold line_at. rewrite firstn_app_len, count_lf_app. lia.
Qed.

Lemma scan_app p : forall c b, blank c p = true -> scan c (p ++ b) = length p + scan false b.
Proof.
  induction p as [|x p IH]; intros c b Hb.
  - cbn [blank] in Hb. destruct c; [discriminate Hb|]. reflexivity.
  - cbn [blank] in Hb. cbn [app scan length Nat.add].
    destruct c.
    + now rewrite (IH _ b Hb).
    + destruct (is_ws x); [now rewrite (IH _ b Hb)|].
      destruct (is_hash x); [now rewrite (IH _ b Hb)|discriminate Hb].
Qed.

Lemma scan_le c t : scan c t <= length t.
Proof.
  revert c. induction t as [|x t IH]; intros c; [apply Nat.le_refl|]. cbn [scan length].
  destruct c; [apply le_n_S, IH|].
  destruct (is_ws x); [apply le_n_S, IH|]. destruct (is_hash x); [apply le_n_S, IH|apply Nat.le_0_l].
Qed.

(* a body that holds a token: the definition line of (preamble ++ body) is the line feeds of the preamble + the
   definition line of the body *)
Lemma def_line_app p b :
  blank false p = true -> scan false b < length b -> def_line (p ++ b) = (count_lf p + def_line b)%N.
Proof.
  intros Hp Hb. unfold def_line. rewrite (scan_app p false b Hp), app_length.
  assert (E1 : Nat.ltb (length p + scan false b) (length p + length b) = true) by (apply Nat.ltb_lt; lia).
  assert (E2 : Nat.ltb (scan false b) (length b) = true) by (apply Nat.ltb_lt; exact Hb).
  rewrite E1, E2. apply line_at_app.
Qed.

(* a body that starts with its first token *)
Lemma def_line_token_first p c r :
  blank false p = true -> is_ws c = false -> is_hash c = false -> def_line (p ++ c :: r) = (count_lf p + 1)%N.
Proof.
  intros Hp Hw Hh. rewrite def_line_app; [|exact Hp|cbn [scan length]; rewrite Hw, Hh; apply Nat.lt_0_succ].
  unfold def_line. cbn [scan]. rewrite Hw, Hh. cbn. lia.
Qed.

(* no token at all: line 1 *)
Lemma def_line_blank p : blank false p = true -> def_line p = 1%N.
Proof.
  intros Hp. unfold def_line. pose proof (scan_app p false [] Hp) as E. rewrite app_nil_r in E. cbn [scan] in E.
  rewrite E, Nat.add_0_r, Nat.ltb_irrefl. reflexivity.
Qed.

(* ---- generations ---------------------------------------------------------------------------------------------- *)

Lemma run_sess_ops fuel w ops : forall s, run_sess fuel w s (map SOp ops) = snd (run_from w (indexes_of w) fuel s ops).
Proof.
  induction ops as [|o ops IH]; intros s; [reflexivity|].
  cbn [map run_sess run_from]. destruct (step w (indexes_of w) fuel s o) as [s' x]. rewrite IH.
  destruct (run_from w (indexes_of w) fuel s' ops) as [s'' xs]. reflexivity.
Qed.

Lemma run_sess_new fuel l1 w' ops : forall w s,
  run_sess fuel w s (l1 ++ SNewLayout w' :: map SOp ops) = run_sess fuel w s l1 ++ run w' fuel ops.
Proof.
  induction l1 as [|x l1 IH]; intros w s.
  - cbn [app run_sess]. unfold run. apply run_sess_ops.
  - destruct x as [w1|o]; cbn [app run_sess].
    + apply IH.
    + destruct (step w (indexes_of w) fuel s o) as [s' y]. cbn [app]. now rewrite IH.
Qed.

(* whatever generations came before: the answers of a new generation are those of its own world alone *)
Lemma run_session_last fuel gs w ops :
  run_session fuel (gs ++ [(w, ops)]) = run_session fuel gs ++ run w fuel ops.
Proof.
  unfold run_session. rewrite flat_map_app. cbn [flat_map gen_sops fst snd]. rewrite app_nil_r. apply run_sess_new.
Qed.

Lemma run_from_snoc w fuel ops o : forall s,
  snd (run_from w (indexes_of w) fuel s (ops ++ [o])) =
  snd (run_from w (indexes_of w) fuel s ops) ++ [snd (step w (indexes_of w) fuel (fst (run_from w (indexes_of w) fuel s ops)) o)].
Proof.
  induction ops as [|a ops IH]; intros s.
  - cbn [app run_from fst snd]. destruct (step w (indexes_of w) fuel s o) as [s' x]. reflexivity.
  - cbn [app run_from]. destruct (step w (indexes_of w) fuel s a) as [s' x]. specialize (IH s').
    destruct (run_from w (indexes_of w) fuel s' (ops ++ [o])) as [s2 xs2].
    destruct (run_from w (indexes_of w) fuel s' ops) as [s3 xs3]. cbn [fst snd] in *. now rewrite IH.
Qed.

(* the last lookup of the last generation is a lookup in a state reached in that generation's world alone *)
Lemma run_session_lookup fuel gs w ops ctx name :
  run_session fuel (gs ++ [(w, ops ++ [OpLoad ctx name])]) =
  run_session fuel gs ++ run w fuel ops ++ [snd (lookup_after w fuel ops ctx name)].
Proof.
  rewrite run_session_last. f_equal. unfold run, lookup_after, reach. apply run_from_snoc.
Qed.

Lemma last_app_one {A} (l : list A) x d : last (l ++ [x]) d = x.
Proof. induction l as [|a l IH]; [reflexivity|]. cbn [app]. destruct (l ++ [x]) eqn:E; [destruct l; discriminate E|exact IH]. Qed.

Lemma session_last_lookup fuel gs w ops ctx name d :
  last (run_session fuel (gs ++ [(w, ops ++ [OpLoad ctx name])])) d = snd (lookup_after w fuel ops ctx name).
Proof. rewrite run_session_lookup, app_assoc. apply last_app_one. Qed.
