(* KeysUriProofs.v — C07: lemmas about the URI type model (Model/KeysUri.v). *)
From Coq Require Import ZArith NArith Bool String Lia List.
From PcoreV Require Import Model.Base Model.Keys Model.KeysNames Model.KeysUri Proofs.KeysProofs.
Import ListNotations.
Open Scope Z_scope.

Lemma uri_wf_parts t : uri_wf t = true ->
  wf_value (VHash (params_as_hash t)) = true /\ clean (VHash (params_as_hash t)) = true.
Proof.
  unfold uri_wf. intro H. apply andb_true_iff in H. destruct H as [H _].
  apply andb_true_iff in H. exact H.
Qed.

Lemma uri_wf_hash_nonempty es : uri_wf (UHash es) = true -> es <> [].
Proof.
  unfold uri_wf. intros H E. subst es. apply andb_true_iff in H. destruct H as [_ H]. discriminate H.
Qed.

(* Equals, whatever the two representations, is: both or neither without parameter, and the parameter hashes equal *)
Lemma uri_equals_spec a b : uri_wf a = true -> uri_wf b = true ->
  uri_equals a b = Bool.eqb (is_none a) (is_none b) && veq (VHash (params_as_hash a)) (VHash (params_as_hash b)).
Proof.
  intros Ha Hb. destruct a as [|ua|ea]; destruct b as [|ub|eb]; try reflexivity.
  (* a Hash parameter against no parameter: the Hash is not empty *)
  destruct ea as [|e ea].
  - exfalso. exact (uri_wf_hash_nonempty [] Ha eq_refl).
  - reflexivity.
Qed.

Definition uri_pre : list N := (1 :: 116 :: bytes_of "URI")%N.

Lemma uri_key_none t : is_none t = true -> uri_key t = (uri_pre ++ [] ++ [4])%N.
Proof. destruct t; intro H; try discriminate H. reflexivity. Qed.

Lemma uri_key_some t : is_none t = false ->
  uri_key t = (uri_pre ++ (vkey (VHash (params_as_hash t)) ++ []) ++ [4])%N.
Proof.
  destruct t; intro H; try discriminate H; unfold uri_key, k_type, uri_params; cbn [map concat]; reflexivity.
Qed.

Lemma hash_key_not_end es r : ([] ++ [4])%N <> ((vkey (VHash es) ++ []) ++ r)%N.
Proof. cbn [vkey k_seq app]. discriminate. Qed.

Theorem uri_key_iff_eq a b : uri_wf a = true -> uri_wf b = true ->
  (uri_key a = uri_key b <-> uri_equals a b = true).
Proof.
  intros Ha Hb. rewrite (uri_equals_spec a b Ha Hb).
  destruct (uri_wf_parts a Ha) as [Wa Ca]. destruct (uri_wf_parts b Hb) as [Wb Cb].
  destruct (is_none a) eqn:Na; destruct (is_none b) eqn:Nb; cbn [Bool.eqb andb].
  - rewrite (uri_key_none a Na), (uri_key_none b Nb).
    destruct a; try discriminate Na. destruct b; try discriminate Nb. split; reflexivity.
  - rewrite (uri_key_none a Na), (uri_key_some b Nb). split; intro H; [|discriminate H].
    exfalso. apply app_inv_head in H. exact (hash_key_not_end _ _ H).
  - rewrite (uri_key_some a Na), (uri_key_none b Nb). split; intro H; [|discriminate H].
    exfalso. apply app_inv_head in H. symmetry in H. exact (hash_key_not_end _ _ H).
  - rewrite (uri_key_some a Na), (uri_key_some b Nb). split; intro H.
    + apply app_inv_head in H. apply app_inv_tail in H. rewrite !app_nil_r in H.
      apply (key_iff_eq _ _ Wa Wb Ca Cb). exact H.
    + apply (key_iff_eq _ _ Wa Wb Ca Cb) in H. rewrite H. reflexivity.
Qed.

Theorem uri_equals_refl a : uri_wf a = true -> uri_equals a a = true.
Proof.
  intro Ha. rewrite (uri_equals_spec a a Ha Ha). destruct (uri_wf_parts a Ha) as [Wa Ca].
  rewrite (veq_refl _ Wa Ca). destruct (is_none a); reflexivity.
Qed.

Theorem uri_equals_sym a b : uri_wf a = true -> uri_wf b = true -> uri_equals a b = uri_equals b a.
Proof.
  intros Ha Hb. rewrite (uri_equals_spec a b Ha Hb), (uri_equals_spec b a Hb Ha).
  destruct (uri_wf_parts a Ha) as [Wa _]. destruct (uri_wf_parts b Hb) as [Wb _].
  rewrite (veq_sym _ _ Wa Wb). destruct (is_none a); destruct (is_none b); reflexivity.
Qed.

Theorem uri_equals_trans a b c : uri_wf a = true -> uri_wf b = true -> uri_wf c = true ->
  uri_equals a b = true -> uri_equals b c = true -> uri_equals a c = true.
Proof.
  intros Ha Hb Hc. rewrite (uri_equals_spec a b Ha Hb), (uri_equals_spec b c Hb Hc), (uri_equals_spec a c Ha Hc).
  destruct (uri_wf_parts a Ha) as [Wa _]. destruct (uri_wf_parts b Hb) as [Wb _]. destruct (uri_wf_parts c Hc) as [Wc _].
  intros E1 E2. apply andb_true_iff in E1. destruct E1 as [N1 E1]. apply andb_true_iff in E2. destruct E2 as [N2 E2].
  rewrite (veq_trans _ _ _ Wa Wb Wc E1 E2).
  destruct (is_none a); destruct (is_none b); destruct (is_none c); try reflexivity; discriminate.
Qed.

(* the representation is not observable: two types with the same parts (and both or neither without parameter)
   answer every Equals question alike, as receiver and as argument, and have one hash key *)
Theorem uri_same_parts a b c : uri_wf a = true -> uri_wf b = true -> uri_wf c = true ->
  params_as_hash a = params_as_hash b -> is_none a = is_none b ->
  uri_equals a c = uri_equals b c /\ uri_equals c a = uri_equals c b /\ uri_key a = uri_key b.
Proof.
  intros Ha Hb Hc P N.
  rewrite (uri_equals_spec a c Ha Hc), (uri_equals_spec b c Hb Hc), (uri_equals_spec c a Hc Ha), (uri_equals_spec c b Hc Hb).
  rewrite P, N. split; [reflexivity|]. split; [reflexivity|].
  destruct (is_none b) eqn:Nb.
  - rewrite (uri_key_none a N), (uri_key_none b Nb). reflexivity.
  - rewrite (uri_key_some a N), (uri_key_some b Nb), P. reflexivity.
Qed.

(* the fields of a url.URL that are no parts are not read *)
Theorem url_hidden_fields_not_read u fq rp rf : url_to_hash (with_hidden u fq rp rf) = url_to_hash u.
Proof. reflexivity. Qed.

(* a URL without any part is not "no parameter": unequal in both directions, and the keys differ *)
Theorem uri_url_without_parts_is_not_default u :
  uri_equals (UUrl u) UNone = false /\ uri_equals UNone (UUrl u) = false /\ uri_key (UUrl u) <> uri_key UNone.
Proof.
  split; [reflexivity|]. split; [reflexivity|].
  rewrite (uri_key_none UNone eq_refl), (uri_key_some (UUrl u) eq_refl). intro H.
  apply app_inv_head in H. symmetry in H. exact (hash_key_not_end _ _ H).
Qed.

(* the URL form and the Hash form of the same parts are one type *)
Theorem uri_url_equals_its_hash_form u : uri_wf (UUrl u) = true -> url_to_hash u <> [] ->
  uri_equals (UUrl u) (UHash (url_to_hash u)) = true /\ uri_equals (UHash (url_to_hash u)) (UUrl u) = true /\
  uri_key (UUrl u) = uri_key (UHash (url_to_hash u)).
Proof.
  intros Hu Ne. destruct (uri_wf_parts _ Hu) as [W C]. cbn [params_as_hash] in W, C.
  split; [|split].
  - cbn [uri_equals is_none params_as_hash]. exact (veq_refl _ W C).
  - cbn [uri_equals is_none params_as_hash]. exact (veq_refl _ W C).
  - rewrite (uri_key_some (UUrl u) eq_refl), (uri_key_some (UHash (url_to_hash u)) eq_refl). reflexivity.
Qed.
