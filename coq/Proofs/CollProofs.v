(* CollProofs.v — the pure model of the List / OrderedMap operations (Model/Coll.v) against the simplest abstract
   specification: a Hash is an association list with pairwise non-equal keys (spec_get = first match,
   spec_delete = filter, spec_merge = replace in place / append the new ones in the order of the argument), an
   Array is a list.  The spec_* functions below use value equality (keq = veq) only: no index, no positions.
   Everything is stated for well-formed values (Proofs/CollProofsEq.v: wf_pv) and, through
   Proofs/CollProofsInv.v, for every value of every history whose literals are well-formed. *)
From Coq Require Import ZArith NArith Bool List Lia Permutation.
From PcoreV Require Import Model.Base Model.Coll Proofs.CollInd Proofs.CollProofsKeyed Proofs.CollProofsEq
     Proofs.CollProofsInv.
Import ListNotations.
Local Open Scope nat_scope.

(* ---------------------------------------------------------------------------------------------- *)
(* the abstract insertion-ordered map *)

Definition spec_has (es : list (pv * pv)) (k : pv) : bool := existsb (fun e => keq (fst e) k) es.

Definition spec_get (es : list (pv * pv)) (k : pv) : option pv :=
  option_map snd (find (fun e => keq (fst e) k) es).

Definition spec_delete (es : list (pv * pv)) (k : pv) : list (pv * pv) :=
  filter (fun e => negb (keq (fst e) k)) es.

Definition spec_delete_all (es : list (pv * pv)) (ks : list pv) : list (pv * pv) :=
  filter (fun e => negb (existsb (fun k => keq (fst e) k) ks)) es.

(* every entry of hv whose key is in oh is replaced, where it stands, by the entry of oh; the entries of oh whose
   key is not in hv follow in the order of oh *)
Definition spec_merge (hv oh : list (pv * pv)) : list (pv * pv) :=
  map (fun e => match find (fun e' => keq (fst e) (fst e')) oh with Some e' => e' | None => e end) hv
  ++ filter (fun e' => negb (spec_has hv (fst e'))) oh.

Definition or_undef (o : option pv) : pv := match o with Some v => v | None => PUndef end.

(* ---------------------------------------------------------------------------------------------- *)
(* the model's index-style code computes the abstract functions *)

Theorem merge_replaces_in_place_appends_new hv oh : wf (PHash hv) -> wf (PHash oh) ->
  merge_entries hv oh = spec_merge hv oh /\ wf (PHash (spec_merge hv oh)).
Proof.
  intros Hh Ho. apply wf_hash in Hh, Ho. pose proof (merge_entries_eq hv oh Hh Ho) as E.
  split; [exact E|]. apply wf_hash. change (hash_ok (map (repl fst oh) hv ++ filter (is_new fst hv) oh)).
  rewrite <- E. now apply hash_ok_merge.
Qed.

Theorem delete_removes_exactly es k : wf (PHash es) -> wf k -> hash_delete es k = spec_delete es k.
Proof.
  intros He Hk. apply wf_hash in He. unfold hash_delete, spec_delete.
  apply (hash_delete_filter wf wf_equiv); auto using hash_ok_oks. apply He.
Qed.

Theorem delete_all_removes_exactly es ks : wf (PHash es) -> Forall wf ks ->
  hash_delete_all es ks = spec_delete_all es ks.
Proof.
  intros He Hk. apply wf_hash in He. unfold hash_delete_all, spec_delete_all.
  apply (hash_delete_all_filter wf wf_equiv); auto using hash_ok_oks. apply He.
Qed.

Lemma hfind_nth es k : wf (PHash es) -> wf k ->
  match hfind es k with Some i => snd (nth i es (PUndef, PUndef)) | None => PUndef end = or_undef (spec_get es k).
Proof.
  intros He Hk. apply wf_hash in He. unfold hfind, spec_get.
  rewrite <- (hfind_find wf wf_equiv fst es k (hash_ok_oks _ He) Hk (proj2 He)).
  destruct (hfindG fst es k) as [i|]; [|reflexivity].
  destruct (nth_error es i) as [e|] eqn:En; cbn [option_map or_undef].
  - now rewrite (nth_error_nth _ _ _ En).
  - apply nth_error_None in En. now rewrite nth_overflow.
Qed.

(* Get finds a value iff some key is equal, and then the value of that entry *)
Theorem get_iff_present es k : wf (PHash es) -> wf k ->
  match hfind es k with Some i => snd (nth i es (PUndef, PUndef)) | None => PUndef end = or_undef (spec_get es k) /\
  (forall v, spec_get es k = Some v <-> exists k', In (k', v) es /\ veq k' k = true) /\
  (spec_get es k = None <-> forall e, In e es -> veq (fst e) k = false).
Proof.
  intros He Hk. split; [now apply hfind_nth|]. apply wf_hash in He. unfold spec_get. split.
  - intros v. split.
    + destruct (find _ es) as [[k' v']|] eqn:Ef; cbn [option_map]; [|discriminate].
      intros H; inversion H; subst. apply find_some in Ef as [Hi Hm]. exists k'. split; assumption.
    + intros (k' & Hi & Hm).
      assert (Hf : find (fun e => keq (fst e) k) es = Some (k', v)).
      { apply (find_iff wf wf_equiv); auto using hash_ok_oks. apply He. }
      now rewrite Hf.
  - destruct (find _ es) as [e|] eqn:Ef; cbn [option_map].
    + split; [discriminate|]. intros H. apply find_some in Ef as [Hi Hm]. unfold keq in Hm. rewrite (H e Hi) in Hm. discriminate.
    + split; [|reflexivity]. intros _ e Hi. exact (find_none _ _ Ef e Hi).
Qed.

Theorem includes_iff_present es k :
  (match hfind es k with Some _ => true | None => false end) = spec_has es k /\
  (spec_has es k = true <-> exists e, In e es /\ veq (fst e) k = true).
Proof.
  split.
  - unfold hfind, spec_has. destruct (hfindG fst es k) as [i|] eqn:Hf.
    + destruct (existsb _ es) eqn:Ex; [reflexivity|]. apply hfind_none in Ex. congruence.
    + apply hfind_none in Hf. now rewrite Hf.
  - unfold spec_has. apply existsb_exists.
Qed.

(* ---------------------------------------------------------------------------------------------- *)
(* what the abstract functions mean for later lookups *)

Lemma find_filter {A} (f g : A -> bool) l : (forall x, In x l -> f x = true -> g x = true) ->
  find f (filter g l) = find f l.
Proof.
  induction l as [|a l IH]; intros H; cbn [filter find]; [reflexivity|].
  destruct (f a) eqn:Fa.
  - rewrite (H a (or_introl eq_refl) Fa). cbn [find]. now rewrite Fa.
  - destruct (g a); cbn [find]; rewrite ?Fa; apply IH; intros x Hx; apply H; now right.
Qed.

Lemma find_none_filter {A} (f g : A -> bool) l : (forall x, In x l -> f x = true -> g x = false) ->
  find f (filter g l) = None.
Proof.
  intros H. destruct (find f (filter g l)) as [x|] eqn:Ef; [|reflexivity].
  apply find_some in Ef as [Hi Hf]. apply filter_In in Hi as [Hi Hg]. rewrite (H x Hi Hf) in Hg. discriminate.
Qed.

Lemma find_app {A} (f : A -> bool) l1 l2 :
  find f (l1 ++ l2) = match find f l1 with Some x => Some x | None => find f l2 end.
Proof. induction l1 as [|a l1 IH]; cbn [app find]; [reflexivity|]. destruct (f a); auto. Qed.

Lemma find_map {A} (f : A -> bool) (g : A -> A) l : (forall x, In x l -> f (g x) = f x) ->
  find f (map g l) = option_map g (find f l).
Proof.
  induction l as [|a l IH]; intros H; cbn [map find]; [reflexivity|].
  rewrite (H a (or_introl eq_refl)). destruct (f a); [reflexivity|]. apply IH. intros x Hx. apply H. now right.
Qed.

Lemma hash_entry_wf es e : hash_ok es -> In e es -> wf (fst e) /\ wf (snd e).
Proof. intros [H _] Hi. exact (proj1 (Forall_forall _ _) H e Hi). Qed.

(* after Delete the key is gone and every other key answers as before *)
Theorem get_after_delete es k k' : wf (PHash es) -> wf k -> wf k' ->
  spec_get (spec_delete es k) k' = if veq k' k then None else spec_get es k'.
Proof.
  intros He Hk Hk'. apply wf_hash in He. unfold spec_get, spec_delete, keq.
  destruct (veq k' k) eqn:E.
  - rewrite find_none_filter; [reflexivity|]. intros e Hi Hm. apply negb_false_iff.
    destruct (hash_entry_wf es e He Hi) as [Hw _]. apply (veq_trans _ k'); auto.
  - rewrite find_filter; [reflexivity|]. intros e Hi Hm. apply negb_true_iff.
    destruct (hash_entry_wf es e He Hi) as [Hw _].
    destruct (veq (fst e) k) eqn:E2; [|reflexivity].
    rewrite (veq_trans k' (fst e) k) in E; auto. apply veq_sym; auto.
Qed.

Theorem get_after_delete_all es ks k' : wf (PHash es) -> Forall wf ks -> wf k' ->
  spec_get (spec_delete_all es ks) k' = if existsb (fun k => veq k' k) ks then None else spec_get es k'.
Proof.
  intros He Hks Hk'. apply wf_hash in He. unfold spec_get, spec_delete_all, keq.
  destruct (existsb (fun k => veq k' k) ks) eqn:E.
  - apply existsb_exists in E as (k & Hin & Hm). pose proof (proj1 (Forall_forall _ _) Hks k Hin) as Hk.
    rewrite find_none_filter; [reflexivity|]. intros e Hi Hme. apply negb_false_iff. apply existsb_exists.
    exists k. split; [assumption|]. destruct (hash_entry_wf es e He Hi) as [Hw _]. apply (veq_trans _ k'); auto.
  - rewrite find_filter; [reflexivity|]. intros e Hi Hme. apply negb_true_iff. apply existsb_false.
    intros k Hin. pose proof (proj1 (Forall_forall _ _) Hks k Hin) as Hk. rewrite existsb_false in E.
    destruct (hash_entry_wf es e He Hi) as [Hw _].
    destruct (veq (fst e) k) eqn:E2; [|reflexivity].
    rewrite <- (E k Hin). symmetry. apply (veq_trans k' (fst e) k); auto. apply veq_sym; auto.
Qed.

(* after Merge a key of the argument answers with the argument's value, every other key as before *)
Theorem get_after_merge hv oh k : wf (PHash hv) -> wf (PHash oh) -> wf k ->
  spec_get (spec_merge hv oh) k = match spec_get oh k with Some v => Some v | None => spec_get hv k end.
Proof.
  intros Hh Ho Hk. apply wf_hash in Hh, Ho. unfold spec_get, spec_merge, spec_has, keq.
  set (f := fun e : pv * pv => veq (fst e) k).
  set (g := fun e : pv * pv => match find (fun e' => veq (fst e) (fst e')) oh with Some e' => e' | None => e end).
  assert (Hg : forall h, In h hv -> wf (fst (g h)) /\ veq (fst h) (fst (g h)) = true).
  { intros h Hi. destruct (hash_entry_wf hv h Hh Hi) as [Hw _]. unfold g.
    destruct (find _ oh) as [e'|] eqn:Ef.
    - apply find_some in Ef as [Hi' Hm]. split; [apply (hash_entry_wf oh e' Ho Hi')|exact Hm].
    - split; [exact Hw|now apply veq_refl]. }
  assert (Hfg : forall h, In h hv -> f (g h) = f h).
  { intros h Hi. destruct (Hg h Hi) as [Hw Hm]. destruct (hash_entry_wf hv h Hh Hi) as [Hwh _]. unfold f.
    destruct (veq (fst h) k) eqn:E1, (veq (fst (g h)) k) eqn:E2; auto.
    - rewrite (veq_trans (fst (g h)) (fst h) k) in E2; auto. apply veq_sym; auto.
    - rewrite (veq_trans (fst h) (fst (g h)) k) in E1; auto. }
  rewrite find_app, (find_map f g hv Hfg).
  destruct (find f hv) as [h|] eqn:Efh; cbn [option_map].
  - (* the key is in the receiver: its entry, replaced or not *)
    apply find_some in Efh as [Hih Hmh]. unfold f in Hmh. destruct (hash_entry_wf hv h Hh Hih) as [Hwh _].
    unfold g. destruct (find (fun e' => veq (fst h) (fst e')) oh) as [e'|] eqn:Ef.
    + apply find_some in Ef as [Hi' Hm']. destruct (hash_entry_wf oh e' Ho Hi') as [Hwe _].
      assert (Hf : find f oh = Some e').
      { apply (find_iff wf wf_equiv fst oh k e'); auto using hash_ok_oks; [apply Ho|].
        split; [assumption|]. apply (veq_trans _ (fst h)); auto. apply veq_sym; auto. }
      now rewrite Hf.
    + assert (Hf : find f oh = None).
      { destruct (find f oh) as [e''|] eqn:Ef'; [|reflexivity]. apply find_some in Ef' as [Hi'' Hm''].
        destruct (hash_entry_wf oh e'' Ho Hi'') as [Hwe _]. unfold f in Hm''.
        pose proof (find_none _ _ Ef e'' Hi'') as Hc. cbn beta in Hc.
        rewrite (veq_trans (fst h) k (fst e'')) in Hc by (auto; apply veq_sym; auto). discriminate. }
      now rewrite Hf.
  - (* the key is not in the receiver: the entry of the argument is among the appended ones *)
    rewrite find_filter; [destruct (find f oh); reflexivity|].
    intros e' Hi' Hm'. unfold f in Hm'. destruct (hash_entry_wf oh e' Ho Hi') as [Hwe _].
    apply negb_true_iff, existsb_false. intros h Hih. destruct (hash_entry_wf hv h Hh Hih) as [Hwh _].
    destruct (veq (fst h) (fst e')) eqn:E; [|reflexivity].
    pose proof (find_none _ _ Efh h Hih) as Hc. unfold f in Hc.
    rewrite (veq_trans (fst h) (fst e') k) in Hc by auto. discriminate.
Qed.

(* Add of one entry: put *)
Lemma spec_merge_single es k v :
  spec_merge es [(k, v)] = map (fun e => if keq (fst e) k then (k, v) else e) es
                           ++ (if spec_has es k then [] else [(k, v)]).
Proof.
  unfold spec_merge. cbn [filter find fst]. f_equal.
  - apply map_ext. intros e. now destruct (keq (fst e) k).
  - now destruct (spec_has es k).
Qed.

(* ---------------------------------------------------------------------------------------------- *)
(* one step of a history on a hash receiver *)

Theorem hash_step_spec pool r x es : wf_pool pool -> pool_at pool r = PHash es ->
  step pool (ODelete r x) = RVal (PHash (spec_delete es (pool_at pool x))) /\
  (forall ks, elems (pool_at pool x) = Some ks ->
     step pool (ODeleteAll r x) = RVal (PHash (spec_delete_all es ks))) /\
  (forall oh, pool_at pool x = PHash oh ->
     step pool (OMerge r x) = RVal (PHash (spec_merge es oh)) /\
     step pool (OAddAll r x) = RVal (PHash (spec_merge es oh))) /\
  (forall k v, pool_at pool x = PEntry k v \/ pool_at pool x = PArr [k; v] ->
     step pool (OAdd r x) = RVal (PHash (spec_merge es [(k, v)]))) /\
  step pool (OGet r x) = RVal (or_undef (spec_get es (pool_at pool x))) /\
  step pool (OIncludes r x) = RVal (PBool (spec_has es (pool_at pool x))).
Proof.
  intros HP Er. pose proof (pool_at_wf pool r HP) as Wr. pose proof (pool_at_wf pool x HP) as Wx. rewrite Er in Wr.
  repeat split.
  - cbn [step]. rewrite Er. now rewrite delete_removes_exactly.
  - intros ks Hk. cbn [step]. rewrite Er, Hk. rewrite delete_all_removes_exactly; auto. eapply elems_wf; eauto.
  - cbn [step]. rewrite Er, H. rewrite H in Wx. now rewrite (proj1 (merge_replaces_in_place_appends_new es oh Wr Wx)).
  - cbn [step]. rewrite Er, H. rewrite H in Wx. now rewrite (proj1 (merge_replaces_in_place_appends_new es oh Wr Wx)).
  - intros k v Hx.
    assert (Hkv : wf (PHash [(k, v)])).
    { apply wf_hash. destruct Hx as [Hx|Hx]; rewrite Hx in Wx.
      - apply wf_entry_iff in Wx as [? ?]. now apply hash_ok_single.
      - apply wf_arr in Wx. inversion Wx as [|? ? Hk Wx']; subst. inversion Wx' as [|? ? Hv _]; subst. now apply hash_ok_single. }
    cbn [step]. rewrite Er. destruct Hx as [Hx|Hx]; rewrite Hx;
      now rewrite (proj1 (merge_replaces_in_place_appends_new es [(k, v)] Wr Hkv)).
  - cbn [step]. rewrite Er. fold (hfind es (pool_at pool x)).
    pose proof (hfind_nth es (pool_at pool x) Wr Wx) as Hg.
    destruct (hfind es (pool_at pool x)); now rewrite <- Hg.
  - cbn [step]. rewrite Er. now rewrite (proj1 (includes_iff_present es (pool_at pool x))).
Qed.

(* Keys and Values are the two projections of the entries, in their order; At(i) is the i-th entry *)
Theorem keys_values_in_order pool r es : pool_at pool r = PHash es ->
  step pool (OKeys r) = RVal (PArr (map fst es)) /\
  step pool (OValues r) = RVal (PArr (map snd es)) /\
  combine (map fst es) (map snd es) = es /\
  step pool (OLen r) = RVal (PInt (Z.of_nat (length es))) /\
  (forall i, i < length es ->
     step pool (OAt r (Z.of_nat i)) = RVal (PEntry (nth i (map fst es) PUndef) (nth i (map snd es) PUndef))).
Proof.
  intros Er. cbn [step]. rewrite Er. repeat split.
  - clear Er. induction es as [|[k v] t IH]; cbn [map combine fst snd]; [reflexivity|]. now rewrite IH.
  - intros i Hi. unfold at_z. destruct (Z.ltb_spec (Z.of_nat i) 0); [lia|]. rewrite Nat2Z.id.
    destruct (nth_error es i) as [e|] eqn:En; [|apply nth_error_None in En; lia].
    unfold entry_of. f_equal. f_equal.
    + change PUndef with (fst (PUndef, PUndef)) at 1. rewrite map_nth. now rewrite (nth_error_nth _ _ _ En).
    + change PUndef with (snd (PUndef, PUndef)) at 1. rewrite map_nth. now rewrite (nth_error_nth _ _ _ En).
Qed.

(* ---------------------------------------------------------------------------------------------- *)
(* arrays are immutable sequences: every operation is a list function of the receiver's elements *)

Theorem array_step_spec pool r x l : pool_at pool r = PArr l ->
  step pool (OAdd r x) = RVal (PArr (l ++ [pool_at pool x])) /\
  (forall xs, elems (pool_at pool x) = Some xs -> step pool (OAddAll r x) = RVal (PArr (l ++ xs))) /\
  step pool (ODelete r x) = RVal (PArr (filter (fun e => negb (veq e (pool_at pool x))) l)) /\
  (forall xs, elems (pool_at pool x) = Some xs ->
     step pool (ODeleteAll r x) = RVal (PArr (filter (fun e => negb (existsb (fun d => veq e d) xs)) l))) /\
  (forall i j, (0 <= i <= j)%Z -> (j <= Z.of_nat (length l))%Z ->
     step pool (OSlice r i j) = RVal (PArr (firstn (Z.to_nat (j - i)) (skipn (Z.to_nat i) l)))) /\
  (forall i j, ~ ((0 <= i <= j)%Z /\ (j <= Z.of_nat (length l))%Z) -> step pool (OSlice r i j) = RErr EFault) /\
  (forall i, step pool (OAt r (Z.of_nat i)) = RVal (nth i l PUndef)) /\
  step pool (OLen r) = RVal (PInt (Z.of_nat (length l))) /\
  (forall pd, step pool (OSelect r pd) = RVal (PArr (filter (eval_pred pool pd) l)) /\
              step pool (OReject r pd) = RVal (PArr (filter (fun e => negb (eval_pred pool pd e)) l))) /\
  (forall m, step pool (OMap r m) = RVal (PArr (map (eval_mapper pool m) l))) /\
  step pool (OFlatten r) = RVal (PArr (flat_map flatten1 l)) /\
  step pool (OUnique r) = RVal (PArr (unique_acc [] l)).
Proof.
  intros Er. cbn [step]. rewrite Er. repeat split.
  - intros xs Hx. now rewrite Hx.
  - intros xs Hx. now rewrite Hx.
  - intros i j Hij Hj. unfold zslice.
    destruct (Z.ltb_spec i 0); [lia|]. destruct (Z.ltb_spec j i); [lia|].
    destruct (Z.ltb_spec (Z.of_nat (length l)) j); [lia|]. reflexivity.
  - intros i j Hn. unfold zslice.
    destruct (Z.ltb_spec i 0); [reflexivity|]. destruct (Z.ltb_spec j i); [reflexivity|].
    destruct (Z.ltb_spec (Z.of_nat (length l)) j); [reflexivity|]. exfalso. apply Hn. lia.
  - intros i. unfold at_z. destruct (Z.ltb_spec (Z.of_nat i) 0); [lia|]. rewrite Nat2Z.id.
    destruct (nth_error l i) as [e|] eqn:En.
    + now rewrite (nth_error_nth _ _ _ En).
    + apply nth_error_None in En. now rewrite nth_overflow.
Qed.

(* Delete leaves no element equal to the argument and keeps every other element, in order *)
Lemma array_delete_spec l x : let r := filter (fun e => negb (veq e x)) l in
  sublist r l /\ Forall (fun e => veq e x = false) r /\ (forall e, In e l -> veq e x = false -> In e r).
Proof.
  cbn zeta. split; [apply sublist_filter|]. split.
  - apply Forall_forall. intros e He. apply filter_In in He as [_ He]. now apply negb_true_iff.
  - intros e He Hm. apply filter_In. split; [assumption|]. now rewrite Hm.
Qed.

(* Unique: the first element of every class of equal elements, in order *)
Lemma unique_acc_fresh seen l x : In x (unique_acc seen l) -> existsb (fun y => keq x y) seen = false.
Proof.
  unfold unique_acc. revert seen; induction l as [|a t IH]; intros seen H; cbn [unique_accG] in H; [destruct H|].
  destruct (existsb (fun y => keq a y) seen) eqn:Ea; [now apply IH|].
  destruct H as [<-|H]; [exact Ea|]. apply IH in H. cbn [existsb] in H. now apply orb_false_iff in H as [_ H].
Qed.

Theorem unique_spec l : Forall wf l ->
  sublist (unique_acc [] l) l /\ nodup_keys (unique_acc [] l) = true /\
  (forall x, In x l -> exists y, In y (unique_acc [] l) /\ veq x y = true).
Proof.
  intros Hl. split; [apply unique_acc_sublist|]. split.
  - assert (G : forall seen, nodup_keys (unique_acc seen l) = true).
    { unfold unique_acc. induction Hl as [|a t Ha Ht IH]; intros seen; cbn [unique_accG]; [reflexivity|].
      destruct (existsb (fun y => keq a y) seen); [apply IH|]. cbn [nodup_keys]. rewrite IH, andb_true_r.
      apply negb_true_iff, existsb_false. intros x Hx.
      pose proof (unique_acc_fresh (a :: seen) t x Hx) as Hf. cbn [existsb] in Hf. apply orb_false_iff in Hf as [Hf _].
      unfold keq in *. rewrite <- Hf. apply (ok_comm wf wf_equiv); [assumption|].
      eapply Forall_In_wf; [exact Ht|]. eapply sublist_In; [apply unique_acc_sublist|exact Hx]. }
    apply G.
  - assert (G : forall seen x, In x l -> existsb (fun y => keq x y) seen = true \/
                                         exists y, In y (unique_acc seen l) /\ veq x y = true).
    { unfold unique_acc. induction Hl as [|a t Ha Ht IH]; intros seen x Hx; [destruct Hx|]. cbn [unique_accG].
      destruct Hx as [<-|Hx].
      - destruct (existsb (fun y => keq a y) seen) eqn:Ea; [now left|]. right. exists a. split; [now left|now apply veq_refl].
      - destruct (existsb (fun y => keq a y) seen) eqn:Ea; [now apply IH|].
        destruct (IH (a :: seen) x Hx) as [H|(y & Hy & Hm)].
        + cbn [existsb] in H. apply orb_true_iff in H as [H|H]; [|now left].
          right. exists a. split; [now left|exact H].
        + right. exists y. split; [now right|exact Hm]. }
    intros x Hx. destruct (G [] x Hx) as [H|H]; [discriminate|exact H].
Qed.

(* Flatten: no array and no hash entry is left at the top; flattening again changes nothing *)
Lemma flatten1_flat p : Forall (fun x => is_pairlike x = false) (flatten1 p).
Proof.
  induction p as [ | | | |l IH|es IH|k v IHk IHv| | | ] using pv_ind'; cbn [flatten1];
    try (constructor; [reflexivity|constructor]).
  - induction IH as [|x t Hx Ht IHt]; [constructor|]. apply Forall_app. split; auto.
  - apply Forall_app. split; auto.
Qed.

Theorem flatten_spec l :
  Forall (fun x => is_pairlike x = false) (flatten l) /\ flatten (flatten l) = flatten l.
Proof.
  assert (F : Forall (fun x => is_pairlike x = false) (flatten l)).
  { unfold flatten. induction l as [|x t IH]; cbn [flat_map]; [constructor|].
    apply Forall_app. split; [apply flatten1_flat|exact IH]. }
  split; [exact F|]. unfold flatten in *. induction F as [|x t Hx Ht IH]; cbn [flat_map]; [reflexivity|].
  rewrite IH. destruct x; cbn in Hx; try discriminate; reflexivity.
Qed.

(* ---------------------------------------------------------------------------------------------- *)
(* immutability at the value level: a history only ever extends the pool *)

Theorem results_never_change pool ops :
  (exists more, pool_after pool ops = pool ++ more /\ length more = length ops) /\
  (forall i, i < length pool -> pool_at (pool_after pool ops) i = pool_at pool i).
Proof.
  destruct (pool_after_prefix ops pool) as (more & H & Hl). split; [eauto|].
  intros i Hi. unfold pool_at. rewrite H. now apply app_nth1.
Qed.

(* the results of a history are not affected by what is done afterwards *)
Theorem run_app pool ops1 ops2 :
  run_from pool (ops1 ++ ops2) = run_from pool ops1 ++ run_from (pool_after pool ops1) ops2.
Proof.
  revert pool; induction ops1 as [|o t IH]; intros pool; cbn [app run_from pool_after]; [reflexivity|].
  now rewrite IH.
Qed.

(* ---------------------------------------------------------------------------------------------- *)
(* all histories *)

Theorem history_invariant ops : lits_ok ops = true -> wf_pool (pool_after [] ops).
Proof. intros H. apply pool_after_wf; [constructor|exact H]. Qed.

(* no hash of any history holds two equal keys, at any depth *)
Theorem no_two_equal_keys ops i es : lits_ok ops = true ->
  pool_at (pool_after [] ops) i = PHash es -> nodup_keys (map fst es) = true.
Proof.
  intros H E. pose proof (pool_at_wf _ i (history_invariant ops H)) as W. rewrite E in W.
  apply wf_hash in W as [_ W]. now rewrite nodup_keys_map.
Qed.

(* the guard is needed: literal text that repeats a key (open finding literal-repeated-key) gives a hash that
   holds the key twice; Get answers with the LAST entry and Delete leaves the first one in place *)
Lemma literal_repeated_key_refuted :
  exists ops es, lits_ok ops = false /\
    pool_at (pool_after [] ops) 0 = PHash es /\ nodup_keys (map fst es) = false /\
    pool_at (pool_after [] ops) 2 = PInt 2 /\ pool_at (pool_after [] ops) 4 = PBool true.
Proof.
  exists [OParse (PHash [(PStr [97%N], PInt 1); (PStr [97%N], PInt 2)]); OLit (PStr [97%N]); OGet 0 1; ODelete 0 1;
          OIncludes 3 1], [(PStr [97%N], PInt 1); (PStr [97%N], PInt 2)].
  vm_compute. auto.
Qed.
