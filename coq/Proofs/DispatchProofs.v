(* DispatchProofs.v — lemmas about the model of typed dispatch and of `new` (property C16).

   Everything is proved for ARBITRARY universes of types / values / block types / blocks and an ARBITRARY
   instance predicate `inst` and block predicate `binst` (Section variables, as in Model/Dispatch.v): the
   dispatch machinery never looks inside them.

   Spec-level vocabulary introduced here (used by Properties/C16.v):
     nreq / closed / maxar / arity_ok / slots   the "arity window + slot min(i,last)" reading of a declaration
     first_index                                index of the first element satisfying a predicate
     decl_matches                               a call satisfies what a builder program declares
     created_type / target                      the type an instance created by `new` has to belong to

   Go `int` is 64 bit: lengths of slices (argument lists, builder programs) are < 2^63-1.  Coq lists are
   unbounded, so that fact appears as the explicit hypotheses `len _ < max_int64`; they cannot fail for
   anything the Go program can hold in memory. *)
From Coq Require Import ZArith NArith Bool Lia List Btauto.
From PcoreV Require Import Model.Base Model.Dispatch.
Import ListNotations.
Open Scope Z_scope.

Section DispatchProofs.
  Variables ty val bty blk : Type.
  Variable inst : ty -> val -> bool.
  Variable binst : bty -> option blk -> bool.

  Local Notation bopT := (bop ty bty).
  Local Notation bst := (bstate ty bty).
  Local Notation paramT := (param ty).
  Local Notation dispT := (dispatch ty bty).
  Local Notation len l := (Z.of_nat (length l)).
  Local Notation cw := (callable_with inst binst).

  (* ---- the window-and-slots reading of a parameter list -------------------------------------------- *)
  Definition tys (d : list paramT) : list ty := map param_ty d.

  (* number of required parameters = lower end of the arity window *)
  Fixpoint nreq (d : list paramT) : Z :=
    match d with
    | [] => 0
    | Req _ :: r => 1 + nreq r
    | ReqRep _ :: r => 1 + nreq r
    | _ :: r => nreq r
    end.

  (* the list has a repeated parameter *)
  Fixpoint closed (d : list paramT) : bool :=
    match d with
    | [] => false
    | Rep _ :: _ => true
    | ReqRep _ :: _ => true
    | _ :: r => closed r
    end.

  (* upper end of the arity window *)
  Definition maxar (d : list paramT) : Z := if closed d then max_int64 else len d.

  Definition arity_ok (d : list paramT) (vs : list val) : bool :=
    (nreq d <=? len vs) && (len vs <=? maxar d).

  (* argument i is an instance of slot min(i, last) *)
  Fixpoint slots (ts : list ty) (vs : list val) {struct vs} : bool :=
    match vs with
    | [] => true
    | v :: vs' =>
        match ts with
        | [] => true
        | t :: r => inst t v && slots (match r with [] => [t] | _ => r end) vs'
        end
    end.

  Ltac zb :=
    repeat match goal with
           | |- context [?a <=? ?b] => destruct (Z.leb_spec a b)
           | |- context [?a <? ?b] => destruct (Z.ltb_spec a b)
           | |- context [?a =? ?b] => destruct (Z.eqb_spec a b)
           end; try lia; try reflexivity.

  Lemma nreq_nonneg d : 0 <= nreq d.
  Proof. induction d as [|[t|t|t|t] d IH]; cbn [nreq]; lia. Qed.

  Lemma slots_nil vs : slots [] vs = true.
  Proof. destruct vs; reflexivity. Qed.

  Lemma slots_single t vs : slots [t] vs = forallb (inst t) vs.
  Proof.
    induction vs as [|v vs IH]; [reflexivity|].
    cbn [slots forallb]. now rewrite IH.
  Qed.

  Lemma arity_nil vs : arity_ok [] vs = match vs with [] => true | _ => false end.
  Proof.
    unfold arity_ok, maxar. cbn [nreq closed]. destruct vs as [|v vs]; [reflexivity|].
    cbn [length]. zb.
  Qed.

  Lemma wf_phase_pos : forall d p, wf_from (S p) d = true -> nreq d = 0 /\ matches_params inst d [] = true.
  Proof.
    induction d as [|a d IH]; intros p Hwf.
    - split; reflexivity.
    - destruct a as [t|t|t|t]; cbn [wf_from] in Hwf.
      + discriminate.
      + destruct p as [|p]; [|discriminate]. destruct (IH 0%nat Hwf) as [Hn Hm].
        cbn [nreq matches_params]. auto.
      + destruct p as [|p]; [|discriminate]. destruct (IH 1%nat Hwf) as [Hn Hm].
        cbn [nreq matches_params forallb]. rewrite Hm. auto.
      + discriminate.
  Qed.

  Lemma wf_phase2 : forall (d : list paramT) p, wf_from (S (S p)) d = true -> d = [].
  Proof.
    intros [|[t|t|t|t] d] p H; [reflexivity| cbn [wf_from] in H; discriminate ..].
  Qed.

  Lemma arity_cons_req t d v vs :
    len vs + 1 < max_int64 -> arity_ok (Req t :: d) (v :: vs) = arity_ok d vs.
  Proof.
    intros Hl. unfold arity_ok, maxar. cbn [nreq closed length]. destruct (closed d); zb.
  Qed.

  Lemma arity_cons_opt t d v vs :
    len vs + 1 < max_int64 -> nreq d = 0 -> arity_ok (Opt t :: d) (v :: vs) = arity_ok d vs.
  Proof.
    intros Hl Hn. unfold arity_ok, maxar. cbn [nreq closed length]. rewrite Hn. destruct (closed d); zb.
  Qed.

  Lemma slots_cons t r v vs :
    slots (t :: r) (v :: vs) = inst t v && slots (match r with [] => [t] | _ => r end) vs.
  Proof. reflexivity. Qed.

  (* The declarative reading of a well-formed parameter list = arity window + slot min(i,last) *)
  Lemma matches_params_window : forall d p vs,
    wf_from p d = true -> len vs < max_int64 ->
    matches_params inst d vs = arity_ok d vs && slots (tys d) vs.
  Proof.
    induction d as [|a d IH]; intros p vs Hwf Hlen.
    - rewrite arity_nil. unfold tys. cbn [map matches_params]. rewrite slots_nil. destruct vs; reflexivity.
    - destruct a as [t|t|t|t]; cbn [wf_from] in Hwf.
      + (* Req *)
        destruct p as [|p]; [|discriminate].
        destruct vs as [|v vs].
        * cbn [matches_params]. unfold arity_ok. cbn [nreq length]. pose proof (nreq_nonneg d). symmetry.
          apply andb_false_intro1. apply andb_false_intro1. apply Z.leb_gt. lia.
        * cbn [length] in Hlen.
          cbn [matches_params]. rewrite (IH 0%nat vs Hwf) by lia.
          unfold tys at 2. cbn [map param_ty]. fold (tys d). rewrite slots_cons.
          rewrite arity_cons_req by lia.
          destruct d as [|a' d'].
          -- unfold tys. cbn [map]. rewrite arity_nil, slots_nil. destruct vs; [|btauto].
             cbn [slots]. btauto.
          -- unfold tys. cbn [map]. fold (tys d'). btauto.
      + (* Opt *)
        assert (Hwf1 : wf_from 1 d = true) by (destruct p as [|[|p]]; [exact Hwf|exact Hwf|discriminate]).
        destruct (wf_phase_pos d 0%nat Hwf1) as [Hn Hm].
        destruct vs as [|v vs].
        * cbn [matches_params]. rewrite Hm. unfold arity_ok, maxar. cbn [nreq closed length slots]. rewrite Hn.
          destruct (closed d); zb.
        * cbn [length] in Hlen.
          cbn [matches_params]. rewrite (IH 1%nat vs Hwf1) by lia.
          unfold tys at 2. cbn [map param_ty]. fold (tys d). rewrite slots_cons.
          rewrite arity_cons_opt by (auto; lia).
          destruct d as [|a' d'].
          -- unfold tys. cbn [map]. rewrite arity_nil, slots_nil. destruct vs; [|btauto].
             cbn [slots]. btauto.
          -- unfold tys. cbn [map]. fold (tys d'). btauto.
      + (* Rep *)
        assert (Hd : d = []) by (destruct p as [|[|p]]; [apply (wf_phase2 d 0%nat Hwf)|apply (wf_phase2 d 0%nat Hwf)|discriminate]).
        subst d. cbn [matches_params]. unfold tys. cbn [map param_ty]. rewrite slots_single, andb_true_r.
        unfold arity_ok, maxar. cbn [nreq closed].
        replace ((0 <=? len vs) && (len vs <=? max_int64)) with true; [reflexivity|]. zb.
      + (* ReqRep *)
        destruct p as [|p]; [|discriminate].
        assert (Hd : d = []) by apply (wf_phase2 d 0%nat Hwf).
        subst d. unfold tys. cbn [map param_ty]. rewrite slots_single.
        unfold arity_ok, maxar. cbn [nreq closed].
        destruct vs as [|v vs].
        * reflexivity.
        * cbn [matches_params]. rewrite andb_true_r.
          replace ((1 + 0 <=? len (v :: vs)) && (len (v :: vs) <=? max_int64)) with true; [reflexivity|].
          cbn [length] in *. zb.
  Qed.

  (* ---- TupleType.IsInstance3 computes window + slots; it never indexes out of range ----------------- *)
  Lemma skipn_nth : forall (ts : list ty) n t, nth_error ts n = Some t -> skipn n ts = t :: skipn (S n) ts.
  Proof.
    induction ts as [|x ts IH]; intros [|n] t H; cbn in H; try discriminate.
    - inversion H; reflexivity.
    - cbn [skipn]. rewrite (IH n t H). reflexivity.
  Qed.

  Lemma skipn_nonnil : forall (ts : list ty) n, (n < length ts)%nat -> skipn n ts <> [].
  Proof.
    induction ts as [|x ts IH]; intros [|n] H; cbn in *; try lia; try discriminate.
    apply IH. lia.
  Qed.

  Lemma tuple_loop_slots : forall vs ts tdx,
    (tdx < length ts)%nat ->
    tuple_loop inst ts tdx (length ts - 1) vs = Some (slots (skipn tdx ts) vs).
  Proof.
    induction vs as [|v vs IH]; intros ts tdx Hlt.
    - reflexivity.
    - cbn [tuple_loop].
      destruct (nth_error ts tdx) as [t|] eqn:Hn.
      2:{ apply nth_error_None in Hn. lia. }
      rewrite (skipn_nth ts tdx t Hn). rewrite slots_cons.
      destruct (inst t v); [|reflexivity]. rewrite andb_true_l.
      destruct (Nat.ltb_spec tdx (length ts - 1)) as [Hl|Hl].
      + rewrite IH by lia.
        destruct (skipn (S tdx) ts) eqn:Hs; [|reflexivity].
        exfalso. apply (skipn_nonnil ts (S tdx)); [lia|exact Hs].
      + rewrite IH by lia.
        assert (Hs : skipn (S tdx) ts = []) by (apply skipn_all2; lia).
        rewrite Hs, (skipn_nth ts tdx t Hn), Hs. reflexivity.
  Qed.

  Lemma tuple_inst3_decl : forall d (s : sig ty bty) vs,
    wf_params d = true -> len vs < max_int64 ->
    s_min s = nreq d -> s_max s = maxar d -> s_types s = tys d ->
    tuple_inst3 inst s vs = Some (matches_params inst d vs).
  Proof.
    intros d s vs Hwf Hlen Hmin Hmax Hty.
    rewrite (matches_params_window d 0%nat vs Hwf Hlen).
    unfold tuple_inst3, arity_ok. rewrite Hmin, Hmax, Hty.
    destruct ((nreq d <=? len vs) && (len vs <=? maxar d)); cbn [negb andb]; [|reflexivity].
    destruct (tys d) as [|t r] eqn:Ht.
    - now rewrite slots_nil.
    - rewrite tuple_loop_slots by (cbn [length]; lia). reflexivity.
  Qed.

  (* ---- the builder ---------------------------------------------------------------------------------- *)
  Definition phase (s : bst) : nat :=
    if b_max s =? max_int64 then 2%nat else if b_min s <? b_max s then 1%nat else 0%nat.

  Definition param_of_op (o : bopT) : option paramT :=
    match o with
    | OParam t => Some (Req t) | OOptParam t => Some (Opt t)
    | ORepParam t => Some (Rep t) | OReqRepParam t => Some (ReqRep t)
    | _ => None
    end.

  (* what a successful builder call does to the block / function fields, and what it requires *)
  Definition step_blockspec (s : bst) (o : bopT) (s1 : bst) : Prop :=
    match o with
    | OBlock b => b_block s = None /\ b_fn s = false /\ b_block s1 = Some b /\ b_optblock s1 = b_optblock s /\
                  b_fn s1 = b_fn s /\ b_fn2 s1 = b_fn2 s
    | OOptBlock b => b_block s = None /\ b_fn s = false /\ b_block s1 = Some b /\ b_optblock s1 = true /\
                     b_fn s1 = b_fn s /\ b_fn2 s1 = b_fn2 s
    | OFunction => b_block s = None /\ b_block s1 = None /\ b_optblock s1 = b_optblock s /\
                   b_fn s1 = true /\ b_fn2 s1 = b_fn2 s
    | OFunction2 => b_block s <> None /\ b_block s1 = b_block s /\ b_optblock s1 = b_optblock s /\
                    b_fn s1 = b_fn s /\ b_fn2 s1 = true
    | _ => b_block s1 = b_block s /\ b_optblock s1 = b_optblock s /\ b_fn s1 = b_fn s /\ b_fn2 s1 = b_fn2 s
    end.

  Lemma step_block : forall s o s1, step s o = Ok s1 -> step_blockspec s o s1.
  Proof.
    intros s o s1 Hs. destruct o as [t|t|t|t|b|b| | | ]; cbn [step] in Hs; unfold step_blockspec.
    - destruct (after_repeated s); [discriminate|]. destruct (b_min s <? b_max s); [discriminate|].
      inversion Hs; subst; cbn; auto.
    - destruct (after_repeated s); [discriminate|]. inversion Hs; subst; cbn; auto.
    - destruct (after_repeated s); [discriminate|]. inversion Hs; subst; cbn; auto.
    - destruct (after_repeated s); [discriminate|]. destruct (b_min s <? b_max s); [discriminate|].
      inversion Hs; subst; cbn; auto.
    - unfold block2 in Hs. destruct (b_block s) eqn:Hb; [discriminate|]. destruct (b_fn s) eqn:Hf; [discriminate|].
      inversion Hs; subst; cbn; auto 10.
    - unfold block2 in Hs. destruct (b_block s) eqn:Hb; [discriminate|]. destruct (b_fn s) eqn:Hf; [discriminate|].
      cbn in Hs. inversion Hs; subst; cbn; auto 10.
    - destruct (b_ret s); [discriminate|]. inversion Hs; subst; cbn; auto.
    - destruct (b_block s) eqn:Hb; [discriminate|]. inversion Hs; subst; cbn; auto 10.
    - destruct (b_block s) eqn:Hb; [|discriminate]. inversion Hs; subst; cbn. repeat split; auto. discriminate.
  Qed.

  Lemma step_nonparam : forall s o s1, param_of_op o = None -> step s o = Ok s1 ->
    b_min s1 = b_min s /\ b_max s1 = b_max s /\ b_types s1 = b_types s.
  Proof.
    intros s o s1 Hn Hs. destruct o as [t|t|t|t|b|b| | | ]; try discriminate Hn; cbn [step] in Hs.
    - unfold block2 in Hs. destruct (b_block s); [discriminate|]. destruct (b_fn s); [discriminate|].
      inversion Hs; subst; cbn; auto.
    - unfold block2 in Hs. destruct (b_block s); [discriminate|]. destruct (b_fn s); [discriminate|].
      cbn in Hs. inversion Hs; subst; cbn; auto.
    - destruct (b_ret s); [discriminate|]. inversion Hs; subst; cbn; auto.
    - destruct (b_block s); [discriminate|]. inversion Hs; subst; cbn; auto.
    - destruct (b_block s); [|discriminate]. inversion Hs; subst; cbn; auto.
  Qed.

  Lemma params_of_cons o ops :
    params_of (o :: ops) = match param_of_op o with Some p => p :: params_of ops | None => params_of ops end.
  Proof. destruct o; reflexivity. Qed.

  Lemma length_params_of (ops : list bopT) : (length (params_of ops) <= length ops)%nat.
  Proof.
    induction ops as [|o ops IH]; [cbn; lia|]. rewrite params_of_cons.
    destruct (param_of_op o); cbn [length]; lia.
  Qed.

  Lemma phase_eq s s1 : b_min s1 = b_min s -> b_max s1 = b_max s -> phase s1 = phase s.
  Proof. intros H1 H2. unfold phase. now rewrite H1, H2. Qed.

  (* The arity bookkeeping of the builder (function.go:214-262): a builder program that runs to the end
     declares a well-formed parameter list, and min / max / types are its window and slot types. *)
  Lemma run_ops_params : forall ops s s',
    run_ops s ops = Ok s' -> b_min s <= b_max s ->
    (b_max s = max_int64 \/ b_max s + len ops < max_int64) ->
    wf_from (phase s) (params_of ops) = true /\
    b_types s' = b_types s ++ tys (params_of ops) /\
    b_min s' = b_min s + nreq (params_of ops) /\
    b_max s' = (if closed (params_of ops) then max_int64 else b_max s + len (params_of ops)) /\
    b_min s' <= b_max s'.
  Proof.
    induction ops as [|o ops IH]; intros s s' Hrun Hle Hb.
    - cbn in Hrun. inversion Hrun; subst s'. cbn [params_of tys map nreq closed length]. rewrite app_nil_r.
      repeat split; try lia.
    - cbn [run_ops] in Hrun. destruct (step s o) as [s1|c] eqn:Hs; [|discriminate].
      rewrite params_of_cons.
      assert (Hlen : len (o :: ops) = 1 + len ops) by (cbn [length]; lia).
      destruct (param_of_op o) as [p|] eqn:Hp.
      + (* a parameter *)
        unfold max_int64 in *.
        destruct o as [t|t|t|t|b|b| | | ]; try discriminate Hp; inversion Hp; subst p; clear Hp;
          cbn [step] in Hs; unfold after_repeated, max_int64 in Hs;
          destruct (Z.eqb_spec (b_max s) 9223372036854775807) as [He|He]; try discriminate Hs;
          destruct Hb as [Hb|Hb]; try contradiction.
        * (* Param *)
          destruct (Z.ltb_spec (b_min s) (b_max s)) as [Hl|Hl]; [discriminate|].
          inversion Hs; subst s1; clear Hs.
          destruct (IH _ _ Hrun) as (Hwf & Hty & Hmin & Hmax & Hmm); cbn [b_min b_max add_param]; try lia.
          assert (Hph : phase s = 0%nat) by (unfold phase, max_int64; zb).
          assert (Hph1 : phase (add_param s t (b_min s + 1) (b_max s + 1)) = 0%nat)
            by (unfold phase, max_int64; cbn [b_min b_max add_param]; zb).
          rewrite Hph1 in Hwf. rewrite Hph. cbn [wf_from nreq closed tys map param_ty length].
          cbn [b_min b_max b_types add_param] in *. rewrite Hty, Hmin, Hmax, <- app_assoc. cbn [app].
          repeat split; auto; try lia. destruct (closed (params_of ops)); lia.
        * (* OptionalParam *)
          inversion Hs; subst s1; clear Hs.
          destruct (IH _ _ Hrun) as (Hwf & Hty & Hmin & Hmax & Hmm); cbn [b_min b_max add_param]; try lia.
          assert (Hph1 : phase (add_param s t (b_min s) (b_max s + 1)) = 1%nat)
            by (unfold phase, max_int64; cbn [b_min b_max add_param]; zb).
          rewrite Hph1 in Hwf.
          assert (Hwf' : wf_from (phase s) (Opt t :: params_of ops) = true).
          { unfold phase, max_int64. destruct (Z.eqb_spec (b_max s) 9223372036854775807); [contradiction|].
            destruct (b_min s <? b_max s); cbn [wf_from]; exact Hwf. }
          cbn [nreq closed tys map param_ty length].
          cbn [b_min b_max b_types add_param] in *. rewrite Hty, Hmin, Hmax, <- app_assoc. cbn [app].
          repeat split; auto; try lia. destruct (closed (params_of ops)); lia.
        * (* RepeatedParam *)
          inversion Hs; subst s1; clear Hs.
          destruct (IH _ _ Hrun) as (Hwf & Hty & Hmin & Hmax & Hmm); cbn [b_min b_max add_param]; try lia;
            try (left; reflexivity).
          assert (Hph1 : phase (add_param s t (b_min s) 9223372036854775807) = 2%nat)
            by (unfold phase, max_int64; cbn [b_min b_max add_param]; zb).
          rewrite Hph1 in Hwf.
          assert (Hwf' : wf_from (phase s) (Rep t :: params_of ops) = true).
          { unfold phase, max_int64. destruct (Z.eqb_spec (b_max s) 9223372036854775807); [contradiction|].
            destruct (b_min s <? b_max s); cbn [wf_from]; exact Hwf. }
          cbn [nreq closed tys map param_ty length].
          cbn [b_min b_max b_types add_param] in *. rewrite Hty, Hmin, <- app_assoc. cbn [app].
          assert (Hnil : params_of ops = []) by apply (wf_phase2 _ 0%nat Hwf).
          rewrite Hnil in *. cbn [closed length] in Hmax. unfold max_int64 in *.
          repeat split; auto; try lia.
        * (* RequiredRepeatedParam *)
          destruct (Z.ltb_spec (b_min s) (b_max s)) as [Hl|Hl]; [discriminate|].
          inversion Hs; subst s1; clear Hs.
          destruct (IH _ _ Hrun) as (Hwf & Hty & Hmin & Hmax & Hmm); cbn [b_min b_max add_param]; try lia;
            try (left; reflexivity).
          assert (Hph : phase s = 0%nat) by (unfold phase, max_int64; zb).
          assert (Hph1 : phase (add_param s t (b_min s + 1) 9223372036854775807) = 2%nat)
            by (unfold phase, max_int64; cbn [b_min b_max add_param]; zb).
          rewrite Hph1 in Hwf. rewrite Hph. cbn [wf_from nreq closed tys map param_ty length].
          cbn [b_min b_max b_types add_param] in *. rewrite Hty, Hmin, <- app_assoc. cbn [app].
          assert (Hnil : params_of ops = []) by apply (wf_phase2 _ 0%nat Hwf).
          rewrite Hnil in *. cbn [closed length] in Hmax. unfold max_int64 in *.
          repeat split; auto; try lia.
      + (* not a parameter: min, max, types untouched *)
        destruct (step_nonparam s o s1 Hp Hs) as (H1 & H2 & H3).
        destruct (IH _ _ Hrun) as (Hwf & Hty & Hmin & Hmax & Hmm); try lia.
        rewrite (phase_eq s s1 H1 H2) in Hwf. rewrite H1, H2, H3 in *. auto.
  Qed.

  (* ---- blocks and functions -------------------------------------------------------------------------- *)
  Definition BInv (s : bst) : Prop :=
    (b_fn s = true -> b_block s = None) /\ (b_fn2 s = true -> b_block s <> None).

  Lemma step_BInv : forall s o s1, step s o = Ok s1 -> BInv s -> BInv s1.
  Proof.
    intros s o s1 Hs [I1 I2]. pose proof (step_block s o s1 Hs) as H. unfold BInv.
    destruct o; unfold step_blockspec in H; decompose [and] H; clear H;
      repeat match goal with H : _ = _ |- _ => rewrite H in * end; split; intros; auto; try congruence.
  Qed.

  Lemma run_ops_BInv : forall ops s s', run_ops s ops = Ok s' -> BInv s -> BInv s'.
  Proof.
    induction ops as [|o ops IH]; intros s s' Hrun Hi; cbn [run_ops] in Hrun.
    - inversion Hrun; subst; exact Hi.
    - destruct (step s o) as [s1|c] eqn:Hs; [|discriminate]. eapply IH; eauto using step_BInv.
  Qed.

  (* once a block is declared no further block declaration is accepted *)
  Lemma run_ops_block_frozen : forall (ops : list bopT) (s s' : bst) b,
    run_ops s ops = Ok s' -> b_block s = Some b -> b_block s' = Some b /\ b_optblock s' = b_optblock s.
  Proof.
    induction ops as [|o ops IH]; intros s s' b Hrun Hb; cbn [run_ops] in Hrun.
    - inversion Hrun; subst; auto.
    - destruct (step s o) as [s1|c] eqn:Hs; [|discriminate].
      pose proof (step_block s o s1 Hs) as H.
      assert (Hk : b_block s1 = Some b /\ b_optblock s1 = b_optblock s).
      { destruct o; unfold step_blockspec in H; decompose [and] H; clear H; try congruence; split; congruence. }
      destruct Hk as [Hk1 Hk2]. destruct (IH _ _ _ Hrun Hk1) as [H1 H2]. split; congruence.
  Qed.

  Definition blockreq_state (r : blockreq bty) (s : bst) : Prop :=
    match r with
    | NoBlock => b_block s = None
    | ReqBlock b => b_block s = Some b /\ b_optblock s = false
    | OptBlock b => b_block s = Some b /\ b_optblock s = true
    end.

  Lemma run_ops_blockreq : forall ops s s',
    run_ops s ops = Ok s' -> b_block s = None -> b_optblock s = false ->
    blockreq_state (blockreq_of ops) s'.
  Proof.
    induction ops as [|o ops IH]; intros s s' Hrun Hb Ho; cbn [run_ops] in Hrun.
    - inversion Hrun; subst; exact Hb.
    - destruct (step s o) as [s1|c] eqn:Hs; [|discriminate].
      pose proof (step_block s o s1 Hs) as H.
      destruct o as [t|t|t|t|b|b| | | ]; unfold step_blockspec in H; decompose [and] H; clear H;
        cbn [blockreq_of blockreq_state];
        try (apply (IH s1 s' Hrun); congruence).
      + destruct (run_ops_block_frozen ops s1 s' b Hrun) as [Hfz1 Hfz2]; [assumption|]. split; congruence.
      + destruct (run_ops_block_frozen ops s1 s' b Hrun) as [Hfz1 Hfz2]; [assumption|]. split; congruence.
  Qed.

  Lemma build_spec : forall ops (d : dispT), build ops = Ok d -> exists s, run_ops b_init ops = Ok s /\ create s = Ok d.
  Proof.
    intros ops d H. unfold build in H. destruct (run_ops b_init ops) as [s|c]; [|discriminate]. eauto.
  Qed.

  Lemma BInv_init : BInv (@b_init ty bty).
  Proof. split; cbn; intros; discriminate. Qed.

  (* what the builder accepted is well-formed *)
  Lemma build_wf : forall ops (d : dispT),
    build ops = Ok d -> len ops < max_int64 -> wf_params (params_of ops) = true.
  Proof.
    intros ops d H Hl. destruct (build_spec ops d H) as (s & Hrun & _).
    destruct (run_ops_params ops b_init s Hrun) as (Hwf & _); cbn [b_min b_max b_init]; try lia.
    exact Hwf.
  Qed.

  (* callable_iff_decl: the signature built from a builder program accepts exactly the calls its
     declaration describes *)
  Theorem callable_iff_decl : forall ops (d : dispT) vs b,
    build ops = Ok d -> d_hasfn d = true -> len ops < max_int64 -> len vs < max_int64 ->
    cw (d_sig d) vs b = Some (matches_decl inst binst (params_of ops) (blockreq_of ops) vs b).
  Proof.
    intros ops d vs b Hb Hfn Hlo Hlv.
    destruct (build_spec ops d Hb) as (s & Hrun & Hcr).
    destruct (run_ops_params ops b_init s Hrun) as (Hwf & Hty & Hmin & Hmax & Hmm); cbn [b_min b_max b_init]; try lia.
    cbn [b_min b_max b_types b_init app] in *.
    pose proof (run_ops_BInv ops b_init s Hrun BInv_init) as [I1 I2].
    pose proof (run_ops_blockreq ops b_init s Hrun eq_refl eq_refl) as Hbr.
    assert (Hmax' : b_max s = maxar (params_of ops)).
    { unfold maxar. rewrite Hmax. destruct (closed (params_of ops)); lia. }
    assert (Hmin' : b_min s = nreq (params_of ops)) by lia.
    unfold create in Hcr. destruct (Z.ltb_spec (b_max s) (b_min s)) as [Hx|_]; [lia|].
    unfold matches_decl, callable_with.
    destruct (b_fn2 s) eqn:Hf2.
    - inversion Hcr; subst d; clear Hcr. cbn [d_sig s_block].
      specialize (I2 eq_refl). destruct (b_block s) as [bt|] eqn:Hbt; [|contradiction].
      set (sg := mkSig (b_min s) (b_max s) (b_types s) (Some (b_optblock s, bt))).
      assert (Ht : tuple_inst3 inst sg vs = Some (matches_params inst (params_of ops) vs))
        by (apply tuple_inst3_decl; auto).
      destruct (blockreq_of ops) as [|b0|b0]; cbn [blockreq_state] in Hbr.
      + congruence.
      + destruct Hbr as [Hb1 Hb2]. assert (Hbb : b0 = bt) by congruence. subst b0. subst sg. rewrite Hb2 in *.
        destruct b as [bl|]; cbn [matches_block orb].
        * destruct (binst bt (Some bl)); [rewrite Ht, andb_true_r; reflexivity|rewrite andb_false_r; reflexivity].
        * destruct (binst bt None); [rewrite Ht, andb_true_r; reflexivity|rewrite andb_false_r; reflexivity].
      + destruct Hbr as [Hb1 Hb2]. assert (Hbb : b0 = bt) by congruence. subst b0. subst sg. rewrite Hb2 in *.
        destruct b as [bl|]; cbn [matches_block orb].
        * destruct (binst bt (Some bl)); [rewrite Ht, andb_true_r; reflexivity|rewrite andb_false_r; reflexivity].
        * rewrite Ht, andb_true_r; reflexivity.
    - inversion Hcr; subst d; clear Hcr. cbn [d_sig s_block d_hasfn] in *.
      specialize (I1 Hfn).
      set (sg := mkSig (b_min s) (b_max s) (b_types s) None).
      assert (Ht : tuple_inst3 inst sg vs = Some (matches_params inst (params_of ops) vs))
        by (apply tuple_inst3_decl; auto).
      destruct (blockreq_of ops) as [|b0|b0]; cbn [blockreq_state] in Hbr;
        [|destruct Hbr; congruence|destruct Hbr; congruence].
      destruct b as [bl|]; cbn [matches_block].
      + rewrite andb_false_r; reflexivity.
      + rewrite Ht, andb_true_r; reflexivity.
  Qed.

  (* ---- canonical builder programs: every well-formed declaration is accepted ------------------------ *)
  Lemma run_ops_app : forall (a b : list bopT) s,
    run_ops s (a ++ b) = match run_ops s a with Ok s' => run_ops s' b | Panic c => Panic c end.
  Proof.
    induction a as [|o a IH]; intros b s; cbn [app run_ops]; [reflexivity|].
    destruct (step s o); [apply IH|reflexivity].
  Qed.

  Lemma params_of_app : forall (a b : list bopT), params_of (a ++ b) = params_of a ++ params_of b.
  Proof.
    induction a as [|o a IH]; intros b; [reflexivity|]. cbn [app]. rewrite !params_of_cons, IH.
    destruct (param_of_op o); reflexivity.
  Qed.

  Lemma params_of_map : forall d : list paramT, params_of (map (@op_of_param ty bty) d) = d.
  Proof. induction d as [|[t|t|t|t] d IH]; cbn [map op_of_param params_of]; now rewrite ?IH. Qed.

  Lemma blockreq_of_map : forall (d : list paramT) (r : list bopT),
    blockreq_of (map (@op_of_param ty bty) d ++ r) = blockreq_of r.
  Proof. induction d as [|[t|t|t|t] d IH]; intros r; cbn [map op_of_param blockreq_of app]; auto. Qed.

  Lemma params_of_decl (d : list paramT) (r : blockreq bty) : params_of (@ops_of_decl ty bty d r) = d.
  Proof.
    unfold ops_of_decl. rewrite params_of_app, params_of_map. destruct r; cbn [params_of]; apply app_nil_r.
  Qed.

  Lemma blockreq_of_decl (d : list paramT) r : blockreq_of (@ops_of_decl ty bty d r) = r.
  Proof. unfold ops_of_decl. rewrite blockreq_of_map. destruct r; reflexivity. Qed.

  Lemma run_params_ok : forall (d : list paramT) s,
    wf_from (phase s) d = true -> b_min s <= b_max s ->
    (b_max s = max_int64 \/ b_max s + len d < max_int64) ->
    exists s', run_ops s (map (@op_of_param ty bty) d) = Ok s' /\
               b_block s' = b_block s /\ b_optblock s' = b_optblock s /\ b_fn s' = b_fn s /\ b_fn2 s' = b_fn2 s.
  Proof.
    induction d as [|a d IH]; intros s Hwf Hle Hb.
    - exists s. cbn. auto.
    - assert (Hph : b_max s <> max_int64).
      { intro He. unfold phase in Hwf. rewrite He, Z.eqb_refl in Hwf. destruct a; discriminate Hwf. }
      destruct Hb as [Hb|Hb]; [contradiction|]. cbn [length] in Hb.
      assert (Har : after_repeated s = false) by (unfold after_repeated; zb).
      unfold phase in Hwf. destruct (Z.eqb_spec (b_max s) max_int64) as [|_]; [contradiction|].
      cbn [map run_ops].
      destruct a as [t|t|t|t]; cbn [op_of_param step]; rewrite Har.
      + destruct (Z.ltb_spec (b_min s) (b_max s)) as [Hl|Hl]; [discriminate Hwf|]. cbn [wf_from] in Hwf.
        assert (Hp : wf_from (phase (add_param s t (b_min s + 1) (b_max s + 1))) d = true).
        { unfold phase, max_int64 in *. cbn [b_min b_max add_param]. zb; exact Hwf. }
        destruct (IH _ Hp) as (s' & Hr & H1 & H2 & H3 & H4); cbn [b_min b_max add_param]; try lia.
        exists s'. auto.
      + assert (Hwf1 : wf_from 1 d = true) by (destruct (b_min s <? b_max s); exact Hwf).
        assert (Hp : wf_from (phase (add_param s t (b_min s) (b_max s + 1))) d = true).
        { unfold phase, max_int64 in *. cbn [b_min b_max add_param]. zb; exact Hwf1. }
        destruct (IH _ Hp) as (s' & Hr & H1 & H2 & H3 & H4); cbn [b_min b_max add_param]; try lia.
        exists s'. auto.
      + assert (Hwf2 : wf_from 2 d = true) by (destruct (b_min s <? b_max s); exact Hwf).
        assert (Hp : wf_from (phase (add_param s t (b_min s) max_int64)) d = true).
        { unfold phase. cbn [b_min b_max add_param]. rewrite Z.eqb_refl. exact Hwf2. }
        destruct (IH _ Hp) as (s' & Hr & H1 & H2 & H3 & H4); cbn [b_min b_max add_param]; try lia.
        exists s'. auto.
      + destruct (Z.ltb_spec (b_min s) (b_max s)) as [Hl|Hl]; [discriminate Hwf|]. cbn [wf_from] in Hwf.
        assert (Hp : wf_from (phase (add_param s t (b_min s + 1) max_int64)) d = true).
        { unfold phase. cbn [b_min b_max add_param]. rewrite Z.eqb_refl. exact Hwf. }
        destruct (IH _ Hp) as (s' & Hr & H1 & H2 & H3 & H4); cbn [b_min b_max add_param]; try lia.
        exists s'. auto.
  Qed.

  Theorem wf_decl_accepted : forall (d : list paramT) (r : blockreq bty),
    wf_params d = true -> len d < max_int64 - 2 ->
    exists dd : dispT, build (ops_of_decl d r) = Ok dd /\ d_hasfn dd = true.
  Proof.
    intros d r Hwf Hl.
    destruct (run_params_ok d b_init) as (s1 & Hr & H1 & H2 & H3 & H4); cbn [b_min b_max b_init]; try lia; auto.
    cbn [b_block b_optblock b_fn b_fn2 b_init] in *.
    assert (Hmm : b_min s1 <= b_max s1).
    { destruct (run_ops_params _ b_init s1 Hr) as (_ & _ & _ & _ & Hmm); cbn [b_min b_max b_init]; try lia.
      right. rewrite map_length. lia. }
    unfold build, ops_of_decl. rewrite run_ops_app, Hr.
    destruct r as [|b|b]; cbn [run_ops step]; unfold block2; rewrite ?H1, ?H3; cbn [b_block b_fn]; rewrite ?H1, ?H3.
    - unfold create. cbn [b_min b_max b_fn b_fn2]. destruct (Z.ltb_spec (b_max s1) (b_min s1)); [lia|].
      rewrite H4. eexists; split; reflexivity.
    - cbn [b_block]. unfold create. cbn [b_min b_max b_fn b_fn2 b_block b_optblock].
      destruct (Z.ltb_spec (b_max s1) (b_min s1)); [lia|]. eexists; split; reflexivity.
    - cbn [b_block]. unfold create. cbn [b_min b_max b_fn b_fn2 b_block b_optblock].
      destruct (Z.ltb_spec (b_max s1) (b_min s1)); [lia|]. eexists; split; reflexivity.
  Qed.

  (* the DESIGN.md form: build the canonical program of a declaration; its signature = the declaration *)
  Theorem callable_iff_decl_canonical : forall (d : list paramT) (r : blockreq bty) (dd : dispT) vs b,
    build (ops_of_decl d r) = Ok dd -> len d < max_int64 - 2 -> len vs < max_int64 ->
    cw (d_sig dd) vs b = Some (matches_decl inst binst d r vs b) /\ d_hasfn dd = true.
  Proof.
    intros d r dd vs b Hb Hl Hlv.
    assert (Hlo : len (ops_of_decl d r) < max_int64).
    { unfold ops_of_decl. rewrite app_length, map_length. destruct r; cbn [length]; lia. }
    assert (Hwf : wf_params d = true).
    { rewrite <- (params_of_decl d r). eapply build_wf; eauto. }
    destruct (wf_decl_accepted d r Hwf Hl) as (dd' & Hb' & Hfn). rewrite Hb in Hb'. inversion Hb'; subst dd'.
    split; [|exact Hfn].
    rewrite (callable_iff_decl _ _ vs b Hb Hfn Hlo Hlv), params_of_decl, blockreq_of_decl. reflexivity.
  Qed.

  (* ---- goFunction.Call ------------------------------------------------------------------------------- *)
  Fixpoint first_index {A} (p : A -> bool) (l : list A) : option nat :=
    match l with
    | [] => None
    | x :: r => if p x then Some 0%nat else option_map S (first_index p r)
    end.

  Lemma first_index_some : forall {A} (p : A -> bool) l i,
    first_index p l = Some i <->
    exists x, nth_error l i = Some x /\ p x = true /\
              forall j y, (j < i)%nat -> nth_error l j = Some y -> p y = false.
  Proof.
    intros A p. induction l as [|a l IH]; intros i.
    - split; [discriminate|]. intros (x & Hn & _). destruct i; discriminate.
    - cbn [first_index]. destruct (p a) eqn:Hp.
      + split.
        * intros H. inversion H; subst i. exists a. repeat split; auto. intros j y Hj. lia.
        * intros (x & Hn & Hx & Hall). destruct i as [|i]; [reflexivity|].
          specialize (Hall 0%nat a ltac:(lia) eq_refl). congruence.
      + split.
        * intros H. destruct (first_index p l) as [n|] eqn:E; [|discriminate]. cbn in H. inversion H; subst i.
          destruct (proj1 (IH n) eq_refl) as (x & Hn & Hx & Hall).
          exists x. repeat split; auto. intros [|j] y Hj Hy; cbn in Hy.
          -- inversion Hy; subst; exact Hp.
          -- apply (Hall j y); [lia|exact Hy].
        * intros (x & Hn & Hx & Hall). destruct i as [|i]; cbn in Hn.
          -- inversion Hn; subst; congruence.
          -- assert (E : first_index p l = Some i).
             { apply (proj2 (IH i)). exists x. repeat split; auto. intros j y Hj Hy.
               apply (Hall (S j) y); [lia|exact Hy]. }
             rewrite E. reflexivity.
  Qed.

  Lemma first_index_none : forall {A} (p : A -> bool) l,
    first_index p l = None <-> forall x, In x l -> p x = false.
  Proof.
    intros A p. induction l as [|a l IH].
    - split; [intros _ x []|reflexivity].
    - cbn [first_index]. destruct (p a) eqn:Hp.
      + split; [discriminate|]. intros H. specialize (H a (or_introl eq_refl)). congruence.
      + destruct (first_index p l) eqn:E.
        * split; [discriminate|]. intros H. exfalso.
          assert (Hn : Some n = None) by (apply (proj2 IH); intros x Hx; apply H; right; exact Hx).
          discriminate Hn.
        * split; [|reflexivity]. intros _ x [Hx|Hx]; [subst; exact Hp|apply (proj1 IH eq_refl x Hx)].
  Qed.

  (* the generic reading of goFunction.Call over ANY list of dispatches (built or not) *)
  Lemma call_from_body : forall (ds : list dispT) k vs b i,
    call_from inst binst ds k vs b = RBody i <->
    exists j d, i = (k + j)%nat /\ nth_error ds j = Some d /\ cw (d_sig d) vs b = Some true /\ d_hasfn d = true /\
                forall j' d', (j' < j)%nat -> nth_error ds j' = Some d' -> cw (d_sig d') vs b = Some false.
  Proof.
    induction ds as [|d ds IH]; intros k vs b i; cbn [call_from].
    - split; [discriminate|]. intros (j & d & _ & Hn & _). destruct j; discriminate.
    - destruct (cw (d_sig d) vs b) as [[|]|] eqn:Hc.
      + destruct (d_hasfn d) eqn:Hf; split.
        * intros H. inversion H; subst i. exists 0%nat, d. repeat split; auto; try lia.
        * intros (j & d0 & Hi & Hn & Hc0 & Hf0 & Hall). destruct j as [|j].
          -- f_equal. lia.
          -- specialize (Hall 0%nat d ltac:(lia) eq_refl). congruence.
        * discriminate.
        * intros (j & d0 & Hi & Hn & Hc0 & Hf0 & Hall). destruct j as [|j].
          -- cbn in Hn. inversion Hn; subst; congruence.
          -- specialize (Hall 0%nat d ltac:(lia) eq_refl). congruence.
      + rewrite IH. split.
        * intros (j & d0 & Hi & Hn & Hc0 & Hf0 & Hall). exists (S j), d0. repeat split; auto; try lia.
          intros [|j'] d' Hj Hn'; cbn in Hn'.
          -- inversion Hn'; subst; exact Hc.
          -- apply (Hall j' d'); [lia|exact Hn'].
        * intros (j & d0 & Hi & Hn & Hc0 & Hf0 & Hall). destruct j as [|j]; cbn in Hn.
          -- inversion Hn; subst; congruence.
          -- exists j, d0. repeat split; auto; try lia. intros j' d' Hj Hn'. apply (Hall (S j') d'); [lia|exact Hn'].
      + split; [discriminate|].
        intros (j & d0 & Hi & Hn & Hc0 & Hf0 & Hall). destruct j as [|j]; cbn in Hn.
        * inversion Hn; subst; congruence.
        * specialize (Hall 0%nat d ltac:(lia) eq_refl). congruence.
  Qed.

  Lemma call_from_first : forall (dm : list bopT -> bool) vs b (dss : list (list bopT)) (ds : list dispT),
    Forall2 (fun ops d => cw (d_sig d) vs b = Some (dm ops) /\ d_hasfn d = true) dss ds ->
    forall k, call_from inst binst ds k vs b =
              match first_index dm dss with Some j => RBody (k + j) | None => RArgError end.
  Proof.
    intros dm vs b dss ds H. induction H as [|ops d dss ds [Hc Hf] _ IH]; intros k.
    - reflexivity.
    - cbn [call_from first_index]. rewrite Hc. destruct (dm ops).
      + rewrite Hf. f_equal. lia.
      + rewrite IH. destruct (first_index dm dss); cbn [option_map]; [f_equal; lia|reflexivity].
  Qed.

  Lemma run_all_spec : forall (dss : list (list bopT)) i ss,
    run_all dss i = inr ss -> Forall2 (fun ops s => run_ops b_init ops = Ok s) dss ss.
  Proof.
    induction dss as [|ops dss IH]; intros i ss H; cbn [run_all] in H.
    - inversion H; constructor.
    - destruct (run_ops b_init ops) as [s|c] eqn:Hr; [|discriminate].
      destruct (run_all dss (S i)) as [e|ss'] eqn:Ha; [discriminate|].
      inversion H; subst. constructor; eauto.
  Qed.

  Lemma create_all_spec : forall (ss : list bst) i (ds : list dispT),
    create_all ss i = inr ds -> Forall2 (fun s d => create s = Ok d) ss ds.
  Proof.
    induction ss as [|s ss IH]; intros i ds H; cbn [create_all] in H.
    - inversion H; constructor.
    - destruct (create s) as [d|c] eqn:Hc; [|discriminate].
      destruct (create_all ss (S i)) as [e|ds'] eqn:Ha; [discriminate|].
      inversion H; subst. constructor; eauto.
  Qed.

  Lemma build_function_spec : forall (dss : list (list bopT)) (ds : list dispT),
    build_function dss = inr ds -> Forall2 (fun ops d => build ops = Ok d) dss ds.
  Proof.
    intros dss ds H. unfold build_function in H.
    destruct (run_all dss 0) as [e|ss] eqn:Ha; [discriminate|].
    apply run_all_spec in Ha. apply create_all_spec in H.
    revert ds H. induction Ha as [|ops s dss ss Hr _ IH]; intros ds H; inversion H; subst; constructor.
    - unfold build. rewrite Hr. assumption.
    - apply IH. assumption.
  Qed.

  Definition decl_matches (vs : list val) (b : option blk) (ops : list bopT) : bool :=
    matches_decl inst binst (params_of ops) (blockreq_of ops) vs b.

  (* a function as the builder hands it out: every dispatch was given its Go function, and the builder
     programs have a Go-representable length *)
  Definition fn_built (dss : list (list bopT)) (ds : list dispT) : Prop :=
    build_function dss = inr ds /\ Forall (fun d => d_hasfn d = true) ds /\
    Forall (fun ops => len ops < max_int64) dss.

  Lemma fn_built_rel : forall dss ds vs b, fn_built dss ds -> len vs < max_int64 ->
    Forall2 (fun ops d => cw (d_sig d) vs b = Some (decl_matches vs b ops) /\ d_hasfn d = true) dss ds.
  Proof.
    intros dss ds vs b (Hb & Hf & Hl) Hlv. apply build_function_spec in Hb.
    induction Hb as [|ops d dss ds Hbo _ IH]; [constructor|].
    inversion Hf; subst. inversion Hl; subst. constructor; [|apply IH; assumption].
    split; [|assumption]. unfold decl_matches. apply callable_iff_decl; assumption.
  Qed.

  (* goFunction.Call runs the body of the FIRST dispatch whose declaration the call satisfies; if there is
     none it raises the argument error; it never faults *)
  Theorem call_is_first_match : forall dss ds vs b,
    fn_built dss ds -> len vs < max_int64 ->
    call inst binst ds vs b =
    match first_index (decl_matches vs b) dss with Some i => RBody i | None => RArgError end.
  Proof.
    intros dss ds vs b Hf Hlv. unfold call.
    rewrite (call_from_first (decl_matches vs b) vs b dss ds (fn_built_rel dss ds vs b Hf Hlv) 0%nat).
    reflexivity.
  Qed.

  Theorem first_match : forall dss ds vs b i,
    fn_built dss ds -> len vs < max_int64 ->
    (call inst binst ds vs b = RBody i <->
     exists ops, nth_error dss i = Some ops /\ decl_matches vs b ops = true /\
                 forall j opsj, (j < i)%nat -> nth_error dss j = Some opsj -> decl_matches vs b opsj = false).
  Proof.
    intros dss ds vs b i Hf Hlv. rewrite (call_is_first_match dss ds vs b Hf Hlv).
    rewrite <- first_index_some. destruct (first_index (decl_matches vs b) dss); split; intros H; congruence.
  Qed.

  Theorem no_body_outside_decl : forall dss ds vs b i,
    fn_built dss ds -> len vs < max_int64 -> call inst binst ds vs b = RBody i ->
    exists ops, nth_error dss i = Some ops /\ decl_matches vs b ops = true.
  Proof.
    intros dss ds vs b i Hf Hlv H. apply (proj1 (first_match dss ds vs b i Hf Hlv)) in H.
    destruct H as (ops & H1 & H2 & _). eauto.
  Qed.

  Theorem no_match_is_arg_error : forall dss ds vs b,
    fn_built dss ds -> len vs < max_int64 ->
    (call inst binst ds vs b = RArgError <-> forall ops, In ops dss -> decl_matches vs b ops = false).
  Proof.
    intros dss ds vs b Hf Hlv. rewrite (call_is_first_match dss ds vs b Hf Hlv).
    rewrite <- first_index_none. destruct (first_index (decl_matches vs b) dss); split; intros H; congruence.
  Qed.

  Theorem call_body_or_arg_error : forall dss ds vs b,
    fn_built dss ds -> len vs < max_int64 ->
    (exists i, call inst binst ds vs b = RBody i) \/ call inst binst ds vs b = RArgError.
  Proof.
    intros dss ds vs b Hf Hlv. rewrite (call_is_first_match dss ds vs b Hf Hlv).
    destruct (first_index (decl_matches vs b) dss); eauto.
  Qed.

  (* ---- looking at a built function ------------------------------------------------------------------------ *)
  (* the table is what createDispatch makes of the builders (true of a function that has just been resolved) *)
  Definition fn_coherent (st : fstate ty bty) : Prop := create_all (f_builders st) 0 = inr (f_table st).

  Lemma access_pure : forall (st : fstate ty bty) a, fn_coherent st -> fst (access st a) = st.
  Proof.
    intros [bs tb] a Hc. unfold fn_coherent in Hc. cbn [f_builders f_table] in Hc.
    destruct a as [ |i|i|i|i|i|i|i| ]; cbn [access]; unfold with_disp; cbn [f_table f_builders];
      try (destruct (nth_error tb i); reflexivity); try reflexivity.
    rewrite Hc. reflexivity.
  Qed.

  Lemma run_accessors_pure : forall accs (st : fstate ty bty), fn_coherent st -> fst (run_accessors st accs) = st.
  Proof.
    induction accs as [|a r IH]; intros st Hc; cbn [run_accessors]; [reflexivity|].
    pose proof (access_pure st a Hc) as Ha. destruct (access st a) as [st1 o]. cbn [fst] in Ha. subst st1.
    pose proof (IH st Hc) as Hr. destruct (run_accessors st r) as [st2 os]. exact Hr.
  Qed.

  (* asking again gives the same answers: the answers of a sequence of accessors are those of its parts, each asked of
     the function as it was resolved *)
  Lemma run_accessors_app : forall a1 a2 (st : fstate ty bty), fn_coherent st ->
    snd (run_accessors st (a1 ++ a2)) = snd (run_accessors st a1) ++ snd (run_accessors st a2).
  Proof.
    induction a1 as [|a r IH]; intros a2 st Hc; cbn [app run_accessors]; [reflexivity|].
    pose proof (access_pure st a Hc) as Ha. destruct (access st a) as [st1 o]. cbn [fst] in Ha. subst st1.
    pose proof (IH a2 st Hc) as Hr.
    destruct (run_accessors st (r ++ a2)) as [s2 os2]. destruct (run_accessors st r) as [s1 os1].
    cbn [snd] in *. rewrite Hr. reflexivity.
  Qed.

  Lemma resolved_state_coherent : forall ss (st : fstate ty bty),
    resolved_state ss = Some st -> fn_coherent st /\ f_builders st = ss.
  Proof.
    intros ss st H. unfold resolved_state in H. destruct (create_all ss 0) as [e|ds] eqn:Hc; [discriminate|].
    inversion H; subst st. unfold fn_coherent. cbn [f_builders f_table]. auto.
  Qed.

  (* whatever was looked at, every call does what it did before *)
  Theorem introspection_pure : forall (st : fstate ty bty) accs vs b, fn_coherent st ->
    call inst binst (f_table (fst (run_accessors st accs))) vs b = call inst binst (f_table st) vs b.
  Proof. intros st accs vs b Hc. now rewrite run_accessors_pure. Qed.

  Lemma fn_built_coherent : forall dss ss ds, run_all dss 0 = inr ss -> fn_built dss ds -> fn_coherent (mkF ss ds).
  Proof.
    intros dss ss ds Hr (Hb & _). unfold build_function in Hb. rewrite Hr in Hb. exact Hb.
  Qed.

  (* ... which is first-match dispatch by the declarations *)
  Theorem dispatch_after_introspection : forall dss ss ds accs vs b,
    run_all dss 0 = inr ss -> fn_built dss ds -> len vs < max_int64 ->
    call inst binst (f_table (fst (run_accessors (mkF ss ds) accs))) vs b =
    match first_index (decl_matches vs b) dss with Some i => RBody i | None => RArgError end.
  Proof.
    intros dss ss ds accs vs b Hr Hf Hlv.
    rewrite (introspection_pure (mkF ss ds) accs vs b (fn_built_coherent dss ss ds Hr Hf)). cbn [f_table].
    exact (call_is_first_match dss ds vs b Hf Hlv).
  Qed.

  (* Resolve once more never fails on a resolved function *)
  Lemma resolve_again_ok : forall (st : fstate ty bty), fn_coherent st -> access st AResolve = (st, OResolved true).
  Proof.
    intros [bs tb] Hc. unfold fn_coherent in Hc. cbn [f_builders f_table] in Hc. cbn [access f_builders]. rewrite Hc. reflexivity.
  Qed.

  (* what Parameters() tells about a dispatch is its declaration: one parameter per declared one, with the declared
     type, and captures-rest exactly on a repeated one *)
  Definition is_rep (p : paramT) : bool := match p with Rep _ | ReqRep _ => true | _ => false end.
  Definition describe (d : list paramT) : list (ty * bool) := map (fun p => (param_ty p, is_rep p)) d.

  Lemma closed_nonempty : forall d : list paramT, closed d = true -> (1 <= length d)%nat.
  Proof. destruct d; cbn [closed length]; [discriminate|lia]. Qed.

  Lemma params_from_describe : forall (d : list paramT) p i, wf_from p d = true ->
    params_from (tys d) i (if closed d then Some (i + length d - 1)%nat else None) = describe d.
  Proof.
    induction d as [|a d IH]; intros p i Hwf; [reflexivity|].
    destruct a as [t|t|t|t]; cbn [tys map param_ty params_from closed describe is_rep length wf_from] in *.
    - destruct p; [|discriminate]. fold (tys d). fold (describe d). destruct (closed d) eqn:Hc.
      + pose proof (closed_nonempty d Hc) as Hn. pose proof (IH _ (S i) Hwf) as H.
        replace (i + S (length d) - 1)%nat with (S i + length d - 1)%nat by lia. rewrite H.
        destruct (Nat.eqb_spec i (S i + length d - 1)); [lia|reflexivity].
      + pose proof (IH _ (S i) Hwf) as H. rewrite H. reflexivity.
    - assert (Hwf' : wf_from 1 d = true) by (destruct p as [|[|p]]; [exact Hwf|exact Hwf|discriminate]).
      fold (tys d). fold (describe d). destruct (closed d) eqn:Hc.
      + pose proof (closed_nonempty d Hc) as Hn. pose proof (IH _ (S i) Hwf') as H.
        replace (i + S (length d) - 1)%nat with (S i + length d - 1)%nat by lia. rewrite H.
        destruct (Nat.eqb_spec i (S i + length d - 1)); [lia|reflexivity].
      + pose proof (IH _ (S i) Hwf') as H. rewrite H. reflexivity.
    - assert (Hwf' : wf_from 2 d = true) by (destruct p as [|[|p]]; [exact Hwf|exact Hwf|discriminate]).
      rewrite (wf_phase2 d 0%nat Hwf'). cbn [map params_from length].
      replace (i + 1 - 1)%nat with i by lia. rewrite Nat.eqb_refl. reflexivity.
    - assert (Hwf' : wf_from 2 d = true) by (destruct p as [|p]; [exact Hwf|discriminate]).
      rewrite (wf_phase2 d 0%nat Hwf'). cbn [map params_from length].
      replace (i + 1 - 1)%nat with i by lia. rewrite Nat.eqb_refl. reflexivity.
  Qed.

  Theorem parameters_describe_declaration : forall ops (d : dispT),
    build ops = Ok d -> len ops < max_int64 -> parameters_of_sig (d_sig d) = describe (params_of ops).
  Proof.
    intros ops d H Hl. destruct (build_spec ops d H) as (s & Hrun & Hcr).
    destruct (run_ops_params ops b_init s Hrun) as (Hwf & Hty & _ & Hmax & _); cbn [b_min b_max b_init]; try lia.
    cbn [b_types b_max b_init app] in Hty, Hmax.
    assert (Hsig : s_types (d_sig d) = tys (params_of ops) /\
                   s_max (d_sig d) = if closed (params_of ops) then max_int64 else 0 + len (params_of ops)).
    { unfold create in Hcr. destruct (b_max s <? b_min s); [discriminate|].
      destruct (b_fn2 s); inversion Hcr; subst d; cbn [d_sig s_types s_max]; auto. }
    destruct Hsig as [Hs1 Hs2]. unfold parameters_of_sig. rewrite Hs1, Hs2.
    assert (Hlen : length (tys (params_of ops)) = length (params_of ops)) by apply map_length. rewrite Hlen.
    pose proof (length_params_of ops) as Hlp.
    pose proof (params_from_describe (params_of ops) _ 0%nat Hwf) as Hd. cbn [Nat.add] in Hd.
    destruct (closed (params_of ops)).
    - destruct (Z.ltb_spec (len (params_of ops)) max_int64) as [_|Hge]; [exact Hd|lia].
    - rewrite Z.add_0_l, Z.ltb_irrefl. exact Hd.
  Qed.

  (* ---- new ------------------------------------------------------------------------------------------ *)
  Variable tname : ty -> str.
  Variable init_parts : ty -> option (option ty * list val).
  Variable creatable : ty -> option (ctor ty val bty).
  Variable loader_ctor : str -> option (ctor ty val bty).
  Variable load_type : str -> option ty.
  Variable as_array : val -> option (list val).

  Local Notation newi := (new_instance inst binst tname init_parts creatable loader_ctor load_type as_array).
  Local Notation newt := (new_typed inst binst tname init_parts creatable loader_ctor as_array).

  (* the type the created instance has to belong to: the receiver, for Init[T,...] the type T *)
  Definition created_type (t : ty) : ty :=
    match init_parts t with Some (Some t', _) => t' | _ => t end.

  Definition target (r : recv ty) : option ty :=
    match r with
    | RcvType t => Some (created_type t)
    | RcvName n => option_map created_type (load_type n)
    | RcvOther => None
    end.

  Lemma assert_inst_val : forall t o v, assert_inst inst t o = OVal v -> inst t v = true.
  Proof.
    intros t o v H. unfold assert_inst in H. destruct o as [r|e| |]; try discriminate.
    destruct (inst t r) eqn:Hi; [|discriminate]. inversion H; subst; exact Hi.
  Qed.

  Lemma new_typed_in_type : forall name t args v,
    newt name (Some t) args = OVal v -> inst (created_type t) v = true.
  Proof.
    intros name t args v H. unfold new_typed, created_type in *. cbn [bind] in H.
    destruct (init_parts t) as [[[t'|] ia]|].
    - unfold init_new in H. destruct (loader_ctor (tname t')); [|discriminate].
      eapply assert_inst_val; eauto.
    - discriminate.
    - destruct (match creatable t with Some c => Some c | None => loader_ctor name end); [|discriminate].
      eapply assert_inst_val; eauto.
  Qed.

  (* new_in_type: whatever `new` yields is an instance of the type it was asked to create *)
  Theorem new_in_type : forall r args v t,
    newi r args = OVal v -> target r = Some t -> inst t v = true.
  Proof.
    intros r args v t H Ht. destruct r as [t0|n|]; cbn [new_instance target] in *.
    - inversion Ht; subst. eapply new_typed_in_type; eauto.
    - destruct (load_type n) as [t0|]; [|discriminate]. cbn in Ht. inversion Ht; subst.
      eapply new_typed_in_type; eauto.
    - discriminate.
  Qed.

  (* a receiver that is neither a type nor a string gets the reported error *)
  Theorem new_other_receiver : forall args, newi RcvOther args = OErr ENoRespond.
  Proof. reflexivity. Qed.

  (* a value only comes out for a type or the name of something that has a constructor *)
  Theorem new_value_has_target : forall r args v,
    newi r args = OVal v -> target r <> None \/ exists n, r = RcvName n /\ load_type n = None /\ loader_ctor n <> None.
  Proof.
    intros r args v H. destruct r as [t0|n|]; cbn [new_instance target] in *.
    - left; discriminate.
    - destruct (load_type n) as [t0|] eqn:Hl; [left; discriminate|]. right. exists n. repeat split; auto.
      unfold new_typed in H. cbn [bind] in H. destruct (loader_ctor n); [discriminate|discriminate].
    - discriminate.
  Qed.

  (* ---- no runtime fault escapes from new when the constructors are built functions whose bodies do
          not fault ---------------------------------------------------------------------------------- *)
  Definition no_fault (o : outcome val) : Prop := o <> OFault /\ o <> OPanic.

  (* a constructor as the types package registers it: a built function; body i does not fault on the
     argument lists its own declaration admits *)
  Definition ctor_ok (c : ctor ty val bty) : Prop :=
    exists dss, fn_built dss (fst c) /\
      forall i args ops, nth_error dss i = Some ops -> decl_matches args None ops = true -> no_fault (snd c i args).

  Lemma ctor_call_no_fault : forall c args, ctor_ok c -> len args < max_int64 ->
    no_fault (ctor_call inst binst c args).
  Proof.
    intros c args (dss & Hb & Hbody) Hl. unfold ctor_call.
    destruct (call_body_or_arg_error dss (fst c) args None Hb Hl) as [[i Hi]|Ha].
    - rewrite Hi. destruct (no_body_outside_decl dss (fst c) args None i Hb Hl Hi) as (ops & Hn & Hm).
      eapply Hbody; eauto.
    - rewrite Ha. split; discriminate.
  Qed.

  Lemma any_callable_some : forall (dss : list (list bopT)) (ds : list dispT) args,
    Forall2 (fun ops d => cw (d_sig d) args None = Some (decl_matches args None ops) /\ d_hasfn d = true) dss ds ->
    any_callable inst binst ds args = Some (existsb (decl_matches args None) dss).
  Proof.
    intros dss ds args H. induction H as [|ops d dss ds [Hc _] _ IH]; [reflexivity|].
    cbn [any_callable existsb]. rewrite Hc. destruct (decl_matches args None ops); [reflexivity|exact IH].
  Qed.

  Lemma assert_inst_no_fault : forall t o, no_fault o -> no_fault (assert_inst inst t o).
  Proof.
    intros t o [H1 H2]. unfold assert_inst. destruct o; try (split; congruence).
    destruct (inst t v); split; discriminate.
  Qed.

  Lemma init_create_no_fault : forall c ia args,
    ctor_ok c -> len (args ++ ia) < max_int64 ->
    (forall a vs, as_array a = Some vs -> len vs < max_int64) ->
    no_fault (init_create inst binst as_array c ia args).
  Proof.
    intros c ia args Hc Hl Harr. unfold init_create.
    assert (Hla : len args < max_int64) by (rewrite app_length in Hl; lia).
    destruct ia as [|x ia].
    - destruct Hc as (dss & Hb & Hbody).
      rewrite (any_callable_some dss (fst c) args (fn_built_rel dss (fst c) args None Hb Hla)).
      assert (Hc : ctor_ok c) by (exists dss; auto).
      destruct (existsb (decl_matches args None) dss); [apply ctor_call_no_fault; auto|].
      destruct args as [|a [|a' args]]; try (apply ctor_call_no_fault; auto).
      destruct (as_array a) as [vs|] eqn:Ha; apply ctor_call_no_fault; eauto.
    - apply ctor_call_no_fault; auto.
  Qed.

  Theorem new_no_fault : forall r args,
    (forall t c, creatable t = Some c -> ctor_ok c) ->
    (forall n c, loader_ctor n = Some c -> ctor_ok c) ->
    (forall t t' ia, init_parts t = Some (t', ia) -> len (args ++ ia) < max_int64) ->
    (forall a vs, as_array a = Some vs -> len vs < max_int64) ->
    len args < max_int64 ->
    no_fault (newi r args).
  Proof.
    intros r args Hcr Hld Hia Harr Hl.
    assert (Hnt : forall name typ, no_fault (newt name typ args)).
    { intros name typ. unfold new_typed.
      destruct (bind typ init_parts) as [[t' ia]|] eqn:Hb.
      - unfold init_new. destruct t' as [t'|]; [|split; discriminate].
        destruct (loader_ctor (tname t')) as [c|] eqn:Hc; [|split; discriminate].
        apply assert_inst_no_fault. apply init_create_no_fault; eauto.
        destruct typ as [t|]; [|discriminate]. cbn [bind] in Hb. eauto.
      - destruct (match bind typ creatable with Some c => Some c | None => loader_ctor name end) as [c|] eqn:Hc;
          [|split; discriminate].
        assert (Hok : ctor_ok c).
        { destruct (bind typ creatable) as [c'|] eqn:Hc'.
          - inversion Hc; subst. destruct typ as [t|]; [|discriminate]. cbn [bind] in Hc'. eauto.
          - eauto. }
        destruct typ; [apply assert_inst_no_fault|]; apply ctor_call_no_fault; auto. }
    destruct r; cbn [new_instance]; auto. split; discriminate.
  Qed.
End DispatchProofs.

Arguments tys {ty} d.
Arguments nreq {ty} d.
Arguments closed {ty} d.
Arguments maxar {ty} d.
Arguments arity_ok {ty val} d vs.
Arguments slots {ty val} inst ts vs.
Arguments decl_matches {ty val bty blk} inst binst vs b ops.
Arguments fn_built {ty bty} dss ds.
Arguments fn_coherent {ty bty} st.
Arguments is_rep {ty} p.
Arguments describe {ty} d.
Arguments created_type {ty val} init_parts t.
Arguments target {ty val} init_parts load_type r.
Arguments no_fault {val} o.
Arguments ctor_ok {ty val bty blk} inst binst c.

(* ================================================================================================
   The Boolean constructor, modelled end to end (Model/Dispatch.v, booleantype.go:36-62)
   ================================================================================================ *)
Definition boolean_ds : list (dispatch pty N) := [mkD (mkSig 1 1 [boolean_param] None) true].

Lemma boolean_built : build_function boolean_ops = inr boolean_ds.
Proof. vm_compute. reflexivity. Qed.

Lemma boolean_ctor_eq : boolean_ctor = Some (boolean_ds, boolean_body).
Proof. unfold boolean_ctor. rewrite boolean_built. reflexivity. Qed.

Lemma boolean_body_bool : forall i v r, exists b, boolean_body i (v :: r) = OVal (VBool b).
Proof. intros i v r. destruct v; cbn [boolean_body]; eauto. Qed.

Lemma boolean_ctor_ok : ctor_ok pinst no_block (boolean_ds, boolean_body).
Proof.
  exists boolean_ops. split.
  - split; [exact boolean_built|]. split; repeat constructor.
  - intros i args ops Hn Hm. cbn [snd].
    destruct i as [|[|i]]; cbn in Hn; try discriminate. inversion Hn; subst ops.
    destruct args as [|v r]; [vm_compute in Hm; discriminate|].
    destruct (boolean_body_bool 0%nat v r) as [b Hb]. rewrite Hb. split; discriminate.
Qed.

Lemma boolean_call_none : call pinst no_block boolean_ds [] None = RArgError.
Proof. vm_compute. reflexivity. Qed.

Lemma boolean_call_one v :
  call pinst no_block boolean_ds [v] None = if pinst boolean_param v then RBody 0 else RArgError.
Proof.
  unfold call, boolean_ds. cbn [call_from d_sig d_hasfn callable_with s_block].
  unfold tuple_inst3. cbn [s_min s_max s_types length tuple_loop nth_error].
  change (negb ((1 <=? Z.of_nat 1) && (Z.of_nat 1 <=? 1))) with false. cbn iota.
  destruct (pinst boolean_param v); reflexivity.
Qed.

Lemma boolean_call_many v v' r : call pinst no_block boolean_ds (v :: v' :: r) None = RArgError.
Proof.
  unfold call, boolean_ds. cbn [call_from d_sig callable_with s_block].
  unfold tuple_inst3. cbn [s_min s_max s_types].
  assert (H : (Z.of_nat (length (v :: v' :: r)) <=? 1) = false) by (apply Z.leb_gt; cbn [length]; lia).
  rewrite H, andb_false_r. reflexivity.
Qed.

(* Boolean.new(args...) yields a Boolean or the reported argument error — for every argument list *)
Theorem boolean_new_total : forall args,
  (exists b, pnew_modelled PBoolean args = OVal (VBool b)) \/ pnew_modelled PBoolean args = OErr EArg.
Proof.
  intros args.
  assert (Hl : modelled_loader (pname PBoolean) = Some (boolean_ds, boolean_body)).
  { unfold modelled_loader. replace (str_eqb (pname PBoolean) boolean_name) with true by reflexivity.
    apply boolean_ctor_eq. }
  unfold pnew_modelled, new_instance, new_typed. cbn [bind]. rewrite Hl. unfold ctor_call. cbn [fst snd].
  destruct args as [|v [|v' r]].
  - right. rewrite boolean_call_none. reflexivity.
  - rewrite boolean_call_one. destruct (pinst boolean_param v).
    + left. destruct (boolean_body_bool 0%nat v []) as [b Hb]. exists b. rewrite Hb. reflexivity.
    + right. reflexivity.
  - right. rewrite boolean_call_many. reflexivity.
Qed.

(* ================================================================================================
   functionBuilder.Resolve in a context: the loader that holds a function's local types is gone when
   Resolve is over - however it ends -, so what a function resolves to does not depend on the functions
   resolved (or failed to resolve) before it in the same context.
   ================================================================================================ *)
Lemma do_with_loader_restores : forall (A : Type) (c : pctx) (l : lchain) (doer : pctx -> pctx * res A),
  fst (do_with_loader c l doer) = c.
Proof.
  intros A [ch] l doer. unfold do_with_loader. cbn [c_loader].
  destruct (doer (mkCtx l)) as [c' [a|p]]; reflexivity.
Qed.

(* also when doer panics: the panic goes on to the caller, the loader is the one from before *)
Lemma do_with_loader_panic_restores : forall (A : Type) (c : pctx) (l : lchain) (doer : pctx -> pctx * res A) c' p,
  do_with_loader c l doer = (c', Panic p) -> c' = c.
Proof.
  intros A c l doer c' p H. pose proof (do_with_loader_restores A c l doer) as R. rewrite H in R. exact R.
Qed.

Lemma resolve_fn_restores : forall (c : pctx) (f : fndecl), fst (resolve_fn c f) = c.
Proof.
  intros c [decls dss]. unfold resolve_fn.
  destruct (run_all dss 0) as [e|ss]; [reflexivity|].
  destruct decls as [|d decls]; [reflexivity|].
  match goal with
  | |- fst (let '(c', r) := do_with_loader ?a ?l ?dr in _) = _ =>
      pose proof (do_with_loader_restores _ a l dr) as R;
      destruct (do_with_loader a l dr) as [c' r]
  end.
  cbn [fst] in *. exact R.
Qed.

(* a Resolve that raises (builder panic or reported error) leaves the context as it was *)
Lemma resolve_fn_failure_restores : forall (c c' : pctx) (f : fndecl) e,
  resolve_fn c f = (c', inl e) -> c' = c.
Proof. intros c c' f e H. pose proof (resolve_fn_restores c f) as R. rewrite H in R. exact R. Qed.

Theorem history_independent : forall (h : list fndecl) (c : pctx),
  run_history c h = (c, map (fun f => snd (resolve_fn c f)) h).
Proof.
  induction h as [|f h IH]; intros c; cbn [run_history map]; [reflexivity|].
  pose proof (resolve_fn_restores c f) as R.
  destruct (resolve_fn c f) as [c1 o] eqn:E. cbn [fst snd] in *. subst c1.
  rewrite IH. reflexivity.
Qed.

(* the k-th function of a history resolves to what it resolves to alone in the initial context *)
Theorem history_nth : forall (h : list fndecl) (c : pctx) (k : nat) (f : fndecl),
  nth_error h k = Some f -> nth_error (snd (run_history c h)) k = Some (snd (resolve_fn c f)).
Proof.
  intros h c k f H. rewrite history_independent. cbn [snd].
  exact (map_nth_error (fun f0 => snd (resolve_fn c f0)) k h H).
Qed.

(* in a context without local scopes a function's type references are looked up in its own local types *)
Lemma chain_lookup_single : forall (own : scope) (n : str), chain_lookup [own] n = alias_lookup own n.
Proof. intros own n. reflexivity. Qed.

Lemma chain_lookup_nil : forall n, chain_lookup [] n = None.
Proof. reflexivity. Qed.

(* ================================================================================================
   Local types of a function: every declared name is visible in every local definition and in every
   parameter type, wherever it is declared; the order of the declarations is irrelevant.
   ================================================================================================ *)
From Coq Require Import Permutation.

Lemma do_with_loader_snd : forall (A : Type) (c : pctx) (l : lchain) (doer : pctx -> pctx * res A),
  snd (do_with_loader c l doer) = snd (doer (mkCtx l)).
Proof. intros A c l doer. unfold do_with_loader. destruct (doer (mkCtx l)) as [c' [a|p]]; reflexivity. Qed.

Lemma existsb_str_in : forall (n : str) (names : list str), existsb (str_eqb n) names = true <-> In n names.
Proof.
  intros n names. rewrite existsb_exists. split.
  - intros (x & Hin & He). apply str_eqb_eq in He. subst x. exact Hin.
  - intros Hin. exists n. split; [exact Hin|apply str_eqb_refl].
Qed.

(* a declared local name resolves to its alias object whatever its position in the list of declarations *)
Lemma local_ref_declared : forall (parents : lchain) (names : list str) (n : str),
  In n names -> local_ref parents names n = Some (PAliasT n).
Proof.
  intros parents names n Hin. unfold local_ref.
  destruct (chain_lookup parents n); [reflexivity|].
  apply existsb_str_in in Hin. rewrite Hin. reflexivity.
Qed.

Lemma local_ref_unknown : forall (names : list str) (n : str), ~ In n names -> local_ref [] names n = None.
Proof.
  intros names n Hn. unfold local_ref. cbn [chain_lookup].
  destruct (existsb (str_eqb n) names) eqn:E; [|reflexivity].
  apply existsb_str_in in E. contradiction.
Qed.

Lemma alias_lookup_in : forall (env : scope) (n : str) (t : pty),
  NoDup (map fst env) -> In (n, t) env -> alias_lookup env n = Some t.
Proof.
  induction env as [|[m u] r IH]; intros n t Hnd Hin; [destruct Hin|].
  cbn [alias_lookup]. cbn [map fst] in Hnd. inversion Hnd as [|x l Hnotin Hnd']; subst x l.
  destruct Hin as [He|Hin].
  - inversion He; subst m u. rewrite str_eqb_refl. reflexivity.
  - destruct (str_eqb m n) eqn:E.
    + apply str_eqb_eq in E. subst m. exfalso. apply Hnotin.
      change n with (fst (n, t)). apply in_map. exact Hin.
    + apply IH; assumption.
Qed.

Lemma alias_lookup_some_in : forall (env : scope) (n : str) (t : pty), alias_lookup env n = Some t -> In (n, t) env.
Proof.
  induction env as [|[m u] r IH]; intros n t H; [discriminate H|].
  cbn [alias_lookup] in H. destruct (str_eqb m n) eqn:E.
  - apply str_eqb_eq in E. subst m. inversion H; subst u. left. reflexivity.
  - right. apply IH. exact H.
Qed.

Lemma alias_lookup_none : forall (env : scope) (n : str), alias_lookup env n = None -> ~ In n (map fst env).
Proof.
  induction env as [|[m u] r IH]; intros n H Hin; [destruct Hin|].
  cbn [alias_lookup] in H. destruct (str_eqb m n) eqn:E; [discriminate H|].
  cbn [map fst] in Hin. destruct Hin as [He|Hin].
  - subst m. rewrite str_eqb_refl in E. discriminate E.
  - exact (IH n H Hin).
Qed.

Lemma bind_locals_names : forall parents decls, map fst (fst (bind_locals parents decls)) = map fst decls.
Proof. intros parents decls. unfold bind_locals. cbn [fst]. rewrite map_map. reflexivity. Qed.

(* the local loader holds, under every declared name, the declared expression with EVERY local name resolved *)
Lemma bind_locals_entry : forall parents decls n t,
  NoDup (map fst decls) -> In (n, t) decls ->
  alias_lookup (fst (bind_locals parents decls)) n = Some (subst_with (local_ref parents (map fst decls)) t).
Proof.
  intros parents decls n t Hnd Hin. apply alias_lookup_in.
  - rewrite bind_locals_names. exact Hnd.
  - unfold bind_locals. cbn [fst].
    change (n, subst_with (local_ref parents (map fst decls)) t)
      with ((fun d : str * pty => (fst d, subst_with (local_ref parents (map fst decls)) (snd d))) (n, t)).
    apply in_map. exact Hin.
Qed.

(* ---- extensionality in the lookup ------------------------------------------------------------------------ *)
Lemma subst_with_ext : forall (look look' : str -> option pty), (forall n, look n = look' n) ->
  forall t, subst_with look t = subst_with look' t.
Proof.
  intros look look' H. fix IH 1. intros t. destruct t; cbn [subst_with]; try reflexivity.
  - f_equal. apply IH.
  - f_equal. revert ts. fix IHts 1. intros ts. destruct ts as [|a r]; [reflexivity|].
    f_equal; [apply IH|apply IHts].
  - f_equal. apply IH.
  - rewrite H. reflexivity.
Qed.

Lemma subst_op_with_ext : forall (look look' : str -> option pty), (forall n, look n = look' n) ->
  forall o : bop pty N, subst_op_with look o = subst_op_with look' o.
Proof.
  intros look look' H o. destruct o; cbn [subst_op_with]; try reflexivity; f_equal; apply subst_with_ext; exact H.
Qed.

Lemma resolve_dispatches_ext : forall (look look' : str -> option pty), (forall n, look n = look' n) ->
  forall dss, resolve_dispatches look dss = resolve_dispatches look' dss.
Proof.
  intros look look' H dss. unfold resolve_dispatches.
  replace (map (map (subst_op_with look')) dss) with (map (map (subst_op_with (bty:=N) look)) dss); [reflexivity|].
  apply map_ext. intros ops. apply map_ext. intros o. apply subst_op_with_ext. exact H.
Qed.

Lemma any_opt_ext : forall (A : Type) (f g : A -> option bool) (l : list A), (forall a, f a = g a) -> any_opt f l = any_opt g l.
Proof. intros A f g l H. induction l as [|a r IH]; cbn [any_opt]; [reflexivity|]. rewrite H, IH. reflexivity. Qed.

Lemma all_opt_ext : forall (A : Type) (f g : A -> option bool) (l : list A), (forall a, f a = g a) -> all_opt f l = all_opt g l.
Proof. intros A f g l H. induction l as [|a r IH]; cbn [all_opt]; [reflexivity|]. rewrite H, IH. reflexivity. Qed.

Lemma pinst_in_ext : forall (look look' : str -> option pty), (forall n, look n = look' n) ->
  forall fuel seen t v, pinst_in look fuel seen t v = pinst_in look' fuel seen t v.
Proof.
  intros look look' H. induction fuel as [|f IH]; intros seen t v; [reflexivity|].
  cbn [pinst_in]. destruct t; try reflexivity.
  - destruct v; try reflexivity; apply IH.
  - apply any_opt_ext. intros t'. apply IH.
  - destruct v; try reflexivity. destruct (in_range lo hi (Z.of_nat (length vs))); [|reflexivity].
    apply all_opt_ext. intros x. apply IH.
  - rewrite H. destruct (existsb (str_eqb name) seen); [reflexivity|].
    destruct (look' name); [apply IH|reflexivity].
Qed.

(* ---- the order of the local type declarations is irrelevant ----------------------------------------------- *)
Lemma local_ref_perm : forall parents (names names' : list str), Permutation names names' ->
  forall n, local_ref parents names n = local_ref parents names' n.
Proof.
  intros parents names names' P n. unfold local_ref. destruct (chain_lookup parents n); [reflexivity|].
  destruct (existsb (str_eqb n) names) eqn:E; destruct (existsb (str_eqb n) names') eqn:E'; try reflexivity; exfalso.
  - apply existsb_str_in in E. apply (Permutation_in _ P) in E. apply existsb_str_in in E. congruence.
  - apply existsb_str_in in E'. apply (Permutation_in _ (Permutation_sym P)) in E'. apply existsb_str_in in E'. congruence.
Qed.

Lemma forallb_perm : forall (A : Type) (f : A -> bool) (l l' : list A), Permutation l l' -> forallb f l = forallb f l'.
Proof.
  intros A f l l' P. induction P as [|x l l' P IH|x y l|l l' l'' P1 IH1 P2 IH2]; cbn [forallb].
  - reflexivity.
  - rewrite IH. reflexivity.
  - destruct (f x), (f y); reflexivity.
  - congruence.
Qed.

Lemma bind_locals_perm : forall parents decls decls', Permutation decls decls' ->
  Permutation (fst (bind_locals parents decls)) (fst (bind_locals parents decls')) /\
  snd (bind_locals parents decls) = snd (bind_locals parents decls').
Proof.
  intros parents decls decls' P.
  assert (Pn : Permutation (map fst decls) (map fst decls')) by (apply Permutation_map; exact P).
  assert (E : map (fun d : str * pty => (fst d, subst_with (local_ref parents (map fst decls')) (snd d))) decls'
            = map (fun d : str * pty => (fst d, subst_with (local_ref parents (map fst decls)) (snd d))) decls').
  { apply map_ext. intros d. f_equal. apply subst_with_ext. intros n. symmetry. apply local_ref_perm. exact Pn. }
  unfold bind_locals. cbn [fst snd]. rewrite E. split.
  - apply Permutation_map. exact P.
  - apply forallb_perm. apply Permutation_map. exact P.
Qed.

Lemma alias_lookup_perm : forall (env env' : scope), Permutation env env' -> NoDup (map fst env) ->
  forall n, alias_lookup env n = alias_lookup env' n.
Proof.
  intros env env' P Hnd n.
  assert (Hnd' : NoDup (map fst env')).
  { apply (Permutation_NoDup (l:=map fst env)); [apply Permutation_map; exact P|exact Hnd]. }
  destruct (alias_lookup env n) as [t|] eqn:E.
  - apply alias_lookup_some_in in E. apply (Permutation_in _ P) in E. symmetry. apply alias_lookup_in; assumption.
  - apply alias_lookup_none in E. destruct (alias_lookup env' n) as [t|] eqn:E'; [|reflexivity].
    exfalso. apply E. apply alias_lookup_some_in in E'. apply (Permutation_in _ (Permutation_sym P)) in E'.
    change n with (fst (n, t)). apply in_map. exact E'.
Qed.

Lemma perm_nil_iff : forall (A : Type) (l l' : list A), Permutation l l' -> (l = [] <-> l' = []).
Proof.
  intros A l l' P. split; intros H; subst.
  - apply Permutation_nil. exact P.
  - apply Permutation_nil. apply Permutation_sym. exact P.
Qed.

Lemma resolve_fn_snd_locals : forall c d r dss,
  snd (resolve_fn c (d :: r, dss)) =
  match run_all dss 0 with
  | inl e => inl e
  | inr _ => match snd (resolve_locals (c_loader c) (d :: r) dss) with Ok ds => inr ds | Panic p => inl (0%nat, p) end
  end.
Proof.
  intros c d r dss. unfold resolve_fn. destruct (run_all dss 0) as [e|ss]; [reflexivity|].
  rewrite <- (do_with_loader_snd _ c ([] :: c_loader c) (fun _ => resolve_locals (c_loader c) (d :: r) dss)).
  destruct (do_with_loader c ([] :: c_loader c) (fun _ => resolve_locals (c_loader c) (d :: r) dss)) as [c1 r1].
  reflexivity.
Qed.

(* Two functions that differ only in the ORDER of their local type declarations resolve to the same dispatches,
   and their types have the same instances. *)
Theorem local_types_order_irrelevant : forall (c : pctx) (decls decls' : list (str * pty)) (dss : list (list (bop pty N))),
  Permutation decls decls' -> NoDup (map fst decls) ->
  snd (resolve_fn c (decls, dss)) = snd (resolve_fn c (decls', dss)) /\
  (forall fuel seen t v, pinst_in (fn_look c (decls, dss)) fuel seen t v = pinst_in (fn_look c (decls', dss)) fuel seen t v).
Proof.
  intros c decls decls' dss P Hnd.
  destruct (bind_locals_perm (c_loader c) decls decls' P) as [Pown Eok].
  assert (Pn : Permutation (map fst decls) (map fst decls')) by (apply Permutation_map; exact P).
  split.
  - destruct decls as [|d r]; [apply Permutation_nil in P; subst decls'; reflexivity|].
    destruct decls' as [|d' r']; [apply Permutation_sym, Permutation_nil in P; discriminate P|].
    rewrite !resolve_fn_snd_locals. destruct (run_all dss 0) as [e|ss]; [reflexivity|].
    assert (E : snd (resolve_locals (c_loader c) (d :: r) dss) = snd (resolve_locals (c_loader c) (d' :: r') dss)).
    { unfold resolve_locals.
      destruct (bind_locals (c_loader c) (d :: r)) as [own ok].
      destruct (bind_locals (c_loader c) (d' :: r')) as [own' ok']. cbn [snd] in Eok. subst ok'.
      destruct ok; cbn [snd]; [|reflexivity].
      apply resolve_dispatches_ext. intros n. apply local_ref_perm. exact Pn. }
    rewrite E. reflexivity.
  - intros fuel seen t v. apply pinst_in_ext. intros n. unfold fn_look. cbn [fst].
    destruct decls as [|d r]; [apply Permutation_nil in P; subst decls'; reflexivity|].
    destruct decls' as [|d' r']; [apply Permutation_sym, Permutation_nil in P; discriminate P|].
    cbn [chain_lookup]. destruct (chain_lookup (c_loader c) n); [reflexivity|].
    apply alias_lookup_perm; [exact Pown|]. rewrite bind_locals_names. exact Hnd.
Qed.
