(* FileLoaderMemberG.v — property C15, "file => found" for a TypeSet MEMBER name WITHOUT guard G4 of sole_claimant
   (no TypeSet file of loader i declares a member named like the TypeSet kd), and for a member that a definition
   file of a consulted loader claims as well.

   Without G4 the TypeSet of another file of loader i may bind kd as ITS member over the placeholder of (i, kd) while
   the TypeSet file of kd is being instantiated (corpus member-and-file-1-*: types/a.pp = TypeSet A {B, D},
   types/a/b.pp = TypeSet A::B {C}; A::B::C looked up first).  The relation between the overwritten placeholder
   and the instantiation in progress:
     flag s   = (i, kd) holds a value that is NOT a TypeSet;
     Q3 s s'  (every computation that ends WITHOUT error): flag s' -> flag s \/ (i, kd) held a placeholder at s
              - a member value is written to (i, kd) only over a placeholder (the lookup of kd that precedes the write
              answered "nothing": miss trace of FileLoaderIff), the placeholder of a name with a definition file is
              either there from the start or set by the instantiation of (i, kd) in progress (old Qrel), and that
              instantiation ends by binding the TypeSet's own value: REDEFINE error when the member value is there.
   So in an error-free run flag never holds between operations, and inside a computation flag at the end is an
   alternative of every conclusion (it cannot be the end state of an error-free operation).
   The state invariant P is weakened accordingly: (i, kd) holds a TYPESET value => (i, k) holds a value. *)
From Coq Require Import ZArith NArith Bool List Lia.
From PcoreV Require Import Model.Base Model.FileLoader Proofs.FileLoaderProofs Proofs.FileLoaderIff Proofs.FileLoaderMember Proofs.FileLoaderParentBound.
Import ListNotations.
Local Open Scope nat_scope.

Section MemberG.
  Variable w : world.
  Notation ixs := (indexes_of w).
  Notation mod_at := (mod_at w).
  Variables (i : nat) (k kd : str) (pts : str) (fts : file) (decl : str) (ms : list str) (mn : str).
  Hypothesis Hts_o : origin_of w i kd = Some pts.
  Hypothesis Hts_f : file_at (mod_at i) pts = Some fts.
  Hypothesis Hts_c : f_content fts = CTypeSet decl ms.
  Hypothesis Hts_d : lower decl = kd.
  Hypothesis Hts_m : In mn ms.
  Hypothesis Hk : lower (decl ++ s_dc ++ mn) = k.
  Hypothesis Hrt : routed w i kd.
  Hypothesis Hrtk : routed w i k.
  Hypothesis Hck : consulted w k i.
  Hypothesis Hckd : consulted w kd i.
  Hypothesis Hpar : parent_name k = Some kd.
  Hypothesis Hq : is_qualified k = true.
  (* k is claimed by this TypeSet alone *)
  (* a file at the path derived from k, in whatever loader, is not a definition of k (malformed, misnamed, empty,
     unreadable: every lookup that reaches it reports its error) *)
  Hypothesis G1 : forall j origins f v, find_existing_path ixs j k = Some origins ->
                                        file_at (mod_at j) (hd [] origins) = Some f -> ~ good_for f k v.
  Hypothesis G2 : forall j p f d l m, j <> i -> file_at (mod_at j) p = Some f -> f_content f = CTypeSet d l ->
                                      In m l -> lower (d ++ s_dc ++ m) <> k.
  Hypothesis G3 : shadow w k = None.

  Lemma Hdf : defined_file w i kd.
  Proof.
    split; [exact Hrt|]. exists pts, fts, {| tv_name := kd; tv_marker := 0%N; tv_ts := true |}.
    split; [exact Hts_o|]. split; [exact Hts_f|]. unfold good_for. rewrite Hts_c. split; [exact Hts_d|reflexivity].
  Qed.

  Lemma k_ne_kd : k <> kd.
  Proof.
    intros E. pose proof (parent_name_len _ _ Hpar) as H. rewrite E in H. lia.
  Qed.

  (* ---- the state invariant and the two-state relations ---- *)
  Definition tsv (e : eres) : Prop := exists v, e = Some (Some v) /\ tv_ts v = true.
  Definition ntv (e : eres) : Prop := exists v, e = Some (Some v) /\ tv_ts v = false.
  Definition flag (s : state) : Prop := ntv (get_entry s i kd).

  Lemma isv_cases e : isv e -> tsv e \/ ntv e.
  Proof. intros [v Hv]. destruct (tv_ts v) eqn:E; [left|right]; exists v; split; assumption. Qed.

  Lemma flag_R s s' : R s s' -> flag s -> flag s'.
  Proof. intros (VP & _) (v & Hv & Ht). exists v. split; [apply VP; exact Hv|exact Ht]. Qed.

  Lemma flag_ext s s' : (forall j k0, get_entry s' j k0 = get_entry s j k0) -> flag s' -> flag s.
  Proof. unfold flag. intros He. rewrite He. auto. Qed.

  Definition P (s : state) : Prop :=
    (forall j, j <> i -> ~ isv (get_entry s j k)) /\
    (isv (dep_get (st_dep s) k) -> isv (get_entry s i k)) /\
    (tsv (get_entry s i kd) -> isv (get_entry s i k)).

  Definition Q2 (s s' : state) : Prop :=
    get_entry s' i k = Some None -> get_entry s i k = Some None \/ get_entry s' i kd = Some None \/ flag s'.
  Definition Q3 (s s' : state) : Prop := flag s' -> flag s \/ get_entry s i kd = Some None.
  Definition QQ (s s' : state) : Prop := Q2 s s' /\ Q3 s s'.

  Lemma P_ext s s' : (forall j k0, get_entry s' j k0 = get_entry s j k0) -> st_dep s' = st_dep s -> P s -> P s'.
  Proof.
    unfold P. intros He Hd (A & B & C). rewrite Hd, !He. split; [|split]; auto. intros j; rewrite He; auto.
  Qed.

  Lemma P_st0 : P st0.
  Proof.
    split; [|split]; try (intros [v Hv]; discriminate Hv).
    - intros j _ [v Hv]; discriminate Hv.
    - intros (v & Hv & _); discriminate Hv.
  Qed.

  Lemma QQ_refl s : QQ s s.
  Proof. split; [intros H; left; exact H|intros H; left; exact H]. Qed.

  Lemma QQ_ext s s' : (forall j k0, get_entry s' j k0 = get_entry s j k0) -> QQ s s'.
  Proof.
    intros He. split; [intros H; rewrite He in H; left; exact H|].
    intros H. left. exact (flag_ext _ _ He H).
  Qed.

  (* (i, kd) at the end of a computation, when it held something at the start: placeholder, flag, or the member is bound *)
  Lemma kd_end s' : P s' -> get_entry s' i kd <> None -> get_entry s' i k = Some None ->
    get_entry s' i kd = Some None \/ flag s'.
  Proof.
    intros (_ & _ & C) H0 H. destruct (get_entry s' i kd) as [[v|]|] eqn:E.
    - destruct (tv_ts v) eqn:Et.
      + exfalso. destruct C as [v' Hv']; [exists v; split; [reflexivity|exact Et]|]. rewrite Hv' in H. discriminate H.
      + right. unfold flag. rewrite E. exists v. split; [reflexivity|exact Et].
    - left; reflexivity.
    - exfalso. apply H0; reflexivity.
  Qed.

  Lemma kd_miss_end s s' : R s s' -> P s' -> get_entry s i kd <> None -> get_entry s' i k = Some None ->
    get_entry s' i kd = Some None \/ flag s'.
  Proof. intros (_ & NN & _) HP H0 H. apply kd_end; [exact HP|apply NN; exact H0|exact H]. Qed.

  Lemma QQ_trans s1 s2 s3 : R s2 s3 -> P s3 -> Qrel w s1 s2 -> QQ s1 s2 -> QQ s2 s3 -> QQ s1 s3.
  Proof.
    intros HR HP HQ [A A3] [B B3]. split.
    - intros H. destruct (B H) as [H2|H2]; [|right; exact H2].
      destruct (A H2) as [H1|[H1|H1]]; [left; exact H1| |right; right; exact (flag_R _ _ HR H1)].
      right. apply (kd_miss_end s2 s3 HR HP); [rewrite H1; discriminate|exact H].
    - intros H. destruct (B3 H) as [H2|H2]; [exact (A3 H2)|]. right. exact (HQ i kd Hckd Hdf H2).
  Qed.

  Lemma isv_upd s j k0 v i' k' :
    (get_entry s j k0 = None \/ get_entry s j k0 = Some None) ->
    isv (get_entry s i' k') -> isv (get_entry (upd_ent s j k0 v) i' k').
  Proof.
    intros Hold [v' Hv']. rewrite get_upd_ent. destruct (mk_eqb (i', k') (j, k0)) eqn:E; [|exists v'; exact Hv'].
    apply mk_eqb_eq in E. inversion E; subst i' k'. destruct Hold as [Ho|Ho]; rewrite Ho in Hv'; discriminate Hv'.
  Qed.

  Lemma P_upd_none s j k0 :
    (get_entry s j k0 = None \/ get_entry s j k0 = Some None) -> P s -> P (upd_ent s j k0 None).
  Proof.
    intros Hold (A & B & C). split; [|split].
    - intros j' Hj [v Hv]. rewrite get_upd_ent in Hv. destruct (mk_eqb (j', k) (j, k0)); [discriminate Hv|].
      apply (A j' Hj). exists v; exact Hv.
    - intros H. apply isv_upd; [exact Hold|]. apply B. exact H.
    - intros (v & Hv & Ht). rewrite get_upd_ent in Hv. destruct (mk_eqb (i, kd) (j, k0)); [discriminate Hv|].
      apply isv_upd; [exact Hold|]. apply C. exists v; split; assumption.
  Qed.

  Lemma P_upd_val s j k0 v :
    (j <> i -> k0 <> k) -> (j = i -> k0 = kd -> tv_ts v = true -> isv (get_entry s i k)) ->
    (get_entry s j k0 = None \/ get_entry s j k0 = Some None) -> P s -> P (upd_ent s j k0 (Some v)).
  Proof.
    intros H1 H2 Hold (A & B & C). split; [|split].
    - intros j' Hj [v' Hv']. rewrite get_upd_ent in Hv'. destruct (mk_eqb (j', k) (j, k0)) eqn:E.
      + apply mk_eqb_eq in E. inversion E; subst j' k0. apply (H1 Hj). reflexivity.
      + apply (A j' Hj). exists v'; exact Hv'.
    - intros H. apply isv_upd; [exact Hold|]. apply B. exact H.
    - intros (v' & Hv' & Ht'). rewrite get_upd_ent in Hv'. destruct (mk_eqb (i, kd) (j, k0)) eqn:E.
      + apply mk_eqb_eq in E. inversion E; subst j k0. inversion Hv'; subst v'. apply isv_upd; [exact Hold|]. apply H2; auto.
      + apply isv_upd; [exact Hold|]. apply C. exists v'; split; assumption.
  Qed.

  Definition good2 {A} (m : M A) : Prop :=
    forall s s' r, depok s -> P s -> m s = (s', r) -> P s' /\ (forall a, r = Ok a -> QQ s s').
  Definition gx {A} (m : M A) : Prop := good w m /\ good2 m.

  Lemma gx_bind {A B} (m : M A) (f : A -> M B) : gx m -> (forall a, gx (f a)) -> gx (bind m f).
  Proof.
    intros [Hm Hm2] Hf. split; [apply good_bind; [exact Hm|intros a; apply (Hf a)]|].
    intros s s' r Hd HP Hb. unfold bind in Hb. destruct (m s) as [s1 r1] eqn:E1.
    destruct (Hm2 s s1 r1 Hd HP E1) as [HP1 HQ1]. destruct (Hm s s1 r1 Hd E1) as [HR1 HQr].
    destruct r1 as [a|e| |]; try (inversion Hb; subst s' r; split; [exact HP1|intros ? Hx; discriminate Hx]).
    destruct (Hf a) as [Hfa Hfa2]. pose proof (depok_R _ _ Hd HR1) as Hd1.
    destruct (Hfa2 s1 s' r Hd1 HP1 Hb) as [HP2 HQ2]. destruct (Hfa s1 s' r Hd1 Hb) as [HR2 _].
    split; [exact HP2|]. intros b Hb'. eapply QQ_trans; [exact HR2|exact HP2|apply (HQr a eq_refl)|apply (HQ1 a eq_refl)|apply (HQ2 b Hb')].
  Qed.

  Lemma gx_same {A} (m : M A) :
    (forall s s' r, m s = (s', r) -> st_entries s' = st_entries s /\ st_dep s' = st_dep s) -> gx m.
  Proof.
    intros H. split; [apply good_same; exact H|]. intros s s' r _ HP Hm. destruct (H s s' r Hm) as [He Hd].
    assert (Hg : forall j k0, get_entry s' j k0 = get_entry s j k0) by (intros; unfold get_entry; rewrite He; reflexivity).
    split; [eapply P_ext; eauto|intros; apply QQ_ext; exact Hg].
  Qed.

  Ltac gxs := apply gx_same; intros ? ? ? H; inversion H; auto.

  Lemma gx_ret {A} (a : A) : gx (ret a).
  Proof. gxs. Qed.
  Lemma gx_fail {A} e : gx (@fail A e).
  Proof. gxs. Qed.
  Lemma gx_const {A} (r0 : res A) : gx (fun s => (s, r0)).
  Proof. gxs. Qed.
  Lemma gx_read {A} (f : state -> A) : gx (fun s => (s, Ok (f s))).
  Proof. gxs. Qed.
  Lemma gx_get_entry j k0 : gx (get_entry_m j k0).
  Proof. gxs. Qed.
  Lemma gx_kid_add j k0 : gx (kid_add_m j k0).
  Proof. gxs. Qed.
  Lemma gx_log_read j p : gx (log_read_m j p).
  Proof. gxs. Qed.
  Lemma gx_unres_add mk : gx (unres_add_m mk).
  Proof. gxs. Qed.
  Lemma gx_unres_del mk : gx (unres_del_m mk).
  Proof. gxs. Qed.

  (* writing a value *)
  Lemma set_val_PQ j k0 v s s' r :
    set_entry_m j k0 (Some v) s = (s', r) -> P s ->
    (j <> i -> k0 <> k) -> (j = i -> k0 = kd -> tv_ts v = true -> isv (get_entry s i k)) ->
    (j = i -> k0 = kd -> tv_ts v = false -> get_entry s i kd <> None) -> P s' /\ QQ s s'.
  Proof.
    intros Hm HP H1 H2 H3.
    destruct (set_entry_m_cases _ _ _ _ _ _ Hm) as [(_ & -> & _)|[(_ & -> & Hold)|(-> & _)]];
      try (split; [exact HP|apply QQ_refl]).
    split; [apply P_upd_val; assumption|]. split.
    - intros H. rewrite get_upd_ent in H.
      destruct (mk_eqb (i, k) (j, k0)); [discriminate H|left; exact H].
    - intros (v' & Hv' & Ht'). rewrite get_upd_ent in Hv'. destruct (mk_eqb (i, kd) (j, k0)) eqn:E.
      + apply mk_eqb_eq in E. inversion E; subst j k0. inversion Hv'; subst v'. right.
        destruct Hold as [Ho|Ho]; [exfalso; exact (H3 eq_refl eq_refl Ht' Ho)|exact Ho].
      + left. exists v'. split; assumption.
  Qed.

  Lemma gx_set_val j k0 v : (j <> i -> k0 <> k) -> (j = i -> k0 <> kd) -> gx (set_entry_m j k0 (Some v)).
  Proof.
    intros H1 H2. split; [apply good_set_val|]. intros s s' r _ HP Hm.
    destruct (set_val_PQ j k0 v s s' r Hm HP H1) as [A B];
      try (intros Hj Hk0; exfalso; exact (H2 Hj Hk0)).
    split; [exact A|intros _ _; exact B].
  Qed.

  (* caching a miss never breaks P *)
  Lemma set_none_P j k0 s s' r : set_entry_m j k0 None s = (s', r) -> P s -> P s'.
  Proof.
    intros Hm HP.
    destruct (set_entry_m_cases _ _ _ _ _ _ Hm) as [(_ & -> & _)|[(_ & -> & Hold)|(-> & _)]]; try exact HP.
    apply P_upd_none; assumption.
  Qed.

  Lemma set_none_Q3 j k0 s s' r : set_entry_m j k0 None s = (s', r) -> Q3 s s'.
  Proof.
    intros Hm.
    destruct (set_entry_m_cases _ _ _ _ _ _ Hm) as [(_ & -> & _)|[(_ & -> & Hold)|(-> & _)]]; try (intros H; left; exact H).
    intros (v' & Hv' & Ht'). rewrite get_upd_ent in Hv'. destruct (mk_eqb (i, kd) (j, k0)); [discriminate Hv'|].
    left. exists v'. split; assumption.
  Qed.

  Lemma set_none_Q_other j k0 s s' r : (j, k0) <> (i, k) -> set_entry_m j k0 None s = (s', r) -> QQ s s'.
  Proof.
    intros Hne Hm. split; [|eapply set_none_Q3; exact Hm].
    destruct (set_entry_m_cases _ _ _ _ _ _ Hm) as [(_ & -> & _)|[(_ & -> & Hold)|(-> & _)]]; try (intros H; left; exact H).
    intros H. rewrite get_upd_ent in H. destruct (mk_eqb (i, k) (j, k0)) eqn:E; [|left; exact H].
    apply mk_eqb_eq in E. exfalso. apply Hne. symmetry. exact E.
  Qed.

  Lemma gx_for_each {A} (f : A -> M unit) l : (forall x, gx (f x)) -> gx (for_each f l).
  Proof.
    intros H. induction l as [|x t IH]; cbn [for_each]; [apply gx_ret|].
    apply gx_bind; [apply H|intros _; exact IH].
  Qed.

  Lemma gx_for_each_i {A} (f : nat -> A -> M unit) l :
    (forall j x, In x l -> gx (f j x)) -> forall j0, gx (for_each_i f j0 l).
  Proof.
    induction l as [|x t IH]; intros H j0; cbn [for_each_i]; [apply gx_ret|].
    apply gx_bind; [apply H; left; reflexivity|intros _; apply IH]. intros j y Hy. apply H. right; exact Hy.
  Qed.

  Lemma set_none_flag j k0 s s' r : set_entry_m j k0 None s = (s', r) -> flag s' -> flag s.
  Proof.
    intros Hm.
    destruct (set_entry_m_cases _ _ _ _ _ _ Hm) as [(_ & -> & _)|[(_ & -> & Hold)|(-> & _)]]; try (intros H; exact H).
    intros (v' & Hv' & Ht'). rewrite get_upd_ent in Hv'. destruct (mk_eqb (i, kd) (j, k0)); [discriminate Hv'|].
    exists v'. split; assumption.
  Qed.

  (* miss trace: what a non-value answer for k without error implies (s the state before, s' the state after) *)
  Definition MTc (s s' : state) : Prop :=
    get_entry s i k = Some None \/ get_entry s i kd = Some None \/ flag s'.

  Lemma MTc_R s s1 s' : R s1 s' -> MTc s s1 -> MTc s s'.
  Proof. intros HR [H|[H|H]]; [left; exact H|right; left; exact H|right; right; exact (flag_R _ _ HR H)]. Qed.

  Section Layer.
    Variable LE : ctxl -> str -> M eres.
    Variable FD : ctxl -> nat -> str -> M eres.
    Hypothesis HLE_G : forall cl k0, good w (LE cl k0).
    Hypothesis HLE_N : forall cl k0 s s', LE cl k0 s = (s', Ok None) -> cl_ctx cl <> None.
    Hypothesis HLE_MT : forall cl k0 s s' e, depok s -> LE cl k0 s = (s', Ok e) -> nonval e ->
      forall i0, consulted w k0 i0 -> defined_file w i0 k0 -> get_entry s i0 k0 = Some None.
    Hypothesis HFD_G : forall cl i0 k0, good w (FD cl i0 k0).
    Hypothesis HLE_X : forall cl k0, good2 (LE cl k0).
    Hypothesis HFD_X : forall cl i0 k0, good2 (FD cl i0 k0).
    Hypothesis HLE_VA : forall cl s s' v, depok s -> P s -> LE cl k s = (s', Ok (Some (Some v))) -> isv (get_entry s' i k).
    Hypothesis HLE_MT2 : forall cl s s' e, depok s -> P s -> LE cl k s = (s', Ok e) -> nonval e ->
      MTc s s'.
    Hypothesis HFD_D : forall cl s s' e, depok s -> FD cl i kd s = (s', Ok e) -> get_entry s i kd = None ->
      isv (get_entry s' i kd).

    Lemma gx_LE cl k0 : gx (LE cl k0).
    Proof. split; [apply HLE_G|apply HLE_X]. Qed.
    Lemma gx_FD cl i0 k0 : gx (FD cl i0 k0).
    Proof. split; [apply HFD_G|apply HFD_X]. Qed.

    Lemma gx_load cl k0 : gx (load w LE cl k0).
    Proof.
      split; [eapply good_load; eauto|].
      intros s s' r Hd HP Hm. unfold load, bind in Hm. destruct (LE cl k0 s) as [s1 r1] eqn:E.
      destruct (HLE_X cl k0 s s1 r1 Hd HP E) as [HP1 HQ1]. destruct (HLE_G cl k0 s s1 r1 Hd E) as [HR1 HQr].
      destruct r1 as [[[v|]|]|e| |];
        try (inversion Hm; subst s' r; split; [exact HP1|intros a Ha; try discriminate Ha; apply (HQ1 _ eq_refl)]).
      specialize (HQ1 None eq_refl). specialize (HQr None eq_refl).
      destruct (cl_def cl) as [i0|] eqn:Edef.
      - destruct (set_entry_m i0 k0 None s1) as [s2 r2] eqn:E2.
        pose proof (set_none_P _ _ _ _ _ E2 HP1) as HP2. pose proof (R_set_entry _ _ _ _ _ _ E2) as HR2.
        destruct r2 as [[]|e| |]; inversion Hm; subst s' r; (split; [exact HP2|]); intros a Ha; try discriminate Ha.
        destruct (mk_eqb (i0, k0) (i, k)) eqn:Ek.
        + apply mk_eqb_eq in Ek. inversion Ek; subst i0 k0. split.
          * intros H.
            destruct (HLE_MT2 cl s s1 None Hd HP E) as [H0|[H0|H0]]; [intros v Hv; discriminate Hv|left; exact H0| |].
            -- right. apply (kd_miss_end s s2); [eapply R_trans; eauto|exact HP2|rewrite H0; discriminate|exact H].
            -- right; right. exact (flag_R _ _ HR2 H0).
          * intros Hf. apply (proj2 HQ1). eapply set_none_flag; eauto.
        + eapply QQ_trans; [exact HR2|exact HP2|exact HQr|exact HQ1|].
          eapply set_none_Q_other; [|exact E2]. intros Heq. rewrite Heq, mk_eqb_refl in Ek. discriminate Ek.
      - destruct (cl_ctx cl) as [j|] eqn:Ectx.
        + unfold kid_add_m, ret in Hm. inversion Hm; subst s' r.
          split; [eapply P_ext; [| |exact HP1]; reflexivity|].
          intros a _. destruct HQ1 as [A B]. split; [intros H; apply A; exact H|intros H; apply B; exact H].
        + exfalso. apply (HLE_N cl k0 s s1 E). exact Ectx.
    Qed.

    Lemma gx_add_alias cl j k0 mk refs : (j <> i -> k0 <> k) -> (j = i -> k0 <> kd) -> gx (add_alias w LE cl j k0 mk refs).
    Proof.
      intros H1 H2. unfold add_alias. apply gx_bind; [apply gx_set_val; assumption|intros _].
      apply gx_bind; [apply gx_unres_add|intros _].
      apply gx_bind; [|intros _; apply gx_unres_del].
      apply gx_for_each. intros x. apply gx_bind; [apply gx_load|intros _; apply gx_ret].
    Qed.

    Notation ts_step cl j d mk :=
      (fun (jj : nat) (x : str) =>
         e <- LE cl (lower (d ++ s_dc ++ x)) ;;
         match e with
         | Some (Some _) => ret tt
         | _ => set_entry_m j (lower (d ++ s_dc ++ x))
                  (Some {| tv_name := lower (d ++ s_dc ++ x); tv_marker := (mk + 1 + N.of_nat jj)%N; tv_ts := false |})
         end).

    (* when the member loop of the TypeSet of (i, kd) ends, the member is bound *)
    Lemma loop_binds cl d mk l : In mn l -> lower (d ++ s_dc ++ mn) = k ->
      forall j0 s s', depok s -> P s -> (forall jj x, In x l -> gx (ts_step cl i d mk jj x)) ->
      for_each_i (ts_step cl i d mk) j0 l s = (s', Ok tt) -> isv (get_entry s' i k).
    Proof.
      intros Hin Hkk. induction l as [|x t IH]; [destruct Hin|]. intros j0 s s' Hd HP Hg Hm.
      cbn [for_each_i] in Hm. apply bind_ok_inv in Hm. destruct Hm as (s1 & [] & E1 & Hrest).
      assert (Hgt : gx (for_each_i (ts_step cl i d mk) (S j0) t)).
      { apply gx_for_each_i. intros jj y Hy. apply Hg. right; exact Hy. }
      destruct (Hg j0 x (or_introl eq_refl)) as [Hg1 Hg2].
      destruct (Hg1 s s1 _ Hd E1) as [HR1 _]. destruct (Hg2 s s1 _ Hd HP E1) as [HP1 _].
      pose proof (depok_R _ _ Hd HR1) as Hd1.
      destruct (classic_in mn t) as [Hlater|Hnow].
      - exact (IH Hlater (S j0) s1 s' Hd1 HP1 (fun jj y Hy => Hg jj y (or_intror Hy)) Hrest).
      - assert (Hxm : x = mn) by (destruct Hin as [Hx|Hx]; [exact Hx|exfalso; exact (Hnow Hx)]). subst x.
        assert (H1 : isv (get_entry s1 i k)).
        { apply bind_ok_inv in E1. destruct E1 as (s0 & e & EL & Hset). rewrite Hkk in EL, Hset.
          destruct e as [[v|]|].
          - inversion Hset; subst s1. exact (HLE_VA cl s s0 v Hd HP EL).
          - eexists. exact (set_entry_ok_val _ _ _ _ _ Hset).
          - eexists. exact (set_entry_ok_val _ _ _ _ _ Hset). }
        destruct Hgt as [Hgt1 _]. destruct (Hgt1 s1 s' _ Hd1 Hrest) as [(VP & _) _].
        destruct H1 as [v Hv]. exists v. apply VP. exact Hv.
    Qed.

    (* one member of a TypeSet file of loader j: the member value is written over a placeholder only (when it is written
       to (i, kd): the lookup of kd answered "nothing", so (i, kd) held a placeholder - miss trace) *)
    Lemma gx_ts_step cl j d mk l p f jj x :
      file_at (mod_at j) p = Some f -> f_content f = CTypeSet d l -> In x l -> gx (ts_step cl j d mk jj x).
    Proof.
      intros Hf Hc Hx. split.
      - apply good_bind; [apply HLE_G|]. intros [[v|]|]; [apply good_ret|apply good_set_val|apply good_set_val].
      - intros s s' r Hd HP Hm. unfold bind in Hm. destruct (LE cl (lower (d ++ s_dc ++ x)) s) as [s1 r1] eqn:E.
        destruct (HLE_X cl _ s s1 r1 Hd HP E) as [HP1 HQ1]. destruct (HLE_G cl _ s s1 r1 Hd E) as [HR1 HQr].
        destruct r1 as [e|e| |]; try (inversion Hm; subst s' r; split; [exact HP1|intros ? Hx'; discriminate Hx']).
        assert (Hset : nonval e ->
                  set_entry_m j (lower (d ++ s_dc ++ x))
                    (Some {| tv_name := lower (d ++ s_dc ++ x); tv_marker := (mk + 1 + N.of_nat jj)%N; tv_ts := false |}) s1 = (s', r) ->
                  P s' /\ (forall a, r = Ok a -> QQ s s')).
        { intros Hnv Hs. destruct (set_val_PQ j _ _ s1 s' r Hs HP1) as [A B].
          - intros Hj. exact (G2 j p f d l x Hj Hf Hc Hx).
          - intros _ _ Ht. discriminate Ht.
          - intros Hj Hk0 _. subst j. destruct HR1 as (_ & NN & _). apply NN.
            pose proof (HLE_MT cl _ s s1 e Hd E Hnv i) as Hmt. rewrite Hk0 in Hmt. rewrite (Hmt Hckd Hdf). discriminate.
          - split; [exact A|]. intros a _.
            eapply QQ_trans; [eapply R_set_entry; exact Hs|exact A|exact (HQr _ eq_refl)|exact (HQ1 _ eq_refl)|exact B]. }
        destruct e as [[v|]|].
        + inversion Hm; subst s' r. split; [exact HP1|intros a _; exact (HQ1 _ eq_refl)].
        + apply Hset; [apply nonval_miss|exact Hm].
        + apply Hset; [apply nonval_none|exact Hm].
    Qed.

    Lemma gx_add_typeset cl j d mk l p f :
      file_at (mod_at j) p = Some f -> f_content f = CTypeSet d l -> (j <> i -> lower d <> k) ->
      (j = i -> lower d = kd -> In mn l /\ lower (d ++ s_dc ++ mn) = k) ->
      gx (add_typeset LE cl j (lower d) d mk l).
    Proof.
      intros Hf Hc H1 H2.
      assert (Hstep : forall jj x, In x l -> gx (ts_step cl j d mk jj x)).
      { intros jj x Hx. exact (gx_ts_step cl j d mk l p f jj x Hf Hc Hx). }
      split; [eapply good_add_typeset; eauto|].
      intros s s' r Hd HP Hm. unfold add_typeset in Hm.
      match type of Hm with bind ?m0 _ s = _ => set (loop := m0) in * end.
      assert (Hgl : gx loop) by (subst loop; apply gx_for_each_i; exact Hstep).
      unfold bind in Hm. destruct (loop s) as [s1 r1] eqn:E1.
      destruct Hgl as [Hgl1 Hgl2]. destruct (Hgl2 s s1 r1 Hd HP E1) as [HP1 HQ1]. destruct (Hgl1 s s1 r1 Hd E1) as [HR1 HQr].
      destruct r1 as [[]|e| |]; try (inversion Hm; subst s' r; split; [exact HP1|intros ? Hx; discriminate Hx]).
      destruct (set_val_PQ j (lower d) _ s1 s' r Hm HP1 H1) as [HP2 HQ2]; [|intros _ _ Ht; discriminate Ht|].
      { intros Hj Hdk _. destruct (H2 Hj Hdk) as [Hin Hkk]. subst j. subst loop.
        exact (loop_binds cl d mk l Hin Hkk 0 s s1 Hd HP Hstep E1). }
      split; [exact HP2|]. intros a _. eapply QQ_trans; [eapply R_set_entry; exact Hm|exact HP2|exact (HQr tt eq_refl)|exact (HQ1 tt eq_refl)|exact HQ2].
    Qed.

    Lemma gx_inst_body cl j k0 p : origin_of w j k0 = Some p -> k0 <> k -> gx (inst_body w LE cl j k0 p).
    Proof.
      intros Ho Hne. unfold inst_body, content_at. destruct (file_at (mod_at j) p) as [f|] eqn:Hf; [|apply gx_fail].
      assert (Hsame : j = i -> k0 = kd -> f = fts).
      { intros Hj Hk0. rewrite Hj, Hk0, Hts_o in Ho. inversion Ho as [Hp]. rewrite Hj, <- Hp, Hts_f in Hf. inversion Hf; reflexivity. }
      destruct (f_content f) as [d refs|refs|d l|line| |] eqn:Hc; try apply gx_fail.
      - destruct (str_eqb (lower d) k0) eqn:Ed; [|apply gx_fail]. apply str_eqb_eq in Ed. rewrite Ed.
        apply gx_add_alias; [intros _; exact Hne|].
        intros Hj Hk0. rewrite (Hsame Hj Hk0), Hts_c in Hc. discriminate Hc.
      - apply gx_add_alias; [intros _; exact Hne|].
        intros Hj Hk0. rewrite (Hsame Hj Hk0), Hts_c in Hc. discriminate Hc.
      - destruct (str_eqb (lower d) k0) eqn:Ed; [|apply gx_fail]. apply str_eqb_eq in Ed.
        apply (gx_add_typeset cl j d (f_marker f) l p f Hf Hc).
        + intros _. rewrite Ed. exact Hne.
        + intros Hj Hdk. rewrite Ed in Hdk. rewrite (Hsame Hj Hdk), Hts_c in Hc. inversion Hc as [[Hd' Hl']].
          rewrite <- Hd', <- Hl'. split; [exact Hts_m|exact Hk].
    Qed.

    (* the instantiation of the TypeSet file of (i, kd) ends, when it does not fail, with the TypeSet's own value *)
    Lemma inst_body_kd_val cl s s' :
      inst_body w LE cl i kd pts s = (s', Ok tt) ->
      get_entry s' i kd = Some (Some {| tv_name := kd; tv_marker := 0%N; tv_ts := true |}).
    Proof.
      intros Hm. unfold inst_body, content_at in Hm. rewrite Hts_f, Hts_c, Hts_d, str_eqb_refl in Hm.
      unfold add_typeset in Hm. apply bind_ok_inv in Hm. destruct Hm as (s1 & [] & _ & Hset).
      exact (set_entry_ok_val _ _ _ _ _ Hset).
    Qed.

    Lemma gx_instantiate cl j k0 origins :
      origin_of w j k0 = Some (hd [] origins) -> k0 <> k -> gx (instantiate w LE cl j k0 origins).
    Proof.
      intros Ho Hne. split; [eapply good_instantiate; eauto|].
      intros s s' r Hd HP Hm. destruct (get_entry s j k0) as [e0|] eqn:Hg.
      - unfold instantiate, bind, get_entry_m in Hm. rewrite Hg in Hm. inversion Hm; subst s' r.
        split; [exact HP|intros; apply QQ_refl].
      - rewrite (instantiate_unfold w LE cl j k0 origins s Hg) in Hm.
        remember (after_read s j k0 (hd [] origins)) as s1 eqn:Es1.
        assert (Hge : forall i' k', get_entry s1 i' k' = get_entry (upd_ent s j k0 None) i' k') by (subst s1; reflexivity).
        assert (Hdp : st_dep s1 = st_dep s) by (subst s1; reflexivity).
        assert (HP1 : P s1).
        { apply (P_ext (upd_ent s j k0 None) s1 Hge); [rewrite Hdp; reflexivity|].
          apply P_upd_none; [left; exact Hg|exact HP]. }
        assert (Hd1 : depok s1) by (intros k1; rewrite Hdp; apply (Hd k1)).
        destruct (inst_body w LE {| cl_ctx := cl_ctx cl; cl_def := Some j |} j k0 (hd [] origins) s1) as [s3 r3] eqn:E3.
        destruct (gx_inst_body {| cl_ctx := cl_ctx cl; cl_def := Some j |} j k0 _ Ho Hne) as [_ Hb2].
        destruct (Hb2 s1 s3 r3 Hd1 HP1 E3) as [HP3 HQ3].
        destruct r3 as [[]|e3| |]; inversion Hm; subst s' r; (split; [exact HP3|]); intros a Ha; try discriminate Ha.
        destruct (HQ3 tt eq_refl) as [HQ3a HQ3b]. split.
        + intros H. destruct (HQ3a H) as [H1|H1]; [|right; exact H1]. left.
          rewrite Hge, get_upd_ent in H1. destruct (mk_eqb (i, k) (j, k0)) eqn:E; [|exact H1].
          apply mk_eqb_eq in E. inversion E as [[Hj Hk0]]. exfalso. apply Hne. symmetry. exact Hk0.
        + intros Hfl. destruct (mk_eqb (i, kd) (j, k0)) eqn:E.
          * exfalso. apply mk_eqb_eq in E. inversion E as [[Hj Hk0]]. subst j k0.
            rewrite Hts_o in Ho. inversion Ho as [Hp]. rewrite <- Hp in E3.
            pose proof (inst_body_kd_val _ _ _ E3) as Hv. destruct Hfl as (v' & Hv' & Ht'). unfold flag in *.
            rewrite Hv in Hv'. inversion Hv'; subst v'. discriminate Ht'.
          * destruct (HQ3b Hfl) as [H1|H1].
            -- left. destruct H1 as (v' & Hv' & Ht'). rewrite Hge, get_upd_ent, E in Hv'. exists v'. split; assumption.
            -- right. rewrite Hge, get_upd_ent, E in H1. exact H1.
    Qed.

    (* the file at the path derived from k is bad for k: its instantiation fails at once *)
    Lemma inst_body_bad cl j origins s s' r :
      find_existing_path ixs j k = Some origins -> inst_body w LE cl j k (hd [] origins) s = (s', r) ->
      s' = s /\ forall a, r <> Ok a.
    Proof.
      intros F Hm. unfold inst_body, content_at in Hm.
      destruct (file_at (mod_at j) (hd [] origins)) as [f|] eqn:Hf; [|inversion Hm; split; [reflexivity|discriminate]].
      destruct (f_content f) as [d refs|refs|d l|line| |] eqn:Hc;
        try (inversion Hm; split; [reflexivity|discriminate]).
      - destruct (str_eqb (lower d) k) eqn:Ed; [|inversion Hm; split; [reflexivity|discriminate]].
        exfalso. apply (G1 j origins f {| tv_name := k; tv_marker := f_marker f; tv_ts := false |} F Hf).
        unfold good_for. rewrite Hc. split; [apply str_eqb_eq; exact Ed|reflexivity].
      - exfalso. apply (G1 j origins f {| tv_name := k; tv_marker := f_marker f; tv_ts := false |} F Hf).
        unfold good_for. rewrite Hc. reflexivity.
      - destruct (str_eqb (lower d) k) eqn:Ed; [|inversion Hm; split; [reflexivity|discriminate]].
        exfalso. apply (G1 j origins f {| tv_name := k; tv_marker := 0%N; tv_ts := true |} F Hf).
        unfold good_for. rewrite Hc. split; [apply str_eqb_eq; exact Ed|reflexivity].
    Qed.

    Lemma gx_instantiate_k cl j origins :
      find_existing_path ixs j k = Some origins -> origin_of w j k = Some (hd [] origins) ->
      gx (instantiate w LE cl j k origins).
    Proof.
      intros F Ho. split; [eapply good_instantiate; eauto|].
      intros s s' r Hd HP Hm. destruct (get_entry s j k) as [e0|] eqn:Hg.
      - unfold instantiate, bind, get_entry_m in Hm. rewrite Hg in Hm. inversion Hm; subst s' r.
        split; [exact HP|intros; apply QQ_refl].
      - rewrite (instantiate_unfold w LE cl j k origins s Hg) in Hm.
        remember (after_read s j k (hd [] origins)) as s1 eqn:Es1.
        assert (Hge : forall i' k', get_entry s1 i' k' = get_entry (upd_ent s j k None) i' k') by (subst s1; reflexivity).
        assert (Hdp : st_dep s1 = st_dep s) by (subst s1; reflexivity).
        assert (HP1 : P s1).
        { apply (P_ext (upd_ent s j k None) s1 Hge); [rewrite Hdp; reflexivity|].
          apply P_upd_none; [left; exact Hg|exact HP]. }
        destruct (inst_body w LE {| cl_ctx := cl_ctx cl; cl_def := Some j |} j k (hd [] origins) s1) as [s3 r3] eqn:E3.
        destruct (inst_body_bad _ j origins s1 s3 r3 F E3) as [Hs3 Hr3]. subst s3.
        destruct r3 as [a3|e3| |]; [exfalso; exact (Hr3 a3 eq_refl)| | |];
          inversion Hm; subst s' r; (split; [exact HP1|intros a Ha; discriminate Ha]).
    Qed.

    Lemma gx_psearch cl j k0 anc : gx (psearch FD cl j k0 anc).
    Proof.
      induction anc as [|ts rest IH]; cbn [psearch]; [apply gx_ret|].
      apply gx_bind; [apply gx_get_entry|]. intros [e0|]; [exact IH|].
      apply gx_bind; [apply gx_FD|intros _]. apply gx_bind; [apply gx_get_entry|].
      intros [e|]; [apply gx_ret|exact IH].
    Qed.

    Lemma gx_find cl j k0 : gx (find w ixs LE FD cl j k0).
    Proof.
      unfold find.
      assert (Hgen : (is_global (mod_at j) = true \/ is_qualified k0 = true) ->
                     gx (match find_existing_path ixs j k0 with
                         | Some origins => instantiate w LE cl j k0 origins
                         | None => if is_qualified k0 then psearch FD cl j k0 (ancestors k0) else ret None
                         end)).
      { intros Hqq. destruct (find_existing_path ixs j k0) as [origins|] eqn:F.
        - assert (Ho : origin_of w j k0 = Some (hd [] origins)) by (rewrite (origin_general w j k0 Hqq), F; reflexivity).
          destruct (list_eq_dec N.eq_dec k0 k) as [E|E]; [|apply gx_instantiate; assumption].
          subst k0. apply gx_instantiate_k; assumption.
        - destruct (is_qualified k0); [apply gx_psearch|apply gx_ret]. }
      destruct (is_global (mod_at j)) eqn:G; [apply Hgen; left; reflexivity|].
      unfold parts_checked. destruct (forallb valid_seg (split_dc k0)) eqn:V; [|apply gx_fail].
      destruct (negb (str_eqb (m_name (mod_at j)) (hd [] (split_dc k0)))) eqn:Nm; [apply gx_ret|].
      destruct (is_qualified k0) eqn:Q; [apply Hgen; right; reflexivity|].
      destruct (find_existing_path ixs j s_init_typeset) as [origins|] eqn:F; [|apply gx_ret].
      assert (Ho : origin_of w j k0 = Some (hd [] origins)).
      { unfold origin_of. rewrite G, Q. cbn [negb andb].
        rewrite (split_dc_unq _ Q) in Nm. cbn [hd] in Nm. apply negb_false_iff in Nm. rewrite Nm, F. reflexivity. }
      apply gx_bind; [apply (gx_instantiate cl j k0 origins Ho)|].
      - intros E. rewrite E, Hq in Q. discriminate Q.
      - intros [[v|]|]; [destruct (tv_ts v); [apply gx_ret|apply gx_fail]|apply gx_fail|apply gx_fail].
    Qed.

    (* ---- what find / psearch / instantiate return is what the entry holds ---- *)
    Lemma instantiate_ret cl j k0 origins s s' e :
      instantiate w LE cl j k0 origins s = (s', Ok (Some e)) -> get_entry s' j k0 = Some e.
    Proof.
      intros Hm. destruct (get_entry s j k0) as [e0|] eqn:Hg.
      - unfold instantiate, bind, get_entry_m in Hm. rewrite Hg in Hm. inversion Hm; subst s' e0. exact Hg.
      - rewrite (instantiate_unfold w LE cl j k0 origins s Hg) in Hm.
        destruct (inst_body w LE _ j k0 (hd [] origins) _) as [s3 [[]|e3| |]]; inversion Hm as [[Hs He]]. first [reflexivity|subst s3; exact He].
    Qed.

    Lemma psearch_ret cl j k0 anc : forall s s' e,
      psearch FD cl j k0 anc s = (s', Ok (Some e)) -> get_entry s' j k0 = Some e.
    Proof.
      induction anc as [|ts rest IH]; intros s s' e Hm; cbn [psearch] in Hm; [inversion Hm|].
      apply bind_ok_inv in Hm. destruct Hm as (s1 & e0 & E0 & Hm). inversion E0; subst s1 e0.
      destruct (get_entry s j ts) as [x|]; [exact (IH _ _ _ Hm)|].
      apply bind_ok_inv in Hm. destruct Hm as (s2 & e2 & _ & Hm).
      apply bind_ok_inv in Hm. destruct Hm as (s3 & te & E3 & Hm). inversion E3; subst s3 te.
      destruct (get_entry s2 j k0) as [x|] eqn:Eg; [inversion Hm; subst s' x; exact Eg|exact (IH _ _ _ Hm)].
    Qed.

    Lemma find_ret cl j k0 s s' e :
      find w ixs LE FD cl j k0 s = (s', Ok (Some e)) -> get_entry s' j k0 = Some e.
    Proof.
      unfold find.
      assert (Hgen : (match find_existing_path ixs j k0 with
                      | Some origins => instantiate w LE cl j k0 origins
                      | None => if is_qualified k0 then psearch FD cl j k0 (ancestors k0) else ret None
                      end) s = (s', Ok (Some e)) -> get_entry s' j k0 = Some e).
      { destruct (find_existing_path ixs j k0) as [origins|]; [apply instantiate_ret|].
        destruct (is_qualified k0); [apply psearch_ret|intros H; inversion H]. }
      destruct (is_global (mod_at j)); [exact Hgen|].
      unfold parts_checked. destruct (forallb valid_seg (split_dc k0)); [|intros H; inversion H].
      destruct (negb (str_eqb (m_name (mod_at j)) (hd [] (split_dc k0)))); [intros H; inversion H|].
      destruct (is_qualified k0); [exact Hgen|].
      destruct (find_existing_path ixs j s_init_typeset) as [origins|]; [|intros H; inversion H].
      intros Hm. apply bind_ok_inv in Hm. destruct Hm as (s1 & e1 & E1 & Hm).
      destruct e1 as [[v|]|]; try (inversion Hm; fail).
      destruct (tv_ts v); inversion Hm; subst s1 e. exact (instantiate_ret _ _ _ _ _ _ _ E1).
    Qed.

    (* with a (bad) file at the path derived from k, find for (i, k) from a nil entry never ends without error *)
    Lemma find_k_bad cl origins s s' e :
      find_existing_path ixs i k = Some origins -> get_entry s i k = None ->
      find w ixs LE FD cl i k s = (s', Ok e) -> False.
    Proof.
      intros F Hg Hm.
      assert (Hfi : find w ixs LE FD cl i k s = instantiate w LE cl i k origins s).
      { unfold find. rewrite F, Hq. destruct Hrtk as [Hgl|[Hv Hn]]; [rewrite Hgl; reflexivity|].
        destruct (is_global (mod_at i)); [reflexivity|]. unfold parts_checked. rewrite Hv, Hn. reflexivity. }
      rewrite Hfi, (instantiate_unfold w LE cl i k origins s Hg) in Hm.
      destruct (inst_body w LE {| cl_ctx := cl_ctx cl; cl_def := Some i |} i k (hd [] origins) (after_read s i k (hd [] origins)))
        as [s3 r3] eqn:E3.
      destruct (inst_body_bad _ i origins _ s3 r3 F E3) as [_ Hr3].
      destruct r3 as [a3|e3| |]; [exact (Hr3 a3 eq_refl)|discriminate Hm|discriminate Hm|discriminate Hm].
    Qed.

    Lemma find_k_eq cl s : find_existing_path ixs i k = None ->
      find w ixs LE FD cl i k s = psearch FD cl i k (kd :: ancestors kd) s.
    Proof.
      intros F.
      assert (Ha : ancestors k = kd :: ancestors kd) by (rewrite (ancestors_unfold k), Hpar; reflexivity).
      unfold find. rewrite F, Hq, Ha. destruct Hrtk as [Hg|[Hv Hn]]; [rewrite Hg; reflexivity|].
      destruct (is_global (mod_at i)); [reflexivity|]. unfold parts_checked. rewrite Hv, Hn. reflexivity.
    Qed.

    (* the parent-name search for k when (i, kd) has no entry: a value, or (i, kd) got a non-TypeSet value *)
    Lemma psearch_k cl rest s s' e :
      depok s -> P s -> get_entry s i k = None -> get_entry s i kd = None ->
      psearch FD cl i k (kd :: rest) s = (s', Ok e) -> isv e \/ flag s'.
    Proof.
      intros Hd HP Hgk Ekd Hm. cbn [psearch] in Hm.
      apply bind_ok_inv in Hm. destruct Hm as (s1 & e0 & E0 & Hm). inversion E0; subst s1 e0. rewrite Ekd in Hm.
      apply bind_ok_inv in Hm. destruct Hm as (s2 & e2 & E2 & Hm).
      pose proof (HFD_D cl s s2 e2 Hd E2 Ekd) as Hv2.
      destruct (HFD_X cl i kd s s2 _ Hd HP E2) as [(_ & _ & C2) _].
      destruct (HFD_G cl i kd s s2 _ Hd E2) as [HR2 _]. pose proof (depok_R _ _ Hd HR2) as Hd2.
      apply bind_ok_inv in Hm. destruct Hm as (s3 & te & E3 & Hm). inversion E3; subst s3 te.
      destruct (isv_cases _ Hv2) as [Hts|Hfl2].
      - left. destruct (C2 Hts) as [v Hv]. rewrite Hv in Hm. inversion Hm. exists v; reflexivity.
      - right. destruct (get_entry s2 i k) as [x|].
        + inversion Hm; subst s'. exact Hfl2.
        + destruct (gx_psearch cl i k rest) as [Hgp _]. destruct (Hgp s2 s' _ Hd2 Hm) as [HRp _]. exact (flag_R _ _ HRp Hfl2).
    Qed.

    Lemma gx_mod_load_own cl j k0 : gx (mod_load_own w ixs LE FD cl j k0).
    Proof.
      split; [eapply good_mod_load_own; eauto|].
      intros s s' r Hd HP Hm. unfold mod_load_own, bind, get_entry_m in Hm.
      destruct (get_entry s j k0) as [e0|] eqn:Hg.
      - inversion Hm; subst s' r. split; [exact HP|intros; apply QQ_refl].
      - destruct (find w ixs LE FD cl j k0 s) as [s1 r1] eqn:Ef.
        destruct (gx_find cl j k0) as [Hf1 Hf2].
        destruct (Hf2 s s1 r1 Hd HP Ef) as [HP1 HQ1]. destruct (Hf1 s s1 r1 Hd Ef) as [HR1 HQr].
        destruct r1 as [[e1|]|e1| |];
          try (inversion Hm; subst s' r; split; [exact HP1|intros a Ha; try discriminate Ha; apply (HQ1 _ eq_refl)]).
        destruct (set_entry_m j k0 None s1) as [s2 r2] eqn:E2.
        pose proof (set_none_P _ _ _ _ _ E2 HP1) as HP2. pose proof (R_set_entry _ _ _ _ _ _ E2) as HR2.
        destruct r2 as [[]|e| |]; inversion Hm; subst s' r; (split; [exact HP2|]); intros a Ha; try discriminate Ha.
        destruct (mk_eqb (j, k0) (i, k)) eqn:Ek.
        + apply mk_eqb_eq in Ek. inversion Ek; subst j k0. split.
          * intros H. right. destruct (get_entry s i kd) as [x|] eqn:Ekd.
            -- apply (kd_miss_end s s2); [eapply R_trans; eauto|exact HP2|rewrite Ekd; discriminate|exact H].
            -- destruct (find_existing_path ixs i k) as [origins|] eqn:F; [exfalso; exact (find_k_bad cl origins s s1 None F Hg Ef)|].
               rewrite (find_k_eq cl s F) in Ef.
               destruct (psearch_k cl (ancestors kd) s s1 None Hd HP Hg Ekd Ef) as [[v Hv]|Hfl]; [discriminate Hv|].
               right. exact (flag_R _ _ HR2 Hfl).
          * intros Hfl. apply (proj2 (HQ1 _ eq_refl)). eapply set_none_flag; eauto.
        + eapply QQ_trans; [exact HR2|exact HP2|exact (HQr _ eq_refl)|exact (HQ1 _ eq_refl)|].
          eapply set_none_Q_other; [|exact E2]. intros Heq. rewrite Heq, mk_eqb_refl in Ek. discriminate Ek.
    Qed.

    Lemma mod_load_own_val cl j k0 s s' v :
      mod_load_own w ixs LE FD cl j k0 s = (s', Ok (Some (Some v))) -> get_entry s' j k0 = Some (Some v).
    Proof.
      intros Hm. unfold mod_load_own, bind, get_entry_m in Hm. destruct (get_entry s j k0) as [e0|] eqn:Hg.
      - inversion Hm; subst s' e0. exact Hg.
      - destruct (find w ixs LE FD cl j k0 s) as [s1 [[e1|]|e1| |]] eqn:Ef; try discriminate Hm.
        + inversion Hm; subst s1 e1. exact (find_ret _ _ _ _ _ _ Ef).
        + destruct (set_entry_m j k0 None s1) as [s2 [[]|e2| |]]; inversion Hm.
    Qed.

    Lemma mod_load_own_MT2 cl s s' e :
      depok s -> P s -> mod_load_own w ixs LE FD cl i k s = (s', Ok e) -> nonval e -> MTc s s'.
    Proof.
      intros Hd HP Hm Hnv. destruct (gx_mod_load_own cl i k) as [Hgo _]. destruct (Hgo s s' _ Hd Hm) as [HRo _].
      unfold mod_load_own, bind, get_entry_m in Hm.
      destruct (get_entry s i k) as [[v|]|] eqn:Hg.
      - exfalso. inversion Hm; subst e. eapply Hnv; reflexivity.
      - left; exact Hg.
      - right. destruct (get_entry s i kd) as [[v|]|] eqn:Ekd.
        + destruct (tv_ts v) eqn:Et.
          * exfalso. destruct HP as (_ & _ & C). destruct C as [v' Hv']; [exists v; split; [exact Ekd|exact Et]|].
            rewrite Hv' in Hg. discriminate Hg.
          * right. apply (flag_R _ _ HRo). exists v. split; [exact Ekd|exact Et].
        + left; reflexivity.
        + right. destruct (find w ixs LE FD cl i k s) as [s1 r1] eqn:Ef.
          destruct r1 as [e1|e1| |]; try discriminate Hm.
          destruct (find_existing_path ixs i k) as [origins|] eqn:F; [exfalso; exact (find_k_bad cl origins s s1 e1 F Hg Ef)|].
          rewrite (find_k_eq cl s F) in Ef.
          destruct (psearch_k cl (ancestors kd) s s1 e1 Hd HP Hg Ekd Ef) as [[v Hv]|Hfl].
          * subst e1. inversion Hm; subst e. exfalso. eapply Hnv; reflexivity.
          * destruct e1 as [x|].
            -- inversion Hm; subst s'. exact Hfl.
            -- destruct (set_entry_m i k None s1) as [s2 r2] eqn:E2. pose proof (R_set_entry _ _ _ _ _ _ E2) as HR2.
               destruct r2 as [[]|e2| |]; inversion Hm; subst s'. exact (flag_R _ _ HR2 Hfl).
    Qed.

    Lemma gx_mod_load_entry cl j k0 : gx (mod_load_entry w ixs LE FD cl j k0).
    Proof. unfold mod_load_entry. destruct (shadow w k0); [apply gx_ret|apply gx_mod_load_own]. Qed.

    (* a value answer of loader j for k: j = i and the member is bound *)
    Lemma own_VA cl j s s' v :
      depok s -> P s -> mod_load_own w ixs LE FD cl j k s = (s', Ok (Some (Some v))) -> isv (get_entry s' i k).
    Proof.
      intros Hd HP Hm. pose proof (mod_load_own_val _ _ _ _ _ _ Hm) as Hv.
      destruct (gx_mod_load_own cl j k) as [_ H2]. destruct (H2 s s' _ Hd HP Hm) as [(A & _) _].
      destruct (Nat.eq_dec j i) as [E|E]; [rewrite E in Hv; exists v; exact Hv|].
      exfalso. apply (A j E). exists v; exact Hv.
    Qed.

    Lemma entry_VA cl j s s' v :
      depok s -> P s -> mod_load_entry w ixs LE FD cl j k s = (s', Ok (Some (Some v))) -> isv (get_entry s' i k).
    Proof. unfold mod_load_entry. rewrite G3. apply own_VA. Qed.

    Lemma entry_MT2 cl s s' e :
      depok s -> P s -> mod_load_entry w ixs LE FD cl i k s = (s', Ok e) -> nonval e ->
      MTc s s'.
    Proof. unfold mod_load_entry. rewrite G3. apply mod_load_own_MT2. Qed.

    (* pulling a miss trace back over a computation that ended without error *)
    Lemma pull s s1 s' : QQ s s1 -> Qrel w s s1 -> R s1 s' -> MTc s1 s' -> MTc s s'.
    Proof.
      intros [HQ2 _] HQ HR [H|[H|H]].
      - destruct (HQ2 H) as [H1|[H1|H1]];
          [left; exact H1|right; left; exact (HQ i kd Hckd Hdf H1)|right; right; exact (flag_R _ _ HR H1)].
      - right; left. exact (HQ i kd Hckd Hdf H).
      - right; right; exact H.
    Qed.

    Lemma dep_set_entries k0 v s s' r : dep_set_m k0 v s = (s', r) -> st_entries s' = st_entries s.
    Proof.
      unfold dep_set_m. destruct (dep_get (st_dep s) k0) as [[ov|]|].
      - destruct v as [nv|]; [destruct (tval_eqb ov nv)|]; intros H; inversion H; reflexivity.
      - intros H; inversion H; reflexivity.
      - intros H; inversion H; reflexivity.
    Qed.

    (* ---- chain ---- *)
    Lemma gx_chain np : forall cl j k0, gx (chain_load_entry w ixs LE FD np cl j k0).
    Proof.
      induction np as [|np IH]; intros cl j k0; cbn [chain_load_entry]; [apply gx_mod_load_entry|].
      apply gx_bind; [apply IH|]. intros [[v|]|]; [apply gx_ret|apply gx_mod_load_own|apply gx_mod_load_own].
    Qed.

    Lemma chain_VA np : forall cl j s s' v, depok s -> P s ->
      chain_load_entry w ixs LE FD np cl j k s = (s', Ok (Some (Some v))) -> isv (get_entry s' i k).
    Proof.
      induction np as [|np IH]; intros cl j s s' v Hd HP Hm; cbn [chain_load_entry] in Hm; [eapply entry_VA; eauto|].
      apply bind_ok_inv in Hm. destruct Hm as (s1 & pe & E1 & Hm).
      destruct (gx_chain np cl (S j) k) as [H1 H2]. destruct (H1 s s1 _ Hd E1) as [HR1 _]. destruct (H2 s s1 _ Hd HP E1) as [HP1 _].
      pose proof (depok_R _ _ Hd HR1) as Hd1.
      destruct pe as [[pv|]|].
      + inversion Hm; subst s1. exact (IH _ _ _ _ _ Hd HP E1).
      + exact (own_VA cl j s1 s' v Hd1 HP1 Hm).
      + exact (own_VA cl j s1 s' v Hd1 HP1 Hm).
    Qed.

    Lemma chain_MT2 np : forall cl j s s' e, depok s -> P s -> j <= i <= j + np ->
      chain_load_entry w ixs LE FD np cl j k s = (s', Ok e) -> nonval e ->
      MTc s s'.
    Proof.
      induction np as [|np IH]; intros cl j s s' e Hd HP Hj Hm Hnv; cbn [chain_load_entry] in Hm.
      - assert (j = i) by lia. subst j. eapply entry_MT2; eauto.
      - apply bind_ok_inv in Hm. destruct Hm as (s1 & pe & E1 & Hm).
        destruct (gx_chain np cl (S j) k) as [H1 H2]. destruct (H1 s s1 _ Hd E1) as [HR1 HQ1]. destruct (H2 s s1 _ Hd HP E1) as [HP1 HQ2].
        pose proof (depok_R _ _ Hd HR1) as Hd1.
        assert (Hpe : nonval pe).
        { destruct pe as [[pv|]|]; [|apply nonval_miss|apply nonval_none]. inversion Hm; subst e. exfalso. eapply Hnv; reflexivity. }
        destruct (Nat.eq_dec j i) as [Eji|Nji].
        + subst j. destruct pe as [[pv|]|]; [exfalso; eapply Hpe; reflexivity| |];
            (destruct (gx_mod_load_own cl i k) as [Hgo _]; destruct (Hgo s1 s' _ Hd1 Hm) as [HRo _];
             apply (pull s s1 s' (HQ2 _ eq_refl) (HQ1 _ eq_refl) HRo); eapply mod_load_own_MT2; eauto).
        + destruct pe as [[pv|]|]; [exfalso; eapply Hpe; reflexivity| |];
            (destruct (gx_mod_load_own cl j k) as [Hgo _]; destruct (Hgo s1 s' _ Hd1 Hm) as [HRo _];
             apply (MTc_R s s1 s' HRo); apply (IH cl (S j) s s1 _ Hd HP ltac:(lia) E1 Hpe)).
    Qed.

    (* ---- dependency loader ---- *)
    Notation dep_loop cl k0 :=
      (fix loop (n : nat) (i0 : nat) : M eres :=
         match n with
         | 0 => fun s => (s, Ok (dep_get (st_dep s) k0))
         | S n' => e <- mod_load_entry w ixs LE FD cl i0 k0 ;;
                   match e with Some (Some _) => ret e | _ => loop n' (S i0) end
         end).

    Lemma gx_dep_loop cl k0 n : forall j, gx (dep_loop cl k0 n j).
    Proof.
      induction n as [|n IH]; intros j; [apply gx_read|].
      apply gx_bind; [apply gx_mod_load_entry|]. intros [[v|]|]; [apply gx_ret|apply IH|apply IH].
    Qed.

    Lemma dep_loop_VA cl n : forall j s s' v, depok s -> P s ->
      dep_loop cl k n j s = (s', Ok (Some (Some v))) -> isv (get_entry s' i k).
    Proof.
      induction n as [|n IH]; intros j s s' v Hd HP Hm.
      - inversion Hm as [[Hs He]]. subst s'. destruct HP as (_ & B & _). apply B. exists v. first [exact He|symmetry; exact He].
      - apply bind_ok_inv in Hm. destruct Hm as (s1 & e1 & E1 & Hm).
        destruct (gx_mod_load_entry cl j k) as [H1 H2]. destruct (H1 s s1 _ Hd E1) as [HR1 _]. destruct (H2 s s1 _ Hd HP E1) as [HP1 _].
        pose proof (depok_R _ _ Hd HR1) as Hd1.
        destruct e1 as [[v1|]|].
        + inversion Hm; subst s1. exact (entry_VA _ _ _ _ _ Hd HP E1).
        + exact (IH _ _ _ _ Hd1 HP1 Hm).
        + exact (IH _ _ _ _ Hd1 HP1 Hm).
    Qed.

    Lemma dep_loop_MT2 cl n : forall j s s' e, depok s -> P s -> j <= i < j + n ->
      dep_loop cl k n j s = (s', Ok e) -> nonval e ->
      MTc s s'.
    Proof.
      induction n as [|n IH]; intros j s s' e Hd HP Hj Hm Hnv; [lia|].
      apply bind_ok_inv in Hm. destruct Hm as (s1 & e1 & E1 & Hm).
      destruct (gx_mod_load_entry cl j k) as [H1 H2]. destruct (H1 s s1 _ Hd E1) as [HR1 HQ1]. destruct (H2 s s1 _ Hd HP E1) as [HP1 HQ2].
      pose proof (depok_R _ _ Hd HR1) as Hd1.
      assert (Hn1 : nonval e1).
      { destruct e1 as [[v1|]|]; [|apply nonval_miss|apply nonval_none]. inversion Hm; subst e. exfalso. eapply Hnv; reflexivity. }
      destruct (Nat.eq_dec j i) as [Eji|Nji].
      - subst j. destruct e1 as [[v1|]|]; [exfalso; eapply Hn1; reflexivity| |];
          (destruct (gx_dep_loop cl k n (S i)) as [Hgl _]; destruct (Hgl s1 s' _ Hd1 Hm) as [HRl _];
           apply (MTc_R s s1 s' HRl); eapply entry_MT2; eauto).
      - destruct e1 as [[v1|]|]; [exfalso; eapply Hn1; reflexivity| |];
          (destruct (gx_dep_loop cl k n (S j)) as [Hgl _]; destruct (Hgl s1 s' _ Hd1 Hm) as [HRl _];
           apply (pull s s1 s' (HQ2 _ eq_refl) (HQ1 _ eq_refl) HRl); apply (IH (S j) s1 s' e Hd1 HP1 ltac:(lia) Hm Hnv)).
    Qed.

    Lemma gx_dep_find cl k0 : gx (dep_find w ixs LE FD cl k0).
    Proof.
      unfold dep_find. destruct (dep_index_nonempty w && is_qualified k0); [|apply gx_dep_loop].
      unfold parts_checked. destruct (forallb valid_seg (split_dc k0)); [|apply gx_fail].
      destruct (dep_index_get w (hd [] (split_dc k0))); [apply gx_mod_load_entry|apply gx_dep_loop].
    Qed.

    Lemma dep_find_VA cl s s' v : depok s -> P s ->
      dep_find w ixs LE FD cl k s = (s', Ok (Some (Some v))) -> isv (get_entry s' i k).
    Proof.
      intros Hd HP. unfold dep_find. destruct (dep_index_nonempty w && is_qualified k); [|apply dep_loop_VA; assumption].
      unfold parts_checked. destruct (forallb valid_seg (split_dc k)); [|intros H; inversion H].
      destruct (dep_index_get w (hd [] (split_dc k))); [apply entry_VA; assumption|apply dep_loop_VA; assumption].
    Qed.

    Lemma dep_find_MT2 cl s s' e : depok s -> P s -> w_top w = TopDep ->
      dep_find w ixs LE FD cl k s = (s', Ok e) -> nonval e ->
      MTc s s'.
    Proof.
      intros Hd HP Ht. pose proof Hck as Hc. unfold consulted in Hc. rewrite Ht in Hc. unfold dep_find.
      destruct (dep_index_nonempty w && is_qualified k).
      - unfold parts_checked. destruct (forallb valid_seg (split_dc k)); [|intros H; inversion H].
        destruct (dep_index_get w (hd [] (split_dc k))) as [j0|].
        + subst j0. apply entry_MT2; assumption.
        + apply dep_loop_MT2; [assumption|assumption|lia].
      - apply dep_loop_MT2; [assumption|assumption|lia].
    Qed.

    Lemma gx_dep_load_entry cl k0 : gx (dep_load_entry w ixs LE FD cl k0).
    Proof.
      split; [eapply good_dep_load_entry; eauto|].
      intros s s' r Hd HP Hm. unfold dep_load_entry, bind in Hm.
      destruct (dep_get (st_dep s) k0) as [e0|] eqn:Hdg.
      - inversion Hm; subst s' r. split; [exact HP|intros; apply QQ_refl].
      - destruct (dep_find w ixs LE FD cl k0 s) as [s1 r1] eqn:Ef.
        destruct (gx_dep_find cl k0) as [H1 H2]. destruct (H2 s s1 r1 Hd HP Ef) as [HP1 HQ1].
        destruct r1 as [[[v|]|]|e1| |];
          try (inversion Hm; subst s' r; split; [exact HP1|intros a Ha; try discriminate Ha; apply (HQ1 _ eq_refl)]).
        assert (He : st_entries s' = st_entries s1 /\ (st_dep s' = st_dep s1 \/ st_dep s' = (k0, Some v) :: st_dep s1)).
        { unfold dep_set_m in Hm. destruct (dep_get (st_dep s1) k0) as [[ov|]|].
          - destruct (tval_eqb ov v); inversion Hm; auto.
          - inversion Hm; cbn [st_entries st_dep]; auto.
          - inversion Hm; cbn [st_entries st_dep]; auto. }
        destruct He as [He Hdp].
        assert (Hg : forall j k1, get_entry s' j k1 = get_entry s1 j k1) by (intros; unfold get_entry; rewrite He; reflexivity).
        assert (HP2 : P s').
        { destruct Hdp as [Hdp|Hdp]; [eapply P_ext; eauto|].
          destruct HP1 as (A & B & C). split; [|split].
          - intros j Hj. rewrite Hg. apply A; exact Hj.
          - rewrite Hg, Hdp. cbn [dep_get]. destruct (str_eqb k k0) eqn:Ek; [|exact B].
            intros _. apply str_eqb_eq in Ek. subst k0. eapply dep_find_VA; eauto.
          - rewrite !Hg. exact C. }
        split; [exact HP2|]. intros a Ha.
        destruct (HQ1 _ eq_refl) as [Hok Hok3]. split.
        + intros H. rewrite Hg in H.
          destruct (Hok H) as [H0|[H0|H0]];
            [left; exact H0|right; left; rewrite Hg; exact H0|right; right; unfold flag; rewrite Hg; exact H0].
        + intros Hfl. apply Hok3. unfold flag in *. rewrite Hg in Hfl. exact Hfl.
    Qed.

    Lemma dep_load_entry_VA cl s s' v : depok s -> P s ->
      dep_load_entry w ixs LE FD cl k s = (s', Ok (Some (Some v))) -> isv (get_entry s' i k).
    Proof.
      intros Hd HP Hm. unfold dep_load_entry, bind in Hm.
      destruct (dep_get (st_dep s) k) as [e0|] eqn:Hdg.
      - inversion Hm; subst s' e0. destruct HP as (_ & B & _). apply B. exists v. exact Hdg.
      - destruct (dep_find w ixs LE FD cl k s) as [s1 [[[v1|]|]|e1| |]] eqn:Ef; try discriminate Hm.
        pose proof (dep_find_VA cl s s1 v1 Hd HP Ef) as [v' Hv'].
        destruct (dep_set_m k (Some v1) s1) as [s2 r2] eqn:E2. pose proof (dep_set_entries _ _ _ _ _ E2) as He.
        destruct r2 as [[]|e2| |]; inversion Hm; subst s'. exists v'. unfold get_entry in *. rewrite He. exact Hv'.
    Qed.

    Lemma dep_load_entry_MT2 cl s s' e : depok s -> P s -> w_top w = TopDep ->
      dep_load_entry w ixs LE FD cl k s = (s', Ok e) -> nonval e ->
      MTc s s'.
    Proof.
      intros Hd HP Ht Hm Hnv. unfold dep_load_entry, bind in Hm.
      destruct (dep_get (st_dep s) k) as [[v|]|] eqn:Hdg.
      - exfalso. inversion Hm; subst e. eapply Hnv; reflexivity.
      - exfalso. exact (Hd k Hdg).
      - destruct (dep_find w ixs LE FD cl k s) as [s1 r1] eqn:Ef.
        destruct r1 as [e1|e1| |]; try discriminate Hm.
        destruct e1 as [[v|]|].
        + exfalso. destruct (dep_set_m k (Some v) s1) as [s2 [[]|e2| |]]; inversion Hm; subst e. eapply Hnv; reflexivity.
        + assert (s' = s1) by (inversion Hm; reflexivity). subst s'. apply (dep_find_MT2 cl s s1 _ Hd HP Ht Ef nonval_miss).
        + assert (s' = s1) by (inversion Hm; reflexivity). subst s'. apply (dep_find_MT2 cl s s1 _ Hd HP Ht Ef nonval_none).
    Qed.

    (* ---- top loader, context loader ---- *)
    Lemma gx_top cl k0 : gx (top_load_entry w ixs LE FD cl k0).
    Proof. unfold top_load_entry. destruct (w_top w); [apply gx_mod_load_entry|apply gx_dep_load_entry|apply gx_chain]. Qed.

    Lemma top_VA cl s s' v : depok s -> P s ->
      top_load_entry w ixs LE FD cl k s = (s', Ok (Some (Some v))) -> isv (get_entry s' i k).
    Proof.
      intros Hd HP. unfold top_load_entry. destruct (w_top w); [apply entry_VA|apply dep_load_entry_VA|apply chain_VA]; assumption.
    Qed.

    Lemma top_MT2 cl s s' e : depok s -> P s ->
      top_load_entry w ixs LE FD cl k s = (s', Ok e) -> nonval e ->
      MTc s s'.
    Proof.
      intros Hd HP. pose proof Hck as Hc. unfold consulted in Hc. unfold top_load_entry. destruct (w_top w) eqn:Ht.
      - rewrite <- Hc. apply entry_MT2; assumption.
      - apply dep_load_entry_MT2; assumption.
      - apply chain_MT2; [assumption|assumption|lia].
    Qed.

    Lemma gx_ctx cl k0 : gx (ctx_load_entry w ixs LE FD cl k0).
    Proof.
      unfold ctx_load_entry. destruct (cl_ctx cl) as [j|]; [|apply gx_top].
      apply gx_bind; [apply gx_top|]. intros [[v|]|]; [apply gx_ret| |];
        apply (gx_read (fun s => if kid_has s j k0 then Some None else None)).
    Qed.

    Lemma ctx_VA cl s s' v : depok s -> P s ->
      ctx_load_entry w ixs LE FD cl k s = (s', Ok (Some (Some v))) -> isv (get_entry s' i k).
    Proof.
      intros Hd HP Hm. unfold ctx_load_entry in Hm. destruct (cl_ctx cl) as [j|]; [|eapply top_VA; eauto].
      apply bind_ok_inv in Hm. destruct Hm as (s1 & e1 & E1 & Hm).
      destruct e1 as [[v1|]|].
      - inversion Hm; subst s1. eapply top_VA; eauto.
      - cbv beta in Hm. destruct (kid_has s1 j k); inversion Hm.
      - cbv beta in Hm. destruct (kid_has s1 j k); inversion Hm.
    Qed.

    Lemma ctx_MT2 cl s s' e : depok s -> P s ->
      ctx_load_entry w ixs LE FD cl k s = (s', Ok e) -> nonval e ->
      MTc s s'.
    Proof.
      intros Hd HP Hm Hnv. unfold ctx_load_entry in Hm. destruct (cl_ctx cl) as [j|]; [|eapply top_MT2; eauto].
      apply bind_ok_inv in Hm. destruct Hm as (s1 & e1 & E1 & Hm).
      destruct e1 as [[v|]|].
      - exfalso. inversion Hm; subst e. eapply Hnv; reflexivity.
      - assert (s' = s1) by (inversion Hm; reflexivity). subst s'. apply (top_MT2 cl s s1 _ Hd HP E1 nonval_miss).
      - assert (s' = s1) by (inversion Hm; reflexivity). subst s'. apply (top_MT2 cl s s1 _ Hd HP E1 nonval_none).
    Qed.

    (* find for (i, kd) from a nil entry: the TypeSet is bound *)
    Lemma find_kd_binds cl s s' e : depok s -> find w ixs LE FD cl i kd s = (s', Ok e) -> get_entry s i kd = None ->
      isv (get_entry s' i kd).
    Proof.
      intros Hd Hm Hg. destruct (find_defined w LE FD HLE_G HLE_N HLE_MT cl i kd s s' e Hd Hdf Hg Hm) as [v Hv].
      subst e. exists v. exact (find_ret _ _ _ _ _ _ Hm).
    Qed.
  End Layer.

  (* ---- every layer ---- *)
  Lemma mem_layers n :
    (forall cl k0, good2 (LEn w ixs n cl k0)) /\
    (forall cl i0 k0, good2 (FDn w ixs n cl i0 k0)) /\
    (forall cl s s' v, depok s -> P s -> LEn w ixs n cl k s = (s', Ok (Some (Some v))) -> isv (get_entry s' i k)) /\
    (forall cl s s' e, depok s -> P s -> LEn w ixs n cl k s = (s', Ok e) -> nonval e -> MTc s s') /\
    (forall cl s s' e, depok s -> FDn w ixs n cl i kd s = (s', Ok e) -> get_entry s i kd = None -> isv (get_entry s' i kd)).
  Proof.
    induction n as [|n (IH1 & IH2 & IH3 & IH4 & IH5)].
    - split; [|split; [|split; [|split]]].
      + intros cl k0 s s' r _ HP H. inversion H as [[Hs Hr]]. split; [rewrite <- Hs; exact HP|intros a Ha; discriminate Ha].
      + intros cl i0 k0 s s' r _ HP H. inversion H as [[Hs Hr]]. split; [rewrite <- Hs; exact HP|intros a Ha; discriminate Ha].
      + intros cl s s' v _ _ H. inversion H.
      + intros cl s s' e _ _ H. inversion H.
      + intros cl s s' e _ H. inversion H.
    - destruct (iff_layers w n) as (O1 & O2 & O3 & O4).
      split; [|split; [|split; [|split]]].
      + intros cl k0. change (LEn w ixs (S n) cl k0) with (ctx_load_entry w ixs (LEn w ixs n) (FDn w ixs n) cl k0).
        assert (H : gx (ctx_load_entry w ixs (LEn w ixs n) (FDn w ixs n) cl k0)) by (eapply gx_ctx; eauto). exact (proj2 H).
      + intros cl i0 k0. change (FDn w ixs (S n) cl i0 k0) with (find w ixs (LEn w ixs n) (FDn w ixs n) cl i0 k0).
        assert (H : gx (find w ixs (LEn w ixs n) (FDn w ixs n) cl i0 k0)) by (eapply gx_find; eauto). exact (proj2 H).
      + intros cl s s' v. change (LEn w ixs (S n) cl k s) with (ctx_load_entry w ixs (LEn w ixs n) (FDn w ixs n) cl k s).
        eapply ctx_VA; eauto.
      + intros cl s s' e. change (LEn w ixs (S n) cl k s) with (ctx_load_entry w ixs (LEn w ixs n) (FDn w ixs n) cl k s).
        eapply ctx_MT2; eauto.
      + intros cl s s' e. change (FDn w ixs (S n) cl i kd s) with (find w ixs (LEn w ixs n) (FDn w ixs n) cl i kd s).
        eapply find_kd_binds; eauto.
  Qed.

  (* ---- runs ---- *)
  Definition B2 (s : state) : Prop := Bnd w s /\ P s /\ get_entry s i k <> Some None /\ ~ flag s.

  Lemma B2_st0 : B2 st0.
  Proof. split; [apply Bnd_st0|split; [apply P_st0|split; [discriminate|intros (v & Hv & _); discriminate Hv]]]. Qed.

  (* a computation without error that starts between the operations of an error-free run does not end with a
     non-TypeSet value for (i, kd) *)
  Lemma no_flag_end s s' : Bnd w s -> ~ flag s -> Q3 s s' -> ~ flag s'.
  Proof.
    intros [_ Hbb] Hnf HQ Hfl. destruct (HQ Hfl) as [H|H]; [exact (Hnf H)|]. exact (Hbb i kd Hckd Hdf H).
  Qed.

  Lemma gx_top_load fuel cl k0 : gx (load w (LEn w ixs fuel) cl k0).
  Proof.
    destruct (iff_layers w fuel) as (O1 & O2 & O3 & O4). destruct (mem_layers fuel) as (N1 & N2 & N3 & N4 & N5).
    eapply gx_load; eauto.
  Qed.

  Lemma step_B2 fuel s o s' x : B2 s -> step w ixs fuel s o = (s', x) -> clean_out x = true -> B2 s'.
  Proof.
    intros (Hb & HP & Hk0 & Hnf) Hs Hc. pose proof (step_Bnd w fuel s o s' x Hb Hs Hc) as Hb'.
    destruct o; cbn [step] in Hs; try (inversion Hs; subst s'; split; [exact Hb'|split; [assumption|split; assumption]]).
    destruct (load w (LEn w ixs fuel) (top_ctx ctx) (norm_name name) s) as [s1 r1] eqn:E.
    inversion Hs; subst s1 x. clear Hs. pose proof Hb as [Hd Hbb].
    destruct (gx_top_load fuel (top_ctx ctx) (norm_name name)) as [_ H2]. destruct (H2 s s' r1 Hd HP E) as [HP' HQ].
    split; [exact Hb'|split; [exact HP'|]].
    destruct r1 as [a|e| |]; try discriminate Hc.
    destruct (HQ a eq_refl) as [HQ2 HQ3]. pose proof (no_flag_end s s' Hb Hnf HQ3) as Hnf'.
    split; [|exact Hnf'].
    intros H. destruct (HQ2 H) as [H0|[H0|H0]]; [exact (Hk0 H0)| |exact (Hnf' H0)].
    destruct Hb' as [_ Hbb']. exact (Hbb' i kd Hckd Hdf H0).
  Qed.

  Lemma run_from_B2 fuel ops : forall s s' xs,
    B2 s -> run_from w ixs fuel s ops = (s', xs) -> forallb clean_out xs = true -> B2 s'.
  Proof.
    induction ops as [|o t IH]; intros s s' xs Hb Hr Hc; cbn [run_from] in Hr.
    - inversion Hr; subst s'; exact Hb.
    - destruct (step w ixs fuel s o) as [s1 x] eqn:E1.
      destruct (run_from w ixs fuel s1 t) as [s2 xs2] eqn:E2.
      inversion Hr; subst s' xs. cbn [forallb] in Hc. apply andb_true_iff in Hc. destruct Hc as [Hc1 Hc2].
      eapply IH; [|exact E2|exact Hc2]. eapply step_B2; eauto.
  Qed.

  Lemma reach_B2 fuel ops : clean_run w fuel ops -> B2 (reach w fuel ops).
  Proof.
    unfold clean_run, reach. destruct (run_from w ixs fuel st0 ops) as [s xs] eqn:E. cbn [fst snd].
    intros Hc. eapply run_from_B2; [apply B2_st0|exact E|exact Hc].
  Qed.

  Lemma member_not_missed_k fuel ops ctx name s' o rd :
    clean_run w fuel ops -> norm_name name = k -> lookup_after w fuel ops ctx name = (s', (o, rd)) -> o <> ONotFound.
  Proof.
    intros Hc Hn Hl Ho. subst o. destruct (reach_B2 fuel ops Hc) as (Hb & HP & Hk0 & Hnf). pose proof Hb as (Hd & Hbb).
    unfold lookup_after, step in Hl. rewrite Hn in Hl.
    destruct (load w (LEn w ixs fuel) (top_ctx ctx) k (reach w fuel ops)) as [s1 r1] eqn:E.
    inversion Hl as [[Hs1 Hout Hrd]]. clear Hl Hrd.
    destruct r1 as [[v|]|e| |]; try discriminate Hout. clear Hout.
    unfold load, bind in E.
    destruct (LEn w ixs fuel (top_ctx ctx) k (reach w fuel ops)) as [s2 r2] eqn:EL.
    destruct (mem_layers fuel) as (N1 & _ & _ & N4 & _).
    assert (Hmiss : forall e2, r2 = Ok e2 -> nonval e2 -> False).
    { intros e2 He2 Hnv. rewrite He2 in EL. destruct (N1 _ _ _ _ _ Hd HP EL) as [_ HQ]. destruct (HQ e2 eq_refl) as [_ HQ3].
      destruct (N4 _ _ _ e2 Hd HP EL Hnv) as [H0|[H0|H0]]; [exact (Hk0 H0)|exact (Hbb i kd Hckd Hdf H0)|].
      exact (no_flag_end _ _ Hb Hnf HQ3 H0). }
    destruct r2 as [[[v|]|]|e| |]; try discriminate E.
    - exact (Hmiss _ eq_refl nonval_miss).
    - exact (Hmiss _ eq_refl nonval_none).
  Qed.
End MemberG.


(* ------------------------------------------------------------------------------------------------------------ *)
(* world-level statements *)

(* nothing else stands for k - WITHOUT the fourth guard of sole_claimant: a TypeSet file of loader i may declare a
   member named like the TypeSet kd itself (a TypeSet that is a member of another TypeSet and has its own file) *)
(* a file at the path derived from k, in whatever loader, is not a definition of k (malformed, misnamed, without
   definition, unreadable): every lookup that reaches it reports its error; in particular: no file there at all *)
Definition no_good_file (w : world) (k : str) : Prop :=
  forall j origins f v, find_existing_path (indexes_of w) j k = Some origins ->
                        file_at (mod_at w j) (hd [] origins) = Some f -> ~ good_for f k v.

Lemma no_file_no_good_file w k : (forall j, find_existing_path (indexes_of w) j k = None) -> no_good_file w k.
Proof. intros H j origins f v F. rewrite H in F. discriminate F. Qed.

Definition sole_claimant3 (w : world) (i : nat) (k : str) : Prop :=
  no_good_file w k /\
  (forall j p f d l m, j <> i -> file_at (mod_at w j) p = Some f -> f_content f = CTypeSet d l -> In m l ->
                       lower (d ++ s_dc ++ m) <> k) /\
  shadow w k = None.

Lemma sole_claimant_3 w i kd k : sole_claimant w i kd k -> sole_claimant3 w i k.
Proof. intros (G1 & G2 & G3 & _). split; [exact (no_file_no_good_file w k G1)|split; [exact G2|exact G3]]. Qed.


(* ... and without the third: the parent may bind k (then the parent's binding is found: FileLoaderParentBound.v) *)
Definition sole_claimant2 (w : world) (i : nat) (k : str) : Prop :=
  no_good_file w k /\
  (forall j p f d l m, j <> i -> file_at (mod_at w j) p = Some f -> f_content f = CTypeSet d l -> In m l ->
                       lower (d ++ s_dc ++ m) <> k).

(* no file at the path derived from k and no TypeSet of another loader with a member of that name, OR a consulted loader has
   a well-formed definition file for the same name at the path derived from it (a name that is both a member and a file:
   corpus member-and-file-N-M) *)
Definition member_claim_ok (w : world) (i : nat) (k : str) : Prop :=
  sole_claimant2 w i k \/ exists j, consulted w k j /\ defined_file w j k.

Lemma member_not_missed_g w fuel ops ctx name s' o rd i kd :
  members_wf w -> clean_run w fuel ops -> lookup_after w fuel ops ctx name = (s', (o, rd)) ->
  ts_member w i kd (norm_name name) -> routed w i kd -> routed w i (norm_name name) ->
  consulted w (norm_name name) i -> consulted w kd i -> member_claim_ok w i (norm_name name) ->
  o <> ONotFound.
Proof.
  intros Hm Hc Hl Hts Hr Hrk Hck Hckd [(G1 & G2)|Hfile].
  - destruct (shadow w (norm_name name)) as [nm|] eqn:G3.
    { apply (parent_bound_not_missed w fuel ops ctx name s' o rd i Hc Hl); [rewrite G3; discriminate|exact Hck]. }
    pose proof (member_parent w i kd _ Hm Hts) as Hpar. pose proof (parent_qualified _ _ Hpar) as Hq.
    destruct Hts as (pts & fts & decl & ms & mn & Ho & Hf & Hcn & Hd & Hin & Hk).
    eapply (member_not_missed_k w i (norm_name name) kd pts fts decl ms mn); eauto.
  - exact (defined_not_missed w fuel ops ctx name s' o rd Hc Hl Hfile).
Qed.

Lemma member_found_g w fuel ops ctx name s' o rd i kd :
  shadow_wf w -> members_wf w -> clean_run w fuel ops ->
  lookup_after w fuel ops ctx name = (s', (o, rd)) -> clean_out (o, rd) = true ->
  ts_member w i kd (norm_name name) -> routed w i kd -> routed w i (norm_name name) ->
  consulted w (norm_name name) i -> consulted w kd i -> member_claim_ok w i (norm_name name) ->
  exists v, o = OFound v /\ tv_name v = norm_name name.
Proof.
  intros Hsh Hm Hc Hl Ho Hts Hr Hrk Hck Hckd Hsc.
  pose proof (member_not_missed_g w fuel ops ctx name s' o rd i kd Hm Hc Hl Hts Hr Hrk Hck Hckd Hsc) as Hnm.
  assert (Hcases : (exists v, o = OFound v) \/ o = ONotFound).
  { unfold lookup_after, step in Hl.
    destruct (load w (LEn w (indexes_of w) fuel) (top_ctx ctx) (norm_name name) (reach w fuel ops)) as [s1 r1].
    inversion Hl; subst. destruct r1 as [[v|]|e| |]; cbn [out_of_res clean_out fst] in *; try discriminate Ho;
      [left; eexists; reflexivity|right; reflexivity]. }
  destruct Hcases as [[v Hv]|Hv]; [subst o|congruence]. exists v. split; [reflexivity|].
  exact (found_carries_name w fuel ops ctx name s' v rd Hsh Hl).
Qed.

(* the TypeSet's own file wins in an error-free run: between the operations, the entry of loader i for the name of a
   TypeSet file never holds a value that is not a TypeSet (a member value written over the placeholder of the
   instantiation in progress makes that instantiation fail with a redefinition error) *)
Lemma typeset_entry_is_typeset w fuel ops i kd k v :
  members_wf w -> clean_run w fuel ops ->
  ts_member w i kd k -> routed w i kd -> routed w i k -> consulted w k i -> consulted w kd i -> sole_claimant3 w i k ->
  get_entry (reach w fuel ops) i kd = Some (Some v) -> tv_ts v = true.
Proof.
  intros Hm Hc Hts Hr Hrk Hck Hckd (G1 & G2 & G3) Hv.
  pose proof (member_parent w i kd _ Hm Hts) as Hpar. pose proof (parent_qualified _ _ Hpar) as Hq.
  destruct Hts as (pts & fts & decl & ms & mn & Ho & Hf & Hcn & Hd & Hin & Hk).
  destruct (reach_B2 w i k kd pts fts decl ms mn Ho Hf Hcn Hd Hin Hk Hr Hrk Hck Hckd Hpar Hq G1 G2 G3 fuel ops Hc)
    as (_ & _ & _ & Hnf).
  destruct (tv_ts v) eqn:Et; [reflexivity|]. exfalso. apply Hnf. exists v. split; [exact Hv|exact Et].
Qed.

(* ---- decidable forms ---- *)
Definition no_good_file_b (w : world) (k : str) : bool :=
  forallb (fun j => match find_existing_path (indexes_of w) j k with
                    | None => true
                    | Some origins => match file_at (mod_at w j) (hd [] origins) with
                                      | Some f => negb (good_for_b f k)
                                      | None => true
                                      end
                    end) (seq 0 (length (w_mods w))).

Lemma good_for_b_of f k v : good_for f k v -> good_for_b f k = true.
Proof.
  unfold good_for, good_for_b. destruct (f_content f); try contradiction.
  - intros [H _]. rewrite H. apply str_eqb_refl.
  - reflexivity.
  - intros [H _]. rewrite H. apply str_eqb_refl.
Qed.

Lemma no_good_file_b_true w k : no_good_file_b w k = true -> no_good_file w k.
Proof.
  unfold no_good_file_b. rewrite forallb_forall. intros H j origins f v F Hf Hg.
  destruct (Nat.lt_ge_cases j (length (w_mods w))) as [Hj|Hj].
  - specialize (H j ltac:(apply in_seq; lia)). rewrite F, Hf in H. rewrite (good_for_b_of f k v Hg) in H. discriminate H.
  - rewrite (mod_at_overflow w j Hj) in Hf. discriminate Hf.
Qed.

Definition sole3_b (w : world) (i : nat) (k : str) : bool :=
  no_good_file_b w k &&
  forallb (fun j => (j =? i) || forallb (no_member_named k) (m_walk (mod_at w j))) (seq 0 (length (w_mods w))) &&
  match shadow w k with None => true | Some _ => false end.

Lemma sole3_b_true w i k : sole3_b w i k = true -> sole_claimant3 w i k.
Proof.
  unfold sole3_b. rewrite !andb_true_iff. intros [[H1 H2] H3]. rewrite forallb_forall in H2.
  split; [|split].
  - exact (no_good_file_b_true w k H1).
  - intros j p f d l m Hne Hf Hc Hin. destruct (Nat.lt_ge_cases j (length (w_mods w))) as [Hj|Hj].
    + specialize (H2 j ltac:(apply in_seq; lia)). apply orb_true_iff in H2. destruct H2 as [H2|H2]; [apply Nat.eqb_eq in H2; contradiction|].
      rewrite forallb_forall in H2. exact (no_member_named_ok k f d l m (H2 f (file_at_in _ _ _ Hf)) Hc Hin).
    + rewrite (mod_at_overflow w j Hj) in Hf. discriminate Hf.
  - destruct (shadow w k); [discriminate H3|reflexivity].
Qed.

Definition sole2_b (w : world) (i : nat) (k : str) : bool :=
  no_good_file_b w k &&
  forallb (fun j => (j =? i) || forallb (no_member_named k) (m_walk (mod_at w j))) (seq 0 (length (w_mods w))).

Lemma sole2_b_true w i k : sole2_b w i k = true -> sole_claimant2 w i k.
Proof.
  unfold sole2_b. rewrite !andb_true_iff. intros [H1 H2]. rewrite forallb_forall in H2.
  split.
  - exact (no_good_file_b_true w k H1).
  - intros j p f d l m Hne Hf Hc Hin. destruct (Nat.lt_ge_cases j (length (w_mods w))) as [Hj|Hj].
    + specialize (H2 j ltac:(apply in_seq; lia)). apply orb_true_iff in H2. destruct H2 as [H2|H2]; [apply Nat.eqb_eq in H2; contradiction|].
      rewrite forallb_forall in H2. exact (no_member_named_ok k f d l m (H2 f (file_at_in _ _ _ Hf)) Hc Hin).
    + rewrite (mod_at_overflow w j Hj) in Hf. discriminate Hf.
Qed.

Definition member_claim3_b (w : world) (i : nat) (k : str) : bool :=
  match parent_name k with
  | Some kd =>
      if existsb (fun f => match f_content f with CTypeSet d _ => str_eqb (lower d) kd | _ => false end) (m_walk (mod_at w i))
      then ts_member_b w i kd k && routed_b w i kd && routed_b w i k && consulted_b w k i && consulted_b w kd i &&
           (sole2_b w i k || has_def_file_b w k)
      else false
  | None => false
  end.

Lemma member_claim3_not_missed w fuel ops ctx name s' o rd i :
  members_wf w -> clean_run w fuel ops -> lookup_after w fuel ops ctx name = (s', (o, rd)) ->
  member_claim3_b w i (norm_name name) = true -> o <> ONotFound.
Proof.
  intros Hm Hc Hl Hb. unfold member_claim3_b in Hb. destruct (parent_name (norm_name name)) as [kd|]; [|discriminate Hb].
  match type of Hb with (if ?c then _ else _) = true => destruct c; [|discriminate Hb] end.
  rewrite !andb_true_iff in Hb. destruct Hb as [[[[[B1 B2] B3] B4] B5] B6].
  eapply (member_not_missed_g w fuel ops ctx name s' o rd i kd); eauto.
  - apply ts_member_b_true; exact B1.
  - apply routed_b_true; exact B2.
  - apply routed_b_true; exact B3.
  - apply consulted_b_iff; exact B4.
  - apply consulted_b_iff; exact B5.
  - apply orb_true_iff in B6. destruct B6 as [B6|B6]; [left; apply sole2_b_true; exact B6|right; apply has_def_file_b_true; exact B6].
Qed.

Definition has_member_claim3_b (w : world) (k : str) : bool :=
  existsb (fun i => member_claim3_b w i k) (seq 0 (length (w_mods w))).

(* member_claim3_not_missed read on a list of outcomes *)
Fixpoint mem_ok3_from (w : world) (ops : list op) (outs : list (out * list (nat * str))) : bool :=
  match ops, outs with
  | o :: ops', x :: outs' =>
      if clean_out x then
        match o, fst x with
        | OpLoad _ name, ONotFound => negb (has_member_claim3_b w (norm_name name))
        | _, _ => true
        end && mem_ok3_from w ops' outs'
      else true
  | _, _ => true
  end.
